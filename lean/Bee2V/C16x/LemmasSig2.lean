/-
C16 — lemmas for the bign96 theorems: public keys, the modular algebra
`s1 = k - (s0 + 2^103) d - H  ⇒  (s1 + H) + (s0 + 2^103) d ≡ k (mod q)`, `signWith` against `verify`.
-/
import Bee2V.C16x.LemmasSig
namespace Bee2V.C16.Sig
open Bee2V.C16

variable {G : Type} [AddCommGroup G]

/-! ### the group part -/

theorem e_xy_some {E : ECtx G} (L : ELaws E) {P : G} (hP : P ≠ 0) : ∃ x y, E.xy P = some (x, y) := by
  cases h : E.xy P with
  | none => exact absurd ((L.xy_none P).1 h) hP
  | some v => exact ⟨v.1, v.2, rfl⟩

theorem e_ne_of_xy {E : ECtx G} (L : ELaws E) {P : G} {v : Nat × Nat} (h : E.xy P = some v) : P ≠ 0 := by
  intro h0
  rw [(L.xy_none P).2 h0] at h
  cases h

theorem e_xy_base_mul {E : ECtx G} (L : ELaws E) {d : Nat} (h0 : 0 < d) (hq : d < E.q) :
    ∃ x y, E.xy (E.smul d E.base) = some (x, y) := by
  rw [L.smul_eq]
  exact e_xy_some L (base_mul_ne L.order h0 hq)

/-! ### bign96 sizes -/

variable {C : B96 G}

theorem b_q_pos (L : B96Laws C) : 0 < C.q := L.q_prime.pos

theorem b_q_lt_W (L : B96Laws C) : C.q < W192 := L.q_hi

theorem b_W_lt_2q (L : B96Laws C) : W192 < 2 * C.q := by
  have h := L.q_lo
  have : W192 = 2 * 2 ^ 191 := by unfold W192; rw [← Nat.pow_succ']
  omega

theorem b_pow24 : 256 ^ 24 = W192 := by
  unfold W192; rw [pow256]

theorem b_leNat24 {b : Bytes} (h : b.length = 24) : leNat b < W192 := by
  have := leNat_lt b
  rw [h, b_pow24] at this
  exact this

theorem b_leNat_natLE (L : B96Laws C) {v : Nat} (h : v < C.q) : leNat (natLE 24 v) = v := by
  apply leNat_natLE_of_lt
  rw [b_pow24]
  exact Nat.lt_trans h (b_q_lt_W L)

theorem b_encXY_length (v : Nat × Nat) : (B96.encXY v).length = 48 := by
  simp [B96.encXY, natLE_length]

theorem b_hash80_length (L : B96Laws C) (m : Bytes) : (B96.hash80 C m).length = 10 := by
  simp [B96.hash80, L.hash_len]

/-! ### public keys -/

theorem b_loadPub_encXY (L : B96Laws C) {P : G} {x y : Nat} (h : C.xy P = some (x, y)) :
    B96.loadPub C (B96.encXY (x, y)) = some P := by
  obtain ⟨hx, hy⟩ := L.xy_lt P x y h
  unfold B96.loadPub B96.encXY
  simp only [take_natLE_append, drop_natLE_append]
  rw [leNat_natLE_of_lt (by rw [b_pow24]; exact hx), leNat_natLE_of_lt (by rw [b_pow24]; exact hy)]
  exact L.ofXY_xy P x y h

/-- a 48-octet string that decodes to P is the encoding of the coordinates of P -/
theorem b_encXY_of_loadPub (L : B96Laws C) {pub : Bytes} (hl : pub.length = 48) {P : G}
    (h : B96.loadPub C pub = some P) :
    C.xy P = some (leNat (pub.take 24), leNat (pub.drop 24)) ∧
    B96.encXY (leNat (pub.take 24), leNat (pub.drop 24)) = pub := by
  refine ⟨L.xy_ofXY _ _ _ h, ?_⟩
  unfold B96.encXY
  exact natLE_take_drop 24 pub (by omega)

/-! ### the algebra of the signature -/

/-- the value of `signS1` is reduced and satisfies the verifier's congruence -/
theorem b_signS1 (L : B96Laws C) {s0 Hb : Bytes} {d k : Nat} (hk : k < C.q) (hH : Hb.length = 24) :
    B96.signS1 C s0 d k Hb < C.q ∧
    ((B96.signS1 C s0 d k Hb + leNat Hb % C.q) % C.q + B96.s0Full s0 * d) % C.q = k % C.q := by
  have hq := b_q_pos L
  have ht : (B96.s0Full s0 * d) % C.q < C.q := Nat.mod_lt _ hq
  have hh : leNat Hb % C.q < C.q := Nat.mod_lt _ hq
  have e : B96.signS1 C s0 d k Hb
      = ((k + (C.q - (B96.s0Full s0 * d) % C.q)) % C.q + (C.q - leNat Hb % C.q)) % C.q := by
    unfold B96.signS1
    simp only
    rw [subMod_eq hk ht (b_q_lt_W L), redOnce_eq (b_leNat24 hH) (b_W_lt_2q L),
      subMod_eq (Nat.mod_lt _ hq) hh (b_q_lt_W L)]
  rw [e]
  refine ⟨Nat.mod_lt _ hq, ?_⟩
  apply mod_eq_of_cast
  push_cast [ZMod.natCast_mod, Nat.cast_sub hh.le, Nat.cast_sub ht.le, ZMod.natCast_self]
  ring

/-- `signWith` with a one-time key in [1, q-1] never fails and has the shape s0 ‖ s1 -/
theorem b_signWith (L : B96Laws C) (oid Hb : Bytes) (d : Nat) {k : Nat} (hk0 : 0 < k) (hkq : k < C.q) :
    ∃ x y, C.xy (k • C.base) = some (x, y) ∧
      B96.signWith C oid Hb d k = (.ok, B96.hash80 C (oid ++ natLE 24 x ++ Hb) ++
        natLE 24 (B96.signS1 C (B96.hash80 C (oid ++ natLE 24 x ++ Hb)) d k Hb)) := by
  obtain ⟨x, y, hxy⟩ := e_xy_some L.toELaws (base_mul_ne L.order hk0 hkq)
  refine ⟨x, y, hxy, ?_⟩
  unfold B96.signWith
  rw [L.smul_eq, hxy]

theorem b_signWith_length (L : B96Laws C) (oid Hb : Bytes) (d : Nat) {k : Nat} (hk0 : 0 < k) (hkq : k < C.q) :
    (B96.signWith C oid Hb d k).1 = .ok ∧ (B96.signWith C oid Hb d k).2.length = 34 := by
  obtain ⟨x, y, _, hs⟩ := b_signWith L oid Hb d hk0 hkq
  rw [hs]
  simp [b_hash80_length L, natLE_length]

/-- whatever `signWith` returns for a one-time key in [1, q-1] passes `verify` under the public key dG -/
theorem b_verify_signWith (L : B96Laws C) {oid Hb pub : Bytes} (ho : C.oidOk oid = true)
    (hH : Hb.length = 24) {d k : Nat} (hk0 : 0 < k) (hkq : k < C.q)
    (hp : B96.loadPub C pub = some (d • C.base)) :
    B96.verify C oid Hb (B96.signWith C oid Hb d k).2 pub = .ok := by
  have hq := b_q_pos L
  obtain ⟨x, y, hxy, hs⟩ := b_signWith L oid Hb d hk0 hkq
  rw [hs]
  generalize hs0 : B96.hash80 C (oid ++ natLE 24 x ++ Hb) = s0b
  have hl0 : s0b.length = 10 := by rw [← hs0]; exact b_hash80_length L _
  obtain ⟨hs1q, hc⟩ := b_signS1 (s0 := s0b) (d := d) L hkq hH
  generalize B96.signS1 C s0b d k Hb = s1 at hs1q hc
  have htake : (s0b ++ natLE 24 s1).take 10 = s0b := by
    rw [← hl0]; exact List.take_left' rfl
  have hdrop : (s0b ++ natLE 24 s1).drop 10 = natLE 24 s1 := by
    rw [← hl0]; exact List.drop_left' rfl
  unfold B96.verify
  simp only [ho, hp, htake, hdrop, b_leNat_natLE L hs1q, Bool.not_true, Bool.false_eq_true, if_false]
  rw [if_neg (by omega)]
  rw [redOnce_eq (b_leNat24 hH) (b_W_lt_2q L), addMod_eq hs1q (Nat.mod_lt _ hq) (b_q_lt_W L)]
  rw [L.smul_eq, L.smul_eq, L.add_eq, ← mul_nsmul', ← add_nsmul]
  rw [nsmul_congr L.order hc, hxy]
  simp only [hs0, if_true]

omit [AddCommGroup G] in
/-- the nonce of bign96Sign2, when the loop finishes, lies in [1, q-1] -/
theorem b_nonceLoop_range (C : B96 G) (θ : Bytes) : ∀ (fuel round : Nat) (k0 : Bytes) (k : Nat),
    B96.nonceLoop C θ fuel round k0 = some k → 0 < k ∧ k < C.q := by
  intro fuel
  induction fuel with
  | zero => intro round k0 k h; simp [B96.nonceLoop] at h
  | succ n ih =>
    intro round k0 k h
    simp only [B96.nonceLoop] at h
    split at h
    · rename_i hc
      simp only [Option.some.injEq] at h
      omega
    · exact ih _ _ _ h

end Bee2V.C16.Sig

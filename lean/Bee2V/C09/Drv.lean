/-
Driver side of C09:
  chk <function> <scalars…>   the regenerated argument-check cascade of <function> on the scalar
                              arguments, all pointers valid:  `pass` or the err_t number
  path …                      see Bee2V.C15.Drv
-/
import Bee2V.C15.Drv
import Bee2V.Gen.C09Checks
namespace Bee2V.C09.Drv
open Bee2V.Proto

def handleChk : List String → String
  | name :: args =>
    match args.mapM parseNat with
    | none => "bad-op"
    | some a =>
      match Bee2V.Gen.C09Checks.evalCheck name a.toArray with
      | none => "unknown"
      | some none => "pass"
      | some (some e) => toString e
  | _ => "bad-op"

end Bee2V.C09.Drv

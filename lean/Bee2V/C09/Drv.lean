/-
Driver side of C09:
  chk <function> <scalars…>   the regenerated argument-check cascade of <function> on the scalar
                              arguments, all pointers valid:  `pass` or the err_t number
  path …                      see Bee2V.C15.Drv
  keyclass / ptclass          the Spec's verdict on a private key / a point (boundary sweep)
-/
import Bee2V.C15.Drv
import Bee2V.Gen.C09Checks
import Bee2V.C09.Spec
namespace Bee2V.C09.Drv
open Bee2V.Proto

def handleChk : List String → String
  | name :: args =>
    match args.mapM parseNat with
    | none => "bad-op"
    | some a =>
      match Bee2V.Gen.C09Checks.evalCheck name a.toArray with
      | none => "unknown"
      | some none => "pass"
      | some (some e) => toString e
  | _ => "bad-op"

/-- `keyclass <d hex LE> <q hex LE> <z|n>` -> `valid` / `504` (z: zero is a valid key) -/
def handleKey : List String → String
  | [d, q, z] =>
    match parseHex d, parseHex q with
    | some d, some q =>
      let d := leNat d; let q := leNat q
      if (if z == "z" then decide (Spec.PrivkeyOkZ d q) else decide (Spec.PrivkeyOk d q)) then "valid" else "504"
    | _, _ => "bad-op"
  | _ => "bad-op"

/-- `ptclass <p> <a> <b> <x> <y>` (hex LE) -> `valid` / `505` -/
def handlePt : List String → String
  | [p, a, b, x, y] =>
    match parseHex p, parseHex a, parseHex b, parseHex x, parseHex y with
    | some p, some a, some b, some x, some y =>
      if decide (Spec.PointOk (leNat p) (leNat a) (leNat b) (leNat x) (leNat y)) then "valid" else "505"
    | _, _, _, _, _ => "bad-op"
  | _ => "bad-op"

end Bee2V.C09.Drv

/-
C09 — error contract: failed allocations yield errors, not damage; no unauthenticated output.

Property theorems about the control-flow skeletons (`Bee2V.Gen.CfgAll`, regenerated from the
sources).  The per-function obligations (`allocFailSafe cfg_f = true`, `releaseSafe d cfg_f =
true`, and the argument-contract theorems `contract_f`) are in `Bee2V/Gen/C09Obl.lean`.

* `allocFailSafe_sound` — on EVERY path: a blob whose allocation failed is never used before it
  is re-assigned (`NoNullUse`); and if some blobCreate/blobResize on the path returned 0
  (`IsAllocFailure`: events allocFail, resizeFail, resizeKeep) then the
  function returns a value known to differ from ERR_OK and every blob it did obtain has been
  closed (`ClosesAll`: nothing is left allocated).
* `verifyFirst_sound` — on every path that calls a verification routine (MAC / key-token
  check), no write to the designated output precedes the first such call.
* `releaseSafe_sound` — on every path that does not return a value known to be ERR_OK, every
  write to the designated output is followed by a zeroisation of it (in particular: paths that
  fail before the first write never touch it).
-/
import Bee2V.C15.Trace
namespace Bee2V.C09
open Bee2V.C15

/-- **Soundness of `allocFailSafe`.** -/
theorem allocFailSafe_sound (c : Cfg) (h : allocFailSafe c = true) :
    ∀ (tr : List Ev) (s' : St) (r : CS), Exec c St.init tr s' (.ret r) →
      NoNullUse tr ∧
      ((∃ e ∈ tr, IsAllocFailure e) → r = .bad ∧ ClosesAll tr) := by
  intro tr s' r hx
  simp only [allocFailSafe, Bool.and_eq_true, List.all_eq_true] at h
  have hm := reach_sound hx [St.init] h.1 (by simp)
  have hp := h.2 (s', r) hm
  simp only [Bool.not_eq_true', Bool.or_eq_true, Bool.and_eq_true, decide_eq_true_eq] at hp
  have hf := exec_fold hx
  subst hf
  refine ⟨noNullUse_of_fold tr St.init hp.1, ?_⟩
  intro hv
  have hfail := failed_of_mem tr St.init hv
  rcases hp.2 with h0 | ⟨⟨h1, h2⟩, h3⟩
  · rw [hfail] at h0; cases h0
  · exact ⟨h1, closesAll_of_fold tr St.init h2 h3⟩

/-- **Soundness of `releaseSafe`.** -/
theorem releaseSafe_sound (d : Nat) (c : Cfg) (h : releaseSafe d c = true) :
    ∀ (tr : List Ev) (s' : St) (r : CS), Exec c St.init tr s' (.ret r) → r ≠ .ok →
      CleanOutput d tr := by
  intro tr s' r hx hr
  simp only [releaseSafe, Bool.and_eq_true, List.all_eq_true] at h
  have hm := reach_sound hx [St.init] h.1 (by simp)
  have hp := h.2 (s', r) hm
  simp only [Bool.or_eq_true, decide_eq_true_eq, Bool.not_eq_true'] at hp
  have hf := exec_fold hx
  subst hf
  rcases hp with h0 | h0
  · exact absurd h0 hr
  · exact cleanOutput_of_fold d tr St.init h0

/-- **Soundness of `verifyFirst`.** -/
theorem verifyFirst_sound (d : Nat) (c : Cfg) (h : verifyFirst d c = true) :
    ∀ (tr : List Ev) (s' : St) (r : CS), Exec c St.init tr s' (.ret r) → VerifyFirst d tr := by
  intro tr s' r hx
  simp only [verifyFirst, Bool.and_eq_true, List.all_eq_true] at h
  have hm := reach_sound hx [St.init] h.1 (by simp)
  have hp := h.2 (s', r) hm
  simp only [Bool.or_eq_true, Bool.not_eq_true'] at hp
  have hf := exec_fold hx
  subst hf
  rcases hp with h0 | h0
  · intro hmem
    rw [vfy_of_mem tr St.init hmem] at h0
    cases h0
  · exact verifyFirst_of_fold d tr St.init rfl h0

/-! non-vacuity: small skeletons on which the checkers say yes / no -/

/-- allocation failure handled: `if (state == 0) return ERR_OUTOFMEMORY;` -/
example : allocFailSafe (Cfg.seqs [.alloc 0, .ifnull 0 (.ret (.err 110)) .skip, .atom [.use 0], .atom [.close 0], .ret .ok]) = true := by decide
/-- null check missing -/
example : allocFailSafe (Cfg.seqs [.alloc 0, .atom [.use 0], .atom [.close 0], .ret .ok]) = false := by decide
/-- second allocation fails, first blob not closed -/
example : allocFailSafe (Cfg.seqs [.alloc 0, .ifnull 0 (.ret (.err 110)) .skip, .alloc 1,
    .ifnull 1 (.ret (.err 110)) .skip, .atom [.close 1], .atom [.close 0], .ret .ok]) = false := by decide
/-- `M = blobResize(M, n)` failing loses the old block -/
example : allocFailSafe (Cfg.seqs [.atom [.setnull 0], .loop (Cfg.seqs [.resize 0, .ifnull 0 (.ret (.err 110)) .skip]),
    .atom [.close 0], .ret .ok]) = false := by decide
/-- verify, then write (DWP shape) / write, verify, zeroise on failure (KWP shape) / no zeroisation -/
example : releaseSafe 0 (Cfg.seqs [.ite 0 (.ret (.err 511)) .skip, .atom [.wr 0], .ret .ok]) = true := by decide
example : releaseSafe 0 (Cfg.seqs [.atom [.wr 0], .ite 0 (Cfg.seqs [.atom [.zero 0], .ret (.err 513)]) .skip, .ret .ok]) = true := by decide
example : releaseSafe 0 (Cfg.seqs [.atom [.wr 0], .ite 0 (.ret (.err 513)) .skip, .ret .ok]) = false := by decide
/-- verification first / write before the verification call -/
example : verifyFirst 0 (Cfg.seqs [.atom [.call 0], .atom [.vfy], .ifcode (.ret .code) .skip, .atom [.wr 0], .ret .ok]) = true := by decide
example : verifyFirst 0 (Cfg.seqs [.atom [.wr 0], .atom [.call 0], .atom [.vfy], .ifcode (.ret .code) .skip, .ret .ok]) = false := by decide
/-- the hypotheses of the theorems are satisfiable by a path with a failed allocation -/
example : Exec (Cfg.seqs [.alloc 0, .ifnull 0 (.ret (.err 110)) .skip, .atom [.close 0], .ret .ok])
    St.init [.allocFail 0] (St.init.apply (.allocFail 0)) (.ret .bad) := by
  have h1 : Exec (Cfg.alloc 0) St.init [.allocFail 0] (St.init.apply (.allocFail 0)) .norm := Exec.atom (by simp)
  have h2 : Exec (.ifnull 0 (.ret (.err 110)) .skip) (St.init.apply (.allocFail 0)) [] (St.init.apply (.allocFail 0)) (.ret .bad) :=
    Exec.ifnullT (by decide) (by decide) Exec.ret
  exact Exec.seqN h1 (Exec.seqX (b := Cfg.seqs [.atom [.close 0], .ret .ok]) h2 (by simp))

end Bee2V.C09

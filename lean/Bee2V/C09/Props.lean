/-
C09 — error contract: failed allocations yield errors, not damage; no unauthenticated output.

Property theorems about the control-flow skeletons (`Bee2V.Gen.CfgAll`, regenerated from the
sources).  The per-function obligations (`allocFailSafe cfg_f = true`, `releaseSafe d cfg_f =
true`, and the argument-contract theorems `contract_f`) are in `Bee2V/Gen/C09Obl.lean`.

* `allocFailSafe_sound` — on EVERY path: a blob whose allocation failed is never used before it
  is re-assigned (`NoNullUse`); and if some blobCreate/blobResize on the path returned 0
  (`IsAllocFailure`: events allocFail, resizeFail, resizeKeep, and calleeFail = an allocating
  err_t callee whose result the code discards) then the
  function returns a value known to differ from ERR_OK and every blob it did obtain has been
  closed (`ClosesAll`: nothing is left allocated).
* `verifyFirst_sound` — on every path that calls a verification routine (MAC / key-token
  check), at every write to the designated output the authentication automaton `vstate` of the
  trace so far is `passed`: the most recent verification call precedes the write, its RESULT has been
  tested (directly, or through `code` with no assignment in between) and the test said success.
* `errorSticky_sound` — on every path: after `code` has been assigned an error constant or tested `!= ERR_OK`,
  it is never assigned ERR_OK or a fresh value again and no output is written (memSetZero / memWipe excepted).
* `classes_complete` — the class constants seen on any path are among the syntactic `Cfg.classes`.
* `releaseSafe_sound` — on every path that does not return a value known to be ERR_OK, every
  write to the designated output is followed by a zeroisation of it (in particular: paths that
  fail before the first write never touch it).
-/
import Bee2V.C15.Trace
namespace Bee2V.C09
open Bee2V.C15

/-- **Soundness of `allocFailSafe`.** -/
theorem allocFailSafe_sound (c : Cfg) (h : allocFailSafe c = true) :
    ∀ (tr : List Ev) (s' : St) (r : CS), Exec c St.init tr s' (.ret r) →
      NoNullUse tr ∧
      ((∃ e ∈ tr, IsAllocFailure e) → r = .bad ∧ ClosesAll tr) := by
  intro tr s' r hx
  simp only [allocFailSafe, Bool.and_eq_true, List.all_eq_true] at h
  have hm := reach_sound hx [St.init] h.1 (by simp)
  have hp := h.2 (s', r) hm
  simp only [Bool.not_eq_true', Bool.or_eq_true, Bool.and_eq_true, decide_eq_true_eq] at hp
  have hf := exec_fold hx
  subst hf
  refine ⟨noNullUse_of_fold tr St.init hp.1, ?_⟩
  intro hv
  have hfail := failed_of_mem tr St.init hv
  rcases hp.2 with h0 | ⟨⟨h1, h2⟩, h3⟩
  · rw [hfail] at h0; cases h0
  · exact ⟨h1, closesAll_of_fold tr St.init h2 h3⟩

/-- **Soundness of `releaseSafe`.** -/
theorem releaseSafe_sound (d : Nat) (c : Cfg) (h : releaseSafe d c = true) :
    ∀ (tr : List Ev) (s' : St) (r : CS), Exec c St.init tr s' (.ret r) → r ≠ .ok →
      CleanOutput d tr := by
  intro tr s' r hx hr
  simp only [releaseSafe, Bool.and_eq_true, List.all_eq_true] at h
  have hm := reach_sound hx [St.init] h.1 (by simp)
  have hp := h.2 (s', r) hm
  simp only [Bool.or_eq_true, decide_eq_true_eq, Bool.not_eq_true'] at hp
  have hf := exec_fold hx
  subst hf
  rcases hp with h0 | h0
  · exact absurd h0 hr
  · exact cleanOutput_of_fold d tr St.init h0

/-- **Soundness of `verifyFirst`.** -/
theorem verifyFirst_sound (d : Nat) (c : Cfg) (h : verifyFirst d c = true) :
    ∀ (tr : List Ev) (s' : St) (r : CS), Exec c St.init tr s' (.ret r) → VerifyFirst d tr := by
  intro tr s' r hx
  simp only [verifyFirst, Bool.and_eq_true, List.all_eq_true] at h
  have hm := reach_sound hx [St.init] h.1 (by simp)
  have hp := h.2 (s', r) hm
  simp only [Bool.or_eq_true, Bool.not_eq_true', decide_eq_true_eq] at hp
  have hf := exec_fold hx
  subst hf
  exact verifyFirst_of_fold d tr hp

/-- **Soundness of `errorSticky`.** -/
theorem errorSticky_sound (c : Cfg) (h : errorSticky c = true) :
    ∀ (tr : List Ev) (s' : St) (r : CS), Exec c St.init tr s' (.ret r) → ErrorSticky tr := by
  intro tr s' r hx
  simp only [errorSticky, Bool.and_eq_true, List.all_eq_true] at h
  have hm := reach_sound hx [St.init] h.1 (by simp)
  have hp := h.2 (s', r) hm
  simp only [Bool.and_eq_true, Bool.not_eq_true'] at hp
  have hf := exec_fold hx
  subst hf
  exact errorSticky_of_fold tr St.init hp.1 hp.2

/-- Every error-class constant that a path returns or assigns to `code` (event `cls n`) occurs
syntactically in the skeleton: `Cfg.classes` over-approximates what the function can produce by
itself, which is what the `class_<f>_<E>` obligations (documented class E is producible) rely on. -/
theorem classes_complete (c : Cfg) (s s' : St) (tr : List Ev) (o : Out) (hx : Exec c s tr s' o) :
    ∀ n, Ev.cls n ∈ tr → n ∈ c.classes := by
  intro n hn
  rcases exec_events hx _ hn with h | ⟨x, h⟩
  · simp only [Cfg.classes, List.mem_filterMap]
    exact ⟨_, h, rfl⟩
  · cases h

/-! non-vacuity: small skeletons on which the checkers say yes / no -/

/-- allocation failure handled: `if (state == 0) return ERR_OUTOFMEMORY;` -/
example : allocFailSafe (Cfg.seqs [.alloc 0, .ifnull 0 (.ret (.err 110)) .skip, .atom [.use 0], .atom [.close 0], .ret .ok]) = true := by decide
/-- null check missing -/
example : allocFailSafe (Cfg.seqs [.alloc 0, .atom [.use 0], .atom [.close 0], .ret .ok]) = false := by decide
/-- second allocation fails, first blob not closed -/
example : allocFailSafe (Cfg.seqs [.alloc 0, .ifnull 0 (.ret (.err 110)) .skip, .alloc 1,
    .ifnull 1 (.ret (.err 110)) .skip, .atom [.close 1], .atom [.close 0], .ret .ok]) = false := by decide
/-- `M = blobResize(M, n)` failing loses the old block -/
example : allocFailSafe (Cfg.seqs [.atom [.setnull 0], .loop (Cfg.seqs [.resize 0, .ifnull 0 (.ret (.err 110)) .skip]),
    .atom [.close 0], .ret .ok]) = false := by decide
/-- the result of an allocating err_t callee is discarded -/
example : allocFailSafe (Cfg.seqs [.atom [.call 0, .calleeFail 0], .ret .ok]) = false := by decide
/-- a recorded error is overwritten by a later `code = cond ? ERR_OK : ERR_X` / an output is written after it /
the usual `code = ERR_X; … zeroise; return code` is fine -/
example : errorSticky (Cfg.seqs [.ite 0 (.atom [.code .bad]) .skip, .atom [.code .unk], .ret .code]) = false := by decide
example : errorSticky (Cfg.seqs [.ite 0 (.atom [.code .bad]) .skip, .atom [.wr 0], .ret .code]) = false := by decide
example : errorSticky (Cfg.seqs [.atom [.wr 0], .ite 0 (Cfg.seqs [.atom [.zero 0], .atom [.code .bad]]) .skip, .ret .code]) = true := by decide
/-- verify, then write (DWP shape) / write, verify, zeroise on failure (KWP shape) / no zeroisation -/
example : releaseSafe 0 (Cfg.seqs [.ite 0 (.ret (.err 511)) .skip, .atom [.wr 0], .ret .ok]) = true := by decide
example : releaseSafe 0 (Cfg.seqs [.atom [.wr 0], .ite 0 (Cfg.seqs [.atom [.zero 0], .ret (.err 513)]) .skip, .ret .ok]) = true := by decide
example : releaseSafe 0 (Cfg.seqs [.atom [.wr 0], .ite 0 (.ret (.err 513)) .skip, .ret .ok]) = false := by decide
/-- verification first / write before the verification call -/
example : verifyFirst 0 (Cfg.seqs [.atom [.call 0], .atom [.vcall true], .ifcode (.ret .code) .skip, .atom [.wr 0], .ret .ok]) = true := by decide
example : verifyFirst 0 (Cfg.seqs [.atom [.wr 0], .atom [.call 0], .atom [.vcall true], .ifcode (.ret .code) .skip, .ret .ok]) = false := by decide
/-- the result of the verification call is NOT tested before the write / is overwritten first -/
example : verifyFirst 0 (Cfg.seqs [.atom [.call 0], .atom [.vcall true], .atom [.wr 0], .ifcode (.ret .code) .skip, .ret .ok]) = false := by decide
example : verifyFirst 0 (Cfg.seqs [.atom [.call 0], .atom [.vcall true], .atom [.code .unk], .ifcode (.ret .code) .skip, .atom [.wr 0], .ret .ok]) = false := by decide
/-- boolean verifier tested at once: `if (!V(..)) return ERR_BAD_MAC;` then write -/
example : verifyFirst 0 (Cfg.seqs [.atom [.vcall false], .ite 0 (Cfg.seqs [.atom [.vres false], .ret (.err 511)]) (.atom [.vres true]), .atom [.wr 0], .ret .ok]) = true := by decide
/-- the write sits in the arm taken when the verifier said NO -/
example : verifyFirst 0 (Cfg.seqs [.atom [.vcall false], .ite 0 (Cfg.seqs [.atom [.vres false], .atom [.wr 0], .ret (.err 511)]) (.atom [.vres true]), .ret .ok]) = false := by decide
example : vstate [.vcall true, .test .ok] = .passed ∧ vstate [.vcall true, .code .ok, .test .ok] = .failed ∧
    vstate [.vcall false, .vres true, .vcall false] = .pending := by decide
/-- the hypotheses of the theorems are satisfiable by a path with a failed allocation -/
example : Exec (Cfg.seqs [.alloc 0, .ifnull 0 (.ret (.err 110)) .skip, .atom [.close 0], .ret .ok])
    St.init [.allocFail 0] (St.init.apply (.allocFail 0)) (.ret .bad) := by
  have h1 : Exec (Cfg.alloc 0) St.init [.allocFail 0] (St.init.apply (.allocFail 0)) .norm := Exec.atom (by simp)
  have h2 : Exec (.ifnull 0 (.ret (.err 110)) .skip) (St.init.apply (.allocFail 0)) [] (St.init.apply (.allocFail 0)) (.ret .bad) :=
    Exec.ifnullT (by decide) Exec.ret
  exact Exec.seqN h1 (Exec.seqX (b := Cfg.seqs [.atom [.close 0], .ret .ok]) h2 (by simp))

end Bee2V.C09

/-
C09 — what "key / point in range" means (STB 34.101.45 and the headers' "… корректен"):
executable, no Mathlib (the driver imports this file).
-/
namespace Bee2V.C09.Spec

/-- private key of bign / bign96 / g12s / dstu: d ∈ {1, …, q − 1} -/
def PrivkeyOk (d q : Nat) : Prop := 0 < d ∧ d < q
/-- keys that may be zero: identity-based private key of bign (an element of Z_q), pfok private key (an
r-bit number, bound = 2^r; pfokKeypairGen itself may produce 0) -/
def PrivkeyOkZ (d q : Nat) : Prop := d < q

instance (d q : Nat) : Decidable (PrivkeyOk d q) := by unfold PrivkeyOk; infer_instance
instance (d q : Nat) : Decidable (PrivkeyOkZ d q) := by unfold PrivkeyOkZ; infer_instance

/-- affine point of the curve y² = x³ + a x + b over F_p, canonically encoded -/
def PointOk (p a b x y : Nat) : Prop := x < p ∧ y < p ∧ (y * y) % p = (x * x * x + a * x + b) % p
instance (p a b x y : Nat) : Decidable (PointOk p a b x y) := by unfold PointOk; infer_instance

end Bee2V.C09.Spec

import Bee2V.C09.Drv
/-- driver executable of area C09 (`drv_c09`) -/
def main : IO Unit := Bee2V.Proto.runLoop fun
  | "chk" :: args => Bee2V.C09.Drv.handleChk args
  | "path" :: args => Bee2V.C15.Drv.handlePath args
  | "keyclass" :: args => Bee2V.C09.Drv.handleKey args
  | "ptclass" :: args => Bee2V.C09.Drv.handlePt args
  | _ => "bad-op"

import Bee2V.C13.Drv
/-- driver executable of area C13 (`drv_c13`) -/
def main : IO Unit := Bee2V.Proto.runLoop Bee2V.C13.Drv.handle

/-
C13 — the register model of bels.c (Model.lean: `shareCore`, `recStep`, `recLoop`, `recFinal`,
`recoverCore`) with its declared operand lengths computes exactly the register-free algebra of
Defs.lean (`shareSpec`, `crtStep`, `crtLoop`): no operand is ever truncated and every result lands
where the next read expects it.
-/
import Bee2V.C13.Defs
namespace Bee2V.C13.Reg
open Bee2V.C05 (ppExGCDV)
open Bee2V.C05.Spec (clmul pmod pdivmod)
open Bee2V.C05.Pp

/-! ## R0 register algebra -/

theorem lowW_lt (W k x : Nat) : lowW W k x < 2 ^ (W * k) := Nat.mod_lt _ (Nat.two_pow_pos _)

theorem lowW_of_lt {W k x : Nat} (h : x < 2 ^ (W * k)) : lowW W k x = x := Nat.mod_eq_of_lt h

theorem pow_dvd_pow_words (W : Nat) {k' k : Nat} (h : k' ≤ k) : 2 ^ (W * k') ∣ 2 ^ (W * k) :=
  Nat.pow_dvd_pow 2 (Nat.mul_le_mul_left W h)

theorem pow_le_pow_words (W : Nat) {k' k : Nat} (h : k' ≤ k) : 2 ^ (W * k') ≤ 2 ^ (W * k) :=
  Nat.pow_le_pow_right (by omega) (Nat.mul_le_mul_left W h)

theorem lowW_lowW {W k' k : Nat} (h : k' ≤ k) (x : Nat) : lowW W k' (lowW W k x) = lowW W k' x :=
  Nat.mod_mod_of_dvd _ (pow_dvd_pow_words W h)

theorem lowW_setLow_le {W k' k : Nat} (h : k' ≤ k) (old new : Nat) :
    lowW W k' (setLow W k old new) = lowW W k' new := by
  unfold lowW setLow
  have hd := pow_dvd_pow_words W h
  rw [Nat.add_mod, Nat.mod_eq_zero_of_dvd (Nat.dvd_mul_left_of_dvd hd _), Nat.zero_add,
    Nat.mod_mod, Nat.mod_mod_of_dvd _ hd]

theorem lowW_setLow (W k old new : Nat) : lowW W k (setLow W k old new) = lowW W k new :=
  lowW_setLow_le (Nat.le_refl k) old new

theorem setLow_zero {W k new : Nat} (h : new < 2 ^ (W * k)) : setLow W k 0 new = new := by
  unfold setLow
  rw [Nat.zero_div, Nat.zero_mul, Nat.zero_add, Nat.mod_eq_of_lt h]

theorem setLow_zero_lt (W k new : Nat) : setLow W k 0 new < 2 ^ (W * k) := by
  unfold setLow
  rw [Nat.zero_div, Nat.zero_mul, Nat.zero_add]
  exact Nat.mod_lt _ (Nat.two_pow_pos _)

/-- word `k` of a region on top of its `k` low words -/
theorem lowW_succ (W k x : Nat) :
    lowW W (k + 1) x = lowW W k x + x / 2 ^ (W * k) % 2 ^ W * 2 ^ (W * k) := by
  unfold lowW
  rw [Nat.mul_add, Nat.mul_one, Nat.pow_add, Nat.mod_mul, Nat.mul_comm (2 ^ (W * k))]

theorem lowW_setWord (W k old w : Nat) :
    lowW W (k + 1) (setWord W k old w) = lowW W k old + w % 2 ^ W * 2 ^ (W * k) := by
  unfold setWord
  rw [lowW_setLow]
  apply lowW_of_lt
  have h1 := lowW_lt W k old
  have h2 : w % 2 ^ W < 2 ^ W := Nat.mod_lt _ (Nat.two_pow_pos _)
  rw [Nat.mul_add, Nat.mul_one, Nat.pow_add]
  calc lowW W k old + w % 2 ^ W * 2 ^ (W * k)
      < 2 ^ (W * k) + w % 2 ^ W * 2 ^ (W * k) := by omega
    _ = (w % 2 ^ W + 1) * 2 ^ (W * k) := by rw [Nat.add_mul, Nat.one_mul, Nat.add_comm]
    _ ≤ 2 ^ W * 2 ^ (W * k) := Nat.mul_le_mul_right _ h2
    _ = 2 ^ (W * k) * 2 ^ W := Nat.mul_comm _ _

theorem shl_lt_words {W off k K x : Nat} (h : off + k ≤ K) (hx : x < 2 ^ (W * k)) :
    x <<< (W * off) < 2 ^ (W * K) := by
  rw [Nat.shiftLeft_eq]
  calc x * 2 ^ (W * off) < 2 ^ (W * k) * 2 ^ (W * off) :=
        Nat.mul_lt_mul_of_pos_right hx (Nat.two_pow_pos _)
    _ = 2 ^ (W * (off + k)) := by rw [← Nat.pow_add, ← Nat.mul_add, Nat.add_comm]
    _ ≤ 2 ^ (W * K) := pow_le_pow_words W h

theorem lowW_xor (W K a b : Nat) : lowW W K (a ^^^ b) = lowW W K a ^^^ lowW W K b :=
  Nat.xor_mod_two_pow

theorem lowW_xorAt {W off k K : Nat} (h : off + k ≤ K) (a b : Nat) :
    lowW W K (xorAt W off k a b) = lowW W K a ^^^ (lowW W k b <<< (W * off)) := by
  unfold xorAt
  rw [lowW_xor, lowW_of_lt (shl_lt_words h (lowW_lt W k b))]

theorem two_pow_add_eq_xor {L m : Nat} (h : m < 2 ^ L) : 2 ^ L + m = 2 ^ L ^^^ m := by
  have h0 := Nat.two_pow_add_eq_or_of_lt h 1
  rw [Nat.mul_one] at h0
  rw [h0]
  apply Nat.eq_of_testBit_eq
  intro j
  rw [Nat.testBit_or, Nat.testBit_xor, Nat.testBit_two_pow]
  by_cases hj : L = j
  · subst hj; simp [Nat.testBit_lt_two_pow h]
  · simp [hj]

theorem word_eq (W k x : Nat) : lowW W (k + 1) x / 2 ^ (W * k) = x / 2 ^ (W * k) % 2 ^ W := by
  rw [lowW_succ, Nat.add_mul_div_right _ _ (Nat.two_pow_pos _), Nat.div_eq_of_lt (lowW_lt W k x),
    Nat.zero_add]

theorem setLow_div (W k old new : Nat) : setLow W k old new / 2 ^ (W * k) = old / 2 ^ (W * k) := by
  unfold setLow
  rw [Nat.add_comm, Nat.add_mul_div_right _ _ (Nat.two_pow_pos _),
    Nat.div_eq_of_lt (Nat.mod_lt _ (Nat.two_pow_pos _)), Nat.zero_add]

/-! ### products -/

theorem clmul_lt {a b p q : Nat} (ha : a < 2 ^ p) (hb : b < 2 ^ q) : clmul a b < 2 ^ (p + q) := by
  by_cases ha0 : a = 0
  · subst ha0; rw [zero_clmul]; exact Nat.two_pow_pos _
  by_cases hb0 : b = 0
  · subst hb0; rw [clmul_zero]; exact Nat.two_pow_pos _
  have hl := log2_clmul ha0 hb0
  have h1 := (Nat.log2_lt ha0).2 ha
  have h2 := (Nat.log2_lt hb0).2 hb
  exact (Nat.log2_lt (clmul_ne_zero ha0 hb0)).1 (by omega)

theorem clmul_lt_words {W a b p q : Nat} (ha : a < 2 ^ (W * p)) (hb : b < 2 ^ (W * q)) :
    clmul a b < 2 ^ (W * (p + q)) := by
  rw [Nat.mul_add]; exact clmul_lt ha hb

theorem clmul_key {L m : Nat} (t : Nat) (h : m < 2 ^ L) :
    clmul t (2 ^ L + m) = clmul t m ^^^ (t <<< L) := by
  rw [two_pow_add_eq_xor h, clmul_xor, clmul_two_pow, Nat.xor_comm]

theorem clmul_key_lt_words {W p q a m : Nat} (ha : a < 2 ^ (W * p)) (hm : m < 2 ^ (W * q)) :
    clmul a (keyPoly W q m) < 2 ^ (W * (p + q)) := by
  rw [keyPoly, clmul_key _ hm]
  exact Nat.xor_lt_two_pow (clmul_lt_words ha hm) (shl_lt_words (by omega) ha)

/-- `ppMul` with the declared lengths is exact on the words it writes -/
theorem lowW_ppMulR (W c a b p q : Nat) :
    lowW W (p + q) (ppMulR W c a p b q) = clmul (lowW W p a) (lowW W q b) := by
  unfold ppMulR
  rw [lowW_setLow, lowW_of_lt (clmul_lt_words (lowW_lt W p a) (lowW_lt W q b))]

/-- `ppMul(c, a, p, b, q); wwXor2(c + q, a, p)`: `c = a (x^{Wq} + b)` -/
theorem mulKey1 (W c a b p q : Nat) :
    lowW W (p + q) (xorAt W q p (ppMulR W c a p b q) a)
      = clmul (lowW W p a) (keyPoly W q (lowW W q b)) := by
  rw [lowW_xorAt (by omega), lowW_ppMulR, keyPoly, clmul_key _ (lowW_lt W q b)]

/-- `ppMul(c, a, p, b, q); wwXor2(c + p, b, q)`: `c = (x^{Wp} + a) b` -/
theorem mulKey2 (W c a b p q : Nat) :
    lowW W (p + q) (xorAt W p q (ppMulR W c a p b q) b)
      = clmul (keyPoly W p (lowW W p a)) (lowW W q b) := by
  rw [lowW_xorAt (by omega), lowW_ppMulR, keyPoly, clmul_comm (2 ^ (W * p) + lowW W p a),
    clmul_key _ (lowW_lt W p a), clmul_comm]

theorem keyPoly_shl {W p A : Nat} (q : Nat) (hA : A < 2 ^ (W * p)) :
    keyPoly W p A <<< (W * q) = 2 ^ (W * (p + q)) ^^^ A <<< (W * q) := by
  rw [keyPoly, two_pow_add_eq_xor hA, Nat.shiftLeft_xor_distrib,
    Nat.shiftLeft_eq (2 ^ (W * p)), ← Nat.pow_add, ← Nat.mul_add]

theorem key_mul {W p q A B : Nat} (hA : A < 2 ^ (W * p)) (hB : B < 2 ^ (W * q)) :
    clmul (keyPoly W p A) (keyPoly W q B)
      = 2 ^ (W * (p + q)) ^^^ (clmul (keyPoly W p A) B ^^^ A <<< (W * q)) := by
  show clmul (keyPoly W p A) (2 ^ (W * q) + B) = _
  rw [clmul_key _ hB, keyPoly_shl q hA]
  generalize clmul (keyPoly W p A) B = X
  generalize A <<< (W * q) = Y
  generalize 2 ^ (W * (p + q)) = Z
  rw [← Nat.xor_assoc, Nat.xor_comm X Z, Nat.xor_assoc]

/-- `ppMul(c, a, p, b, q); wwXor2(c + p, b, q); wwXor2(c + q, a, p); c[p + q] = 1`:
    `c = (x^{Wp} + a) (x^{Wq} + b)` -/
theorem mulKey3 (W c a b p q : Nat) :
    lowW W (p + q) (xorAt W q p (xorAt W p q (ppMulR W c a p b q) b) a) + 2 ^ (W * (p + q))
      = clmul (keyPoly W p (lowW W p a)) (keyPoly W q (lowW W q b)) := by
  have hlt := lowW_lt W (p + q) (xorAt W q p (xorAt W p q (ppMulR W c a p b q) b) a)
  rw [Nat.add_comm, two_pow_add_eq_xor hlt, lowW_xorAt (by omega), mulKey2,
    key_mul (lowW_lt W p a) (lowW_lt W q b)]

/-! ### key polynomials -/

theorem keyPoly_ne_zero (W n m : Nat) : keyPoly W n m ≠ 0 := by
  have := Nat.two_pow_pos (W * n); unfold keyPoly; omega

theorem keyPoly_log2 {W n m : Nat} (hm : m < 2 ^ (W * n)) : (keyPoly W n m).log2 = W * n := by
  rw [Nat.log2_eq_iff (keyPoly_ne_zero W n m), Nat.pow_succ]; unfold keyPoly; omega

theorem keyPoly_div {W n m : Nat} (hm : m < 2 ^ (W * n)) : keyPoly W n m / 2 ^ (W * n) = 1 := by
  unfold keyPoly
  rw [Nat.add_div_left _ (Nat.two_pow_pos _), Nat.div_eq_of_lt hm]

theorem keyPoly_two_le {W n : Nat} (m : Nat) (hW : 0 < W) (hn : 0 < n) : 2 ≤ keyPoly W n m := by
  have : 2 ^ 1 ≤ 2 ^ (W * n) := Nat.pow_le_pow_right (by omega) (Nat.mul_pos hW hn)
  unfold keyPoly; omega

/-- a polynomial of degree exactly `W k` is `x^{W k}` + its `k` low words -/
theorem key_of_log2 {W k G : Nat} (h : G.log2 = W * k) (hpos : 0 < W * k) :
    G = keyPoly W k (lowW W k G) := by
  have hG : G ≠ 0 := by
    intro h0; rw [h0, Nat.log2_zero] at h; omega
  obtain ⟨h1, h2⟩ := (Nat.log2_eq_iff hG).1 h
  rw [Nat.pow_succ] at h2
  unfold keyPoly lowW
  rw [Nat.mod_eq_sub_mod h1, Nat.mod_eq_of_lt (by omega)]
  omega

/-- `wwFrom(f, m, len); f[n] = 1` on any region -/
theorem lowW_setKey {W n m : Nat} (hW : 0 < W) (f : Nat) (hm : m < 2 ^ (W * n)) :
    lowW W (n + 1) (setWord W n (setLow W n f m) 1) = keyPoly W n m := by
  rw [lowW_setWord, lowW_setLow, lowW_of_lt hm, Nat.mod_eq_of_lt (Nat.one_lt_two_pow (by omega)),
    Nat.one_mul, Nat.add_comm]
  rfl

/-- `ppMod(r, a, k, f, n + 1)` on a modulus `f = x^{W n} + m`: the `n` low words of the result are
    the remainder -/
theorem lowW_ppModR_key {W n m k a f r : Nat} (hm : m < 2 ^ (W * n))
    (hf : lowW W (n + 1) f = keyPoly W n m) :
    lowW W n (ppModR W r a k f (n + 1)) = pmod (lowW W k a) (keyPoly W n m) := by
  unfold ppModR
  rw [lowW_setLow_le (by omega), hf]
  apply lowW_of_lt
  have := (pdivmod_spec (lowW W k a) (keyPoly W n m) (keyPoly_ne_zero W n m)).2
  rw [keyPoly_log2 hm] at this
  exact this

/-! ## R1 belsShare -/

theorem shareC_snd {W n t s m0 k : Nat} (ht : 0 < t) (hs : s < 2 ^ (W * n))
    (hm0 : m0 < 2 ^ (W * n)) (hk : k < 2 ^ (W * (t * n - n))) :
    (shareC W n t s m0 k).2 = secretPoly W n m0 k s := by
  have e : t * n - n + n = t * n := by
    have : n ≤ t * n := Nat.le_mul_of_pos_left n ht
    omega
  have h1 := mulKey1 W 0 k (setLow W n 0 m0) (t * n - n) n
  rw [setLow_zero hm0, lowW_of_lt hm0, lowW_of_lt hk] at h1
  have h2 : xorAt W n (t * n - n) (ppMulR W 0 k (t * n - n) m0 n) k < 2 ^ (W * (t * n - n + n)) := by
    unfold xorAt ppMulR
    exact Nat.xor_lt_two_pow (setLow_zero_lt _ _ _) (shl_lt_words (by omega) (lowW_lt _ _ _))
  rw [lowW_of_lt h2] at h1
  show xorAt W 0 n (xorAt W n (t * n - n) (ppMulR W 0 k (t * n - n) (setLow W n 0 m0) n) k)
    (setLow W n (setLow W n 0 m0) s) = _
  rw [setLow_zero hm0, h1]
  unfold xorAt secretPoly
  rw [lowW_setLow, lowW_of_lt hs, Nat.mul_zero, Nat.shiftLeft_zero, clmul_comm]

theorem shareLoop_spec {W n t c : Nat} (hW : 0 < W) (hc : c < 2 ^ (W * (t * n))) :
    ∀ (mi : List Nat) (f : Nat), (∀ m ∈ mi, m < 2 ^ (W * n)) →
      shareLoop W n t c mi f = mi.map (fun m => pmod c (keyPoly W n m)) := by
  intro mi
  induction mi with
  | nil => intro f _; rfl
  | cons m ms ih =>
    intro f h
    have hm := h m (List.mem_cons_self ..)
    rw [shareLoop, List.map_cons]
    rw [ih _ (fun x hx => h x (List.mem_cons_of_mem _ hx)),
      lowW_ppModR_key hm (lowW_setKey hW f hm), lowW_of_lt hc]

theorem shareCore_spec (W n t s m0 k : Nat) (mi : List Nat) (hW : 0 < W) (hn : 0 < n) (ht : 0 < t)
    (hs : s < 2 ^ (W * n)) (hm0 : m0 < 2 ^ (W * n)) (hmi : ∀ m ∈ mi, m < 2 ^ (W * n)) :
    shareCore W n t s m0 mi k = mi.map (shareSpec W n m0 (lowW W (t * n - n) k) s) := by
  have _ := hn
  have hk := lowW_lt W (t * n - n) k
  have hc := shareC_snd ht hs hm0 hk
  have e : t * n - n + n = t * n := by
    have : n ≤ t * n := Nat.le_mul_of_pos_left n ht
    omega
  have hlt : secretPoly W n m0 (lowW W (t * n - n) k) s < 2 ^ (W * (t * n)) := by
    unfold secretPoly
    apply Nat.xor_lt_two_pow
    · have h3 := clmul_key_lt_words (q := n) (m := m0) hk hm0
      rw [e] at h3
      rw [clmul_comm]
      exact h3
    · exact Nat.lt_of_lt_of_le hs (pow_le_pow_words W (by omega))
  unfold shareCore
  dsimp only
  rw [hc, shareLoop_spec hW hlt mi _ hmi]
  rfl

/-! ## R2 one iteration of belsRecover -/

structure Inv (W n i : Nat) (st : RecSt) (G C : Nat) : Prop where
  fTop : lowW W (n + 1) st.f / 2 ^ (W * n) = 1
  gVal : lowW W (i * n + 1) st.g = G
  gDeg : G.log2 = W * n * i
  cVal : lowW W (i * n) st.c = C

theorem Inv.c_lt {W n i : Nat} {st : RecSt} {G C : Nat} (h : Inv W n i st G C) :
    C < 2 ^ (W * n * i) := by
  rw [← h.cVal, Nat.mul_assoc, Nat.mul_comm n i]
  exact lowW_lt _ _ _

/-- `wwFrom(f, m, len)` on a region with `f[n] = 1` -/
theorem lowW_setLow_key {W n m f : Nat} (hf : lowW W (n + 1) f / 2 ^ (W * n) = 1)
    (hm : m < 2 ^ (W * n)) : lowW W (n + 1) (setLow W n f m) = keyPoly W n m := by
  rw [word_eq] at hf
  rw [lowW_succ, lowW_setLow, lowW_of_lt hm, setLow_div, hf, Nat.one_mul, Nat.add_comm]
  rfl

/-- Bezout with d = 1: one of the operands has a constant term -/
theorem odd_of_bezout_one {a b x y : Nat} (h : clmul a x ^^^ clmul b y = 1) :
    a % 2 = 1 ∨ b % 2 = 1 := by
  have h2 := congrArg (· % 2) h
  simp only [xor_mod_two, clmul_mod_two] at h2
  rcases Nat.mod_two_eq_zero_or_one a with ha | ha
  · rcases Nat.mod_two_eq_zero_or_one b with hb | hb
    · rw [ha, hb] at h2; simp at h2
    · exact Or.inr hb
  · exact Or.inl ha

/-- a divisor of a nonzero polynomial has at most its degree -/
theorem log2_le_of_pdvd {d a : Nat} (ha : a ≠ 0) (h : PDvd d a) : d ≠ 0 ∧ d.log2 ≤ a.log2 := by
  obtain ⟨q, hq⟩ := h
  have hq0 : q ≠ 0 := by intro h0; rw [h0, zero_clmul] at hq; exact ha hq
  have hd0 : d ≠ 0 := by intro h0; rw [h0, clmul_zero] at hq; exact ha hq
  have hl := log2_clmul hq0 hd0
  rw [← hq] at hl
  exact ⟨hd0, by omega⟩

/-- what one iteration computes, given the invariant -/
theorem recStep_char {W n m s i : Nat} {st : RecSt} {G C : Nat} (hW : 0 < W) (hn : 0 < n)
    (hi : 1 ≤ i) (hm : m < 2 ^ (W * n)) (hs : s < 2 ^ (W * n)) (h : Inv W n i st G C) :
    ((ppExGCDV (keyPoly W n m) G).1 ≠ 1 ∧ recStep W n m s i st = none) ∨
    ((ppExGCDV (keyPoly W n m) G).1 = 1 ∧ ∃ st', recStep W n m s i st = some st' ∧
      Inv W n (i + 1) st' (clmul (keyPoly W n m) G)
        (pmod (clmul (clmul (ppExGCDV (keyPoly W n m) G).2.1 C) (keyPoly W n m)
            ^^^ clmul (clmul (ppExGCDV (keyPoly W n m) G).2.2 s) G)
          (clmul (keyPoly W n m) G))) := by
  obtain ⟨hfTop, hgVal, hgDeg, hcVal⟩ := h
  -- word-count arithmetic
  have hin : 0 < i * n := Nat.mul_pos (by omega) hn
  have hgDeg' : G.log2 = W * (i * n) := by rw [hgDeg, Nat.mul_assoc, Nat.mul_comm n i]
  have e1 : i * n + i * n = 2 * i * n := by rw [Nat.mul_assoc, Nat.two_mul]
  have e2 : (2 * i + 1) * n = 2 * i * n + n := by rw [Nat.add_mul, Nat.one_mul]
  have e3 : (i + 2) * n = 2 * n + i * n := by rw [Nat.add_mul, Nat.add_comm]
  have e4 : (i + 1) * n = n + i * n := by rw [Nat.add_mul, Nat.one_mul, Nat.add_comm]
  have e5 : n + n = 2 * n := (Nat.two_mul n).symm
  have e6 : (i + 2) * n ≤ (2 * i + 1) * n := Nat.mul_le_mul_right n (by omega)
  -- the operands of ppExGCD
  have hF := lowW_setLow_key hfTop hm
  have hF0 := keyPoly_ne_zero W n m
  have hFl := keyPoly_log2 hm
  have hF2 := keyPoly_two_le m hW hn
  have hG0 : G ≠ 0 := by
    intro h0; rw [h0, Nat.log2_zero] at hgDeg'; have := Nat.mul_pos hW hin; omega
  have hG2 : 2 ≤ G := by
    have h1 : 2 ^ 1 ≤ 2 ^ (W * (i * n)) :=
      Nat.pow_le_pow_right (by omega) (Nat.mul_pos hW hin)
    have h2 := ((Nat.log2_eq_iff hG0).1 hgDeg').1
    omega
  have hGk := key_of_log2 hgDeg' (Nat.mul_pos hW hin)
  have hgl : lowW W (i * n) st.g = lowW W (i * n) G := by
    rw [← hgVal, lowW_lowW (by omega)]
  have hC : C < 2 ^ (W * (i * n)) := by rw [← hcVal]; exact lowW_lt _ _ _
  generalize ho : recStep W n m s i st = o
  unfold recStep at ho
  extract_lets f r d u v t1 c1 c2 t2 d2 t3 t4 c3 t5 t6 t7 g1 g2 c4 at ho
  have hr : r = ppExGCDV (keyPoly W n m) G := by
    show ppExGCDV (lowW W (n + 1) (setLow W n st.f m)) (lowW W (i * n + 1) st.g) = _
    rw [hF, hgVal]
  have hdv := log2_le_of_pdvd hF0 (Gcd.exGCDV_dvd hF0 hG0).1
  have hbez := exGCDV_bezout hF0 hG0
  have hda := @Gcd.exGCDV_da_lt (keyPoly W n m) G
  have hdb := @Gcd.exGCDV_db_lt (keyPoly W n m) G
  rw [← hr] at hdv hbez hda hdb ⊢
  have hd1 : lowW W (n + 1) d = r.1 := by
    show lowW W (n + 1) (setLow W (n + 1) st.d r.1) = _
    rw [lowW_setLow]
    apply lowW_of_lt
    have h3 := (Nat.log2_lt hdv.1).1 (show r.1.log2 < W * n + 1 by omega)
    exact Nat.lt_of_lt_of_le h3 (Nat.pow_le_pow_right (by omega) (by rw [Nat.mul_add]; omega))
  by_cases h1 : r.1 = 1
  · right
    refine ⟨h1, ?_⟩
    rw [if_neg (by rw [hd1]; exact fun hne => hne h1)] at ho
    rw [h1] at hbez
    have hodd := odd_of_bezout_one hbez
    have hu0 := hda hodd hF2 hG2
    have hv0 := hdb hodd hF2 hG2
    rw [hgDeg'] at hu0
    rw [hFl] at hv0
    have hfn : lowW W n f = m := (lowW_setLow W n st.f m).trans (lowW_of_lt hm)
    have hu : lowW W (i * n) u = r.2.1 :=
      (lowW_setLow_le (by omega) st.u r.2.1).trans (lowW_of_lt hu0)
    have hv : lowW W n v = r.2.2 :=
      (lowW_setLow_le (by omega) st.v r.2.2).trans (lowW_of_lt hv0)
    -- c <- u f c
    have ht1 : lowW W (2 * i * n) t1 = clmul r.2.1 C := by
      have h3 := lowW_ppMulR W st.t u st.c (i * n) (i * n)
      rw [e1, hu, hcVal] at h3
      exact h3
    have hc2 : lowW W ((2 * i + 1) * n) c2 = clmul (clmul r.2.1 C) (keyPoly W n m) := by
      have h3 := mulKey1 W st.c t1 f (2 * i * n) n
      rw [← e2, ht1, hfn] at h3
      exact h3
    -- c <- c + v g si
    have ht2 : lowW W n t2 = s := (lowW_setLow W n t1 s).trans (lowW_of_lt hs)
    have hd2 : lowW W (2 * n) d2 = clmul r.2.2 s := by
      have h3 := lowW_ppMulR W d v t2 n n
      rw [e5, hv, ht2] at h3
      exact h3
    have ht4 : lowW W ((i + 2) * n) t4 = clmul (clmul r.2.2 s) G := by
      have h3 := mulKey1 W t2 d2 st.g (2 * n) (i * n)
      rw [← e3, hd2, hgl, ← hGk] at h3
      exact h3
    have hc3 : lowW W ((2 * i + 1) * n) c3
        = clmul (clmul r.2.1 C) (keyPoly W n m) ^^^ clmul (clmul r.2.2 s) G := by
      have h3 := lowW_xorAt (W := W) (off := 0) (k := (i + 2) * n) (K := (2 * i + 1) * n)
        (by omega) c2 t4
      rw [hc2, ht4, Nat.mul_zero, Nat.shiftLeft_zero] at h3
      exact h3
    -- g <- g f
    have hg2 : lowW W ((i + 1) * n + 1) g2 = clmul (keyPoly W n m) G := by
      have h3 := mulKey3 W t4 f st.g n (i * n)
      rw [← e4, hfn, hgl, ← hGk] at h3
      have h4 := lowW_setWord W ((i + 1) * n) g1 1
      rw [show lowW W ((i + 1) * n) g1 = lowW W ((i + 1) * n) t7 from lowW_setLow W _ st.g t7,
        Nat.mod_eq_of_lt (Nat.one_lt_two_pow (by omega)), Nat.one_mul, h3] at h4
      exact h4
    -- c <- c mod g
    have hFG0 := clmul_ne_zero hF0 hG0
    have hFGl : (clmul (keyPoly W n m) G).log2 = W * ((i + 1) * n) := by
      rw [log2_clmul hF0 hG0, hFl, hgDeg', e4, Nat.mul_add]
    have hc4 : lowW W ((i + 1) * n) c4
        = pmod (clmul (clmul r.2.1 C) (keyPoly W n m) ^^^ clmul (clmul r.2.2 s) G)
            (clmul (keyPoly W n m) G) := by
      have h3 : lowW W ((i + 1) * n) c4 = lowW W ((i + 1) * n)
          (pmod (lowW W ((2 * i + 1) * n) c3) (lowW W ((i + 1) * n + 1) g2)) :=
        lowW_setLow_le (by omega) c3 _
      rw [hc3, hg2] at h3
      rw [h3]
      apply lowW_of_lt
      have h4 := (pdivmod_spec (clmul (clmul r.2.1 C) (keyPoly W n m) ^^^ clmul (clmul r.2.2 s) G)
        _ hFG0).2
      rw [hFGl] at h4
      exact h4
    refine ⟨_, ho.symm, ⟨?_, hg2, ?_, hc4⟩⟩
    · exact (congrArg (· / 2 ^ (W * n)) hF).trans (keyPoly_div hm)
    · rw [log2_clmul hF0 hG0, hFl, hgDeg, Nat.mul_succ, Nat.add_comm]
  · left
    refine ⟨h1, ?_⟩
    rw [if_pos (by rw [hd1]; exact h1)] at ho
    exact ho.symm

theorem recStep_refines {W n m s i : Nat} {st : RecSt} {G C : Nat} (hW : 0 < W) (hn : 0 < n)
    (hi : 1 ≤ i) (hm : m < 2 ^ (W * n)) (hs : s < 2 ^ (W * n)) (h : Inv W n i st G C) :
    (recStep W n m s i st = none ↔ crtStep (keyPoly W n m) s (G, C) = none) ∧
    ∀ st', recStep W n m s i st = some st' →
      ∃ G' C', crtStep (keyPoly W n m) s (G, C) = some (G', C') ∧ Inv W n (i + 1) st' G' C' := by
  rcases recStep_char hW hn hi hm hs h with ⟨h1, h2⟩ | ⟨h1, st1, h2, h3⟩
  · have hc : crtStep (keyPoly W n m) s (G, C) = none := by
      unfold crtStep
      exact if_pos h1
    refine ⟨⟨fun _ => hc, fun _ => h2⟩, ?_⟩
    intro st' h4
    rw [h2] at h4
    exact absurd h4 (by simp)
  · have hc : crtStep (keyPoly W n m) s (G, C) = some (clmul (keyPoly W n m) G,
        pmod (clmul (clmul (ppExGCDV (keyPoly W n m) G).2.1 C) (keyPoly W n m)
            ^^^ clmul (clmul (ppExGCDV (keyPoly W n m) G).2.2 s) G)
          (clmul (keyPoly W n m) G)) := by
      unfold crtStep
      exact if_neg (fun hne => hne h1)
    refine ⟨⟨fun h4 => ?_, fun h4 => ?_⟩, ?_⟩
    · rw [h2] at h4; exact absurd h4 (by simp)
    · rw [hc] at h4; exact absurd h4 (by simp)
    · intro st' h4
      rw [h2] at h4
      cases h4
      exact ⟨_, _, hc, h3⟩

/-! ## R3 the loop and the top level -/

theorem recLoop_refines (W n : Nat) (hW : 0 < W) (hn : 0 < n) :
    ∀ (prs : List (Nat × Nat)) (i : Nat) (st : RecSt) (G C : Nat),
    (∀ p ∈ prs, p.1 < 2 ^ (W * n) ∧ p.2 < 2 ^ (W * n)) → 1 ≤ i → Inv W n i st G C →
    (recLoop W n prs i st = none ↔ crtLoop W n prs (G, C) = none) ∧
    ∀ st', recLoop W n prs i st = some st' →
      ∃ G' C', crtLoop W n prs (G, C) = some (G', C') ∧ Inv W n (i + prs.length) st' G' C' := by
  intro prs
  induction prs with
  | nil =>
    intro i st G C _ _ h
    refine ⟨⟨fun h1 => ?_, fun h1 => ?_⟩, ?_⟩
    · simp [recLoop] at h1
    · simp [crtLoop] at h1
    · intro st' h1
      simp only [recLoop, Option.some.injEq] at h1
      subst h1
      exact ⟨G, C, rfl, h⟩
  | cons p rest ih =>
    intro i st G C hp hi h
    obtain ⟨m, s⟩ := p
    have hms := hp (m, s) (List.mem_cons_self ..)
    have hrest : ∀ p ∈ rest, p.1 < 2 ^ (W * n) ∧ p.2 < 2 ^ (W * n) :=
      fun x hx => hp x (List.mem_cons_of_mem _ hx)
    obtain ⟨hnone, hsome⟩ := recStep_refines hW hn hi hms.1 hms.2 h
    rw [recLoop, crtLoop]
    cases hst : recStep W n m s i st with
    | none =>
      have hc := hnone.1 hst
      rw [hc]
      exact ⟨⟨fun _ => rfl, fun _ => rfl⟩, fun st' h1 => absurd h1 (by simp)⟩
    | some st1 =>
      obtain ⟨G1, C1, hc, hinv⟩ := hsome st1 hst
      rw [hc]
      dsimp only
      have := ih (i + 1) st1 G1 C1 hrest (by omega) hinv
      rw [List.length_cons, show i + (rest.length + 1) = i + 1 + rest.length by omega]
      exact this

theorem recInit_inv (W n m1 s1 : Nat) (hW : 0 < W) (hn : 0 < n) (hm : m1 < 2 ^ (W * n))
    (hs : s1 < 2 ^ (W * n)) : Inv W n 1 (recInit W n m1 s1) (keyPoly W n m1) s1 := by
  have _ := hn
  refine ⟨?_, ?_, ?_, ?_⟩
  · show lowW W (n + 1) (setWord W n 0 1) / 2 ^ (W * n) = 1
    have h0 : (0 : Nat) < 2 ^ (W * n) := Nat.two_pow_pos _
    have h1 := lowW_setKey hW 0 h0
    rw [setLow_zero h0] at h1
    rw [h1]
    exact keyPoly_div h0
  · show lowW W (1 * n + 1) (setWord W n (setLow W n 0 m1) 1) = _
    rw [Nat.one_mul]
    exact lowW_setKey hW 0 hm
  · rw [keyPoly_log2 hm, Nat.mul_one]
  · show lowW W (1 * n) (setLow W n 0 s1) = s1
    rw [Nat.one_mul, lowW_setLow, lowW_of_lt hs]

theorem recFinal_eq (W n i m0 : Nat) (st : RecSt) (G C : Nat) (hW : 0 < W) (hn : 0 < n)
    (hm0 : m0 < 2 ^ (W * n)) (hi : 1 ≤ i) (h : Inv W n i st G C) :
    recFinal W n i m0 st = pmod C (keyPoly W n m0) := by
  have _ := hn
  have _ := hi
  unfold recFinal
  dsimp only
  rw [lowW_ppModR_key hm0 (lowW_setKey hW st.f hm0), h.cVal]

theorem recoverCore_eq (W n m0 m1 s1 : Nat) (rest : List (Nat × Nat)) (hW : 0 < W) (hn : 0 < n)
    (hm0 : m0 < 2 ^ (W * n))
    (h : ∀ p ∈ (m1, s1) :: rest, p.1 < 2 ^ (W * n) ∧ p.2 < 2 ^ (W * n)) :
    recoverCore W n m0 ((m1, s1) :: rest) =
      match crtLoop W n rest (keyPoly W n m1, s1) with
      | none => (ERR_BAD_PUBKEY, 0)
      | some (_, C) => (ERR_OK, pmod C (keyPoly W n m0)) := by
  have h1 := h (m1, s1) (List.mem_cons_self ..)
  have hinv := recInit_inv W n m1 s1 hW hn h1.1 h1.2
  obtain ⟨hnone, hsome⟩ := recLoop_refines W n hW hn rest 1 (recInit W n m1 s1) _ _
    (fun x hx => h x (List.mem_cons_of_mem _ hx)) (Nat.le_refl 1) hinv
  rw [recoverCore]
  cases hl : recLoop W n rest 1 (recInit W n m1 s1) with
  | none => rw [hnone.1 hl]
  | some st =>
    obtain ⟨G', C', hc, hi⟩ := hsome st hl
    rw [hc]
    dsimp only
    rw [Nat.add_comm rest.length 1, recFinal_eq W n _ m0 st G' C' hW hn hm0 (by omega) hi]

end Bee2V.C13.Reg

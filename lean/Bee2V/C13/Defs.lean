/-
C13 — specification-level definitions used by the theorems (Prop-level; not part of the driver).
-/
import Bee2V.C13.Model
import Bee2V.C13.LemmasGcd
namespace Bee2V.C13
open Bee2V.C05.Spec (clmul pmod pdivmod)
open Bee2V.C05.Pp (PDvd)

/-- the modulus `x^l + m(x)`, l = W n, of a public key `m` (a number of n words) -/
def keyPoly (W n m : Nat) : Nat := 2 ^ (W * n) + m

/-- no common divisor except 1 (`PDvd d a := ∃ q, a = clmul q d`) -/
def PCoprime (a b : Nat) : Prop := ∀ d, PDvd d a → PDvd d b → d = 1

/-- irreducible binary polynomial: degree ≥ 1 and no divisor except 1 and itself -/
def PIrred (f : Nat) : Prop := 2 ≤ f ∧ ∀ d, PDvd d f → d = 1 ∨ d = f

/-- STB 34.101.60, bels-share: `c(x) = (x^l + m0(x)) k(x) + s(x)` -/
def secretPoly (W n m0 k s : Nat) : Nat := clmul (keyPoly W n m0) k ^^^ s

/-- STB 34.101.60, bels-share: the share of the user with key `m` -/
def shareSpec (W n m0 k s m : Nat) : Nat := pmod (secretPoly W n m0 k s) (keyPoly W n m)

/-- the algebra of one iteration of the belsRecover loop without registers / word counts:
    modulus product `G`, accumulated `C`; next key polynomial `F`, share `s` -/
def crtStep (F s : Nat) (GC : Nat × Nat) : Option (Nat × Nat) :=
  let r := Bee2V.C05.ppExGCDV F GC.1
  if r.1 ≠ 1 then none
  else some (clmul F GC.1,
    pmod (clmul (clmul r.2.1 GC.2) F ^^^ clmul (clmul r.2.2 s) GC.1) (clmul F GC.1))

def crtLoop (W n : Nat) : List (Nat × Nat) → Nat × Nat → Option (Nat × Nat)
  | [], gc => some gc
  | (m, s) :: rest, gc =>
    match crtStep (keyPoly W n m) s gc with
    | none => none
    | some gc' => crtLoop W n rest gc'

end Bee2V.C13

/-
C13 — the state layout of belsRecover / belsRecover2 (word offsets inside the blob) and of
belsShare / belsShare2, transcribed from bels.c, and the word intervals every statement of the
loop body writes.  Used by the bookkeeping theorems in Props.lean.
-/
namespace Bee2V.C13

/-- word offsets of `f g d u v c t stack` in the state of belsRecover (`count` users, `n` words per key) -/
structure RecLayout where
  f : Nat
  g : Nat
  d : Nat
  u : Nat
  v : Nat
  c : Nat
  t : Nat
  stack : Nat

/-- `f = state; g = f + n + 1; d = g + count n + 1; u = d + (count-1) n + 1; v = u + (count-1) n + 1;
    c = v + n + 1; t = c + (2 count - 1) n; stack = t + MAX2((2 count - 2) n, (count + 1) n)` -/
def recLayout (count n : Nat) : RecLayout :=
  let g := n + 1
  let d := g + count * n + 1
  let u := d + (count - 1) * n + 1
  let v := u + (count - 1) * n + 1
  let c := v + n + 1
  let t := c + (2 * count - 1) * n
  { f := 0, g := g, d := d, u := u, v := v, c := c, t := t,
    stack := t + max ((2 * count - 2) * n) ((count + 1) * n) }

/-- the number of words `deep += O_OF_W(…)` reserves in front of the stack -/
def recWords (count n : Nat) : Nat :=
  n + 1 + count * n + 1 + (count - 1) * n + 1 + (count - 1) * n + 1 + n + 1 + (2 * count - 1) * n +
    max ((2 * count - 2) * n) ((count + 1) * n)

/-- a write of `len` words at word offset `off` stays inside [lo, hi) -/
def Within (off len lo hi : Nat) : Prop := lo ≤ off ∧ off + len ≤ hi

/-- state of belsShare: `f = state; k = f + n + 1; c = k + t n - n; stack = c + t n`,
    allocated `2 t n + 1` words -/
structure ShareLayout where
  f : Nat
  k : Nat
  c : Nat
  stack : Nat

def shareLayout (t n : Nat) : ShareLayout :=
  { f := 0, k := n + 1, c := n + 1 + (t * n - n), stack := n + 1 + (t * n - n) + t * n }

/-- states of belsValM / belsGenM0 (`f0` [n + 1], then the stack — allocated `O_OF_W(n + 1) + deep`,
    since 5b8dc17), belsGenMi (`f0` [n + 1], `f` = `u` [n + 1], stack; `O_OF_W(2n + 2) + deep`) and
    belsGenMid (`f0`, `f`, `u` [W_OF_O(32) + 1], stack; `O_OF_W(2n + 2) + 32 + O_PER_W + max(…)`) -/
structure KeyLayout where
  f0 : Nat
  f : Nat
  u : Nat
  stack : Nat

def valMLayout (n : Nat) : KeyLayout := { f0 := 0, f := 0, u := 0, stack := n + 1 }
def genMiLayout (n : Nat) : KeyLayout := { f0 := 0, f := n + 1, u := n + 1, stack := n + 1 + n + 1 }
/-- `hw` = W_OF_O(32) (4 for 64-bit words, 8 for 32-bit words) -/
def genMidLayout (n hw : Nat) : KeyLayout :=
  { f0 := 0, f := n + 1, u := n + 1 + n + 1, stack := n + 1 + n + 1 + hw + 1 }

end Bee2V.C13

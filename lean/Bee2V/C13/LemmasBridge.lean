/-
C13 — the key-generation routines of ModelGen.lean coincide with C05's value-level models
(`ppIsIrredV`, `ppMinPolyV`, `ppMinPolyModV`), for which C05 proves: ppIsIrred decides
irreducibility (Ben-Or), ppMinPolyMod returns THE minimal polynomial (irreducible, degree | l).
-/
import Bee2V.C13.ModelGen
import Bee2V.C05.ModelPpModOps
namespace Bee2V.C13.Bridge
open Bee2V.C13 Bee2V.C05.Spec

theorem bitSize_gt (aa l : Nat) : bitSize aa > l ↔ (aa ≠ 0 ∧ aa.log2 + 1 > l) := by
  unfold bitSize
  by_cases h : aa = 0
  · simp [h]
  · simp [h]

theorem minPolyLoop_eq (l : Nat) : ∀ fuel aa bb da db,
    minPolyLoop l fuel aa bb da db = Bee2V.C05.ppMinPolyLoop l fuel aa bb da db := by
  intro fuel
  induction fuel with
  | zero => intros; rfl
  | succ f ih =>
    intro aa bb da db
    unfold minPolyLoop Bee2V.C05.ppMinPolyLoop
    by_cases h : bitSize aa > l
    · have h' := (bitSize_gt aa l).1 h
      rw [if_pos h, if_pos h']
      exact ih _ _ _ _
    · have h' : ¬ (aa ≠ 0 ∧ aa.log2 + 1 > l) := fun hc => h ((bitSize_gt aa l).2 hc)
      rw [if_neg h, if_neg h']

theorem ppMinPoly_eq (s l : Nat) : ppMinPoly s l = Bee2V.C05.ppMinPolyV s l := by
  unfold ppMinPoly Bee2V.C05.ppMinPolyV
  exact minPolyLoop_eq l _ _ _ _ _

theorem seqLoop_eq (a md : Nat) : ∀ i t s, seqLoop a md i t s = Bee2V.C05.ppMinPolySeq a md i t s := by
  intro i
  induction i with
  | zero => intros; rfl
  | succ i ih => intro t s; unfold seqLoop Bee2V.C05.ppMinPolySeq; exact ih _ _

theorem bitSize_pred (md : Nat) : bitSize md - 1 = md.log2 := by
  unfold bitSize
  by_cases h : md = 0
  · subst h; simp [Nat.log2_zero]
  · simp [h]

/-- ppMinPolyMod of ModelGen.lean is C05's `ppMinPolyModV` -/
theorem ppMinPolyMod_eq (a md : Nat) : ppMinPolyMod a md = Bee2V.C05.ppMinPolyModV a md := by
  unfold ppMinPolyMod Bee2V.C05.ppMinPolyModV minPolySeq
  simp only [bitSize_pred, seqLoop_eq, ppMinPoly_eq]
  unfold Bee2V.C05.ppMinPolyV
  rw [Nat.mod_mod]

theorem irredLoop_eq (a : Nat) : ∀ i h, irredLoop a i h = Bee2V.C05.ppIsIrredLoop a i h := by
  intro i
  induction i with
  | zero => intros; rfl
  | succ i ih =>
    intro h
    unfold irredLoop Bee2V.C05.ppIsIrredLoop
    have e : h ^^^ 2 ^^^ 2 = h := by rw [Nat.xor_assoc, Nat.xor_self, Nat.xor_zero]
    simp only [e, ih]

/-- ppIsIrred of ModelGen.lean is C05's `ppIsIrredV` -/
theorem ppIsIrred_eq (a : Nat) : ppIsIrred a = Bee2V.C05.ppIsIrredV a := by
  unfold ppIsIrred Bee2V.C05.ppIsIrredV
  by_cases h : a ≤ 1
  · simp [h]
  · simp only [h, if_false, bitSize_pred, irredLoop_eq]

end Bee2V.C13.Bridge

/-
C13 — executable model of the key part of src/crypto/bels.c: belsValM, belsGenM0, belsGenMi,
belsGenMid, with the routines of src/math/pp/pp_etc.c they rest on (ppIsIrred, ppMinPoly,
ppMinPolyMod) code-shaped at value level (Nat-coded GF(2)[x]; loops as fuel recursion carrying
the C variables).  ppGCD is C05's value-level model of the binary algorithm (`ppGCDV`);
ppSqrMod / ppMulMod / ppDiv are their specifications (`pmod (clmul · ·)`, `pdivmod`).
The generator (`gen_i ang`) is a tape of octets: each call takes the next `count` octets
(zeros once the tape is exhausted — the convention of harness/c13.c).
No Mathlib.
-/
import Bee2V.C13.Model
namespace Bee2V.C13
open Bee2V.C05 (ppExGCDV ppGCDV)
open Bee2V.C05.Spec (clmul pmod pdivmod)

abbrev Tape := List UInt8

def leNat : List UInt8 → Nat
  | [] => 0
  | b :: bs => b.toNat + 256 * leNat bs

def natLE : Nat → Nat → List UInt8
  | 0, _ => []
  | n + 1, v => UInt8.ofNat (v % 256) :: natLE n (v / 256)

/-- one call `ang(buf, count, state)`: value of the octets, rest of the tape -/
def tapeRead (count : Nat) (tp : Tape) : Nat × Tape :=
  (leNat (tp.take count), tp.drop count)

/-- wwBitSize -/
def bitSize (a : Nat) : Nat := if a = 0 then 0 else a.log2 + 1

/-! ## ppIsIrred -/

/-- `for (i = ppDeg(a) / 2; i; --i) { flip bit 1 of h; if (h == 0) return FALSE; d = gcd(h, a);
    if (d != 1) return FALSE; flip bit 1 of h; if (i > 1) h = h^2 mod a; }` -/
def irredLoop (a : Nat) : Nat → Nat → Bool
  | 0, _ => true
  | i + 1, h =>
    let h1 := h ^^^ 2
    if h1 = 0 then false
    else if ppGCDV h1 a ≠ 1 then false
    else irredLoop a i (if i + 1 > 1 then pmod (clmul h h) a else h)

/-- `bool_t ppIsIrred(const word a[], size_t n, void* stack)` -/
def ppIsIrred (a : Nat) : Bool :=
  if a ≤ 1 then false else irredLoop a ((bitSize a - 1) / 2) 4

/-- `err_t belsValM(const octet m0[], size_t len)`; `m0` = value of the `len` octets -/
def belsValM (len m0 : Nat) : Nat :=
  if !validLen len then ERR_BAD_INPUT
  else if ppIsIrred (2 ^ (8 * len) + m0 % 2 ^ (8 * len)) then ERR_OK else ERR_BAD_PUBKEY

/-! ## belsGenM0 -/

/-- `for (reps = len * 8 * B_PER_IMPOSSIBLE * 3 / 4; reps--;) { ang(f0, len); if (ppIsIrred(f0)) …break }` -/
def genM0Loop (len : Nat) : Nat → Tape → Option Nat
  | 0, _ => none
  | reps + 1, tp =>
    let r := tapeRead len tp
    if ppIsIrred (2 ^ (8 * len) + r.1) then some r.1 else genM0Loop len reps r.2

/-- `err_t belsGenM0(octet m0[], size_t len, gen_i ang, void* ang_state)` -/
def belsGenM0 (len : Nat) (tp : Tape) : Nat × Option Nat :=
  if !validLen len then (ERR_BAD_INPUT, none)
  else match genM0Loop len (len * 8 * 64 * 3 / 4) tp with
    | some m => (ERR_OK, some m)
    | none => (ERR_BAD_ANG, none)

/-! ## ppMinPoly / ppMinPolyMod -/

/-- `for (i = 2 l - 1; i--;) { t = t a mod md; s[i] = t(0) }`: (i, t, s) -/
def seqLoop (a md : Nat) : Nat → Nat → Nat → Nat
  | 0, _, s => s
  | i + 1, t, s =>
    let t := pmod (clmul t a) md
    seqLoop a md i t (s ||| ((t % 2) <<< i))

/-- the sequence `s[2 l - 1 - j] = (a^(j+1))(0)`, j = 0 … 2l - 1 -/
def minPolySeq (a md l : Nat) : Nat :=
  seqLoop a md (2 * l - 1) a ((a % 2) <<< (2 * l - 1))

/-- `while (ppDeg(aa) + 1 > l) { (q, r) = (bb div aa, bb mod aa); db += q da; swap(da, db);
    bb = aa; aa = r }`; returns da -/
def minPolyLoop (l : Nat) : Nat → Nat → Nat → Nat → Nat → Nat
  | 0, _, _, da, _ => da
  | fuel + 1, aa, bb, da, db =>
    if bitSize aa > l then
      let qr := pdivmod bb aa
      minPolyLoop l fuel qr.2 aa (db ^^^ clmul qr.1 da) da
    else da

/-- `ppMinPoly(b, a, l, stack)`: `a` is cut to 2l bits -/
def ppMinPoly (s l : Nat) : Nat :=
  minPolyLoop l (2 * l + 1) (s % 2 ^ (2 * l)) (2 ^ (2 * l)) 1 0

/-- `ppMinPolyMod(b, a, mod, n, stack)` with `l = ppDeg(mod)` -/
def ppMinPolyMod (a md : Nat) : Nat :=
  let l := bitSize md - 1
  ppMinPoly (minPolySeq a md l) l

/-! ## belsGenMi -/

/-- the acceptance test `f[n] == 1 && wwCmp(f, f0, n) != 0` (l = W n) -/
def miAccept (l f f0 : Nat) : Bool :=
  decide (f / 2 ^ l = 1) && decide (f % 2 ^ l ≠ f0 % 2 ^ l)

/-- `for (reps = 3; reps--;) { ang(u, len); u[n] = 0; f = minpoly(u); if ok break }`:
    (result, last f) -/
def genMiLoop (len f0 : Nat) : Nat → Tape → Nat → Option Nat × Nat
  | 0, _, f => (none, f)
  | reps + 1, tp, _ =>
    let r := tapeRead len tp
    let f := ppMinPolyMod r.1 f0
    if miAccept (8 * len) f f0 then (some (f % 2 ^ (8 * len)), f) else genMiLoop len f0 reps r.2 f

/-- `err_t belsGenMi(octet mi[], size_t len, const octet m0[], gen_i ang, void* ang_state)` -/
def belsGenMi (len m0 : Nat) (tp : Tape) : Nat × Option Nat :=
  if !validLen len then (ERR_BAD_INPUT, none)
  else
    let f0 := 2 ^ (8 * len) + m0 % 2 ^ (8 * len)
    match genMiLoop len f0 3 tp 0 with
    | (some m, _) => (ERR_OK, some m)
    | (none, f) => (if f = f0 then ERR_BAD_ANG else ERR_BAD_PUBKEY, none)

/-! ## belsGenMid -/

/-- `for (reps = 3; reps--;) { f = minpoly(u); if ok break; u = u + 1 (n words) }` -/
def genMidLoop (len f0 : Nat) : Nat → Nat → Option Nat
  | 0, _ => none
  | reps + 1, u =>
    let f := ppMinPolyMod u f0
    if miAccept (8 * len) f f0 then some (f % 2 ^ (8 * len))
    else genMidLoop len f0 reps ((u + 1) % 2 ^ (8 * len))

/-- belsGenMid after hashing: `h` = value of the 32 octets of belt-hash(id);
    `u[n] = 0` and the (n + 1)-word read cut it to `len` octets -/
def belsGenMidH (len m0 h : Nat) : Nat × Option Nat :=
  if !validLen len then (ERR_BAD_INPUT, none)
  else
    let f0 := 2 ^ (8 * len) + m0 % 2 ^ (8 * len)
    match genMidLoop len f0 3 (h % 2 ^ (8 * len)) with
    | some m => (ERR_OK, some m)
    | none => (ERR_BAD_PUBKEY, none)

end Bee2V.C13

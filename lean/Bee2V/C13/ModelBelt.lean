/-
C13 — the parts of bels.c that call belt (model of belt: C01, imported read-only):
belsGenMid (belt-hash of the identifier) and belsShare3 (the experimental deterministic generator
bels-genk: belsGenkStart / belsGenkStepR).
No Mathlib.
-/
import Bee2V.C13.ModelGen
import Bee2V.C01.Model.Hash
namespace Bee2V.C13

def beltHash (bs : List UInt8) : List UInt8 :=
  match (Bee2V.C01.hashHL Bee2V.C01.beltCipher bs).2 with
  | some h => h
  | none => []

/-- `err_t belsGenMid(octet mid[], size_t len, const octet m0[], const octet id[], size_t id_len)` -/
def belsGenMid (len m0 : Nat) (id : List UInt8) : Nat × Option Nat :=
  belsGenMidH len m0 (leNat (beltHash id))

/-- belsGenkStart + one belsGenkStepR of `cnt` octets, as the code computes them:
    K <- beltKeyExpand2(s); K[8..15] <- K; K[0..7] <- ~K; `beltCompr((u32*)key, K, state)` takes
    X = the FIRST 8 words of K (= ~K) and h = `key`, 32 zero octets of the fresh blob (the copy in
    K[8..15] is not read); iv <- <count>_32 || <threshold>_32 || 0^64; belt-ctr(key, iv) key stream -/
def genk (count threshold : Nat) (s : List UInt8) (cnt : Nat) : List UInt8 :=
  let K := Bee2V.C01.u32To (Bee2V.C01.keyExpand2 s)
  let key := Bee2V.C01.compr Bee2V.C01.beltCipher (Bee2V.C01.zeros 32) (Bee2V.C01.negb K)
  let iv := natLE 4 (count % 2 ^ 32) ++ natLE 4 (threshold % 2 ^ 32) ++ Bee2V.C01.zeros 8
  let st := Bee2V.C01.ctrStart Bee2V.C01.beltCipher key iv
  (Bee2V.C01.ctrStepE Bee2V.C01.beltCipher st (Bee2V.C01.zeros cnt)).2

end Bee2V.C13

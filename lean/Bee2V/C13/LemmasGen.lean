/-
C13 — lemmas about the key generation loops of bels.c (ModelGen.lean): an accepted candidate is the
minimal polynomial (as ppMinPolyMod computes it) of one of the elements tried, has degree exactly l
and differs from the common key.
-/
import Bee2V.C13.ModelGen
import Bee2V.C13.Defs
namespace Bee2V.C13.Gen
open Bee2V.C13

theorem miAccept_spec {l f f0 : Nat} (h : miAccept l f f0 = true) :
    f = 2 ^ l + f % 2 ^ l ∧ f % 2 ^ l < 2 ^ l ∧ f % 2 ^ l ≠ f0 % 2 ^ l := by
  unfold miAccept at h
  simp only [Bool.and_eq_true, decide_eq_true_eq] at h
  refine ⟨?_, Nat.mod_lt _ (Nat.two_pow_pos l), h.2⟩
  have := Nat.div_add_mod f (2 ^ l)
  rw [h.1] at this
  omega

/-- the elements tried by belsGenMid: u, u + 1, u + 2 (mod 2^(8 len)) -/
def midCand (len u : Nat) : Nat → Nat
  | 0 => u
  | j + 1 => (midCand len u j + 1) % 2 ^ (8 * len)

theorem genMidLoop_some (len f0 : Nat) : ∀ (reps u m : Nat), genMidLoop len f0 reps u = some m →
    ∃ j, j < reps ∧ ppMinPolyMod (midCand len u j) f0 = 2 ^ (8 * len) + m ∧ m < 2 ^ (8 * len) ∧
      m ≠ f0 % 2 ^ (8 * len) ∧ ∀ i, i < j → miAccept (8 * len) (ppMinPolyMod (midCand len u i) f0) f0 = false := by
  intro reps
  induction reps with
  | zero => intro u m h; simp [genMidLoop] at h
  | succ r ih =>
    intro u m h
    unfold genMidLoop at h
    by_cases hacc : miAccept (8 * len) (ppMinPolyMod u f0) f0 = true
    · simp only [hacc, if_true, Option.some.injEq] at h
      obtain ⟨h1, h2, h3⟩ := miAccept_spec hacc
      refine ⟨0, by omega, ?_, ?_, ?_, ?_⟩
      · rw [← h]; exact h1
      · rw [← h]; exact h2
      · rw [← h]; exact h3
      · intro i hi; omega
    · simp only [hacc, Bool.false_eq_true, if_false] at h
      obtain ⟨j, hj, h1, h2, h3, h4⟩ := ih _ m h
      have hshift : ∀ k, midCand len ((u + 1) % 2 ^ (8 * len)) k = midCand len u (k + 1) := by
        intro k
        induction k with
        | zero => rfl
        | succ k ihk => simp only [midCand] at ihk ⊢; rw [ihk]
      refine ⟨j + 1, by omega, ?_, h2, h3, ?_⟩
      · rw [← hshift]; exact h1
      · intro i hi
        cases i with
        | zero => simpa [midCand] using hacc
        | succ i => rw [← hshift]; exact h4 i (by omega)

/-- the elements read from the tape by belsGenMi -/
def tapeCand (len : Nat) (tp : Tape) (j : Nat) : Nat := (tapeRead len (tp.drop (len * j))).1

theorem genMiLoop_some (len f0 : Nat) : ∀ (reps : Nat) (tp : Tape) (f m fl : Nat),
    genMiLoop len f0 reps tp f = (some m, fl) →
    ∃ j, j < reps ∧ ppMinPolyMod (tapeCand len tp j) f0 = 2 ^ (8 * len) + m ∧ m < 2 ^ (8 * len) ∧
      m ≠ f0 % 2 ^ (8 * len) := by
  intro reps
  induction reps with
  | zero => intro tp f m fl h; simp [genMiLoop] at h
  | succ r ih =>
    intro tp f m fl h
    unfold genMiLoop at h
    by_cases hacc : miAccept (8 * len) (ppMinPolyMod (tapeRead len tp).1 f0) f0 = true
    · simp only [hacc, if_true, Prod.mk.injEq, Option.some.injEq] at h
      obtain ⟨h1, h2, h3⟩ := miAccept_spec hacc
      refine ⟨0, by omega, ?_, ?_, ?_⟩
      · simp only [tapeCand, Nat.mul_zero, List.drop_zero]; rw [← h.1]; exact h1
      · rw [← h.1]; exact h2
      · rw [← h.1]; exact h3
    · simp only [hacc, Bool.false_eq_true, if_false] at h
      obtain ⟨j, hj, h1, h2, h3⟩ := ih _ _ m fl h
      refine ⟨j + 1, by omega, ?_, h2, h3⟩
      have : tapeCand len (tapeRead len tp).2 j = tapeCand len tp (j + 1) := by
        simp only [tapeCand, tapeRead, List.drop_drop]
        congr 3
        rw [Nat.mul_add, Nat.mul_one]; omega
      rw [← this]; exact h1

end Bee2V.C13.Gen

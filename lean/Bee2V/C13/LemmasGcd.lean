/-
C13 — the binary extended GCD of pp_gcd.c (value-level model `ppExGCDV`, C05/ModelPp.lean)
computes THE greatest common divisor in GF(2)[x] (Nat-coded), with reduced Bezout coefficients.

§1 odd part (`oddPart u = u / x^(wwLoZeroBits u)`), first component of `ppHalveEx`
§2 termination with the fuel supplied + "the result divides u and v"
§3 (A) `exGCDV_fst_eq_pgcd`       : (ppExGCDV a b).1 = Spec.pgcd a b
§4 (B) `exGCDV_da_lt`, `exGCDV_db_lt` : deg da < deg b, deg db < deg a   (a or b odd, a, b ≥ 2)
§5 (C) `exGCDV_one_iff`           : returns 1 ⇔ a, b coprime

The Bezout identity itself is `Bee2V.C05.Pp.exGCDV_bezout`.  No Mathlib.
-/
import Bee2V.C05.LemmasPp
namespace Bee2V.C13.Gcd
open Bee2V.C05 Bee2V.C05.Spec Bee2V.C05.Pp

/-! ## §1 odd part -/

/-- `u / x^k`, k = multiplicity of x in u (`wwShLo(u, n, wwLoZeroBits(u, n))`) -/
def oddPart (u : Nat) : Nat := u / 2 ^ ppLoZeros u

theorem halveEx_fst_F (aa bb : Nat) (f : Nat) :
    ∀ u da db, (ppHalveEx aa bb f u da db).1 = u / 2 ^ ppLoZerosF f u := by
  induction f with
  | zero => intro u da db; simp [ppHalveEx, ppLoZerosF]
  | succ f ih =>
    intro u da db
    by_cases hu : u % 2 = 0
    · have e : u / 2 ^ (1 + ppLoZerosF f (u / 2)) = u / 2 / 2 ^ ppLoZerosF f (u / 2) := by
        rw [Nat.add_comm, Nat.pow_succ, Nat.mul_comm _ 2, ← Nat.div_div_eq_div_mul]
      rw [ppHalveEx, ppLoZerosF, if_pos hu, if_pos hu, e]
      split <;> exact ih _ _ _
    · rw [ppHalveEx, ppLoZerosF, if_neg hu, if_neg hu]; simp

/-- the first component of the halving loop (with the fuel supplied by ppExGCDLoop) is the odd part -/
theorem halveEx_fst (aa bb u da db : Nat) :
    (ppHalveEx aa bb (u.log2 + 1) u da db).1 = oddPart u :=
  halveEx_fst_F aa bb (u.log2 + 1) u da db

theorem oddPart_mul (u : Nat) : oddPart u * 2 ^ ppLoZeros u = u :=
  Nat.div_mul_cancel (loZeros_dvd u)

theorem oddPart_odd {u : Nat} (h : u ≠ 0) : oddPart u % 2 = 1 := loZeros_odd h

theorem oddPart_ne_zero {u : Nat} (h : u ≠ 0) : oddPart u ≠ 0 := by
  have := oddPart_odd h; omega

theorem oddPart_of_odd {u : Nat} (h : u % 2 = 1) : oddPart u = u := by
  have : ppLoZeros u = 0 := by
    unfold ppLoZeros
    rw [ppLoZerosF, if_neg (by omega)]
  unfold oddPart
  rw [this]; simp

theorem oddPart_le (u : Nat) : oddPart u ≤ u := Nat.div_le_self _ _

theorem oddPart_le_half {u : Nat} (h : u % 2 = 0) : oddPart u ≤ u / 2 := by
  have : ppLoZeros u = 1 + ppLoZerosF u.log2 (u / 2) := by
    unfold ppLoZeros
    rw [ppLoZerosF, if_pos h]
  unfold oddPart
  rw [this, Nat.add_comm, Nat.pow_succ, Nat.mul_comm _ 2, ← Nat.div_div_eq_div_mul]
  exact Nat.div_le_self _ _

theorem pdvd_oddPart {g u : Nat} (h : PDvd g (oddPart u)) : PDvd g u := by
  have := pdvd_mul (2 ^ ppLoZeros u) h
  rw [two_pow_clmul, Nat.shiftLeft_eq, oddPart_mul] at this
  exact this

theorem log2_oddPart_lt {x k : Nat} (hx : x ≠ 0) (he : x % 2 = 0) (hk : x < 2 ^ (k + 1)) :
    (oddPart x).log2 < k := by
  have h1 := oddPart_le_half he
  have : oddPart x < 2 ^ k := by rw [Nat.pow_succ] at hk; omega
  exact (Nat.log2_lt (oddPart_ne_zero hx)).2 this

theorem log2_oddPart_le (x : Nat) : (oddPart x).log2 ≤ x.log2 := by
  by_cases hx : x = 0
  · subst hx; simp [oddPart]
  · have h1 := oddPart_le x
    have h2 : x < 2 ^ (x.log2 + 1) := Nat.lt_log2_self
    have := (Nat.log2_lt (oddPart_ne_zero hx)).2 (Nat.lt_of_le_of_lt h1 h2)
    omega

theorem xor_xor_cancel_right (x y : Nat) : (x ^^^ y) ^^^ y = x := by
  rw [Nat.xor_assoc, Nat.xor_self, Nat.xor_zero]

/-! ## §2 the loop terminates within the fuel and returns a common divisor -/

/-- If the remaining fuel exceeds deg(odd part of u) + deg(odd part of v), the do-while loop of
    ppExGCD leaves through one of its `u = 0` exits and what it returns divides both u and v. -/
theorem exLoop_dvd (aa bb : Nat) (f : Nat) :
    ∀ u v da0 db0 da db, u ≠ 0 → v ≠ 0 → (oddPart u).log2 + (oddPart v).log2 < f →
      PDvd (ppExGCDLoop aa bb f u v da0 db0 da db).1 u
      ∧ PDvd (ppExGCDLoop aa bb f u v da0 db0 da db).1 v := by
  induction f with
  | zero => intro u v _ _ _ _ _ _ h; omega
  | succ f ih =>
    intro u v da0 db0 da db hu hv hm
    have ou0 := oddPart_ne_zero hu
    have ov0 := oddPart_ne_zero hv
    have ou1 := oddPart_odd hu
    have ov1 := oddPart_odd hv
    unfold ppExGCDLoop
    dsimp only
    simp only [halveEx_fst]
    split
    · rename_i hge
      split
      · rename_i hne
        -- u' = ou + ov ≠ 0 is even, deg u' ≤ deg ou
        have hev : (oddPart u ^^^ oddPart v) % 2 = 0 := by rw [xor_mod_two]; omega
        have hlt : oddPart u ^^^ oddPart v < 2 ^ ((oddPart u).log2 + 1) :=
          Nat.xor_lt_two_pow Nat.lt_log2_self (Nat.lt_of_le_of_lt hge Nat.lt_log2_self)
        have hdec := log2_oddPart_lt hne hev hlt
        have hov := log2_oddPart_le (oddPart v)
        obtain ⟨h1, h2⟩ := ih (oddPart u ^^^ oddPart v) (oddPart v) (da0 := _) (db0 := _)
          (da := _) (db := _) hne ov0 (by omega)
        refine ⟨pdvd_oddPart ?_, pdvd_oddPart h2⟩
        have := pdvd_xor h1 h2
        rwa [xor_xor_cancel_right] at this
      · rename_i hz
        have heq : oddPart u = oddPart v := by
          apply xor_eq_zero_iff.1
          exact Decidable.not_not.1 hz
        refine ⟨pdvd_oddPart ?_, pdvd_oddPart (pdvd_refl _)⟩
        rw [heq]; exact pdvd_refl _
    · rename_i hlt'
      have hne : oddPart v ^^^ oddPart u ≠ 0 := by
        intro h; have := xor_eq_zero_iff.1 h; omega
      have hev : (oddPart v ^^^ oddPart u) % 2 = 0 := by rw [xor_mod_two]; omega
      have hlt : oddPart v ^^^ oddPart u < 2 ^ ((oddPart v).log2 + 1) :=
        Nat.xor_lt_two_pow Nat.lt_log2_self
          (Nat.lt_of_le_of_lt (by omega : oddPart u ≤ oddPart v) Nat.lt_log2_self)
      have hdec := log2_oddPart_lt hne hev hlt
      have hou := log2_oddPart_le (oddPart u)
      obtain ⟨h1, h2⟩ := ih (oddPart u) (oddPart v ^^^ oddPart u) (da0 := _) (db0 := _)
        (da := _) (db := _) ou0 hne (by omega)
      refine ⟨pdvd_oddPart h1, pdvd_oddPart ?_⟩
      have := pdvd_xor h2 h1
      rwa [xor_xor_cancel_right] at this

/-! ## §3 (A) the d of ppExGCD is the greatest common divisor -/

theorem pdvd_shl {g x : Nat} (s : Nat) (h : PDvd g x) : PDvd (g <<< s) (x <<< s) := by
  obtain ⟨q, hq⟩ := h
  exact ⟨q, by rw [hq, clmul_comm q g, ← shiftLeft_clmul, clmul_comm]⟩

theorem shr_ne_zero {n s : Nat} (hn : n ≠ 0) (h : s ≤ ppLoZeros n) : n >>> s ≠ 0 := by
  intro h0
  have := shr_shl_of_le h
  rw [h0, Nat.zero_shiftLeft] at this
  exact hn this.symm

/-- the d of ppExGCD divides a and b (this includes: the loop terminates within its fuel) -/
theorem exGCDV_dvd {a b : Nat} (ha : a ≠ 0) (hb : b ≠ 0) :
    PDvd (ppExGCDV a b).1 a ∧ PDvd (ppExGCDV a b).1 b := by
  have la := Nat.min_le_left (ppLoZeros a) (ppLoZeros b)
  have lb := Nat.min_le_right (ppLoZeros a) (ppLoZeros b)
  have ea := shr_shl_of_le la
  have eb := shr_shl_of_le lb
  have m1 := log2_oddPart_le (a >>> min (ppLoZeros a) (ppLoZeros b))
  have m2 := log2_oddPart_le (b >>> min (ppLoZeros a) (ppLoZeros b))
  obtain ⟨h1, h2⟩ := exLoop_dvd (a >>> min (ppLoZeros a) (ppLoZeros b))
    (b >>> min (ppLoZeros a) (ppLoZeros b))
    ((a >>> min (ppLoZeros a) (ppLoZeros b)).log2 + (b >>> min (ppLoZeros a) (ppLoZeros b)).log2 + 3)
    (a >>> min (ppLoZeros a) (ppLoZeros b)) (b >>> min (ppLoZeros a) (ppLoZeros b)) 1 0 0 1
    (shr_ne_zero ha la) (shr_ne_zero hb lb) (by omega)
  have g1 := pdvd_shl (min (ppLoZeros a) (ppLoZeros b)) h1
  have g2 := pdvd_shl (min (ppLoZeros a) (ppLoZeros b)) h2
  rw [ea] at g1
  rw [eb] at g2
  exact ⟨g1, g2⟩

/-- every common divisor of a and b divides the d of ppExGCD (from the Bezout identity) -/
theorem exGCDV_greatest {a b : Nat} (ha : a ≠ 0) (hb : b ≠ 0) (d : Nat)
    (hda : PDvd d a) (hdb : PDvd d b) : PDvd d (ppExGCDV a b).1 := by
  rw [← exGCDV_bezout ha hb, clmul_comm a, clmul_comm b]
  exact pdvd_xor (pdvd_mul _ hda) (pdvd_mul _ hdb)

theorem exGCDV_isPGcd {a b : Nat} (ha : a ≠ 0) (hb : b ≠ 0) : IsPGcd (ppExGCDV a b).1 a b :=
  ⟨(exGCDV_dvd ha hb).1, (exGCDV_dvd ha hb).2, exGCDV_greatest ha hb⟩

/-- (A) ppExGCD returns THE greatest common divisor (the Euclidean `Spec.pgcd`) -/
theorem exGCDV_fst_eq_pgcd {a b : Nat} (ha : a ≠ 0) (hb : b ≠ 0) :
    (ppExGCDV a b).1 = Spec.pgcd a b :=
  isPGcd_unique (exGCDV_isPGcd ha hb) (pgcd_spec a b)

/-- special case of (A) (kept under the name announced in the task) -/
theorem exGCDV_fst_eq_pgcd_of_odd {a b : Nat} (ha : a ≠ 0) (hb : b ≠ 0)
    (_hodd : a % 2 = 1 ∨ b % 2 = 1) : (ppExGCDV a b).1 = Spec.pgcd a b :=
  exGCDV_fst_eq_pgcd ha hb

/-- full specification of ppExGCD: d = gcd(a, b) and a·da + b·db = d -/
theorem exGCDV_spec {a b : Nat} (ha : a ≠ 0) (hb : b ≠ 0) :
    (ppExGCDV a b).1 = Spec.pgcd a b
    ∧ clmul a (ppExGCDV a b).2.1 ^^^ clmul b (ppExGCDV a b).2.2 = Spec.pgcd a b :=
  ⟨exGCDV_fst_eq_pgcd ha hb, by rw [exGCDV_bezout ha hb, exGCDV_fst_eq_pgcd ha hb]⟩

example : ppExGCDV 0b110110 0b1010 = (0b1010, 0, 1) := by decide
example : (ppExGCDV 0b110110 0b1010).1 = Spec.pgcd 0b110110 0b1010 := by decide
example : ppExGCDV (clmul 0b111 0b1011) (clmul 0b111 0b1101) = (0b111, 0b10, 0b11) := by decide

/-! ## §4 (B) degree bounds of the Bezout coefficients -/

theorem halveEx_bound (aa bb : Nat) (f : Nat) :
    ∀ u da db, da < 2 ^ bb.log2 → db < 2 ^ aa.log2 →
      (ppHalveEx aa bb f u da db).2.1 < 2 ^ bb.log2 ∧ (ppHalveEx aa bb f u da db).2.2 < 2 ^ aa.log2 := by
  induction f with
  | zero => intro u da db h1 h2; exact ⟨h1, h2⟩
  | succ f ih =>
    intro u da db h1 h2
    unfold ppHalveEx
    split
    · split
      · exact ih _ _ _ (by omega) (by omega)
      · apply ih
        · have h : da ^^^ bb < 2 ^ (bb.log2 + 1) :=
            Nat.xor_lt_two_pow (by rw [Nat.pow_succ]; omega) Nat.lt_log2_self
          rw [Nat.pow_succ] at h
          omega
        · have h : db ^^^ aa < 2 ^ (aa.log2 + 1) :=
            Nat.xor_lt_two_pow (by rw [Nat.pow_succ]; omega) Nat.lt_log2_self
          rw [Nat.pow_succ] at h
          omega
    · exact ⟨h1, h2⟩

theorem exLoop_bound (aa bb : Nat) (f : Nat) :
    ∀ u v da0 db0 da db, da0 < 2 ^ bb.log2 → db0 < 2 ^ aa.log2 → da < 2 ^ bb.log2 → db < 2 ^ aa.log2 →
      (ppExGCDLoop aa bb f u v da0 db0 da db).2.1 < 2 ^ bb.log2
      ∧ (ppExGCDLoop aa bb f u v da0 db0 da db).2.2 < 2 ^ aa.log2 := by
  induction f with
  | zero => intro u v da0 db0 da db _ _ h1 h2; exact ⟨h1, h2⟩
  | succ f ih =>
    intro u v da0 db0 da db h01 h02 h1 h2
    obtain ⟨i01, i02⟩ := halveEx_bound aa bb (u.log2 + 1) u da0 db0 h01 h02
    obtain ⟨i1, i2⟩ := halveEx_bound aa bb (v.log2 + 1) v da db h1 h2
    unfold ppExGCDLoop
    dsimp only
    split
    · split
      · exact ih _ _ _ _ _ _ (Nat.xor_lt_two_pow i01 i1) (Nat.xor_lt_two_pow i02 i2) i1 i2
      · exact ⟨i1, i2⟩
    · split
      · exact ih _ _ _ _ _ _ i01 i02 (Nat.xor_lt_two_pow i1 i01) (Nat.xor_lt_two_pow i2 i02)
      · exact ⟨Nat.xor_lt_two_pow i1 i01, Nat.xor_lt_two_pow i2 i02⟩

theorem loZeros_of_odd {u : Nat} (h : u % 2 = 1) : ppLoZeros u = 0 := by
  unfold ppLoZeros
  rw [ppLoZerosF, if_neg (by omega)]

theorem min_loZeros_of_odd {a b : Nat} (hodd : a % 2 = 1 ∨ b % 2 = 1) :
    min (ppLoZeros a) (ppLoZeros b) = 0 := by
  rcases hodd with h | h
  · rw [loZeros_of_odd h]; exact Nat.zero_min _
  · rw [loZeros_of_odd h]; exact Nat.min_zero _

/-- with a or b odd there is no common power of x to strip: ppExGCD is the bare loop -/
theorem exGCDV_of_odd {a b : Nat} (hodd : a % 2 = 1 ∨ b % 2 = 1) :
    ppExGCDV a b = ppExGCDLoop a b (a.log2 + b.log2 + 3) a b 1 0 0 1 := by
  unfold ppExGCDV
  simp only [min_loZeros_of_odd hodd, Nat.shiftRight_zero, Nat.shiftLeft_zero]

theorem one_lt_two_pow_log2 {n : Nat} (h : 2 ≤ n) : 1 < 2 ^ n.log2 := by
  have h1 : 2 ^ 1 ≤ n := by omega
  have h2 := (Nat.le_log2 (by omega : n ≠ 0)).2 h1
  exact Nat.lt_of_lt_of_le (by decide : 1 < 2 ^ 1) (Nat.pow_le_pow_right (by omega) h2)

theorem exGCDV_bounds {a b : Nat} (hodd : a % 2 = 1 ∨ b % 2 = 1) (ha : 2 ≤ a) (hb : 2 ≤ b) :
    (ppExGCDV a b).2.1 < 2 ^ b.log2 ∧ (ppExGCDV a b).2.2 < 2 ^ a.log2 := by
  rw [exGCDV_of_odd hodd]
  exact exLoop_bound a b _ a b 1 0 0 1 (one_lt_two_pow_log2 hb) (Nat.two_pow_pos _)
    (Nat.two_pow_pos _) (one_lt_two_pow_log2 ha)

/-- (B) deg da < deg b -/
theorem exGCDV_da_lt {a b : Nat} (hodd : a % 2 = 1 ∨ b % 2 = 1) (ha : 2 ≤ a) (hb : 2 ≤ b) :
    (ppExGCDV a b).2.1 < 2 ^ b.log2 := (exGCDV_bounds hodd ha hb).1

/-- (B) deg db < deg a -/
theorem exGCDV_db_lt {a b : Nat} (hodd : a % 2 = 1 ∨ b % 2 = 1) (ha : 2 ≤ a) (hb : 2 ≤ b) :
    (ppExGCDV a b).2.2 < 2 ^ a.log2 := (exGCDV_bounds hodd ha hb).2

example : (ppExGCDV 0b110111 0b1010).2.1 < 2 ^ (0b1010).log2
    ∧ (ppExGCDV 0b110111 0b1010).2.2 < 2 ^ (0b110111).log2 := by decide

/-! ## §5 (C) coprime ⇔ ppExGCD returns 1 -/

/-- the only divisor of 1 is 1 (degree) -/
theorem pdvd_one {d : Nat} (h : PDvd d 1) : d = 1 := by
  obtain ⟨q, hq⟩ := h
  have hq0 : q ≠ 0 := by intro h0; rw [h0, zero_clmul] at hq; omega
  have hd0 : d ≠ 0 := by intro h0; rw [h0, clmul_zero] at hq; omega
  have hl := log2_clmul hq0 hd0
  rw [← hq] at hl
  have h10 : Nat.log2 1 = 0 := by simpa using @Nat.log2_two_pow 0
  have := (Nat.log2_lt hd0).1 (by omega : d.log2 < 1)
  omega

/-- (C) ppExGCD returns 1 exactly for coprime a, b -/
theorem exGCDV_one_iff {a b : Nat} (ha : a ≠ 0) (hb : b ≠ 0) :
    (ppExGCDV a b).1 = 1 ↔ ∀ d, PDvd d a → PDvd d b → d = 1 := by
  constructor
  · intro h1 d hda hdb
    have := exGCDV_greatest ha hb d hda hdb
    rw [h1] at this
    exact pdvd_one this
  · intro h
    exact h _ (exGCDV_dvd ha hb).1 (exGCDV_dvd ha hb).2

example : (ppExGCDV 0b1011 0b1101).1 = 1 := by decide
example : (ppExGCDV 0b110110 0b1010).1 ≠ 1 := by decide

end Bee2V.C13.Gcd

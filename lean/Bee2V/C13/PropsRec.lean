/-
C13 — property theorems, part 1: belsShare / belsRecover (src/crypto/bels.c) over the register
model of Model.lean.  For ALL word sizes W ≥ 1, key lengths n ≥ 1 words (l = W n bits), thresholds,
numbers of users, secrets, keys and generator outputs.

Notation: `keyPoly W n m = x^l + m(x)`; `secretPoly W n m0 k s = (x^l + m0) k + s`;
`shareSpec W n m0 k s m = secretPoly mod (x^l + m)` (STB 34.101.60, bels-share);
`PCoprime a b` = no common divisor except 1; `recoverCore W n m0 prs` = the computation of
belsRecover on the (key, share) pairs `prs` IN THE ORDER GIVEN: (err_t, secret).
Lemmas: LemmasGcd.lean (binary extended gcd = gcd), LemmasCrt.lean (CRT algebra),
LemmasReg.lean (registers with the declared word counts = algebra), LemmasStd.lean (standard keys).
-/
import Bee2V.C13.LemmasReg
import Bee2V.C13.LemmasCrt
import Bee2V.C13.LemmasStd
namespace Bee2V.C13
open Bee2V.C05 (ppExGCDV)
open Bee2V.C05.Spec (clmul pmod pgcd)
open Bee2V.C05.Pp (PDvd Cong)

/-! ## (iii-a) the binary extended gcd of pp_gcd.c -/

/-- ppExGCD (value-level model of the binary algorithm) returns THE gcd and Bezout coefficients -/
theorem exgcd_is_gcd (a b : Nat) (ha : a ≠ 0) (hb : b ≠ 0) :
    (ppExGCDV a b).1 = pgcd a b ∧
    clmul a (ppExGCDV a b).2.1 ^^^ clmul b (ppExGCDV a b).2.2 = pgcd a b :=
  Gcd.exGCDV_spec ha hb

example : (ppExGCDV 0b1011 0b1101).1 = 1 := by decide

/-- … and it returns 1 exactly for coprime arguments -/
theorem exgcd_one_iff_coprime (a b : Nat) (ha : a ≠ 0) (hb : b ≠ 0) :
    (ppExGCDV a b).1 = 1 ↔ PCoprime a b := Gcd.exGCDV_one_iff ha hb

/-! ## (ii) every share equals the standard's value -/

/-- belsShare / belsShare2: the i-th share written is `((x^l + m0) k + s) mod (x^l + m_i)`, where
    `k` is the `(t-1) n` words the generator delivered -/
theorem share_equals_standard (W n t s m0 k : Nat) (mi : List Nat) (hW : 0 < W) (hn : 0 < n)
    (ht : 0 < t) (hs : s < 2 ^ (W * n)) (hm0 : m0 < 2 ^ (W * n)) (hmi : ∀ m ∈ mi, m < 2 ^ (W * n)) :
    shareCore W n t s m0 mi k = mi.map (shareSpec W n m0 (lowW W (t * n - n) k) s) :=
  Reg.shareCore_spec W n t s m0 k mi hW hn ht hs hm0 hmi

example : shareCore 8 2 2 0x1234 0x87 [0x285, 0xC41] 0xBEEF =
    [shareSpec 8 2 0x87 0xBEEF 0x1234 0x285, shareSpec 8 2 0x87 0xBEEF 0x1234 0xC41] := by decide

/-! ## (v) the declared operand lengths never truncate: registers = algebra -/

/-- belsRecover with its buffers, word counts and stale high words computes exactly the
    register-free incremental CRT `crtLoop` (Defs.lean) followed by the reduction modulo x^l + m0;
    ERR_BAD_PUBKEY exactly when the algebra stops at a gcd ≠ 1.  (Every `lowW`/`setLow` of
    `recStep` is the identity on the values that occur: `Reg.recStep_char`.) -/
theorem recover_registers_exact (W n m0 m1 s1 : Nat) (rest : List (Nat × Nat)) (hW : 0 < W) (hn : 0 < n)
    (hm0 : m0 < 2 ^ (W * n))
    (h : ∀ p ∈ (m1, s1) :: rest, p.1 < 2 ^ (W * n) ∧ p.2 < 2 ^ (W * n)) :
    recoverCore W n m0 ((m1, s1) :: rest) =
      match crtLoop W n rest (keyPoly W n m1, s1) with
      | none => (ERR_BAD_PUBKEY, 0)
      | some (_, C) => (ERR_OK, pmod C (keyPoly W n m0)) :=
  Reg.recoverCore_eq W n m0 m1 s1 rest hW hn hm0 h

/-! ## (i) the CRT invariant and the main theorem -/

/-- one iteration of the loop: the new accumulator is congruent to the old one modulo the old
    product and to the new share modulo the new key polynomial, and it is reduced -/
theorem crt_step_invariant {F s G C G' C' : Nat} (hF : 2 ≤ F) (hG : 2 ≤ G)
    (h : crtStep F s (G, C) = some (G', C')) :
    G' = clmul F G ∧ Cong G C' C ∧ Cong F C' s ∧ C' < 2 ^ G'.log2 := by
  obtain ⟨h1, _, h3⟩ := Crt.crtStep_shape hF hG h
  obtain ⟨h4, h5⟩ := Crt.crtStep_cong hF hG h
  exact ⟨h1, h4, h5, h3⟩

example : crtStep 0b1011 0b10 (0b1101, 0b11) = some (clmul 0b1011 0b1101, 20) ∧ pmod 20 0b1011 = 0b10 ∧ pmod 20 0b1101 = 0b11 := by decide

theorem shareSpec_lt (W n m0 k s m : Nat) (hm : m < 2 ^ (W * n)) : shareSpec W n m0 k s m < 2 ^ (W * n) := by
  have := Crt.pmod_lt (secretPoly W n m0 k s) (Reg.keyPoly_ne_zero W n m)
  rwa [Crt.keyPoly_log2 hm] at this

/-- MAIN.  Any list `prs` of at least `t` (key, share) pairs — any subset of the users, in any
    order, repetitions excluded by coprimality — whose shares are the standard's values for the
    secret `s` and a generator output `k` of `(t-1) n` words, with pairwise coprime key polynomials:
    belsRecover returns ERR_OK and the secret. -/
theorem recover_any_subset_any_order (W n t s m0 k : Nat) (prs : List (Nat × Nat))
    (hW : 0 < W) (hn : 0 < n) (ht : 0 < t) (hs : s < 2 ^ (W * n)) (hm0 : m0 < 2 ^ (W * n))
    (hk : k < 2 ^ (W * (t * n - n)))
    (hm : ∀ p ∈ prs, p.1 < 2 ^ (W * n))
    (hsh : ∀ p ∈ prs, p.2 = shareSpec W n m0 k s p.1)
    (hcop : prs.Pairwise (fun p q => PCoprime (keyPoly W n p.1) (keyPoly W n q.1)))
    (hlen : t ≤ prs.length) :
    recoverCore W n m0 prs = (ERR_OK, s) := by
  cases prs with
  | nil => simp at hlen; omega
  | cons p rest =>
    obtain ⟨m1, s1⟩ := p
    have hb : ∀ p ∈ (m1, s1) :: rest, p.1 < 2 ^ (W * n) ∧ p.2 < 2 ^ (W * n) := by
      intro p hp
      refine ⟨hm p hp, ?_⟩
      rw [hsh p hp]; exact shareSpec_lt W n m0 k s p.1 (hm p hp)
    rw [recover_registers_exact W n m0 m1 s1 rest hW hn hm0 hb]
    have hX : secretPoly W n m0 k s < 2 ^ (W * n * (rest.length + 1)) := by
      have h1 := Crt.secretPoly_lt W n t m0 k s ht hs hm0 hk
      have h2 : W * n * t ≤ W * n * (rest.length + 1) := Nat.mul_le_mul_left _ (by simpa using hlen)
      exact Nat.lt_of_lt_of_le h1 (Nat.pow_le_pow_right (by omega) h2)
    obtain ⟨G, hG⟩ := Crt.crtLoop_correct W n (secretPoly W n m0 k s) m1 s1 rest hW hn hm
      (fun p hp => hsh p hp) hcop hX
    rw [hG]
    simp only [Crt.secretPoly_mod W n m0 k s hs hm0]

/-- non-vacuity: toy parameters W = 8, n = 1 (l = 8), threshold 2, users with the coprime keys
    x^8 + 0x1B, x^8 + 0x1D, x^8 + 0x2B; shares of users 3 and 1, in this order -/
example : recoverCore 8 1 0x1B [(0x2B, shareSpec 8 1 0x1B 0x5A 0xC3 0x2B), (0x1D, shareSpec 8 1 0x1B 0x5A 0xC3 0x1D)]
    = (ERR_OK, 0xC3) := by decide

/-- end to end: split with belsShare (keys `mi`, pairwise coprime), take ANY list of the produced
    (key, share) pairs of length ≥ t with pairwise coprime keys, in any order: belsRecover
    returns the secret -/
theorem share_then_recover (W n t s m0 k : Nat) (mi : List Nat) (prs : List (Nat × Nat))
    (hW : 0 < W) (hn : 0 < n) (ht : 0 < t) (hs : s < 2 ^ (W * n)) (hm0 : m0 < 2 ^ (W * n))
    (hmi : ∀ m ∈ mi, m < 2 ^ (W * n))
    (hsel : ∀ p ∈ prs, p ∈ mi.zip (shareCore W n t s m0 mi k))
    (hcop : prs.Pairwise (fun p q => PCoprime (keyPoly W n p.1) (keyPoly W n q.1)))
    (hlen : t ≤ prs.length) :
    recoverCore W n m0 prs = (ERR_OK, s) := by
  rw [share_equals_standard W n t s m0 k mi hW hn ht hs hm0 hmi] at hsel
  have hz : ∀ (l : List Nat) (f : Nat → Nat) (p : Nat × Nat), p ∈ l.zip (l.map f) → p.1 ∈ l ∧ p.2 = f p.1 := by
    intro l f
    induction l with
    | nil => intro p hp; simp at hp
    | cons a l ih =>
      intro p hp
      simp only [List.map_cons, List.zip_cons_cons, List.mem_cons] at hp
      rcases hp with hp | hp
      · subst hp; exact ⟨List.mem_cons_self .., rfl⟩
      · exact ⟨List.mem_cons_of_mem _ (ih p hp).1, (ih p hp).2⟩
  apply recover_any_subset_any_order W n t s m0 (lowW W (t * n - n) k) prs hW hn ht hs hm0
    (Reg.lowW_lt W (t * n - n) k)
  · intro p hp; exact hmi _ (hz _ _ p (hsel p hp)).1
  · intro p hp; exact (hz _ _ p (hsel p hp)).2
  · exact hcop
  · exact hlen

/-! ## (iii) the error code -/

/-- for ANY share values: belsRecover fails — with ERR_BAD_PUBKEY — exactly when two of the key
    polynomials presented are not coprime; otherwise it returns ERR_OK -/
theorem recover_error_iff (W n m0 : Nat) (prs : List (Nat × Nat)) (hW : 0 < W) (hn : 0 < n)
    (hne : prs ≠ []) (hm0 : m0 < 2 ^ (W * n))
    (h : ∀ p ∈ prs, p.1 < 2 ^ (W * n) ∧ p.2 < 2 ^ (W * n)) :
    ((recoverCore W n m0 prs).1 = ERR_BAD_PUBKEY ↔
      ¬ prs.Pairwise (fun p q => PCoprime (keyPoly W n p.1) (keyPoly W n q.1))) ∧
    ((recoverCore W n m0 prs).1 = ERR_OK ↔
      prs.Pairwise (fun p q => PCoprime (keyPoly W n p.1) (keyPoly W n q.1))) := by
  cases prs with
  | nil => exact absurd rfl hne
  | cons p rest =>
    obtain ⟨m1, s1⟩ := p
    rw [recover_registers_exact W n m0 m1 s1 rest hW hn hm0 h]
    have hiff := Crt.crtLoop_none_iff W n m1 s1 rest hW hn (fun p hp => (h p hp).1)
    cases hc : crtLoop W n rest (keyPoly W n m1, s1) with
    | none =>
      have hnp := hiff.1 hc
      exact ⟨⟨fun _ => hnp, fun _ => rfl⟩, ⟨fun h => absurd h (by show ¬ (ERR_BAD_PUBKEY = ERR_OK); decide), fun h => absurd h hnp⟩⟩
    | some gc =>
      obtain ⟨G, C⟩ := gc
      have hp : ((m1, s1) :: rest).Pairwise (fun p q => PCoprime (keyPoly W n p.1) (keyPoly W n q.1)) :=
        Classical.byContradiction fun hcon => by
          have := hiff.2 hcon
          rw [hc] at this; cases this
      exact ⟨⟨fun h => absurd h (by show ¬ (ERR_OK = ERR_BAD_PUBKEY); decide), fun h => absurd hp h⟩, ⟨fun _ => hp, fun _ => rfl⟩⟩

example : (recoverCore 8 1 0x1B [(0x2B, 1), (0x2B, 1)]).1 = ERR_BAD_PUBKEY := by decide

/-- distinct irreducible polynomials of the same degree are coprime — so distinct VALID keys
    (belsValM's meaning) never produce the error -/
theorem irreducible_distinct_coprime {f g : Nat} (hf : PIrred f) (hg : PIrred g) (hdeg : f.log2 = g.log2)
    (hne : f ≠ g) : PCoprime f g := Crt.pirred_coprime hf hg hdeg hne

example : PIrred 0b111 := by
  refine ⟨by decide, fun d hd => ?_⟩
  obtain ⟨q, hq⟩ := hd
  have h1 := Reg.log2_le_of_pdvd (a := 7) (d := d) (by decide) ⟨q, hq⟩
  have h2 := Reg.log2_le_of_pdvd (a := 7) (d := q) (by decide) ⟨d, by rw [hq, Bee2V.C05.Pp.clmul_comm]⟩
  have e : (7 : Nat).log2 = 2 := by decide
  rw [e] at h1 h2
  have hd8 : d < 2 ^ 3 := (Nat.log2_lt h1.1).1 (by omega)
  have hq8 : q < 2 ^ 3 := (Nat.log2_lt h2.1).1 (by omega)
  have key : ∀ d < 8, ∀ q < 8, 7 = clmul q d → d = 1 ∨ d = 7 := by decide
  exact key d hd8 q hq8 hq

example : PCoprime (keyPoly 64 2 (stdM 16 1)) (keyPoly 64 2 (stdM 16 16)) :=
  Std.std_coprime (Or.inl rfl) rfl (by decide) (by decide) (by decide)

end Bee2V.C13

/-
C13 — the standard public keys of STB 34.101.60 (tables m_16, m_24, m_32 of bels.c):
the 17 polynomials x^l + m_i of each length are pairwise coprime (kernel evaluation of Euclid's
algorithm `Spec.pgcd` on the 3 × 136 pairs).
-/
import Bee2V.C13.LemmasCrt
namespace Bee2V.C13.Std
open Bee2V.C13 Bee2V.C05.Spec Bee2V.C05.Pp

/-- all pairs i < j ≤ 16 of standard key polynomials of length `len` have gcd 1 -/
def stdCoprimeAll (len : Nat) : Bool :=
  (List.range 17).all fun i => (List.range 17).all fun j =>
    decide (j ≤ i) || pgcd (2 ^ (8 * len) + stdM len i) (2 ^ (8 * len) + stdM len j) == 1

theorem stdCoprimeAll16 : stdCoprimeAll 16 = true := by decide +kernel
theorem stdCoprimeAll24 : stdCoprimeAll 24 = true := by decide +kernel
theorem stdCoprimeAll32 : stdCoprimeAll 32 = true := by decide +kernel

theorem pcoprime_of_pgcd_one {a b : Nat} (h : pgcd a b = 1) : PCoprime a b := by
  intro d hda hdb
  have := (pgcd_spec a b).2.2 d hda hdb
  rw [h] at this
  exact Gcd.pdvd_one this

theorem std_pgcd_one {len : Nat} (hlen : len = 16 ∨ len = 24 ∨ len = 32) {i j : Nat} (hij : i < j) (hj : j ≤ 16) :
    pgcd (2 ^ (8 * len) + stdM len i) (2 ^ (8 * len) + stdM len j) = 1 := by
  have hall : stdCoprimeAll len = true := by
    rcases hlen with h | h | h <;> subst h
    · exact stdCoprimeAll16
    · exact stdCoprimeAll24
    · exact stdCoprimeAll32
  unfold stdCoprimeAll at hall
  rw [List.all_eq_true] at hall
  have h1 := hall i (List.mem_range.2 (by omega))
  rw [List.all_eq_true] at h1
  have h2 := h1 j (List.mem_range.2 (by omega))
  simp only [Bool.or_eq_true, decide_eq_true_eq, beq_iff_eq] at h2
  rcases h2 with h2 | h2
  · omega
  · exact h2

/-- distinct standard keys (numbers 0..16, same length) are coprime -/
theorem std_coprime {len : Nat} (hlen : len = 16 ∨ len = 24 ∨ len = 32) {W n : Nat} (hWn : W * n = 8 * len)
    {i j : Nat} (hi : i ≤ 16) (hj : j ≤ 16) (hne : i ≠ j) :
    PCoprime (keyPoly W n (stdM len i)) (keyPoly W n (stdM len j)) := by
  unfold keyPoly
  rw [hWn]
  rcases Nat.lt_or_gt_of_ne hne with h | h
  · exact pcoprime_of_pgcd_one (std_pgcd_one hlen h hj)
  · exact Crt.pcoprime_comm.1 (pcoprime_of_pgcd_one (std_pgcd_one hlen h hi))

end Bee2V.C13.Std

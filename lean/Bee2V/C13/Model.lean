/-
C13 — executable, code-shaped model of src/crypto/bels.c (STB 34.101.60 secret sharing):
belsStdM, belsShare / belsShare2 (core), belsRecover / belsRecover2.

Binary polynomials are Nat-coded (bit i = coefficient of x^i; `^^^` = addition,
`Spec.clmul` = multiplication, `Spec.pmod` = remainder; all from the C05 specification layer).
The word layer (ppMul / ppMod / ppExGCD on word arrays) is NOT re-modelled here — that is C05's
subject; what IS modelled is the operand-length bookkeeping of bels.c: every buffer of the C state
(`f g d u v c t`) is a register holding the contents of its whole memory region as a number
(word j of the region = bits [W j, W (j+1)) ), every call reads EXACTLY the number of words the C
passes (`lowW W k x` = the k low words) and overwrites EXACTLY the words the callee writes
(`setLow`, xor at a word offset).  Stale high words stay in the registers, as in memory.  If an
operand did not fit the declared length the model would truncate it, as the C would;
Props.lean proves that no truncation ever happens.  `W` = B_PER_W (64; 32 in the `w32` build).

Not modelled: the region `d` (declared (count-1) n + 1 words) receives a 2n-word product; for
count = 2 the upper n - 1 words land in the region of `u`, which is dead by then.  The registers
are separate here; the interval arithmetic of the layout is `layout_*` in Props.lean.

No Mathlib (this file is linked into the native driver `drv_c13`).
-/
import Bee2V.C05.Spec
import Bee2V.C05.ModelPp
namespace Bee2V.C13
open Bee2V.C05 (ppExGCDV ppGCDV)
open Bee2V.C05.Spec (clmul pmod pdivmod)

def ERR_OK : Nat := 0
def ERR_BAD_INPUT : Nat := 109
def ERR_BAD_RNG : Nat := 304
def ERR_BAD_ANG : Nat := 305
def ERR_BAD_PUBKEY : Nat := 505

/-! ## word-level views of a register -/

/-- the `k` low `W`-bit words of a region -/
def lowW (W k x : Nat) : Nat := x % 2 ^ (W * k)

/-- overwrite the `k` low words of a region (`new` is what the callee produced: it is cut to
    `k` words, the words above keep their old contents) -/
def setLow (W k old new : Nat) : Nat := old / 2 ^ (W * k) * 2 ^ (W * k) + new % 2 ^ (W * k)

/-- `a[k] = w` (w a word) -/
def setWord (W k old w : Nat) : Nat := setLow W (k + 1) old (lowW W k old + w % 2 ^ W * 2 ^ (W * k))

/-- `wwXor2(a + off, b, k)` -/
def xorAt (W off k a b : Nat) : Nat := a ^^^ (lowW W k b <<< (W * off))

/-- `ppMul(c, a, n, b, m, stack)`: c has n + m words -/
def ppMulR (W : Nat) (c a n b m : Nat) : Nat := setLow W (n + m) c (clmul (lowW W n a) (lowW W m b))

/-- `ppMod(r, a, n, b, m, stack)`: r has m words -/
def ppModR (W : Nat) (r a n b m : Nat) : Nat := setLow W m r (pmod (lowW W n a) (lowW W m b))

/-! ## belsStdM -/

def m16 : List Nat := [0x00000087,
  0x00000285, 0x00000C41, 0x00001821, 0x00008015, 0x00008301, 0x00020281, 0x00022081, 0x0002A001,
  0x00080141, 0x00080205, 0x00082801, 0x0008A001, 0x00108041, 0x00200025, 0x00200405, 0x00200C01]
def m24 : List Nat := [0x00000087,
  0x00001209, 0x00001241, 0x00008601, 0x00008821, 0x0000C005, 0x00020049, 0x00020085, 0x00021009,
  0x00060801, 0x00090201, 0x000A0081, 0x00200411, 0x00228001, 0x00400209, 0x00420801, 0x00810401]
def m32 : List Nat := [0x00000425,
  0x0001000B, 0x0001000D, 0x0001A001, 0x00020061, 0x00040085, 0x00200181, 0x00204005, 0x00280011,
  0x00810201, 0x00820401, 0x0100000B, 0x01002801, 0x01200009, 0x02000029, 0x02002009, 0x0800000B]

def validLen (len : Nat) : Bool := len == 16 || len == 24 || len == 32

/-- the table entry (`num ≤ 16`); the value of the `len` octets written by belsStdM -/
def stdM (len num : Nat) : Nat :=
  if len = 16 then m16.getD num 0 else if len = 24 then m24.getD num 0 else m32.getD num 0

/-- `err_t belsStdM(octet m[], size_t len, size_t num)`: (code, value of m) -/
def belsStdM (len num : Nat) : Nat × Nat :=
  if !validLen len || num > 16 then (ERR_BAD_INPUT, 0) else (ERR_OK, stdM len num)

/-! ## belsShare / belsShare2 -/

/-- `c(x) <- (x^l + m0(x)) k(x) + s(x)` as bels.c computes it:
    wwFrom(f, m0); ppMul(c, k, tn - n, f, n); wwXor2(c + n, k, tn - n); wwFrom(f, s); wwXor2(c, f, n).
    Returns (f, c) (fresh zero-filled blob). -/
def shareC (W n t s m0 k : Nat) : Nat × Nat :=
  let f := setLow W n 0 m0
  let c := ppMulR W 0 k (t * n - n) f n
  let c := xorAt W n (t * n - n) c k
  let f := setLow W n f s
  let c := xorAt W 0 n c f
  (f, c)

/-- the user loop: `wwFrom(f, mi); f[n] = 1; ppMod(f, c, tn, f, n + 1); wwTo(si, len, f)`;
    `f` is carried from user to user -/
def shareLoop (W n t c : Nat) : List Nat → Nat → List Nat
  | [], _ => []
  | m :: ms, f =>
    let f := setWord W n (setLow W n f m) 1
    let f := ppModR W f c (t * n) f (n + 1)
    lowW W n f :: shareLoop W n t c ms f

/-- share values for the keys `mi` (numbers of `n` words), `k` = the generator output -/
def shareCore (W n t s m0 : Nat) (mi : List Nat) (k : Nat) : List Nat :=
  let fc := shareC W n t s m0 (lowW W (t * n - n) k)
  shareLoop W n t fc.2 mi fc.1

/-! ## belsRecover / belsRecover2 -/

structure RecSt where
  f : Nat
  g : Nat
  d : Nat
  u : Nat
  v : Nat
  c : Nat
  t : Nat
  deriving Repr, DecidableEq

/-- before the loop: `wwFrom(c, s1, len); wwFrom(g, m1, len), g[n] = 1; f[n] = 1` -/
def recInit (W n m1 s1 : Nat) : RecSt :=
  { f := setWord W n 0 1, g := setWord W n (setLow W n 0 m1) 1, d := 0, u := 0, v := 0,
    c := setLow W n 0 s1, t := 0 }

/-- one iteration (user `i ≥ 1` with key `m`, share `s`) of the loop of belsRecover;
    `none` = `return ERR_BAD_PUBKEY` -/
def recStep (W n m s i : Nat) (st : RecSt) : Option RecSt :=
  -- wwFrom(f, mi + i * len, len)
  let f := setLow W n st.f m
  -- ppExGCD(d, u, v, f, n + 1, g, i * n + 1, stack)
  let r := ppExGCDV (lowW W (n + 1) f) (lowW W (i * n + 1) st.g)
  let d := setLow W (n + 1) st.d r.1
  let u := setLow W (i * n + 1) st.u r.2.1
  let v := setLow W (n + 1) st.v r.2.2
  -- wwCmpW(d, n + 1, 1) != 0
  if lowW W (n + 1) d ≠ 1 then none else
  -- c <- u f c
  let t := ppMulR W st.t u (i * n) st.c (i * n)
  let c := ppMulR W st.c t (2 * i * n) f n
  let c := xorAt W n (2 * i * n) c t
  -- c <- c + v g si
  let t := setLow W n t s
  let d := ppMulR W d v n t n
  let t := ppMulR W t d (2 * n) st.g (i * n)
  let t := xorAt W (i * n) (2 * n) t d
  let c := xorAt W 0 ((i + 2) * n) c t
  -- g <- g f
  let t := ppMulR W t f n st.g (i * n)
  let t := xorAt W n (i * n) t st.g
  let t := xorAt W (i * n) n t f
  let g := setLow W ((i + 1) * n) st.g t
  let g := setWord W ((i + 1) * n) g 1
  -- c <- c mod g
  let c := ppModR W c c ((2 * i + 1) * n) g ((i + 1) * n + 1)
  some { f := f, g := g, d := d, u := u, v := v, c := c, t := t }

/-- `for (i = 1; i < count; ++i)` over the remaining (key, share) pairs -/
def recLoop (W n : Nat) : List (Nat × Nat) → Nat → RecSt → Option RecSt
  | [], _, st => some st
  | (m, s) :: rest, i, st =>
    match recStep W n m s i st with
    | none => none
    | some st' => recLoop W n rest (i + 1) st'

/-- after the loop: `wwFrom(f, m0), f[n] = 1; ppMod(c, c, count * n, f, n + 1); wwTo(s, len, c)` -/
def recFinal (W n count m0 : Nat) (st : RecSt) : Nat :=
  let f := setWord W n (setLow W n st.f m0) 1
  let c := ppModR W st.c st.c (count * n) f (n + 1)
  lowW W n c

/-- the computational part of belsRecover on (key, share) pairs (count ≥ 1):
    (code, secret value) -/
def recoverCore (W n m0 : Nat) : List (Nat × Nat) → Nat × Nat
  | [] => (ERR_BAD_INPUT, 0)
  | (m1, s1) :: rest =>
    match recLoop W n rest 1 (recInit W n m1 s1) with
    | none => (ERR_BAD_PUBKEY, 0)
    | some st => (ERR_OK, recFinal W n (rest.length + 1) m0 st)

/-- the user-number check of belsRecover2: every number in 1..16 and pairwise distinct
    (same loop nest: for i { range check of i; for j > i: equality }) -/
def numsOk : List Nat → Bool
  | [] => true
  | x :: xs => if x = 0 || x > 16 then false else if xs.contains x then false else numsOk xs

end Bee2V.C13

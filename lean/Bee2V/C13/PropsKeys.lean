/-
C13 — property theorems, part 3: validity of keys (belsValM, belsGenMi, belsGenMid) and recovery
with valid / generated keys without a coprimality hypothesis.
Rests on C05's theorems about its value-level models (Ben-Or test ⇔ irreducible; ppMinPolyMod =
the minimal polynomial), transported by LemmasBridge.lean / LemmasIrr.lean.
`NatIrred f` (C05): degree ≥ 1 and every factorisation f = b·c has b = 1 or c = 1; it is
`Irreducible (decode f)` over `(ZMod 2)[X]` (C05 `natIrred_iff_irreducible`).
-/
import Bee2V.C13.LemmasIrr
import Bee2V.C13.Props
namespace Bee2V.C13
open Bee2V.C05 (NatIrred)
open Bee2V.C05.Spec (clmul pmod)

/-! ## belsValM -/

/-- belsValM returns ERR_OK exactly for a valid length and an irreducible x^l + m0 -/
theorem belsValM_iff_irreducible (len m0 : Nat) :
    belsValM len m0 = ERR_OK ↔ validLen len = true ∧ NatIrred (2 ^ (8 * len) + m0 % 2 ^ (8 * len)) :=
  Irr.belsValM_ok_iff len m0

/-- the same in Mathlib's terms -/
theorem belsValM_iff_mathlib_irreducible (len m0 : Nat) :
    belsValM len m0 = ERR_OK ↔
      validLen len = true ∧ Irreducible (Bee2V.C05.Fld.decode (2 ^ (8 * len) + m0 % 2 ^ (8 * len))) := by
  rw [belsValM_iff_irreducible, Bee2V.C05.natIrred_iff_irreducible]

example : belsValM 16 0x87 = ERR_OK := by decide +kernel
example : NatIrred (2 ^ 128 + 0x87) := ((belsValM_iff_irreducible 16 0x87).1 (by decide +kernel)).2

/-- otherwise the code is ERR_BAD_INPUT (length) or ERR_BAD_PUBKEY -/
theorem belsValM_codes (len m0 : Nat) :
    belsValM len m0 = ERR_OK ∨ belsValM len m0 = ERR_BAD_INPUT ∨ belsValM len m0 = ERR_BAD_PUBKEY := by
  unfold belsValM
  split
  · exact Or.inr (Or.inl rfl)
  · split
    · exact Or.inl rfl
    · exact Or.inr (Or.inr rfl)

/-! ## which candidates are accepted -/

/-- belsGenMi / belsGenMid accept a candidate u (reduced modulo the irreducible f0 of degree l)
    exactly when u ≠ 0, its minimal polynomial has degree l — u lies in no proper subfield of
    GF(2)[x]/(f0) — and the minimal polynomial is not f0 itself (u is no conjugate of x) -/
theorem candidate_accepted_iff {f0 l u : Nat} (hI : NatIrred f0) (hl : f0.log2 = l) (hu : u < 2 ^ l) :
    miAccept l (ppMinPolyMod u f0) f0 = true ↔
      u ≠ 0 ∧ (ppMinPolyMod u f0).log2 = l ∧ ppMinPolyMod u f0 ≠ f0 :=
  Irr.accept_iff hI hl hu

-- GF(16) = GF(2)[x]/(x^4 + x + 1): x is rejected (conjugate of x), x^2 + x lies in GF(4), x^3 is accepted
example : miAccept 4 (ppMinPolyMod 0b10 0b10011) 0b10011 = false ∧ miAccept 4 (ppMinPolyMod 0b110 0b10011) 0b10011 = false
    ∧ miAccept 4 (ppMinPolyMod 0b1000 0b10011) 0b10011 = true ∧ ppMinPolyMod 0b1000 0b10011 = 0b11111 := by decide +kernel

theorem key_valid_of_minpoly {len m0 m u : Nat} (hval : belsValM len m0 = ERR_OK)
    (hu : u < 2 ^ (8 * len)) (hm : m < 2 ^ (8 * len))
    (he : ppMinPolyMod u (keyPoly 8 len (m0 % 2 ^ (8 * len))) = keyPoly 8 len m) :
    belsValM len m = ERR_OK ∧ NatIrred (keyPoly 8 len m) := by
  obtain ⟨hv, hI⟩ := (belsValM_iff_irreducible len m0).1 hval
  have hI' : NatIrred (keyPoly 8 len (m0 % 2 ^ (8 * len))) := hI
  have : Fact (NatIrred (keyPoly 8 len (m0 % 2 ^ (8 * len)))) := ⟨hI'⟩
  have hlog : (keyPoly 8 len (m0 % 2 ^ (8 * len))).log2 = 8 * len :=
    Crt.keyPoly_log2 (Nat.mod_lt _ (Nat.two_pow_pos _))
  have hu0 : u ≠ 0 := by
    intro h0
    rw [h0, Bridge.ppMinPolyMod_eq, Irr.minPoly_zero] at he
    have := Nat.two_pow_pos (8 * len)
    have h2 : 2 ≤ keyPoly 8 len m := by
      have hl1 : 1 ≤ 8 * len := hlog ▸ hI'.1
      have := Nat.pow_le_pow_right (by omega : 1 ≤ 2) hl1
      unfold keyPoly; omega
    omega
  have hirr : NatIrred (keyPoly 8 len m) := by
    rw [← he, Bridge.ppMinPolyMod_eq]
    exact (Bee2V.C05.ppMinPolyModV_irred u hu0 (by rw [hlog]; exact hu)).1
  refine ⟨(belsValM_iff_irreducible len m).2 ⟨hv, ?_⟩, hirr⟩
  rw [Nat.mod_eq_of_lt hm]; exact hirr

/-! ## (iv) generated user keys are valid -/

/-- belsGenMid (after hashing, `h` = belt-hash of the identifier) with a VALID common key:
    ERR_OK ⇒ the key written passes belsValM (x^l + mid irreducible of degree l), differs from m0,
    and is the minimal polynomial of the FIRST of h, h+1, h+2 (mod 2^l) that is acceptable
    (`candidate_accepted_iff`).  Determinism in the identifier: `belsGenMid` is a function of
    (len, m0, id) only. -/
theorem genMid_valid (len m0 h m : Nat) (hval : belsValM len m0 = ERR_OK)
    (hr : belsGenMidH len m0 h = (ERR_OK, some m)) :
    belsValM len m = ERR_OK ∧ NatIrred (keyPoly 8 len m) ∧ m < 2 ^ (8 * len) ∧ m ≠ m0 % 2 ^ (8 * len) ∧
    ∃ j, j < 3 ∧ ppMinPolyMod (Gen.midCand len (h % 2 ^ (8 * len)) j) (keyPoly 8 len (m0 % 2 ^ (8 * len)))
        = keyPoly 8 len m := by
  obtain ⟨_, h2, h3, j, hj, he⟩ := genMid_ok_partial len m0 h m hr
  have hu := Irr.midCand_lt len (h % 2 ^ (8 * len)) (Nat.mod_lt _ (Nat.two_pow_pos _)) j
  obtain ⟨hv, hi⟩ := key_valid_of_minpoly hval hu h2 he
  exact ⟨hv, hi, h2, h3, j, hj, he⟩

/-- belsGenMi with a VALID common key: ERR_OK ⇒ the key written passes belsValM, differs from m0 and
    is the minimal polynomial of one of the first three `len`-octet elements of the generator tape -/
theorem genMi_valid (len m0 m : Nat) (tp : Tape) (hval : belsValM len m0 = ERR_OK)
    (hr : belsGenMi len m0 tp = (ERR_OK, some m)) :
    belsValM len m = ERR_OK ∧ NatIrred (keyPoly 8 len m) ∧ m < 2 ^ (8 * len) ∧ m ≠ m0 % 2 ^ (8 * len) ∧
    ∃ j, j < 3 ∧ ppMinPolyMod (Gen.tapeCand len tp j) (keyPoly 8 len (m0 % 2 ^ (8 * len))) = keyPoly 8 len m := by
  obtain ⟨_, h2, h3, j, hj, he⟩ := genMi_ok_partial len m0 m tp hr
  obtain ⟨hv, hi⟩ := key_valid_of_minpoly hval (Irr.tapeCand_lt len tp j) h2 he
  exact ⟨hv, hi, h2, h3, j, hj, he⟩

/-- belsGenM0: ERR_OK ⇒ the common key written passes belsValM -/
theorem genM0_valid (len m : Nat) (tp : Tape) (hr : belsGenM0 len tp = (ERR_OK, some m)) :
    belsValM len m = ERR_OK ∧ m < 2 ^ (8 * len) := by
  unfold belsGenM0 at hr
  by_cases hv : validLen len = true
  · simp only [hv, Bool.not_true, Bool.false_eq_true, if_false] at hr
    cases hg : genM0Loop len (len * 8 * 64 * 3 / 4) tp with
    | none => rw [hg] at hr; simp [ERR_OK, ERR_BAD_ANG] at hr
    | some m' =>
      rw [hg] at hr
      simp only [Prod.mk.injEq, Option.some.injEq, true_and] at hr
      subst hr
      obtain ⟨h1, h2⟩ := Irr.genM0Loop_some len _ tp m' hg
      refine ⟨?_, h2⟩
      unfold belsValM
      simp only [hv, Bool.not_true, Bool.false_eq_true, if_false, Nat.mod_eq_of_lt h2, h1, if_true]
  · have hv' : validLen len = false := by simpa using hv
    simp [hv', ERR_OK, ERR_BAD_INPUT] at hr

/-! ## (i) + (iv): recovery with valid keys needs no coprimality hypothesis -/

/-- Any list of at least t (key, share) pairs whose keys pass belsValM (in particular: keys produced
    by belsGenMi / belsGenMid from a valid common key, `genMi_valid` / `genMid_valid`) and are pairwise
    DISTINCT, in any order, with the standard's share values: belsRecover returns the secret. -/
theorem recover_valid_distinct_keys (W n len t s m0 k : Nat) (prs : List (Nat × Nat))
    (hWn : W * n = 8 * len) (hW : 0 < W) (hn : 0 < n) (ht : 0 < t)
    (hs : s < 2 ^ (W * n)) (hm0 : m0 < 2 ^ (W * n)) (hk : k < 2 ^ (W * (t * n - n)))
    (hm : ∀ p ∈ prs, p.1 < 2 ^ (W * n))
    (hval : ∀ p ∈ prs, belsValM len p.1 = ERR_OK)
    (hdist : prs.Pairwise (fun p q => p.1 ≠ q.1))
    (hsh : ∀ p ∈ prs, p.2 = shareSpec W n m0 k s p.1)
    (hlen : t ≤ prs.length) :
    recoverCore W n m0 prs = (ERR_OK, s) := by
  apply recover_any_subset_any_order W n t s m0 k prs hW hn ht hs hm0 hk hm hsh _ hlen
  refine List.Pairwise.imp_of_mem ?_ hdist
  intro p q hp hq hne
  have irr : ∀ r ∈ prs, PIrred (keyPoly W n r.1) := by
    intro r hr
    have h1 := ((belsValM_iff_irreducible len r.1).1 (hval r hr)).2
    have h2 := hm r hr
    rw [hWn] at h2
    rw [Nat.mod_eq_of_lt h2] at h1
    unfold keyPoly; rw [hWn]
    exact Irr.pirred_of_natIrred h1
  apply irreducible_distinct_coprime (irr p hp) (irr q hq)
  · rw [Crt.keyPoly_log2 (hm p hp), Crt.keyPoly_log2 (hm q hq)]
  · unfold keyPoly; omega

end Bee2V.C13

/-
C13 — property theorems, part 2: standard keys (belsStdM, belsShare2/3 + belsRecover2), state
layout of belsShare / belsRecover, key generation (belsGenMi, belsGenMid).
Part 1 (share = standard's value, recovery from any subset in any order, error code): PropsRec.lean.
-/
import Bee2V.C13.PropsRec
import Bee2V.C13.LemmasGen
import Bee2V.C13.Layout
import Bee2V.C13.ModelBelt
namespace Bee2V.C13
open Bee2V.C05.Spec (clmul pmod pgcd)

/-! ## standard keys -/

/-- belsStdM: only the first 4 octets of a standard key are non-zero -/
theorem stdM_small (len num : Nat) : stdM len num < 2 ^ 32 := by
  have h16 : ∀ k, k < 17 → m16.getD k 0 < 2 ^ 32 := by decide
  have h24 : ∀ k, k < 17 → m24.getD k 0 < 2 ^ 32 := by decide
  have h32 : ∀ k, k < 17 → m32.getD k 0 < 2 ^ 32 := by decide
  have big : ∀ (l : List Nat), l.length = 17 → ¬ num < 17 → l.getD num 0 = 0 := by
    intro l hl hn
    rw [List.getD_eq_getElem?_getD, List.getElem?_eq_none (by omega)]; rfl
  unfold stdM
  by_cases h : num < 17
  · split
    · exact h16 num h
    · split
      · exact h24 num h
      · exact h32 num h
  · split
    · rw [big m16 rfl h]; decide
    · split
      · rw [big m24 rfl h]; decide
      · rw [big m32 rfl h]; decide

example : belsStdM 24 16 = (ERR_OK, 0x810401) := by decide

/-- the 17 standard key polynomials of each length are pairwise coprime (so belsRecover2 cannot
    fail on distinct user numbers, and every threshold-sized subset determines the secret) -/
theorem std_keys_pairwise_coprime (len W n i j : Nat) (hlen : len = 16 ∨ len = 24 ∨ len = 32)
    (hWn : W * n = 8 * len) (hi : i ≤ 16) (hj : j ≤ 16) (hne : i ≠ j) :
    PCoprime (keyPoly W n (stdM len i)) (keyPoly W n (stdM len j)) :=
  Std.std_coprime hlen hWn hi hj hne

example : PCoprime (keyPoly 32 8 (stdM 32 0)) (keyPoly 32 8 (stdM 32 7)) :=
  std_keys_pairwise_coprime 32 32 8 0 7 (by decide) rfl (by decide) (by decide) (by decide)

/-- the user-number check of belsRecover2 accepts exactly lists of pairwise distinct numbers 1..16 -/
theorem numsOk_iff (nums : List Nat) :
    numsOk nums = true ↔ nums.Pairwise (· ≠ ·) ∧ ∀ x ∈ nums, 1 ≤ x ∧ x ≤ 16 := by
  induction nums with
  | nil => simp [numsOk]
  | cons x xs ih =>
    unfold numsOk
    split
    · rename_i hc
      have h1 : x = 0 ∨ x > 16 := by simpa using hc
      simp only [Bool.false_eq_true, false_iff]
      intro hcon
      have := hcon.2 x List.mem_cons_self
      omega
    · rename_i hc
      have h1 : ¬ (x = 0 ∨ x > 16) := by simpa using hc
      split
      · rename_i h2
        simp only [Bool.false_eq_true, false_iff]
        intro hcon
        have hx : x ∈ xs := by simpa using h2
        exact (List.pairwise_cons.1 hcon.1).1 x hx rfl
      · rename_i h2
        have hx : x ∉ xs := by simpa using h2
        rw [ih]
        constructor
        · intro ⟨hp, hr⟩
          refine ⟨List.pairwise_cons.2 ⟨fun y hy hxy => hx (hxy ▸ hy), hp⟩, ?_⟩
          intro y hy
          rcases List.mem_cons.1 hy with h | h
          · subst h; omega
          · exact hr y h
        · intro ⟨hp, hr⟩
          exact ⟨(List.pairwise_cons.1 hp).2, fun y hy => hr y (List.mem_cons_of_mem _ hy)⟩

example : numsOk [16, 3, 1] = true ∧ numsOk [3, 3] = false ∧ numsOk [0] = false ∧ numsOk [17] = false := by decide

/-- belsShare2 / belsShare3 + belsRecover2, no hypothesis on keys: the shares of ANY list of at
    least `t` pairwise distinct users 1..16 (what belsRecover2's number check accepts), in ANY
    order, give back the secret — for every length, secret, threshold and generator output `k`
    (for belsShare3: whatever bels-genk produces).  W n = 8 len covers both word sizes. -/
theorem recover2_standard (W n len t s k : Nat) (nums : List Nat)
    (hlen : len = 16 ∨ len = 24 ∨ len = 32) (hWn : W * n = 8 * len) (hW : 0 < W) (hn : 0 < n)
    (ht : 0 < t) (hs : s < 2 ^ (W * n)) (hk : k < 2 ^ (W * (t * n - n)))
    (hnums : numsOk nums = true) (hcnt : t ≤ nums.length) :
    recoverCore W n (stdM len 0)
      (nums.map fun i => (stdM len i, shareSpec W n (stdM len 0) k s (stdM len i))) = (ERR_OK, s) := by
  obtain ⟨hpw, hr⟩ := (numsOk_iff nums).1 hnums
  have hsm : ∀ i, stdM len i < 2 ^ (W * n) := by
    intro i
    have h1 := stdM_small len i
    have h2 : 32 ≤ W * n := by rw [hWn]; rcases hlen with h | h | h <;> omega
    exact Nat.lt_of_lt_of_le h1 (Nat.pow_le_pow_right (by omega) h2)
  apply recover_any_subset_any_order W n t s (stdM len 0) k _ hW hn ht hs (hsm 0) hk
  · intro p hp
    obtain ⟨i, _, rfl⟩ := List.mem_map.1 hp
    exact hsm i
  · intro p hp
    obtain ⟨i, _, rfl⟩ := List.mem_map.1 hp
    rfl
  · rw [List.pairwise_map]
    refine List.Pairwise.imp_of_mem ?_ hpw
    intro a b ha hb hab
    exact std_keys_pairwise_coprime len W n a b hlen hWn (hr a ha).2 (hr b hb).2 hab
  · simpa using hcnt

/-! ## (v) state layout -/

/-- belsRecover / belsRecover2, iteration `i` (1 ≤ i < count): every word interval written lies
    inside the region the layout reserves for that variable (`Within off len lo hi`), the regions
    are consecutive and end where the stack begins (`recWords` = the sum in `deep += O_OF_W(…)`).
    Exception, stated exactly: the 2n-word product `ppMul(d, v, n, t, n)` needs the region of `u`
    as well when count = 2 (u is dead at that point); for count ≥ 3 it fits `d` alone. -/
theorem layout_recover (count n i : Nat) (hn : 1 ≤ n) (hi : 1 ≤ i) (hic : i < count) :
    let L := recLayout count n
    L.stack = recWords count n ∧
    -- wwFrom(f, mi, len); f[n] = 1
    Within L.f (n + 1) L.f L.g ∧
    -- ppExGCD: d [n + 1], u [i n + 1], v [n + 1]
    Within L.d (n + 1) L.d L.u ∧ Within L.u (i * n + 1) L.u L.v ∧ Within L.v (n + 1) L.v L.c ∧
    -- ppMul(t, u, i n, c, i n): t [2 i n];  ppMul(c, t, 2 i n, f, n): c [(2 i + 1) n]; wwXor2(c + n, t, 2 i n)
    Within L.t (2 * i * n) L.t L.stack ∧ Within L.c ((2 * i + 1) * n) L.c L.t ∧ Within (L.c + n) (2 * i * n) L.c L.t ∧
    -- ppMul(d, v, n, t, n): d [2 n]
    Within L.d (2 * n) L.d L.v ∧ (3 ≤ count → Within L.d (2 * n) L.d L.u) ∧
    -- ppMul(t, d, 2 n, g, i n): t [(i + 2) n]; wwXor2(t + i n, d, 2 n); wwXor2(c, t, (i + 2) n)
    Within L.t ((i + 2) * n) L.t L.stack ∧ Within (L.t + i * n) (2 * n) L.t L.stack ∧ Within L.c ((i + 2) * n) L.c L.t ∧
    -- ppMul(t, f, n, g, i n): t [(i + 1) n]; wwXor2(t + n, g, i n); wwXor2(t + i n, f, n)
    Within L.t ((i + 1) * n) L.t L.stack ∧ Within (L.t + n) (i * n) L.t L.stack ∧ Within (L.t + i * n) n L.t L.stack ∧
    -- wwCopy(g, t, (i + 1) n); g[(i + 1) n] = 1
    Within L.g ((i + 1) * n + 1) L.g L.d ∧
    -- ppMod(c, c, (2 i + 1) n, g, (i + 1) n + 1): c [(i + 1) n + 1]
    Within L.c ((i + 1) * n + 1) L.c L.t ∧
    -- after the loop: ppMod(c, c, count n, f, n + 1) reads count n words of c, writes n + 1
    Within L.c (count * n) L.c L.t ∧ Within L.c (n + 1) L.c L.t := by
  have h1 : (i + 1) * n ≤ count * n := Nat.mul_le_mul_right n (by omega)
  have h2 : n ≤ i * n := Nat.le_mul_of_pos_left n (by omega)
  have h3 : 3 ≤ count → 3 * n ≤ count * n := fun h => Nat.mul_le_mul_right n h
  simp only [recLayout, recWords, Within, Nat.add_mul, Nat.sub_mul, Nat.mul_assoc, Nat.one_mul] at *
  refine ⟨?_, ?_, ?_, ?_, ?_, ?_, ?_, ?_, ?_, ?_, ?_, ?_, ?_, ?_, ?_, ?_, ?_, ?_, ?_, ?_⟩
  all_goals first | trivial | omega

example : (recLayout 16 4).stack = recWords 16 4 ∧ recWords 16 4 = 441 := by decide

/-- the single-share call (count = 1): only the final `ppMod(c, c, n, f, n + 1)` runs; it writes
    n + 1 words (the top one zero) although `c` has (2 count - 1) n = n words: the extra word is the
    first word of `t` (2n words, dead) — inside the blob -/
theorem layout_recover_one (n : Nat) (hn : 1 ≤ n) :
    let L := recLayout 1 n
    L.stack = recWords 1 n ∧ Within L.c n L.c L.t ∧ Within L.g (n + 1) L.g L.d ∧ Within L.c (n + 1) L.c L.stack := by
  simp only [recLayout, recWords, Within]
  refine ⟨?_, ?_, ?_, ?_⟩
  all_goals first | trivial | omega

/-- belsShare / belsShare2 (threshold t ≥ 1): k [(t-1) n] from the generator, the product and the
    shifted copy of k inside c [t n], the remainder [n + 1] inside f; 2 t n + 1 words allocated -/
theorem layout_share (t n : Nat) (ht : 1 ≤ t) (hn : 1 ≤ n) :
    let L := shareLayout t n
    L.stack = 2 * t * n + 1 ∧
    Within L.k (t * n - n) L.k L.c ∧ Within L.c (t * n) L.c L.stack ∧
    Within (L.c + n) (t * n - n) L.c L.stack ∧ Within L.f (n + 1) L.f L.k := by
  have h1 : n ≤ t * n := Nat.le_mul_of_pos_left n (by omega)
  simp only [shareLayout, Within, Nat.mul_assoc]
  refine ⟨?_, ?_, ?_, ?_, ?_⟩
  all_goals first | trivial | omega

/-- belsValM / belsGenM0 / belsGenMi / belsGenMid (n = W_OF_O(len) ≤ hw = W_OF_O(32)): `f0` [n + 1] incl.
    `f0[n] = 1`; `f` [n + 1] (ppMinPolyMod output, aliasing `u` in belsGenMi); in belsGenMid the hash
    [hw words], `u[n] = 0`, the (n + 1)-word operand of ppMinPolyMod and `zzAddW2(u, n, 1)` stay inside
    `u` [hw + 1]; the stack starts where the words reserved in `blobCreate` end -/
theorem layout_keys (n hw : Nat) (hn : n ≤ hw) :
    (valMLayout n).stack = n + 1 ∧
    (let L := genMiLayout n
     Within L.f0 (n + 1) L.f0 L.f ∧ Within L.f (n + 1) L.f L.stack ∧ L.stack = 2 * n + 2) ∧
    (let L := genMidLayout n hw
     Within L.f0 (n + 1) L.f0 L.f ∧ Within L.f (n + 1) L.f L.u ∧ Within L.u hw L.u L.stack ∧
     Within (L.u + n) 1 L.u L.stack ∧ Within L.u (n + 1) L.u L.stack ∧ Within L.u n L.u L.stack ∧
     L.stack = 2 * n + 2 + hw + 1) := by
  dsimp only [valMLayout, genMiLayout, genMidLayout, Within]
  refine ⟨rfl, ⟨?_, ?_, ?_⟩, ?_, ?_, ?_, ?_, ?_, ?_, ?_⟩
  all_goals omega

example : (genMidLayout 2 4).stack = 11 ∧ (genMidLayout 8 8).stack = 27 := by decide

/-! ## (iv) generated user keys -/

/- (PropsKeys.lean now proves the full statement — `genMid_valid`, `genMi_valid`, `genM0_valid`,
   `belsValM_iff_irreducible` — on top of C05's theorems; the text below describes what THIS file
   proves without them, i.e. without any hypothesis on m0.)
   FULL STATEMENT (proved in PropsKeys.lean):
     belsValM len m0 = ERR_OK → belsGenMid len m0 id = (ERR_OK, some m) → PIrred (keyPoly 8 len m)
   (and the same for belsGenMi).  Missing: (a) correctness of the Ben-Or test ppIsIrred
   (belsValM = OK ⇒ x^l + m0 irreducible), (b) correctness of the Berlekamp–Massey-via-Euclid
   routine ppMinPoly (the polynomial returned is the minimal polynomial of the power sequence, hence
   of the element, hence irreducible when the modulus is).  Proved below: an accepted key is the
   polynomial ppMinPolyMod computes for one of the (at most three) elements tried, it has degree
   exactly l and differs from the common key; the possible error codes; determinism is structural
   (the model is a function of (len, m0, id) resp. (len, m0, tape), the C has no other input).
   Tie for the missing part: every generated key in the correspondence run is tested by an
   independent Rabin irreducibility test and, for belsGenMi, by evaluating it at the tape element. -/

/-- belsGenMid (after hashing): ERR_OK ⇒ x^l + mid is what ppMinPolyMod returns for h, h+1 or h+2,
    the first of them that passes `f[n] == 1 && f != f0`; degree l; different from m0 -/
theorem genMid_ok_partial (len m0 h m : Nat) (hr : belsGenMidH len m0 h = (ERR_OK, some m)) :
    validLen len = true ∧ m < 2 ^ (8 * len) ∧ m ≠ m0 % 2 ^ (8 * len) ∧
    ∃ j, j < 3 ∧ ppMinPolyMod (Gen.midCand len (h % 2 ^ (8 * len)) j) (keyPoly 8 len (m0 % 2 ^ (8 * len)))
        = keyPoly 8 len m := by
  unfold belsGenMidH at hr
  by_cases hv : validLen len = true
  · simp only [hv, Bool.not_true, Bool.false_eq_true, if_false] at hr
    cases hg : genMidLoop len (2 ^ (8 * len) + m0 % 2 ^ (8 * len)) 3 (h % 2 ^ (8 * len)) with
    | none => rw [hg] at hr; simp [ERR_OK, ERR_BAD_PUBKEY] at hr
    | some m' =>
      rw [hg] at hr
      simp only [Prod.mk.injEq, Option.some.injEq, true_and] at hr
      subst hr
      obtain ⟨j, hj, h1, h2, h3, _⟩ := Gen.genMidLoop_some len _ 3 _ m' hg
      refine ⟨hv, h2, ?_, j, hj, ?_⟩
      · rw [Nat.add_mod_left, Nat.mod_mod] at h3; exact h3
      · unfold keyPoly; exact h1
  · simp only [hv, Bool.not_false, if_true, Prod.mk.injEq] at hr
    simp [ERR_OK, ERR_BAD_INPUT] at hr

/-- belsGenMid: the only codes are ERR_OK (with a key), ERR_BAD_INPUT (length) and ERR_BAD_PUBKEY -/
theorem genMid_codes (len m0 h : Nat) :
    (∃ m, belsGenMidH len m0 h = (ERR_OK, some m)) ∨ belsGenMidH len m0 h = (ERR_BAD_INPUT, none) ∨
    belsGenMidH len m0 h = (ERR_BAD_PUBKEY, none) := by
  unfold belsGenMidH
  by_cases hv : validLen len = true
  · simp only [hv, Bool.not_true, Bool.false_eq_true, if_false]
    cases genMidLoop len (2 ^ (8 * len) + m0 % 2 ^ (8 * len)) 3 (h % 2 ^ (8 * len)) with
    | none => exact Or.inr (Or.inr rfl)
    | some m => exact Or.inl ⟨m, rfl⟩
  · have hv' : validLen len = false := by simpa using hv
    simp only [hv', Bool.not_false, if_true]
    exact Or.inr (Or.inl trivial)

/-- belsGenMi: ERR_OK ⇒ x^l + mi is what ppMinPolyMod returns for one of the first three
    `len`-octet elements of the generator tape; degree l; different from m0 -/
theorem genMi_ok_partial (len m0 m : Nat) (tp : Tape) (hr : belsGenMi len m0 tp = (ERR_OK, some m)) :
    validLen len = true ∧ m < 2 ^ (8 * len) ∧ m ≠ m0 % 2 ^ (8 * len) ∧
    ∃ j, j < 3 ∧ ppMinPolyMod (Gen.tapeCand len tp j) (keyPoly 8 len (m0 % 2 ^ (8 * len))) = keyPoly 8 len m := by
  unfold belsGenMi at hr
  by_cases hv : validLen len = true
  · simp only [hv, Bool.not_true, Bool.false_eq_true, if_false] at hr
    cases hg : genMiLoop len (2 ^ (8 * len) + m0 % 2 ^ (8 * len)) 3 tp 0 with
    | mk r fl =>
      rw [hg] at hr
      cases r with
      | none =>
        simp only [Prod.mk.injEq] at hr
        exact absurd hr.2 (by simp)
      | some m' =>
        simp only [Prod.mk.injEq, Option.some.injEq, true_and] at hr
        subst hr
        obtain ⟨j, hj, h1, h2, h3⟩ := Gen.genMiLoop_some len _ 3 tp 0 m' fl hg
        refine ⟨hv, h2, ?_, j, hj, ?_⟩
        · rw [Nat.add_mod_left, Nat.mod_mod] at h3; exact h3
        · unfold keyPoly; exact h1
  · simp only [hv, Bool.not_false, if_true, Prod.mk.injEq] at hr
    simp [ERR_OK, ERR_BAD_INPUT] at hr

end Bee2V.C13

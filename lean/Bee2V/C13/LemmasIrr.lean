/-
C13 — irreducibility: what C05 proves about its models (Ben-Or test decides irreducibility;
ppMinPolyMod returns the minimal polynomial: irreducible, degree ≤ l) transported to the bels
model through LemmasBridge.lean.  (Imports Mathlib through C05's field construction.)
-/
import Bee2V.C13.LemmasBridge
import Bee2V.C13.LemmasGen
import Bee2V.C13.LemmasCrt
import Bee2V.C05.PropsMinPoly
import Bee2V.C05.PropsFld
namespace Bee2V.C13.Irr
open Bee2V.C13 Bee2V.C05 Bee2V.C05.Spec Bee2V.C05.Pp

/-- C05's `NatIrred` (every factorisation trivial) gives the divisor form used here -/
theorem pirred_of_natIrred {f : Nat} (h : NatIrred f) : PIrred f := by
  refine ⟨?_, fun d hd => ?_⟩
  · have : f ≠ 0 := by
      intro h0
      have h1 := h.1
      rw [h0, Nat.log2_zero] at h1
      omega
    have := (Nat.le_log2 this).1 h.1
    omega
  · obtain ⟨q, hq⟩ := hd
    rcases h.2 q d hq with h1 | h1
    · right; rw [hq, h1, one_clmul]
    · left; exact h1

/-- belsValM accepts exactly the valid lengths with x^l + m0 irreducible -/
theorem belsValM_ok_iff (len m0 : Nat) :
    belsValM len m0 = ERR_OK ↔ validLen len = true ∧ NatIrred (2 ^ (8 * len) + m0 % 2 ^ (8 * len)) := by
  unfold belsValM
  by_cases hv : validLen len = true
  · simp only [hv, Bool.not_true, Bool.false_eq_true, if_false, true_and]
    rw [Bridge.ppIsIrred_eq, ← ppIsIrredV_iff]
    by_cases hi : ppIsIrredV (2 ^ (8 * len) + m0 % 2 ^ (8 * len)) = true
    · simp [hi]
    · simp [hi, ERR_OK, ERR_BAD_PUBKEY]
  · have hv' : validLen len = false := by simpa using hv
    simp [hv', ERR_OK, ERR_BAD_INPUT]

theorem seq_zero (md : Nat) : ∀ i, ppMinPolySeq 0 md i 0 0 = 0 := by
  intro i
  induction i with
  | zero => rfl
  | succ i ih =>
    unfold ppMinPolySeq
    have : pmod (clmul 0 0) md = 0 := by
      rw [clmul_zero]; unfold pmod pdivmod; split <;> simp
    simp only [this, Nat.zero_mod, Nat.zero_shiftLeft, Nat.or_zero]
    exact ih

/-- the element 0 gives the polynomial 1 (never accepted) -/
theorem minPoly_zero (md : Nat) : ppMinPolyModV 0 md = 1 := by
  unfold ppMinPolyModV
  simp only [Nat.zero_mod, Nat.zero_shiftLeft, seq_zero]
  unfold ppMinPolyV
  rw [Nat.zero_mod]
  unfold ppMinPolyLoop
  simp

variable {f0 : Nat}

/-- which candidates belsGenMi / belsGenMid accept (f0 irreducible of degree l ≥ 1, u reduced):
    exactly the non-zero u whose minimal polynomial g has degree l and is not f0 itself
    (i.e. u lies in no proper subfield of GF(2)[x]/(f0) and is no root of f0); and then g is
    irreducible -/
theorem accept_iff (hI : NatIrred f0) {l u : Nat} (hl : f0.log2 = l) (hu : u < 2 ^ l) :
    miAccept l (ppMinPolyMod u f0) f0 = true ↔
      u ≠ 0 ∧ (ppMinPolyMod u f0).log2 = l ∧ ppMinPolyMod u f0 ≠ f0 := by
  have : Fact (NatIrred f0) := ⟨hI⟩
  have hl1 : 1 ≤ l := hl ▸ hI.1
  have hpow : 2 ≤ 2 ^ l := by
    have := Nat.pow_le_pow_right (by omega : 1 ≤ 2) hl1; simpa using this
  rw [Bridge.ppMinPolyMod_eq]
  by_cases hu0 : u = 0
  · subst hu0
    rw [minPoly_zero]
    unfold miAccept
    have : 1 / 2 ^ l = 0 := Nat.div_eq_of_lt (by omega)
    simp [this]
  · have hg := (ppMinPolyModV_spec u f0 (hl ▸ hl1)).2.2.2
    obtain ⟨hg0, hgl, _⟩ := hg
    rw [hl] at hgl
    have hf0 : f0 ≠ 0 := by intro h0; rw [h0, Nat.log2_zero] at hl; omega
    have hf0b := (Nat.log2_eq_iff hf0).1 hl
    have hgub : ppMinPolyModV u f0 < 2 ^ (l + 1) := by
      have := (Nat.log2_lt hg0).1 (Nat.lt_succ_of_le hgl); simpa using this
    unfold miAccept
    simp only [Bool.and_eq_true, decide_eq_true_eq]
    rw [Nat.pow_succ] at hgub hf0b
    constructor
    · rintro ⟨h1, h2⟩
      refine ⟨hu0, ?_, fun he => h2 (by rw [he])⟩
      have hge : 2 ^ l ≤ ppMinPolyModV u f0 := by
        rcases Nat.lt_or_ge (ppMinPolyModV u f0) (2 ^ l) with h | h
        · rw [Nat.div_eq_of_lt h] at h1; omega
        · exact h
      exact (Nat.log2_eq_iff hg0).2 ⟨hge, by rw [Nat.pow_succ]; exact hgub⟩
    · rintro ⟨_, h2, h3⟩
      have hgb := (Nat.log2_eq_iff hg0).1 h2
      have e1 : ppMinPolyModV u f0 / 2 ^ l = 1 := by
        apply Nat.div_eq_of_lt_le <;> omega
      have e2 : f0 / 2 ^ l = 1 := by
        apply Nat.div_eq_of_lt_le <;> omega
      refine ⟨e1, fun he => h3 ?_⟩
      have d1 := Nat.div_add_mod (ppMinPolyModV u f0) (2 ^ l)
      have d2 := Nat.div_add_mod f0 (2 ^ l)
      rw [e1] at d1; rw [e2] at d2
      omega

/-- an accepted candidate's polynomial is irreducible of degree exactly l -/
theorem accept_irred (hI : NatIrred f0) {l u : Nat} (hl : f0.log2 = l) (hu : u < 2 ^ l)
    (hacc : miAccept l (ppMinPolyMod u f0) f0 = true) :
    NatIrred (ppMinPolyMod u f0) ∧ (ppMinPolyMod u f0).log2 = l := by
  have : Fact (NatIrred f0) := ⟨hI⟩
  obtain ⟨hu0, h2, _⟩ := (accept_iff hI hl hu).1 hacc
  refine ⟨?_, h2⟩
  rw [Bridge.ppMinPolyMod_eq]
  exact (ppMinPolyModV_irred u hu0 (hl ▸ hu)).1

theorem leNat_lt (bs : List UInt8) : leNat bs < 2 ^ (8 * bs.length) := by
  induction bs with
  | nil => simp [leNat]
  | cons b bs ih =>
    simp only [leNat, List.length_cons]
    have hb : b.toNat < 256 := b.toNat_lt
    have : 2 ^ (8 * (bs.length + 1)) = 256 * 2 ^ (8 * bs.length) := by
      rw [Nat.mul_add, Nat.pow_add]; simp [Nat.mul_comm]
    rw [this]
    omega

theorem tapeCand_lt (len : Nat) (tp : Tape) (j : Nat) : Gen.tapeCand len tp j < 2 ^ (8 * len) := by
  unfold Gen.tapeCand tapeRead
  have h := leNat_lt (List.take len (List.drop (len * j) tp))
  have hle : (List.take len (List.drop (len * j) tp)).length ≤ len := by
    rw [List.length_take]; exact Nat.min_le_left _ _
  exact Nat.lt_of_lt_of_le h (Nat.pow_le_pow_right (by omega) (Nat.mul_le_mul_left 8 hle))

theorem midCand_lt (len u : Nat) (hu : u < 2 ^ (8 * len)) : ∀ j, Gen.midCand len u j < 2 ^ (8 * len) := by
  intro j
  cases j with
  | zero => exact hu
  | succ j => exact Nat.mod_lt _ (Nat.two_pow_pos _)

theorem tapeRead_lt (len : Nat) (tp : Tape) : (tapeRead len tp).1 < 2 ^ (8 * len) := by
  unfold tapeRead
  have h := leNat_lt (List.take len tp)
  have hle : (List.take len tp).length ≤ len := by rw [List.length_take]; exact Nat.min_le_left _ _
  exact Nat.lt_of_lt_of_le h (Nat.pow_le_pow_right (by omega) (Nat.mul_le_mul_left 8 hle))

theorem genM0Loop_some (len : Nat) : ∀ (reps : Nat) (tp : Tape) (m : Nat), genM0Loop len reps tp = some m →
    ppIsIrred (2 ^ (8 * len) + m) = true ∧ m < 2 ^ (8 * len) := by
  intro reps
  induction reps with
  | zero => intro tp m h; simp [genM0Loop] at h
  | succ r ih =>
    intro tp m h
    unfold genM0Loop at h
    by_cases hi : ppIsIrred (2 ^ (8 * len) + (tapeRead len tp).1) = true
    · simp only [hi, if_true, Option.some.injEq] at h
      subst h
      exact ⟨hi, tapeRead_lt len tp⟩
    · simp only [hi, Bool.false_eq_true, if_false] at h
      exact ih _ m h

end Bee2V.C13.Irr

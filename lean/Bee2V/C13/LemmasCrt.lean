/-
C13 — the pure CRT algebra behind belsRecover (`crtStep`, `crtLoop` of Defs.lean) over Nat-coded
GF(2)[x]:  · = `clmul`, + = `^^^`, `Cong md x y` = "x ≡ y (mod md)", `PDvd`, `PCoprime`.

§0 tools: `pring` (AC-normalisation + x + x = 0), congruence calculus
§1 (1) `crtStep_shape`, (2) `crtStep_cong`, `crtStep_none_iff`
§2 (3) Bezout characterisation of `PCoprime`, coprimality with a product, `pdvd_mul_of_coprime`
§3 (4) `crtLoop_correct`, `crtLoop_none_iff`, `crtLoop_shape`
§4 (5) `secretPoly_mod`, `secretPoly_lt`
§5 (6) `pirred_coprime`
No Mathlib.
-/
import Bee2V.C13.Defs
namespace Bee2V.C13.Crt
open Bee2V.C05 Bee2V.C05.Spec Bee2V.C05.Pp

/-! ## §0 tools -/

theorem clmul_left_comm (a b c : Nat) : clmul a (clmul b c) = clmul b (clmul a c) := by
  rw [← clmul_assoc, clmul_comm a b, clmul_assoc]

theorem xor_self_left (a b : Nat) : a ^^^ (a ^^^ b) = b := by
  rw [← Nat.xor_assoc, Nat.xor_self, Nat.zero_xor]

/-- identities of the commutative ring (GF(2)[x], ^^^, clmul): expand, sort, cancel x + x -/
syntax "pring" : tactic
macro_rules
  | `(tactic| pring) => `(tactic| simp only [clmul_xor, xor_clmul, clmul_assoc, clmul_comm,
      clmul_left_comm, Nat.xor_assoc, Nat.xor_comm, xor_left_comm, Nat.xor_self, xor_self_left,
      clmul_one, one_clmul, clmul_zero, zero_clmul, Nat.xor_zero, Nat.zero_xor])

theorem pdvd_mul_right {d a : Nat} (k : Nat) (h : PDvd d a) : PDvd d (clmul a k) := by
  rw [clmul_comm]; exact pdvd_mul k h

theorem pdvd_trans {a b c : Nat} (h1 : PDvd a b) (h2 : PDvd b c) : PDvd a c := by
  obtain ⟨q, hq⟩ := h1
  obtain ⟨q', hq'⟩ := h2
  exact ⟨clmul q' q, by rw [hq', hq, clmul_assoc]⟩

theorem cong_iff_pdvd {md x y : Nat} : Cong md x y ↔ PDvd md (x ^^^ y) := Iff.rfl

theorem cong_symm {md x y : Nat} (h : Cong md x y) : Cong md y x := by
  obtain ⟨k, hk⟩ := h
  exact ⟨k, by rw [Nat.xor_comm]; exact hk⟩

theorem cong_trans {md x y z : Nat} (h : Cong md x y) (h' : Cong md y z) : Cong md x z := by
  obtain ⟨k, hk⟩ := h
  obtain ⟨k', hk'⟩ := h'
  refine ⟨k ^^^ k', ?_⟩
  rw [xor_clmul, ← hk, ← hk']
  pring

theorem cong_pmod (a : Nat) {b : Nat} (hb : b ≠ 0) : Cong b (pmod a b) a := by
  refine ⟨(pdivmod a b).1, ?_⟩
  rw [pmod_eq a b hb]
  pring

theorem pmod_lt (a : Nat) {b : Nat} (hb : b ≠ 0) : pmod a b < 2 ^ b.log2 := (pdivmod_spec a b hb).2

/-- two reduced representatives of the same class are equal -/
theorem cong_eq_of_lt {md x y : Nat} (hmd : md ≠ 0) (hx : x < 2 ^ md.log2) (hy : y < 2 ^ md.log2)
    (h : Cong md x y) : x = y := by
  have := pmod_cong hmd h
  rwa [pmod_of_lt hmd hx, pmod_of_lt hmd hy] at this

theorem two_le_of_log2_pos {G : Nat} (h : 1 ≤ G.log2) : 2 ≤ G := by
  by_cases h0 : G = 0
  · subst h0; simp at h
  · have := (Nat.le_log2 h0).1 h
    simpa using this

/-! ## §1 one step of the loop -/

/-- what `crtStep … = some …` means: Bezout coefficients u, v of (F, G) with F u + G v = 1 and
    C' = (u C F + v s G) mod (F G) -/
theorem crtStep_some {F s G C G' C' : Nat} (hF : F ≠ 0) (hG : G ≠ 0)
    (h : crtStep F s (G, C) = some (G', C')) :
    ∃ u v, clmul F u ^^^ clmul G v = 1 ∧ G' = clmul F G
      ∧ C' = pmod (clmul (clmul u C) F ^^^ clmul (clmul v s) G) (clmul F G) := by
  unfold crtStep at h
  dsimp only at h
  split at h
  · cases h
  · rename_i h1
    have h1' : (ppExGCDV F G).1 = 1 := Decidable.not_not.1 h1
    simp only [Option.some.injEq, Prod.mk.injEq] at h
    exact ⟨_, _, (exGCDV_bezout hF hG).trans h1', h.1.symm, h.2.symm⟩

/-- (1) shape of one step -/
theorem crtStep_shape {F s G C G' C' : Nat} (hF : 2 ≤ F) (hG : 2 ≤ G)
    (h : crtStep F s (G, C) = some (G', C')) :
    G' = clmul F G ∧ G'.log2 = F.log2 + G.log2 ∧ C' < 2 ^ G'.log2 := by
  have hF0 : F ≠ 0 := by omega
  have hG0 : G ≠ 0 := by omega
  obtain ⟨u, v, _, hG', hC'⟩ := crtStep_some hF0 hG0 h
  subst hG'
  refine ⟨rfl, log2_clmul hF0 hG0, ?_⟩
  rw [hC']
  exact pmod_lt _ (clmul_ne_zero hF0 hG0)

/-- (2) one step is a CRT step: C' ≡ C (mod G), C' ≡ s (mod F) -/
theorem crtStep_cong {F s G C G' C' : Nat} (hF : 2 ≤ F) (hG : 2 ≤ G)
    (h : crtStep F s (G, C) = some (G', C')) : Cong G C' C ∧ Cong F C' s := by
  have hF0 : F ≠ 0 := by omega
  have hG0 : G ≠ 0 := by omega
  obtain ⟨u, v, hb, _, hC'⟩ := crtStep_some hF0 hG0 h
  have hFG := clmul_ne_zero hF0 hG0
  rw [hC', pmod_eq _ _ hFG]
  constructor
  · have key : ∀ q, (clmul (clmul u C) F ^^^ clmul (clmul v s) G ^^^ clmul q (clmul F G))
        ^^^ clmul C (clmul F u ^^^ clmul G v)
        = clmul (clmul q F ^^^ clmul C v ^^^ clmul v s) G := by
      intro q; pring
    have := key (pdivmod (clmul (clmul u C) F ^^^ clmul (clmul v s) G) (clmul F G)).1
    rw [hb, clmul_one] at this
    exact ⟨_, this⟩
  · have key : ∀ q, (clmul (clmul u C) F ^^^ clmul (clmul v s) G ^^^ clmul q (clmul F G))
        ^^^ clmul s (clmul F u ^^^ clmul G v)
        = clmul (clmul q G ^^^ clmul u C ^^^ clmul s u) F := by
      intro q; pring
    have := key (pdivmod (clmul (clmul u C) F ^^^ clmul (clmul v s) G) (clmul F G)).1
    rw [hb, clmul_one] at this
    exact ⟨_, this⟩

/-- the step fails exactly when the new modulus is not coprime to the product so far -/
theorem crtStep_none_iff {F s G C : Nat} (hF : F ≠ 0) (hG : G ≠ 0) :
    crtStep F s (G, C) = none ↔ ¬ PCoprime F G := by
  have hi : (ppExGCDV F G).1 = 1 ↔ PCoprime F G := Gcd.exGCDV_one_iff hF hG
  unfold crtStep
  dsimp only
  split
  · rename_i h1
    exact ⟨fun _ hc => h1 (hi.2 hc), fun _ => rfl⟩
  · rename_i h1
    have h1' : (ppExGCDV F G).1 = 1 := Decidable.not_not.1 h1
    exact ⟨fun h => (by cases h), fun hc => absurd (hi.1 h1') hc⟩

/-! ## §2 coprimality -/

theorem pcoprime_comm {F G : Nat} : PCoprime F G ↔ PCoprime G F :=
  ⟨fun h d a b => h d b a, fun h d a b => h d b a⟩

theorem bezout_of_pcoprime {F G : Nat} (hF : F ≠ 0) (hG : G ≠ 0) (h : PCoprime F G) :
    ∃ u v, clmul F u ^^^ clmul G v = 1 :=
  ⟨_, _, (exGCDV_bezout hF hG).trans ((Gcd.exGCDV_one_iff hF hG).2 h)⟩

theorem pcoprime_of_bezout {F G u v : Nat} (h : clmul F u ^^^ clmul G v = 1) : PCoprime F G := by
  intro d hdF hdG
  apply Gcd.pdvd_one
  rw [← h]
  exact pdvd_xor (pdvd_mul_right _ hdF) (pdvd_mul_right _ hdG)

theorem pcoprime_iff_bezout {F G : Nat} (hF : F ≠ 0) (hG : G ≠ 0) :
    PCoprime F G ↔ ∃ u v, clmul F u ^^^ clmul G v = 1 :=
  ⟨bezout_of_pcoprime hF hG, fun ⟨_, _, h⟩ => pcoprime_of_bezout h⟩

/-- Euclid's lemma: F coprime to G, d ∣ F, d ∣ G·H ⇒ d ∣ H -/
theorem pdvd_of_pcoprime_mul {F G H d : Nat} (hF : F ≠ 0) (hG : G ≠ 0) (hc : PCoprime F G)
    (hdF : PDvd d F) (hdGH : PDvd d (clmul G H)) : PDvd d H := by
  obtain ⟨u, v, hb⟩ := bezout_of_pcoprime hF hG hc
  have e : H = clmul (clmul H u) F ^^^ clmul v (clmul G H) := by
    have : clmul H (clmul F u ^^^ clmul G v) = clmul (clmul H u) F ^^^ clmul v (clmul G H) := by
      pring
    rwa [hb, clmul_one] at this
  rw [e]
  exact pdvd_xor (pdvd_mul _ hdF) (pdvd_mul _ hdGH)

/-- (3) coprimality with a product -/
theorem pcoprime_mul_iff {F G H : Nat} (hF : F ≠ 0) (hG : G ≠ 0) :
    PCoprime F (clmul G H) ↔ PCoprime F G ∧ PCoprime F H := by
  constructor
  · intro h
    exact ⟨fun d hdF hdG => h d hdF (pdvd_mul_right H hdG), fun d hdF hdH => h d hdF (pdvd_mul G hdH)⟩
  · intro ⟨hG', hH'⟩ d hdF hdGH
    exact hH' d hdF (pdvd_of_pcoprime_mul hF hG hG' hdF hdGH)

/-- (3) F, G coprime, F ∣ X, G ∣ X ⇒ F·G ∣ X -/
theorem pdvd_mul_of_coprime {F G X : Nat} (hF : F ≠ 0) (hG : G ≠ 0) (hc : PCoprime F G)
    (h1 : PDvd F X) (h2 : PDvd G X) : PDvd (clmul F G) X := by
  obtain ⟨u, v, hb⟩ := bezout_of_pcoprime hF hG hc
  obtain ⟨a, rfl⟩ := h1
  obtain ⟨b, h2⟩ := h2
  have e1 : clmul a F = clmul (clmul b G) (clmul F u) ^^^ clmul (clmul a F) (clmul G v) := by
    rw [← h2, ← clmul_xor, hb, clmul_one]
  have e2 : clmul (clmul b G) (clmul F u) ^^^ clmul (clmul a F) (clmul G v)
      = clmul (clmul b u ^^^ clmul a v) (clmul F G) := by pring
  exact ⟨_, e1.trans e2⟩

/-- CRT uniqueness: congruent mod F and mod G (coprime) ⇒ congruent mod F·G -/
theorem cong_mul_of_coprime {F G x y : Nat} (hF : F ≠ 0) (hG : G ≠ 0) (hc : PCoprime F G)
    (h1 : Cong F x y) (h2 : Cong G x y) : Cong (clmul F G) x y :=
  pdvd_mul_of_coprime hF hG hc h1 h2

/-! ## §3 the loop -/

theorem keyPoly_log2 {W n m : Nat} (hm : m < 2 ^ (W * n)) : (keyPoly W n m).log2 = W * n := by
  unfold keyPoly
  have hp := Nat.two_pow_pos (W * n)
  exact (Nat.log2_eq_iff (by omega)).2 ⟨by omega, by rw [Nat.pow_succ]; omega⟩

theorem keyPoly_ge (W n m : Nat) (hW : 0 < W) (hn : 0 < n) : 2 ≤ keyPoly W n m := by
  unfold keyPoly
  have h1 : 1 ≤ W * n := Nat.mul_pos hW hn
  have : 2 ^ 1 ≤ 2 ^ (W * n) := Nat.pow_le_pow_right (by omega) h1
  omega

/-- the invariant of the belsRecover loop, for an arbitrary start -/
theorem crtLoop_inv (W n X : Nat) (hW : 0 < W) (hn : 0 < n) :
    ∀ (prs : List (Nat × Nat)) (i G C : Nat),
      (∀ p ∈ prs, p.1 < 2 ^ (W * n)) →
      (∀ p ∈ prs, p.2 = pmod X (keyPoly W n p.1)) →
      prs.Pairwise (fun p q => PCoprime (keyPoly W n p.1) (keyPoly W n q.1)) →
      (∀ p ∈ prs, PCoprime (keyPoly W n p.1) G) →
      1 ≤ i → G.log2 = W * n * i → C < 2 ^ G.log2 → Cong G C X →
      X < 2 ^ (W * n * (i + prs.length)) →
      ∃ G', crtLoop W n prs (G, C) = some (G', X) := by
  intro prs
  induction prs with
  | nil =>
    intro i G C _ _ _ _ hi hlog hC hCX hX
    have hWn : 1 ≤ W * n * i := Nat.mul_pos (Nat.mul_pos hW hn) hi
    have hG0 : G ≠ 0 := by have := two_le_of_log2_pos (by omega : 1 ≤ G.log2); omega
    have hX' : X < 2 ^ G.log2 := by rw [hlog]; simpa using hX
    exact ⟨G, by rw [crtLoop, cong_eq_of_lt hG0 hC hX' hCX]⟩
  | cons p rest ih =>
    obtain ⟨m, s⟩ := p
    intro i G C hm hsh hpw hcG hi hlog hC hCX hX
    have hWn : 1 ≤ W * n * i := Nat.mul_pos (Nat.mul_pos hW hn) hi
    have hG2 : 2 ≤ G := two_le_of_log2_pos (by omega)
    have hG0 : G ≠ 0 := by omega
    have hF2 := keyPoly_ge W n m hW hn
    have hF0 : keyPoly W n m ≠ 0 := by omega
    have hmm : m < 2 ^ (W * n) := hm (m, s) List.mem_cons_self
    have hs : s = pmod X (keyPoly W n m) := hsh (m, s) List.mem_cons_self
    have hFG : PCoprime (keyPoly W n m) G := hcG (m, s) List.mem_cons_self
    obtain ⟨hpw1, hpw2⟩ := List.pairwise_cons.1 hpw
    cases hst : crtStep (keyPoly W n m) s (G, C) with
    | none => exact absurd hFG ((crtStep_none_iff hF0 hG0).1 hst)
    | some gc =>
      obtain ⟨G1, C1⟩ := gc
      obtain ⟨hG1, hlog1, hC1⟩ := crtStep_shape hF2 hG2 hst
      obtain ⟨c1, c2⟩ := crtStep_cong hF2 hG2 hst
      have cF : Cong (keyPoly W n m) C1 X := by
        apply cong_trans c2
        rw [hs]
        exact cong_pmod X hF0
      have cG : Cong G C1 X := cong_trans c1 hCX
      have cFG : Cong G1 C1 X := by rw [hG1]; exact cong_mul_of_coprime hF0 hG0 hFG cF cG
      have hlog1' : G1.log2 = W * n * (i + 1) := by
        rw [hlog1, keyPoly_log2 hmm, hlog, Nat.mul_succ]; omega
      have hX1 : X < 2 ^ (W * n * (i + 1 + rest.length)) := by
        have : i + ((m, s) :: rest).length = i + 1 + rest.length := by
          rw [List.length_cons]; omega
        rwa [this] at hX
      have hc1 : ∀ p ∈ rest, PCoprime (keyPoly W n p.1) G1 := by
        intro p hp
        have hp0 : keyPoly W n p.1 ≠ 0 := by have := keyPoly_ge W n p.1 hW hn; omega
        rw [hG1]
        exact (pcoprime_mul_iff hp0 hF0).2
          ⟨pcoprime_comm.1 (hpw1 p hp), hcG p (List.mem_cons_of_mem _ hp)⟩
      obtain ⟨G', hG'⟩ := ih (i + 1) G1 C1 (fun p hp => hm p (List.mem_cons_of_mem _ hp))
        (fun p hp => hsh p (List.mem_cons_of_mem _ hp)) hpw2 hc1 (by omega) hlog1' hC1 cFG hX1
      exact ⟨G', by rw [crtLoop, hst]; exact hG'⟩

/-- (4) MAIN: from shares `pmod X (keyPoly mᵢ)` for pairwise coprime moduli whose degrees add up
    to more than deg X, the loop reconstructs X -/
theorem crtLoop_correct (W n X m1 s1 : Nat) (prs : List (Nat × Nat)) (hW : 0 < W) (hn : 0 < n)
    (hm : ∀ p ∈ (m1, s1) :: prs, p.1 < 2 ^ (W * n))
    (hsh : ∀ p ∈ (m1, s1) :: prs, p.2 = pmod X (keyPoly W n p.1))
    (hcop : ((m1, s1) :: prs).Pairwise (fun p q => PCoprime (keyPoly W n p.1) (keyPoly W n q.1)))
    (hX : X < 2 ^ (W * n * (prs.length + 1))) :
    ∃ G, crtLoop W n prs (keyPoly W n m1, s1) = some (G, X) := by
  have hG2 := keyPoly_ge W n m1 hW hn
  have hG0 : keyPoly W n m1 ≠ 0 := by omega
  have hs : s1 = pmod X (keyPoly W n m1) := hsh (m1, s1) List.mem_cons_self
  obtain ⟨hpw1, hpw2⟩ := List.pairwise_cons.1 hcop
  apply crtLoop_inv W n X hW hn prs 1 (keyPoly W n m1) s1
    (fun p hp => hm p (List.mem_cons_of_mem _ hp))
    (fun p hp => hsh p (List.mem_cons_of_mem _ hp)) hpw2
    (fun p hp => pcoprime_comm.1 (hpw1 p hp)) (Nat.le_refl 1)
  · rw [keyPoly_log2 (hm (m1, s1) List.mem_cons_self), Nat.mul_one]
  · rw [hs]; exact pmod_lt X hG0
  · rw [hs]; exact cong_pmod X hG0
  · rwa [Nat.add_comm] at hX

/-- the loop fails exactly when some new modulus shares a factor with the product so far -/
theorem crtLoop_none_gen (W n : Nat) (hW : 0 < W) (hn : 0 < n) :
    ∀ (prs : List (Nat × Nat)) (G C : Nat), G ≠ 0 →
      (crtLoop W n prs (G, C) = none ↔
        ¬ ((∀ p ∈ prs, PCoprime (keyPoly W n p.1) G)
          ∧ prs.Pairwise (fun p q => PCoprime (keyPoly W n p.1) (keyPoly W n q.1)))) := by
  intro prs
  induction prs with
  | nil => intro G C _; simp [crtLoop]
  | cons p rest ih =>
    obtain ⟨m, s⟩ := p
    intro G C hG0
    have hF2 := keyPoly_ge W n m hW hn
    have hF0 : keyPoly W n m ≠ 0 := by omega
    cases hst : crtStep (keyPoly W n m) s (G, C) with
    | none =>
      have hnc := (crtStep_none_iff hF0 hG0).1 hst
      rw [crtLoop, hst]
      exact ⟨fun _ h => hnc (h.1 (m, s) List.mem_cons_self), fun _ => rfl⟩
    | some gc =>
      obtain ⟨G1, C1⟩ := gc
      have hFG : PCoprime (keyPoly W n m) G := by
        apply Classical.byContradiction
        intro hc
        have := (crtStep_none_iff (s := s) (C := C) hF0 hG0).2 hc
        rw [hst] at this
        cases this
      obtain ⟨_, _, _, hG1, _⟩ := crtStep_some hF0 hG0 hst
      have hG10 : G1 ≠ 0 := by rw [hG1]; exact clmul_ne_zero hF0 hG0
      rw [crtLoop, hst]
      show crtLoop W n rest (G1, C1) = none ↔ _
      rw [ih G1 C1 hG10, hG1]
      apply not_congr
      have hmul : ∀ p : Nat × Nat, PCoprime (keyPoly W n p.1) (clmul (keyPoly W n m) G)
          ↔ PCoprime (keyPoly W n p.1) (keyPoly W n m) ∧ PCoprime (keyPoly W n p.1) G := by
        intro p
        have hp0 : keyPoly W n p.1 ≠ 0 := by have := keyPoly_ge W n p.1 hW hn; omega
        exact pcoprime_mul_iff hp0 hF0
      constructor
      · intro ⟨h1, h2⟩
        refine ⟨?_, List.pairwise_cons.2 ⟨fun p hp => pcoprime_comm.1 ((hmul p).1 (h1 p hp)).1, h2⟩⟩
        intro p hp
        rcases List.mem_cons.1 hp with rfl | hp
        · exact hFG
        · exact ((hmul p).1 (h1 p hp)).2
      · intro ⟨h1, h2⟩
        obtain ⟨h21, h22⟩ := List.pairwise_cons.1 h2
        exact ⟨fun p hp => (hmul p).2 ⟨pcoprime_comm.1 (h21 p hp), h1 p (List.mem_cons_of_mem _ hp)⟩,
          h22⟩

/-- (4) belsRecover fails (for arbitrary share values) iff the key polynomials are not pairwise
    coprime -/
theorem crtLoop_none_iff (W n m1 s1 : Nat) (prs : List (Nat × Nat)) (hW : 0 < W) (hn : 0 < n)
    (hm : ∀ p ∈ (m1, s1) :: prs, p.1 < 2 ^ (W * n)) :
    crtLoop W n prs (keyPoly W n m1, s1) = none ↔
      ¬ ((m1, s1) :: prs).Pairwise (fun p q => PCoprime (keyPoly W n p.1) (keyPoly W n q.1)) := by
  have _ := hm
  have hG2 := keyPoly_ge W n m1 hW hn
  rw [crtLoop_none_gen W n hW hn prs _ _ (by omega : keyPoly W n m1 ≠ 0)]
  apply not_congr
  rw [List.pairwise_cons]
  constructor
  · intro ⟨h1, h2⟩; exact ⟨fun p hp => pcoprime_comm.1 (h1 p hp), h2⟩
  · intro ⟨h1, h2⟩; exact ⟨fun p hp => pcoprime_comm.1 (h1 p hp), h2⟩

/-- (4) shape of ANY successful run: the degree of the product and the reducedness of C -/
theorem crtLoop_shape (W n : Nat) (hW : 0 < W) (hn : 0 < n) :
    ∀ (prs : List (Nat × Nat)) (i G C G' C' : Nat),
      (∀ p ∈ prs, p.1 < 2 ^ (W * n)) → 1 ≤ i → G.log2 = W * n * i →
      crtLoop W n prs (G, C) = some (G', C') →
      G'.log2 = W * n * (i + prs.length) ∧ (prs ≠ [] → C' < 2 ^ G'.log2) := by
  intro prs
  induction prs with
  | nil =>
    intro i G C G' C' _ _ hlog h
    rw [crtLoop] at h
    simp only [Option.some.injEq, Prod.mk.injEq] at h
    obtain ⟨rfl, rfl⟩ := h
    exact ⟨by simpa using hlog, fun h => absurd rfl h⟩
  | cons p rest ih =>
    obtain ⟨m, s⟩ := p
    intro i G C G' C' hm hi hlog h
    have hWn : 1 ≤ W * n * i := Nat.mul_pos (Nat.mul_pos hW hn) hi
    have hG2 : 2 ≤ G := two_le_of_log2_pos (by omega)
    have hF2 := keyPoly_ge W n m hW hn
    have hmm : m < 2 ^ (W * n) := hm (m, s) List.mem_cons_self
    rw [crtLoop] at h
    cases hst : crtStep (keyPoly W n m) s (G, C) with
    | none => rw [hst] at h; cases h
    | some gc =>
      obtain ⟨G1, C1⟩ := gc
      rw [hst] at h
      obtain ⟨_, hlog1, hC1⟩ := crtStep_shape hF2 hG2 hst
      have hlog1' : G1.log2 = W * n * (i + 1) := by
        rw [hlog1, keyPoly_log2 hmm, hlog, Nat.mul_succ]; omega
      obtain ⟨r1, r2⟩ := ih (i + 1) G1 C1 G' C' (fun p hp => hm p (List.mem_cons_of_mem _ hp))
        (by omega) hlog1' h
      have hlen : i + ((m, s) :: rest).length = i + 1 + rest.length := by
        rw [List.length_cons]; omega
      refine ⟨by rw [hlen]; exact r1, fun _ => ?_⟩
      by_cases hr : rest = []
      · subst hr
        simp only [crtLoop, Option.some.injEq, Prod.mk.injEq] at h
        obtain ⟨rfl, rfl⟩ := h
        exact hC1
      · exact r2 hr

-- non-vacuity: l = 3, moduli x^3 + x + 1, x^3 + x^2 + 1 (coprime), X = x^5 + x^3 + x^2 + 1
example : crtLoop 3 1 [(5, pmod 45 13)] (keyPoly 3 1 3, pmod 45 11) = some (clmul 11 13, 45) := by
  decide
-- the same modulus twice: failure
example : crtLoop 3 1 [(3, pmod 45 11)] (keyPoly 3 1 3, pmod 45 11) = none := by decide

/-! ## §4 the secret polynomial -/

/-- (5) the secret is the residue of c(x) modulo the dealer's polynomial -/
theorem secretPoly_mod (W n m0 k s : Nat) (hs : s < 2 ^ (W * n)) (hm0 : m0 < 2 ^ (W * n)) :
    pmod (secretPoly W n m0 k s) (keyPoly W n m0) = s := by
  have hF0 : keyPoly W n m0 ≠ 0 := by unfold keyPoly; have := Nat.two_pow_pos (W * n); omega
  have hlog := keyPoly_log2 hm0
  obtain ⟨h1, h2⟩ := pdivmod_spec (secretPoly W n m0 k s) (keyPoly W n m0) hF0
  have hs' : s < 2 ^ (keyPoly W n m0).log2 := by rw [hlog]; exact hs
  have e : clmul (pdivmod (secretPoly W n m0 k s) (keyPoly W n m0)).1 (keyPoly W n m0)
      ^^^ (pdivmod (secretPoly W n m0 k s) (keyPoly W n m0)).2
      = clmul k (keyPoly W n m0) ^^^ s := by
    rw [h1, secretPoly, clmul_comm]
  exact (divmod_unique hF0 h2 hs' e).2

/-- (5) deg c(x) < l t -/
theorem secretPoly_lt (W n t m0 k s : Nat) (ht : 0 < t) (hs : s < 2 ^ (W * n))
    (hm0 : m0 < 2 ^ (W * n)) (hk : k < 2 ^ (W * (t * n - n))) :
    secretPoly W n m0 k s < 2 ^ (W * n * t) := by
  have hF0 : keyPoly W n m0 ≠ 0 := by unfold keyPoly; have := Nat.two_pow_pos (W * n); omega
  have hlog := keyPoly_log2 hm0
  have hle : W * n ≤ W * n * t := Nat.le_mul_of_pos_right _ ht
  have hs' : s < 2 ^ (W * n * t) := Nat.lt_of_lt_of_le hs (Nat.pow_le_pow_right (by omega) hle)
  unfold secretPoly
  apply Nat.xor_lt_two_pow _ hs'
  by_cases hk0 : k = 0
  · subst hk0; rw [clmul_zero]; exact Nat.two_pow_pos _
  · have hne := clmul_ne_zero hF0 hk0
    have hl := log2_clmul hF0 hk0
    have hkl : k.log2 < W * (t * n - n) := (Nat.log2_lt hk0).2 hk
    have hnt : n ≤ t * n := Nat.le_mul_of_pos_left _ ht
    have e : W * n * t = W * n + W * (t * n - n) := by
      rw [← Nat.mul_add, Nat.add_sub_cancel' hnt, Nat.mul_assoc, Nat.mul_comm n t]
    apply (Nat.log2_lt hne).1
    rw [hl, hlog, e]
    omega

example : pmod (secretPoly 3 1 3 0b110 0b101) (keyPoly 3 1 3) = 0b101
    ∧ secretPoly 3 1 3 0b110 0b101 < 2 ^ (3 * 1 * 2) := by decide

/-! ## §5 irreducible moduli -/

/-- (6) distinct irreducible polynomials are coprime -/
theorem pirred_coprime {f g : Nat} (hf : PIrred f) (hg : PIrred g) (hdeg : f.log2 = g.log2)
    (hne : f ≠ g) : PCoprime f g := by
  have _ := hdeg
  intro d hdf hdg
  rcases hf.2 d hdf with h | h
  · exact h
  · rcases hg.2 d hdg with h' | h'
    · exact h'
    · exact absurd (h.symm.trans h') hne

end Bee2V.C13.Crt

/-
C13 driver: line protocol of harness/c13.c.  Every op carries the word size W (32 or 64: the B_PER_W
the model is instantiated with; the harness accepts both on any build, all data is octet-level) as its first argument; octet strings are little-endian images.
  stdm W len num                       -> code m
  valm W len m0                        -> code
  genm0 W len tape                     -> code m0
  genmi W len m0 tape                  -> code mi
  genmid W len m0 id                   -> code mid
  genmidu W len m0 u                   -> code mid      (belsGenMid with belt-hash(id) replaced by the 32 octets u:
                                                          harness/c13_hook.c, reaches the retry loop)
  share W count thr len s m0 mi tape   -> code si
  share2 W count thr len s tape        -> code si       (blocks of 1 + len octets)
  share3 W count thr len s             -> code si
  recover W count len si m0 mi         -> code s
  recover2 W count len si              -> code s
An output buffer is printed only when the code is 0 ("-" otherwise).
-/
import Bee2V.C13.ModelBelt
import Bee2V.Base.Proto
namespace Bee2V.C13.Drv
open Bee2V.C13 Bee2V.Proto

def chunks (len : Nat) : Nat → List UInt8 → List (List UInt8)
  | 0, _ => []
  | k + 1, bs => bs.take len :: chunks len k (bs.drop len)

def out (code : Nat) (bs : List UInt8) : String :=
  toString code ++ " " ++ (if code = 0 then toHex bs else "-")

def outO (len : Nat) (r : Nat × Option Nat) : String :=
  match r with
  | (code, some v) => out code (C13.natLE len v)
  | (code, none) => toString code ++ " -"

/-- belsShare (keys given) -/
def share (W count thr len : Nat) (s m0 mi tape : List UInt8) : Nat × List UInt8 :=
  if !validLen len || thr == 0 || count < thr then (ERR_BAD_INPUT, []) else
  let n := len * 8 / W
  let k := (tapeRead (thr * len - len) tape).1
  let sh := shareCore W n thr (C13.leNat s) (C13.leNat m0) ((chunks len count mi).map C13.leNat) k
  (ERR_OK, (sh.map (C13.natLE len)).flatten)

/-- belsShare2 with the generator output `tape` -/
def share2 (W count thr len : Nat) (s tape : List UInt8) : Nat × List UInt8 :=
  if !validLen len || thr == 0 || count < thr || count > 16 then (ERR_BAD_INPUT, []) else
  let n := len * 8 / W
  let k := (tapeRead (thr * len - len) tape).1
  let keys := (List.range count).map fun i => stdM len (i + 1)
  let sh := shareCore W n thr (C13.leNat s) (stdM len 0) keys k
  (ERR_OK, ((List.range count).zip sh |>.map fun (i, v) => UInt8.ofNat (i + 1) :: C13.natLE len v).flatten)

def share3 (W count thr len : Nat) (s : List UInt8) : Nat × List UInt8 :=
  if !validLen len then (ERR_BAD_INPUT, []) else
  if thr == 0 || count < thr || count > 16 then (ERR_BAD_INPUT, []) else
  share2 W count thr len s (genk count thr s (thr * len - len))

def recover (W count len : Nat) (si m0 mi : List UInt8) : Nat × List UInt8 :=
  if !validLen len || count == 0 then (ERR_BAD_INPUT, []) else
  let n := len * 8 / W
  let ms := (chunks len count mi).map C13.leNat
  let ss := (chunks len count si).map C13.leNat
  let r := recoverCore W n (C13.leNat m0) (ms.zip ss)
  (r.1, C13.natLE len r.2)

def recover2 (W count len : Nat) (si : List UInt8) : Nat × List UInt8 :=
  if !validLen len || count == 0 || count > 16 then (ERR_BAD_INPUT, []) else
  let n := len * 8 / W
  let blocks := chunks (len + 1) count si
  let nums := blocks.map fun b => (b.headD 0).toNat
  if !numsOk nums then (ERR_BAD_PUBKEY, []) else
  let ms := nums.map (stdM len)
  let ss := blocks.map fun b => C13.leNat (b.drop 1)
  let r := recoverCore W n (stdM len 0) (ms.zip ss)
  (r.1, C13.natLE len r.2)

def handle (args : List String) : String :=
  match args with
  | ["stdm", w, len, num] =>
    match parseNat w, parseNat len, parseNat num with
    | some _, some len, some num => let r := belsStdM len num; out r.1 (C13.natLE len r.2)
    | _, _, _ => "bad-op"
  | ["valm", w, len, m0] =>
    match parseNat w, parseNat len, parseHex m0 with
    | some _, some len, some m0 => toString (belsValM len (C13.leNat m0))
    | _, _, _ => "bad-op"
  | ["genm0", w, len, tape] =>
    match parseNat w, parseNat len, parseHex tape with
    | some _, some len, some tape => outO len (belsGenM0 len tape)
    | _, _, _ => "bad-op"
  | ["genmi", w, len, m0, tape] =>
    match parseNat w, parseNat len, parseHex m0, parseHex tape with
    | some _, some len, some m0, some tape => outO len (belsGenMi len (C13.leNat m0) tape)
    | _, _, _, _ => "bad-op"
  | ["genmid", w, len, m0, id] =>
    match parseNat w, parseNat len, parseHex m0, parseHex id with
    | some _, some len, some m0, some id => outO len (belsGenMid len (C13.leNat m0) id)
    | _, _, _, _ => "bad-op"
  | ["genmidu", w, len, m0, u] =>
    match parseNat w, parseNat len, parseHex m0, parseHex u with
    | some _, some len, some m0, some u =>
      if u.length ≠ 32 then "bad-op" else outO len (belsGenMidH len (C13.leNat m0) (C13.leNat u))
    | _, _, _, _ => "bad-op"
  | ["share", w, count, thr, len, s, m0, mi, tape] =>
    match parseNat w, parseNat count, parseNat thr, parseNat len, parseHex s, parseHex m0, parseHex mi, parseHex tape with
    | some w, some count, some thr, some len, some s, some m0, some mi, some tape =>
      let r := share w count thr len s m0 mi tape; out r.1 r.2
    | _, _, _, _, _, _, _, _ => "bad-op"
  | ["share2", w, count, thr, len, s, tape] =>
    match parseNat w, parseNat count, parseNat thr, parseNat len, parseHex s, parseHex tape with
    | some w, some count, some thr, some len, some s, some tape =>
      let r := share2 w count thr len s tape; out r.1 r.2
    | _, _, _, _, _, _ => "bad-op"
  | ["share3", w, count, thr, len, s] =>
    match parseNat w, parseNat count, parseNat thr, parseNat len, parseHex s with
    | some w, some count, some thr, some len, some s =>
      let r := share3 w count thr len s; out r.1 r.2
    | _, _, _, _, _ => "bad-op"
  | ["recover", w, count, len, si, m0, mi] =>
    match parseNat w, parseNat count, parseNat len, parseHex si, parseHex m0, parseHex mi with
    | some w, some count, some len, some si, some m0, some mi =>
      let r := recover w count len si m0 mi; out r.1 r.2
    | _, _, _, _, _, _ => "bad-op"
  | ["recover2", w, count, len, si] =>
    match parseNat w, parseNat count, parseNat len, parseHex si with
    | some w, some count, some len, some si =>
      let r := recover2 w count len si; out r.1 r.2
    | _, _, _, _ => "bad-op"
  | _ => "bad-op"

end Bee2V.C13.Drv

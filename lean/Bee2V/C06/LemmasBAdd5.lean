/-
C06, stage 2 — data for the non-vacuity examples of `PropsBAdd`: the curve `y² + xy = x³ + 1` over `GF(2)`
(`A = 0`, `B = 1`; four points `O`, `(0, 1)` of order two, `(1, 0)`, `(1, 1) = −(1, 0)`).
-/
import Bee2V.C06.LemmasBAdd4
import Mathlib.Algebra.Field.ZMod
namespace Bee2V.C06.BAdd
open WeierstrassCurve

theorem ns10 : (Wb (0 : ZMod 2) 1).Nonsingular 1 0 :=
  (Wb_nonsingular _ _ _ _).2 ⟨by decide, Or.inr (by decide)⟩
theorem ns11 : (Wb (0 : ZMod 2) 1).Nonsingular 1 1 :=
  (Wb_nonsingular _ _ _ _).2 ⟨by decide, Or.inr (by decide)⟩
theorem ns01 : (Wb (0 : ZMod 2) 1).Nonsingular 0 1 :=
  (Wb_nonsingular _ _ _ _).2 ⟨by decide, Or.inl (by decide)⟩
theorem rep10 : RepB3 (0 : ZMod 2) 1 (1, 0, 1) (.some 1 0 ns10) :=
  rep3_of_rep2 (by decide) ⟨ns10, rfl⟩ (by decide) (by decide)
theorem rep11 : RepB3 (0 : ZMod 2) 1 (1, 1, 1) (.some 1 1 ns11) :=
  rep3_of_rep2 (by decide) ⟨ns11, rfl⟩ (by decide) (by decide)
theorem rep01 : RepB3 (0 : ZMod 2) 1 (0, 1, 1) (.some 0 1 ns01) :=
  rep3_of_rep2 (by decide) ⟨ns01, rfl⟩ (by decide) (by decide)
theorem repO : RepB3 (0 : ZMod 2) 1 (1, 0, 0) 0 := rep3_zero rfl

end Bee2V.C06.BAdd

/-
C06 — `ecAddMulA`: rows (term, read position, group element), the inner loop (`inner_spec`), the main
countdown loop (`addMulLoop_spec`: `t = 2^cnt h + Σ_i (value of the digits of term i not yet read) g_i`),
initial rows (`rows_init`), and `grpOps` (a model of `EcOps.Correct` for the non-vacuity examples).
-/
import Bee2V.C06.LemmasMul

namespace Bee2V.C06.MulL
open Bee2V.C06
variable {P A G : Type} [AddCommGroup G] {o : EcOps P A} {R3 : P → G → Prop} {R2 : A → G → Prop}

/-- a term of `ecAddMulA` with its current read position and the group element it multiplies -/
abbrev Row (P G : Type) := Term P × Nat × G

/-- digit of the row consumed at countdown value `cnt` (0 if the term has not started yet) -/
def rowDigit (cnt : Nat) (r : Row P G) : Int :=
  if r.1.size < cnt then 0 else
  if getBits r.1.naf r.2.1 r.1.w % 2 = 1 then sval r.1.w (getBits r.1.naf r.2.1 r.1.w) else 0

/-- the row after countdown value `cnt` -/
def rowStep (cnt : Nat) (r : Row P G) : Row P G :=
  if r.1.size < cnt then r else
  (r.1, (if getBits r.1.naf r.2.1 r.1.w % 2 = 1 then r.2.1 + r.1.w else r.2.1 + 1), r.2.2)

/-- value still to be added by the rows when `cnt` countdown values remain -/
def rowsVal (cnt : Nat) (L : List (Row P G)) : G :=
  (L.map fun r => nafVal (decode r.1.w r.1.naf (min r.1.size cnt) r.2.1) • r.2.2).sum

def RowOk (o : EcOps P A) (R3 : P → G → Prop) (R2 : A → G → Prop) (r : Row P G) : Prop :=
  2 ≤ r.1.w ∧ ∃ a, R2 a r.2.2 ∧ TableOk o R3 r.1.pre a r.2.2 (2 ^ (r.1.w - 2))

omit [AddCommGroup G] in
theorem rowStep_fst (cnt : Nat) (r : Row P G) : (rowStep cnt r).1 = r.1 := by
  unfold rowStep; split <;> rfl
omit [AddCommGroup G] in
theorem rowStep_g (cnt : Nat) (r : Row P G) : (rowStep cnt r).2.2 = r.2.2 := by
  unfold rowStep; split <;> rfl

theorem rowOk_step {cnt : Nat} {r : Row P G} (h : RowOk o R3 R2 r) : RowOk o R3 R2 (rowStep cnt r) := by
  unfold RowOk; rw [rowStep_fst, rowStep_g]; exact h

omit [AddCommGroup G] in
theorem map_rowStep_fst (cnt : Nat) (L : List (Row P G)) :
    (L.map (rowStep cnt)).map (·.1) = L.map (·.1) := by
  rw [List.map_map]; apply List.map_congr_left; intro r _; exact rowStep_fst cnt r

/-- the inner `for (i = 0; i < k; ++i)` loop -/
theorem inner_spec (hc : o.Correct R3 R2) (cnt : Nat) :
    ∀ (L : List (Row P G)) (t : P) (h : G), (∀ r ∈ L, RowOk o R3 R2 r) → R3 t h →
      (addMulInner o cnt (L.map (·.1)) (L.map (·.2.1)) t).2 = (L.map (rowStep cnt)).map (·.2.1) ∧
      R3 (addMulInner o cnt (L.map (·.1)) (L.map (·.2.1)) t).1
        (h + (L.map fun r => rowDigit cnt r • r.2.2).sum) := by
  intro L
  induction L with
  | nil => intro t h _ ht; simpa [addMulInner] using ht
  | cons r L ih =>
    intro t h hok ht
    have hr := hok r (by simp)
    have hL : ∀ r ∈ L, RowOk o R3 R2 r := fun x hx => hok x (by simp [hx])
    simp only [List.map_cons, addMulInner, List.sum_cons]
    by_cases hs : r.1.size < cnt
    · have := ih t h hL ht
      simp only [if_pos hs, rowStep, rowDigit, zero_smul, zero_add]
      exact ⟨by rw [this.1], this.2⟩
    · by_cases hodd : getBits r.1.naf r.2.1 r.1.w % 2 = 1
      · obtain ⟨hw, a, ha, tb⟩ := hr
        have h1 := nafApply_spec hc hw ha tb hodd (getBits_lt _ _ _) ht
        have := ih _ _ hL h1
        simp only [if_neg hs, if_pos hodd, rowStep, rowDigit]
        exact ⟨by rw [this.1], by rw [← add_assoc]; exact this.2⟩
      · have := ih t h hL ht
        simp only [if_neg hs, if_neg hodd, rowStep, rowDigit, zero_smul, zero_add]
        exact ⟨by rw [this.1], this.2⟩

omit [AddCommGroup G] in
theorem row_val_succ (cnt : Nat) (r : Row P G) :
    nafVal (decode r.1.w r.1.naf (min r.1.size (cnt + 1)) r.2.1) =
      rowDigit (cnt + 1) r * 2 ^ cnt +
        nafVal (decode r.1.w r.1.naf (min r.1.size cnt) (rowStep (cnt + 1) r).2.1) := by
  unfold rowDigit rowStep
  by_cases hs : r.1.size < cnt + 1
  · rw [if_pos hs, if_pos hs, Nat.min_eq_left (by omega), Nat.min_eq_left (by omega)]; simp
  · rw [if_neg hs, if_neg hs, Nat.min_eq_right (by omega), Nat.min_eq_right (by omega)]
    conv => lhs; unfold decode
    simp only
    split <;> simp [nafVal, decode_length]

theorem rowsVal_succ (cnt : Nat) (L : List (Row P G)) :
    rowsVal (cnt + 1) L =
      (2 ^ cnt : Int) • (L.map fun r => rowDigit (cnt + 1) r • r.2.2).sum +
        rowsVal cnt (L.map (rowStep (cnt + 1))) := by
  induction L with
  | nil => simp [rowsVal]
  | cons r L ih =>
    unfold rowsVal at ih ⊢
    simp only [List.map_cons, List.sum_cons, ih, row_val_succ cnt r, rowStep_fst, rowStep_g,
      smul_add, add_smul, mul_smul]
    rw [smul_comm (rowDigit (cnt + 1) r) ((2 : Int) ^ cnt)]
    abel

theorem rowsVal_zero (L : List (Row P G)) : rowsVal 0 L = 0 := by
  unfold rowsVal
  induction L with
  | nil => rfl
  | cons r L ih => rw [List.map_cons, List.sum_cons, ih]; simp [decode, nafVal]

/-- the main loop `for (; naf_max_size; --naf_max_size)` -/
theorem addMulLoop_spec (hc : o.Correct R3 R2) :
    ∀ (cnt : Nat) (L : List (Row P G)) (t : P) (h : G), (∀ r ∈ L, RowOk o R3 R2 r) → R3 t h →
      R3 (addMulLoop o (L.map (·.1)) cnt (L.map (·.2.1)) t) ((2 ^ cnt : Int) • h + rowsVal cnt L) := by
  intro cnt
  induction cnt with
  | zero =>
    intro L t h _ ht
    have := rowsVal_zero L
    simpa [addMulLoop, this] using ht
  | succ cnt ih =>
    intro L t h hok ht
    have hd := hc.dbl_ca ht
    obtain ⟨hp, hr⟩ := inner_spec hc (cnt + 1) L _ _ hok hd
    unfold addMulLoop
    simp only
    rw [hp, ← map_rowStep_fst (cnt + 1) L]
    have := ih (L.map (rowStep (cnt + 1)))
      (addMulInner o (cnt + 1) (L.map (·.1)) (L.map (·.2.1)) (o.dbl .ca t)).1 _
      (by intro r hr; rw [List.mem_map] at hr; obtain ⟨x, hx, rfl⟩ := hr; exact rowOk_step (hok x hx)) hr
    rw [map_rowStep_fst] at this ⊢
    convert this using 1
    rw [rowsVal_succ, pow_succ, mul_smul, smul_add, smul_add, two_smul, smul_add]
    abel

/-- initial row of a term -/
def mkRow (o : EcOps P A) (W : Nat) (ad : A × Nat) (g : G) : Row P G := (mkTerm o W ad.1 ad.2, 0, g)

theorem foldl_max_le (tms : List (Term P)) :
    ∀ acc, acc ≤ tms.foldl (fun acc tm => max acc tm.size) acc ∧
      ∀ tm ∈ tms, tm.size ≤ tms.foldl (fun acc tm => max acc tm.size) acc := by
  induction tms with
  | nil => intro acc; simp
  | cons x xs ih =>
    intro acc
    have := ih (max acc x.size)
    simp only [List.foldl_cons, List.mem_cons, forall_eq_or_imp]
    refine ⟨by omega, by omega, this.2⟩

theorem mkRow_ok (hc : o.Correct R3 R2) (W : Nat) {ad : A × Nat} {g : G} (h : R2 ad.1 g) :
    RowOk o R3 R2 (mkRow o W ad g) := by
  refine ⟨?_, ad.1, h, ?_⟩
  · have := ecNAFWidth_ge (wordSize W ad.2 * W); show 2 ≤ ecNAFWidth _; omega
  · exact preTable_ok hc h _

theorem mkRow_val (W : Nat) (ad : A × Nat) (g : G) (cnt : Nat)
    (hs : (mkRow o W ad g).1.size ≤ cnt) :
    nafVal (decode (mkRow o W ad g).1.w (mkRow o W ad g).1.naf (min (mkRow o W ad g).1.size cnt)
      (mkRow o W ad g).2.1) • g = ad.2 • g := by
  rw [Nat.min_eq_left hs]
  have hw : 2 ≤ ecNAFWidth (wordSize W ad.2 * W) := by
    have := ecNAFWidth_ge (wordSize W ad.2 * W); omega
  show nafVal (decode (ecNAFWidth (wordSize W ad.2 * W)) (wwNAF ad.2 _).2 (wwNAF ad.2 _).1 0) • g = _
  rcases Nat.eq_zero_or_pos ad.2 with h0 | hd
  · rw [h0, wwNAF_zero]; simp [decode, nafVal]
  · rw [(wwNAF_spec hw hd).1, natCast_zsmul]

theorem rows_init (hc : o.Correct R3 R2) (W : Nat) {args : List (A × Nat)} {gs : List G}
    (h : List.Forall₂ (fun ad g => R2 ad.1 g) args gs) :
    let L := List.zipWith (mkRow o W) args gs
    L.map (·.1) = args.map (fun ad => mkTerm o W ad.1 ad.2) ∧
    L.map (·.2.1) = (args.map fun ad => mkTerm o W ad.1 ad.2).map (fun _ => 0) ∧
    (∀ r ∈ L, RowOk o R3 R2 r) ∧
    ∀ cnt, (∀ r ∈ L, r.1.size ≤ cnt) →
      rowsVal cnt L = (List.zipWith (fun ad g => ad.2 • g) args gs).sum := by
  induction h with
  | nil => simp [rowsVal]
  | @cons ad g args gs h1 _ ih =>
    obtain ⟨i1, i2, i3, i4⟩ := ih
    simp only [List.zipWith_cons_cons, List.map_cons, List.mem_cons, forall_eq_or_imp, List.sum_cons]
    refine ⟨by rw [i1]; rfl, by rw [i2]; rfl, ⟨mkRow_ok hc W h1, i3⟩, ?_⟩
    intro cnt hs
    unfold rowsVal at i4 ⊢
    rw [List.map_cons, List.sum_cons, i4 cnt hs.2]
    congr 1
    exact mkRow_val W ad g cnt hs.1

/-! ### a model of the hypotheses (used by the non-vacuity examples) -/

/-- any additive commutative group with decidable equality as a (trivially correct) operation table:
    `P = A = G`, identity representation relations -/
def grpOps (G : Type) [AddCommGroup G] [DecidableEq G] : EcOps G G where
  froma a := a
  toa p := if p = 0 then none else some p
  view p := p
  setO := 0
  neg _ p := -p
  dbl _ p := p + p
  tpl _ p := p + p + p
  dbla a := a + a
  add _ p q := p + q
  sub _ p q := p - q
  adda _ p a := p + a
  suba _ p a := p - a

theorem grpOps_correct (G : Type) [AddCommGroup G] [DecidableEq G] :
    (grpOps G).Correct (fun p g => p = g) (fun a g => a = g) := by
  constructor <;> intros <;> simp_all [grpOps]

end Bee2V.C06.MulL

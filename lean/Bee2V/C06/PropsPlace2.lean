/-
C06, phase 3 — the formula theorems of the prime-curve routines (ecp.c) for ARBITRARY placements, part 1:
the projective routines `ecpNegJ`, `ecpDblJ`, `ecpDblJA3`, `ecpDblAJ`, `ecpFromAJ`, `ecpTplJ`, `ecpTplJA3`
(destination distinct from the operand `_n`, in place `_ca`), `ecpAddJ` (`_ca`, `_cb`, `_ab`; `_n` is
`addJ_anywhere_n` of PropsPlace.lean) and `ecpSubJ` (`_n`, `_ca`, `_cb`, `_ab`).

Operands, destination and scratch stack are ANYWHERE in the store: pairwise disjoint blocks (3 registers for a
projective, 2 for an affine point; aliased buffers share the block as the pattern says) above the registers
`rA = 0`, `rB = 1` of the coefficients and below the stack base `s`; all other registers of the store hold
ARBITRARY values.  The hypotheses speak about the store only: `st.get rA = A`, `st.get rB = B` and the operands
read by `get3 st a` / `get2 st a`.  Each theorem is the canonical-layout theorem (PropsUn, PropsTpl, PropsAddJ)
transported by `place_get3` (LemmasPlace3.lean: `place` = injective renaming `rho c a b s` + def-use
independence); the three side conditions — the renamed canonical program is the program at the new indices, its
registers lie in `SW wc wa wb`, every register is written before it is read except the declared inputs — are
discharged by `place_map` resp. `decide`.
Part 2 (PropsPlace4.lean: mixed and affine routines, `ecpIsOnA`) is imported here, so that building this module
builds all placement theorems of the prime curves.
-/
import Bee2V.C06.LemmasPlace3
import Bee2V.C06.PropsUn
import Bee2V.C06.PropsTpl
import Bee2V.C06.PropsAddJ
import Bee2V.C06.PropsPlace4
namespace Bee2V.C06
open WeierstrassCurve
set_option linter.unusedSimpArgs false
set_option linter.unusedVariables false
variable {F : Type} [Field F] [DecidableEq F] {A B : F}

/-- `ecpNegJ(b, a, ec)`, destination and operand in different buffers -/
theorem negJ_anywhere_n {b a : Nat} (hb : 2 ≤ b) (ha : 2 ≤ a) (hba : b + 3 ≤ a ∨ a + 3 ≤ b) (st : Store F)
    (hA : st.get rA = A) (hB : st.get rB = B) {P : (Wc A B).Point} (hp : Rep3 A B (get3 st a) P) :
    Rep3 A B (get3 ((ecpNegJ b a).run (fieldFld F) st).1 b) (-P) := by
  have e : get3 ((ecpNegJ b a).run (fieldFld F) st).1 b =
      run1 (curveF A B) (fun b a _ => ecpNegJ b a) .n (get3 st a) :=
    run1_anywhere (fieldFld F) (curveF A B) rfl (fun b a _ => ecpNegJ b a) .n (.inl rfl) (c := b) (a := a) (b := 0) (s := b + a + 3) rfl
      (S := SW 3 3 0) (by place_map) (by inj_w) (by decide) (by decide) (by decide) hA hB
  rw [e]; exact neg_correct (.inl rfl) hp

/-- `ecpNegJ(b, a, ec)`, in place -/
theorem negJ_anywhere_ca {b : Nat} (hb : 2 ≤ b) (st : Store F) (hA : st.get rA = A) (hB : st.get rB = B)
    {P : (Wc A B).Point} (hp : Rep3 A B (get3 st b) P) :
    Rep3 A B (get3 ((ecpNegJ b b).run (fieldFld F) st).1 b) (-P) := by
  have e : get3 ((ecpNegJ b b).run (fieldFld F) st).1 b =
      run1 (curveF A B) (fun b a _ => ecpNegJ b a) .ca (get3 st b) :=
    run1_anywhere (fieldFld F) (curveF A B) rfl (fun b a _ => ecpNegJ b a) .ca (.inr rfl) (c := b) (a := 0) (b := 0) (s := b + 3) rfl
      (S := SW 3 0 0) (by place_map) (by inj_w) (by decide) (by decide) (by decide) hA hB
  rw [e]; exact neg_correct (.inr rfl) hp

/-- `ecpDblJ(b, a, ec, stack)`, destination and operand in different buffers (any `A`) -/
theorem dblJ_anywhere_n (h2 : (2 : F) ≠ 0) {b a s : Nat} (hb : 2 ≤ b) (ha : 2 ≤ a) (hba : b + 3 ≤ a ∨ a + 3 ≤ b)
    (hbs : b + 3 ≤ s) (has : a + 3 ≤ s) (st : Store F) (hA : st.get rA = A) (hB : st.get rB = B)
    {P : (Wc A B).Point} (hp : Rep3 A B (get3 st a) P) :
    Rep3 A B (get3 ((ecpDblJ b a s).run (fieldFld F) st).1 b) (P + P) := by
  have e : get3 ((ecpDblJ b a s).run (fieldFld F) st).1 b =
      run1 (curveF A B) ecpDblJ .n (get3 st a) :=
    run1_anywhere (fieldFld F) (curveF A B) rfl ecpDblJ .n (.inl rfl) (c := b) (a := a) (b := 0) (s := s) rfl
      (S := SW 3 3 0) (by place_map) (by inj_w) (by decide) (by decide) (by decide) hA hB
  rw [e]; exact dblJ_correct h2 (.inl rfl) hp

/-- `ecpDblJ(b, a, ec, stack)`, in place (any `A`) -/
theorem dblJ_anywhere_ca (h2 : (2 : F) ≠ 0) {b s : Nat} (hb : 2 ≤ b) (hbs : b + 3 ≤ s) (st : Store F)
    (hA : st.get rA = A) (hB : st.get rB = B) {P : (Wc A B).Point} (hp : Rep3 A B (get3 st b) P) :
    Rep3 A B (get3 ((ecpDblJ b b s).run (fieldFld F) st).1 b) (P + P) := by
  have e : get3 ((ecpDblJ b b s).run (fieldFld F) st).1 b =
      run1 (curveF A B) ecpDblJ .ca (get3 st b) :=
    run1_anywhere (fieldFld F) (curveF A B) rfl ecpDblJ .ca (.inr rfl) (c := b) (a := 0) (b := 0) (s := s) rfl
      (S := SW 3 0 0) (by place_map) (by inj_w) (by decide) (by decide) (by decide) hA hB
  rw [e]; exact dblJ_correct h2 (.inr rfl) hp

/-- `ecpDblJA3(b, a, ec, stack)`, destination and operand in different buffers (`A = -3`) -/
theorem dblJA3_anywhere_n (h2 : (2 : F) ≠ 0) (hA3 : A = -3) {b a s : Nat} (hb : 2 ≤ b) (ha : 2 ≤ a)
    (hba : b + 3 ≤ a ∨ a + 3 ≤ b) (hbs : b + 3 ≤ s) (has : a + 3 ≤ s) (st : Store F) (hA : st.get rA = A)
    (hB : st.get rB = B) {P : (Wc A B).Point} (hp : Rep3 A B (get3 st a) P) :
    Rep3 A B (get3 ((ecpDblJA3 b a s).run (fieldFld F) st).1 b) (P + P) := by
  have e : get3 ((ecpDblJA3 b a s).run (fieldFld F) st).1 b =
      run1 (curveF A B) ecpDblJA3 .n (get3 st a) :=
    run1_anywhere (fieldFld F) (curveF A B) rfl ecpDblJA3 .n (.inl rfl) (c := b) (a := a) (b := 0) (s := s) rfl
      (S := SW 3 3 0) (by place_map) (by inj_w) (by decide) (by decide) (by decide) hA hB
  rw [e]; exact dblJA3_correct h2 hA3 (.inl rfl) hp

/-- `ecpDblJA3(b, a, ec, stack)`, in place (`A = -3`) -/
theorem dblJA3_anywhere_ca (h2 : (2 : F) ≠ 0) (hA3 : A = -3) {b s : Nat} (hb : 2 ≤ b) (hbs : b + 3 ≤ s)
    (st : Store F) (hA : st.get rA = A) (hB : st.get rB = B) {P : (Wc A B).Point} (hp : Rep3 A B (get3 st b) P) :
    Rep3 A B (get3 ((ecpDblJA3 b b s).run (fieldFld F) st).1 b) (P + P) := by
  have e : get3 ((ecpDblJA3 b b s).run (fieldFld F) st).1 b =
      run1 (curveF A B) ecpDblJA3 .ca (get3 st b) :=
    run1_anywhere (fieldFld F) (curveF A B) rfl ecpDblJA3 .ca (.inr rfl) (c := b) (a := 0) (b := 0) (s := s) rfl
      (S := SW 3 0 0) (by place_map) (by inj_w) (by decide) (by decide) (by decide) hA hB
  rw [e]; exact dblJA3_correct h2 hA3 (.inr rfl) hp

/-- `ecpDblAJ(b, a, ec, stack)`, destination and operand in different buffers (affine `a`) -/
theorem dblAJ_anywhere_n (h2 : (2 : F) ≠ 0) {b a s : Nat} (hb : 2 ≤ b) (ha : 2 ≤ a)
    (hba : b + 3 ≤ a ∨ a + 2 ≤ b) (hbs : b + 3 ≤ s) (has : a + 2 ≤ s) (st : Store F) (hA : st.get rA = A)
    (hB : st.get rB = B) {P : (Wc A B).Point} (hp : Rep2 A B (get2 st a) P) :
    Rep3 A B (get3 ((ecpDblAJ b a s).run (fieldFld F) st).1 b) (P + P) := by
  have e : get3 ((ecpDblAJ b a s).run (fieldFld F) st).1 b =
      dbla (curveF A B) .n (get2 st a) :=
    place_get3 (S := SW 3 2 0) (c := b) (a := a) (b := 0) (s := s) (P := ecpDblAJ 2 5 11) _
      (by place_map) (by inj_w) (by decide) (by decide) (by decide)
      (ag1a (cv := curveF A B) .n (.inl rfl) hA hB)
  rw [e]; exact dbla_correct h2 (.inl rfl) hp

/-- `ecpDblAJ(b, a, ec, stack)`, in place (affine `a`) -/
theorem dblAJ_anywhere_ca (h2 : (2 : F) ≠ 0) {b s : Nat} (hb : 2 ≤ b) (hbs : b + 3 ≤ s) (st : Store F)
    (hA : st.get rA = A) (hB : st.get rB = B) {P : (Wc A B).Point} (hp : Rep2 A B (get2 st b) P) :
    Rep3 A B (get3 ((ecpDblAJ b b s).run (fieldFld F) st).1 b) (P + P) := by
  have e : get3 ((ecpDblAJ b b s).run (fieldFld F) st).1 b =
      dbla (curveF A B) .ca (get2 st b) :=
    place_get3 (S := SW 3 0 0) (c := b) (a := 0) (b := 0) (s := s) (P := ecpDblAJ 2 2 11) _
      (by place_map) (by inj_w) (by decide) (by decide) (by decide)
      (ag1a (cv := curveF A B) .ca (.inr rfl) hA hB)
  rw [e]; exact dbla_correct h2 (.inr rfl) hp

/-- `ecpFromAJ(b, a, ec, stack)`, destination and operand in different buffers -/
theorem fromAJ_anywhere_n {b a : Nat} (hb : 2 ≤ b) (ha : 2 ≤ a) (hba : b + 3 ≤ a ∨ a + 2 ≤ b) (st : Store F)
    (hA : st.get rA = A) (hB : st.get rB = B) {P : (Wc A B).Point} (hp : Rep2 A B (get2 st a) P) :
    Rep3 A B (get3 ((ecpFromAJ b a).run (fieldFld F) st).1 b) P := by
  have e : get3 ((ecpFromAJ b a).run (fieldFld F) st).1 b =
      froma (curveF A B) .n (get2 st a) :=
    place_get3 (S := SW 3 2 0) (c := b) (a := a) (b := 0) (s := b + a + 3) (P := ecpFromAJ 2 5) _
      (by place_map) (by inj_w) (by decide) (by decide) (by decide)
      (ag1a (cv := curveF A B) .n (.inl rfl) hA hB)
  rw [e]; exact froma_correct (.inl rfl) hp

/-- `ecpFromAJ(b, a, ec, stack)`, in place -/
theorem fromAJ_anywhere_ca {b : Nat} (hb : 2 ≤ b) (st : Store F) (hA : st.get rA = A) (hB : st.get rB = B)
    {P : (Wc A B).Point} (hp : Rep2 A B (get2 st b) P) :
    Rep3 A B (get3 ((ecpFromAJ b b).run (fieldFld F) st).1 b) P := by
  have e : get3 ((ecpFromAJ b b).run (fieldFld F) st).1 b =
      froma (curveF A B) .ca (get2 st b) :=
    place_get3 (S := SW 3 0 0) (c := b) (a := 0) (b := 0) (s := b + 3) (P := ecpFromAJ 2 2) _
      (by place_map) (by inj_w) (by decide) (by decide) (by decide)
      (ag1a (cv := curveF A B) .ca (.inr rfl) hA hB)
  rw [e]; exact froma_correct (.inr rfl) hp

/-- `ecpTplJ(b, a, ec, stack)`, destination and operand in different buffers (any `A`) -/
theorem tplJ_anywhere_n (h2 : (2 : F) ≠ 0) {b a s : Nat} (hb : 2 ≤ b) (ha : 2 ≤ a) (hba : b + 3 ≤ a ∨ a + 3 ≤ b)
    (hbs : b + 3 ≤ s) (has : a + 3 ≤ s) (st : Store F) (hA : st.get rA = A) (hB : st.get rB = B)
    {P : (Wc A B).Point} (hp : Rep3 A B (get3 st a) P) :
    Rep3 A B (get3 ((ecpTplJ b a s).run (fieldFld F) st).1 b) (P + P + P) := by
  have e : get3 ((ecpTplJ b a s).run (fieldFld F) st).1 b =
      run1 (curveF A B) ecpTplJ .n (get3 st a) :=
    run1_anywhere (fieldFld F) (curveF A B) rfl ecpTplJ .n (.inl rfl) (c := b) (a := a) (b := 0) (s := s) rfl
      (S := SW 3 3 0) (by place_map) (by inj_w) (by decide) (by decide) (by decide) hA hB
  rw [e]; exact tplJ_correct h2 (.inl rfl) hp

/-- `ecpTplJ(b, a, ec, stack)`, in place (any `A`) -/
theorem tplJ_anywhere_ca (h2 : (2 : F) ≠ 0) {b s : Nat} (hb : 2 ≤ b) (hbs : b + 3 ≤ s) (st : Store F)
    (hA : st.get rA = A) (hB : st.get rB = B) {P : (Wc A B).Point} (hp : Rep3 A B (get3 st b) P) :
    Rep3 A B (get3 ((ecpTplJ b b s).run (fieldFld F) st).1 b) (P + P + P) := by
  have e : get3 ((ecpTplJ b b s).run (fieldFld F) st).1 b =
      run1 (curveF A B) ecpTplJ .ca (get3 st b) :=
    run1_anywhere (fieldFld F) (curveF A B) rfl ecpTplJ .ca (.inr rfl) (c := b) (a := 0) (b := 0) (s := s) rfl
      (S := SW 3 0 0) (by place_map) (by inj_w) (by decide) (by decide) (by decide) hA hB
  rw [e]; exact tplJ_correct h2 (.inr rfl) hp

/-- `ecpTplJA3(b, a, ec, stack)`, destination and operand in different buffers (`A = -3`) -/
theorem tplJA3_anywhere_n (h2 : (2 : F) ≠ 0) (hA3 : A = -3) {b a s : Nat} (hb : 2 ≤ b) (ha : 2 ≤ a)
    (hba : b + 3 ≤ a ∨ a + 3 ≤ b) (hbs : b + 3 ≤ s) (has : a + 3 ≤ s) (st : Store F) (hA : st.get rA = A)
    (hB : st.get rB = B) {P : (Wc A B).Point} (hp : Rep3 A B (get3 st a) P) :
    Rep3 A B (get3 ((ecpTplJA3 b a s).run (fieldFld F) st).1 b) (P + P + P) := by
  have e : get3 ((ecpTplJA3 b a s).run (fieldFld F) st).1 b =
      run1 (curveF A B) ecpTplJA3 .n (get3 st a) :=
    run1_anywhere (fieldFld F) (curveF A B) rfl ecpTplJA3 .n (.inl rfl) (c := b) (a := a) (b := 0) (s := s) rfl
      (S := SW 3 3 0) (by place_map) (by inj_w) (by decide) (by decide) (by decide) hA hB
  rw [e]; exact tplJA3_correct h2 hA3 (.inl rfl) hp

/-- `ecpTplJA3(b, a, ec, stack)`, in place (`A = -3`) -/
theorem tplJA3_anywhere_ca (h2 : (2 : F) ≠ 0) (hA3 : A = -3) {b s : Nat} (hb : 2 ≤ b) (hbs : b + 3 ≤ s)
    (st : Store F) (hA : st.get rA = A) (hB : st.get rB = B) {P : (Wc A B).Point} (hp : Rep3 A B (get3 st b) P) :
    Rep3 A B (get3 ((ecpTplJA3 b b s).run (fieldFld F) st).1 b) (P + P + P) := by
  have e : get3 ((ecpTplJA3 b b s).run (fieldFld F) st).1 b =
      run1 (curveF A B) ecpTplJA3 .ca (get3 st b) :=
    run1_anywhere (fieldFld F) (curveF A B) rfl ecpTplJA3 .ca (.inr rfl) (c := b) (a := 0) (b := 0) (s := s) rfl
      (S := SW 3 0 0) (by place_map) (by inj_w) (by decide) (by decide) (by decide) hA hB
  rw [e]; exact tplJA3_correct h2 hA3 (.inr rfl) hp

/-- `ecpAddJ(c, a, b, ec, stack)`, `c == a` -/
theorem addJ_anywhere_ca (h2 : (2 : F) ≠ 0) {c b s : Nat} (hc : 2 ≤ c) (hb : 2 ≤ b)
    (hcb : c + 3 ≤ b ∨ b + 3 ≤ c) (hcs : c + 3 ≤ s) (hbs : b + 3 ≤ s) (st : Store F) (hA : st.get rA = A)
    (hB : st.get rB = B) {P Q : (Wc A B).Point} (hp : Rep3 A B (get3 st c) P) (hq : Rep3 A B (get3 st b) Q) :
    Rep3 A B (get3 ((ecpAddJ c c b s).run (fieldFld F) st).1 c) (P + Q) := by
  have e : get3 ((ecpAddJ c c b s).run (fieldFld F) st).1 c =
      (ecOps (curveF A B)).add .ca (get3 st c) (get3 st b) :=
    place_get3 (S := SW 3 0 3) (c := c) (a := 0) (b := b) (s := s) (P := ecpAddJ 2 2 8 11) _
      (by place_map) (by inj_w) (by decide) (by decide) (by decide)
      (ag2 (cv := curveF A B) .ca (by decide) hA hB)
  rw [e]; exact add_correct h2 (.inr (.inl rfl)) hp hq

/-- `ecpAddJ(c, a, b, ec, stack)`, `c == b` -/
theorem addJ_anywhere_cb (h2 : (2 : F) ≠ 0) {c a s : Nat} (hc : 2 ≤ c) (ha : 2 ≤ a)
    (hca : c + 3 ≤ a ∨ a + 3 ≤ c) (hcs : c + 3 ≤ s) (has : a + 3 ≤ s) (st : Store F) (hA : st.get rA = A)
    (hB : st.get rB = B) {P Q : (Wc A B).Point} (hp : Rep3 A B (get3 st a) P) (hq : Rep3 A B (get3 st c) Q) :
    Rep3 A B (get3 ((ecpAddJ c a c s).run (fieldFld F) st).1 c) (P + Q) := by
  have hne : c ≠ a := by omega
  have e : get3 ((ecpAddJ c a c s).run (fieldFld F) st).1 c =
      (ecOps (curveF A B)).add .cb (get3 st a) (get3 st c) :=
    place_get3 (S := SW 3 3 0) (c := c) (a := a) (b := 0) (s := s) (P := ecpAddJ 2 5 2 11) _
      (by place_map) (by inj_w) (by decide) (by decide) (by decide)
      (ag2 (cv := curveF A B) .cb (by decide) hA hB)
  rw [e]; exact add_correct h2 (.inr (.inr rfl)) hp hq

/-- `ecpAddJ(c, a, b, ec, stack)`, `a == b`, `c` distinct: the doubling fall-through -/
theorem addJ_anywhere_ab (h2 : (2 : F) ≠ 0) {c a s : Nat} (hc : 2 ≤ c) (ha : 2 ≤ a)
    (hca : c + 3 ≤ a ∨ a + 3 ≤ c) (hcs : c + 3 ≤ s) (has : a + 3 ≤ s) (st : Store F) (hA : st.get rA = A)
    (hB : st.get rB = B) {P : (Wc A B).Point} (hp : Rep3 A B (get3 st a) P) :
    Rep3 A B (get3 ((ecpAddJ c a a s).run (fieldFld F) st).1 c) (P + P) := by
  have e : get3 ((ecpAddJ c a a s).run (fieldFld F) st).1 c =
      (ecOps (curveF A B)).add .ab (get3 st a) (get3 st a) :=
    place_get3 (S := SW 3 3 0) (c := c) (a := a) (b := 0) (s := s) (P := ecpAddJ 2 5 5 11) _
      (by place_map) (by inj_w) (by decide) (by decide) (by decide)
      (ag2 (cv := curveF A B) .ab (by decide) hA hB)
  rw [e]; exact add_ab_correct h2 hp _

/-- `ecpSubJ(c, a, b, ec, stack)`, all buffers distinct -/
theorem subJ_anywhere_n (h2 : (2 : F) ≠ 0) {c a b s : Nat} (hc : 2 ≤ c) (ha : 2 ≤ a) (hb : 2 ≤ b)
    (hca : c + 3 ≤ a ∨ a + 3 ≤ c) (hcb : c + 3 ≤ b ∨ b + 3 ≤ c) (hab : a + 3 ≤ b ∨ b + 3 ≤ a) (hcs : c + 3 ≤ s)
    (has : a + 3 ≤ s) (hbs : b + 3 ≤ s) (st : Store F) (hA : st.get rA = A) (hB : st.get rB = B)
    {P Q : (Wc A B).Point} (hp : Rep3 A B (get3 st a) P) (hq : Rep3 A B (get3 st b) Q) :
    Rep3 A B (get3 ((ecpSubJ c a b s).run (fieldFld F) st).1 c) (P - Q) := by
  have hne : c ≠ a := by omega
  have e : get3 ((ecpSubJ c a b s).run (fieldFld F) st).1 c =
      (ecOps (curveF A B)).sub .n (get3 st a) (get3 st b) :=
    place_get3 (S := SW 3 3 3) (c := c) (a := a) (b := b) (s := s) (P := ecpSubJ 2 5 8 11) _
      (by place_map) (by inj_w) (by decide) (by decide) (by decide)
      (ag2 (cv := curveF A B) .n (by decide) hA hB)
  rw [e]; exact sub_correct h2 (.inl rfl) hp hq

/-- `ecpSubJ(c, a, b, ec, stack)`, `c == a` -/
theorem subJ_anywhere_ca (h2 : (2 : F) ≠ 0) {c b s : Nat} (hc : 2 ≤ c) (hb : 2 ≤ b)
    (hcb : c + 3 ≤ b ∨ b + 3 ≤ c) (hcs : c + 3 ≤ s) (hbs : b + 3 ≤ s) (st : Store F) (hA : st.get rA = A)
    (hB : st.get rB = B) {P Q : (Wc A B).Point} (hp : Rep3 A B (get3 st c) P) (hq : Rep3 A B (get3 st b) Q) :
    Rep3 A B (get3 ((ecpSubJ c c b s).run (fieldFld F) st).1 c) (P - Q) := by
  have e : get3 ((ecpSubJ c c b s).run (fieldFld F) st).1 c =
      (ecOps (curveF A B)).sub .ca (get3 st c) (get3 st b) :=
    place_get3 (S := SW 3 0 3) (c := c) (a := 0) (b := b) (s := s) (P := ecpSubJ 2 2 8 11) _
      (by place_map) (by inj_w) (by decide) (by decide) (by decide)
      (ag2 (cv := curveF A B) .ca (by decide) hA hB)
  rw [e]; exact sub_correct h2 (.inr (.inl rfl)) hp hq

/-- `ecpSubJ(c, a, b, ec, stack)`, `c == b` -/
theorem subJ_anywhere_cb (h2 : (2 : F) ≠ 0) {c a s : Nat} (hc : 2 ≤ c) (ha : 2 ≤ a)
    (hca : c + 3 ≤ a ∨ a + 3 ≤ c) (hcs : c + 3 ≤ s) (has : a + 3 ≤ s) (st : Store F) (hA : st.get rA = A)
    (hB : st.get rB = B) {P Q : (Wc A B).Point} (hp : Rep3 A B (get3 st a) P) (hq : Rep3 A B (get3 st c) Q) :
    Rep3 A B (get3 ((ecpSubJ c a c s).run (fieldFld F) st).1 c) (P - Q) := by
  have hne : c ≠ a := by omega
  have e : get3 ((ecpSubJ c a c s).run (fieldFld F) st).1 c =
      (ecOps (curveF A B)).sub .cb (get3 st a) (get3 st c) :=
    place_get3 (S := SW 3 3 0) (c := c) (a := a) (b := 0) (s := s) (P := ecpSubJ 2 5 2 11) _
      (by place_map) (by inj_w) (by decide) (by decide) (by decide)
      (ag2 (cv := curveF A B) .cb (by decide) hA hB)
  rw [e]; exact sub_correct h2 (.inr (.inr rfl)) hp hq

/-- `ecpSubJ(c, a, b, ec, stack)`, `a == b`, `c` distinct: the result is `O` -/
theorem subJ_anywhere_ab (h2 : (2 : F) ≠ 0) {c a s : Nat} (hc : 2 ≤ c) (ha : 2 ≤ a)
    (hca : c + 3 ≤ a ∨ a + 3 ≤ c) (hcs : c + 3 ≤ s) (has : a + 3 ≤ s) (st : Store F) (hA : st.get rA = A)
    (hB : st.get rB = B) {P : (Wc A B).Point} (hp : Rep3 A B (get3 st a) P) :
    Rep3 A B (get3 ((ecpSubJ c a a s).run (fieldFld F) st).1 c) 0 := by
  have hne : c ≠ a := by omega
  have e : get3 ((ecpSubJ c a a s).run (fieldFld F) st).1 c =
      (ecOps (curveF A B)).sub .ab (get3 st a) (get3 st a) :=
    place_get3 (S := SW 3 3 0) (c := c) (a := a) (b := 0) (s := s) (P := ecpSubJ 2 5 5 11) _
      (by place_map) (by inj_w) (by decide) (by decide) (by decide)
      (ag2 (cv := curveF A B) .ab (by decide) hA hB)
  rw [e]; exact sub_ab_correct h2 hp _
/-! ### non-vacuity: `y² = x³ + 1` over `ℚ`, placements different from the canonical one, garbage elsewhere -/

/-- `ecpSubJ(c, c, b)` with `c = 20`, `b = 30`, stack from `40`: `(2, 3) = (8 : 24 : 2)` minus `(0, 1)`;
    register 25 and the stack register 41 hold garbage -/
example : Rep3 (0 : ℚ) 1
    (get3 ((ecpSubJ 20 20 30 40).run (fieldFld ℚ)
      (upd (upd (put3 (put3 (base (curveF (0 : ℚ) 1)) 20 (8, 24, 2)) 30 (0, 1, 1)) 25 7) 41 99)).1 20)
    (.some 2 3 AddJ.ns23 - .some 0 1 AddJ.ns01) :=
  subJ_anywhere_ca (by norm_num) (by decide) (by decide) (by decide) (by decide) (by decide) _ rfl rfl
    AddJ.rep23 AddJ.rep01

/-- `ecpTplJ(b, a)` with `b = 9`, `a = 3`, stack from `15` (the blocks may be adjacent) -/
example : Rep3 (0 : ℚ) 1
    (get3 ((ecpTplJ 9 3 15).run (fieldFld ℚ) (upd (put3 (base (curveF (0 : ℚ) 1)) 3 (8, 24, 2)) 6 5)).1 9)
    (.some 2 3 Tpl.ns23 + .some 2 3 Tpl.ns23 + .some 2 3 Tpl.ns23) :=
  tplJ_anywhere_n (by norm_num) (by decide) (by decide) (by decide) (by decide) (by decide) _ rfl rfl
    Tpl.rep3_23

end Bee2V.C06

/-
C06, stage 2 — one-operand routines of `ec2.c`: symbolic execution on the canonical store, for the
aliasings `.n` (destination distinct from the operand) and `.ca` (in place); both give the same closed
form.  `ec2DblLD`/`ec2DblALD`: the three arms of the branch on the coefficient (`A = 1`: an addition,
`A = 0`: skipped, else: a multiplication) give the same closed form `… + A·Z₃`.
-/
import Bee2V.C06.LemmasBUn
namespace Bee2V.C06.BUn
open Bee2V.C06 WeierstrassCurve

set_option linter.unusedSectionVars false
set_option linter.unusedSimpArgs false
set_option linter.unusedVariables false
variable {F : Type} [Field F] [DecidableEq F] [CharP F 2] {A B : F}

/-! ### `ec2DblLD` -/

theorem dblLD_exec {al : Al} (hal : al = .n ∨ al = .ca) (X Y Z : F) (hz : Z ≠ 0) (hx : X ≠ 0) :
    run1 (curveB A B) ec2DblLD al (X, Y, Z) = dblBForm A X Y Z := by
  by_cases hA1 : A = 1
  · subst hA1
    rcases hal with rfl | rfl <;>
    simp [run1, curveB, mkCurve2, slotA, ec2DblLD, ec2DblLDTail, Prog.run, Prog.block, Instr.exec, upd, get3, put3,
      base, fieldFld, cX, cY, cZ, rA, rB, sc, sa, sk, hz, hx, dblBForm]
  · by_cases hA0 : A = 0
    · subst hA0
      rcases hal with rfl | rfl <;>
      simp [run1, curveB, mkCurve2, slotA, ec2DblLD, ec2DblLDTail, Prog.run, Prog.block, Instr.exec, upd, get3, put3,
        base, fieldFld, cX, cY, cZ, rA, rB, sc, sa, sk, hz, hx, dblBForm]
    · rcases hal with rfl | rfl <;>
      simp [run1, curveB, mkCurve2, slotA, ec2DblLD, ec2DblLDTail, Prog.run, Prog.block, Instr.exec, upd, get3, put3,
        base, fieldFld, cX, cY, cZ, rA, rB, sc, sa, sk, hz, hx, hA1, hA0, dblBForm]

theorem dblLD_exec_z0 {al : Al} (hal : al = .n ∨ al = .ca) (X Y : F) :
    (run1 (curveB A B) ec2DblLD al (X, Y, 0)).2.2 = 0 := by
  rcases hal with rfl | rfl <;>
  simp [run1, curveB, mkCurve2, slotA, ec2DblLD, ec2DblLDTail, Prog.run, Prog.block, Instr.exec, upd, get3, put3,
    base, fieldFld, cX, cY, cZ, rA, rB, sc, sa, sk]

theorem dblLD_exec_x0 {al : Al} (hal : al = .n ∨ al = .ca) (Y Z : F) :
    (run1 (curveB A B) ec2DblLD al (0, Y, Z)).2.2 = 0 := by
  by_cases hz : Z = 0 <;> rcases hal with rfl | rfl <;>
  simp [run1, curveB, mkCurve2, slotA, ec2DblLD, ec2DblLDTail, Prog.run, Prog.block, Instr.exec, upd, get3, put3,
    base, fieldFld, cX, cY, cZ, rA, rB, sc, sa, sk, hz]

/-! ### `ec2DblALD` -/

theorem dblALD_exec {al : Al} (hal : al = .n ∨ al = .ca) (X Y : F) (hx : X ≠ 0) :
    dbla2 (curveB A B) al (X, Y) = dblaBForm A B X Y := by
  by_cases hA1 : A = 1
  · subst hA1
    rcases hal with rfl | rfl <;>
    simp [dbla2, curveB, mkCurve2, slotA, ec2DblALD, ec2DblALDTail, Prog.run, Prog.block, Instr.exec, upd, get3, put2,
      base, fieldFld, cX, cY, cZ, rA, rB, sc, sa, sk, hx, dblaBForm]
  · by_cases hA0 : A = 0
    · subst hA0
      rcases hal with rfl | rfl <;>
      simp [dbla2, curveB, mkCurve2, slotA, ec2DblALD, ec2DblALDTail, Prog.run, Prog.block, Instr.exec, upd, get3,
        put2, base, fieldFld, cX, cY, cZ, rA, rB, sc, sa, sk, hx, dblaBForm]
    · rcases hal with rfl | rfl <;>
      simp [dbla2, curveB, mkCurve2, slotA, ec2DblALD, ec2DblALDTail, Prog.run, Prog.block, Instr.exec, upd, get3,
        put2, base, fieldFld, cX, cY, cZ, rA, rB, sc, sa, sk, hx, hA1, hA0, dblaBForm]

theorem dblALD_exec_x0 {al : Al} (hal : al = .n ∨ al = .ca) (Y : F) :
    (dbla2 (curveB A B) al (0, Y)).2.2 = 0 := by
  rcases hal with rfl | rfl <;>
  simp [dbla2, curveB, mkCurve2, slotA, ec2DblALD, ec2DblALDTail, Prog.run, Prog.block, Instr.exec, upd, get3, put2,
    base, fieldFld, cX, cY, cZ, rA, rB, sc, sa, sk]

/-! ### `ec2NegLD`, `ec2FromALD`, `ec2ToALD`, `ec2NegA`, `ec2IsOnA` -/

theorem negLD_exec {al : Al} (hal : al = .n ∨ al = .ca) (X Y Z : F) :
    run1 (curveB A B) ec2NegLD al (X, Y, Z) = (X, Y + X * Z, Z) := by
  rcases hal with rfl | rfl <;>
  simp [run1, curveB, mkCurve2, slotA, ec2NegLD, Prog.run, Prog.block, Instr.exec, upd, get3, put3, base,
    fieldFld, cX, cY, cZ, rA, rB, sc, sa, sk]

theorem fromALD_exec {al : Al} (hal : al = .n ∨ al = .ca) (X Y : F) :
    froma2 (curveB A B) al (X, Y) = (X, Y, 1) := by
  rcases hal with rfl | rfl <;>
  simp [froma2, curveB, mkCurve2, slotA, ec2FromALD, Prog.run, Prog.block, Instr.exec, upd, get3, put2, base,
    fieldFld, cX, cY, cZ, rA, rB, sc, sa, sk]

theorem toALD_exec {al : Al} (hal : al = .n ∨ al = .ca) (X Y Z : F) (hz : Z ≠ 0) :
    toa2 (curveB A B) al (X, Y, Z) = some (X * Z⁻¹, Y * (Z⁻¹ * Z⁻¹)) := by
  rcases hal with rfl | rfl <;>
  simp [toa2, curveB, mkCurve2, slotA, ec2ToALD, Prog.run, Prog.block, Instr.exec, upd, get2, put3, base,
    fieldFld, cX, cY, cZ, rA, rB, sc, sa, sk, hz]

theorem toALD_exec_z0 {al : Al} (hal : al = .n ∨ al = .ca) (X Y : F) :
    toa2 (curveB A B) al (X, Y, 0) = none := by
  rcases hal with rfl | rfl <;>
  simp [toa2, curveB, mkCurve2, slotA, ec2ToALD, Prog.run, Prog.block, Instr.exec, upd, get2, put3, base,
    fieldFld, cX, cY, cZ, rA, rB, sc, sa, sk]

theorem negA_exec {al : Al} (hal : al = .n ∨ al = .ca) (X Y : F) :
    negA2 (curveB A B) al (X, Y) = (X, X + Y) := by
  rcases hal with rfl | rfl <;>
  simp [negA2, curveB, mkCurve2, slotA, ec2NegA, Prog.run, Prog.block, Instr.exec, upd, get2, put2, base,
    fieldFld, cX, cY, cZ, rA, rB, sc, sa, sk]

theorem isOnA_exec (X Y : F) :
    isOnA2 (curveB A B) (X, Y) = decide (X * X * (X + A) + B = (X + Y) * Y) := by
  by_cases h : X * X * (X + A) + B = (X + Y) * Y <;>
  simp [isOnA2, curveB, mkCurve2, ec2IsOnA, Prog.run, Prog.block, Instr.exec, upd, put2, base,
    fieldFld, cX, cY, cZ, rA, rB, sc, sa, sk, h]

end Bee2V.C06.BUn

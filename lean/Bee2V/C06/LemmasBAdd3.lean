/-
C06, stage 2 — ec2AddLD: the algebra.  Lopez–Dahab triples versus affine points; the closed forms `addG`
(chord, add-2005-dl — uses the curve equations of both points) and `dblG` (tangent) represent the sums
Mathlib's group law gives.
-/
import Bee2V.C06.LemmasBAdd2
namespace Bee2V.C06.BAdd
open WeierstrassCurve
set_option linter.unusedSimpArgs false
set_option linter.unusedVariables false
set_option linter.unusedSectionVars false
variable {F : Type} [Field F] [DecidableEq F] [CharP F 2] {A B : F}

theorem rep3_O {X Y Z : F} {P : (Wb A B).Point} (hz : Z = 0) (h : RepB3 A B (X, Y, Z) P) : P = 0 := by
  subst hz; simpa [RepB3] using h

theorem rep3_zero {p : P3 F} (hz : p.2.2 = 0) : RepB3 A B p 0 := by
  simp [RepB3, hz]

theorem rep3_nz {X Y Z : F} {P : (Wb A B).Point} (hz : Z ≠ 0) (h : RepB3 A B (X, Y, Z) P) :
    ∃ x y, ∃ hns : (Wb A B).Nonsingular x y, X = x * Z ∧ Y = y * Z ^ 2 ∧ P = .some x y hns := by
  simp only [RepB3, hz, if_false] at h
  obtain ⟨hns, hP⟩ := h
  exact ⟨_, _, hns, by field_simp, by field_simp, hP⟩

theorem rep3_of_rep2 {p : P3 F} {x y : F} {P : (Wb A B).Point} (hz : p.2.2 ≠ 0) (h : RepB2 A B (x, y) P)
    (hx : p.1 = x * p.2.2) (hy : p.2.1 = y * p.2.2 ^ 2) : RepB3 A B p P := by
  simp only [RepB3, hz, if_false]
  exact RepB2_of_eq h (by rw [hx]; field_simp) (by rw [hy]; field_simp)

/-- the negation `ec2SubLD` writes into the scratch: `−(X : Y : Z) = (X : XZ + Y : Z)` -/
theorem rep3_neg {X Y Z : F} {P : (Wb A B).Point} (h : RepB3 A B (X, Y, Z) P) :
    RepB3 A B (X, X * Z + Y, Z) (-P) := by
  by_cases hz : Z = 0
  · have := rep3_O hz h; subst this; rw [neg_zero]; exact rep3_zero hz
  · obtain ⟨x, y, hns, rfl, rfl, rfl⟩ := rep3_nz hz h
    exact rep3_of_rep2 hz (negB_some hns) rfl (by ring)

theorem aa_affine (x1 Z1 x2 Z2 : F) :
    aa (x1 * Z1) Z2 + aa (x2 * Z2) Z1 = Z1 * Z2 * (x1 + x2) := by
  unfold aa; ring

theorem gg_affine (y1 Z1 y2 Z2 : F) :
    gg (y1 * Z1 ^ 2) Z2 + gg (y2 * Z2 ^ 2) Z1 = Z1 ^ 2 * Z2 ^ 2 * (y1 + y2) := by
  unfold gg; ring

/-- the curve equations of both points: the numerator of the chord's `x₃` is the one of add-2005-dl -/
theorem chord_num {x1 y1 x2 y2 : F} (hn1 : (Wb A B).Nonsingular x1 y1) (hn2 : (Wb A B).Nonsingular x2 y2) :
    (y1 + y2) ^ 2 + (y1 + y2) * (x1 + x2) + (x1 + x2) ^ 3 + A * (x1 + x2) ^ 2
      = x1 * y2 + x2 * y1 + x1 * x2 * (x1 + x2) := by
  have e1 := ((Wb_nonsingular A B x1 y1).1 hn1).1
  have e2 := ((Wb_nonsingular A B x2 y2).1 hn2).1
  apply CharTwo.add_eq_zero.1
  have h : (y1 + y2) ^ 2 + (y1 + y2) * (x1 + x2) + (x1 + x2) ^ 3 + A * (x1 + x2) ^ 2
      + (x1 * y2 + x2 * y1 + x1 * x2 * (x1 + x2))
      = (y1 ^ 2 + x1 * y1 + (x1 ^ 3 + A * x1 ^ 2 + B)) + (y2 ^ 2 + x2 * y2 + (x2 ^ 3 + A * x2 ^ 2 + B)) := by
    char2
  rw [h, e1, e2, CharTwo.add_self_eq_zero, CharTwo.add_self_eq_zero, add_zero]

/-- `x₃` of the chord with the numerator of add-2005-dl -/
theorem chord_x {x1 y1 x2 y2 : F} (hn1 : (Wb A B).Nonsingular x1 y1) (hn2 : (Wb A B).Nonsingular x2 y2)
    (hd : x1 + x2 ≠ 0) :
    ((y1 + y2) / (x1 + x2)) ^ 2 + (y1 + y2) / (x1 + x2) + x1 + x2 + A
      = (x1 * y2 + x2 * y1 + x1 * x2 * (x1 + x2)) / (x1 + x2) ^ 2 := by
  rw [← chord_num hn1 hn2]
  field_simp
  ring

theorem addG_X (x1 y1 Z1 x2 y2 Z2 : F) :
    (addG (x1 * Z1) (y1 * Z1 ^ 2) Z1 (x2 * Z2) (y2 * Z2 ^ 2) Z2).1
      = (Z1 * Z2) ^ 3 * (x1 * y2 + x2 * y1 + x1 * x2 * (x1 + x2)) := by
  simp only [addG]; ring

theorem addG_Z (x1 y1 Z1 x2 y2 Z2 : F) :
    (addG (x1 * Z1) (y1 * Z1 ^ 2) Z1 (x2 * Z2) (y2 * Z2 ^ 2) Z2).2.2
      = (Z1 * Z2) ^ 3 * (x1 + x2) ^ 2 := by
  simp only [addG]; char2

theorem addG_Y (x1 y1 Z1 x2 y2 Z2 : F) :
    (addG (x1 * Z1) (y1 * Z1 ^ 2) Z1 (x2 * Z2) (y2 * Z2 ^ 2) Z2).2.1
      = (Z1 * Z2) ^ 6 * (x1 + x2) * ((x1 + x2) ^ 2 * (x1 * y2 + x2 * y1)
          + (y1 + y2 + (x1 + x2)) * (x1 * y2 + x2 * y1 + x1 * x2 * (x1 + x2))) := by
  simp only [addG]; char2

end Bee2V.C06.BAdd

/-
C06, stage 2 — calling the programs of `Ec2` (ec2.c, Lopez–Dahab) on values: same canonical store
layout and aliasing conventions as `Wrap.lean` (`rA = 0`, `rB = 1`, `sc = 2`, `sa = 5`, `sb = 8`, `sk = 11`).
`ecOps2` is the function table installed by `ec2CreateLD` (`ec->tpl` stays 0 there and is never called
by `ecMulA`/`ecAddMulA`; the `tpl` field of the record is the identity placeholder).
-/
import Bee2V.C06.Ec2
import Bee2V.C06.Wrap
namespace Bee2V.C06

variable {F : Type}

/-- `ec2CreateLD`: only `f`, `A`, `B` are read by the routines -/
def mkCurve2 (f : Fld F) (A B : F) : Curve F := { f := f, A := A, B := B, a3 := false }

def froma2 (c : Curve F) (al : Al) (a : P2 F) : P3 F :=
  let ia := slotA al
  get3 ((ec2FromALD sc ia).run c.f (put2 (base c) ia a)).1 sc

def toa2 (c : Curve F) (al : Al) (a : P3 F) : Option (P2 F) :=
  let ia := slotA al
  let r := (ec2ToALD sc ia sk).run c.f (put3 (base c) ia a)
  if r.2 then some (get2 r.1 sc) else none

def dbla2 (c : Curve F) (al : Al) (a : P2 F) : P3 F :=
  let ia := slotA al
  get3 ((ec2DblALD sc ia sk).run c.f (put2 (base c) ia a)).1 sc

/-- the function table filled in by `ec2CreateLD` -/
def ecOps2 (c : Curve F) : EcOps (P3 F) (P2 F) where
  froma := froma2 c .n
  toa := toa2 c .n
  view p := (p.1, p.2.1)
  setO := (c.f.zero, c.f.zero, c.f.zero)
  neg := run1 c ec2NegLD
  dbl := run1 c ec2DblLD
  tpl := fun _ p => p
  dbla := dbla2 c .n
  add := run2 c ec2AddLD
  sub := run2 c ec2SubLD
  adda := run2A c ec2AddALD
  suba := run2A c ec2SubALD

def addAA2 (c : Curve F) := runAA c ec2AddAA
def subAA2 (c : Curve F) := runAA c ec2SubAA

def negA2 (c : Curve F) (al : Al) (a : P2 F) : P2 F :=
  let ia := slotA al
  get2 ((ec2NegA sc ia).run c.f (put2 (base c) ia a)).1 sc

/-- `ec2IsOnA` on field elements (the range test `ec2SeemsOnA` is in `isOnAW2`) -/
def isOnA2 (c : Curve F) (a : P2 F) : Bool :=
  ((ec2IsOnA sa sk).run c.f (put2 (base c) sa a)).2

/-- `ec2IsOnA` on words: `gf2IsIn(xa) && gf2IsIn(ya)` first.  `gf2IsIn` as repaired by
    docs/C06.fix-2.diff is "degree < m"; the unrepaired macro compares with the modulus as integers
    (`a < md`), which accepts some polynomials of degree m. -/
def isOnAW2 (m : Nat) (c : Curve Nat) (a : P2 Nat) : Bool :=
  if a.1 < 2 ^ m ∧ a.2 < 2 ^ m then isOnA2 c a else false

end Bee2V.C06

/-
C06 — executable model, part 2: the routines of `src/math/ecp.c` as programs.

Every definition is the C function statement by statement (the C comment `// t1 <- za^2` is the
instruction `.sqr t1 (cZ a)`).  Parameters are the base indices of the operands in the store and
`s`, the first free index of the scratch `stack`; temporaries `t1, t2, …` are `s, s+1, …` and a
callee gets the stack behind the caller's temporaries, as in the C.
-/
import Bee2V.C06.Core
namespace Bee2V.C06
open Instr Prog

/- `ecpSetO(a, ec)` = `xa <- 1; ya <- 1; za <- 0` is written out in the O-producing branches below (they write
   all three words since the commit "ec2/ecp doubling and addition set only Z when the result is O") -/

/-- `ecpFromAJ`: `[3n]b <- [2n]a` -/
def ecpFromAJ (b a : Nat) : Prog :=
  block [copy (cX b) (cX a), copy (cY b) (cY a), one (cZ b)] (ret true)

/-- `ecpToAJ`: `[2n]b <- [3n]a`, FALSE iff `a == O` -/
def ecpToAJ (b a s : Nat) : Prog :=
  let t1 := s; let t2 := s + 1
  ifz (cZ a) (ret false) <|
  block [inv t1 (cZ a), sqr t2 t1, mul (cX b) (cX a) t2, mul t2 t1 t2, mul (cY b) (cY a) t2] (ret true)

/-- `ecpNegJ` -/
def ecpNegJ (b a : Nat) : Prog :=
  block [copy (cX b) (cX a), neg (cY b) (cY a), copy (cZ b) (cZ a)] (ret true)

/-- `ecpDblJ` (dbl-1998-hnm) -/
def ecpDblJ (b a s : Nat) : Prog :=
  let t1 := s; let t2 := s + 1
  ifz (cZ a) (block [one (cX b), one (cY b), zero (cZ b)] (ret true)) <|
  ifz (cY a) (block [one (cX b), one (cY b), zero (cZ b)] (ret true)) <|
  block [
    sqr t1 (cZ a),
    mul (cZ b) (cY a) (cZ a),
    dbl (cZ b) (cZ b),
    sqr t1 t1,
    mul t1 rA t1,
    sqr t2 (cX a),
    add t1 t1 t2,
    dbl t2 t2,
    add t1 t1 t2,
    dbl (cY b) (cY a),
    sqr (cY b) (cY b),
    sqr t2 (cY b),
    half t2 t2,
    mul (cY b) (cY b) (cX a),
    sqr (cX b) t1,
    sub (cX b) (cX b) (cY b),
    sub (cX b) (cX b) (cY b),
    sub (cY b) (cY b) (cX b),
    mul (cY b) (cY b) t1,
    sub (cY b) (cY b) t2] (ret true)

/-- `ecpDblJA3` (dbl-1998-hnm2, A = -3) -/
def ecpDblJA3 (b a s : Nat) : Prog :=
  let t1 := s; let t2 := s + 1
  ifz (cZ a) (block [one (cX b), one (cY b), zero (cZ b)] (ret true)) <|
  ifz (cY a) (block [one (cX b), one (cY b), zero (cZ b)] (ret true)) <|
  block [
    sqr t1 (cZ a),
    mul (cZ b) (cY a) (cZ a),
    dbl (cZ b) (cZ b),
    sub t2 (cX a) t1,
    add t1 (cX a) t1,
    mul t2 t1 t2,
    dbl t1 t2,
    add t1 t1 t2,
    dbl (cY b) (cY a),
    sqr (cY b) (cY b),
    sqr t2 (cY b),
    half t2 t2,
    mul (cY b) (cY b) (cX a),
    sqr (cX b) t1,
    sub (cX b) (cX b) (cY b),
    sub (cX b) (cX b) (cY b),
    sub (cY b) (cY b) (cX b),
    mul (cY b) (cY b) t1,
    sub (cY b) (cY b) t2] (ret true)

/-- `ecpDblAJ` (mdbl-2007-bl): `[3n]b <- 2[2n]a` -/
def ecpDblAJ (b a s : Nat) : Prog :=
  let t1 := s; let t2 := s + 1; let t3 := s + 2; let t4 := s + 3
  ifz (cY a) (block [one (cX b), one (cY b), zero (cZ b)] (ret true)) <|
  block [
    sqr t1 (cX a),
    sqr t2 (cY a),
    sqr t3 t2,
    add t2 t2 (cX a),
    sqr t2 t2,
    sub t2 t2 t1,
    sub t2 t2 t3,
    dbl t2 t2,
    dbl t4 t1,
    add t4 t4 t1,
    add t4 t4 rA,
    dbl t1 t2,
    sqr (cX b) t4,
    sub (cX b) (cX b) t1,
    dbl (cZ b) (cY a),
    sub t2 t2 (cX b),
    mul (cY b) t4 t2,
    dbl t3 t3,
    dbl t3 t3,
    dbl t3 t3,
    sub (cY b) (cY b) t3] (ret true)

/-- `ecpAddJ` (add-2007-bl) with the branches `a == O`, `b == O`, `H == 0` (`a == ±b`);
    the doubling fall-through is `ecpDblJ(c, c == a ? b : a, ec, stack)` -/
def ecpAddJ (c a b s : Nat) : Prog :=
  let t1 := s; let t2 := s + 1; let t3 := s + 2; let t4 := s + 3
  ifz (cZ a) (block [copy (cX c) (cX b), copy (cY c) (cY b), copy (cZ c) (cZ b)] (ret true)) <|
  ifz (cZ b) (block [copy (cX c) (cX a), copy (cY c) (cY a), copy (cZ c) (cZ a)] (ret true)) <|
  block [
    sqr t1 (cZ a),
    sqr t2 (cZ b),
    mul t3 (cZ b) t2,
    mul t3 (cY a) t3,
    mul t4 (cZ a) t1,
    mul t4 (cY b) t4,
    add (cZ c) (cZ a) (cZ b),
    sqr (cZ c) (cZ c),
    sub (cZ c) (cZ c) t1,
    sub (cZ c) (cZ c) t2,
    mul t1 (cX b) t1,
    mul t2 (cX a) t2,
    sub t1 t1 t2] <|
  ifz t1
    (ifeq t3 t4 (ecpDblJ c (if c = a then b else a) (s + 4)) (block [one (cX c), one (cY c), zero (cZ c)] (ret true))) <|
  block [
    mul (cZ c) (cZ c) t1,
    sub t4 t4 t3,
    dbl t4 t4,
    dbl (cY c) t1,
    sqr (cY c) (cY c),
    mul t1 t1 (cY c),
    mul (cY c) t2 (cY c),
    dbl t2 (cY c),
    sqr (cX c) t4,
    sub (cX c) (cX c) t1,
    sub (cX c) (cX c) t2,
    sub (cY c) (cY c) (cX c),
    mul (cY c) t4 (cY c),
    dbl t3 t3,
    mul t3 t3 t1,
    sub (cY c) (cY c) t3] (ret true)

/-- `ecpAddAJ` (madd-2004-hmv): `[3n]c <- [3n]a + [2n]b` -/
def ecpAddAJ (c a b s : Nat) : Prog :=
  let t1 := s; let t2 := s + 1; let t3 := s + 2; let t4 := s + 3
  ifz (cZ a) (block [copy (cX c) (cX b), copy (cY c) (cY b), one (cZ c)] (ret true)) <|
  block [
    sqr t1 (cZ a),
    mul t2 t1 (cZ a),
    mul t1 t1 (cX b),
    mul t2 t2 (cY b),
    sub t1 t1 (cX a),
    sub t2 t2 (cY a)] <|
  ifz t1
    (ifz t2 (ecpDblAJ c b (s + 4)) (block [one (cX c), one (cY c), zero (cZ c)] (ret true))) <|
  block [
    mul (cZ c) t1 (cZ a),
    sqr t3 t1,
    mul t4 t1 t3,
    mul t3 t3 (cX a),
    dbl t1 t3,
    sqr (cX c) t2,
    sub (cX c) (cX c) t1,
    sub (cX c) (cX c) t4,
    sub t3 t3 (cX c),
    mul t3 t3 t2,
    mul t4 t4 (cY a),
    sub (cY c) t3 t4] (ret true)

/-- `ecpSubJ`: `t <- -b; c <- a + t` -/
def ecpSubJ (c a b s : Nat) : Prog :=
  let t := s
  block [copy (cX t) (cX b), neg (cY t) (cY b), copy (cZ t) (cZ b)] (ecpAddJ c a t (s + 3))

/-- `ecpSubAJ` -/
def ecpSubAJ (c a b s : Nat) : Prog :=
  let t := s
  block [copy (cX t) (cX b), neg (cY t) (cY b)] (ecpAddAJ c a t (s + 2))

/-- `ecpTplJ` (tpl-2007-bl) -/
def ecpTplJ (b a s : Nat) : Prog :=
  let t0 := s; let t1 := s + 1; let t2 := s + 2; let t3 := s + 3
  let t4 := s + 4; let t5 := s + 5; let t6 := s + 6; let t7 := s + 7
  block [
    sqr t0 (cX a),
    sqr t1 (cY a),
    sqr t2 (cZ a),
    sqr t3 t1,
    sqr t4 t2,
    mul t4 t4 rA,
    dbl t5 t0,
    add t5 t0 t5,
    add t4 t4 t5,
    sqr t5 t4,
    add t6 (cX a) t1,
    sqr t6 t6,
    sub t6 t6 t0,
    sub t6 t6 t3,
    dbl t7 t6,
    add t6 t6 t7,
    dbl t6 t6,
    sub t6 t6 t5,
    sqr t7 t6,
    dbl t3 t3,
    dbl t3 t3,
    dbl t3 t3,
    dbl t3 t3,
    add (cZ b) (cZ a) t6,
    sqr (cZ b) (cZ b),
    sub (cZ b) (cZ b) t2,
    sub (cZ b) (cZ b) t7,
    add t2 t4 t6,
    sqr t2 t2,
    sub t2 t2 t5,
    sub t2 t2 t7,
    sub t2 t2 t3,
    sub t3 t3 t2,
    mul t3 t2 t3,
    mul t6 t6 t7,
    sub t3 t3 t6,
    mul (cY b) (cY a) t3,
    dbl (cY b) (cY b),
    dbl (cY b) (cY b),
    dbl (cY b) (cY b),
    mul t1 t1 t2,
    dbl t1 t1,
    dbl t1 t1,
    mul (cX b) (cX a) t7,
    sub (cX b) (cX b) t1,
    dbl (cX b) (cX b),
    dbl (cX b) (cX b)] (ret true)

/-- `ecpTplJA3` (tpl-2007-bl-2, A = -3) -/
def ecpTplJA3 (b a s : Nat) : Prog :=
  let t1 := s; let t2 := s + 1; let t3 := s + 2
  let t4 := s + 3; let t5 := s + 4; let t6 := s + 5; let t7 := s + 6
  block [
    sqr t1 (cY a),
    sqr t2 (cZ a),
    sqr t3 t1,
    sub t4 (cX a) t2,
    add t5 (cX a) t2,
    mul t4 t4 t5,
    dbl t5 t4,
    add t4 t4 t5,
    sqr t5 t4,
    mul t6 (cX a) t1,
    dbl t7 t6,
    add t6 t6 t7,
    dbl t6 t6,
    dbl t6 t6,
    sub t6 t6 t5,
    sqr t7 t6,
    dbl t3 t3,
    dbl t3 t3,
    dbl t3 t3,
    dbl t3 t3,
    add (cZ b) (cZ a) t6,
    sqr (cZ b) (cZ b),
    sub (cZ b) (cZ b) t2,
    sub (cZ b) (cZ b) t7,
    add t2 t4 t6,
    sqr t2 t2,
    sub t2 t2 t5,
    sub t2 t2 t7,
    sub t2 t2 t3,
    sub t3 t3 t2,
    mul t3 t2 t3,
    mul t6 t6 t7,
    sub t3 t3 t6,
    mul (cY b) (cY a) t3,
    dbl (cY b) (cY b),
    dbl (cY b) (cY b),
    dbl (cY b) (cY b),
    mul t1 t1 t2,
    dbl t1 t1,
    dbl t1 t1,
    mul (cX b) (cX a) t7,
    sub (cX b) (cX b) t1,
    dbl (cX b) (cX b),
    dbl (cX b) (cX b)] (ret true)

/-- `ecpIsOnA` after the range test `zmIsIn(xa) && zmIsIn(ya)` (done on words, see `Wrap`) -/
def ecpIsOnA (a s : Nat) : Prog :=
  let t1 := s; let t2 := s + 1
  block [
    sqr t1 (cX a),
    add t1 t1 rA,
    mul t1 t1 (cX a),
    add t1 t1 rB,
    sqr t2 (cY a)] <|
  ifeq t1 t2 (ret true) (ret false)

/-- `ecpNegA` -/
def ecpNegA (b a : Nat) : Prog :=
  block [copy (cX b) (cX a), neg (cY b) (cY a)] (ret true)

/-- common tail of `ecpAddAA`/`ecpSubAA`: `λ = t2/t1`, chord-and-tangent, unload -/
def ecpAATail (c a b s : Nat) : Prog :=
  let t1 := s; let t2 := s + 1; let t3 := s + 2
  block [
    div t2 t2 t1,
    sqr t1 t2,
    sub t1 t1 (cX a),
    sub t1 t1 (cX b),
    sub t3 (cX a) t1,
    mul t2 t2 t3,
    sub t2 t2 (cY a),
    copy (cX c) t1,
    copy (cY c) t2] (ret true)

/-- the tangent branch shared by both: `t2 <- 3 xa^2 + A`, `t1 <- 2 ya` -/
def ecpAATangent (c a b s : Nat) : Prog :=
  let t1 := s; let t2 := s + 1
  block [
    sqr t1 (cX a),
    dbl t2 t1,
    add t2 t2 t1,
    add t2 t2 rA,
    dbl t1 (cY a)] (ecpAATail c a b s)

/-- `ecpAddAA`: FALSE iff `a + b == O` -/
def ecpAddAA (c a b s : Nat) : Prog :=
  let t1 := s; let t2 := s + 1
  ifeq (cX a) (cX b)
    (ifeq (cY a) (cY b)
      (ifz (cY b) (ret false) (ecpAATangent c a b s))
      (ret false))
    (block [sub t1 (cX a) (cX b), sub t2 (cY a) (cY b)] (ecpAATail c a b s))

/-- `ecpSubAA`: FALSE iff `a - b == O` -/
def ecpSubAA (c a b s : Nat) : Prog :=
  let t1 := s; let t2 := s + 1
  ifeq (cX a) (cX b)
    (ifeq (cY a) (cY b)
      (ret false)
      (ecpAATangent c a b s))
    (block [sub t1 (cX a) (cX b), add t2 (cY a) (cY b)] (ecpAATail c a b s))

/-- `ecpSWU`: `a` is one register, `b` an affine point; the two exponents are computed by the C
    from the modulus: `s = p - 2`, then `s - (p >> 2) = (p-1) - (p+1)/4`.
    `u` is a scratch register holding the field unity for `qrAddUnity`. -/
def ecpSWU (p : Nat) (b a s : Nat) : Prog :=
  let t := s; let x1 := s + 1; let x2 := s + 2; let y := s + 3; let sr := s + 4; let u := s + 5
  let e1 := p - 2
  let e2 := e1 - p / 4
  block [
    sqr t a,
    neg t t,
    sqr x2 t,
    add x2 x2 t,
    mul x1 x2 rA,
    pow x1 x1 e1,
    one u,
    add x2 x2 u,
    mul x1 x1 x2,
    mul x1 x1 rB,
    neg x1 x1,
    sqr x2 x1,
    mul x2 x2 x1,
    mul y x1 rA,
    add y y x2,
    add y y rB,
    mul x2 x1 t,
    pow t y e2,
    sqr sr a,
    mul sr sr a,
    mul sr sr y,
    sqr (cX b) t,
    mul (cX b) (cX b) y] <|
  ifone (cX b)
    (block [copy (cX b) x1, mul (cY b) t y] (ret true))
    (block [copy (cX b) x2, mul (cY b) t sr] (ret true))

end Bee2V.C06

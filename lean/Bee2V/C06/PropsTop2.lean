/-
C06, stage 2 — composition for binary curves: the function table that `ec2CreateLD` installs
(over any field of characteristic 2) implements Mathlib's group of points of
`y² + xy = x³ + Ax² + B`, hence `ecMulA`, `ecHasOrderA`, `ecAddMulA` (ec.c) run on it return `d • P`,
`Σ dᵢ • Pᵢ` and FALSE exactly for the point at infinity, for every scalar, length and window width.
(What the driver executes for binary curves, `gf2Fld`, is tied to gf2.c by the differential run only:
there is no simulation theorem `gf2Fld ~ field` — see docs/C06.md.)
-/
import Bee2V.C06.PropsMul
import Bee2V.C06.PropsBUn
import Bee2V.C06.PropsBAdd
import Bee2V.C06.PropsBAddA
import Bee2V.C06.PropsBAA
import Bee2V.C06.LemmasTop2
import Bee2V.C06.Core2
import Mathlib.Algebra.Field.ZMod
namespace Bee2V.C06
open WeierstrassCurve

variable {F : Type} [Field F] [DecidableEq F] [CharP F 2] {A B : F}

/-- the table of `ec2CreateLD` is a correct operation table for the group of points -/
theorem ecOps2_correct : (ecOps2 (curveB A B)).Correct (RepB3 A B) (RepB2 A B) where
  froma h := fromaB_correct (Or.inl rfl) h
  view_froma {a g} h := by rw [viewB_froma]; exact h
  toa_none h := (toaB_correct (Or.inl rfl) h).1
  toa_some h hb := (toaB_correct (Or.inl rfl) h).2 _ hb
  setO := setOB_correct
  dbl_ca h := dblB_correct (Or.inr rfl) h
  dbla h := dblaB_correct (Or.inl rfl) h
  add_n hp hq := addB_correct (Or.inl rfl) hp hq
  add_ca hp hq := addB_correct (Or.inr (Or.inl rfl)) hp hq
  sub_ca hp hq := subB_correct (Or.inr (Or.inl rfl)) hp hq
  adda_n hp hq := addaB_correct (Or.inl rfl) hp hq
  adda_ca hp hq := addaB_correct (Or.inr (Or.inl rfl)) hp hq
  suba_ca hp hq := subaB_correct (Or.inr (Or.inl rfl)) hp hq

theorem ecMulA_curveB {a : P2 F} {P : (Wb A B).Point} (ha : RepB2 A B a P) (W m d : Nat) :
    (ecMulA (ecOps2 (curveB A B)) W a d m = none ↔ d • P = 0) ∧
    ∀ b, ecMulA (ecOps2 (curveB A B)) W a d m = some b → RepB2 A B b (d • P) :=
  ecMulA_spec ecOps2_correct ha W m d

theorem ecHasOrderA_curveB {a : P2 F} {P : (Wb A B).Point} (ha : RepB2 A B a P) (W m q : Nat) :
    ecHasOrderA (ecOps2 (curveB A B)) W a q m = true ↔ q • P = 0 :=
  ecHasOrderA_spec ecOps2_correct ha W m q

theorem ecAddMulA_curveB (args : List (P2 F × Nat)) (Ps : List (Wb A B).Point)
    (h : List.Forall₂ (fun ad P => RepB2 A B ad.1 P) args Ps) (W : Nat) :
    let s := (List.zipWith (fun ad P => ad.2 • P) args Ps).sum
    (ecAddMulA (ecOps2 (curveB A B)) W args = none ↔ s = 0) ∧
    ∀ b, ecAddMulA (ecOps2 (curveB A B)) W args = some b → RepB2 A B b s :=
  ecAddMulA_spec ecOps2_correct args Ps h W


/-! ### what the driver runs for binary curves, under the explicit arithmetic assumption

FULL STATEMENT WANTED: for `f = gf2Fld md m` with `md` an irreducible trinomial/pentanomial of degree `m`,
the table `ecOps2 (mkCurve2 f A B)` is correct for the group of points over GF(2^m).
PROVED (`…_partial`): the same for ANY executable record `f` of field operations and ANY map `φ` into a
field `F` of characteristic 2 such that `f` simulates `fieldFld F` through `φ` on values satisfying `R`
(`Sim.FldSim`).  MISSING: the instance `Sim.FldSim (gf2Fld md m) (fieldFld F) φ (· < 2^m)` — i.e. that xor,
carry-less multiplication with reduction and the polynomial extended Euclid of `Core2.lean` are the
arithmetic of a field (needs the irreducibility of the modulus); this is covered by the differential run
against gf2.c only. -/

section sim
variable {α : Type} {f : Fld α} {φ : α → F} {R : α → Prop}

theorem ecOps2_sim_correct_partial (H : Sim.FldSim f (fieldFld F) φ R) {A B : α} (hA : R A) (hB : R B) :
    (ecOps2 (mkCurve2 f A B)).Correct
      (fun q P => Sim.R3 R q ∧ RepB3 (φ A) (φ B) (Sim.map3 φ q) P)
      (fun q P => Sim.R2 R q ∧ RepB2 (φ A) (φ B) (Sim.map2 φ q) P) := by
  have C : Sim.CurveSim (mkCurve2 f A B) (curveB (φ A) (φ B)) φ R := Sim.mkCurve2_sim H hA hB
  have hc := ecOps2_correct (A := φ A) (B := φ B)
  refine
    { froma := ?_, view_froma := ?_, toa_none := ?_, toa_some := ?_, setO := ?_, dbl_ca := ?_,
      dbla := ?_, add_n := ?_, add_ca := ?_, sub_ca := ?_, adda_n := ?_, adda_ca := ?_,
      suba_ca := ?_ }
  · rintro a g ⟨hr, hg⟩
    have s := Sim.froma2_sim C .n hr
    exact ⟨s.1, by show RepB3 _ _ (Sim.map3 φ (froma2 _ .n a)) _; rw [s.2]; exact hc.froma hg⟩
  · rintro a g ⟨hr, hg⟩
    have s := Sim.froma2_sim C .n hr
    refine ⟨⟨s.1.1, s.1.2.1⟩, ?_⟩
    show RepB2 _ _ ((ecOps2 (curveB (φ A) (φ B))).view (Sim.map3 φ (froma2 (mkCurve2 f A B) .n a))) g
    rw [s.2]; exact hc.view_froma hg
  · rintro q g ⟨hr, hg⟩
    have s := Sim.toa2_sim C .n hr
    rw [← hc.toa_none hg]
    show toa2 (mkCurve2 f A B) .n q = none ↔ toa2 (curveB (φ A) (φ B)) .n (Sim.map3 φ q) = none
    rw [← s.2, Option.map_eq_none_iff]
  · rintro q g b ⟨hr, hg⟩ hb
    have s := Sim.toa2_sim C .n hr
    refine ⟨s.1 _ hb, hc.toa_some hg ?_⟩
    show toa2 (curveB (φ A) (φ B)) .n (Sim.map3 φ q) = some (Sim.map2 φ b)
    rw [← s.2, show toa2 (mkCurve2 f A B) .n q = some b from hb]; rfl
  · refine ⟨⟨H.zero.1, H.zero.1, H.zero.1⟩, ?_⟩
    show RepB3 (φ A) (φ B) (φ f.zero, φ f.zero, φ f.zero) 0
    rw [H.zero.2]; exact hc.setO
  · rintro q g ⟨hr, hg⟩
    have s := Sim.run1_sim C ec2DblLD .ca hr
    exact ⟨s.1, by show RepB3 _ _ (Sim.map3 φ (run1 _ ec2DblLD .ca q)) _; rw [s.2]; exact hc.dbl_ca hg⟩
  · rintro a g ⟨hr, hg⟩
    have s := Sim.dbla2_sim C .n hr
    exact ⟨s.1, by show RepB3 _ _ (Sim.map3 φ (dbla2 _ .n a)) _; rw [s.2]; exact hc.dbla hg⟩
  · rintro q r g h ⟨hr, hg⟩ ⟨hr', hh⟩
    have s := Sim.run2_sim C ec2AddLD .n hr hr'
    exact ⟨s.1, by show RepB3 _ _ (Sim.map3 φ (run2 _ ec2AddLD .n q r)) _; rw [s.2]; exact hc.add_n hg hh⟩
  · rintro q r g h ⟨hr, hg⟩ ⟨hr', hh⟩
    have s := Sim.run2_sim C ec2AddLD .ca hr hr'
    exact ⟨s.1, by show RepB3 _ _ (Sim.map3 φ (run2 _ ec2AddLD .ca q r)) _; rw [s.2]; exact hc.add_ca hg hh⟩
  · rintro q r g h ⟨hr, hg⟩ ⟨hr', hh⟩
    have s := Sim.run2_sim C ec2SubLD .ca hr hr'
    exact ⟨s.1, by show RepB3 _ _ (Sim.map3 φ (run2 _ ec2SubLD .ca q r)) _; rw [s.2]; exact hc.sub_ca hg hh⟩
  · rintro q r g h ⟨hr, hg⟩ ⟨hr', hh⟩
    have s := Sim.run2A_sim C ec2AddALD .n hr hr'
    exact ⟨s.1, by show RepB3 _ _ (Sim.map3 φ (run2A _ ec2AddALD .n q r)) _; rw [s.2]; exact hc.adda_n hg hh⟩
  · rintro q r g h ⟨hr, hg⟩ ⟨hr', hh⟩
    have s := Sim.run2A_sim C ec2AddALD .ca hr hr'
    exact ⟨s.1, by show RepB3 _ _ (Sim.map3 φ (run2A _ ec2AddALD .ca q r)) _; rw [s.2]; exact hc.adda_ca hg hh⟩
  · rintro q r g h ⟨hr, hg⟩ ⟨hr', hh⟩
    have s := Sim.run2A_sim C ec2SubALD .ca hr hr'
    exact ⟨s.1, by show RepB3 _ _ (Sim.map3 φ (run2A _ ec2SubALD .ca q r)) _; rw [s.2]; exact hc.suba_ca hg hh⟩

/-- `ecMulA` on what the driver runs for a binary curve, given the arithmetic assumption `H` -/
theorem ecMulA_gf2_partial (H : Sim.FldSim f (fieldFld F) φ R) {A B : α} (hA : R A) (hB : R B)
    {a : P2 α} {P : (Wb (φ A) (φ B)).Point} (hr : Sim.R2 R a) (ha : RepB2 (φ A) (φ B) (Sim.map2 φ a) P)
    (W m d : Nat) :
    (ecMulA (ecOps2 (mkCurve2 f A B)) W a d m = none ↔ d • P = 0) ∧
    ∀ b, ecMulA (ecOps2 (mkCurve2 f A B)) W a d m = some b →
      Sim.R2 R b ∧ RepB2 (φ A) (φ B) (Sim.map2 φ b) (d • P) :=
  ecMulA_spec (ecOps2_sim_correct_partial H hA hB) ⟨hr, ha⟩ W m d

end sim

/-! ## non-vacuity -/

/-- the assumption of the `_partial` theorems is satisfiable (identity simulation of a field by itself) -/
example : Sim.FldSim (fieldFld (ZMod 2)) (fieldFld (ZMod 2)) id (fun _ => True) :=
  { zero := ⟨trivial, rfl⟩, one := ⟨trivial, rfl⟩, add := fun _ _ _ _ => ⟨trivial, rfl⟩,
    sub := fun _ _ _ _ => ⟨trivial, rfl⟩, mul := fun _ _ _ _ => ⟨trivial, rfl⟩,
    neg := fun _ _ => ⟨trivial, rfl⟩, dbl := fun _ _ => ⟨trivial, rfl⟩, half := fun _ _ => ⟨trivial, rfl⟩,
    inv := fun _ _ => ⟨trivial, rfl⟩, pow := fun _ _ _ => ⟨trivial, rfl⟩, eqb := fun _ _ _ _ => rfl }

-- `y² + xy = x³ + 1` over GF(2): cyclic of order 4 generated by (1, 0); (0, 1) has order two
example : ecMulA (ecOps2 (curveB (0 : ZMod 2) 1)) 64 ((1 : ZMod 2), (0 : ZMod 2)) 2 1 = some (0, 1) := by decide +kernel
example : ecMulA (ecOps2 (curveB (0 : ZMod 2) 1)) 64 ((1 : ZMod 2), (0 : ZMod 2)) 4 1 = none := by decide +kernel
-- the same point on what the driver runs: GF(2^4) = GF(2)[x]/(x^4 + x + 1), modulus 0b10011
example : ecMulA (ecOps2 (mkCurve2 (gf2Fld 19 4) 0 1)) 64 (1, 0) 3 1 = some (1, 1) := by decide +kernel
example : ecHasOrderA (ecOps2 (mkCurve2 (gf2Fld 19 4) 0 1)) 64 (1, 0) 4 1 = true := by decide +kernel
example : ecAddMulA (ecOps2 (mkCurve2 (gf2Fld 19 4) 0 1)) 64 [((1, 0), 3), ((1, 0), 3)] = some (0, 1) := by
  decide +kernel

end Bee2V.C06

/-
C06 — property theorems for the affine routines `ecpAddAA`, `ecpSubAA` (ecp.c): for ALL pairs of
curve points (chord, tangent, inverse points, points of order 2) and every aliasing of the three
buffers the routine returns FALSE exactly when the result is `O` and otherwise writes the affine
coordinates of the sum / difference in Mathlib's group of points of `y² = x³ + Ax + B`.
`addAA c = runAA c ecpAddAA`, `subAA c = runAA c ecpSubAA` (Wrap.lean); `none` = FALSE.
-/
import Bee2V.C06.LemmasAA
namespace Bee2V.C06
open WeierstrassCurve

-- `subAA_correct`/`subAA_same_correct` keep the hypotheses `(2 : F) ≠ 0` (and `Rep2 A B a P`) of the
-- common interface although their proofs do not need them
set_option linter.unusedVariables false
variable {F : Type} [Field F] [DecidableEq F] {A B : F}

/-- `ecpAddAA(c, a, b)`, `a` and `b` in different buffers (`c` distinct, `c == a` or `c == b`) -/
theorem addAA_correct (h2 : (2 : F) ≠ 0) {al : Al} (hal : al = .n ∨ al = .ca ∨ al = .cb)
    {a b : P2 F} {P Q : (Wc A B).Point} (ha : Rep2 A B a P) (hb : Rep2 A B b Q) :
    (addAA (curveF A B) al a b = none ↔ P + Q = 0) ∧
    ∀ r, addAA (curveF A B) al a b = some r → Rep2 A B r (P + Q) := by
  obtain ⟨x1, y1⟩ := a
  obtain ⟨x2, y2⟩ := b
  obtain ⟨h1, rfl⟩ := ha
  obtain ⟨h2', rfl⟩ := hb
  rw [addAA, AA.addAA_exec al hal]
  exact AA.addSpec_correct h2 h1 h2'

/-- `ecpAddAA(c, a, a)` (`a == b`; `c` distinct or `c == a == b`): doubling -/
theorem addAA_same_correct (h2 : (2 : F) ≠ 0) {al : Al} (hal : al = .ab ∨ al = .abc)
    {a : P2 F} {P : (Wc A B).Point} (ha : Rep2 A B a P) (b : P2 F) :
    (addAA (curveF A B) al a b = none ↔ P + P = 0) ∧
    ∀ r, addAA (curveF A B) al a b = some r → Rep2 A B r (P + P) := by
  obtain ⟨x1, y1⟩ := a
  obtain ⟨h1, rfl⟩ := ha
  rw [addAA, AA.addAA_exec_same al hal]
  exact AA.dblSpec_correct h2 h1

/-- `ecpSubAA(c, a, b)`, `a` and `b` in different buffers (`c` distinct, `c == a` or `c == b`);
    includes `a = -b`, where `a - b = 2a` is computed by the tangent at `a` -/
theorem subAA_correct (h2 : (2 : F) ≠ 0) {al : Al} (hal : al = .n ∨ al = .ca ∨ al = .cb)
    {a b : P2 F} {P Q : (Wc A B).Point} (ha : Rep2 A B a P) (hb : Rep2 A B b Q) :
    (subAA (curveF A B) al a b = none ↔ P - Q = 0) ∧
    ∀ r, subAA (curveF A B) al a b = some r → Rep2 A B r (P - Q) := by
  obtain ⟨x1, y1⟩ := a
  obtain ⟨x2, y2⟩ := b
  obtain ⟨h1, rfl⟩ := ha
  obtain ⟨h2', rfl⟩ := hb
  rw [subAA, AA.subAA_exec al hal]
  exact AA.subSpec_correct h1 h2'

/-- `ecpSubAA(c, a, a)` (`a == b`) returns FALSE (`P - P = 0`) -/
theorem subAA_same_correct (h2 : (2 : F) ≠ 0) {al : Al} (hal : al = .ab ∨ al = .abc)
    {a : P2 F} {P : (Wc A B).Point} (ha : Rep2 A B a P) (b : P2 F) :
    subAA (curveF A B) al a b = none := by
  rw [subAA, AA.subAA_exec_same al hal]

/-! ## non-vacuity: `y² = x³ + 1` over `ℚ`, points `(0, 1)`, `(2, ±3)`, `(-1, 0)` (order 2) -/

/-- chord, `c == a`: `(0,1) + (2,3) = (-1,0)` -/
example : ∃ (a b : P2 ℚ) (P Q : (Wc (0 : ℚ) 1).Point), (2 : ℚ) ≠ 0 ∧ Rep2 0 1 a P ∧ Rep2 0 1 b Q ∧
    addAA (curveF 0 1) .ca a b = some (-1, 0) ∧ P + Q ≠ 0 :=
  have h1 : (Wc (0 : ℚ) 1).Nonsingular 0 1 := (Wc_nonsingular ..).2 ⟨by norm_num, by norm_num⟩
  have h3 : (Wc (0 : ℚ) 1).Nonsingular 2 3 := (Wc_nonsingular ..).2 ⟨by norm_num, by norm_num⟩
  have e : addAA (curveF (0 : ℚ) 1) .ca (0, 1) (2, 3) = some (-1, 0) := by
    rw [addAA, AA.addAA_exec _ (by simp)]; norm_num [AA.addSpec, AA.res]
  ⟨(0, 1), (2, 3), _, _, by norm_num, ⟨h1, rfl⟩, ⟨h3, rfl⟩, e,
    fun h0 => by
      have := (addAA_correct (by norm_num) (.inr (.inl rfl)) ⟨h1, rfl⟩ ⟨h3, rfl⟩).1.2 h0
      rw [e] at this; cases this⟩

/-- inverse points, `c == b`: `(2,3) + (2,-3) = O`, FALSE -/
example : ∃ (a b : P2 ℚ) (P Q : (Wc (0 : ℚ) 1).Point), (2 : ℚ) ≠ 0 ∧ Rep2 0 1 a P ∧ Rep2 0 1 b Q ∧
    addAA (curveF 0 1) .cb a b = none :=
  have h3 : (Wc (0 : ℚ) 1).Nonsingular 2 3 := (Wc_nonsingular ..).2 ⟨by norm_num, by norm_num⟩
  have h4 : (Wc (0 : ℚ) 1).Nonsingular 2 (-3) := (Wc_nonsingular ..).2 ⟨by norm_num, by norm_num⟩
  ⟨(2, 3), (2, -3), _, _, by norm_num, ⟨h3, rfl⟩, ⟨h4, rfl⟩, by
    rw [addAA, AA.addAA_exec _ (by simp)]; norm_num [AA.addSpec, AA.res]⟩

/-- doubling, `a == b == c`: `2 (0,1) = (0,-1)`; a point of order 2: `2 (-1,0) = O`, FALSE -/
example : ∃ (a a' : P2 ℚ) (P P' : (Wc (0 : ℚ) 1).Point), (2 : ℚ) ≠ 0 ∧ Rep2 0 1 a P ∧ Rep2 0 1 a' P' ∧
    addAA (curveF 0 1) .abc a (7, 7) = some (0, -1) ∧ addAA (curveF 0 1) .ab a' (7, 7) = none :=
  have h1 : (Wc (0 : ℚ) 1).Nonsingular 0 1 := (Wc_nonsingular ..).2 ⟨by norm_num, by norm_num⟩
  have h0 : (Wc (0 : ℚ) 1).Nonsingular (-1) 0 := (Wc_nonsingular ..).2 ⟨by norm_num, by norm_num⟩
  ⟨(0, 1), (-1, 0), _, _, by norm_num, ⟨h1, rfl⟩, ⟨h0, rfl⟩,
    by rw [addAA, AA.addAA_exec_same _ (by simp)]; norm_num [AA.dblSpec, AA.res, AA.tan],
    by rw [addAA, AA.addAA_exec_same _ (by simp)]; norm_num [AA.dblSpec, AA.res, AA.tan]⟩

/-- subtraction: chord `(0,1) - (2,-3) = (-1,0)`; `a = -b`: `(0,1) - (0,-1) = 2 (0,1) = (0,-1)`;
    `a = b` in different buffers: FALSE -/
example : ∃ (a b b' : P2 ℚ) (P Q Q' : (Wc (0 : ℚ) 1).Point), (2 : ℚ) ≠ 0 ∧
    Rep2 0 1 a P ∧ Rep2 0 1 b Q ∧ Rep2 0 1 b' Q' ∧
    subAA (curveF 0 1) .n a b = some (-1, 0) ∧ subAA (curveF 0 1) .ca a b' = some (0, -1) ∧
    subAA (curveF 0 1) .cb a a = none :=
  have h1 : (Wc (0 : ℚ) 1).Nonsingular 0 1 := (Wc_nonsingular ..).2 ⟨by norm_num, by norm_num⟩
  have h2 : (Wc (0 : ℚ) 1).Nonsingular 0 (-1) := (Wc_nonsingular ..).2 ⟨by norm_num, by norm_num⟩
  have h4 : (Wc (0 : ℚ) 1).Nonsingular 2 (-3) := (Wc_nonsingular ..).2 ⟨by norm_num, by norm_num⟩
  ⟨(0, 1), (2, -3), (0, -1), _, _, _, by norm_num, ⟨h1, rfl⟩, ⟨h4, rfl⟩, ⟨h2, rfl⟩,
    by rw [subAA, AA.subAA_exec _ (by simp)]; norm_num [AA.subSpec, AA.res],
    by rw [subAA, AA.subAA_exec _ (by simp)]; norm_num [AA.subSpec, AA.res, AA.tan],
    by rw [subAA, AA.subAA_exec _ (by simp)]; norm_num [AA.subSpec, AA.res]⟩

/-- `ecpSubAA(c, a, a)`: hypotheses satisfiable -/
example : ∃ (a : P2 ℚ) (P : (Wc (0 : ℚ) 1).Point), (2 : ℚ) ≠ 0 ∧ Rep2 0 1 a P ∧
    subAA (curveF 0 1) .abc a (7, 7) = none :=
  have h1 : (Wc (0 : ℚ) 1).Nonsingular 0 1 := (Wc_nonsingular ..).2 ⟨by norm_num, by norm_num⟩
  ⟨(0, 1), _, by norm_num, ⟨h1, rfl⟩, subAA_same_correct (by norm_num) (.inr rfl) ⟨h1, rfl⟩ _⟩

end Bee2V.C06

/-
C06 — simulation, part 2: `natFld p` (canonical residues as naturals, what the driver runs) is related
to `fieldFld (ZMod p)` by `Nat.cast` on the values `< p`, for every prime `p ≠ 2`.
-/
import Mathlib.Data.ZMod.Basic
import Mathlib.FieldTheory.Finite.Basic
import Bee2V.C06.Spec
import Bee2V.C06.LemmasSim
namespace Bee2V.C06.Sim

/-- square-and-multiply computes the power -/
theorem powMod_eq (a e p : Nat) : powMod a e p = a ^ e % p := by
  induction e using Nat.strong_induction_on with
  | _ e ih =>
    rw [powMod]
    split
    · next h => subst h; simp
    · next h =>
      have hlt : e / 2 < e := by omega
      have hr := ih (e / 2) hlt
      simp only [hr]
      have he : e = e / 2 + e / 2 + e % 2 := by omega
      split
      · next h1 =>
        conv_rhs => rw [he, h1, pow_succ, pow_add]
        rw [Nat.mul_mod (a ^ (e / 2) % p * (a ^ (e / 2) % p) % p) a p, Nat.mod_mod,
          ← Nat.mul_mod (a ^ (e / 2)) (a ^ (e / 2)) p, ← Nat.mul_mod]
      · next h1 =>
        have h0 : e % 2 = 0 := by omega
        conv_rhs => rw [he, h0, Nat.add_zero, pow_add]
        rw [← Nat.mul_mod]

/-! ### the names used by the property theorems -/

/-- image of a store of residues in `ZMod p` -/
def castStore (p : Nat) (st : Store Nat) : Store (ZMod p) := ⟨fun i => (st.get i : ZMod p)⟩

/-- every register is a canonical residue -/
def Store.Red (p : Nat) (st : Store Nat) : Prop := ∀ i, st.get i < p

def cast3 (p : Nat) (q : P3 Nat) : P3 (ZMod p) := ((q.1 : ZMod p), (q.2.1 : ZMod p), (q.2.2 : ZMod p))
def cast2 (p : Nat) (q : P2 Nat) : P2 (ZMod p) := ((q.1 : ZMod p), (q.2 : ZMod p))
def Red3 (p : Nat) (q : P3 Nat) : Prop := q.1 < p ∧ q.2.1 < p ∧ q.2.2 < p
def Red2 (p : Nat) (q : P2 Nat) : Prop := q.1 < p ∧ q.2 < p

theorem castStore_eq (p : Nat) (st : Store Nat) : castStore p st = mapStore (fun a : Nat => (a : ZMod p)) st := rfl
theorem cast3_eq (p : Nat) (q : P3 Nat) : cast3 p q = map3 (fun a : Nat => (a : ZMod p)) q := rfl
theorem cast2_eq (p : Nat) (q : P2 Nat) : cast2 p q = map2 (fun a : Nat => (a : ZMod p)) q := rfl
theorem Red3_eq (p : Nat) (q : P3 Nat) : Red3 p q = R3 (fun a => a < p) q := rfl
theorem Red2_eq (p : Nat) (q : P2 Nat) : Red2 p q = R2 (fun a => a < p) q := rfl

variable (p : Nat) [Fact p.Prime]

theorem p_pos : 0 < p := (Fact.out : p.Prime).pos

theorem two_ne_zero' (hp2 : p ≠ 2) : (2 : ZMod p) ≠ 0 := by
  intro h
  have h2 : ((2 : Nat) : ZMod p) = 0 := by exact_mod_cast h
  rw [ZMod.natCast_eq_zero_iff] at h2
  have := (Nat.prime_dvd_prime_iff_eq (Fact.out : p.Prime) Nat.prime_two).1 h2
  exact hp2 this

theorem cast_inj {a b : Nat} (ha : a < p) (hb : b < p) : ((a : ZMod p) = (b : ZMod p)) ↔ a = b := by
  rw [ZMod.natCast_eq_natCast_iff', Nat.mod_eq_of_lt ha, Nat.mod_eq_of_lt hb]

theorem half_cast (hp2 : p ≠ 2) (a k : Nat) (h : ((2 * k : Nat) : ZMod p) = (a : ZMod p)) :
    (k : ZMod p) = (a : ZMod p) / 2 := by
  rw [eq_div_iff (two_ne_zero' p hp2), ← h]
  push_cast
  ring

theorem inv_cast (hp2 : p ≠ 2) (a : ZMod p) : a ^ (p - 2) = a⁻¹ := by
  have hp : 2 ≤ p := (Fact.out : p.Prime).two_le
  by_cases ha : a = 0
  · subst ha
    have : p - 2 ≠ 0 := by omega
    rw [zero_pow this, inv_zero]
  · have h1 : a ^ (p - 2) * a = 1 := by
      rw [← pow_succ]
      have : p - 2 + 1 = p - 1 := by omega
      rw [this]
      exact ZMod.pow_card_sub_one_eq_one ha
    exact eq_inv_of_mul_eq_one_left h1

/-- `natFld p` simulates `fieldFld (ZMod p)` through the cast, on residues `< p` -/
theorem natFld_sim (hp2 : p ≠ 2) :
    FldSim (natFld p) (fieldFld (ZMod p)) (fun a : Nat => (a : ZMod p)) (fun a => a < p) := by
  have hp := p_pos p
  refine
    { zero := ⟨hp, Nat.cast_zero⟩
      one := ⟨Nat.mod_lt _ hp, ?_⟩
      add := fun a b _ _ => ⟨Nat.mod_lt _ hp, ?_⟩
      sub := fun a b _ _ => ⟨Nat.mod_lt _ hp, ?_⟩
      mul := fun a b _ _ => ⟨Nat.mod_lt _ hp, ?_⟩
      neg := fun a _ => ⟨Nat.mod_lt _ hp, ?_⟩
      dbl := fun a _ => ⟨Nat.mod_lt _ hp, ?_⟩
      half := fun a ha => ?_
      inv := fun a _ => ⟨?_, ?_⟩
      pow := fun a e _ => ⟨?_, ?_⟩
      eqb := fun a b ha hb => ?_ }
  · show ((1 % p : Nat) : ZMod p) = 1
    rw [ZMod.natCast_mod, Nat.cast_one]
  · show (((a + b) % p : Nat) : ZMod p) = a + b
    rw [ZMod.natCast_mod, Nat.cast_add]
  · show (((a + (p - b % p)) % p : Nat) : ZMod p) = a - b
    rw [ZMod.natCast_mod, Nat.cast_add, Nat.cast_sub (Nat.mod_lt _ hp).le, ZMod.natCast_mod,
      ZMod.natCast_self]
    ring
  · show ((a * b % p : Nat) : ZMod p) = a * b
    rw [ZMod.natCast_mod, Nat.cast_mul]
  · show (((p - a % p) % p : Nat) : ZMod p) = -a
    rw [ZMod.natCast_mod, Nat.cast_sub (Nat.mod_lt _ hp).le, ZMod.natCast_mod, ZMod.natCast_self]
    ring
  · show (((a + a) % p : Nat) : ZMod p) = a + a
    rw [ZMod.natCast_mod, Nat.cast_add]
  · show (if a % 2 = 0 then a / 2 else (a + p) / 2) < p ∧
      (((if a % 2 = 0 then a / 2 else (a + p) / 2 : Nat)) : ZMod p) = (a : ZMod p) / 2
    have hodd : p % 2 = 1 := by
      rcases (Fact.out : p.Prime).eq_two_or_odd with h | h
      · exact absurd h hp2
      · exact h
    split
    · next h =>
      refine ⟨by omega, half_cast p hp2 a _ ?_⟩
      have : 2 * (a / 2) = a := by omega
      rw [this]
    · next h =>
      refine ⟨by omega, half_cast p hp2 a _ ?_⟩
      have : 2 * ((a + p) / 2) = a + p := by omega
      rw [this, Nat.cast_add, ZMod.natCast_self, add_zero]
  · show powMod a (p - 2) p < p
    rw [powMod_eq]; exact Nat.mod_lt _ hp
  · show ((powMod a (p - 2) p : Nat) : ZMod p) = (a : ZMod p)⁻¹
    rw [powMod_eq, ZMod.natCast_mod, Nat.cast_pow, inv_cast p hp2]
  · show powMod a e p < p
    rw [powMod_eq]; exact Nat.mod_lt _ hp
  · show ((powMod a e p : Nat) : ZMod p) = (a : ZMod p) ^ e
    rw [powMod_eq, ZMod.natCast_mod, Nat.cast_pow]
  · show (a == b) = decide ((a : ZMod p) = (b : ZMod p))
    rw [Bool.eq_iff_iff, beq_iff_eq, decide_eq_true_iff, cast_inj p ha hb]

/-- the two curve descriptions built by `ecpCreateJ` from the same coefficients -/
theorem curve_sim (hp2 : p ≠ 2) {A B : Nat} (hA : A < p) (hB : B < p) :
    CurveSim (mkCurve (natFld p) A B) (mkCurve (fieldFld (ZMod p)) (A : ZMod p) (B : ZMod p))
      (fun a : Nat => (a : ZMod p)) (fun a => a < p) :=
  mkCurve_sim (natFld_sim p hp2) hA hB

/-- for the non-vacuity examples (used as a local instance) -/
theorem fact_prime_7 : Fact (Nat.Prime 7) := ⟨by decide⟩

end Bee2V.C06.Sim

/-
C06, stage 2 — one-operand routines of `ec2.c` (`ec2NegLD`, `ec2DblLD`, `ec2DblALD`, `ec2FromALD`,
`ec2ToALD`, `ec2NegA`, `ec2IsOnA`; Lopez–Dahab coordinates `x = X/Z`, `y = Y/Z²`): `RepB3`/`RepB2`
bookkeeping and the doubling formulas (dbl-2005-l, mdbl-2005-dl) against Mathlib's group law on
`(Wb A B).Point` in characteristic 2.
-/
import Bee2V.C06.Spec2
import Mathlib.Tactic.Ring
import Mathlib.Tactic.FieldSimp
import Mathlib.Tactic.LinearCombination
namespace Bee2V.C06.BUn
open Bee2V.C06 WeierstrassCurve

set_option linter.unusedSectionVars false
set_option linter.unusedSimpArgs false
set_option linter.unusedVariables false
variable {F : Type} [Field F] [DecidableEq F] [CharP F 2] {A B : F}

/-! ### `RepB3` / `RepB2` bookkeeping -/

theorem repB3_O {p : P3 F} (h : p.2.2 = 0) : RepB3 A B p 0 := by
  unfold RepB3; simp [h]

theorem repB3_z0 {X Y Z : F} {P : (Wb A B).Point} (hp : RepB3 A B (X, Y, Z) P) (hz : Z = 0) : P = 0 := by
  unfold RepB3 at hp; simpa [hz] using hp

theorem repB3_nz {X Y Z : F} {P : (Wb A B).Point} (hp : RepB3 A B (X, Y, Z) P) (hz : Z ≠ 0) :
    ∃ h : (Wb A B).Nonsingular (X / Z) (Y / Z ^ 2), P = .some (X / Z) (Y / Z ^ 2) h := by
  unfold RepB3 at hp; simp only [hz, if_false] at hp; exact hp

theorem repB3_of_repB2 {X Y Z : F} {P : (Wb A B).Point} (hz : Z ≠ 0)
    (h : RepB2 A B (X / Z, Y / Z ^ 2) P) : RepB3 A B (X, Y, Z) P := by
  unfold RepB3; simp only [hz, if_false]; exact h

/-! ### the doubling formulas -/

/-- output of `ec2DblLD` (dbl-2005-l): `Z₃ = (XZ)²`, `C = Y + X²`, `D = XZ·C`, `X₃ = C² + D + A·Z₃`,
    `Y₃ = X⁴·Z₃ + (D + Z₃)·X₃` (all three arms of the branch on `A` compute this) -/
def dblBForm (A X Y Z : F) : P3 F :=
  ((Y + X * X) * (Y + X * X) + X * Z * (Y + X * X) + A * (X * Z * (X * Z)),
   X * X * (X * X) * (X * Z * (X * Z)) +
     (X * Z * (Y + X * X) + X * Z * (X * Z)) *
       ((Y + X * X) * (Y + X * X) + X * Z * (Y + X * X) + A * (X * Z * (X * Z))),
   X * Z * (X * Z))

/-- `X₃/Z₃ = λ² + λ + A`, `Y₃/Z₃² = x² + (λ + 1)x₃` with `λ = x + y/x`; the curve equation is not used -/
theorem dblB_math {X Y Z : F} {P : (Wb A B).Point} (hp : RepB3 A B (X, Y, Z) P)
    (hz : Z ≠ 0) (hx : X ≠ 0) : RepB3 A B (dblBForm A X Y Z) (P + P) := by
  obtain ⟨h, rfl⟩ := repB3_nz hp hz
  have hx' : X / Z ≠ 0 := div_ne_zero hx hz
  have hZ' : X * Z * (X * Z) ≠ 0 := mul_ne_zero (mul_ne_zero hx hz) (mul_ne_zero hx hz)
  refine repB3_of_repB2 hZ' (RepB2_of_eq (addB_tangent h hx') ?_ ?_)
  · field_simp; char2
  · field_simp; char2

/-- output of `ec2DblALD` (mdbl-2005-dl, `Z₁ = 1`): `Z₃ = x²`, `X₃ = x⁴ + B`,
    `Y₃ = (y² + B + A·Z₃)·X₃ + B·Z₃` -/
def dblaBForm (A B X Y : F) : P3 F :=
  (X * X * (X * X) + B,
   (Y * Y + B + A * (X * X)) * (X * X * (X * X) + B) + B * (X * X),
   X * X)

/-- here the curve equation is used: `B = y² + xy + x³ + Ax²` -/
theorem dblaB_math {X Y : F} {P : (Wb A B).Point} (hp : RepB2 A B (X, Y) P)
    (hx : X ≠ 0) : RepB3 A B (dblaBForm A B X Y) (P + P) := by
  obtain ⟨h, rfl⟩ := hp
  have e := ((Wb_nonsingular A B X Y).1 h).1
  have hB : B = Y ^ 2 + X * Y + X ^ 3 + A * X ^ 2 := by
    have : B + (Y ^ 2 + X * Y + X ^ 3 + A * X ^ 2) = 0 := by
      have e' : B + (Y ^ 2 + X * Y + X ^ 3 + A * X ^ 2) = (Y ^ 2 + X * Y) + (X ^ 3 + A * X ^ 2 + B) := by ring
      rw [e', e]; exact CharTwo.add_self_eq_zero _
    exact CharTwo.add_eq_zero.1 this
  have hZ' : X * X ≠ 0 := mul_ne_zero hx hx
  refine repB3_of_repB2 hZ' (RepB2_of_eq (addB_tangent h hx) ?_ ?_)
  · simp only [dblaBForm]; rw [hB]; field_simp; char2
  · simp only [dblaBForm]; rw [hB]; field_simp; char2

end Bee2V.C06.BUn

/-
C06 — property theorems for projective tripling: `ecpTplJ` (tpl-2007-bl, any `A`), `ecpTplJA3`
(tpl-2007-bl-2, `A = −3`) and the `tpl` entry installed by `ecpCreateJ`.  Neither routine has a
special-case branch; each returns `3P = P + P + P` of Mathlib's group law on `(Wc A B).Point` for
EVERY input: `P = O` (`Z = 0 ⇒ Z₃ = 0`), `P` of order two (`Y = 0`, the output represents `P`),
`P` of order three (`2P = −P`, `Z₃ = 2ZE = 0`), generic `P`; destination distinct from the operand
(`al = .n`) and in place (`al = .ca`); non-normalised `Z`; over any field with `2 ≠ 0`
(`3 ≠ 0` is not needed).
-/
import Bee2V.C06.LemmasTpl3
namespace Bee2V.C06
open WeierstrassCurve

set_option linter.unusedSectionVars false
set_option linter.unusedVariables false
variable {F : Type} [Field F] [DecidableEq F] {A B : F}

/-- `ecpTplJ` (any `A`) -/
theorem tplJ_correct {al : Al} {p : P3 F} {P : (Wc A B).Point} (h2 : (2 : F) ≠ 0)
    (hal : al = .n ∨ al = .ca) (hp : Rep3 A B p P) :
    Rep3 A B (run1 (curveF A B) ecpTplJ al p) (P + P + P) :=
  Tpl.tplJ_ok h2 hal hp

/-- generic point `(2, 3)` of order six as `(8 : 24 : 2)`, in place -/
example : Rep3 (0 : ℚ) 1 (run1 (curveF 0 1) ecpTplJ .ca (8, 24, 2))
    (.some 2 3 Tpl.ns23 + .some 2 3 Tpl.ns23 + .some 2 3 Tpl.ns23) :=
  tplJ_correct (by norm_num) (Or.inr rfl) Tpl.rep3_23
/-- order two -/
example : Rep3 (0 : ℚ) 1 (run1 (curveF 0 1) ecpTplJ .n (-4, 0, 2))
    (.some (-1) 0 Tpl.nsm10 + .some (-1) 0 Tpl.nsm10 + .some (-1) 0 Tpl.nsm10) :=
  tplJ_correct (by norm_num) (Or.inl rfl) Tpl.rep3_m10
/-- order three -/
example : Rep3 (0 : ℚ) 1 (run1 (curveF 0 1) ecpTplJ .ca (0, 8, 2))
    (.some 0 1 Tpl.ns01 + .some 0 1 Tpl.ns01 + .some 0 1 Tpl.ns01) :=
  tplJ_correct (by norm_num) (Or.inr rfl) Tpl.rep3_01
/-- `O` -/
example : Rep3 (0 : ℚ) 1 (run1 (curveF 0 1) ecpTplJ .ca (5, 7, 0)) (0 + 0 + 0) :=
  tplJ_correct (by norm_num) (Or.inr rfl) Tpl.rep3_O

/-- `ecpTplJA3` (`A = −3`) -/
theorem tplJA3_correct {al : Al} {p : P3 F} {P : (Wc A B).Point} (h2 : (2 : F) ≠ 0) (hA : A = -3)
    (hal : al = .n ∨ al = .ca) (hp : Rep3 A B p P) :
    Rep3 A B (run1 (curveF A B) ecpTplJA3 al p) (P + P + P) :=
  Tpl.tplJA3_ok h2 hA hal hp

example : Rep3 (-3 : ℚ) 3 (run1 (curveF (-3) 3) ecpTplJA3 .ca (4, 8, 2))
    (.some 1 1 Tpl.ns11 + .some 1 1 Tpl.ns11 + .some 1 1 Tpl.ns11) :=
  tplJA3_correct (by norm_num) rfl (Or.inr rfl) Tpl.rep3_11

/-- `ec->tpl` as installed by `ecpCreateJ` (`ecpTplJA3` iff `A == −3`, else `ecpTplJ`) -/
theorem tpl_correct {al : Al} {p : P3 F} {P : (Wc A B).Point} (h2 : (2 : F) ≠ 0)
    (hal : al = .n ∨ al = .ca) (hp : Rep3 A B p P) :
    Rep3 A B ((ecOps (curveF A B)).tpl al p) (P + P + P) :=
  Tpl.tpl_ok h2 hal hp

example : Rep3 (0 : ℚ) 1 ((ecOps (curveF 0 1)).tpl .ca (8, 24, 2))
    (.some 2 3 Tpl.ns23 + .some 2 3 Tpl.ns23 + .some 2 3 Tpl.ns23) :=
  tpl_correct (by norm_num) (Or.inr rfl) Tpl.rep3_23
/-- the `A = −3` selection -/
example : Rep3 (-3 : ℚ) 3 ((ecOps (curveF (-3) 3)).tpl .n (4, 8, 2))
    (.some 1 1 Tpl.ns11 + .some 1 1 Tpl.ns11 + .some 1 1 Tpl.ns11) :=
  tpl_correct (by norm_num) (Or.inl rfl) Tpl.rep3_11

/-- the result is `O` (`Z₃ = 0`) exactly when `3P = O`: `P = O` or `P` of order three -/
theorem tpl_Z_eq_zero_iff {al : Al} {p : P3 F} {P : (Wc A B).Point} (h2 : (2 : F) ≠ 0)
    (hal : al = .n ∨ al = .ca) (hp : Rep3 A B p P) :
    ((ecOps (curveF A B)).tpl al p).2.2 = 0 ↔ P + P + P = 0 := by
  have h := tpl_correct h2 hal hp
  unfold Rep3 at h
  constructor
  · intro hz; rwa [if_pos hz] at h
  · intro h0
    by_contra hz
    rw [if_neg hz] at h
    obtain ⟨hn, e⟩ := h
    exact Affine.Point.some_ne_zero hn (e ▸ h0)

/-- order three, in place: `Z₃ = 0` -/
example : ((ecOps (curveF (0 : ℚ) 1)).tpl .ca (0, 8, 2)).2.2 = 0 ↔
    (Affine.Point.some 0 1 Tpl.ns01 + .some 0 1 Tpl.ns01 + .some 0 1 Tpl.ns01 : (Wc (0 : ℚ) 1).Point) = 0 :=
  tpl_Z_eq_zero_iff (by norm_num) (Or.inr rfl) Tpl.rep3_01

end Bee2V.C06

/-
C06 — tie of the hand-written model `Ec2.lean` (curves over GF(2^m), `src/math/ec2.c`) to the C source.

`Bee2V/Gen/C06Ec2.lean` is regenerated from `/repo/src/math/ec2.c` on every run by
`xlate/x_c06_ecp.py:generate_ec2` (clang AST, fail-closed).  Every theorem states that the program the
translator read off the C function IS the hand-written program of `Ec2.lean`, for all operand indices
(same instructions, order, operands, branch structure, tail calls, scratch offsets), by `rfl`.
Outside the tie: the word-level range test `ec2SeemsOnA` at the head of `ec2IsOnA` (skipped by exact
pattern; the wrapper does it).
-/
import Bee2V.Gen.C06Ec2
import Bee2V.C06.Ec2
namespace Bee2V.C06

/-! ### conversions, negation -/

theorem gen_ec2FromALD : Gen.ec2FromALD = ec2FromALD := rfl
theorem gen_ec2ToALD : Gen.ec2ToALD = ec2ToALD := rfl
theorem gen_ec2NegLD : Gen.ec2NegLD = ec2NegLD := rfl
theorem gen_ec2NegA : Gen.ec2NegA = ec2NegA := rfl

/-- non-vacuity: the generated programs, literally -/
example : Gen.ec2ToALD 2 5 11 =
    .ifz 7 (.ret false) (.seq (.inv 11 7) (.seq (.mul 2 5 11) (.seq (.sqr 11 11)
      (.seq (.mul 3 6 11) (.ret true))))) := rfl
example : Gen.ec2NegLD 2 5 11 = Prog.block [.mul 11 5 7, .copy 2 5, .copy 3 6, .copy 4 7, .add 3 3 11]
    (.ret true) := rfl
example : Gen.ec2NegA 2 5 = Prog.block [.copy 2 5, .add 3 5 6] (.ret true) := rfl

/-! ### doubling -/

theorem gen_ec2DblLD : Gen.ec2DblLD = ec2DblLD := rfl
theorem gen_ec2DblALD : Gen.ec2DblALD = ec2DblALD := rfl

/-- non-vacuity: two tests, 10 instructions, the three-way branch on `A`, with tails of 3 / 2 / 4 -/
example : ∃ is, Gen.ec2DblLD 2 5 11 = .ifz 7 (Prog.block [.one 2, .zero 3, .zero 4] (.ret true))
    (.ifz 5 (Prog.block [.one 2, .zero 3, .zero 4] (.ret true)) (Prog.block is
      (.ifone 0 (Prog.block [.add 2 2 4, .mul 11 11 2, .add 3 3 11] (.ret true))
        (.ifz 0 (Prog.block [.mul 11 11 2, .add 3 3 11] (.ret true))
          (Prog.block [.mul 12 0 4, .add 2 2 12, .mul 11 11 2, .add 3 3 11] (.ret true)))))) ∧
    is.length = 10 := ⟨_, rfl, rfl⟩
example : ∃ is k₁ k₂ k₃, Gen.ec2DblALD 2 5 11 = .ifz 5 (Prog.block [.one 2, .zero 3, .zero 4] (.ret true))
    (Prog.block is (.ifone 0 k₁ (.ifz 0 k₂ k₃))) ∧ is.length = 5 := ⟨_, _, _, _, rfl, rfl⟩

/-! ### addition, subtraction (projective, mixed) -/

theorem gen_ec2AddLD : Gen.ec2AddLD = ec2AddLD := rfl
theorem gen_ec2AddALD : Gen.ec2AddALD = ec2AddALD := rfl
theorem gen_ec2SubLD : Gen.ec2SubLD = ec2SubLD := rfl
theorem gen_ec2SubALD : Gen.ec2SubALD = ec2SubALD := rfl

/-- non-vacuity: shape of the generated addition (6 instructions, `a == ±b` test with the doubling
    fall-through on the stack behind the six temporaries, then 20 instructions) -/
example : ∃ k₁ k₂ hd tl e, Gen.ec2AddLD 2 5 8 11 = .ifz 7 k₁ (.ifz 10 k₂ (Prog.block hd
    (.ifeq 11 12 (.ifeq 13 14 (Gen.ec2DblLD 2 5 17) e) (Prog.block tl (.ret true))))) ∧
    hd.length = 6 ∧ tl.length = 20 := ⟨_, _, _, _, _, rfl, rfl, rfl⟩
example : ∃ k₁ hd e md k₂ k₃ k₄, Gen.ec2AddALD 2 5 8 11 = .ifz 7 k₁ (Prog.block hd
    (.ifz 12 (.ifz 11 (Gen.ec2DblALD 2 8 15) e) (Prog.block md (.ifone 0 k₂ (.ifz 0 k₃ k₄))))) ∧
    hd.length = 5 ∧ md.length = 6 := ⟨_, _, _, _, _, _, _, rfl, rfl, rfl⟩
example : Gen.ec2SubLD 2 5 8 11 = Prog.block [.mul 12 8 10, .add 12 12 9, .copy 11 8, .copy 13 10]
    (Gen.ec2AddLD 2 5 11 14) := rfl
example : Gen.ec2SubALD 2 5 8 11 = Prog.block [.copy 11 8, .copy 12 9, .add 12 12 11]
    (Gen.ec2AddALD 2 5 11 13) := rfl

/-! ### affine routines -/

theorem gen_ec2IsOnA : Gen.ec2IsOnA = ec2IsOnA := rfl
theorem gen_ec2AddAA : Gen.ec2AddAA = ec2AddAA := rfl
theorem gen_ec2SubAA : Gen.ec2SubAA = ec2SubAA := rfl

example : Gen.ec2IsOnA 5 11 = Prog.block [.sqr 11 5, .add 12 5 0, .mul 11 11 12, .add 11 11 1,
    .add 12 5 6, .mul 12 12 6] (.ifeq 11 12 (.ret true) (.ret false)) := rfl
example : ∃ tg ch, Gen.ec2AddAA 2 5 8 11 =
    .ifeq 5 8 (.ifeq 6 9 (.ifz 5 (.ret false) (Prog.block tg (.ret true))) (.ret false))
      (Prog.block ch (.ret true)) ∧ tg.length = 10 ∧ ch.length = 12 := ⟨_, _, rfl, rfl, rfl⟩
/-- the inlined `ec2NegA(t, b, ec)` with `t = s`, then the tail call on the stack `s + 2` -/
example : Gen.ec2SubAA 2 5 8 11 = Prog.block [.copy 11 8, .add 12 8 9] (Gen.ec2AddAA 2 5 11 13) := rfl

/-! ### `ec2CreateLD`: the interface table -/

theorem gen_createLD_table : Gen.createLD_table =
    [("froma", "ec2FromALD"), ("toa", "ec2ToALD"), ("neg", "ec2NegLD"), ("add", "ec2AddLD"),
     ("adda", "ec2AddALD"), ("sub", "ec2SubLD"), ("suba", "ec2SubALD"), ("dbl", "ec2DblLD"),
     ("dbla", "ec2DblALD")] := rfl

theorem gen_createLD_ops :
    Gen.createLD_froma = ec2FromALD ∧ Gen.createLD_toa = ec2ToALD ∧ Gen.createLD_neg = ec2NegLD ∧
    Gen.createLD_add = ec2AddLD ∧ Gen.createLD_adda = ec2AddALD ∧ Gen.createLD_sub = ec2SubLD ∧
    Gen.createLD_suba = ec2SubALD ∧ Gen.createLD_dbl = ec2DblLD ∧ Gen.createLD_dbla = ec2DblALD :=
  ⟨rfl, rfl, rfl, rfl, rfl, rfl, rfl, rfl, rfl⟩

end Bee2V.C06

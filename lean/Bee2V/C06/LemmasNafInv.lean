/-
C06 — NAF layer, part 2: the loop invariant `NafInv` of `wwNAF` and its preservation (`nafInv_step`):
`d = Σ_{j<k} e_j 2^j + 2^k (window + 2^w (d >>> (w+k)))`, `window ≤ 2^w`, and at exit the first code is odd, positive.
-/
import Bee2V.C06.LemmasNaf
namespace Bee2V.C06.MulL
open Bee2V.C06

theorem testBit_top {d i : Nat} (h : bitSize d = i + 1) : d.testBit i = true := by
  unfold bitSize at h
  split at h
  · omega
  · rename_i hd
    have : d.log2 = i := by omega
    rw [← this]; exact Nat.testBit_log2 hd

theorem inBit_eq (d i H : Nat) :
    inBit d (bitSize d) i H = H * (if d.testBit i = true then 1 else 0) := by
  unfold inBit
  by_cases h : d.testBit i = true
  · simp [h, testBit_lt_bitSize h]
  · simp [h]

theorem inBit_le (d i H : Nat) : inBit d (bitSize d) i H ≤ H := by
  rw [inBit_eq]; split <;> simp

theorem inBit_of_ge {d i H : Nat} (h : bitSize d ≤ i) : inBit d (bitSize d) i H = 0 := by
  unfold inBit; simp [Nat.not_lt.2 h]

/-- loop invariant of `wwNAF` (loop index `i = w + st.size`) -/
structure NafInv (d w : Nat) (st : NafSt) : Prop where
  win : st.window ≤ 2 ^ w
  val : (d : Int) = nafVal (decode w st.naf st.size 0) +
    2 ^ st.size * ((st.window : Int) + 2 ^ w * ((d >>> (w + st.size) : Nat) : Int))
  top : st.window = 0 → bitSize d ≤ w + st.size →
    0 < st.size ∧ getBits st.naf 0 w % 2 = 1 ∧ getBits st.naf 0 w < 2 ^ (w - 1)

theorem val_step (V X win e q H bt D' dd : Int)
    (h : dd = V + X * (win + 2 * H * (bt + 2 * D'))) (hw : win = e + 2 * q) :
    dd = (e * X + V) + (X * 2) * ((q + H * bt) + 2 * H * D') := by
  linear_combination h + X * hw

theorem sval_pos {w c H : Nat} (hH : H = 2 ^ (w - 1)) (h : c < H) : sval w c = c := by
  subst hH; simp [sval, h]
theorem sval_neg {w c H : Nat} (hH : H = 2 ^ (w - 1)) (h : H ≤ c) :
    sval w c = -((c - H : Nat) : Int) := by
  subst hH; simp [sval, Nat.not_lt.2 h]

theorem odd_lt_of_le {x H : Nat} (h : x ≤ 2 * (2 * H)) (hodd : x % 2 = 1) : x < 2 * (2 * H) := by
  omega

theorem nafInv_step {d w : Nat} (hw : 2 ≤ w) {st : NafSt} (inv : NafInv d w st)
    (hnt : ¬(st.window = 0 ∧ w + st.size ≥ bitSize d)) :
    NafInv d w (nafStep d w (bitSize d) (w + st.size) st) := by
  obtain ⟨h1, h2, h3⟩ := two_pow_split hw
  obtain ⟨H, hH⟩ : ∃ H, H = 2 ^ (w - 1) := ⟨_, rfl⟩
  obtain ⟨H2, hH2⟩ : ∃ H2, H2 = 2 ^ (w - 2) := ⟨_, rfl⟩
  rw [← hH] at h1 h2; rw [← hH2] at h2 h3
  have hval := inv.val
  have hwin := inv.win
  rw [shr_succ d (w + st.size)] at hval
  have hib := inBit_eq d (w + st.size) H
  have hile := inBit_le d (w + st.size) H
  generalize hbt : (if d.testBit (w + st.size) = true then 1 else 0) = bt at hval hib
  have hwI : (2 ^ w : Int) = 2 * (H : Int) := by exact_mod_cast h1
  rw [hwI] at hval
  push_cast at hval
  rcases nafStep_cases d (bitSize d) (w + st.size) hw st inv.win H hH with
    ⟨hpar, heq⟩ | ⟨hpar, hlt, heq⟩ | ⟨hpar, hge, hi, heq⟩ | ⟨hpar, hge, hi, heq⟩
  · -- zero digit
    rw [heq]
    refine ⟨?_, ?_, ?_⟩
    · show st.window / 2 + _ ≤ _; omega
    · show (d : Int) = nafVal (decode w (st.naf * 2) (st.size + 1) 0) + 2 ^ (st.size + 1) * _
      rw [decode_push0 w _ _ (by omega), nafVal, decode_length, hib, pow_succ, hwI,
        ← Nat.add_assoc]
      push_cast
      exact val_step _ _ _ 0 _ _ _ _ _ hval (by omega)
    · intro hz hb
      exfalso
      simp only at hz hb
      have hw0 : st.window = 0 := by omega
      have : bitSize d = w + st.size + 1 := by omega
      have htb := testBit_top this
      rw [hib, ← hbt, htb] at hz
      simp at hz; omega
  · -- positive digit
    have hc : st.window < 2 ^ w := by omega
    rw [heq]
    refine ⟨?_, ?_, ?_⟩
    · show inBit _ _ _ _ ≤ _; omega
    · show (d : Int) = nafVal (decode w (st.naf * 2 ^ w + st.window) (st.size + 1) 0) +
        2 ^ (st.size + 1) * _
      rw [decode_push w _ _ _ hc hpar, nafVal, decode_length, hib, pow_succ, hwI,
        ← Nat.add_assoc, sval_pos hH hlt]
      push_cast
      have := val_step _ _ _ (st.window : Int) 0 _ _ _ _ hval (by omega)
      simpa using this
    · intro _ _
      simp only [getBits_zero_lo _ _ _ hc]
      exact ⟨by omega, hpar, by omega⟩
  · -- negative digit
    have hwl : st.window < 2 ^ w := by rw [h1, h2] at hwin ⊢; exact odd_lt_of_le hwin hpar
    have hc : 3 * H - st.window < 2 ^ w := by omega
    have hco : (3 * H - st.window) % 2 = 1 := by omega
    rw [heq]
    refine ⟨?_, ?_, ?_⟩
    · show H + inBit _ _ _ _ ≤ _; omega
    · show (d : Int) = nafVal (decode w (st.naf * 2 ^ w + (3 * H - st.window))
        (st.size + 1) 0) + 2 ^ (st.size + 1) * _
      rw [decode_push w _ _ _ hc hco, nafVal, decode_length, hib, pow_succ, hwI,
        ← Nat.add_assoc, sval_neg hH (by omega)]
      push_cast
      refine val_step _ _ _ _ _ _ _ _ _ hval ?_
      omega
    · intro hz; exfalso; simp only at hz; omega
  · -- last (positive) digit of a window with the high bit set
    have hwl : st.window < 2 ^ w := by rw [h1, h2] at hwin ⊢; exact odd_lt_of_le hwin hpar
    have hc : st.window - H < 2 ^ w := by omega
    have hco : (st.window - H) % 2 = 1 := by omega
    rw [heq]
    refine ⟨?_, ?_, ?_⟩
    · show H / 2 + inBit _ _ _ _ ≤ _; omega
    · show (d : Int) = nafVal (decode w (st.naf * 2 ^ w + (st.window - H))
        (st.size + 1) 0) + 2 ^ (st.size + 1) * _
      rw [decode_push w _ _ _ hc hco, nafVal, decode_length, hib, pow_succ, hwI,
        ← Nat.add_assoc, sval_pos hH (by omega)]
      push_cast
      refine val_step _ _ _ _ _ _ _ _ _ hval ?_
      omega
    · intro hz; exfalso; simp only at hz; omega
end Bee2V.C06.MulL

/-
C06 — the SWU map `ecpSWU`, part 2: the closed form `swuSpec` over `ZMod p`, `p ≡ 3 (mod 4)`.
Inversion by power, the exponent `e2 = (p-2) - p/4`, Euler's criterion, the SWU identity
`g(t x1) = t³ g(x1)` and the two results `spec_on_curve`, `spec_off_curve`.
-/
import Bee2V.C06.LemmasSWU
import Mathlib.Data.ZMod.Basic
import Mathlib.FieldTheory.Finite.Basic
import Mathlib.NumberTheory.LegendreSymbol.Basic
import Mathlib.Tactic.Ring
import Mathlib.Tactic.FieldSimp
import Mathlib.Tactic.LinearCombination
namespace Bee2V.C06.SWU

set_option linter.unusedSectionVars false
set_option linter.unusedSimpArgs false

/-! ## generic field facts -/
section Generic
variable {F : Type} [Field F]

/-- `t + t² = 0` exactly for `a ∈ {0, 1, -1}` -/
theorem wF_eq_zero_iff (a : F) : wF a = 0 ↔ a = 0 ∨ a = 1 ∨ a = -1 := by
  have e : wF a = a * a * ((a - 1) * (a + 1)) := by unfold wF tF; ring
  rw [e]
  constructor
  · intro h
    rcases mul_eq_zero.1 h with h | h
    · exact Or.inl (mul_self_eq_zero.1 h)
    · rcases mul_eq_zero.1 h with h | h
      · exact Or.inr (Or.inl (by linear_combination h))
      · exact Or.inr (Or.inr (by linear_combination h))
  · rintro (rfl | rfl | rfl) <;> ring

/-- the SWU identity: with `x1 = -(B/A)(1 + 1/(t + t²))`, `g(t x1) = t³ g(x1)` -/
theorem swu_identity (A B t : F) (hA : A ≠ 0) (hw : t * t + t ≠ 0) :
    gF A B ((-(((t * t + t) * A)⁻¹ * (t * t + t + 1) * B)) * t) =
      t ^ 3 * gF A B (-(((t * t + t) * A)⁻¹ * (t * t + t + 1) * B)) := by
  have e : t * t + t = t * (t + 1) := by ring
  rw [e] at hw ⊢
  have ht : t ≠ 0 := left_ne_zero_of_mul hw
  have ht1 : t + 1 ≠ 0 := right_ne_zero_of_mul hw
  unfold gF
  field_simp
  ring

theorem gF_eq (A B x : F) : gF A B x = x ^ 3 + A * x + B := by unfold gF; ring

end Generic

/-! ## `ZMod p`, `p ≡ 3 (mod 4)` -/
section ZModP
variable {p : Nat} [Fact p.Prime]

theorem inv_by_pow (u : ZMod p) (hu : u ≠ 0) : u ^ (p - 2) = u⁻¹ := by
  have h2 : 2 ≤ p := (Fact.out : p.Prime).two_le
  have h := ZMod.pow_card_sub_one_eq_one hu
  have e : p - 1 = (p - 2) + 1 := by omega
  rw [e, pow_succ] at h
  exact eq_inv_of_mul_eq_one_left h

theorem two_ne_zero' (hp : p % 4 = 3) : (2 : ZMod p) ≠ 0 := by
  intro h
  have h' : ((2 : Nat) : ZMod p) = 0 := by exact_mod_cast h
  rw [ZMod.natCast_eq_zero_iff] at h'
  have := Nat.le_of_dvd (by norm_num) h'
  omega

theorem neg_one_ne_one' (hp : p % 4 = 3) : (-1 : ZMod p) ≠ 1 := by
  intro h
  exact two_ne_zero' hp (by linear_combination -h)

/-- `s² y = y^(p/2)` for `s = y^e2`, `y ≠ 0` -/
theorem s_sq_mul (hp : p % 4 = 3) (y : ZMod p) (hy : y ≠ 0) :
    y ^ (p - 2 - p / 4) * y ^ (p - 2 - p / 4) * y = y ^ (p / 2) := by
  have e : (p - 2 - p / 4) + (p - 2 - p / 4) + 1 = (p - 1) + p / 2 := by omega
  calc y ^ (p - 2 - p / 4) * y ^ (p - 2 - p / 4) * y
      = y ^ ((p - 2 - p / 4) + (p - 2 - p / 4) + 1) := by rw [pow_succ, pow_add]
    _ = y ^ (p - 1) * y ^ (p / 2) := by rw [e, pow_add]
    _ = y ^ (p / 2) := by rw [ZMod.pow_card_sub_one_eq_one hy, one_mul]

theorem e2_ne_zero (hp : p % 4 = 3) : p - 2 - p / 4 ≠ 0 := by omega

/-- `t + t² = 0`: `x1 = 0`, `y = B` -/
theorem x1F_of_w0 (hp : p % 4 = 3) (A B a : ZMod p) (hw : wF a = 0) : x1F p A B a = 0 := by
  have : p - 2 ≠ 0 := by omega
  simp [x1F, hw, this]

theorem gF_zero {F : Type} [Field F] (A B : F) : gF A B 0 = B := by simp [gF]

/-- the closed form is on the curve (exact domain) -/
theorem spec_on_curve (hp : p % 4 = 3) (A B a : ZMod p) (hA : A ≠ 0) (hB : B ≠ 0)
    (hdom : IsSquare B ∨ (a ≠ 0 ∧ a ≠ 1 ∧ a ≠ -1)) :
    (swuSpec p A B a).2 ^ 2 = gF A B (swuSpec p A B a).1 := by
  by_cases hw : wF a = 0
  · -- a ∈ {0, ±1}: B is a square
    have hsq : IsSquare B := by
      rcases hdom with h | ⟨h0, h1, h2⟩
      · exact h
      · rcases (wF_eq_zero_iff a).1 hw with h | h | h <;> contradiction
    have hx1 : x1F p A B a = 0 := x1F_of_w0 hp A B a hw
    have hs : B ^ (p - 2 - p / 4) * B ^ (p - 2 - p / 4) * B = 1 := by
      rw [s_sq_mul hp B hB]; exact (ZMod.euler_criterion p hB).1 hsq
    unfold swuSpec
    simp only [hx1, gF_zero, hs, if_true]
    linear_combination B * hs
  · -- the regular case
    have hu : wF a * A ≠ 0 := mul_ne_zero hw hA
    have hx1 : x1F p A B a = -((wF a * A)⁻¹ * (wF a + 1) * B) := by
      unfold x1F; rw [inv_by_pow _ hu]
    have hid : gF A B (x1F p A B a * tF a) = tF a ^ 3 * gF A B (x1F p A B a) := by
      rw [hx1]; exact swu_identity A B (tF a) hA hw
    have ht3 : tF a ^ 3 = -(a * a * a) ^ 2 := by unfold tF; ring
    unfold swuSpec
    generalize x1F p A B a = x1 at hid ⊢
    simp only
    by_cases hy : gF A B x1 = 0
    · have h01 : (0 : ZMod p) ≠ 1 := zero_ne_one
      simp [hy, hid, h01]
    · rcases ZMod.pow_div_two_eq_neg_one_or_one p hy with h | h
      · have hs := (s_sq_mul hp _ hy).trans h
        rw [if_pos hs]
        linear_combination gF A B x1 * hs
      · have hs := (s_sq_mul hp _ hy).trans h
        have hne : ¬ (gF A B x1 ^ (p - 2 - p / 4) * gF A B x1 ^ (p - 2 - p / 4) * gF A B x1 = 1) := by
          rw [hs]; exact neg_one_ne_one' hp
        rw [if_neg hne]
        simp only
        rw [hid, ht3]
        linear_combination (a * a * a) ^ 2 * gF A B x1 * hs

/-- outside the domain the closed form leaves the curve -/
theorem spec_off_curve (hp : p % 4 = 3) (A B a : ZMod p) (hB : B ≠ 0)
    (hns : ¬ IsSquare B) (ha : a = 0 ∨ a = 1 ∨ a = -1) :
    (swuSpec p A B a).2 ^ 2 ≠ gF A B (swuSpec p A B a).1 := by
  have hw : wF a = 0 := (wF_eq_zero_iff a).2 ha
  have hx1 : x1F p A B a = 0 := x1F_of_w0 hp A B a hw
  have hs : B ^ (p - 2 - p / 4) * B ^ (p - 2 - p / 4) * B = -1 := by
    rw [s_sq_mul hp B hB]
    rcases ZMod.pow_div_two_eq_neg_one_or_one p hB with h | h
    · exact absurd ((ZMod.euler_criterion p hB).2 h) hns
    · exact h
  have hne : ¬ (B ^ (p - 2 - p / 4) * B ^ (p - 2 - p / 4) * B = 1) := by
    rw [hs]; exact neg_one_ne_one' hp
  unfold swuSpec
  simp only [hx1, gF_zero, if_neg hne, zero_mul]
  intro h
  have h' : -((a * a * a) ^ 2) * B = B := by
    linear_combination h - (a * a * a) ^ 2 * B * hs
  rcases ha with rfl | rfl | rfl
  · apply hB; linear_combination -h'
  · apply hB
    have : (2 : ZMod p) * B = 0 := by linear_combination -h'
    exact (mul_eq_zero.1 this).resolve_left (two_ne_zero' hp)
  · apply hB
    have : (2 : ZMod p) * B = 0 := by linear_combination -h'
    exact (mul_eq_zero.1 this).resolve_left (two_ne_zero' hp)

end ZModP

/-- for the non-vacuity examples -/
theorem prime7 : Fact (Nat.Prime 7) := ⟨by decide⟩
theorem prime11 : Fact (Nat.Prime 11) := ⟨by decide⟩

end Bee2V.C06.SWU

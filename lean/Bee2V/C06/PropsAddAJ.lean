/-
C06 — property theorems: mixed addition / subtraction `ecpAddAJ`, `ecpSubAJ` (madd-2004-hmv; Jacobian `a`,
affine `b`) return the group-law result of Mathlib's `(Wc A B).Point` for ALL inputs — `a = O`, `a = b`
(fall-through to `ecpDblAJ(c, b)`, including `yb = 0`), `a = −b`, generic — and for the aliasings
`.n` (distinct buffers), `.ca` (`c == a`), `.cb` (`c == b`).
-/
import Bee2V.C06.LemmasAddAJ2
namespace Bee2V.C06
open WeierstrassCurve

set_option linter.unusedSectionVars false
variable {F : Type} [Field F] [DecidableEq F] {A B : F}

/-- `ecpAddAJ`: `c <- a + b` in the group of points, in every special case and under every aliasing -/
theorem adda_correct {al : Al} {p : P3 F} {q : P2 F} {P Q : (Wc A B).Point} (h2 : (2 : F) ≠ 0)
    (hal : al = .n ∨ al = .ca ∨ al = .cb) (hp : Rep3 A B p P) (hq : Rep2 A B q Q) :
    Rep3 A B ((ecOps (curveF A B)).adda al p q) (P + Q) :=
  AddAJ.spec_correct h2 (AddAJ.add_spec hal p q) hp hq

/-- `ecpSubAJ`: `c <- a - b` in the group of points, in every special case and under every aliasing -/
theorem suba_correct {al : Al} {p : P3 F} {q : P2 F} {P Q : (Wc A B).Point} (h2 : (2 : F) ≠ 0)
    (hal : al = .n ∨ al = .ca ∨ al = .cb) (hp : Rep3 A B p P) (hq : Rep2 A B q Q) :
    Rep3 A B ((ecOps (curveF A B)).suba al p q) (P - Q) := by
  obtain ⟨h, rfl⟩ := hq
  rw [sub_eq_add_neg]
  exact AddAJ.spec_correct h2 (AddAJ.sub_spec hal p q) hp (neg_some h)

/-! ### non-vacuity: `y² = x³ + 1` over `ℚ`, points `(2,3) = (8 : 24 : 2)`, `(0,1)`, `(2,-3)` -/

/-- `adda`: chord `(2,3) + (0,1) = (-1,0)` with `c == b`; doubling `(2,3) + (2,3) = (0,1)` with `c == a`;
    `(2,3) + (2,-3) = O`; `O + (0,1)` -/
example : ∃ (p : P3 ℚ) (q q' q'' : P2 ℚ) (P Q Q' Q'' : (Wc (0 : ℚ) 1).Point), (2 : ℚ) ≠ 0 ∧
    Rep3 0 1 p P ∧ Rep2 0 1 q Q ∧ Rep2 0 1 q' Q' ∧ Rep2 0 1 q'' Q'' ∧
    (ecOps (curveF 0 1)).adda .cb p q = (-256, 0, -16) ∧
    (ecOps (curveF 0 1)).adda .ca p q' = (0, 216, 6) ∧
    ((ecOps (curveF 0 1)).adda .n p q'').2.2 = 0 ∧ P + Q'' = 0 ∧
    (ecOps (curveF 0 1)).adda .ca (5, 7, 0) q = (0, 1, 1) :=
  have h1 : (Wc (0 : ℚ) 1).Nonsingular 0 1 := (Wc_nonsingular ..).2 ⟨by norm_num, by norm_num⟩
  have h3 : (Wc (0 : ℚ) 1).Nonsingular 2 3 := (Wc_nonsingular ..).2 ⟨by norm_num, by norm_num⟩
  have h4 : (Wc (0 : ℚ) 1).Nonsingular 2 (-3) := (Wc_nonsingular ..).2 ⟨by norm_num, by norm_num⟩
  have hp : Rep3 (0 : ℚ) 1 (8, 24, 2) (.some 2 3 h3) :=
    AddAJ.rep3_of_rep2 (by norm_num) (Rep2_of_eq ⟨h3, rfl⟩ (by norm_num) (by norm_num))
  ⟨(8, 24, 2), (0, 1), (2, 3), (2, -3), _, _, _, _, by norm_num, hp, ⟨h1, rfl⟩, ⟨h3, rfl⟩, ⟨h4, rfl⟩,
    by rw [show (ecOps (curveF (0 : ℚ) 1)).adda = run2A _ ecpAddAJ from rfl,
        AddAJ.add_gen (.inr (.inr rfl)) _ _ _ _ _ (by norm_num) (by norm_num)]
       norm_num [AddAJ.genF, AddAJ.t1F, AddAJ.t2F],
    by rw [show (ecOps (curveF (0 : ℚ) 1)).adda = run2A _ ecpAddAJ from rfl,
        AddAJ.add_dbl (.inr (.inl rfl)) _ _ _ _ _ (by norm_num) (by norm_num) (by norm_num) (by norm_num)]
       norm_num [AddAJ.dblF],
    AddAJ.add_inv (.inl rfl) _ _ _ _ _ (by norm_num) (by norm_num) (by norm_num),
    add_inverse h3 h4 rfl (by norm_num),
    AddAJ.add_o (.inr (.inl rfl)) ..⟩

/-- `suba`: `(2,3) - (0,-1) = (-1,0)` with `c == b`; `(2,3) - (2,-3) = 2 (2,3) = (0,1)` with `c == a`;
    `(2,3) - (2,3) = O` -/
example : ∃ (p : P3 ℚ) (q q' q'' : P2 ℚ) (P Q Q' Q'' : (Wc (0 : ℚ) 1).Point), (2 : ℚ) ≠ 0 ∧
    Rep3 0 1 p P ∧ Rep2 0 1 q Q ∧ Rep2 0 1 q' Q' ∧ Rep2 0 1 q'' Q'' ∧
    (ecOps (curveF 0 1)).suba .cb p q = (-256, 0, -16) ∧
    (ecOps (curveF 0 1)).suba .ca p q' = (0, 216, 6) ∧
    ((ecOps (curveF 0 1)).suba .n p q'').2.2 = 0 ∧ P - Q'' = 0 :=
  have h1 : (Wc (0 : ℚ) 1).Nonsingular 0 (-1) := (Wc_nonsingular ..).2 ⟨by norm_num, by norm_num⟩
  have h3 : (Wc (0 : ℚ) 1).Nonsingular 2 3 := (Wc_nonsingular ..).2 ⟨by norm_num, by norm_num⟩
  have h4 : (Wc (0 : ℚ) 1).Nonsingular 2 (-3) := (Wc_nonsingular ..).2 ⟨by norm_num, by norm_num⟩
  have hp : Rep3 (0 : ℚ) 1 (8, 24, 2) (.some 2 3 h3) :=
    AddAJ.rep3_of_rep2 (by norm_num) (Rep2_of_eq ⟨h3, rfl⟩ (by norm_num) (by norm_num))
  ⟨(8, 24, 2), (0, -1), (2, -3), (2, 3), _, _, _, _, by norm_num, hp, ⟨h1, rfl⟩, ⟨h4, rfl⟩, ⟨h3, rfl⟩,
    by rw [show (ecOps (curveF (0 : ℚ) 1)).suba = run2A _ ecpSubAJ from rfl,
        AddAJ.sub_gen (.inr (.inr rfl)) _ _ _ _ _ (by norm_num) (by norm_num)]
       norm_num [AddAJ.genF, AddAJ.t1F, AddAJ.t2F],
    by rw [show (ecOps (curveF (0 : ℚ) 1)).suba = run2A _ ecpSubAJ from rfl,
        AddAJ.sub_dbl (.inr (.inl rfl)) _ _ _ _ _ (by norm_num) (by norm_num) (by norm_num) (by norm_num)]
       norm_num [AddAJ.dblF],
    AddAJ.sub_inv (.inl rfl) _ _ _ _ _ (by norm_num) (by norm_num) (by norm_num),
    sub_self _⟩

end Bee2V.C06

/-
C06, phase 3 — generic machinery for the placement theorems of PropsPlace2 … (all routines, all aliasing
patterns):

* `Prog.wellDefT`, `run_indepT`, `placeT` — the def-use check for routines that return FALSE without writing
  the output (`ecpToAJ` on `O`, `ecpAddAA` → `O`): `out` has to be defined at `ret true` only; conclusion: the
  flags agree and, if the flag is TRUE, the `out` registers agree;
* `SW wc wa wb`, `rho_inj_w` — register sets with block widths (3 for projective, 2 for affine points, 0 for an
  absent / aliased block) and the injectivity of `rho` on them;
* `idxA`, `idxB` — the index an operand has under an aliasing pattern in the general placement `c a b`;
* `ag1 … agAA` — the canonical stores of `Wrap.lean` agree (through `rho`) with ANY store holding the operands;
* `place_get3`, `place_get2`, `place_flag`, `place_opt` — `place`/`placeT` packaged for the four result kinds;
* `run1_anywhere` — `place_get3` + `ag1` for the wrapper `run1`, generic in the program;
* `optRes`, `optRes_spec`, `optRes_none` — the `Option`-valued wrappers (`toa`, `runAA`) read as flag + output;
* tactic macros `inj_w` (hypothesis `hinj` by `rho_inj_w` + `omega`), `place_map`, `place_map2` (the renamed
  canonical program is the program at the new indices, for ecp.c / ec2.c).
Everything is generic in the field record (no Mathlib): `cv : Curve F` is `curveF A B` resp. `curveB A B` later.
-/
import Bee2V.C06.LemmasPlace2
import Bee2V.C06.Wrap2
namespace Bee2V.C06

/-! ### def-use with the output checked on the TRUE paths only -/

/-- like `Prog.wellDef`, but `out` has to be defined at `ret true` only -/
def Prog.wellDefT (out : List Nat) : List Nat → Prog → Bool
  | D, .ret b => !b || out.all (D.contains ·)
  | D, .seq i k => i.srcs.all (D.contains ·) && k.wellDefT out (i.dst :: D)
  | D, .ifz r t e => D.contains r && t.wellDefT out D && e.wellDefT out D
  | D, .ifeq r s t e => D.contains r && D.contains s && t.wellDefT out D && e.wellDefT out D
  | D, .ifone r t e => D.contains r && t.wellDefT out D && e.wellDefT out D

section
variable {F : Type} (f : Fld F)

theorem run_indepT (out : List Nat) (P : Prog) (D : List Nat) (hP : P.wellDefT out D = true)
    {st st' : Store F} (h : Same D st st') :
    (P.run f st).2 = (P.run f st').2 ∧
    ((P.run f st).2 = true → Same out (P.run f st).1 (P.run f st').1) := by
  induction P generalizing D st st' with
  | ret b =>
    simp only [Prog.wellDefT, Bool.or_eq_true, Bool.not_eq_eq_eq_not, Bool.not_true, List.all_eq_true,
      List.contains_iff_mem] at hP
    refine ⟨rfl, fun hb i hi => ?_⟩
    simp only [Prog.run] at hb
    rcases hP with hP | hP
    · rw [hP] at hb; cases hb
    · exact h i (hP i hi)
  | seq i k ih =>
    simp only [Prog.wellDefT, Bool.and_eq_true, List.all_eq_true, List.contains_iff_mem] at hP
    simp only [Prog.run]
    apply ih (i.dst :: D) hP.2
    have hsrc : i.srcs.map st.get = i.srcs.map st'.get :=
      List.map_congr_left (fun a ha => h a (hP.1 a ha))
    rw [Instr.exec_eq, Instr.exec_eq, hsrc]
    intro j hj
    simp only [upd]
    by_cases e : j = i.dst
    · simp [e]
    · simp only [e, if_false]
      rcases List.mem_cons.1 hj with h' | h'
      · exact absurd h' e
      · exact h j h'
  | ifz r t e iht ihe =>
    simp only [Prog.wellDefT, Bool.and_eq_true, List.contains_iff_mem] at hP
    simp only [Prog.run, h r hP.1.1]
    split
    · exact iht D hP.1.2 h
    · exact ihe D hP.2 h
  | ifeq r s t e iht ihe =>
    simp only [Prog.wellDefT, Bool.and_eq_true, List.contains_iff_mem] at hP
    simp only [Prog.run, h r hP.1.1.1, h s hP.1.1.2]
    split
    · exact iht D hP.1.2 h
    · exact ihe D hP.2 h
  | ifone r t e iht ihe =>
    simp only [Prog.wellDefT, Bool.and_eq_true, List.contains_iff_mem] at hP
    simp only [Prog.run, h r hP.1.1]
    split
    · exact iht D hP.1.2 h
    · exact ihe D hP.2 h

/-- `place` for `wellDefT`: same flag, and on TRUE the `out` registers (through `ρ`) hold the canonical results -/
theorem placeT {ρ : Nat → Nat} {S : Nat → Bool} {D out : List Nat} {P : Prog}
    (hinj : ∀ i j, S i = true → S j = true → ρ i = ρ j → i = j)
    (hregs : P.regsIn S = true) (hout : ∀ i, i ∈ out → S i = true)
    (hwd : P.wellDefT out D = true)
    {st0 st' : Store F} (hag : ∀ i, i ∈ D → st'.get (ρ i) = st0.get i) :
    ((P.map ρ).run f st').2 = (P.run f st0).2 ∧
    ((P.run f st0).2 = true →
      ∀ i, i ∈ out → ((P.map ρ).run f st').1.get (ρ i) = (P.run f st0).1.get i) := by
  have h1 := run_rename f hinj P hregs (st' := st') (st := ⟨fun i => st'.get (ρ i)⟩) (fun _ _ => rfl)
  have h2 := run_indepT f out P D hwd (st := ⟨fun i => st'.get (ρ i)⟩) (st' := st0) hag
  refine ⟨h1.1.trans h2.1, fun hb i hi => (h1.2 i (hout i hi)).trans (h2.2 ?_ i hi)⟩
  rw [h2.1]; exact hb
end

/-! ### register sets with block widths -/

/-- `A`, `B`; `wc` registers of the destination slot, `wa` of the slot 5.., `wb` of the slot 8..; the stack -/
def SW (wc wa wb : Nat) (i : Nat) : Bool :=
  decide (i < 2 ∨ (2 ≤ i ∧ i < 2 + wc) ∨ (5 ≤ i ∧ i < 5 + wa) ∨ (8 ≤ i ∧ i < 8 + wb) ∨ (11 ≤ i ∧ i < 48))

/-- blocks of widths `wc, wa, wb ≤ 3` at `c, a, b`: above `A`, `B`, below the stack, pairwise disjoint
    (a block of width 0 is absent) -/
theorem rho_inj_w {wc wa wb c a b s : Nat} (hwc : wc ≤ 3) (hwa : wa ≤ 3) (hwb : wb ≤ 3) (hs : 2 ≤ s)
    (hc : wc = 0 ∨ (2 ≤ c ∧ c + wc ≤ s)) (ha : wa = 0 ∨ (2 ≤ a ∧ a + wa ≤ s))
    (hb : wb = 0 ∨ (2 ≤ b ∧ b + wb ≤ s))
    (hca : wc = 0 ∨ wa = 0 ∨ c + wc ≤ a ∨ a + wa ≤ c)
    (hcb : wc = 0 ∨ wb = 0 ∨ c + wc ≤ b ∨ b + wb ≤ c)
    (hab : wa = 0 ∨ wb = 0 ∨ a + wa ≤ b ∨ b + wb ≤ a) :
    ∀ i j, SW wc wa wb i = true → SW wc wa wb j = true → rho c a b s i = rho c a b s j → i = j := by
  intro i j hi hj
  simp only [SW, decide_eq_true_eq] at hi hj
  simp only [rho]
  repeat' split
  all_goals omega

/-! ### operand indices under an aliasing pattern -/

/-- index of the first operand in the placement `c a` -/
def idxA : Al → Nat → Nat → Nat
  | .ca, c, _ => c
  | .abc, c, _ => c
  | _, _, a => a
/-- index of the second operand in the placement `c a b` -/
def idxB : Al → Nat → Nat → Nat → Nat
  | .cb, c, _, _ => c
  | .abc, c, _, _ => c
  | .ab, _, a, _ => a
  | _, _, _, b => b

/-- declared inputs: `A`, `B`, one projective / affine operand -/
def D1 (al : Al) : List Nat := [0, 1, slotA al, slotA al + 1, slotA al + 2]
def D1a (al : Al) : List Nat := [0, 1, slotA al, slotA al + 1]
/-- two projective operands (`a == b`: one block) -/
def D2 (al : Al) : List Nat :=
  D1 al ++ (if al = .ab ∨ al = .abc then [] else [slotB al, slotB al + 1, slotB al + 2])
/-- projective and affine operand -/
def D2A (al : Al) : List Nat := D1 al ++ [slotB al, slotB al + 1]
/-- two affine operands -/
def DAA (al : Al) : List Nat :=
  D1a al ++ (if al = .ab ∨ al = .abc then [] else [slotB al, slotB al + 1])

/-- the store of `run2` -/
def st2 {F : Type} (cv : Curve F) (al : Al) (p q : P3 F) : Store F :=
  if al = .ab ∨ al = .abc then put3 (base cv) (slotA al) p
  else put3 (put3 (base cv) (slotA al) p) (slotB al) q
/-- the store of `runAA` -/
def stAA {F : Type} (cv : Curve F) (al : Al) (p q : P2 F) : Store F :=
  if al = .ab ∨ al = .abc then put2 (base cv) (slotA al) p
  else put2 (put2 (base cv) (slotA al) p) (slotB al) q

/-- FALSE ↦ `none`, TRUE ↦ the affine point at `c` -/
def optRes {F : Type} (r : Store F × Bool) (c : Nat) : Option (P2 F) :=
  if r.2 then some (get2 r.1 c) else none

section
variable {F : Type} {cv : Curve F} {c a b s : Nat} {st : Store F}

/-! ### the canonical stores agree with any store holding the operands -/

theorem ag1 (al : Al) (hal : al = .n ∨ al = .ca) (hA : st.get rA = cv.A) (hB : st.get rB = cv.B) :
    ∀ i, i ∈ D1 al → st.get (rho c a b s i) = (put3 (base cv) (slotA al) (get3 st (idxA al c a))).get i := by
  rcases hal with rfl | rfl <;>
    simp [D1, slotA, sc, sa, idxA, rho, put3, upd, base, get3, cX, cY, cZ, hA, hB, rA, rB]

theorem ag1a (al : Al) (hal : al = .n ∨ al = .ca) (hA : st.get rA = cv.A) (hB : st.get rB = cv.B) :
    ∀ i, i ∈ D1a al → st.get (rho c a b s i) = (put2 (base cv) (slotA al) (get2 st (idxA al c a))).get i := by
  rcases hal with rfl | rfl <;>
    simp [D1a, slotA, sc, sa, idxA, rho, put2, upd, base, get2, cX, cY, hA, hB, rA, rB]

theorem ag2 (al : Al) (hal : al ≠ .abc) (hA : st.get rA = cv.A) (hB : st.get rB = cv.B) :
    ∀ i, i ∈ D2 al → st.get (rho c a b s i) =
      (st2 cv al (get3 st (idxA al c a)) (get3 st (idxB al c a b))).get i := by
  cases al <;> first | exact absurd rfl hal | skip
  all_goals
    simp [D2, D1, st2, slotA, slotB, sc, sa, sb, idxA, idxB, rho, put3, upd, base, get3, cX, cY, cZ, hA, hB, rA, rB]

theorem ag2A (al : Al) (hal : al = .n ∨ al = .ca ∨ al = .cb) (hA : st.get rA = cv.A) (hB : st.get rB = cv.B) :
    ∀ i, i ∈ D2A al → st.get (rho c a b s i) =
      (put2 (put3 (base cv) (slotA al) (get3 st (idxA al c a))) (slotB al) (get2 st (idxB al c a b))).get i := by
  rcases hal with rfl | rfl | rfl <;>
    simp [D2A, D1, slotA, slotB, sc, sa, sb, idxA, idxB, rho, put3, put2, upd, base, get3, get2, cX, cY, cZ, hA, hB, rA, rB]

theorem agAA (al : Al) (hA : st.get rA = cv.A) (hB : st.get rB = cv.B) :
    ∀ i, i ∈ DAA al → st.get (rho c a b s i) =
      (stAA cv al (get2 st (idxA al c a)) (get2 st (idxB al c a b))).get i := by
  cases al <;>
    simp [DAA, D1a, stAA, slotA, slotB, sc, sa, sb, idxA, idxB, rho, put2, upd, base, get2, cX, cY, hA, hB, rA, rB]

end

/-! ### `place` packaged for the four kinds of result -/

section
variable {F : Type} (f : Fld F) {c a b s : Nat} {S : Nat → Bool} {D : List Nat} {P P' : Prog}
  {st0 st : Store F}

theorem place_get3 (hmap : P.map (rho c a b s) = P')
    (hinj : ∀ i j, S i = true → S j = true → rho c a b s i = rho c a b s j → i = j)
    (hregs : P.regsIn S = true) (hout : (S 2 && S 3 && S 4) = true) (hwd : P.wellDef [2, 3, 4] D = true)
    (hag : ∀ i, i ∈ D → st.get (rho c a b s i) = st0.get i) :
    get3 (P'.run f st).1 c = get3 (P.run f st0).1 2 := by
  simp only [Bool.and_eq_true] at hout
  have h := place f hinj hregs (out := [2, 3, 4])
    (by intro i hi
        simp only [List.mem_cons, List.mem_nil_iff, or_false] at hi
        rcases hi with rfl | rfl | rfl
        · exact hout.1.1
        · exact hout.1.2
        · exact hout.2) hwd hag
  rw [hmap] at h
  exact Prod.ext (h.2 2 (by simp)) (Prod.ext (h.2 3 (by simp)) (h.2 4 (by simp)))

theorem place_get2 (hmap : P.map (rho c a b s) = P')
    (hinj : ∀ i j, S i = true → S j = true → rho c a b s i = rho c a b s j → i = j)
    (hregs : P.regsIn S = true) (hout : (S 2 && S 3) = true) (hwd : P.wellDef [2, 3] D = true)
    (hag : ∀ i, i ∈ D → st.get (rho c a b s i) = st0.get i) :
    get2 (P'.run f st).1 c = get2 (P.run f st0).1 2 := by
  simp only [Bool.and_eq_true] at hout
  have h := place f hinj hregs (out := [2, 3])
    (by intro i hi
        simp only [List.mem_cons, List.mem_nil_iff, or_false] at hi
        rcases hi with rfl | rfl
        · exact hout.1
        · exact hout.2) hwd hag
  rw [hmap] at h
  exact Prod.ext (h.2 2 (by simp)) (h.2 3 (by simp))

theorem place_flag (hmap : P.map (rho c a b s) = P')
    (hinj : ∀ i j, S i = true → S j = true → rho c a b s i = rho c a b s j → i = j)
    (hregs : P.regsIn S = true) (hwd : P.wellDef [] D = true)
    (hag : ∀ i, i ∈ D → st.get (rho c a b s i) = st0.get i) :
    (P'.run f st).2 = (P.run f st0).2 := by
  have h := place f hinj hregs (out := []) (by simp) hwd hag
  rw [hmap] at h
  exact h.1

theorem place_opt (hmap : P.map (rho c a b s) = P')
    (hinj : ∀ i j, S i = true → S j = true → rho c a b s i = rho c a b s j → i = j)
    (hregs : P.regsIn S = true) (hout : (S 2 && S 3) = true) (hwd : P.wellDefT [2, 3] D = true)
    (hag : ∀ i, i ∈ D → st.get (rho c a b s i) = st0.get i) :
    optRes (P'.run f st) c = optRes (P.run f st0) 2 := by
  simp only [Bool.and_eq_true] at hout
  have h := placeT f hinj hregs (out := [2, 3])
    (by intro i hi
        simp only [List.mem_cons, List.mem_nil_iff, or_false] at hi
        rcases hi with rfl | rfl
        · exact hout.1
        · exact hout.2) hwd hag
  rw [hmap] at h
  unfold optRes
  rw [h.1]
  split
  · next hb =>
    have e : get2 (P'.run f st).1 c = get2 (P.run f st0).1 2 :=
      Prod.ext (h.2 hb 2 (by simp)) (h.2 hb 3 (by simp))
    rw [e]
  · rfl

/-- reading an `optRes` equation: the form of the `…_anywhere_…` theorems for FALSE-returning routines -/
theorem optRes_spec {r : Store F × Bool} {c : Nat} {o : Option (P2 F)} (e : optRes r c = o)
    {X : Prop} {R : P2 F → Prop} (h : (o = none ↔ X) ∧ ∀ v, o = some v → R v) :
    (r.2 = false ↔ X) ∧ (r.2 = true → R (get2 r.1 c)) := by
  subst e
  unfold optRes at h
  cases hb : r.2
  · have e1 : (if r.2 = true then some (get2 r.1 c) else none) = none := by simp [hb]
    rw [e1] at h
    exact ⟨⟨fun _ => h.1.1 rfl, fun _ => rfl⟩, fun h' => Bool.noConfusion h'⟩
  · have e1 : (if r.2 = true then some (get2 r.1 c) else none) = some (get2 r.1 c) := by simp [hb]
    rw [e1] at h
    exact ⟨⟨fun h' => Bool.noConfusion h', fun hx => by cases h.1.2 hx⟩, fun _ => h.2 _ rfl⟩

end

/-- `place_get3` for the wrapper `run1` (two-address projective routines).  The program is a VARIABLE here, so
    that unfolding `run1` does not start evaluating it (the straight-line `ecpTplJ` has 47 instructions). -/
theorem run1_anywhere {F : Type} (f : Fld F) (cv : Curve F) (hf : cv.f = f)
    (prog : Nat → Nat → Nat → Prog) (al : Al) (hal : al = .n ∨ al = .ca)
    {c a b s a' : Nat} (ha' : idxA al c a = a') {S : Nat → Bool} {P' : Prog}
    (hmap : (prog 2 (slotA al) 11).map (rho c a b s) = P')
    (hinj : ∀ i j, S i = true → S j = true → rho c a b s i = rho c a b s j → i = j)
    (hregs : (prog 2 (slotA al) 11).regsIn S = true) (hout : (S 2 && S 3 && S 4) = true)
    (hwd : (prog 2 (slotA al) 11).wellDef [2, 3, 4] (D1 al) = true)
    {st : Store F} (hA : st.get rA = cv.A) (hB : st.get rB = cv.B) :
    get3 (P'.run f st).1 c = run1 cv prog al (get3 st a') := by
  subst hf ha'
  exact place_get3 _ hmap hinj hregs hout hwd (ag1 al hal hA hB)

theorem optRes_none {F : Type} {r : Store F × Bool} {c : Nat} (e : optRes r c = none) : r.2 = false := by
  unfold optRes at e
  cases hb : r.2
  · rfl
  · rw [hb] at e; cases e

/-! ### tactic macros -/

/-- `hinj` of `place_…` for `S := SW wc wa wb` from the interval hypotheses in the context -/
macro "inj_w" : tactic => `(tactic| (apply rho_inj_w <;> omega))

/-- `(prog <canonical indices>).map (rho c a b s) = prog <general indices>` for the programs of `Ecp.lean`;
    index disequalities (`c ≠ a`) are taken from the context -/
macro "place_map" : tactic => `(tactic|
  simp [ecpFromAJ, ecpToAJ, ecpNegJ, ecpDblJ, ecpDblJA3, ecpDblAJ, ecpAddJ, ecpAddAJ, ecpSubJ, ecpSubAJ,
    ecpTplJ, ecpTplJA3, ecpIsOnA, ecpNegA, ecpAATail, ecpAATangent, ecpAddAA, ecpSubAA,
    Prog.map, Prog.map_block, Instr.map, rho, slotA, slotB, sc, sa, sb, sk, cX, cY, cZ, rA, rB, Nat.add_assoc, *])

/-- the same for the programs of `Ec2.lean` -/
macro "place_map2" : tactic => `(tactic|
  simp [ec2FromALD, ec2ToALD, ec2NegLD, ec2DblLDTail, ec2DblLD, ec2DblALDTail, ec2DblALD, ec2AddLD,
    ec2AddALDTail, ec2AddALD, ec2SubLD, ec2SubALD, ec2IsOnA, ec2NegA, ec2AddAA, ec2SubAA,
    Prog.map, Prog.map_block, Instr.map, rho, slotA, slotB, sc, sa, sb, sk, cX, cY, cZ, rA, rB, Nat.add_assoc, *])

end Bee2V.C06

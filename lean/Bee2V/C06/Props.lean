/-
C06 — property theorems (thin slice; widened below as the lemma files land).
-/
import Bee2V.C06.Wrap
namespace Bee2V.C06

/-- `ecNAFWidth` selects a window of 3..6 bits for every scalar length -/
theorem ecNAFWidth_range (l : Nat) : 3 ≤ ecNAFWidth l ∧ ecNAFWidth l ≤ 6 := by
  unfold ecNAFWidth; repeat' split
  all_goals omega

end Bee2V.C06

/-
C06 — specification side: the group of points of `y² = x³ + Ax + B` over a field `F` is Mathlib's
`WeierstrassCurve.Affine.Point` (an `AddCommGroup`); `fieldFld F` are the field operations the
programs of `Ecp` are interpreted with; `Rep3`/`Rep2` say which group element a Jacobian triple /
an affine pair stands for.  Explicit chord and tangent forms of Mathlib's addition (`add_chord`,
`add_tangent`, `add_inverse`) are the interface the formula lemmas use.
-/
import Mathlib.AlgebraicGeometry.EllipticCurve.Affine.Point
import Bee2V.C06.Wrap
namespace Bee2V.C06
open WeierstrassCurve

set_option linter.unusedSectionVars false
set_option linter.unusedSimpArgs false
variable {F : Type} [Field F] [DecidableEq F]

/-- the operations of a field; `gfpDouble a = a + a`, `gfpHalf a = a / 2`, `qrInv a = a⁻¹`,
    `qrPower a e = a ^ e` -/
def fieldFld (F : Type) [Field F] [DecidableEq F] : Fld F where
  zero := 0
  one := 1
  add a b := a + b
  sub a b := a - b
  mul a b := a * b
  neg a := -a
  dbl a := a + a
  half a := a / 2
  inv a := a⁻¹
  pow a e := a ^ e
  eqb a b := decide (a = b)

/-- the curve `y² = x³ + Ax + B` -/
def Wc (A B : F) : Affine F := { a₁ := 0, a₂ := 0, a₃ := 0, a₄ := A, a₆ := B }

/-- `ecpCreateJ` over a field -/
def curveF (A B : F) : Curve F := mkCurve (fieldFld F) A B

theorem Wc_equation (A B x y : F) : (Wc A B).Equation x y ↔ y ^ 2 = x ^ 3 + A * x + B := by
  rw [Affine.equation_iff]; simp [Wc]

theorem Wc_nonsingular (A B x y : F) :
    (Wc A B).Nonsingular x y ↔ y ^ 2 = x ^ 3 + A * x + B ∧ (3 * x ^ 2 + A ≠ 0 ∨ y + y ≠ 0) := by
  rw [Affine.nonsingular_iff, Wc_equation]
  simp only [Wc, zero_mul, mul_zero, add_zero, sub_zero]
  have e1 : (0 ≠ 3 * x ^ 2 + A) ↔ (3 * x ^ 2 + A ≠ 0) := ⟨fun h => h.symm, fun h => h.symm⟩
  have e2 : (y ≠ -y) ↔ (y + y ≠ 0) :=
    ⟨fun h h0 => h (by linear_combination h0), fun h h0 => h (by linear_combination h0)⟩
  rw [e1, e2]

@[simp] theorem Wc_negY (A B x y : F) : (Wc A B).negY x y = -y := by simp [Affine.negY, Wc]

/-- an affine pair stands for the point with these coordinates -/
def Rep2 (A B : F) (a : P2 F) (P : (Wc A B).Point) : Prop :=
  ∃ h : (Wc A B).Nonsingular a.1 a.2, P = .some a.1 a.2 h

/-- a Jacobian triple `(X : Y : Z)` stands for `O` if `Z = 0` and for `(X/Z², Y/Z³)` otherwise -/
def Rep3 (A B : F) (p : P3 F) (P : (Wc A B).Point) : Prop :=
  if p.2.2 = 0 then P = 0 else Rep2 A B (p.1 / p.2.2 ^ 2, p.2.1 / p.2.2 ^ 3) P

theorem some_congr {A B : F} {x y x' y' : F} (h : (Wc A B).Nonsingular x y) (hx : x = x') (hy : y = y') :
    ∃ h' : (Wc A B).Nonsingular x' y', Affine.Point.some x y h = Affine.Point.some x' y' h' := by
  subst hx; subst hy; exact ⟨h, rfl⟩

theorem Rep2_of_eq {A B : F} {x y x' y' : F} {P : (Wc A B).Point} (h : Rep2 A B (x, y) P)
    (hx : x = x') (hy : y = y') : Rep2 A B (x', y') P := by
  subst hx; subst hy; exact h

/-- chord: `x₁ ≠ x₂` -/
theorem add_chord {A B x₁ y₁ x₂ y₂ : F} (h₁ : (Wc A B).Nonsingular x₁ y₁) (h₂ : (Wc A B).Nonsingular x₂ y₂)
    (hx : x₁ ≠ x₂) :
    Rep2 A B (((y₁ - y₂) / (x₁ - x₂)) ^ 2 - x₁ - x₂,
      ((y₁ - y₂) / (x₁ - x₂)) * (x₁ - (((y₁ - y₂) / (x₁ - x₂)) ^ 2 - x₁ - x₂)) - y₁)
      (Affine.Point.some x₁ y₁ h₁ + Affine.Point.some x₂ y₂ h₂) := by
  rw [Affine.Point.add_of_X_ne hx]
  refine Rep2_of_eq ⟨_, rfl⟩ ?_ ?_
  · simp [Affine.slope_of_X_ne hx, Wc]
  · simp [Affine.slope_of_X_ne hx, Wc]; ring

/-- tangent: doubling of a point with `y ≠ 0` (`y + y ≠ 0`) -/
theorem add_tangent {A B x y : F} (h : (Wc A B).Nonsingular x y) (hy : y + y ≠ 0) :
    Rep2 A B (((3 * x ^ 2 + A) / (y + y)) ^ 2 - x - x,
      ((3 * x ^ 2 + A) / (y + y)) * (x - (((3 * x ^ 2 + A) / (y + y)) ^ 2 - x - x)) - y)
      (Affine.Point.some x y h + Affine.Point.some x y h) := by
  have hy' : y ≠ (Wc A B).negY x y := by
    rw [Wc_negY]; intro h0; apply hy; linear_combination h0
  rw [Affine.Point.add_self_of_Y_ne hy']
  have hs : (Wc A B).slope x x y y = (3 * x ^ 2 + A) / (y + y) := by
    rw [Affine.slope_of_Y_ne rfl hy']; simp [Wc, Affine.negY]
  refine Rep2_of_eq ⟨_, rfl⟩ ?_ ?_
  · rw [hs]; simp [Wc]
  · rw [hs]; simp [Wc]; ring

/-- inverse points: same `x`, `y₁ = -y₂` -/
theorem add_inverse {A B x₁ y₁ x₂ y₂ : F} (h₁ : (Wc A B).Nonsingular x₁ y₁) (h₂ : (Wc A B).Nonsingular x₂ y₂)
    (hx : x₁ = x₂) (hy : y₁ = -y₂) :
    Affine.Point.some x₁ y₁ h₁ + Affine.Point.some x₂ y₂ h₂ = 0 :=
  Affine.Point.add_of_Y_eq hx (by rw [Wc_negY]; exact hy)

/-- two points with the same `x` have `y₁ = y₂` or `y₁ = -y₂` -/
theorem y_eq_or_neg {A B x y₁ y₂ : F} (h₁ : (Wc A B).Nonsingular x y₁) (h₂ : (Wc A B).Nonsingular x y₂) :
    y₁ = y₂ ∨ y₁ = -y₂ := by
  have e₁ := ((Wc_nonsingular A B x y₁).1 h₁).1
  have e₂ := ((Wc_nonsingular A B x y₂).1 h₂).1
  have : (y₁ - y₂) * (y₁ + y₂) = 0 := by linear_combination e₁ - e₂
  rcases mul_eq_zero.1 this with h | h
  · exact Or.inl (by linear_combination h)
  · exact Or.inr (by linear_combination h)

theorem neg_some {A B x y : F} (h : (Wc A B).Nonsingular x y) :
    Rep2 A B (x, -y) (-(Affine.Point.some x y h)) := by
  rw [Affine.Point.neg_some]
  exact Rep2_of_eq ⟨_, rfl⟩ rfl (Wc_negY A B x y)

end Bee2V.C06

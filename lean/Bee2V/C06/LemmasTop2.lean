/-
C06, stage 2 — the generic simulation lemmas of `LemmasSim` for the wrappers of `Wrap2` (ec2.c):
if an executable record of field operations `f` simulates `g` through `φ` (on values satisfying `R`),
then every wrapper run on `f` simulates the run on `g`.
-/
import Bee2V.C06.LemmasSim
import Bee2V.C06.Wrap2
namespace Bee2V.C06.Sim

variable {α β : Type} {f : Fld α} {g : Fld β} {φ : α → β} {R : α → Prop}

theorem mkCurve2_sim (H : FldSim f g φ R) {A B : α} (hA : R A) (hB : R B) :
    CurveSim (mkCurve2 f A B) (mkCurve2 g (φ A) (φ B)) φ R :=
  ⟨H, hA, hB, rfl, rfl, rfl⟩

variable {c : Curve α} {c' : Curve β}

theorem froma2_sim (C : CurveSim c c' φ R) (al : Al) {a : P2 α} (ha : R2 R a) :
    R3 R (froma2 c al a) ∧ map3 φ (froma2 c al a) = froma2 c' al (map2 φ a) := by
  have h := run_on C (ec2FromALD sc (slotA al)) (put2_red (base_red C) (slotA al) ha)
    (by rw [put2_map, base_map C])
  exact ⟨get3_red h.1 _, by simp only [froma2, get3_map, h.2.2]⟩

theorem dbla2_sim (C : CurveSim c c' φ R) (al : Al) {a : P2 α} (ha : R2 R a) :
    R3 R (dbla2 c al a) ∧ map3 φ (dbla2 c al a) = dbla2 c' al (map2 φ a) := by
  have h := run_on C (ec2DblALD sc (slotA al) sk) (put2_red (base_red C) (slotA al) ha)
    (by rw [put2_map, base_map C])
  exact ⟨get3_red h.1 _, by simp only [dbla2, get3_map, h.2.2]⟩

theorem toa2_sim (C : CurveSim c c' φ R) (al : Al) {a : P3 α} (ha : R3 R a) :
    (∀ q, toa2 c al a = some q → R2 R q) ∧
    (toa2 c al a).map (map2 φ) = toa2 c' al (map3 φ a) := by
  have h := run_on C (ec2ToALD sc (slotA al) sk) (put3_red (base_red C) (slotA al) ha)
    (by rw [put3_map, base_map C])
  exact opt_sim h.1 h.2.1 h.2.2

end Bee2V.C06.Sim

/-
C06, phase 3 — placement independence of the programs.

The formula theorems are proved for the canonical store layout of `Wrap.lean` (slots 2/5/8, stack 11, all
other registers holding the curve's zero).  This file provides the two generic facts that carry them to ANY
placement of operands, destination and scratch stack and to ANY contents of the remaining store:

* `run_rename`  — renaming: if `ρ` is injective on the registers a program mentions, running the renamed
  program on a store `st'` is the same as running the program on the pulled-back store `i ↦ st'.get (ρ i)`;
* `run_indep`   — def-use: if along every path each register is written before it is read, except the
  declared inputs `D` (checked by the computable `Prog.wellDef D out`), and every path writes all of `out`
  or `out ⊆ D`, then flag and `out` registers of the result depend only on the `D` registers of the store;
* `place`       — both together.
No Mathlib.
-/
import Bee2V.C06.Core
namespace Bee2V.C06

/-! ### renaming -/

def Instr.map (ρ : Nat → Nat) : Instr → Instr
  | .sqr d a => .sqr (ρ d) (ρ a)
  | .mul d a b => .mul (ρ d) (ρ a) (ρ b)
  | .add d a b => .add (ρ d) (ρ a) (ρ b)
  | .sub d a b => .sub (ρ d) (ρ a) (ρ b)
  | .neg d a => .neg (ρ d) (ρ a)
  | .dbl d a => .dbl (ρ d) (ρ a)
  | .half d a => .half (ρ d) (ρ a)
  | .copy d a => .copy (ρ d) (ρ a)
  | .zero d => .zero (ρ d)
  | .one d => .one (ρ d)
  | .inv d a => .inv (ρ d) (ρ a)
  | .div d a b => .div (ρ d) (ρ a) (ρ b)
  | .pow d a e => .pow (ρ d) (ρ a) e

def Prog.map (ρ : Nat → Nat) : Prog → Prog
  | .ret b => .ret b
  | .seq i k => .seq (i.map ρ) (k.map ρ)
  | .ifz r t e => .ifz (ρ r) (t.map ρ) (e.map ρ)
  | .ifeq r s t e => .ifeq (ρ r) (ρ s) (t.map ρ) (e.map ρ)
  | .ifone r t e => .ifone (ρ r) (t.map ρ) (e.map ρ)

theorem Prog.map_block (ρ : Nat → Nat) (is : List Instr) (k : Prog) :
    (Prog.block is k).map ρ = Prog.block (is.map (Instr.map ρ)) (k.map ρ) := by
  induction is with
  | nil => rfl
  | cons i is ih => simp [Prog.block, Prog.map, ih]

/-- destination register -/
def Instr.dst : Instr → Nat
  | .sqr d _ | .mul d _ _ | .add d _ _ | .sub d _ _ | .neg d _ | .dbl d _ | .half d _ | .copy d _
  | .zero d | .one d | .inv d _ | .div d _ _ | .pow d _ _ => d

/-- source registers -/
def Instr.srcs : Instr → List Nat
  | .sqr _ a | .neg _ a | .dbl _ a | .half _ a | .copy _ a | .inv _ a | .pow _ a _ => [a]
  | .mul _ a b | .add _ a b | .sub _ a b | .div _ a b => [a, b]
  | .zero _ | .one _ => []

/-- the value an instruction writes, as a function of the values of its sources (in order) -/
def Instr.val {F : Type} (f : Fld F) (i : Instr) (l : List F) : F :=
  let x := l.headD f.zero
  let y := (l.drop 1).headD f.zero
  match i with
  | .sqr _ _ => f.mul x x
  | .mul _ _ _ => f.mul x y
  | .add _ _ _ => f.add x y
  | .sub _ _ _ => f.sub x y
  | .neg _ _ => f.neg x
  | .dbl _ _ => f.dbl x
  | .half _ _ => f.half x
  | .copy _ _ => x
  | .zero _ => f.zero
  | .one _ => f.one
  | .inv _ _ => f.inv x
  | .div _ _ _ => f.mul x (f.inv y)
  | .pow _ _ e => f.pow x e

theorem Instr.exec_eq {F : Type} (f : Fld F) (st : Store F) (i : Instr) :
    i.exec f st = upd st i.dst (i.val f (i.srcs.map st.get)) := by
  cases i <;> rfl

theorem Instr.map_dst (ρ : Nat → Nat) (i : Instr) : (i.map ρ).dst = ρ i.dst := by cases i <;> rfl
theorem Instr.map_srcs (ρ : Nat → Nat) (i : Instr) : (i.map ρ).srcs = i.srcs.map ρ := by cases i <;> rfl
theorem Instr.map_val {F : Type} (f : Fld F) (ρ : Nat → Nat) (i : Instr) (l : List F) :
    (i.map ρ).val f l = i.val f l := by cases i <;> rfl

/-- all registers of an instruction / a program satisfy `S` -/
def Instr.regsIn (S : Nat → Bool) (i : Instr) : Bool := S i.dst && i.srcs.all S

def Prog.regsIn (S : Nat → Bool) : Prog → Bool
  | .ret _ => true
  | .seq i k => i.regsIn S && k.regsIn S
  | .ifz r t e => S r && t.regsIn S && e.regsIn S
  | .ifeq r s t e => S r && S s && t.regsIn S && e.regsIn S
  | .ifone r t e => S r && t.regsIn S && e.regsIn S

variable {F : Type} (f : Fld F)

/-- `st'` looks through `ρ` like `st` on the registers in `S` -/
def Agree (ρ : Nat → Nat) (S : Nat → Bool) (st' st : Store F) : Prop :=
  ∀ i, S i = true → st'.get (ρ i) = st.get i

theorem exec_rename {ρ : Nat → Nat} {S : Nat → Bool}
    (hinj : ∀ i j, S i = true → S j = true → ρ i = ρ j → i = j)
    (i : Instr) (hi : i.regsIn S = true) {st' st : Store F} (h : Agree ρ S st' st) :
    Agree ρ S ((i.map ρ).exec f st') (i.exec f st) := by
  simp only [Instr.regsIn, Bool.and_eq_true, List.all_eq_true] at hi
  have hsrc : (i.srcs.map ρ).map st'.get = i.srcs.map st.get := by
    rw [List.map_map]
    apply List.map_congr_left
    intro a ha
    exact h a (hi.2 a ha)
  rw [Instr.exec_eq, Instr.exec_eq, Instr.map_dst, Instr.map_srcs, Instr.map_val, hsrc]
  intro j hj
  simp only [upd]
  by_cases e : j = i.dst
  · subst e; simp
  · have : ρ j ≠ ρ i.dst := fun h' => e (hinj _ _ hj hi.1 h')
    simp [e, this, h j hj]

theorem run_rename {ρ : Nat → Nat} {S : Nat → Bool}
    (hinj : ∀ i j, S i = true → S j = true → ρ i = ρ j → i = j)
    (P : Prog) (hP : P.regsIn S = true) {st' st : Store F} (h : Agree ρ S st' st) :
    ((P.map ρ).run f st').2 = (P.run f st).2 ∧ Agree ρ S ((P.map ρ).run f st').1 (P.run f st).1 := by
  induction P generalizing st' st with
  | ret b => exact ⟨rfl, h⟩
  | seq i k ih =>
    simp only [Prog.regsIn, Bool.and_eq_true] at hP
    simp only [Prog.map, Prog.run]
    exact ih hP.2 (exec_rename f hinj i hP.1 h)
  | ifz r t e iht ihe =>
    simp only [Prog.regsIn, Bool.and_eq_true] at hP
    simp only [Prog.map, Prog.run, h r hP.1.1]
    split
    · exact iht hP.1.2 h
    · exact ihe hP.2 h
  | ifeq r s t e iht ihe =>
    simp only [Prog.regsIn, Bool.and_eq_true] at hP
    simp only [Prog.map, Prog.run, h r hP.1.1.1, h s hP.1.1.2]
    split
    · exact iht hP.1.2 h
    · exact ihe hP.2 h
  | ifone r t e iht ihe =>
    simp only [Prog.regsIn, Bool.and_eq_true] at hP
    simp only [Prog.map, Prog.run, h r hP.1.1]
    split
    · exact iht hP.1.2 h
    · exact ihe hP.2 h

/-! ### def-use: the result depends on the declared inputs only -/

/-- every register read is in `D` or was written before on the same path; every `ret` is reached with all
    of `out` defined -/
def Prog.wellDef (out : List Nat) : List Nat → Prog → Bool
  | D, .ret _ => out.all (D.contains ·)
  | D, .seq i k => i.srcs.all (D.contains ·) && k.wellDef out (i.dst :: D)
  | D, .ifz r t e => D.contains r && t.wellDef out D && e.wellDef out D
  | D, .ifeq r s t e => D.contains r && D.contains s && t.wellDef out D && e.wellDef out D
  | D, .ifone r t e => D.contains r && t.wellDef out D && e.wellDef out D

def Same (D : List Nat) (st st' : Store F) : Prop := ∀ i, i ∈ D → st.get i = st'.get i

theorem run_indep (out : List Nat) (P : Prog) (D : List Nat) (hP : P.wellDef out D = true)
    {st st' : Store F} (h : Same D st st') :
    (P.run f st).2 = (P.run f st').2 ∧ Same out (P.run f st).1 (P.run f st').1 := by
  induction P generalizing D st st' with
  | ret b =>
    simp only [Prog.wellDef, List.all_eq_true, List.contains_iff_mem] at hP
    exact ⟨rfl, fun i hi => h i (hP i hi)⟩
  | seq i k ih =>
    simp only [Prog.wellDef, Bool.and_eq_true, List.all_eq_true, List.contains_iff_mem] at hP
    simp only [Prog.run]
    apply ih (i.dst :: D) hP.2
    have hsrc : i.srcs.map st.get = i.srcs.map st'.get :=
      List.map_congr_left (fun a ha => h a (hP.1 a ha))
    rw [Instr.exec_eq, Instr.exec_eq, hsrc]
    intro j hj
    simp only [upd]
    by_cases e : j = i.dst
    · simp [e]
    · simp only [e, if_false]
      rcases List.mem_cons.1 hj with h' | h'
      · exact absurd h' e
      · exact h j h'
  | ifz r t e iht ihe =>
    simp only [Prog.wellDef, Bool.and_eq_true, List.contains_iff_mem] at hP
    simp only [Prog.run, h r hP.1.1]
    split
    · exact iht D hP.1.2 h
    · exact ihe D hP.2 h
  | ifeq r s t e iht ihe =>
    simp only [Prog.wellDef, Bool.and_eq_true, List.contains_iff_mem] at hP
    simp only [Prog.run, h r hP.1.1.1, h s hP.1.1.2]
    split
    · exact iht D hP.1.2 h
    · exact ihe D hP.2 h
  | ifone r t e iht ihe =>
    simp only [Prog.wellDef, Bool.and_eq_true, List.contains_iff_mem] at hP
    simp only [Prog.run, h r hP.1.1]
    split
    · exact iht D hP.1.2 h
    · exact ihe D hP.2 h

/-! ### both together -/

/-- Running the renamed program `P.map ρ` on ANY store `st'` whose registers `ρ i` (`i ∈ D`) hold what the
    canonical store `st0` holds at `i`: same flag, and the `out` registers (through `ρ`) hold the canonical
    results. -/
theorem place {ρ : Nat → Nat} {S : Nat → Bool} {D out : List Nat} {P : Prog}
    (hinj : ∀ i j, S i = true → S j = true → ρ i = ρ j → i = j)
    (hregs : P.regsIn S = true) (hout : ∀ i, i ∈ out → S i = true)
    (hwd : P.wellDef out D = true)
    {st0 st' : Store F} (hag : ∀ i, i ∈ D → st'.get (ρ i) = st0.get i) :
    ((P.map ρ).run f st').2 = (P.run f st0).2 ∧
    ∀ i, i ∈ out → ((P.map ρ).run f st').1.get (ρ i) = (P.run f st0).1.get i := by
  have h1 := run_rename f hinj P hregs (st' := st') (st := ⟨fun i => st'.get (ρ i)⟩) (fun _ _ => rfl)
  have h2 := run_indep f out P D hwd (st := ⟨fun i => st'.get (ρ i)⟩) (st' := st0) hag
  exact ⟨h1.1.trans h2.1, fun i hi => (h1.2 i (hout i hi)).trans (h2.2 i hi)⟩

end Bee2V.C06

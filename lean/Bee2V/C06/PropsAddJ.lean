/-
C06 — property theorems for `ecpAddJ` / `ecpSubJ` (`ec->add`, `ec->sub` of `ecpCreateJ`).

For every pair of Jacobian triples that stand for points `P`, `Q` of `y² = x³ + Ax + B` over a field of
characteristic ≠ 2 (including `O`, `P = Q`, `P = -Q`, points of order two) and for every aliasing of the
output with an input that the header allows, the program returns a triple that stands for Mathlib's
`P + Q` resp. `P - Q`.
-/
import Bee2V.C06.LemmasAddJ4
namespace Bee2V.C06
open WeierstrassCurve
set_option linter.unusedVariables false
variable {F : Type} [Field F] [DecidableEq F] {A B : F}

/-- `ecpAddJ(c, a, b)`, `a`, `b` in different buffers; `c` distinct, `c == a` or `c == b` -/
theorem add_correct {al : Al} {p q : P3 F} {P Q : (Wc A B).Point} (h2 : (2 : F) ≠ 0)
    (hal : al = .n ∨ al = .ca ∨ al = .cb) (hp : Rep3 A B p P) (hq : Rep3 A B q Q) :
    Rep3 A B ((ecOps (curveF A B)).add al p q) (P + Q) :=
  AddJ.add_ok h2 hal hp hq

/-- `ecpAddJ(c, a, a)`: the doubling fall-through (the value `q` is not placed in the store) -/
theorem add_ab_correct {p : P3 F} {P : (Wc A B).Point} (h2 : (2 : F) ≠ 0) (hp : Rep3 A B p P) (q : P3 F) :
    Rep3 A B ((ecOps (curveF A B)).add .ab p q) (P + P) :=
  AddJ.add_ab_ok h2 hp q

/-- `ecpSubJ(c, a, b)` -/
theorem sub_correct {al : Al} {p q : P3 F} {P Q : (Wc A B).Point} (h2 : (2 : F) ≠ 0)
    (hal : al = .n ∨ al = .ca ∨ al = .cb) (hp : Rep3 A B p P) (hq : Rep3 A B q Q) :
    Rep3 A B ((ecOps (curveF A B)).sub al p q) (P - Q) :=
  AddJ.sub_ok h2 hal hp hq

/-- `ecpSubJ(c, a, a)` is `O` (in fact for every triple `p`, see `AddJ.sub_ab_ok`) -/
theorem sub_ab_correct {p : P3 F} {P : (Wc A B).Point} (h2 : (2 : F) ≠ 0) (hp : Rep3 A B p P) (q : P3 F) :
    Rep3 A B ((ecOps (curveF A B)).sub .ab p q) 0 :=
  AddJ.sub_ab_ok h2 p q

/-! Non-vacuity: `y² = x³ + 1` over `ℚ`, the points `(2, 3)` (as the triple `(8, 24, 2)`), `(0, 1)`,
    and `(-1, 0)` of order two. -/

example : Rep3 (0 : ℚ) 1 ((ecOps (curveF (0 : ℚ) 1)).add .ca (8, 24, 2) (0, 1, 1))
    (.some 2 3 AddJ.ns23 + .some 0 1 AddJ.ns01) :=
  add_correct (by norm_num) (Or.inr (Or.inl rfl)) AddJ.rep23 AddJ.rep01
/-- equal points in different representations, `c == a`: the fall-through doubles `b` -/
example : Rep3 (0 : ℚ) 1 ((ecOps (curveF (0 : ℚ) 1)).add .ca (8, 24, 2) (2, 3, 1))
    (.some 2 3 AddJ.ns23 + .some 2 3 AddJ.ns23) :=
  add_correct (by norm_num) (Or.inr (Or.inl rfl)) AddJ.rep23
    (AddJ.rep3_of_rep2 (by norm_num) ⟨AddJ.ns23, rfl⟩ (by norm_num) (by norm_num))
example : Rep3 (0 : ℚ) 1 ((ecOps (curveF (0 : ℚ) 1)).add .ab (-1, 0, 1) (0, 0, 0))
    (.some (-1) 0 AddJ.nsm10 + .some (-1) 0 AddJ.nsm10) :=
  add_ab_correct (by norm_num) AddJ.repm10 _
example : Rep3 (0 : ℚ) 1 ((ecOps (curveF (0 : ℚ) 1)).sub .cb (8, 24, 2) (0, 1, 1))
    (.some 2 3 AddJ.ns23 - .some 0 1 AddJ.ns01) :=
  sub_correct (by norm_num) (Or.inr (Or.inr rfl)) AddJ.rep23 AddJ.rep01
example : Rep3 (0 : ℚ) 1 ((ecOps (curveF (0 : ℚ) 1)).sub .ab (8, 24, 2) (0, 0, 0)) 0 :=
  sub_ab_correct (by norm_num) AddJ.rep23 _

end Bee2V.C06

/-
C06, stage 2 — executable arithmetic of GF(2^m) = GF(2)[x]/(p(x)) on naturals (bit i = coefficient
of x^i), as an instance of `Fld Nat`, for the driver's run of the `ec2.c` programs.
`gf2Add = gf2Sub = xor`, `gf2Neg = id`; multiplication is carry-less multiplication followed by
reduction; inversion by the extended Euclidean algorithm on polynomials.  No Mathlib.
That this record is the arithmetic of a field of characteristic 2 (p irreducible) is NOT proved here
(the theorems about ec2.c are stated for an arbitrary field of characteristic 2, `Spec2.lean`);
it is tied to `gf2.c` by the differential run only.
-/
import Bee2V.C06.Core
namespace Bee2V.C06

/-- degree + 1 -/
def plen (a : Nat) : Nat := if a = 0 then 0 else a.log2 + 1

/-- remainder of `r` modulo `md` (`plen md = m + 1`) as polynomials over GF(2) -/
def pmod (md m : Nat) : Nat → Nat → Nat
  | 0, r => r
  | fuel + 1, r => if plen r ≤ m then r else pmod md m fuel (r ^^^ (md <<< (plen r - 1 - m)))

/-- carry-less product -/
def clmul : Nat → Nat → Nat → Nat → Nat
  | 0, _, _, acc => acc
  | fuel + 1, a, b, acc =>
    if b = 0 then acc else clmul fuel (a <<< 1) (b >>> 1) (if b % 2 = 1 then acc ^^^ a else acc)

def gf2mul (md m a b : Nat) : Nat :=
  let r := clmul (plen b + 1) a b 0
  pmod md m (plen r + 1) r

/-- extended Euclid: invariant `g1 * a ≡ u`, `g2 * a ≡ v (mod md)`; returns `a⁻¹` (0 for 0) -/
def pinvLoop (md m : Nat) : Nat → Nat → Nat → Nat → Nat → Nat
  | 0, _, _, g1, _ => g1
  | fuel + 1, u, v, g1, g2 =>
    if u ≤ 1 then g1 else
    if plen u < plen v then pinvLoop md m fuel v u g2 g1
    else
      let j := plen u - plen v
      pinvLoop md m fuel (u ^^^ (v <<< j)) v (g1 ^^^ (g2 <<< j)) g2

def gf2inv (md m a : Nat) : Nat :=
  if a = 0 then 0 else
  let g := pinvLoop md m (4 * m + 8) a md 1 0
  pmod md m (plen g + 1) g

def gf2pow (md m a : Nat) : Nat → Nat → Nat → Nat
  | 0, _, acc => acc
  | fuel + 1, e, acc =>
    if e = 0 then acc else
    gf2pow md m (gf2mul md m a a) fuel (e / 2) (if e % 2 = 1 then gf2mul md m acc a else acc)

/-- GF(2^m) with modulus polynomial `md` (bit m set) -/
def gf2Fld (md m : Nat) : Fld Nat where
  zero := 0
  one := 1
  add a b := a ^^^ b
  sub a b := a ^^^ b
  mul a b := gf2mul md m a b
  neg a := a
  dbl _ := 0
  half _ := 0
  inv a := gf2inv md m a
  pow a e := gf2pow md m a (plen e + 1) e 1
  eqb a b := a == b

end Bee2V.C06

/-
C06, stage 2 — executable arithmetic of GF(2^m) = GF(2)[x]/(p(x)) on naturals (bit i = coefficient
of x^i), as an instance of `Fld Nat`, for the driver's run of the `ec2.c` programs.
`gf2Add = gf2Sub = xor`, `gf2Neg = id`; multiplication and inversion are the C05 area's value-level
functions `C05.gfMul md a b = pmod (clmul a b) md` (carry-less product, polynomial remainder) and
`C05.ppInvModV a md` (the model of `ppInvMod`, which `gf2Inv` calls) — imported read-only, so that the
C05 result "irreducible modulus ⇒ these operations are the arithmetic of a field" discharges the
hypothesis of `ecMulA_gf2_partial` (PropsTop2.lean) directly.  No Mathlib.
That this record is the arithmetic of a field of characteristic 2 is NOT proved in C06 (the theorems about
ec2.c are stated for an arbitrary field of characteristic 2, `Spec2.lean`); here it is tied to `gf2.c` by the
differential run.
-/
import Bee2V.C06.Core
import Bee2V.C05.ModelGf2
namespace Bee2V.C06

/-- degree + 1 -/
def plen (a : Nat) : Nat := if a = 0 then 0 else a.log2 + 1

def gf2pow (md a : Nat) : Nat → Nat → Nat → Nat
  | 0, _, acc => acc
  | fuel + 1, e, acc =>
    if e = 0 then acc else
    gf2pow md (C05.gfMul md a a) fuel (e / 2) (if e % 2 = 1 then C05.gfMul md acc a else acc)

/-- GF(2^m) with modulus polynomial `md` (bit m set); `m` is kept for the callers' range tests -/
def gf2Fld (md _m : Nat) : Fld Nat where
  zero := 0
  one := 1
  add a b := a ^^^ b
  sub a b := a ^^^ b
  mul a b := C05.gfMul md a b
  neg a := a
  dbl _ := 0
  half _ := 0
  inv a := C05.ppInvModV a md
  pow a e := gf2pow md a (plen e + 1) e 1
  eqb a b := a == b

end Bee2V.C06

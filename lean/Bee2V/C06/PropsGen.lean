/-
C06 — tie of the hand-written model to the C source.

`Bee2V/Gen/C06Ecp.lean` is regenerated from `/repo/src/math/ecp.c` and `ec.c` on every run by
`xlate/x_c06_ecp.py` (clang AST, fail-closed).  Every theorem below states that the program the
translator read off the C function IS the hand-written program of `Ecp.lean` (the object of all the
group-law theorems), for all operand indices: same instructions, same order, same operands, same
branch structure, same tail calls, same scratch offsets.  All are closed by `rfl` (kernel-checked
definitional equality), so any edit of the C that changes an instruction, an operand, a test or the
order makes this file fail to compile.

Outside the tie (see the header of the generated file): the word-level range test at the head of
`ecpIsOnA` (modelled in `Wrap.isOnAW`), the encoding of `qrAddUnity` by a scratch register `u`, and the
integer exponent arithmetic of `ecpSWU` read as natural-number arithmetic on `p`.
-/
import Bee2V.Gen.C06Ecp
import Bee2V.C06.Ecp
import Bee2V.C06.Naf
import Bee2V.C06.Wrap
namespace Bee2V.C06

/-! ### conversions, negation -/

theorem gen_ecpFromAJ : Gen.ecpFromAJ = ecpFromAJ := rfl
theorem gen_ecpToAJ : Gen.ecpToAJ = ecpToAJ := rfl
theorem gen_ecpNegJ : Gen.ecpNegJ = ecpNegJ := rfl
theorem gen_ecpNegA : Gen.ecpNegA = ecpNegA := rfl

/-- non-vacuity: the generated `ecpToAJ` is a test followed by five instructions -/
example : Gen.ecpToAJ 2 5 11 =
    .ifz 7 (.ret false) (.seq (.inv 11 7) (.seq (.sqr 12 11) (.seq (.mul 2 5 12)
      (.seq (.mul 12 11 12) (.seq (.mul 3 6 12) (.ret true)))))) := rfl

/-! ### doubling, tripling -/

theorem gen_ecpDblJ : Gen.ecpDblJ = ecpDblJ := rfl
theorem gen_ecpDblJA3 : Gen.ecpDblJA3 = ecpDblJA3 := rfl
theorem gen_ecpDblAJ : Gen.ecpDblAJ = ecpDblAJ := rfl
theorem gen_ecpTplJ : Gen.ecpTplJ = ecpTplJ := rfl
theorem gen_ecpTplJA3 : Gen.ecpTplJA3 = ecpTplJA3 := rfl

/-- non-vacuity: the generated programs run.  On `y² = x³ + x + 1` over GF(23), `P = (3, 10)`:
    `2P = (7, 12)` = `(17 : 21 : 20)`, `3P = (19, 5)` = `(10 : 3 : 20)` -/
example : run1 (mkCurve (natFld 23) 1 1) Gen.ecpDblJ .n (3, 10, 1) = (17, 21, 20) ∧
    run1 (mkCurve (natFld 23) 1 1) Gen.ecpDblJ .ca (3, 10, 1) = (17, 21, 20) ∧
    run1 (mkCurve (natFld 23) 1 1) Gen.ecpTplJ .n (3, 10, 1) = (10, 3, 20) ∧
    get3 ((Gen.ecpDblAJ sc sa sk).run (natFld 23) (put2 (base (mkCurve (natFld 23) 1 1)) sa (3, 10))).1 sc
      = (17, 21, 20) := by decide
/-- … and the shape: two tests, then exactly 20 instructions -/
example : ∃ is, Gen.ecpDblJ 2 5 11 = .ifz 7 (Prog.block [.one 2, .one 3, .zero 4] (.ret true))
    (.ifz 6 (Prog.block [.one 2, .one 3, .zero 4] (.ret true)) (Prog.block is (.ret true))) ∧ is.length = 20 :=
  ⟨_, rfl, rfl⟩
example : ∃ is, Gen.ecpTplJ 2 5 11 = Prog.block is (.ret true) ∧ is.length = 47 := ⟨_, rfl, rfl⟩
example : ∃ is, Gen.ecpTplJA3 2 5 11 = Prog.block is (.ret true) ∧ is.length = 44 := ⟨_, rfl, rfl⟩

/-! ### addition, subtraction (projective, mixed) -/

theorem gen_ecpAddJ : Gen.ecpAddJ = ecpAddJ := rfl
theorem gen_ecpAddAJ : Gen.ecpAddAJ = ecpAddAJ := rfl
theorem gen_ecpSubJ : Gen.ecpSubJ = ecpSubJ := rfl
theorem gen_ecpSubAJ : Gen.ecpSubAJ = ecpSubAJ := rfl

/-- non-vacuity: `P + 2P = 3P = (19, 5)` = `(20 : 7 : 8)`; `P + P` through the doubling fall-through
    (also with `c == a`); `P + (-P) = O`; `P - 2P`; mixed addition -/
example : run2 (mkCurve (natFld 23) 1 1) Gen.ecpAddJ .n (3, 10, 1) (7, 12, 1) = (20, 7, 8) ∧
    run2 (mkCurve (natFld 23) 1 1) Gen.ecpAddJ .ca (3, 10, 1) (3, 10, 1) = (17, 21, 20) ∧
    run2 (mkCurve (natFld 23) 1 1) Gen.ecpAddJ .n (3, 10, 1) (3, 13, 1) = (1, 1, 0) ∧
    run2 (mkCurve (natFld 23) 1 1) Gen.ecpSubJ .n (3, 10, 1) (7, 12, 1) = (8, 9, 8) ∧
    run2A (mkCurve (natFld 23) 1 1) Gen.ecpAddAJ .n (3, 10, 1) (7, 12) = (5, 21, 4) ∧
    run2A (mkCurve (natFld 23) 1 1) Gen.ecpAddAJ .n (3, 10, 1) (3, 10) = (17, 21, 20) ∧
    run2A (mkCurve (natFld 23) 1 1) Gen.ecpSubAJ .n (3, 10, 1) (7, 12) = (2, 4, 4) := by decide
/-- the doubling fall-through of the aliased call `c == a` takes the other operand -/
example : ∃ k₁ k₂ t e₁ e₂, Gen.ecpAddJ 2 2 8 11 = .ifz 4 k₁ (.ifz 10 k₂ (Prog.block t
    (.ifz 11 (.ifeq 13 14 (Gen.ecpDblJ 2 8 15) e₁) e₂))) ∧ t.length = 13 := ⟨_, _, _, _, _, rfl, rfl⟩

/-! ### affine routines -/

theorem gen_ecpIsOnA : Gen.ecpIsOnA = ecpIsOnA := rfl
theorem gen_ecpAddAA : Gen.ecpAddAA = ecpAddAA := rfl
theorem gen_ecpSubAA : Gen.ecpSubAA = ecpSubAA := rfl

/-- non-vacuity: the on-curve test decides, and the branch structure of the affine addition -/
example : ((Gen.ecpIsOnA sa sk).run (natFld 23) (put2 (base (mkCurve (natFld 23) 1 1)) sa (3, 10))).2 = true ∧
    ((Gen.ecpIsOnA sa sk).run (natFld 23) (put2 (base (mkCurve (natFld 23) 1 1)) sa (3, 11))).2 = false := by
  decide
example : ∃ tg ch, Gen.ecpAddAA 2 5 8 11 =
    .ifeq 5 8 (.ifeq 6 9 (.ifz 9 (.ret false) (Prog.block tg (.ret true))) (.ret false))
      (Prog.block ch (.ret true)) ∧ tg.length = 14 ∧ ch.length = 11 := ⟨_, _, rfl, rfl, rfl⟩
example : ∃ tg ch, Gen.ecpSubAA 2 5 8 11 =
    .ifeq 5 8 (.ifeq 6 9 (.ret false) (Prog.block tg (.ret true)))
      (Prog.block ch (.ret true)) ∧ tg.length = 14 ∧ ch.length = 11 := ⟨_, _, rfl, rfl, rfl⟩

/-! ### SWU -/

theorem gen_ecpSWU : Gen.ecpSWU = ecpSWU := rfl

/-- non-vacuity: 23 instructions, one test, 2 more; the two exponents for `p = 23` are `21` and `16` -/
example : ∃ is k, Gen.ecpSWU 23 2 5 11 = Prog.block is (.ifone 2
      (Prog.block [.copy 2 12, .mul 3 11 14] (.ret true)) (Prog.block [.copy 2 13, .mul 3 11 15] (.ret true))) ∧
    is.length = 23 ∧ is.take 6 = [.sqr 11 5, .neg 11 11, .sqr 13 11, .add 13 13 11, .mul 12 13 0, .pow 12 12 21] ∧
    is.drop 17 = .pow 11 14 16 :: k := ⟨_, _, rfl, rfl, rfl, rfl⟩

/-! ### `ecpCreateJ`: the interface table, `ecNAFWidth` -/

/-- `bA3` as computed by `ecpCreateJ` is the `a3` of `mkCurve` -/
theorem gen_createJ_bA3 {F : Type} (f : Fld F) (A B : F) :
    (mkCurve f A B).a3 = Gen.createJ_bA3 f A := rfl

/-- the table `ecpCreateJ` installs is the table `ecOps` runs -/
theorem gen_createJ_ops {F : Type} (c : Curve F) :
    ecOps c =
      { froma := fun a => get3 ((Gen.createJ_froma sc sa).run c.f (put2 (base c) sa a)).1 sc
        toa := fun a =>
          let r := (Gen.createJ_toa sc sa sk).run c.f (put3 (base c) sa a)
          if r.2 then some (get2 r.1 sc) else none
        view := fun p => (p.1, p.2.1)
        setO := (c.f.zero, c.f.zero, c.f.zero)
        neg := run1 c (fun b a _ => Gen.createJ_neg b a)
        dbl := run1 c (Gen.createJ_dbl c.a3)
        tpl := run1 c (Gen.createJ_tpl c.a3)
        dbla := fun a => get3 ((Gen.createJ_dbla sc sa sk).run c.f (put2 (base c) sa a)).1 sc
        add := run2 c Gen.createJ_add
        sub := run2 c Gen.createJ_sub
        adda := run2A c Gen.createJ_adda
        suba := run2A c Gen.createJ_suba } := rfl

theorem gen_createJ_table : Gen.createJ_table =
    [("froma", "ecpFromAJ", "ecpFromAJ"), ("toa", "ecpToAJ", "ecpToAJ"), ("neg", "ecpNegJ", "ecpNegJ"),
     ("add", "ecpAddJ", "ecpAddJ"), ("adda", "ecpAddAJ", "ecpAddAJ"), ("sub", "ecpSubJ", "ecpSubJ"),
     ("suba", "ecpSubAJ", "ecpSubAJ"), ("dbl", "ecpDblJA3", "ecpDblJ"), ("dbla", "ecpDblAJ", "ecpDblAJ"),
     ("tpl", "ecpTplJA3", "ecpTplJ")] := rfl

example : Gen.createJ_dbl true = ecpDblJA3 ∧ Gen.createJ_dbl false = ecpDblJ ∧
    Gen.createJ_tpl true = ecpTplJA3 ∧ Gen.createJ_tpl false = ecpTplJ := ⟨rfl, rfl, rfl, rfl⟩

theorem gen_ecNAFWidth : Gen.ecNAFWidth = ecNAFWidth := rfl

example : Gen.ecNAFWidth 39 = 3 ∧ Gen.ecNAFWidth 40 = 4 ∧ Gen.ecNAFWidth 119 = 4 ∧ Gen.ecNAFWidth 120 = 5 ∧
    Gen.ecNAFWidth 335 = 5 ∧ Gen.ecNAFWidth 336 = 6 := by decide

end Bee2V.C06

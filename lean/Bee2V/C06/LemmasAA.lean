/-
C06 — affine addition / subtraction `ecpAddAA`, `ecpSubAA` (ecp.c): closed form of the execution for
every aliasing pattern (`addAA_exec`, `addAA_exec_same`, `subAA_exec`, `subAA_exec_same`) and
agreement of the closed forms with Mathlib's group law (`addSpec_correct`, `dblSpec_correct`,
`subSpec_correct`).
-/
import Bee2V.C06.Spec
import Mathlib.Tactic.Ring
import Mathlib.Tactic.FieldSimp
import Mathlib.Tactic.LinearCombination
namespace Bee2V.C06.AA
open WeierstrassCurve

set_option linter.unusedSectionVars false
set_option linter.unusedSimpArgs false
variable {F : Type} [Field F] [DecidableEq F] {A B : F}

/-! ## closed forms -/

/-- the common tail: from the slope `l`, `xc = l² - xa - xb`, `yc = l (xa - xc) - ya` -/
def res (l x1 y1 x2 : F) : P2 F :=
  (l * l - x1 - x2, l * (x1 - (l * l - x1 - x2)) - y1)

/-- slope of the tangent as the C computes it: `(xa² + xa² + xa² + A) / (ya + ya)` -/
def tan (A x1 y1 : F) : F := (x1 * x1 + x1 * x1 + x1 * x1 + A) * (y1 + y1)⁻¹

/-- what `ecpAddAA` computes on distinct operand buffers -/
def addSpec (A x1 y1 x2 y2 : F) : Option (P2 F) :=
  if x1 = x2 then
    if y1 = y2 then
      if y2 = 0 then none else some (res (tan A x1 y1) x1 y1 x2)
    else none
  else some (res ((y1 - y2) * (x1 - x2)⁻¹) x1 y1 x2)

/-- what `ecpAddAA(c, a, a)` computes -/
def dblSpec (A x1 y1 : F) : Option (P2 F) :=
  if y1 = 0 then none else some (res (tan A x1 y1) x1 y1 x1)

/-- what `ecpSubAA` computes on distinct operand buffers -/
def subSpec (A x1 y1 x2 y2 : F) : Option (P2 F) :=
  if x1 = x2 then
    if y1 = y2 then none else some (res (tan A x1 y1) x1 y1 x2)
  else some (res ((y1 + y2) * (x1 - x2)⁻¹) x1 y1 x2)

/-! ## execution -/

macro "aa_exec" : tactic => `(tactic|
  simp [runAA, ecpAddAA, ecpSubAA, ecpAATangent, ecpAATail, Prog.run, Prog.block, Instr.exec, upd, get2,
    fieldFld, cX, cY, rA, rB, sc, sa, sb, sk, slotA, slotB, put2, base, curveF, mkCurve, res, tan, *])

/-- `ecpAddAA(c, a, b)`, `a`, `b` in different buffers (`c` anywhere) -/
theorem addAA_exec (al : Al) (hal : al = .n ∨ al = .ca ∨ al = .cb) (x1 y1 x2 y2 : F) :
    runAA (curveF A B) ecpAddAA al (x1, y1) (x2, y2) = addSpec A x1 y1 x2 y2 := by
  unfold addSpec
  by_cases hx : x1 = x2
  · subst hx
    by_cases hy : y1 = y2
    · subst hy
      by_cases h0 : y1 = 0
      · rcases hal with rfl | rfl | rfl <;> aa_exec
      · rcases hal with rfl | rfl | rfl <;> aa_exec
    · rcases hal with rfl | rfl | rfl <;> aa_exec
  · rcases hal with rfl | rfl | rfl <;> aa_exec

/-- `ecpAddAA(c, a, a)` (`c` distinct or `c == a`): the second value argument is not used -/
theorem addAA_exec_same (al : Al) (hal : al = .ab ∨ al = .abc) (x1 y1 : F) (b : P2 F) :
    runAA (curveF A B) ecpAddAA al (x1, y1) b = dblSpec A x1 y1 := by
  unfold dblSpec
  by_cases h0 : y1 = 0
  · rcases hal with rfl | rfl <;> aa_exec
  · rcases hal with rfl | rfl <;> aa_exec

/-- `ecpSubAA(c, a, b)`, `a`, `b` in different buffers -/
theorem subAA_exec (al : Al) (hal : al = .n ∨ al = .ca ∨ al = .cb) (x1 y1 x2 y2 : F) :
    runAA (curveF A B) ecpSubAA al (x1, y1) (x2, y2) = subSpec A x1 y1 x2 y2 := by
  unfold subSpec
  by_cases hx : x1 = x2
  · subst hx
    by_cases hy : y1 = y2
    · subst hy
      rcases hal with rfl | rfl | rfl <;> aa_exec
    · rcases hal with rfl | rfl | rfl <;> aa_exec
  · rcases hal with rfl | rfl | rfl <;> aa_exec

/-- `ecpSubAA(c, a, a)` returns FALSE -/
theorem subAA_exec_same (al : Al) (hal : al = .ab ∨ al = .abc) (a b : P2 F) :
    runAA (curveF A B) ecpSubAA al a b = none := by
  rcases hal with rfl | rfl <;> aa_exec

/-! ## the closed forms and the group law -/

theorem Rep2_ne_zero {r : P2 F} {P : (Wc A B).Point} (h : Rep2 A B r P) : P ≠ 0 := by
  obtain ⟨_, rfl⟩ := h
  exact Affine.Point.some_ne_zero _

theorem of_some {o : Option (P2 F)} {r0 : P2 F} {P : (Wc A B).Point} (ho : o = some r0)
    (h : Rep2 A B r0 P) : (o = none ↔ P = 0) ∧ ∀ r, o = some r → Rep2 A B r P := by
  subst ho
  refine ⟨⟨fun h0 => (by cases h0), fun h0 => absurd h0 (Rep2_ne_zero h)⟩, ?_⟩
  intro r hr
  cases hr
  exact h

theorem of_none {o : Option (P2 F)} {P : (Wc A B).Point} (ho : o = none)
    (h : P = 0) : (o = none ↔ P = 0) ∧ ∀ r, o = some r → Rep2 A B r P := by
  subst ho
  exact ⟨⟨fun _ => h, fun _ => rfl⟩, fun r hr => by cases hr⟩

theorem yy_ne (h2 : (2 : F) ≠ 0) {y : F} (hy : y ≠ 0) : y + y ≠ 0 := by
  rw [← two_mul]; exact mul_ne_zero h2 hy

/-- tangent at `(x, y)`, `y + y ≠ 0`, in the form the C computes -/
theorem tangent_rep {x y : F} (h : (Wc A B).Nonsingular x y) (hy : y + y ≠ 0) :
    Rep2 A B (res (tan A x y) x y x) (Affine.Point.some x y h + Affine.Point.some x y h) := by
  refine Rep2_of_eq (add_tangent h hy) ?_ ?_ <;> simp only [tan, div_eq_mul_inv] <;> ring

/-- chord through `(x₁, y₁)`, `(x₂, y₂)`, `x₁ ≠ x₂`, in the form the C computes -/
theorem chord_rep {x1 y1 x2 y2 : F} (h1 : (Wc A B).Nonsingular x1 y1) (h2 : (Wc A B).Nonsingular x2 y2)
    (hx : x1 ≠ x2) :
    Rep2 A B (res ((y1 - y2) * (x1 - x2)⁻¹) x1 y1 x2)
      (Affine.Point.some x1 y1 h1 + Affine.Point.some x2 y2 h2) := by
  refine Rep2_of_eq (add_chord h1 h2 hx) ?_ ?_ <;> simp only [div_eq_mul_inv] <;> ring

theorem addSpec_correct (h2 : (2 : F) ≠ 0) {x1 y1 x2 y2 : F}
    (h1 : (Wc A B).Nonsingular x1 y1) (h2' : (Wc A B).Nonsingular x2 y2) :
    (addSpec A x1 y1 x2 y2 = none ↔ Affine.Point.some x1 y1 h1 + Affine.Point.some x2 y2 h2' = 0) ∧
    ∀ r, addSpec A x1 y1 x2 y2 = some r →
      Rep2 A B r (Affine.Point.some x1 y1 h1 + Affine.Point.some x2 y2 h2') := by
  by_cases hx : x1 = x2
  · subst hx
    by_cases hy : y1 = y2
    · subst hy
      by_cases h0 : y1 = 0
      · exact of_none (by simp [addSpec, h0]) (add_inverse h1 h2' rfl (by rw [h0, neg_zero]))
      · exact of_some (by simp [addSpec, h0]) (tangent_rep h1 (yy_ne h2 h0))
    · refine of_none (by simp [addSpec, hy]) (add_inverse h1 h2' rfl ?_)
      rcases y_eq_or_neg h1 h2' with h | h
      · exact absurd h hy
      · exact h
  · exact of_some (by simp [addSpec, hx]) (chord_rep h1 h2' hx)

theorem dblSpec_correct (h2 : (2 : F) ≠ 0) {x1 y1 : F} (h1 : (Wc A B).Nonsingular x1 y1) :
    (dblSpec A x1 y1 = none ↔ Affine.Point.some x1 y1 h1 + Affine.Point.some x1 y1 h1 = 0) ∧
    ∀ r, dblSpec A x1 y1 = some r →
      Rep2 A B r (Affine.Point.some x1 y1 h1 + Affine.Point.some x1 y1 h1) := by
  by_cases h0 : y1 = 0
  · exact of_none (by simp [dblSpec, h0]) (add_inverse h1 h1 rfl (by rw [h0, neg_zero]))
  · exact of_some (by simp [dblSpec, h0]) (tangent_rep h1 (yy_ne h2 h0))

theorem subSpec_correct {x1 y1 x2 y2 : F}
    (h1 : (Wc A B).Nonsingular x1 y1) (h2' : (Wc A B).Nonsingular x2 y2) :
    (subSpec A x1 y1 x2 y2 = none ↔ Affine.Point.some x1 y1 h1 - Affine.Point.some x2 y2 h2' = 0) ∧
    ∀ r, subSpec A x1 y1 x2 y2 = some r →
      Rep2 A B r (Affine.Point.some x1 y1 h1 - Affine.Point.some x2 y2 h2') := by
  obtain ⟨hn, en⟩ := neg_some h2'
  simp only at hn en
  rw [sub_eq_add_neg, en]
  by_cases hx : x1 = x2
  · subst hx
    by_cases hy : y1 = y2
    · subst hy
      exact of_none (by simp [subSpec]) (add_inverse h1 hn rfl (neg_neg y1).symm)
    · have hyn : y1 = -y2 := by
        rcases y_eq_or_neg h1 h2' with h | h
        · exact absurd h hy
        · exact h
      subst hyn
      refine of_some (by simp [subSpec, hy]) (tangent_rep h1 ?_)
      intro h0
      exact hy (by linear_combination h0)
  · have hc := chord_rep h1 hn hx
    rw [sub_neg_eq_add] at hc
    exact of_some (by simp [subSpec, hx]) hc

end Bee2V.C06.AA

/-
C06 — property theorems for the buffer of `wwNAF` (ww.c): digit count, bit length `naf_len` of the packed
string at every iteration, and the bound `B (2n + 1)` of the caller's buffer (`B = B_PER_W`, `n` words of
scalar).  The model's unbounded `Nat` string is faithful to the C's `wwShHi` on `W_OF_B(naf_len)` words
because `naf < 2^naf_len ≤ 2^(B (2n+1))` at every visited state.
-/
import Bee2V.C06.LemmasNafLen2
namespace Bee2V.C06
open MulL

/-- the instrumented loop computes exactly `nafLoop` -/
theorem nafLoopLen_proj (a w alen fuel i : Nat) (st : NafSt) (len : Nat) :
    (nafLoopLen a w alen fuel i st len).1 = nafLoop a w alen fuel i st :=
  nafLoopLen_fst a w alen fuel i st len

/-- `naf_len` is the bit length of the digit string as `ecMulA` reads it:
    `w` per non-zero digit, 1 per zero digit -/
theorem wwNAFLen_digits {d w : Nat} (hw : 2 ≤ w) (hd : 0 < d) :
    wwNAFLen d w = digitsLen w (decode w (wwNAF d w).2 (wwNAF d w).1 0) :=
  (wwNAFLen_spec hw hd).2.2.2

/-- the header's remark `l ≤ wwBitSize(a) + 1` -/
theorem wwNAF_size_le {d w : Nat} (hw : 2 ≤ w) (hd : 0 < d) : (wwNAF d w).1 ≤ bitSize d + 1 :=
  (wwNAFLen_spec hw hd).1

/-- final bit length: `L ≤ 2 size + (w - 2)` (sharp, see the examples), hence `L ≤ 2 bitSize d + w` -/
theorem wwNAF_len_le {d w : Nat} (hw : 2 ≤ w) (hd : 0 < d) :
    wwNAFLen d w + 2 ≤ 2 * (wwNAF d w).1 + w ∧
    wwNAFLen d w ≤ 2 * (wwNAF d w).1 + (w - 1) ∧
    wwNAFLen d w ≤ 2 * bitSize d + w := by
  obtain ⟨h1, h2, _, _⟩ := wwNAFLen_spec hw hd
  omega

/-- the packed string occupies only `L` bits -/
theorem wwNAF_packed_lt {d w : Nat} (hw : 2 ≤ w) (hd : 0 < d) :
    (wwNAF d w).2 < 2 ^ wwNAFLen d w :=
  (wwNAFLen_spec hw hd).2.2.1

/-- every state visited by the loop of `wwNAF` (with the model's fuel): digit count, `naf_len`, and the
    string fits in `naf_len` bits -/
theorem wwNAF_steps_le {d w : Nat} (hw : 2 ≤ w) (hd : 0 < d) :
    nafLoopAll (fun st len => st.size ≤ bitSize d + 1 ∧ len ≤ 2 * st.size + (w - 1) ∧
        len ≤ 2 * bitSize d + w + 1 ∧ st.naf < 2 ^ len)
      d w (bitSize d) (bitSize d + w + 2) w { window := d % 2 ^ w, naf := 0, size := 0 } 0 := by
  have h0 := lenInv_init hw (Nat.pos_iff_ne_zero.1 hd)
  have := nafLoopAll_lenInv hw (bitSize d + w + 2) _ _ h0
  simp only [Nat.add_zero] at this
  refine nafLoopAll_mono ?_ _ _ _ _ _ _ _ this
  intro st len h
  obtain ⟨r, hr1, hr2, _⟩ := h.amort
  have := h.sz
  exact ⟨by omega, by omega, by omega, h.packed⟩

/-- in the C's units: scalar of `n` words of `B` bits, `2 ≤ w < B`: at every visited state `naf_len`
    and the word count `W_OF_B(naf_len)` handed to `wwShHi` stay inside the `2n+1` words of `naf`, and
    the string has no bit outside them -/
theorem wwNAF_buffer {d w B n : Nat} (hw : 2 ≤ w) (hwB : w < B) (hd : 0 < d) (hdn : d < 2 ^ (B * n)) :
    nafLoopAll (fun st len => len ≤ B * (2 * n + 1) ∧ (len + B - 1) / B ≤ 2 * n + 1 ∧
        st.naf < 2 ^ len ∧ st.naf < 2 ^ (B * (2 * n + 1)))
      d w (bitSize d) (bitSize d + w + 2) w { window := d % 2 ^ w, naf := 0, size := 0 } 0 ∧
    wwNAFLen d w ≤ B * (2 * n + 1) ∧ (wwNAF d w).2 < 2 ^ (B * (2 * n + 1)) := by
  have hbs : bitSize d ≤ B * n := (bitSize_le_iff d _).2 hdn
  have e0 : B * (2 * n + 1) = 2 * (B * n) + B := by ring
  have key : ∀ len, len ≤ 2 * bitSize d + w + 1 → len ≤ B * (2 * n + 1) := by
    intro len h; rw [e0]; omega
  refine ⟨nafLoopAll_mono ?_ _ _ _ _ _ _ _ (wwNAF_steps_le hw hd), ?_, ?_⟩
  · intro st len ⟨_, _, h3, h4⟩
    have hl := key len h3
    refine ⟨hl, ?_, h4, Nat.lt_of_lt_of_le h4 (Nat.pow_le_pow_right (by decide) hl)⟩
    apply Nat.lt_succ_iff.1
    rw [Nat.div_lt_iff_lt_mul (by omega)]
    have e1 : (2 * n + 1).succ * B = B * (2 * n + 1) + B := by
      rw [Nat.succ_mul, Nat.mul_comm]
    rw [e1]; omega
  · exact key _ (by have := (wwNAF_len_le hw hd).2.2; omega)
  · exact Nat.lt_of_lt_of_le (wwNAF_packed_lt hw hd)
      (Nat.pow_le_pow_right (by decide) (key _ (by have := (wwNAF_len_le hw hd).2.2; omega)))

/-- the reads `wwGetBits(naf, i, w)` of `ecMulA`/`ecAddMulA`: a non-zero digit is read at `i` with
    `i + w ≤ L`; a zero digit at `i` with `i + 1 ≤ L` (the C still fetches `w` bits there, i.e. up to
    bit `i + w ≤ L + w - 1`, all of them 0 beyond `L` by `wwNAF_packed_lt`) -/
theorem wwNAF_reads {d w : Nat} (hw : 2 ≤ w) (hd : 0 < d) :
    ReadsOk w (wwNAF d w).2 (wwNAFLen d w) (wwNAF d w).1 0 := by
  have := readsOk_decode hw (wwNAF d w).2 (wwNAF d w).1 0
  rwa [Nat.zero_add, ← wwNAFLen_digits hw hd] at this

/-- …and these `w`-bit fetches stay inside the `2n+1` words whenever `2 w ≤ B + 1`
    (`ecMulA`: `w ≤ 6`, `B ≥ 16`) -/
theorem wwNAF_reads_buffer {d w B n : Nat} (hw : 2 ≤ w) (hwB : 2 * w ≤ B + 1) (hd : 0 < d)
    (hdn : d < 2 ^ (B * n)) : wwNAFLen d w + (w - 1) ≤ B * (2 * n + 1) := by
  have hbs : bitSize d ≤ B * n := (bitSize_le_iff d _).2 hdn
  have e0 : B * (2 * n + 1) = 2 * (B * n) + B := by ring
  have := (wwNAF_len_le hw hd).2.2
  rw [e0]; omega

/-! ### non-vacuity -/

-- 29 = 2^5 - 3 at width 3: digits 1 0 0 0 0 -3, L = 3+1+1+1+1+3
example : (wwNAF 29 3).1 = 6 ∧ wwNAFLen 29 3 = 10 ∧ bitSize 29 = 5 := by decide
example : digitsLen 3 (decode 3 (wwNAF 29 3).2 (wwNAF 29 3).1 0) = 10 := by decide
-- `size = bitSize d + 1` is attained: 15 = 2^4 - 1
example : (wwNAF 15 3).1 = 5 ∧ bitSize 15 = 4 := by decide
-- `L = 2 size + w - 2` is attained: 5 = 1 0 1 at width 3 (suffix rule)
example : (wwNAF 5 3).1 = 3 ∧ wwNAFLen 5 3 = 7 := by decide
example : (wwNAF 29 3).2 < 2 ^ wwNAFLen 29 3 := wwNAF_packed_lt (by decide) (by decide)
example := wwNAF_steps_le (d := 29) (w := 3) (by decide) (by decide)
-- one 16-bit word, all ones, width 6: 17 digits, 27 bits ≤ 48
example : (wwNAF 65535 6).1 = 17 ∧ wwNAFLen 65535 6 = 27 := by decide
example := wwNAF_buffer (d := 65535) (w := 6) (B := 16) (n := 1) (by decide) (by decide) (by decide)
  (by decide)
example := wwNAF_reads (d := 29) (w := 3) (by decide) (by decide)
example : ReadsOk 3 897 10 6 0 := by simp [ReadsOk, getBits]
example := wwNAF_reads_buffer (d := 65535) (w := 6) (B := 16) (n := 1) (by decide) (by decide)
  (by decide) (by decide)

end Bee2V.C06

/-
C06, phase 3 — the renamings used to move the canonical layout (destination 2..4, operands 5..7 and 8..10,
stack from 11) to an arbitrary placement `c a b s`, and the register sets of the aliasing patterns.
-/
import Bee2V.C06.LemmasPlace
import Bee2V.C06.Wrap
namespace Bee2V.C06

/-- `0, 1 ↦ 0, 1` (A, B); `2+k ↦ c+k`; `5+k ↦ a+k`; `8+k ↦ b+k` (k < 3); `11+k ↦ s+k` -/
def rho (c a b s : Nat) (i : Nat) : Nat :=
  if i < 2 then i else if i < 5 then c + (i - 2) else if i < 8 then a + (i - 5)
  else if i < 11 then b + (i - 8) else s + (i - 11)

/-- registers of the canonical layout: all slots (pattern `.n`) -/
def Sn (i : Nat) : Bool := decide (i < 48)
/-- without the slot 5..7 (`c == a`, or one-operand routines in place) -/
def Sca (i : Nat) : Bool := decide (i < 5 ∨ (8 ≤ i ∧ i < 48))
/-- without the slot 8..10 (`c == b`, `a == b`, one-operand routines) -/
def Scb (i : Nat) : Bool := decide (i < 8 ∨ (11 ≤ i ∧ i < 48))
/-- only destination and stack (everything aliased) -/
def Sc (i : Nat) : Bool := decide (i < 5 ∨ (11 ≤ i ∧ i < 48))

/-- three disjoint 3-register blocks above A, B and below the stack -/
theorem rho_inj_n {c a b s : Nat} (hc : 2 ≤ c) (ha : 2 ≤ a) (hb : 2 ≤ b)
    (hca : c + 3 ≤ a ∨ a + 3 ≤ c) (hcb : c + 3 ≤ b ∨ b + 3 ≤ c) (hab : a + 3 ≤ b ∨ b + 3 ≤ a)
    (hcs : c + 3 ≤ s) (has : a + 3 ≤ s) (hbs : b + 3 ≤ s) :
    ∀ i j, Sn i = true → Sn j = true → rho c a b s i = rho c a b s j → i = j := by
  intro i j _ _
  simp only [rho]
  repeat' split
  all_goals omega

theorem rho_inj_ca {c a b s : Nat} (hc : 2 ≤ c) (hb : 2 ≤ b)
    (hcb : c + 3 ≤ b ∨ b + 3 ≤ c) (hcs : c + 3 ≤ s) (hbs : b + 3 ≤ s) :
    ∀ i j, Sca i = true → Sca j = true → rho c a b s i = rho c a b s j → i = j := by
  intro i j hi hj
  simp only [Sca, decide_eq_true_eq] at hi hj
  simp only [rho]
  repeat' split
  all_goals omega

theorem rho_inj_cb {c a b s : Nat} (hc : 2 ≤ c) (ha : 2 ≤ a)
    (hca : c + 3 ≤ a ∨ a + 3 ≤ c) (hcs : c + 3 ≤ s) (has : a + 3 ≤ s) :
    ∀ i j, Scb i = true → Scb j = true → rho c a b s i = rho c a b s j → i = j := by
  intro i j hi hj
  simp only [Scb, decide_eq_true_eq] at hi hj
  simp only [rho]
  repeat' split
  all_goals omega

theorem rho_inj_c {c a b s : Nat} (hc : 2 ≤ c) (hcs : c + 3 ≤ s) :
    ∀ i j, Sc i = true → Sc j = true → rho c a b s i = rho c a b s j → i = j := by
  intro i j hi hj
  simp only [Sc, decide_eq_true_eq] at hi hj
  simp only [rho]
  repeat' split
  all_goals omega

end Bee2V.C06

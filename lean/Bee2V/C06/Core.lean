/-
C06 — executable model, part 1: field operations, register store, instruction set, programs.

The routines of `src/math/ecp.c` are rendered as *programs* (`Prog`): the literal sequence of
field operations (`qrSqr`, `qrMul`, `zmAdd`, `zmSub`, `zmNeg`, `gfpDouble`, `gfpHalf`, `qrCopy`,
`qrSetZero`, `qrSetUnity`, `qrInv`, `qrDiv`, `qrPower`) on a store of field elements, with the
branch structure of the C (`qrIsZero`, `qrCmp == 0`, `qrIsUnity`).  Operands are *store indices*, so
the aliasings `c == a`, `c == b`, `a == b` are expressible and a program that reads an input after
its storage was reused for an output computes what the C computes.

The interpreter is generic over a record of field operations `Fld F`:
  * `natFld p : Fld Nat`  — residues mod p as naturals (what the driver runs),
  * `Lemmas`: `fieldFld F : Fld F` for any field (what the theorems are about) and the simulation
    theorem relating `natFld p` to `fieldFld (ZMod p)`.
No Mathlib here (the driver `drv_c06` imports this file).
-/
namespace Bee2V.C06

/-- the operations of `qr_o`/`zm`/`gfp` that `ecp.c` uses -/
structure Fld (F : Type) where
  zero : F
  one : F
  add : F → F → F
  sub : F → F → F
  mul : F → F → F
  neg : F → F
  dbl : F → F          -- gfpDouble
  half : F → F         -- gfpHalf
  inv : F → F          -- qrInv
  pow : F → Nat → F    -- qrPower
  eqb : F → F → Bool   -- qrCmp(..) == 0

/-- square-and-multiply, `a^e mod p` (exponents have up to 512 bits) -/
def powMod (a e p : Nat) : Nat :=
  if h : e = 0 then 1 % p else
    let r := powMod a (e / 2) p
    let s := r * r % p
    if e % 2 = 1 then s * a % p else s
termination_by e
decreasing_by omega

/-- GF(p) on canonical residues `0 ≤ x < p` (p an odd prime).  `half` is `zzHalfMod`:
    `a/2` for even `a`, `(a+p)/2` for odd `a`; `inv` is `a^(p-2)`. -/
def natFld (p : Nat) : Fld Nat where
  zero := 0
  one := 1 % p
  add a b := (a + b) % p
  sub a b := (a + (p - b % p)) % p
  mul a b := a * b % p
  neg a := (p - a % p) % p
  dbl a := (a + a) % p
  half a := if a % 2 = 0 then a / 2 else (a + p) / 2
  inv a := powMod a (p - 2) p
  pow a e := powMod a e p
  eqb a b := a == b

/-- field instructions; `d` is the destination index -/
inductive Instr where
  | sqr (d a : Nat)
  | mul (d a b : Nat)
  | add (d a b : Nat)
  | sub (d a b : Nat)
  | neg (d a : Nat)
  | dbl (d a : Nat)
  | half (d a : Nat)
  | copy (d a : Nat)
  | zero (d : Nat)
  | one (d : Nat)
  | inv (d a : Nat)
  | div (d a b : Nat)        -- d <- a / b   (qrDiv)
  | pow (d a : Nat) (e : Nat)
  deriving Repr, DecidableEq

/-- structured programs: straight-line code, the three tests the C uses, and `return` -/
inductive Prog where
  | ret (b : Bool)
  | seq (i : Instr) (k : Prog)
  | ifz (r : Nat) (t e : Prog)        -- if (qrIsZero(r)) t else e
  | ifeq (r s : Nat) (t e : Prog)     -- if (qrCmp(r, s) == 0) t else e
  | ifone (r : Nat) (t e : Prog)      -- if (qrIsUnity(r)) t else e
  deriving Repr, DecidableEq

/-- register store.  (A structure around the function, not a bare `Nat → F`: the compiler would
    otherwise eta-expand `exec`/`run` and recompute an instruction at every read of its result.) -/
structure Store (F : Type) where
  get : Nat → F

def upd {F : Type} (st : Store F) (d : Nat) (v : F) : Store F :=
  ⟨fun i => if i = d then v else st.get i⟩

def Instr.exec {F : Type} (f : Fld F) (st : Store F) : Instr → Store F
  | .sqr d a => upd st d (f.mul (st.get a) (st.get a))
  | .mul d a b => upd st d (f.mul (st.get a) (st.get b))
  | .add d a b => upd st d (f.add (st.get a) (st.get b))
  | .sub d a b => upd st d (f.sub (st.get a) (st.get b))
  | .neg d a => upd st d (f.neg (st.get a))
  | .dbl d a => upd st d (f.dbl (st.get a))
  | .half d a => upd st d (f.half (st.get a))
  | .copy d a => upd st d (st.get a)
  | .zero d => upd st d f.zero
  | .one d => upd st d f.one
  | .inv d a => upd st d (f.inv (st.get a))
  | .div d a b => upd st d (f.mul (st.get a) (f.inv (st.get b)))
  | .pow d a e => upd st d (f.pow (st.get a) e)

def Prog.run {F : Type} (f : Fld F) : Prog → Store F → Store F × Bool
  | .ret b, st => (st, b)
  | .seq i k, st => k.run f (i.exec f st)
  | .ifz r t e, st => if f.eqb (st.get r) f.zero then t.run f st else e.run f st
  | .ifeq r s t e, st => if f.eqb (st.get r) (st.get s) then t.run f st else e.run f st
  | .ifone r t e, st => if f.eqb (st.get r) f.one then t.run f st else e.run f st

/-- a block of straight-line code followed by a continuation -/
def Prog.block : List Instr → Prog → Prog
  | [], k => k
  | i :: is, k => .seq i (Prog.block is k)

/-- registers of the curve coefficients (`ec->A`, `ec->B`), read-only -/
abbrev rA : Nat := 0
abbrev rB : Nat := 1

/-- coordinates of the point stored at base index `q` (`ecX`, `ecY`, `ecZ`) -/
abbrev cX (q : Nat) : Nat := q
abbrev cY (q : Nat) : Nat := q + 1
abbrev cZ (q : Nat) : Nat := q + 2

end Bee2V.C06

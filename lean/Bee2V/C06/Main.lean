import Bee2V.C06.Drv
/-- driver executable of area C06 (`drv_c06`) -/
def main : IO Unit := Bee2V.Proto.runLoop Bee2V.C06.Drv.handle

/-
C06 — composition: representation relations for what the driver runs (residues mod p as naturals).
`RepN3 p A B q P`: the triple of naturals `q` is reduced (`< p`) and its image in `ZMod p` stands
for the point `P` of `y² = x³ + Ax + B` over `ZMod p`.
-/
import Bee2V.C06.LemmasSim2
namespace Bee2V.C06
open WeierstrassCurve

def RepN3 (p : Nat) [Fact p.Prime] (A B : Nat) (q : P3 Nat) (P : (Wc (A : ZMod p) (B : ZMod p)).Point) : Prop :=
  Sim.Red3 p q ∧ Rep3 (A : ZMod p) (B : ZMod p) (Sim.cast3 p q) P

def RepN2 (p : Nat) [Fact p.Prime] (A B : Nat) (q : P2 Nat) (P : (Wc (A : ZMod p) (B : ZMod p)).Point) : Prop :=
  Sim.Red2 p q ∧ Rep2 (A : ZMod p) (B : ZMod p) (Sim.cast2 p q) P

/-- for the non-vacuity examples (used as a local instance) -/
theorem fact_prime_23 : Fact (Nat.Prime 23) := ⟨by decide⟩

end Bee2V.C06

/-
C06 / tripling, part 2: the closed form `tplOut` represents `P + P + P` for every input.
Affine coordinates `x = X/Z²`, `y = Y/Z³`, `m = 3x² + A`, `e = 12xy² − m²`, `u = 2me − 16y⁴`:
`tplOut = (4Z¹⁸(xe² − 4y²u), 8yZ²⁷(u(16y⁴ − u) − e³), 2Z⁹e)`, and `x(2P) − x(P) = −e/(4y²)`.
  * `Z = 0`: `Z₃ = 0`;
  * `y = 0` (order two): `2P = O`, `3P = P`, `e = −m²`, `m ≠ 0` by nonsingularity, output ≅ `(x, 0)`;
  * `y ≠ 0`, `e = 0` (order three): `2P = (x, −y) = −P`, `3P = O`, `Z₃ = 0`;
  * `y ≠ 0`, `e ≠ 0`: chord of `2P` and `P`.
Only `2 ≠ 0` is used (`3 ≠ 0` is not needed).
-/
import Bee2V.C06.LemmasTpl
namespace Bee2V.C06.Tpl
open WeierstrassCurve
set_option linter.unusedSectionVars false
set_option linter.unusedVariables false
variable {F : Type} [Field F] [DecidableEq F] {A B : F}

/-- order two: `y = 0`, `3P = P` -/
theorem tpl_affine_y0 {x y Z m e u : F} (h : (Wc A B).Nonsingular x y) (hy : y = 0) (hZ : Z ≠ 0)
    (h2 : (2 : F) ≠ 0) (hm : m = 3 * x ^ 2 + A) (he : e = 12 * x * y ^ 2 - m ^ 2)
    (hu : u = 2 * m * e - 16 * y ^ 4) :
    Rep3 A B (4 * Z ^ 18 * (x * e ^ 2 - 4 * y ^ 2 * u),
        8 * y * Z ^ 27 * (u * (16 * y ^ 4 - u) - e ^ 3), 2 * Z ^ 9 * e)
      (Affine.Point.some x y h + Affine.Point.some x y h + Affine.Point.some x y h) := by
  subst hy
  have hm0 : m ≠ 0 := by
    rcases ((Wc_nonsingular A B x 0).1 h).2 with h' | h'
    · rwa [hm]
    · simp at h'
  have e0 : Affine.Point.some x 0 h + Affine.Point.some x 0 h = 0 := add_inverse h h rfl (by simp)
  rw [e0, zero_add]
  have he' : e = - m ^ 2 := by rw [he]; ring
  have hz3 : 2 * Z ^ 9 * e ≠ 0 := by
    rw [he']; exact mul_ne_zero (mul_ne_zero h2 (pow_ne_zero _ hZ)) (neg_ne_zero.2 (pow_ne_zero _ hm0))
  unfold Rep3
  simp only []
  rw [if_neg hz3]
  refine Rep2_of_eq ⟨h, rfl⟩ ?_ ?_
  · rw [he']; field_simp; ring
  · simp

theorem tangent_ex {x y : F} (h : (Wc A B).Nonsingular x y) (hy : y + y ≠ 0) :
    ∃ l x₂ y₂, ∃ h' : (Wc A B).Nonsingular x₂ y₂, l = (3 * x ^ 2 + A) / (y + y) ∧ x₂ = l ^ 2 - x - x ∧
      y₂ = l * (x - x₂) - y ∧
      Affine.Point.some x y h + Affine.Point.some x y h = Affine.Point.some x₂ y₂ h' := by
  obtain ⟨h', e⟩ := add_tangent h hy
  exact ⟨_, _, _, h', rfl, rfl, rfl, e⟩

/-- generic case, x-coordinate: atoms `x y l Z`, `m = 2yl`, `d = x₂ − x = l² − 3x`, `e = −4y²d` -/
theorem gen_x {x y l Z d : F} (hy : y ≠ 0) (hZ : Z ≠ 0) (h2 : (2 : F) ≠ 0) (hd : d ≠ 0)
    (hdd : d = l ^ 2 - 3 * x) :
    ((l * (x - (x + d)) - y - y) / d) ^ 2 - (x + d) - x =
      4 * Z ^ 18 * (x * (-(4 * y ^ 2 * d)) ^ 2 - 4 * y ^ 2 * (2 * (l * (2 * y)) * (-(4 * y ^ 2 * d)) - 16 * y ^ 4)) /
        (2 * Z ^ 9 * (-(4 * y ^ 2 * d))) ^ 2 := by
  have h4 : (4 : F) ≠ 0 := by
    have : (4 : F) = 2 * 2 := by norm_num
    rw [this]; exact mul_ne_zero h2 h2
  field_simp
  rw [hdd]
  ring
theorem gen_y {x y l Z d : F} (hy : y ≠ 0) (hZ : Z ≠ 0) (h2 : (2 : F) ≠ 0) (hd : d ≠ 0)
    (hdd : d = l ^ 2 - 3 * x) :
    ((l * (x - (x + d)) - y - y) / d) * ((x + d) - (((l * (x - (x + d)) - y - y) / d) ^ 2 - (x + d) - x))
        - (l * (x - (x + d)) - y) =
      8 * y * Z ^ 27 * ((2 * (l * (2 * y)) * (-(4 * y ^ 2 * d)) - 16 * y ^ 4) *
          (16 * y ^ 4 - (2 * (l * (2 * y)) * (-(4 * y ^ 2 * d)) - 16 * y ^ 4)) - (-(4 * y ^ 2 * d)) ^ 3) /
        (2 * Z ^ 9 * (-(4 * y ^ 2 * d))) ^ 3 := by
  have h4 : (4 : F) ≠ 0 := by
    have : (4 : F) = 2 * 2 := by norm_num
    rw [this]; exact mul_ne_zero h2 h2
  field_simp
  rw [hdd]
  ring

/-- `y ≠ 0` -/
theorem tpl_affine_y {x y Z m e u : F} (h : (Wc A B).Nonsingular x y) (hy : y ≠ 0) (hZ : Z ≠ 0) (h2 : (2 : F) ≠ 0)
    (hm : m = 3 * x ^ 2 + A) (he : e = 12 * x * y ^ 2 - m ^ 2) (hu : u = 2 * m * e - 16 * y ^ 4) :
    Rep3 A B (4 * Z ^ 18 * (x * e ^ 2 - 4 * y ^ 2 * u), 8 * y * Z ^ 27 * (u * (16 * y ^ 4 - u) - e ^ 3), 2 * Z ^ 9 * e)
      (Affine.Point.some x y h + Affine.Point.some x y h + Affine.Point.some x y h) := by
  have hyy : y + y ≠ 0 := by rw [← two_mul]; exact mul_ne_zero h2 hy
  obtain ⟨l, x₂, y₂, h', hl, hx2, hy2, e2⟩ := tangent_ex h hyy
  rw [e2]
  rw [← hm] at hl
  have hlm : l * (2 * y) = m := by rw [hl, ← two_mul]; field_simp
  have h4' : (4 : F) ≠ 0 := by
    have : (4 : F) = 2 * 2 := by norm_num
    rw [this]; exact mul_ne_zero h2 h2
  have hxe : (x₂ - x) * (4 * y ^ 2) = - e := by rw [hx2, he, ← hlm]; ring
  have h4 : (4 : F) * y ^ 2 ≠ 0 := mul_ne_zero h4' (pow_ne_zero _ hy)
  unfold Rep3
  simp only []
  by_cases he0 : e = 0
  · have hx : x₂ = x := by
      have : (x₂ - x) * (4 * y ^ 2) = 0 := by rw [hxe, he0, neg_zero]
      rcases mul_eq_zero.1 this with h0 | h0
      · exact sub_eq_zero.1 h0
      · exact absurd h0 h4
    have hyn : y₂ = -y := by rw [hy2, hx]; ring
    rw [if_pos (by rw [he0, mul_zero])]
    exact add_inverse h' h hx hyn
  · have hx : x₂ ≠ x := by
      intro hx; apply he0
      have : -e = 0 := by rw [← hxe, hx, sub_self, zero_mul]
      exact neg_eq_zero.1 this
    have hz3 : 2 * Z ^ 9 * e ≠ 0 := mul_ne_zero (mul_ne_zero h2 (pow_ne_zero _ hZ)) he0
    rw [if_neg hz3]
    obtain ⟨d, hd⟩ : ∃ d, d = x₂ - x := ⟨_, rfl⟩
    have hd' : x₂ - x = d := hd.symm
    have hxd : x₂ = x + d := by rw [hd]; ring
    have hdne : d ≠ 0 := by rw [hd]; exact sub_ne_zero.2 hx
    have hdd : d = l ^ 2 - 3 * x := by rw [hd, hx2]; ring
    have hee : e = -(4 * y ^ 2 * d) := by rw [hd]; linear_combination hxe
    refine Rep2_of_eq (add_chord h' h hx) ?_ ?_
    · rw [hy2, hd', hxd, hu, hee, ← hlm]
      exact gen_x hy hZ h2 hdne hdd
    · rw [hy2, hd', hxd, hu, hee, ← hlm]
      exact gen_y hy hZ h2 hdne hdd

/-- every affine point -/
theorem tpl_affine {x y Z m e u : F} (h : (Wc A B).Nonsingular x y) (hZ : Z ≠ 0) (h2 : (2 : F) ≠ 0)
    (hm : m = 3 * x ^ 2 + A) (he : e = 12 * x * y ^ 2 - m ^ 2) (hu : u = 2 * m * e - 16 * y ^ 4) :
    Rep3 A B (4 * Z ^ 18 * (x * e ^ 2 - 4 * y ^ 2 * u),
        8 * y * Z ^ 27 * (u * (16 * y ^ 4 - u) - e ^ 3), 2 * Z ^ 9 * e)
      (Affine.Point.some x y h + Affine.Point.some x y h + Affine.Point.some x y h) := by
  by_cases hy : y = 0
  · exact tpl_affine_y0 h hy hZ h2 hm he hu
  · exact tpl_affine_y h hy hZ h2 hm he hu

/-- `tplOut` in affine coordinates -/
theorem tplOut_affine (x y Z : F) :
    tplOut A (x * Z ^ 2) (y * Z ^ 3) Z =
      (4 * Z ^ 18 * (x * (12 * x * y ^ 2 - (3 * x ^ 2 + A) ^ 2) ^ 2 - 4 * y ^ 2 *
          (2 * (3 * x ^ 2 + A) * (12 * x * y ^ 2 - (3 * x ^ 2 + A) ^ 2) - 16 * y ^ 4)),
       8 * y * Z ^ 27 * ((2 * (3 * x ^ 2 + A) * (12 * x * y ^ 2 - (3 * x ^ 2 + A) ^ 2) - 16 * y ^ 4) *
          (16 * y ^ 4 - (2 * (3 * x ^ 2 + A) * (12 * x * y ^ 2 - (3 * x ^ 2 + A) ^ 2) - 16 * y ^ 4)) -
          (12 * x * y ^ 2 - (3 * x ^ 2 + A) ^ 2) ^ 3),
       2 * Z ^ 9 * (12 * x * y ^ 2 - (3 * x ^ 2 + A) ^ 2)) := by
  obtain ⟨m, hm⟩ : ∃ m, m = 3 * x ^ 2 + A := ⟨_, rfl⟩
  rw [← hm]
  obtain ⟨e, he⟩ : ∃ e, e = 12 * x * y ^ 2 - m ^ 2 := ⟨_, rfl⟩
  rw [← he]
  obtain ⟨u, hu⟩ : ∃ u, u = 2 * m * e - 16 * y ^ 4 := ⟨_, rfl⟩
  rw [← hu]
  have hM : tM A (x * Z ^ 2) Z = Z ^ 4 * m := by rw [tM, hm]; ring
  have hE : tE A (x * Z ^ 2) (y * Z ^ 3) Z = Z ^ 8 * e := by rw [tE, hM, he]; ring
  have hU : tU A (x * Z ^ 2) (y * Z ^ 3) Z = Z ^ 12 * u := by rw [tU, hM, hE, hu]; ring
  rw [tplOut, hU, hE]
  refine Prod.ext ?_ (Prod.ext ?_ ?_) <;> simp only [] <;> ring

/-- the closed form represents `3P`, every case -/
theorem tplOut_ok {p : P3 F} {P : (Wc A B).Point} (h2 : (2 : F) ≠ 0) (hp : Rep3 A B p P) :
    Rep3 A B (tplOut A p.1 p.2.1 p.2.2) (P + P + P) := by
  obtain ⟨X, Y, Z⟩ := p
  unfold Rep3 at hp
  simp only [] at hp ⊢
  by_cases hZ : Z = 0
  · rw [if_pos hZ] at hp
    subst hp; subst hZ
    unfold Rep3
    simp [tplOut]
  · rw [if_neg hZ] at hp
    obtain ⟨h, rfl⟩ := hp
    have hX : X = X / Z ^ 2 * Z ^ 2 := by field_simp
    have hY : Y = Y / Z ^ 3 * Z ^ 3 := by field_simp
    simp only [] at h ⊢
    generalize X / Z ^ 2 = x at h hX ⊢
    generalize Y / Z ^ 3 = y at h hY ⊢
    subst hX; subst hY
    rw [tplOut_affine]
    exact tpl_affine h hZ h2 rfl rfl rfl
end Bee2V.C06.Tpl

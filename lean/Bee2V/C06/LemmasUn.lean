/-
C06 — one-operand routines of `ecp.c` (`ecpNegJ`, `ecpDblJ`, `ecpDblJA3`, `ecpDblAJ`, `ecpFromAJ`,
`ecpToAJ`, `ecpNegA`, `ecpIsOnA`): symbolic execution on the canonical store (distinct operands `.n`
and in-place `.ca`) and the doubling formulas against Mathlib's group law.
-/
import Bee2V.C06.Spec
import Mathlib.Tactic.Ring
import Mathlib.Tactic.FieldSimp
import Mathlib.Tactic.LinearCombination
namespace Bee2V.C06.Un
open Bee2V.C06 WeierstrassCurve

set_option linter.unusedSectionVars false
set_option linter.unusedSimpArgs false
set_option linter.unusedVariables false
variable {F : Type} [Field F] [DecidableEq F] {A B : F}

/-! ### `Rep3` / `Rep2` bookkeeping -/

theorem rep3_O {p : P3 F} (h : p.2.2 = 0) : Rep3 A B p 0 := by
  unfold Rep3; simp [h]

theorem rep3_z0 {X Y Z : F} {P : (Wc A B).Point} (hp : Rep3 A B (X, Y, Z) P) (hz : Z = 0) : P = 0 := by
  unfold Rep3 at hp; simpa [hz] using hp

theorem rep3_nz {X Y Z : F} {P : (Wc A B).Point} (hp : Rep3 A B (X, Y, Z) P) (hz : Z ≠ 0) :
    ∃ h : (Wc A B).Nonsingular (X / Z ^ 2) (Y / Z ^ 3), P = .some (X / Z ^ 2) (Y / Z ^ 3) h := by
  unfold Rep3 at hp; simp only [hz, if_false] at hp; exact hp

theorem rep3_of_rep2 {X Y Z : F} {P : (Wc A B).Point} (hz : Z ≠ 0)
    (h : Rep2 A B (X / Z ^ 2, Y / Z ^ 3) P) : Rep3 A B (X, Y, Z) P := by
  unfold Rep3; simp only [hz, if_false]; exact h

/-- a point of order two: `y = 0` -/
theorem add_self_y0 {x y : F} (h : (Wc A B).Nonsingular x y) (hy : y = 0) :
    Affine.Point.some x y h + Affine.Point.some x y h = 0 :=
  add_inverse h h rfl (by rw [hy, neg_zero])

theorem one_add_one_ne (h2 : (2 : F) ≠ 0) : (1 : F) + 1 ≠ 0 := by
  rw [one_add_one_eq_two]; exact h2

/-! ### the doubling formulas -/

/-- output of `ecpDblJ`/`ecpDblJA3` as a function of `M = 3X² + AZ⁴` -/
def dblForm (M X Y Z : F) : P3 F :=
  (M * M - (Y + Y) * (Y + Y) * X - (Y + Y) * (Y + Y) * X,
   ((Y + Y) * (Y + Y) * X - (M * M - (Y + Y) * (Y + Y) * X - (Y + Y) * (Y + Y) * X)) * M
     - (Y + Y) * (Y + Y) * ((Y + Y) * (Y + Y)) / 2,
   Y * Z + Y * Z)

theorem dbl_math (h2 : (2 : F) ≠ 0) {X Y Z M : F} {P : (Wc A B).Point} (hp : Rep3 A B (X, Y, Z) P)
    (hz : Z ≠ 0) (hy : Y ≠ 0) (hM : M = 3 * X ^ 2 + A * Z ^ 4) :
    Rep3 A B (dblForm M X Y Z) (P + P) := by
  obtain ⟨h, rfl⟩ := rep3_nz hp hz
  have h11 := one_add_one_ne h2
  have hyy : Y / Z ^ 3 + Y / Z ^ 3 ≠ 0 := by
    rw [← two_mul]; exact mul_ne_zero h2 (div_ne_zero hy (pow_ne_zero _ hz))
  have hZ' : Y * Z + Y * Z ≠ 0 := by
    rw [← two_mul]; exact mul_ne_zero h2 (mul_ne_zero hy hz)
  subst hM
  refine rep3_of_rep2 hZ' (Rep2_of_eq (add_tangent h hyy) ?_ ?_)
  · field_simp
  · field_simp; ring

/-- output of `ecpDblAJ` -/
def dblaForm (A X Y : F) : P3 F :=
  ((X * X + X * X + X * X + A) * (X * X + X * X + X * X + A) -
        ((Y * Y + X) * (Y * Y + X) - X * X - Y * Y * (Y * Y) + ((Y * Y + X) * (Y * Y + X) - X * X - Y * Y * (Y * Y)) +
          ((Y * Y + X) * (Y * Y + X) - X * X - Y * Y * (Y * Y) +
            ((Y * Y + X) * (Y * Y + X) - X * X - Y * Y * (Y * Y)))),
   (X * X + X * X + X * X + A) *
            ((Y * Y + X) * (Y * Y + X) - X * X - Y * Y * (Y * Y) +
                ((Y * Y + X) * (Y * Y + X) - X * X - Y * Y * (Y * Y)) -
              ((X * X + X * X + X * X + A) * (X * X + X * X + X * X + A) -
                ((Y * Y + X) * (Y * Y + X) - X * X - Y * Y * (Y * Y) +
                    ((Y * Y + X) * (Y * Y + X) - X * X - Y * Y * (Y * Y)) +
                  ((Y * Y + X) * (Y * Y + X) - X * X - Y * Y * (Y * Y) +
                    ((Y * Y + X) * (Y * Y + X) - X * X - Y * Y * (Y * Y)))))) -
          (Y * Y * (Y * Y) + Y * Y * (Y * Y) + (Y * Y * (Y * Y) + Y * Y * (Y * Y)) +
            (Y * Y * (Y * Y) + Y * Y * (Y * Y) + (Y * Y * (Y * Y) + Y * Y * (Y * Y)))),
   Y + Y)

theorem dbla_math (h2 : (2 : F) ≠ 0) {X Y : F} {P : (Wc A B).Point} (hp : Rep2 A B (X, Y) P)
    (hy : Y ≠ 0) : Rep3 A B (dblaForm A X Y) (P + P) := by
  obtain ⟨h, rfl⟩ := hp
  have h11 := one_add_one_ne h2
  have hyy : Y + Y ≠ 0 := by rw [← two_mul]; exact mul_ne_zero h2 hy
  refine rep3_of_rep2 hyy (Rep2_of_eq (add_tangent h hyy) ?_ ?_)
  · field_simp; ring
  · field_simp; ring

end Bee2V.C06.Un

/-
C06, round 3 — `ecpSWU`, BOTH branches made explicit (the library's test vectors only reach the
quadratic-residue branch).  With `t = −a²`, `x1 = −B(1 + t + t²)(A(t + t²))^(p−2)`, `g(x) = x³ + Ax + B`:
  * `swu_branch_square`   : `g(x1)` a non-zero square  ⇒ the output is `(x1, y)` with `y² = g(x1)`;
  * `swu_branch_nonsquare`: `g(x1)` zero or a non-square ⇒ the output is `(t·x1, s·a³·g(x1))`, `s = g(x1)^((p−1)−(p+1)/4)`
    (and by `swu_on_curve` this is a point of the curve whenever `a ∉ {0, ±1}`),
i.e. the selection `mask = qrIsUnity(t² y) − 1` of the C is exactly the quadratic-residue test of STB 34.101.66.
(`swu_on_curve`, `swu_off_curve` in PropsSWU.lean cover both branches at once; these two say WHICH branch is taken
and what it returns.)
-/
import Bee2V.C06.LemmasSWU2
namespace Bee2V.C06
open SWU

variable (p : Nat) [Fact p.Prime]

theorem swu_branch_square (hp : p % 4 = 3) (A B a : ZMod p)
    (h0 : gF A B (x1F p A B a) ≠ 0) (hsq : IsSquare (gF A B (x1F p A B a))) :
    (swu p (curveF A B) a).1 = x1F p A B a ∧
    (swu p (curveF A B) a).2 ^ 2 = gF A B (x1F p A B a) := by
  have he : gF A B (x1F p A B a) ^ (p / 2) = 1 := (ZMod.euler_criterion p h0).1 hsq
  have hs := s_sq_mul hp _ h0
  rw [he] at hs
  rw [swu_eq]
  simp only [swuSpec, hs, if_true]
  refine ⟨by simp, ?_⟩
  linear_combination (gF A B (x1F p A B a)) * hs

theorem swu_branch_nonsquare (hp : p % 4 = 3) (A B a : ZMod p)
    (h : gF A B (x1F p A B a) = 0 ∨ ¬ IsSquare (gF A B (x1F p A B a))) :
    swu p (curveF A B) a =
      (x1F p A B a * tF a,
        gF A B (x1F p A B a) ^ (p - 2 - p / 4) * (a * a * a * gF A B (x1F p A B a))) := by
  have hne : gF A B (x1F p A B a) ^ (p - 2 - p / 4) * gF A B (x1F p A B a) ^ (p - 2 - p / 4) *
      gF A B (x1F p A B a) ≠ 1 := by
    rcases h with h | h
    · rw [h]; simp
    · have h0 : gF A B (x1F p A B a) ≠ 0 := fun h0 => h (by rw [h0]; exact ⟨0, by simp⟩)
      rw [s_sq_mul hp _ h0]
      exact fun he => h ((ZMod.euler_criterion p h0).2 he)
  rw [swu_eq]
  simp only [swuSpec, hne, if_false]

attribute [local instance] SWU.prime7 in
/-- non-vacuity of the non-residue branch: p = 7, A = 1, B = 3, a = 2: g(x1) is a non-residue, output (6, 6) -/
example : swu 7 (curveF (1 : ZMod 7) 3) 2 = (6, 6) ∧ ¬ IsSquare (gF (1 : ZMod 7) 3 (x1F 7 1 3 2)) := by
  constructor
  · decide +kernel
  · intro ⟨r, hr⟩
    have : ∀ r : ZMod 7, gF (1 : ZMod 7) 3 (x1F 7 1 3 2) ≠ r * r := by decide +kernel
    exact this r hr

end Bee2V.C06

/-
C06, stage 2 — ec2SubLD: symbolic execution of `run2 (curveB A B) ec2SubLD al` per branch and aliasing.
`ec2SubLD(c, a, b)` writes `t = (X₂, X₂Z₂ + Y₂, Z₂)` into the scratch and calls `ec2AddLD(c, a, t)`; the closed
forms are those of `ec2AddLD` on `(X₂, X₂Z₂ + Y₂, Z₂)`.
-/
import Bee2V.C06.LemmasBAdd
namespace Bee2V.C06.BAdd
open WeierstrassCurve
set_option linter.unusedSimpArgs false
set_option linter.unusedVariables false
set_option linter.unusedSectionVars false
variable {F : Type} [Field F] [DecidableEq F] [CharP F 2] {A B : F}

theorem sub_exec_aO {al : Al} (hal : al = .n ∨ al = .ca ∨ al = .cb) (X1 Y1 Z1 X2 Y2 Z2 : F) (h1 : Z1 = 0) :
    run2 (curveB A B) ec2SubLD al (X1, Y1, Z1) (X2, Y2, Z2) = (X2, X2 * Z2 + Y2, Z2) := by
  subst h1
  rcases hal with rfl | rfl | rfl <;> exec_simp []

theorem sub_exec_bO {al : Al} (hal : al = .n ∨ al = .ca ∨ al = .cb) (X1 Y1 Z1 X2 Y2 Z2 : F) (h1 : Z1 ≠ 0)
    (h2 : Z2 = 0) :
    run2 (curveB A B) ec2SubLD al (X1, Y1, Z1) (X2, Y2, Z2) = (X1, Y1, Z1) := by
  subst h2
  rcases hal with rfl | rfl | rfl <;> exec_simp [h1]

theorem sub_exec_gen {al : Al} (hal : al = .n ∨ al = .ca ∨ al = .cb) (X1 Y1 Z1 X2 Y2 Z2 : F)
    (h1 : Z1 ≠ 0) (h2 : Z2 ≠ 0) (hA : aa X1 Z2 ≠ aa X2 Z1) :
    run2 (curveB A B) ec2SubLD al (X1, Y1, Z1) (X2, Y2, Z2) = addG X1 Y1 Z1 X2 (X2 * Z2 + Y2) Z2 := by
  unfold aa at hA
  rcases hal with rfl | rfl | rfl <;> exec_simp [h1, h2, hA] <;> close_form

theorem sub_exec_opp {al : Al} (hal : al = .n ∨ al = .ca ∨ al = .cb) (X1 Y1 Z1 X2 Y2 Z2 : F)
    (h1 : Z1 ≠ 0) (h2 : Z2 ≠ 0) (hA : aa X1 Z2 = aa X2 Z1) (hG : gg Y1 Z2 ≠ gg (X2 * Z2 + Y2) Z1) :
    (run2 (curveB A B) ec2SubLD al (X1, Y1, Z1) (X2, Y2, Z2)).2.2 = 0 := by
  unfold aa at hA; unfold gg at hG
  rcases hal with rfl | rfl | rfl <;> exec_simp [h1, h2, hA, hG]

theorem sub_exec_eq0 {al : Al} (hal : al = .n ∨ al = .ca ∨ al = .cb) (X1 Y1 Z1 X2 Y2 Z2 : F)
    (h1 : Z1 ≠ 0) (h2 : Z2 ≠ 0) (hA : aa X1 Z2 = aa X2 Z1) (hG : gg Y1 Z2 = gg (X2 * Z2 + Y2) Z1) (hX : X1 = 0) :
    (run2 (curveB A B) ec2SubLD al (X1, Y1, Z1) (X2, Y2, Z2)).2.2 = 0 := by
  subst hX; unfold aa at hA; unfold gg at hG
  rcases hal with rfl | rfl | rfl <;> exec_simp [h1, h2, hA, hG]

theorem sub_exec_eq {al : Al} (hal : al = .n ∨ al = .ca ∨ al = .cb) (X1 Y1 Z1 X2 Y2 Z2 : F)
    (h1 : Z1 ≠ 0) (h2 : Z2 ≠ 0) (hA : aa X1 Z2 = aa X2 Z1) (hG : gg Y1 Z2 = gg (X2 * Z2 + Y2) Z1) (hX : X1 ≠ 0) :
    run2 (curveB A B) ec2SubLD al (X1, Y1, Z1) (X2, Y2, Z2) = dblG A X1 Y1 Z1 := by
  unfold aa at hA; unfold gg at hG
  by_cases hA1 : A = 1
  · subst hA1
    rcases hal with rfl | rfl | rfl <;> exec_simp [h1, h2, hA, hG, hX] <;> close_form
  by_cases hA0 : A = 0
  · subst hA0
    rcases hal with rfl | rfl | rfl <;> exec_simp [h1, h2, hA, hG, hX] <;> close_form
  rcases hal with rfl | rfl | rfl <;> exec_simp [h1, h2, hA, hG, hX, hA1, hA0] <;> close_form

/-! `a == b` (`.ab`): `a - a`; every path ends with `Z = 0` -/
theorem sub_exec_ab_O (X1 Y1 Z1 : F) (q : P3 F) (h1 : Z1 = 0) :
    (run2 (curveB A B) ec2SubLD .ab (X1, Y1, Z1) q).2.2 = 0 := by
  subst h1
  exec_simp []

theorem sub_exec_ab_0 (X1 Y1 Z1 : F) (q : P3 F) (h1 : Z1 ≠ 0) (hX : X1 = 0) :
    (run2 (curveB A B) ec2SubLD .ab (X1, Y1, Z1) q).2.2 = 0 := by
  subst hX
  exec_simp [h1]

theorem sub_exec_ab (X1 Y1 Z1 : F) (q : P3 F) (h1 : Z1 ≠ 0) (hG : gg Y1 Z1 ≠ gg (X1 * Z1 + Y1) Z1) :
    (run2 (curveB A B) ec2SubLD .ab (X1, Y1, Z1) q).2.2 = 0 := by
  unfold gg at hG
  exec_simp [h1, hG]

end Bee2V.C06.BAdd

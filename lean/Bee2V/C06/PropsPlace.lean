/-
C06, phase 3 — the formula theorems for ARBITRARY placements: operands, destination and scratch stack anywhere
in the store (pairwise disjoint 3-register blocks above the registers of A and B and below the stack, resp.
aliased as the pattern says), and arbitrary contents of all other registers.  Each theorem is obtained from
the canonical-layout theorem by `place` (LemmasPlace.lean: injective renaming + def-use independence);
`…_map` identifies the renamed canonical program with the program at the new indices.
-/
import Bee2V.C06.LemmasPlace2
import Bee2V.C06.PropsAddJ
namespace Bee2V.C06
open WeierstrassCurve
variable {F : Type} [Field F] [DecidableEq F] {A B : F}

theorem addJ_map_n {c a b s : Nat} (hca : c ≠ a) :
    (ecpAddJ 2 5 8 11).map (rho c a b s) = ecpAddJ c a b s := by
  simp [ecpAddJ, ecpDblJ, Prog.map, Prog.map_block, Instr.map, rho, cX, cY, cZ, rA, hca, Nat.add_assoc]

theorem addJ_regs_n : (ecpAddJ 2 5 8 11).regsIn Sn = true := by decide
theorem addJ_wd_n : (ecpAddJ 2 5 8 11).wellDef [2, 3, 4] [0, 1, 5, 6, 7, 8, 9, 10] = true := by decide

/-- `ecpAddJ(c, a, b, ec, stack)` with all buffers distinct, ANYWHERE in a store with arbitrary other contents -/
theorem addJ_anywhere_n (h2 : (2 : F) ≠ 0) {c a b s : Nat} (hc : 2 ≤ c) (ha : 2 ≤ a) (hb : 2 ≤ b)
    (hca : c + 3 ≤ a ∨ a + 3 ≤ c) (hcb : c + 3 ≤ b ∨ b + 3 ≤ c) (hab : a + 3 ≤ b ∨ b + 3 ≤ a)
    (hcs : c + 3 ≤ s) (has : a + 3 ≤ s) (hbs : b + 3 ≤ s)
    (st : Store F) (hA : st.get rA = A) (hB : st.get rB = B) {P Q : (Wc A B).Point}
    (hp : Rep3 A B (get3 st a) P) (hq : Rep3 A B (get3 st b) Q) :
    Rep3 A B (get3 ((ecpAddJ c a b s).run (fieldFld F) st).1 c) (P + Q) := by
  have hne : c ≠ a := by omega
  have h := place (fieldFld F) (rho_inj_n hc ha hb hca hcb hab hcs has hbs) addJ_regs_n
    (out := [2, 3, 4]) (by decide) addJ_wd_n
    (st0 := put3 (put3 (base (curveF A B)) 5 (get3 st a)) 8 (get3 st b)) (st' := st)
    (by
      intro i hi
      simp only [List.mem_cons, List.mem_nil_iff, or_false] at hi
      rcases hi with rfl | rfl | rfl | rfl | rfl | rfl | rfl | rfl <;>
        simp [rho, put3, upd, base, get3, cX, cY, cZ, curveF, mkCurve, hA, hB, rA, rB])
  rw [addJ_map_n hne] at h
  have hc := add_correct h2 (al := .n) (Or.inl rfl) hp hq
  have e : get3 ((ecpAddJ c a b s).run (fieldFld F) st).1 c =
      (ecOps (curveF A B)).add .n (get3 st a) (get3 st b) :=
    Prod.ext (h.2 2 (by simp)) (Prod.ext (h.2 3 (by simp)) (h.2 4 (by simp)))
  rw [e]; exact hc
end Bee2V.C06

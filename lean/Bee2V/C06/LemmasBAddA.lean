/-
C06, stage 2 — `ec2AddALD` / `ec2SubALD` (madd-2005-dl; Lopez–Dahab `a`, affine `b`), part 1: symbolic execution.

`Spec A B p q r` describes the result `r` of the mixed addition of the Lopez–Dahab triple `p` and the affine
pair `q` branch by branch (closed forms `genF`, `dblF`; for an `O` result only `Z = 0` is stated, the
X, Y words are whatever the routine left there and differ between the aliasings).  The exec theorems
show that `run2A … ec2AddALD al p q` satisfies `Spec A B p q` and `run2A … ec2SubALD al p q` satisfies
`Spec A B p (q.1, q.2 + q.1)` for the aliasings `.n`, `.ca`, `.cb`, and for each arm of the three-way
branch on the coefficient `A` (`A = 1`, `A = 0`, else) in `ec2AddALD` and in the fall-through `ec2DblALD`.
-/
import Bee2V.C06.Spec2
import Mathlib.Tactic.Ring
namespace Bee2V.C06.BAddA
open Bee2V.C06

set_option linter.unusedSectionVars false
set_option linter.unusedSimpArgs false
set_option linter.unusedVariables false
variable {F : Type} [Field F] [DecidableEq F] [CharP F 2] {A B : F} {al : Al}

/-- `t1 = yb za² + ya` [A'] -/
def t1F (Y1 Z1 y2 : F) : F := y2 * (Z1 * Z1) + Y1
/-- `t2 = xb za + xa` [B'] -/
def t2F (X1 Z1 x2 : F) : F := x2 * Z1 + X1

/-- the generic branch of madd-2005-dl: `C = B' Z1`, `Z3 = C²`, `X3 = C (B'² + A' + a₂ C) + A'²`,
    `Y3 = (x2 + y2) Z3² + (A' C + Z3)(x2 Z3 + X3)` -/
def genF (A X1 Y1 Z1 x2 y2 : F) : P3 F :=
  let t1 := t1F Y1 Z1 y2
  let t2 := t2F X1 Z1 x2
  let t3 := t2 * Z1
  let zc := t3 * t3
  let xc := (t2 * t2 + t1 + A * t3) * t3 + t1 * t1
  (xc, (x2 + y2) * (zc * zc) + (t1 * t3 + zc) * (x2 * zc + xc), zc)

/-- `ec2DblALD` (mdbl-2005-dl) of the affine point `(x, y)`, `x ≠ 0` -/
def dblF (A B x y : F) : P3 F :=
  let zb := x * x
  let xb := zb * zb + B
  (xb, (y * y + B + A * zb) * xb + B * zb, zb)

/-- branch-by-branch description of the result `r` of `p + q` -/
structure Spec (A B : F) (p : P3 F) (q : P2 F) (r : P3 F) : Prop where
  o : p.2.2 = 0 → r = (q.1, q.2, 1)
  gen : p.2.2 ≠ 0 → t2F p.1 p.2.2 q.1 ≠ 0 → r = genF A p.1 p.2.1 p.2.2 q.1 q.2
  inv : p.2.2 ≠ 0 → t2F p.1 p.2.2 q.1 = 0 → t1F p.2.1 p.2.2 q.2 ≠ 0 → r.2.2 = 0
  dbl0 : p.2.2 ≠ 0 → t2F p.1 p.2.2 q.1 = 0 → t1F p.2.1 p.2.2 q.2 = 0 → q.1 = 0 → r.2.2 = 0
  dbl : p.2.2 ≠ 0 → t2F p.1 p.2.2 q.1 = 0 → t1F p.2.1 p.2.2 q.2 = 0 → q.1 ≠ 0 → r = dblF A B q.1 q.2

/-- the three arms of the branch on the coefficient: `A = 1`, `A = 0`, else -/
local macro "split_A" a:term : tactic =>
  `(tactic| (by_cases hA1 : $a = 1 <;> [subst hA1; (by_cases hA0 : $a = 0 <;> [subst hA0; skip])]))

/-- symbolic execution of `ec2AddALD` / `ec2SubALD` (with the callee `ec2DblALD`) on the canonical store,
    using every hypothesis in the context for the branch tests -/
local macro "exec_simp" : tactic =>
  `(tactic| simp [run2A, ec2SubALD, ec2AddALD, ec2AddALDTail, ec2DblALD, ec2DblALDTail, Prog.run, Prog.block,
      Instr.exec, upd, get3, fieldFld, cX, cY, cZ, rA, rB, sc, sa, sb, sk, slotA, slotB, put3, put2, base,
      curveB, mkCurve2, genF, dblF, t1F, t2F, *])

/-! ### `ec2AddALD` -/

theorem add_o (hal : al = .n ∨ al = .ca ∨ al = .cb) (X1 Y1 x2 y2 : F) :
    run2A (curveB A B) ec2AddALD al (X1, Y1, 0) (x2, y2) = (x2, y2, 1) := by
  rcases hal with rfl | rfl | rfl <;> exec_simp

theorem add_gen (hal : al = .n ∨ al = .ca ∨ al = .cb) (X1 Y1 Z1 x2 y2 : F) (hz : Z1 ≠ 0)
    (ht : x2 * Z1 + X1 ≠ 0) :
    run2A (curveB A B) ec2AddALD al (X1, Y1, Z1) (x2, y2) = genF A X1 Y1 Z1 x2 y2 := by
  rcases hal with rfl | rfl | rfl <;> split_A A <;> exec_simp

theorem add_inv (hal : al = .n ∨ al = .ca ∨ al = .cb) (X1 Y1 Z1 x2 y2 : F) (hz : Z1 ≠ 0)
    (ht : x2 * Z1 + X1 = 0) (ht1 : y2 * (Z1 * Z1) + Y1 ≠ 0) :
    (run2A (curveB A B) ec2AddALD al (X1, Y1, Z1) (x2, y2)).2.2 = 0 := by
  rcases hal with rfl | rfl | rfl <;> exec_simp

theorem add_dbl0 (hal : al = .n ∨ al = .ca ∨ al = .cb) (X1 Y1 Z1 y2 : F) (hz : Z1 ≠ 0)
    (ht : (0 : F) * Z1 + X1 = 0) (ht1 : y2 * (Z1 * Z1) + Y1 = 0) :
    (run2A (curveB A B) ec2AddALD al (X1, Y1, Z1) (0, y2)).2.2 = 0 := by
  rw [zero_mul, zero_add] at ht
  rcases hal with rfl | rfl | rfl <;> exec_simp

theorem add_dbl (hal : al = .n ∨ al = .ca ∨ al = .cb) (X1 Y1 Z1 x2 y2 : F) (hz : Z1 ≠ 0)
    (ht : x2 * Z1 + X1 = 0) (ht1 : y2 * (Z1 * Z1) + Y1 = 0) (hx : x2 ≠ 0) :
    run2A (curveB A B) ec2AddALD al (X1, Y1, Z1) (x2, y2) = dblF A B x2 y2 := by
  rcases hal with rfl | rfl | rfl <;> split_A A <;> exec_simp

theorem add_spec (hal : al = .n ∨ al = .ca ∨ al = .cb) (p : P3 F) (q : P2 F) :
    Spec A B p q (run2A (curveB A B) ec2AddALD al p q) := by
  obtain ⟨X1, Y1, Z1⟩ := p
  obtain ⟨x2, y2⟩ := q
  refine ⟨?_, ?_, ?_, ?_, ?_⟩
  · rintro (rfl : Z1 = 0); exact add_o hal ..
  · exact fun hz ht => add_gen hal _ _ _ _ _ hz ht
  · exact fun hz ht ht1 => add_inv hal _ _ _ _ _ hz ht ht1
  · rintro hz ht ht1 (rfl : x2 = 0); exact add_dbl0 hal _ _ _ _ hz ht ht1
  · exact fun hz ht ht1 hx => add_dbl hal _ _ _ _ _ hz ht ht1 hx

/-! ### `ec2SubALD`: `t <- (xb, yb + xb)` at the scratch base, then `ec2AddALD(c, a, t)` -/

theorem sub_o (hal : al = .n ∨ al = .ca ∨ al = .cb) (X1 Y1 x2 y2 : F) :
    run2A (curveB A B) ec2SubALD al (X1, Y1, 0) (x2, y2) = (x2, y2 + x2, 1) := by
  rcases hal with rfl | rfl | rfl <;> exec_simp

theorem sub_gen (hal : al = .n ∨ al = .ca ∨ al = .cb) (X1 Y1 Z1 x2 y2 : F) (hz : Z1 ≠ 0)
    (ht : x2 * Z1 + X1 ≠ 0) :
    run2A (curveB A B) ec2SubALD al (X1, Y1, Z1) (x2, y2) = genF A X1 Y1 Z1 x2 (y2 + x2) := by
  rcases hal with rfl | rfl | rfl <;> split_A A <;> exec_simp

theorem sub_inv (hal : al = .n ∨ al = .ca ∨ al = .cb) (X1 Y1 Z1 x2 y2 : F) (hz : Z1 ≠ 0)
    (ht : x2 * Z1 + X1 = 0) (ht1 : (y2 + x2) * (Z1 * Z1) + Y1 ≠ 0) :
    (run2A (curveB A B) ec2SubALD al (X1, Y1, Z1) (x2, y2)).2.2 = 0 := by
  rcases hal with rfl | rfl | rfl <;> exec_simp

theorem sub_dbl0 (hal : al = .n ∨ al = .ca ∨ al = .cb) (X1 Y1 Z1 y2 : F) (hz : Z1 ≠ 0)
    (ht : (0 : F) * Z1 + X1 = 0) (ht1 : (y2 + 0) * (Z1 * Z1) + Y1 = 0) :
    (run2A (curveB A B) ec2SubALD al (X1, Y1, Z1) (0, y2)).2.2 = 0 := by
  rw [zero_mul, zero_add] at ht
  rw [add_zero] at ht1
  rcases hal with rfl | rfl | rfl <;> exec_simp

theorem sub_dbl (hal : al = .n ∨ al = .ca ∨ al = .cb) (X1 Y1 Z1 x2 y2 : F) (hz : Z1 ≠ 0)
    (ht : x2 * Z1 + X1 = 0) (ht1 : (y2 + x2) * (Z1 * Z1) + Y1 = 0) (hx : x2 ≠ 0) :
    run2A (curveB A B) ec2SubALD al (X1, Y1, Z1) (x2, y2) = dblF A B x2 (y2 + x2) := by
  rcases hal with rfl | rfl | rfl <;> split_A A <;> exec_simp

theorem sub_spec (hal : al = .n ∨ al = .ca ∨ al = .cb) (p : P3 F) (q : P2 F) :
    Spec A B p (q.1, q.2 + q.1) (run2A (curveB A B) ec2SubALD al p q) := by
  obtain ⟨X1, Y1, Z1⟩ := p
  obtain ⟨x2, y2⟩ := q
  refine ⟨?_, ?_, ?_, ?_, ?_⟩
  · rintro (rfl : Z1 = 0); exact sub_o hal ..
  · exact fun hz ht => sub_gen hal _ _ _ _ _ hz ht
  · exact fun hz ht ht1 => sub_inv hal _ _ _ _ _ hz ht ht1
  · rintro hz ht ht1 (rfl : x2 = 0); exact sub_dbl0 hal _ _ _ _ hz ht ht1
  · exact fun hz ht ht1 hx => sub_dbl hal _ _ _ _ _ hz ht ht1 hx

end Bee2V.C06.BAddA

/-
C06, phase 3 — the formula theorems of the binary-curve routines (ec2.c, Lopez–Dahab) for ARBITRARY placements,
part 1: `ec2NegLD`, `ec2DblLD`, `ec2DblALD`, `ec2FromALD` (`_n`, `_ca`), `ec2AddLD`, `ec2SubLD` (`_n`, `_ca`,
`_cb`, `_ab`), `ec2AddALD`, `ec2SubALD` (`_n`, `_ca`, `_cb`).

Operands, destination and scratch stack are ANYWHERE in the store: pairwise disjoint blocks (3 registers for a
projective, 2 for an affine point; aliased buffers share the block as the pattern says) above the registers
`rA = 0`, `rB = 1` of the coefficients and below the stack base `s`; all other registers hold ARBITRARY values.
Each theorem is the canonical-layout theorem (PropsBUn, PropsBAdd, PropsBAddA) transported by `place_get3`
(LemmasPlace3.lean); side conditions by `place_map2` resp. `decide`.
Part 2 (PropsPlace5.lean: `ec2ToALD`, `ec2NegA`, affine routines, `ec2IsOnA`) is imported here, so that building
this module builds all placement theorems of the binary curves.
-/
import Bee2V.C06.LemmasPlace3
import Bee2V.C06.PropsBUn
import Bee2V.C06.PropsBAdd
import Bee2V.C06.PropsBAddA
import Bee2V.C06.PropsPlace5
namespace Bee2V.C06
open WeierstrassCurve
set_option linter.unusedSimpArgs false
set_option linter.unusedVariables false
variable {F : Type} [Field F] [DecidableEq F] [CharP F 2] {A B : F}

/-- `ec2NegLD(b, a, ec, stack)`, destination and operand in different buffers -/
theorem ec2NegLD_anywhere_n {b a s : Nat} (hb : 2 ≤ b) (ha : 2 ≤ a) (hba : b + 3 ≤ a ∨ a + 3 ≤ b)
    (hbs : b + 3 ≤ s) (has : a + 3 ≤ s) (st : Store F) (hA : st.get rA = A) (hB : st.get rB = B)
    {P : (Wb A B).Point} (hp : RepB3 A B (get3 st a) P) :
    RepB3 A B (get3 ((ec2NegLD b a s).run (fieldFld F) st).1 b) (-P) := by
  have e : get3 ((ec2NegLD b a s).run (fieldFld F) st).1 b =
      run1 (curveB A B) ec2NegLD .n (get3 st a) :=
    run1_anywhere (fieldFld F) (curveB A B) rfl ec2NegLD .n (.inl rfl) (c := b) (a := a) (b := 0) (s := s) rfl
      (S := SW 3 3 0) (by place_map2) (by inj_w) (by decide) (by decide) (by decide) hA hB
  rw [e]; exact negB_correct (.inl rfl) hp

/-- `ec2NegLD(b, a, ec, stack)`, in place -/
theorem ec2NegLD_anywhere_ca {b s : Nat} (hb : 2 ≤ b) (hbs : b + 3 ≤ s) (st : Store F) (hA : st.get rA = A)
    (hB : st.get rB = B) {P : (Wb A B).Point} (hp : RepB3 A B (get3 st b) P) :
    RepB3 A B (get3 ((ec2NegLD b b s).run (fieldFld F) st).1 b) (-P) := by
  have e : get3 ((ec2NegLD b b s).run (fieldFld F) st).1 b =
      run1 (curveB A B) ec2NegLD .ca (get3 st b) :=
    run1_anywhere (fieldFld F) (curveB A B) rfl ec2NegLD .ca (.inr rfl) (c := b) (a := 0) (b := 0) (s := s) rfl
      (S := SW 3 0 0) (by place_map2) (by inj_w) (by decide) (by decide) (by decide) hA hB
  rw [e]; exact negB_correct (.inr rfl) hp

/-- `ec2DblLD(b, a, ec, stack)`, destination and operand in different buffers -/
theorem ec2DblLD_anywhere_n {b a s : Nat} (hb : 2 ≤ b) (ha : 2 ≤ a) (hba : b + 3 ≤ a ∨ a + 3 ≤ b)
    (hbs : b + 3 ≤ s) (has : a + 3 ≤ s) (st : Store F) (hA : st.get rA = A) (hB : st.get rB = B)
    {P : (Wb A B).Point} (hp : RepB3 A B (get3 st a) P) :
    RepB3 A B (get3 ((ec2DblLD b a s).run (fieldFld F) st).1 b) (P + P) := by
  have e : get3 ((ec2DblLD b a s).run (fieldFld F) st).1 b =
      run1 (curveB A B) ec2DblLD .n (get3 st a) :=
    run1_anywhere (fieldFld F) (curveB A B) rfl ec2DblLD .n (.inl rfl) (c := b) (a := a) (b := 0) (s := s) rfl
      (S := SW 3 3 0) (by place_map2) (by inj_w) (by decide) (by decide) (by decide) hA hB
  rw [e]; exact dblB_correct (.inl rfl) hp

/-- `ec2DblLD(b, a, ec, stack)`, in place -/
theorem ec2DblLD_anywhere_ca {b s : Nat} (hb : 2 ≤ b) (hbs : b + 3 ≤ s) (st : Store F) (hA : st.get rA = A)
    (hB : st.get rB = B) {P : (Wb A B).Point} (hp : RepB3 A B (get3 st b) P) :
    RepB3 A B (get3 ((ec2DblLD b b s).run (fieldFld F) st).1 b) (P + P) := by
  have e : get3 ((ec2DblLD b b s).run (fieldFld F) st).1 b =
      run1 (curveB A B) ec2DblLD .ca (get3 st b) :=
    run1_anywhere (fieldFld F) (curveB A B) rfl ec2DblLD .ca (.inr rfl) (c := b) (a := 0) (b := 0) (s := s) rfl
      (S := SW 3 0 0) (by place_map2) (by inj_w) (by decide) (by decide) (by decide) hA hB
  rw [e]; exact dblB_correct (.inr rfl) hp

/-- `ec2DblALD(b, a, ec, stack)`, destination and operand in different buffers (affine `a`) -/
theorem ec2DblALD_anywhere_n {b a s : Nat} (hb : 2 ≤ b) (ha : 2 ≤ a) (hba : b + 3 ≤ a ∨ a + 2 ≤ b)
    (hbs : b + 3 ≤ s) (has : a + 2 ≤ s) (st : Store F) (hA : st.get rA = A) (hB : st.get rB = B)
    {P : (Wb A B).Point} (hp : RepB2 A B (get2 st a) P) :
    RepB3 A B (get3 ((ec2DblALD b a s).run (fieldFld F) st).1 b) (P + P) := by
  have e : get3 ((ec2DblALD b a s).run (fieldFld F) st).1 b =
      dbla2 (curveB A B) .n (get2 st a) :=
    place_get3 (S := SW 3 2 0) (c := b) (a := a) (b := 0) (s := s) (P := ec2DblALD 2 5 11) _
      (by place_map2) (by inj_w) (by decide) (by decide) (by decide)
      (ag1a (cv := curveB A B) .n (.inl rfl) hA hB)
  rw [e]; exact dblaB_correct (.inl rfl) hp

/-- `ec2DblALD(b, a, ec, stack)`, in place (affine `a`) -/
theorem ec2DblALD_anywhere_ca {b s : Nat} (hb : 2 ≤ b) (hbs : b + 3 ≤ s) (st : Store F) (hA : st.get rA = A)
    (hB : st.get rB = B) {P : (Wb A B).Point} (hp : RepB2 A B (get2 st b) P) :
    RepB3 A B (get3 ((ec2DblALD b b s).run (fieldFld F) st).1 b) (P + P) := by
  have e : get3 ((ec2DblALD b b s).run (fieldFld F) st).1 b =
      dbla2 (curveB A B) .ca (get2 st b) :=
    place_get3 (S := SW 3 0 0) (c := b) (a := 0) (b := 0) (s := s) (P := ec2DblALD 2 2 11) _
      (by place_map2) (by inj_w) (by decide) (by decide) (by decide)
      (ag1a (cv := curveB A B) .ca (.inr rfl) hA hB)
  rw [e]; exact dblaB_correct (.inr rfl) hp

/-- `ec2FromALD(b, a, ec, stack)`, destination and operand in different buffers -/
theorem ec2FromALD_anywhere_n {b a : Nat} (hb : 2 ≤ b) (ha : 2 ≤ a) (hba : b + 3 ≤ a ∨ a + 2 ≤ b) (st : Store F)
    (hA : st.get rA = A) (hB : st.get rB = B) {P : (Wb A B).Point} (hp : RepB2 A B (get2 st a) P) :
    RepB3 A B (get3 ((ec2FromALD b a).run (fieldFld F) st).1 b) P := by
  have e : get3 ((ec2FromALD b a).run (fieldFld F) st).1 b =
      froma2 (curveB A B) .n (get2 st a) :=
    place_get3 (S := SW 3 2 0) (c := b) (a := a) (b := 0) (s := b + a + 3) (P := ec2FromALD 2 5) _
      (by place_map2) (by inj_w) (by decide) (by decide) (by decide)
      (ag1a (cv := curveB A B) .n (.inl rfl) hA hB)
  rw [e]; exact fromaB_correct (.inl rfl) hp

/-- `ec2FromALD(b, a, ec, stack)`, in place -/
theorem ec2FromALD_anywhere_ca {b : Nat} (hb : 2 ≤ b) (st : Store F) (hA : st.get rA = A) (hB : st.get rB = B)
    {P : (Wb A B).Point} (hp : RepB2 A B (get2 st b) P) :
    RepB3 A B (get3 ((ec2FromALD b b).run (fieldFld F) st).1 b) P := by
  have e : get3 ((ec2FromALD b b).run (fieldFld F) st).1 b =
      froma2 (curveB A B) .ca (get2 st b) :=
    place_get3 (S := SW 3 0 0) (c := b) (a := 0) (b := 0) (s := b + 3) (P := ec2FromALD 2 2) _
      (by place_map2) (by inj_w) (by decide) (by decide) (by decide)
      (ag1a (cv := curveB A B) .ca (.inr rfl) hA hB)
  rw [e]; exact fromaB_correct (.inr rfl) hp

/-- `ec2AddLD(c, a, b, ec, stack)`, all buffers distinct -/
theorem ec2AddLD_anywhere_n {c a b s : Nat} (hc : 2 ≤ c) (ha : 2 ≤ a) (hb : 2 ≤ b) (hca : c + 3 ≤ a ∨ a + 3 ≤ c)
    (hcb : c + 3 ≤ b ∨ b + 3 ≤ c) (hab : a + 3 ≤ b ∨ b + 3 ≤ a) (hcs : c + 3 ≤ s) (has : a + 3 ≤ s)
    (hbs : b + 3 ≤ s) (st : Store F) (hA : st.get rA = A) (hB : st.get rB = B) {P Q : (Wb A B).Point}
    (hp : RepB3 A B (get3 st a) P) (hq : RepB3 A B (get3 st b) Q) :
    RepB3 A B (get3 ((ec2AddLD c a b s).run (fieldFld F) st).1 c) (P + Q) := by
  have e : get3 ((ec2AddLD c a b s).run (fieldFld F) st).1 c =
      (ecOps2 (curveB A B)).add .n (get3 st a) (get3 st b) :=
    place_get3 (S := SW 3 3 3) (c := c) (a := a) (b := b) (s := s) (P := ec2AddLD 2 5 8 11) _
      (by place_map2) (by inj_w) (by decide) (by decide) (by decide)
      (ag2 (cv := curveB A B) .n (by decide) hA hB)
  rw [e]; exact addB_correct (.inl rfl) hp hq

/-- `ec2AddLD(c, a, b, ec, stack)`, `c == a` -/
theorem ec2AddLD_anywhere_ca {c b s : Nat} (hc : 2 ≤ c) (hb : 2 ≤ b) (hcb : c + 3 ≤ b ∨ b + 3 ≤ c)
    (hcs : c + 3 ≤ s) (hbs : b + 3 ≤ s) (st : Store F) (hA : st.get rA = A) (hB : st.get rB = B)
    {P Q : (Wb A B).Point} (hp : RepB3 A B (get3 st c) P) (hq : RepB3 A B (get3 st b) Q) :
    RepB3 A B (get3 ((ec2AddLD c c b s).run (fieldFld F) st).1 c) (P + Q) := by
  have e : get3 ((ec2AddLD c c b s).run (fieldFld F) st).1 c =
      (ecOps2 (curveB A B)).add .ca (get3 st c) (get3 st b) :=
    place_get3 (S := SW 3 0 3) (c := c) (a := 0) (b := b) (s := s) (P := ec2AddLD 2 2 8 11) _
      (by place_map2) (by inj_w) (by decide) (by decide) (by decide)
      (ag2 (cv := curveB A B) .ca (by decide) hA hB)
  rw [e]; exact addB_correct (.inr (.inl rfl)) hp hq

/-- `ec2AddLD(c, a, b, ec, stack)`, `c == b` -/
theorem ec2AddLD_anywhere_cb {c a s : Nat} (hc : 2 ≤ c) (ha : 2 ≤ a) (hca : c + 3 ≤ a ∨ a + 3 ≤ c)
    (hcs : c + 3 ≤ s) (has : a + 3 ≤ s) (st : Store F) (hA : st.get rA = A) (hB : st.get rB = B)
    {P Q : (Wb A B).Point} (hp : RepB3 A B (get3 st a) P) (hq : RepB3 A B (get3 st c) Q) :
    RepB3 A B (get3 ((ec2AddLD c a c s).run (fieldFld F) st).1 c) (P + Q) := by
  have e : get3 ((ec2AddLD c a c s).run (fieldFld F) st).1 c =
      (ecOps2 (curveB A B)).add .cb (get3 st a) (get3 st c) :=
    place_get3 (S := SW 3 3 0) (c := c) (a := a) (b := 0) (s := s) (P := ec2AddLD 2 5 2 11) _
      (by place_map2) (by inj_w) (by decide) (by decide) (by decide)
      (ag2 (cv := curveB A B) .cb (by decide) hA hB)
  rw [e]; exact addB_correct (.inr (.inr rfl)) hp hq

/-- `ec2AddLD(c, a, b, ec, stack)`, `a == b`, `c` distinct: the doubling fall-through -/
theorem ec2AddLD_anywhere_ab {c a s : Nat} (hc : 2 ≤ c) (ha : 2 ≤ a) (hca : c + 3 ≤ a ∨ a + 3 ≤ c)
    (hcs : c + 3 ≤ s) (has : a + 3 ≤ s) (st : Store F) (hA : st.get rA = A) (hB : st.get rB = B)
    {P : (Wb A B).Point} (hp : RepB3 A B (get3 st a) P) :
    RepB3 A B (get3 ((ec2AddLD c a a s).run (fieldFld F) st).1 c) (P + P) := by
  have e : get3 ((ec2AddLD c a a s).run (fieldFld F) st).1 c =
      (ecOps2 (curveB A B)).add .ab (get3 st a) (get3 st a) :=
    place_get3 (S := SW 3 3 0) (c := c) (a := a) (b := 0) (s := s) (P := ec2AddLD 2 5 5 11) _
      (by place_map2) (by inj_w) (by decide) (by decide) (by decide)
      (ag2 (cv := curveB A B) .ab (by decide) hA hB)
  rw [e]; exact addB_ab_correct hp _

/-- `ec2SubLD(c, a, b, ec, stack)`, all buffers distinct -/
theorem ec2SubLD_anywhere_n {c a b s : Nat} (hc : 2 ≤ c) (ha : 2 ≤ a) (hb : 2 ≤ b) (hca : c + 3 ≤ a ∨ a + 3 ≤ c)
    (hcb : c + 3 ≤ b ∨ b + 3 ≤ c) (hab : a + 3 ≤ b ∨ b + 3 ≤ a) (hcs : c + 3 ≤ s) (has : a + 3 ≤ s)
    (hbs : b + 3 ≤ s) (st : Store F) (hA : st.get rA = A) (hB : st.get rB = B) {P Q : (Wb A B).Point}
    (hp : RepB3 A B (get3 st a) P) (hq : RepB3 A B (get3 st b) Q) :
    RepB3 A B (get3 ((ec2SubLD c a b s).run (fieldFld F) st).1 c) (P - Q) := by
  have e : get3 ((ec2SubLD c a b s).run (fieldFld F) st).1 c =
      (ecOps2 (curveB A B)).sub .n (get3 st a) (get3 st b) :=
    place_get3 (S := SW 3 3 3) (c := c) (a := a) (b := b) (s := s) (P := ec2SubLD 2 5 8 11) _
      (by place_map2) (by inj_w) (by decide) (by decide) (by decide)
      (ag2 (cv := curveB A B) .n (by decide) hA hB)
  rw [e]; exact subB_correct (.inl rfl) hp hq

/-- `ec2SubLD(c, a, b, ec, stack)`, `c == a` -/
theorem ec2SubLD_anywhere_ca {c b s : Nat} (hc : 2 ≤ c) (hb : 2 ≤ b) (hcb : c + 3 ≤ b ∨ b + 3 ≤ c)
    (hcs : c + 3 ≤ s) (hbs : b + 3 ≤ s) (st : Store F) (hA : st.get rA = A) (hB : st.get rB = B)
    {P Q : (Wb A B).Point} (hp : RepB3 A B (get3 st c) P) (hq : RepB3 A B (get3 st b) Q) :
    RepB3 A B (get3 ((ec2SubLD c c b s).run (fieldFld F) st).1 c) (P - Q) := by
  have e : get3 ((ec2SubLD c c b s).run (fieldFld F) st).1 c =
      (ecOps2 (curveB A B)).sub .ca (get3 st c) (get3 st b) :=
    place_get3 (S := SW 3 0 3) (c := c) (a := 0) (b := b) (s := s) (P := ec2SubLD 2 2 8 11) _
      (by place_map2) (by inj_w) (by decide) (by decide) (by decide)
      (ag2 (cv := curveB A B) .ca (by decide) hA hB)
  rw [e]; exact subB_correct (.inr (.inl rfl)) hp hq

/-- `ec2SubLD(c, a, b, ec, stack)`, `c == b` -/
theorem ec2SubLD_anywhere_cb {c a s : Nat} (hc : 2 ≤ c) (ha : 2 ≤ a) (hca : c + 3 ≤ a ∨ a + 3 ≤ c)
    (hcs : c + 3 ≤ s) (has : a + 3 ≤ s) (st : Store F) (hA : st.get rA = A) (hB : st.get rB = B)
    {P Q : (Wb A B).Point} (hp : RepB3 A B (get3 st a) P) (hq : RepB3 A B (get3 st c) Q) :
    RepB3 A B (get3 ((ec2SubLD c a c s).run (fieldFld F) st).1 c) (P - Q) := by
  have e : get3 ((ec2SubLD c a c s).run (fieldFld F) st).1 c =
      (ecOps2 (curveB A B)).sub .cb (get3 st a) (get3 st c) :=
    place_get3 (S := SW 3 3 0) (c := c) (a := a) (b := 0) (s := s) (P := ec2SubLD 2 5 2 11) _
      (by place_map2) (by inj_w) (by decide) (by decide) (by decide)
      (ag2 (cv := curveB A B) .cb (by decide) hA hB)
  rw [e]; exact subB_correct (.inr (.inr rfl)) hp hq

/-- `ec2SubLD(c, a, b, ec, stack)`, `a == b`, `c` distinct: the result is `O` -/
theorem ec2SubLD_anywhere_ab {c a s : Nat} (hc : 2 ≤ c) (ha : 2 ≤ a) (hca : c + 3 ≤ a ∨ a + 3 ≤ c)
    (hcs : c + 3 ≤ s) (has : a + 3 ≤ s) (st : Store F) (hA : st.get rA = A) (hB : st.get rB = B)
    {P : (Wb A B).Point} (hp : RepB3 A B (get3 st a) P) :
    RepB3 A B (get3 ((ec2SubLD c a a s).run (fieldFld F) st).1 c) 0 := by
  have e : get3 ((ec2SubLD c a a s).run (fieldFld F) st).1 c =
      (ecOps2 (curveB A B)).sub .ab (get3 st a) (get3 st a) :=
    place_get3 (S := SW 3 3 0) (c := c) (a := a) (b := 0) (s := s) (P := ec2SubLD 2 5 5 11) _
      (by place_map2) (by inj_w) (by decide) (by decide) (by decide)
      (ag2 (cv := curveB A B) .ab (by decide) hA hB)
  rw [e]; exact subB_ab_correct hp _

/-- `ec2AddALD(c, a, b, ec, stack)`, all buffers distinct (affine `b`) -/
theorem ec2AddALD_anywhere_n {c a b s : Nat} (hc : 2 ≤ c) (ha : 2 ≤ a) (hb : 2 ≤ b)
    (hca : c + 3 ≤ a ∨ a + 3 ≤ c) (hcb : c + 3 ≤ b ∨ b + 2 ≤ c) (hab : a + 3 ≤ b ∨ b + 2 ≤ a) (hcs : c + 3 ≤ s)
    (has : a + 3 ≤ s) (hbs : b + 2 ≤ s) (st : Store F) (hA : st.get rA = A) (hB : st.get rB = B)
    {P Q : (Wb A B).Point} (hp : RepB3 A B (get3 st a) P) (hq : RepB2 A B (get2 st b) Q) :
    RepB3 A B (get3 ((ec2AddALD c a b s).run (fieldFld F) st).1 c) (P + Q) := by
  have e : get3 ((ec2AddALD c a b s).run (fieldFld F) st).1 c =
      (ecOps2 (curveB A B)).adda .n (get3 st a) (get2 st b) :=
    place_get3 (S := SW 3 3 2) (c := c) (a := a) (b := b) (s := s) (P := ec2AddALD 2 5 8 11) _
      (by place_map2) (by inj_w) (by decide) (by decide) (by decide)
      (ag2A (cv := curveB A B) .n (.inl rfl) hA hB)
  rw [e]; exact addaB_correct (.inl rfl) hp hq

/-- `ec2AddALD(c, a, b, ec, stack)`, `c == a` (affine `b`) -/
theorem ec2AddALD_anywhere_ca {c b s : Nat} (hc : 2 ≤ c) (hb : 2 ≤ b) (hcb : c + 3 ≤ b ∨ b + 2 ≤ c)
    (hcs : c + 3 ≤ s) (hbs : b + 2 ≤ s) (st : Store F) (hA : st.get rA = A) (hB : st.get rB = B)
    {P Q : (Wb A B).Point} (hp : RepB3 A B (get3 st c) P) (hq : RepB2 A B (get2 st b) Q) :
    RepB3 A B (get3 ((ec2AddALD c c b s).run (fieldFld F) st).1 c) (P + Q) := by
  have e : get3 ((ec2AddALD c c b s).run (fieldFld F) st).1 c =
      (ecOps2 (curveB A B)).adda .ca (get3 st c) (get2 st b) :=
    place_get3 (S := SW 3 0 2) (c := c) (a := 0) (b := b) (s := s) (P := ec2AddALD 2 2 8 11) _
      (by place_map2) (by inj_w) (by decide) (by decide) (by decide)
      (ag2A (cv := curveB A B) .ca (.inr (.inl rfl)) hA hB)
  rw [e]; exact addaB_correct (.inr (.inl rfl)) hp hq

/-- `ec2AddALD(c, a, b, ec, stack)`, `c == b` (affine `b`) -/
theorem ec2AddALD_anywhere_cb {c a s : Nat} (hc : 2 ≤ c) (ha : 2 ≤ a) (hca : c + 3 ≤ a ∨ a + 3 ≤ c)
    (hcs : c + 3 ≤ s) (has : a + 3 ≤ s) (st : Store F) (hA : st.get rA = A) (hB : st.get rB = B)
    {P Q : (Wb A B).Point} (hp : RepB3 A B (get3 st a) P) (hq : RepB2 A B (get2 st c) Q) :
    RepB3 A B (get3 ((ec2AddALD c a c s).run (fieldFld F) st).1 c) (P + Q) := by
  have e : get3 ((ec2AddALD c a c s).run (fieldFld F) st).1 c =
      (ecOps2 (curveB A B)).adda .cb (get3 st a) (get2 st c) :=
    place_get3 (S := SW 3 3 0) (c := c) (a := a) (b := 0) (s := s) (P := ec2AddALD 2 5 2 11) _
      (by place_map2) (by inj_w) (by decide) (by decide) (by decide)
      (ag2A (cv := curveB A B) .cb (.inr (.inr rfl)) hA hB)
  rw [e]; exact addaB_correct (.inr (.inr rfl)) hp hq

/-- `ec2SubALD(c, a, b, ec, stack)`, all buffers distinct (affine `b`) -/
theorem ec2SubALD_anywhere_n {c a b s : Nat} (hc : 2 ≤ c) (ha : 2 ≤ a) (hb : 2 ≤ b)
    (hca : c + 3 ≤ a ∨ a + 3 ≤ c) (hcb : c + 3 ≤ b ∨ b + 2 ≤ c) (hab : a + 3 ≤ b ∨ b + 2 ≤ a) (hcs : c + 3 ≤ s)
    (has : a + 3 ≤ s) (hbs : b + 2 ≤ s) (st : Store F) (hA : st.get rA = A) (hB : st.get rB = B)
    {P Q : (Wb A B).Point} (hp : RepB3 A B (get3 st a) P) (hq : RepB2 A B (get2 st b) Q) :
    RepB3 A B (get3 ((ec2SubALD c a b s).run (fieldFld F) st).1 c) (P - Q) := by
  have e : get3 ((ec2SubALD c a b s).run (fieldFld F) st).1 c =
      (ecOps2 (curveB A B)).suba .n (get3 st a) (get2 st b) :=
    place_get3 (S := SW 3 3 2) (c := c) (a := a) (b := b) (s := s) (P := ec2SubALD 2 5 8 11) _
      (by place_map2) (by inj_w) (by decide) (by decide) (by decide)
      (ag2A (cv := curveB A B) .n (.inl rfl) hA hB)
  rw [e]; exact subaB_correct (.inl rfl) hp hq

/-- `ec2SubALD(c, a, b, ec, stack)`, `c == a` (affine `b`) -/
theorem ec2SubALD_anywhere_ca {c b s : Nat} (hc : 2 ≤ c) (hb : 2 ≤ b) (hcb : c + 3 ≤ b ∨ b + 2 ≤ c)
    (hcs : c + 3 ≤ s) (hbs : b + 2 ≤ s) (st : Store F) (hA : st.get rA = A) (hB : st.get rB = B)
    {P Q : (Wb A B).Point} (hp : RepB3 A B (get3 st c) P) (hq : RepB2 A B (get2 st b) Q) :
    RepB3 A B (get3 ((ec2SubALD c c b s).run (fieldFld F) st).1 c) (P - Q) := by
  have e : get3 ((ec2SubALD c c b s).run (fieldFld F) st).1 c =
      (ecOps2 (curveB A B)).suba .ca (get3 st c) (get2 st b) :=
    place_get3 (S := SW 3 0 2) (c := c) (a := 0) (b := b) (s := s) (P := ec2SubALD 2 2 8 11) _
      (by place_map2) (by inj_w) (by decide) (by decide) (by decide)
      (ag2A (cv := curveB A B) .ca (.inr (.inl rfl)) hA hB)
  rw [e]; exact subaB_correct (.inr (.inl rfl)) hp hq

/-- `ec2SubALD(c, a, b, ec, stack)`, `c == b` (affine `b`) -/
theorem ec2SubALD_anywhere_cb {c a s : Nat} (hc : 2 ≤ c) (ha : 2 ≤ a) (hca : c + 3 ≤ a ∨ a + 3 ≤ c)
    (hcs : c + 3 ≤ s) (has : a + 3 ≤ s) (st : Store F) (hA : st.get rA = A) (hB : st.get rB = B)
    {P Q : (Wb A B).Point} (hp : RepB3 A B (get3 st a) P) (hq : RepB2 A B (get2 st c) Q) :
    RepB3 A B (get3 ((ec2SubALD c a c s).run (fieldFld F) st).1 c) (P - Q) := by
  have e : get3 ((ec2SubALD c a c s).run (fieldFld F) st).1 c =
      (ecOps2 (curveB A B)).suba .cb (get3 st a) (get2 st c) :=
    place_get3 (S := SW 3 3 0) (c := c) (a := a) (b := 0) (s := s) (P := ec2SubALD 2 5 2 11) _
      (by place_map2) (by inj_w) (by decide) (by decide) (by decide)
      (ag2A (cv := curveB A B) .cb (.inr (.inr rfl)) hA hB)
  rw [e]; exact subaB_correct (.inr (.inr rfl)) hp hq
/-! ### non-vacuity: `y² + xy = x³ + 1` over GF(2), placements different from the canonical one -/

/-- `ec2AddLD(c, a, b)` with `c = 20`, `a = 7`, `b = 30`, stack from `40`: `(1, 0) + (0, 1)`; register 25 and
    the stack register 41 hold garbage -/
example : RepB3 (0 : ZMod 2) 1
    (get3 ((ec2AddLD 20 7 30 40).run (fieldFld (ZMod 2))
      (upd (upd (put3 (put3 (base (curveB (0 : ZMod 2) 1)) 7 (1, 0, 1)) 30 (0, 1, 1)) 25 1) 41 1)).1 20)
    (.some 1 0 BAdd.ns10 + .some 0 1 BAdd.ns01) :=
  ec2AddLD_anywhere_n (by decide) (by decide) (by decide) (by decide) (by decide) (by decide) (by decide)
    (by decide) (by decide) _ rfl rfl BAdd.rep10 BAdd.rep01

/-- `ec2SubALD(c, a, c)` (`c == b`) with `c = 20`, `a = 7`, stack from `23` -/
example : RepB3 (0 : ZMod 2) 1
    (get3 ((ec2SubALD 20 7 20 23).run (fieldFld (ZMod 2))
      (upd (put2 (put3 (base (curveB (0 : ZMod 2) 1)) 7 (1, 0, 1)) 20 (0, 1)) 22 1)).1 20)
    (.some 1 0 BAdd.ns10 - .some 0 1 BUn.ns01) :=
  ec2SubALD_anywhere_cb (by decide) (by decide) (by decide) (by decide) (by decide) _ rfl rfl
    BAdd.rep10 BUn.repB2_01

end Bee2V.C06

/-
C06 — `ecpAddAJ` / `ecpSubAJ` (madd-2004-hmv), part 1: symbolic execution.

`Spec A p q r` describes the result `r` of the mixed addition of the Jacobian triple `p` and the affine
pair `q` branch by branch (closed forms `genF`, `dblF`; for an `O` result only `Z = 0` is stated, the
X, Y words are whatever the routine left there and differ between the aliasings).  The exec theorems
show that `run2A … ecpAddAJ al p q` satisfies `Spec A p q` and `run2A … ecpSubAJ al p q` satisfies
`Spec A p (q.1, -q.2)` for the aliasings `.n`, `.ca`, `.cb`.
-/
import Bee2V.C06.Spec
import Mathlib.Tactic.Ring
namespace Bee2V.C06.AddAJ
open Bee2V.C06

set_option linter.unusedSectionVars false
set_option linter.unusedSimpArgs false
variable {F : Type} [Field F] [DecidableEq F] {A B : F} {al : Al}

/-- `t1 = xb za² − xa` -/
def t1F (X1 Z1 x2 : F) : F := Z1 * Z1 * x2 - X1
/-- `t2 = yb za³ − ya` -/
def t2F (Y1 Z1 y2 : F) : F := Z1 * Z1 * Z1 * y2 - Y1

/-- the generic branch of madd-2004-hmv -/
def genF (X1 Y1 Z1 x2 y2 : F) : P3 F :=
  let t1 := t1F X1 Z1 x2
  let t2 := t2F Y1 Z1 y2
  let t3 := t1 * t1 * X1
  let t4 := t1 * (t1 * t1)
  let x := t2 * t2 - (t3 + t3) - t4
  (x, (t3 - x) * t2 - t4 * Y1, t1 * Z1)

/-- `ecpDblAJ` (mdbl-2007-bl) of the affine point `(x, y)`, `y ≠ 0` -/
def dblF (A x y : F) : P3 F :=
  let m := x * x + x * x + x * x + A
  let s := (y * y + x) * (y * y + x) - x * x - y * y * (y * y)
  let s2 := s + s
  let x3 := m * m - (s2 + s2)
  let y4 := y * y * (y * y)
  (x3, m * (s2 - x3) - (y4 + y4 + (y4 + y4) + (y4 + y4 + (y4 + y4))), y + y)

/-- branch-by-branch description of the result `r` of `p + q` -/
structure Spec (A : F) (p : P3 F) (q : P2 F) (r : P3 F) : Prop where
  o : p.2.2 = 0 → r = (q.1, q.2, 1)
  gen : p.2.2 ≠ 0 → t1F p.1 p.2.2 q.1 ≠ 0 → r = genF p.1 p.2.1 p.2.2 q.1 q.2
  inv : p.2.2 ≠ 0 → t1F p.1 p.2.2 q.1 = 0 → t2F p.2.1 p.2.2 q.2 ≠ 0 → r.2.2 = 0
  dbl0 : p.2.2 ≠ 0 → t1F p.1 p.2.2 q.1 = 0 → t2F p.2.1 p.2.2 q.2 = 0 → q.2 = 0 → r.2.2 = 0
  dbl : p.2.2 ≠ 0 → t1F p.1 p.2.2 q.1 = 0 → t2F p.2.1 p.2.2 q.2 = 0 → q.2 ≠ 0 → r = dblF A q.1 q.2

/-! ### `ecpAddAJ` -/

theorem add_o (hal : al = .n ∨ al = .ca ∨ al = .cb) (X1 Y1 x2 y2 : F) :
    run2A (curveF A B) ecpAddAJ al (X1, Y1, 0) (x2, y2) = (x2, y2, 1) := by
  rcases hal with rfl | rfl | rfl <;>
  simp [run2A, ecpAddAJ, Prog.run, Prog.block, Instr.exec, upd, get3, fieldFld, cX, cY, cZ, rA, rB,
    sc, sa, sb, sk, slotA, slotB, put3, put2, base, curveF, mkCurve]

theorem add_gen (hal : al = .n ∨ al = .ca ∨ al = .cb) (X1 Y1 Z1 x2 y2 : F) (hz : Z1 ≠ 0)
    (ht : Z1 * Z1 * x2 - X1 ≠ 0) :
    run2A (curveF A B) ecpAddAJ al (X1, Y1, Z1) (x2, y2) = genF X1 Y1 Z1 x2 y2 := by
  rcases hal with rfl | rfl | rfl <;>
  simp [run2A, ecpAddAJ, Prog.run, Prog.block, Instr.exec, upd, get3, fieldFld, cX, cY, cZ, rA, rB,
    sc, sa, sb, sk, slotA, slotB, put3, put2, base, curveF, mkCurve, hz, ht, genF, t1F, t2F]

theorem add_inv (hal : al = .n ∨ al = .ca ∨ al = .cb) (X1 Y1 Z1 x2 y2 : F) (hz : Z1 ≠ 0)
    (ht : Z1 * Z1 * x2 - X1 = 0) (ht2 : Z1 * Z1 * Z1 * y2 - Y1 ≠ 0) :
    (run2A (curveF A B) ecpAddAJ al (X1, Y1, Z1) (x2, y2)).2.2 = 0 := by
  rcases hal with rfl | rfl | rfl <;>
  simp [run2A, ecpAddAJ, Prog.run, Prog.block, Instr.exec, upd, get3, fieldFld, cX, cY, cZ, rA, rB,
    sc, sa, sb, sk, slotA, slotB, put3, put2, base, curveF, mkCurve, hz, ht, ht2]

theorem add_dbl0 (hal : al = .n ∨ al = .ca ∨ al = .cb) (X1 Y1 Z1 x2 : F) (hz : Z1 ≠ 0)
    (ht : Z1 * Z1 * x2 - X1 = 0) (ht2 : Z1 * Z1 * Z1 * 0 - Y1 = 0) :
    (run2A (curveF A B) ecpAddAJ al (X1, Y1, Z1) (x2, 0)).2.2 = 0 := by
  rw [mul_zero] at ht2
  rcases hal with rfl | rfl | rfl <;>
  simp [run2A, ecpAddAJ, ecpDblAJ, Prog.run, Prog.block, Instr.exec, upd, get3, fieldFld, cX, cY, cZ,
    rA, rB, sc, sa, sb, sk, slotA, slotB, put3, put2, base, curveF, mkCurve, hz, ht, ht2]

theorem add_dbl (hal : al = .n ∨ al = .ca ∨ al = .cb) (X1 Y1 Z1 x2 y2 : F) (hz : Z1 ≠ 0)
    (ht : Z1 * Z1 * x2 - X1 = 0) (ht2 : Z1 * Z1 * Z1 * y2 - Y1 = 0) (hy : y2 ≠ 0) :
    run2A (curveF A B) ecpAddAJ al (X1, Y1, Z1) (x2, y2) = dblF A x2 y2 := by
  rcases hal with rfl | rfl | rfl <;>
  simp [run2A, ecpAddAJ, ecpDblAJ, Prog.run, Prog.block, Instr.exec, upd, get3, fieldFld, cX, cY, cZ,
    rA, rB, sc, sa, sb, sk, slotA, slotB, put3, put2, base, curveF, mkCurve, hz, ht, ht2, hy, dblF]

theorem add_spec (hal : al = .n ∨ al = .ca ∨ al = .cb) (p : P3 F) (q : P2 F) :
    Spec A p q (run2A (curveF A B) ecpAddAJ al p q) := by
  obtain ⟨X1, Y1, Z1⟩ := p
  obtain ⟨x2, y2⟩ := q
  refine ⟨?_, ?_, ?_, ?_, ?_⟩
  · rintro (rfl : Z1 = 0); exact add_o hal ..
  · exact fun hz ht => add_gen hal _ _ _ _ _ hz ht
  · exact fun hz ht ht2 => add_inv hal _ _ _ _ _ hz ht ht2
  · rintro hz ht ht2 (rfl : y2 = 0); exact add_dbl0 hal _ _ _ _ hz ht ht2
  · exact fun hz ht ht2 hy => add_dbl hal _ _ _ _ _ hz ht ht2 hy

/-! ### `ecpSubAJ`: `t <- (xb, −yb)` at the scratch base, then `ecpAddAJ(c, a, t)` -/

theorem sub_o (hal : al = .n ∨ al = .ca ∨ al = .cb) (X1 Y1 x2 y2 : F) :
    run2A (curveF A B) ecpSubAJ al (X1, Y1, 0) (x2, y2) = (x2, -y2, 1) := by
  rcases hal with rfl | rfl | rfl <;>
  simp [run2A, ecpSubAJ, ecpAddAJ, Prog.run, Prog.block, Instr.exec, upd, get3, fieldFld, cX, cY, cZ,
    rA, rB, sc, sa, sb, sk, slotA, slotB, put3, put2, base, curveF, mkCurve]

theorem sub_gen (hal : al = .n ∨ al = .ca ∨ al = .cb) (X1 Y1 Z1 x2 y2 : F) (hz : Z1 ≠ 0)
    (ht : Z1 * Z1 * x2 - X1 ≠ 0) :
    run2A (curveF A B) ecpSubAJ al (X1, Y1, Z1) (x2, y2) = genF X1 Y1 Z1 x2 (-y2) := by
  rcases hal with rfl | rfl | rfl <;>
  simp [run2A, ecpSubAJ, ecpAddAJ, Prog.run, Prog.block, Instr.exec, upd, get3, fieldFld, cX, cY, cZ,
    rA, rB, sc, sa, sb, sk, slotA, slotB, put3, put2, base, curveF, mkCurve, hz, ht, genF, t1F, t2F]

theorem sub_inv (hal : al = .n ∨ al = .ca ∨ al = .cb) (X1 Y1 Z1 x2 y2 : F) (hz : Z1 ≠ 0)
    (ht : Z1 * Z1 * x2 - X1 = 0) (ht2 : -(Z1 * Z1 * Z1 * y2) - Y1 ≠ 0) :
    (run2A (curveF A B) ecpSubAJ al (X1, Y1, Z1) (x2, y2)).2.2 = 0 := by
  rcases hal with rfl | rfl | rfl <;>
  simp [run2A, ecpSubAJ, ecpAddAJ, Prog.run, Prog.block, Instr.exec, upd, get3, fieldFld, cX, cY, cZ,
    rA, rB, sc, sa, sb, sk, slotA, slotB, put3, put2, base, curveF, mkCurve, hz, ht, ht2]

theorem sub_dbl0 (hal : al = .n ∨ al = .ca ∨ al = .cb) (X1 Y1 Z1 x2 : F) (hz : Z1 ≠ 0)
    (ht : Z1 * Z1 * x2 - X1 = 0) (ht2 : -Y1 = 0) :
    (run2A (curveF A B) ecpSubAJ al (X1, Y1, Z1) (x2, 0)).2.2 = 0 := by
  rw [neg_eq_zero] at ht2
  rcases hal with rfl | rfl | rfl <;>
  simp [run2A, ecpSubAJ, ecpAddAJ, ecpDblAJ, Prog.run, Prog.block, Instr.exec, upd, get3, fieldFld,
    cX, cY, cZ, rA, rB, sc, sa, sb, sk, slotA, slotB, put3, put2, base, curveF, mkCurve, hz, ht, ht2]

theorem sub_dbl (hal : al = .n ∨ al = .ca ∨ al = .cb) (X1 Y1 Z1 x2 y2 : F) (hz : Z1 ≠ 0)
    (ht : Z1 * Z1 * x2 - X1 = 0) (ht2 : -(Z1 * Z1 * Z1 * y2) - Y1 = 0) (hy : y2 ≠ 0) :
    run2A (curveF A B) ecpSubAJ al (X1, Y1, Z1) (x2, y2) = dblF A x2 (-y2) := by
  rcases hal with rfl | rfl | rfl <;>
  simp [run2A, ecpSubAJ, ecpAddAJ, ecpDblAJ, Prog.run, Prog.block, Instr.exec, upd, get3, fieldFld,
    cX, cY, cZ, rA, rB, sc, sa, sb, sk, slotA, slotB, put3, put2, base, curveF, mkCurve, hz, ht, ht2,
    hy, dblF]

theorem sub_spec (hal : al = .n ∨ al = .ca ∨ al = .cb) (p : P3 F) (q : P2 F) :
    Spec A p (q.1, -q.2) (run2A (curveF A B) ecpSubAJ al p q) := by
  obtain ⟨X1, Y1, Z1⟩ := p
  obtain ⟨x2, y2⟩ := q
  refine ⟨?_, ?_, ?_, ?_, ?_⟩
  · rintro (rfl : Z1 = 0); exact sub_o hal ..
  · exact fun hz ht => sub_gen hal _ _ _ _ _ hz ht
  · intro hz ht ht2
    exact sub_inv hal _ _ _ _ _ hz ht (by simpa only [t2F, mul_neg] using ht2)
  · intro hz ht ht2 (hy : -y2 = 0)
    obtain rfl : y2 = 0 := neg_eq_zero.1 hy
    exact sub_dbl0 hal _ _ _ _ hz ht (by simpa [t2F] using ht2)
  · intro hz ht ht2 (hy : -y2 ≠ 0)
    exact sub_dbl hal _ _ _ _ _ hz ht (by simpa only [t2F, mul_neg] using ht2) (neg_ne_zero.1 hy)

end Bee2V.C06.AddAJ

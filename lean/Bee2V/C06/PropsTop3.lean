/-
C06, phase 3 — the arithmetic assumption of `ecMulA_gf2_partial` discharged (result of the C05 area:
`C05.gf2Fld_sim`, `C05.ecMulA_gf2_irred`: for an irreducible modulus `md` with constant term 1 the driver's
record `gf2Fld md m` simulates the field `C05.Gf2.R md` = GF(2)[x]/(md)).  Here: the standard fields the
generator uses, GF(2^163) (x^163+x^7+x^6+x^3+1), GF(2^233) (x^233+x^74+1), GF(2^283) (x^283+x^12+x^7+x^5+1) —
what `drv_c06` computes for `mul` on a binary curve over these fields is `d • P` in Mathlib's group of points
over the field, FALSE exactly for the point at infinity.  (GF(2^409), GF(2^571): same statement, the kernel
decision of irreducibility takes 5 resp. 13 CPU-minutes and is not part of the default build.)
-/
import Bee2V.C06.LemmasTop3
import Bee2V.C05.PropsFld
namespace Bee2V.C06
open WeierstrassCurve
open Bee2V.C05.Fld (toR)

/-! ### every irreducible modulus (round 3): the un-hypothesised versions of the `_partial` theorems

`md` is the modulus polynomial as a natural (bit i = coefficient of x^i), `m = md.log2` its degree, `md % 2 = 1`
its constant term (`x ∤ md`; necessary: `ppInvModV 1 2 = 0`).  `C05.NatIrred md` ⇔ `C05.ppIsIrredV md = true` (the
model of the library's own `ppIsIrred`, which `gf2IsValid`/`ec2IsValid` call) ⇔ `Irreducible (decode md)` in
`(ZMod 2)[X]` (C05.PropsFld).  The field is `C05.Gf2.R md` = GF(2)[x]/(md). -/

section irred
variable {md : Nat} [Fact (C05.NatIrred md)]

/-- the table `ec2CreateLD` installs, run on the driver's arithmetic `gf2Fld md m`, is a correct operation table
    for the group of points over GF(2)[x]/(md) — no arithmetic assumption left -/
theorem ecOps2_sim_correct (m : Nat) (hm : md.log2 = m) (ho : md % 2 = 1) {A B : Nat}
    (hA : A < 2 ^ m) (hB : B < 2 ^ m) :
    (ecOps2 (mkCurve2 (gf2Fld md m) A B)).Correct
      (fun q P => Sim.R3 (fun a => a < 2 ^ m) q ∧ RepB3 (toR md A) (toR md B) (Sim.map3 (toR md) q) P)
      (fun q P => Sim.R2 (fun a => a < 2 ^ m) q ∧ RepB2 (toR md A) (toR md B) (Sim.map2 (toR md) q) P) :=
  ecOps2_sim_correct_partial (C05.gf2Fld_sim m hm ho) hA hB

/-- `ecMulA` as `drv_c06` runs it on a binary curve: FALSE iff `d • P = O`, else reduced coordinates of `d • P` -/
theorem ecMulA_gf2 (m : Nat) (hm : md.log2 = m) (ho : md % 2 = 1) {A B : Nat}
    (hA : A < 2 ^ m) (hB : B < 2 ^ m) {a : P2 Nat} {P : (Wb (toR md A) (toR md B)).Point}
    (hr : Sim.R2 (fun a => a < 2 ^ m) a)
    (ha : RepB2 (toR md A) (toR md B) (Sim.map2 (toR md) a) P) (W mm d : Nat) :
    (ecMulA (ecOps2 (mkCurve2 (gf2Fld md m) A B)) W a d mm = none ↔ d • P = 0) ∧
    ∀ b, ecMulA (ecOps2 (mkCurve2 (gf2Fld md m) A B)) W a d mm = some b →
      Sim.R2 (fun a => a < 2 ^ m) b ∧ RepB2 (toR md A) (toR md B) (Sim.map2 (toR md) b) (d • P) :=
  ecMulA_spec (ecOps2_sim_correct m hm ho hA hB) ⟨hr, ha⟩ W mm d

theorem ecHasOrderA_gf2 (m : Nat) (hm : md.log2 = m) (ho : md % 2 = 1) {A B : Nat}
    (hA : A < 2 ^ m) (hB : B < 2 ^ m) {a : P2 Nat} {P : (Wb (toR md A) (toR md B)).Point}
    (hr : Sim.R2 (fun a => a < 2 ^ m) a)
    (ha : RepB2 (toR md A) (toR md B) (Sim.map2 (toR md) a) P) (W mm q : Nat) :
    ecHasOrderA (ecOps2 (mkCurve2 (gf2Fld md m) A B)) W a q mm = true ↔ q • P = 0 :=
  ecHasOrderA_spec (ecOps2_sim_correct m hm ho hA hB) ⟨hr, ha⟩ W mm q

theorem ecAddMulA_gf2 (m : Nat) (hm : md.log2 = m) (ho : md % 2 = 1) {A B : Nat}
    (hA : A < 2 ^ m) (hB : B < 2 ^ m) (args : List (P2 Nat × Nat))
    (Ps : List (Wb (toR md A) (toR md B)).Point)
    (h : List.Forall₂ (fun ad P => Sim.R2 (fun a => a < 2 ^ m) ad.1 ∧
      RepB2 (toR md A) (toR md B) (Sim.map2 (toR md) ad.1) P) args Ps) (W : Nat) :
    let s := (List.zipWith (fun ad P => ad.2 • P) args Ps).sum
    (ecAddMulA (ecOps2 (mkCurve2 (gf2Fld md m) A B)) W args = none ↔ s = 0) ∧
    ∀ b, ecAddMulA (ecOps2 (mkCurve2 (gf2Fld md m) A B)) W args = some b →
      Sim.R2 (fun a => a < 2 ^ m) b ∧ RepB2 (toR md A) (toR md B) (Sim.map2 (toR md) b) s :=
  ecAddMulA_spec (ecOps2_sim_correct m hm ho hA hB) args Ps h W

end irred

/-- the hypothesis in the library's own terms: a modulus accepted by (the model of) `ppIsIrred` -/
theorem natIrred_of_ppIsIrred {md : Nat} (h : C05.ppIsIrredV md = true) : C05.NatIrred md :=
  (C05.ppIsIrredV_iff md).1 h

/-- non-vacuity of the general theorems: GF(2^4) = GF(2)[x]/(x^4 + x + 1) -/
example : True := by
  have := @ecOps2_sim_correct 0b10011 ⟨C05.natIrred_19⟩ 4 (by decide) (by decide) 0 1 (by decide) (by decide)
  trivial

theorem gf2Mod_163 : gf2Mod 163 7 6 3 = 2 ^ 163 + 2 ^ 7 + 2 ^ 6 + 2 ^ 3 + 1 := by decide +kernel
theorem gf2Mod_233 : gf2Mod 233 74 0 0 = 2 ^ 233 + 2 ^ 74 + 1 := by decide +kernel
theorem gf2Mod_283 : gf2Mod 283 12 7 5 = 2 ^ 283 + 2 ^ 12 + 2 ^ 7 + 2 ^ 5 + 1 := by decide +kernel

theorem ecMulA_gf2_163 {A B : Nat} (hA : A < 2 ^ 163) (hB : B < 2 ^ 163) {a : P2 Nat}
    {P : (Wb (toR (gf2Mod 163 7 6 3) A) (toR (gf2Mod 163 7 6 3) B)).Point}
    (hr : Sim.R2 (fun a => a < 2 ^ 163) a)
    (ha : RepB2 (toR (gf2Mod 163 7 6 3) A) (toR (gf2Mod 163 7 6 3) B) (Sim.map2 (toR (gf2Mod 163 7 6 3)) a) P)
    (W mm d : Nat) :
    (ecMulA (ecOps2 (mkCurve2 (gf2Fld (gf2Mod 163 7 6 3) 163) A B)) W a d mm = none ↔ d • P = 0) ∧
    ∀ b, ecMulA (ecOps2 (mkCurve2 (gf2Fld (gf2Mod 163 7 6 3) 163) A B)) W a d mm = some b →
      Sim.R2 (fun a => a < 2 ^ 163) b ∧
      RepB2 (toR (gf2Mod 163 7 6 3) A) (toR (gf2Mod 163 7 6 3) B) (Sim.map2 (toR (gf2Mod 163 7 6 3)) b) (d • P) :=
  C05.ecMulA_gf2_irred 163 (by decide +kernel) (by decide +kernel) hA hB hr ha W mm d

theorem ecMulA_gf2_233 {A B : Nat} (hA : A < 2 ^ 233) (hB : B < 2 ^ 233) {a : P2 Nat}
    {P : (Wb (toR (gf2Mod 233 74 0 0) A) (toR (gf2Mod 233 74 0 0) B)).Point}
    (hr : Sim.R2 (fun a => a < 2 ^ 233) a)
    (ha : RepB2 (toR (gf2Mod 233 74 0 0) A) (toR (gf2Mod 233 74 0 0) B) (Sim.map2 (toR (gf2Mod 233 74 0 0)) a) P)
    (W mm d : Nat) :
    (ecMulA (ecOps2 (mkCurve2 (gf2Fld (gf2Mod 233 74 0 0) 233) A B)) W a d mm = none ↔ d • P = 0) ∧
    ∀ b, ecMulA (ecOps2 (mkCurve2 (gf2Fld (gf2Mod 233 74 0 0) 233) A B)) W a d mm = some b →
      Sim.R2 (fun a => a < 2 ^ 233) b ∧
      RepB2 (toR (gf2Mod 233 74 0 0) A) (toR (gf2Mod 233 74 0 0) B) (Sim.map2 (toR (gf2Mod 233 74 0 0)) b) (d • P) :=
  C05.ecMulA_gf2_irred 233 (by decide +kernel) (by decide +kernel) hA hB hr ha W mm d

theorem ecMulA_gf2_283 {A B : Nat} (hA : A < 2 ^ 283) (hB : B < 2 ^ 283) {a : P2 Nat}
    {P : (Wb (toR (gf2Mod 283 12 7 5) A) (toR (gf2Mod 283 12 7 5) B)).Point}
    (hr : Sim.R2 (fun a => a < 2 ^ 283) a)
    (ha : RepB2 (toR (gf2Mod 283 12 7 5) A) (toR (gf2Mod 283 12 7 5) B) (Sim.map2 (toR (gf2Mod 283 12 7 5)) a) P)
    (W mm d : Nat) :
    (ecMulA (ecOps2 (mkCurve2 (gf2Fld (gf2Mod 283 12 7 5) 283) A B)) W a d mm = none ↔ d • P = 0) ∧
    ∀ b, ecMulA (ecOps2 (mkCurve2 (gf2Fld (gf2Mod 283 12 7 5) 283) A B)) W a d mm = some b →
      Sim.R2 (fun a => a < 2 ^ 283) b ∧
      RepB2 (toR (gf2Mod 283 12 7 5) A) (toR (gf2Mod 283 12 7 5) B) (Sim.map2 (toR (gf2Mod 283 12 7 5)) b) (d • P) :=
  C05.ecMulA_gf2_irred 283 (by decide +kernel) (by decide +kernel) hA hB hr ha W mm d

/-- the field token of the driver produces exactly this modulus (same fold as `Drv.ctx?`) -/
example : gf2Mod 4 1 0 0 = 0b10011 := by decide

end Bee2V.C06

/-
C06 — property theorems for the SWU map `ecpSWU` (ecp.c; STB 34.101.66, `p ≡ 3 (mod 4)`, `A, B ≠ 0`):
the output is on the curve `y² = x³ + Ax + B` exactly when `B` is a square or `a ∉ {0, 1, -1}`;
otherwise (`B` a non-square and `a ∈ {0, ±1}`) it is OFF the curve.  Concrete witness on the driver's
arithmetic (`natFld 7`): `A = 1, B = 3, a = 0` gives `(0, 0)`.
-/
import Bee2V.C06.LemmasSWU2
namespace Bee2V.C06
open SWU

set_option linter.unusedVariables false

/-- `ecpSWU` returns a point on the curve (exact domain) -/
theorem swu_on_curve (p : Nat) [Fact p.Prime] (hp : p % 4 = 3) (A B a : ZMod p) (hA : A ≠ 0) (hB : B ≠ 0)
    (hdom : IsSquare B ∨ (a ≠ 0 ∧ a ≠ 1 ∧ a ≠ -1)) :
    (swu p (curveF A B) a).2 ^ 2 = (swu p (curveF A B) a).1 ^ 3 + A * (swu p (curveF A B) a).1 + B := by
  rw [swu_eq, ← gF_eq]
  exact spec_on_curve hp A B a hA hB hdom

/-- the domain is exact: outside it the output leaves the curve -/
theorem swu_off_curve (p : Nat) [Fact p.Prime] (hp : p % 4 = 3) (A B a : ZMod p) (hA : A ≠ 0) (hB : B ≠ 0)
    (hns : ¬ IsSquare B) (ha : a = 0 ∨ a = 1 ∨ a = -1) :
    (swu p (curveF A B) a).2 ^ 2 ≠ (swu p (curveF A B) a).1 ^ 3 + A * (swu p (curveF A B) a).1 + B := by
  rw [swu_eq, ← gF_eq]
  exact spec_off_curve hp A B a hB hns ha

/-- concrete witness on what the driver executes: `p = 7, A = 1, B = 3, a = 0` gives `(0, 0)`,
    and `0² ≠ 0³ + 1·0 + 3` -/
theorem swu_counterexample : swu 7 (mkCurve (natFld 7) 1 3) 0 = (0, 0) := by decide +kernel

/-! ## non-vacuity -/

attribute [local instance] SWU.prime7 SWU.prime11

/-- `swu_on_curve`, regular input: `p = 7, A = 1, B = 3` (a non-square), `a = 2` -/
example : (swu 7 (curveF (1 : ZMod 7) 3) 2).2 ^ 2 =
    (swu 7 (curveF (1 : ZMod 7) 3) 2).1 ^ 3 + 1 * (swu 7 (curveF (1 : ZMod 7) 3) 2).1 + 3 :=
  swu_on_curve 7 (by decide) 1 3 2 (by decide) (by decide) (Or.inr (by decide))

/-- `swu_on_curve`, exceptional input with `B` a square: `p = 11, A = 1, B = 4 = 2·2, a = 1` -/
example : (swu 11 (curveF (1 : ZMod 11) 4) 1).2 ^ 2 =
    (swu 11 (curveF (1 : ZMod 11) 4) 1).1 ^ 3 + 1 * (swu 11 (curveF (1 : ZMod 11) 4) 1).1 + 4 :=
  swu_on_curve 11 (by decide) 1 4 1 (by decide) (by decide) (Or.inl ⟨2, by decide⟩)

/-- `swu_off_curve`: `p = 7, A = 1, B = 3` (the squares mod 7 are 0, 1, 2, 4), `a = 0` -/
example : (swu 7 (curveF (1 : ZMod 7) 3) 0).2 ^ 2 ≠
    (swu 7 (curveF (1 : ZMod 7) 3) 0).1 ^ 3 + 1 * (swu 7 (curveF (1 : ZMod 7) 3) 0).1 + 3 :=
  swu_off_curve 7 (by decide) 1 3 0 (by decide) (by decide) (by decide) (Or.inl rfl)

end Bee2V.C06

/-
C06, stage 2 — property theorems for the one-operand routines of `ec2.c` (curves
`y² + xy = x³ + Ax² + B` over a field of characteristic 2, Lopez–Dahab coordinates `x = X/Z`,
`y = Y/Z²`): `ec2NegLD`, `ec2DblLD`, `ec2DblALD`, `ec2FromALD`, `ec2ToALD`, `ec2NegA`, `ecSetO`,
`ec2IsOnA`.  Each returns the value of Mathlib's group law on `(Wb A B).Point` for EVERY input — the
point at infinity and the points of order two (`x = 0`) included — with the destination distinct from
the operand (`al = .n`) and in place (`al = .ca`), for every coefficient `A` (the three arms `A = 1`,
`A = 0`, else of the doubling routines).
-/
import Bee2V.C06.LemmasBUn4
namespace Bee2V.C06
open WeierstrassCurve

set_option linter.unusedSectionVars false
set_option linter.unusedVariables false
variable {F : Type} [Field F] [DecidableEq F] [CharP F 2] {A B : F}

/-- `ec2NegLD`: `(X : XZ + Y : Z)` -/
theorem negB_correct {al : Al} {p : P3 F} {P : (Wb A B).Point} (hal : al = .n ∨ al = .ca)
    (hp : RepB3 A B p P) : RepB3 A B ((ecOps2 (curveB A B)).neg al p) (-P) :=
  BUn.neg_ok hal hp

example : RepB3 (0 : ZMod 2) 1 ((ecOps2 (curveB 0 1)).neg .ca (1, 0, 1)) (-(.some 1 0 BUn.ns10)) :=
  negB_correct (Or.inr rfl) BUn.repB3_10
example : RepB3 BUn.G4.w BUn.G4.w ((ecOps2 (curveB BUn.G4.w BUn.G4.w)).neg .n (BUn.G4.w, 1, BUn.G4.w))
    (-(.some 1 BUn.G4.w BUn.ns1w)) :=
  negB_correct (Or.inl rfl) BUn.repB3_1w

/-- `ec2DblLD` (`ec->dbl` as installed by `ec2CreateLD`), all three arms of the branch on `A`;
    `Z = 0 → O`, `X = 0` (a point of order two) `→ O` -/
theorem dblB_correct {al : Al} {p : P3 F} {P : (Wb A B).Point} (hal : al = .n ∨ al = .ca)
    (hp : RepB3 A B p P) : RepB3 A B ((ecOps2 (curveB A B)).dbl al p) (P + P) :=
  BUn.dbl_ok hal hp

/-- `A = 0`, in place -/
example : RepB3 (0 : ZMod 2) 1 ((ecOps2 (curveB 0 1)).dbl .ca (1, 0, 1))
    (.some 1 0 BUn.ns10 + .some 1 0 BUn.ns10) :=
  dblB_correct (Or.inr rfl) BUn.repB3_10
/-- a point of order two, in place -/
example : RepB3 (0 : ZMod 2) 1 ((ecOps2 (curveB 0 1)).dbl .ca (0, 1, 1))
    (.some 0 1 BUn.ns01 + .some 0 1 BUn.ns01) :=
  dblB_correct (Or.inr rfl) BUn.repB3_01
/-- `A = ω ∉ {0, 1}` over GF(4), `Z ≠ 1` -/
example : RepB3 BUn.G4.w BUn.G4.w ((ecOps2 (curveB BUn.G4.w BUn.G4.w)).dbl .n (BUn.G4.w, 1, BUn.G4.w))
    (.some 1 BUn.G4.w BUn.ns1w + .some 1 BUn.G4.w BUn.ns1w) :=
  dblB_correct (Or.inl rfl) BUn.repB3_1w

/-- `ec2DblALD`, all three arms of the branch on `A`; `x = 0 → O` -/
theorem dblaB_correct {al : Al} {a : P2 F} {P : (Wb A B).Point} (hal : al = .n ∨ al = .ca)
    (ha : RepB2 A B a P) : RepB3 A B (dbla2 (curveB A B) al a) (P + P) :=
  BUn.dbla_ok hal ha

example : RepB3 (0 : ZMod 2) 1 (dbla2 (curveB 0 1) .ca (1, 0)) (.some 1 0 BUn.ns10 + .some 1 0 BUn.ns10) :=
  dblaB_correct (Or.inr rfl) BUn.repB2_10
/-- a point of order two on the `A = 1` curve -/
example : RepB3 (1 : ZMod 2) 1 (dbla2 (curveB 1 1) .n (0, 1)) (.some 0 1 BUn.ns01' + .some 0 1 BUn.ns01') :=
  dblaB_correct (Or.inl rfl) BUn.repB2_01'
example : RepB3 BUn.G4.w BUn.G4.w (dbla2 (curveB BUn.G4.w BUn.G4.w) .ca (1, BUn.G4.w))
    (.some 1 BUn.G4.w BUn.ns1w + .some 1 BUn.G4.w BUn.ns1w) :=
  dblaB_correct (Or.inr rfl) BUn.repB2_1w

/-- `ec2FromALD` -/
theorem fromaB_correct {al : Al} {a : P2 F} {P : (Wb A B).Point} (hal : al = .n ∨ al = .ca)
    (ha : RepB2 A B a P) : RepB3 A B (froma2 (curveB A B) al a) P :=
  BUn.froma_ok hal ha

example : RepB3 (0 : ZMod 2) 1 (froma2 (curveB 0 1) .ca (1, 0)) (.some 1 0 BUn.ns10) :=
  fromaB_correct (Or.inr rfl) BUn.repB2_10

/-- `ec2ToALD`: FALSE iff the point is `O`, otherwise the affine point -/
theorem toaB_correct {al : Al} {p : P3 F} {P : (Wb A B).Point} (hal : al = .n ∨ al = .ca)
    (hp : RepB3 A B p P) :
    (toa2 (curveB A B) al p = none ↔ P = 0) ∧ ∀ b, toa2 (curveB A B) al p = some b → RepB2 A B b P :=
  BUn.toa_ok hal hp

example : (toa2 (curveB BUn.G4.w BUn.G4.w) .ca (BUn.G4.w, 1, BUn.G4.w) = none ↔
      (Affine.Point.some 1 BUn.G4.w BUn.ns1w) = 0) ∧
    ∀ b, toa2 (curveB BUn.G4.w BUn.G4.w) .ca (BUn.G4.w, 1, BUn.G4.w) = some b →
      RepB2 BUn.G4.w BUn.G4.w b (.some 1 BUn.G4.w BUn.ns1w) :=
  toaB_correct (Or.inr rfl) BUn.repB3_1w

/-- `ec2NegA`: `(x, x + y)` -/
theorem negAB_correct {al : Al} {a : P2 F} {P : (Wb A B).Point} (hal : al = .n ∨ al = .ca)
    (ha : RepB2 A B a P) : RepB2 A B (negA2 (curveB A B) al a) (-P) :=
  BUn.negA_ok hal ha

example : RepB2 (0 : ZMod 2) 1 (negA2 (curveB 0 1) .ca (1, 0)) (-(.some 1 0 BUn.ns10)) :=
  negAB_correct (Or.inr rfl) BUn.repB2_10

/-- `ec2FromALD` then reading the first two words back -/
theorem viewB_froma (a : P2 F) :
    (ecOps2 (curveB A B)).view ((ecOps2 (curveB A B)).froma a) = a := by
  obtain ⟨X, Y⟩ := a
  show ((froma2 (curveB A B) .n (X, Y)).1, (froma2 (curveB A B) .n (X, Y)).2.1) = (X, Y)
  rw [BUn.fromALD_exec (Or.inl rfl)]

example : (ecOps2 (curveB (0 : ZMod 2) 1)).view ((ecOps2 (curveB (0 : ZMod 2) 1)).froma (1, 0)) = (1, 0) :=
  viewB_froma _

/-- `ecSetO` -/
theorem setOB_correct : RepB3 A B (ecOps2 (curveB A B)).setO 0 :=
  BUn.repB3_O rfl

example : RepB3 (0 : ZMod 2) 1 (ecOps2 (curveB 0 1)).setO 0 := setOB_correct

/-- `ec2IsOnA` on field elements -/
theorem isOnA2_correct (a : P2 F) :
    isOnA2 (curveB A B) a = true ↔ a.2 ^ 2 + a.1 * a.2 = a.1 ^ 3 + A * a.1 ^ 2 + B :=
  BUn.isOnA_ok a

example : isOnA2 (curveB BUn.G4.w BUn.G4.w) (1, BUn.G4.w) = true := (isOnA2_correct _).2 (by rfl)
example : ¬ isOnA2 (curveB BUn.G4.w BUn.G4.w) (1, 1) = true := fun h => by
  have := (isOnA2_correct _).1 h; revert this; decide

end Bee2V.C06

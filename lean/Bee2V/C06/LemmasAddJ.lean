/-
C06 — ecpAddJ: symbolic execution of `run2 (curveF A B) ecpAddJ al` per branch and aliasing.
-/
import Bee2V.C06.Spec
import Mathlib.Tactic.Ring
import Mathlib.Tactic.FieldSimp
import Mathlib.Tactic.LinearCombination
namespace Bee2V.C06.AddJ
open WeierstrassCurve
set_option linter.unusedSimpArgs false
set_option linter.unusedVariables false
variable {F : Type} [Field F] [DecidableEq F] {A B : F}

/-- `H = U2 - U1` as the program computes it -/
def hh (X1 Z1 X2 Z2 : F) : F := X2 * (Z1 * Z1) - X1 * (Z2 * Z2)
/-- `S1`, `S2` -/
def s1 (Y1 Z2 : F) : F := Y1 * (Z2 * (Z2 * Z2))

/-- closed form of the generic branch of `ecpAddJ` (add-2007-bl) -/
def addG (X1 Y1 Z1 X2 Y2 Z2 : F) : P3 F :=
  let U1 := X1 * (Z2 * Z2)
  let S1 := Y1 * (Z2 * (Z2 * Z2))
  let S2 := Y2 * (Z1 * (Z1 * Z1))
  let H := X2 * (Z1 * Z1) - U1
  let r := (S2 - S1) + (S2 - S1)
  let I := (H + H) * (H + H)
  let J := H * I
  let V := U1 * I
  let X3 := r * r - J - (V + V)
  (X3, r * (V - X3) - (S1 + S1) * J, ((Z1 + Z2) * (Z1 + Z2) - Z1 * Z1 - Z2 * Z2) * H)

/-- closed form of the generic branch of `ecpDblJ` (dbl-1998-hnm) -/
def dblG (A X Y Z : F) : P3 F :=
  let M := A * (Z * Z * (Z * Z)) + X * X + (X * X + X * X)
  let Y2 := (Y + Y) * (Y + Y)
  let T := Y2 * Y2 / 2
  let S := Y2 * X
  let X3 := M * M - S - S
  (X3, (S - X3) * M - T, Y * Z + Y * Z)

macro "exec_simp" "[" ts:Lean.Parser.Tactic.simpLemma,* "]" : tactic =>
  `(tactic| simp [run2, curveF, mkCurve, ecpAddJ, ecpSubJ, ecpDblJ, Prog.run, Prog.block, Instr.exec, upd, get3,
      fieldFld, cX, cY, cZ, rA, rB, sc, sa, sb, sk, slotA, slotB, put3, base, hh, s1, $ts,*])

theorem add_exec_aO {al : Al} (hal : al = .n ∨ al = .ca ∨ al = .cb) (X1 Y1 Z1 X2 Y2 Z2 : F) (h1 : Z1 = 0) :
    run2 (curveF A B) ecpAddJ al (X1, Y1, Z1) (X2, Y2, Z2) = (X2, Y2, Z2) := by
  subst h1
  rcases hal with rfl | rfl | rfl <;> exec_simp []

theorem add_exec_bO {al : Al} (hal : al = .n ∨ al = .ca ∨ al = .cb) (X1 Y1 Z1 X2 Y2 Z2 : F) (h1 : Z1 ≠ 0) (h2 : Z2 = 0) :
    run2 (curveF A B) ecpAddJ al (X1, Y1, Z1) (X2, Y2, Z2) = (X1, Y1, Z1) := by
  subst h2
  rcases hal with rfl | rfl | rfl <;> exec_simp [h1]

theorem add_exec_gen {al : Al} (hal : al = .n ∨ al = .ca ∨ al = .cb) (X1 Y1 Z1 X2 Y2 Z2 : F)
    (h1 : Z1 ≠ 0) (h2 : Z2 ≠ 0) (hH : hh X1 Z1 X2 Z2 ≠ 0) :
    run2 (curveF A B) ecpAddJ al (X1, Y1, Z1) (X2, Y2, Z2) = addG X1 Y1 Z1 X2 Y2 Z2 := by
  unfold hh at hH
  rcases hal with rfl | rfl | rfl <;> exec_simp [h1, h2, hH] <;> simp only [addG]

theorem add_exec_opp {al : Al} (hal : al = .n ∨ al = .ca ∨ al = .cb) (X1 Y1 Z1 X2 Y2 Z2 : F)
    (h1 : Z1 ≠ 0) (h2 : Z2 ≠ 0) (hH : hh X1 Z1 X2 Z2 = 0) (hS : s1 Y1 Z2 ≠ s1 Y2 Z1) :
    (run2 (curveF A B) ecpAddJ al (X1, Y1, Z1) (X2, Y2, Z2)).2.2 = 0 := by
  unfold hh at hH; unfold s1 at hS
  rcases hal with rfl | rfl | rfl <;> exec_simp [h1, h2, hH, hS]


/-- `a = b` inside the fall-through, `c ≠ a`: `ecpDblJ(c, a)` -/
theorem add_exec_eq_a {al : Al} (hal : al = .n ∨ al = .cb) (X1 Y1 Z1 X2 Y2 Z2 : F)
    (h1 : Z1 ≠ 0) (h2 : Z2 ≠ 0) (hH : hh X1 Z1 X2 Z2 = 0) (hS : s1 Y1 Z2 = s1 Y2 Z1) (hY : Y1 ≠ 0) :
    run2 (curveF A B) ecpAddJ al (X1, Y1, Z1) (X2, Y2, Z2) = dblG A X1 Y1 Z1 := by
  unfold hh at hH; unfold s1 at hS
  rcases hal with rfl | rfl <;> exec_simp [h1, h2, hH, hS, hY] <;> simp only [dblG]

theorem add_exec_eq_a0 {al : Al} (hal : al = .n ∨ al = .cb) (X1 Y1 Z1 X2 Y2 Z2 : F)
    (h1 : Z1 ≠ 0) (h2 : Z2 ≠ 0) (hH : hh X1 Z1 X2 Z2 = 0) (hS : s1 Y1 Z2 = s1 Y2 Z1) (hY : Y1 = 0) :
    (run2 (curveF A B) ecpAddJ al (X1, Y1, Z1) (X2, Y2, Z2)).2.2 = 0 := by
  subst hY; unfold hh at hH; unfold s1 at hS
  rcases hal with rfl | rfl <;> exec_simp [h1, h2, hH, hS]

/-- `a = b` inside the fall-through, `c == a`: `ecpDblJ(c, b)` -/
theorem add_exec_eq_b (X1 Y1 Z1 X2 Y2 Z2 : F)
    (h1 : Z1 ≠ 0) (h2 : Z2 ≠ 0) (hH : hh X1 Z1 X2 Z2 = 0) (hS : s1 Y1 Z2 = s1 Y2 Z1) (hY : Y2 ≠ 0) :
    run2 (curveF A B) ecpAddJ .ca (X1, Y1, Z1) (X2, Y2, Z2) = dblG A X2 Y2 Z2 := by
  unfold hh at hH; unfold s1 at hS
  exec_simp [h1, h2, hH, hS, hY]; simp only [dblG]

theorem add_exec_eq_b0 (X1 Y1 Z1 X2 Y2 Z2 : F)
    (h1 : Z1 ≠ 0) (h2 : Z2 ≠ 0) (hH : hh X1 Z1 X2 Z2 = 0) (hS : s1 Y1 Z2 = s1 Y2 Z1) (hY : Y2 = 0) :
    (run2 (curveF A B) ecpAddJ .ca (X1, Y1, Z1) (X2, Y2, Z2)).2.2 = 0 := by
  subst hY; unfold hh at hH; unfold s1 at hS
  exec_simp [h1, h2, hH, hS]

/-! `a == b` (`.ab`): the second value argument is ignored -/
theorem add_exec_ab_O (X1 Y1 Z1 : F) (q : P3 F) (h1 : Z1 = 0) :
    (run2 (curveF A B) ecpAddJ .ab (X1, Y1, Z1) q).2.2 = 0 := by
  subst h1
  exec_simp []

theorem add_exec_ab_0 (X1 Y1 Z1 : F) (q : P3 F) (h1 : Z1 ≠ 0) (hY : Y1 = 0) :
    (run2 (curveF A B) ecpAddJ .ab (X1, Y1, Z1) q).2.2 = 0 := by
  subst hY
  exec_simp [h1]

theorem add_exec_ab (X1 Y1 Z1 : F) (q : P3 F) (h1 : Z1 ≠ 0) (hY : Y1 ≠ 0) :
    run2 (curveF A B) ecpAddJ .ab (X1, Y1, Z1) q = dblG A X1 Y1 Z1 := by
  exec_simp [h1, hY]; simp only [dblG]

end Bee2V.C06.AddJ

/-
C06, phase 3 — the formula theorems of the prime-curve routines (ecp.c) for ARBITRARY placements, part 2:
the mixed routines `ecpAddAJ`, `ecpSubAJ` (`_n`, `_ca`, `_cb`), `ecpToAJ`, `ecpNegA` (`_n`, `_ca`), the affine
routines `ecpAddAA`, `ecpSubAA` (`_n`, `_ca`, `_cb`, `_ab`, `_abc`) and `ecpIsOnA`.  Same setting as
PropsPlace2.lean (blocks of 3 registers for projective, 2 for affine points, arbitrary other store contents).

The routines that return FALSE without writing the output (`ecpToAJ` on `O`, `ecpAddAA`/`ecpSubAA` when the
result is `O`) are stated as: the returned flag is FALSE iff the result is `O`, and if the flag is TRUE the
destination holds the affine result.  They go through `place_opt` (`Prog.wellDefT`: the output registers have
to be written on the TRUE paths only).  `ecpSubAA(c, a, a)` returns FALSE whatever the buffer holds.
-/
import Bee2V.C06.LemmasPlace3
import Bee2V.C06.PropsUn
import Bee2V.C06.PropsAddAJ
import Bee2V.C06.PropsAA
namespace Bee2V.C06
open WeierstrassCurve
set_option linter.unusedSimpArgs false
set_option linter.unusedVariables false
variable {F : Type} [Field F] [DecidableEq F] {A B : F}

/-- `ecpAddAJ(c, a, b, ec, stack)`, all buffers distinct (affine `b`) -/
theorem addAJ_anywhere_n (h2 : (2 : F) ≠ 0) {c a b s : Nat} (hc : 2 ≤ c) (ha : 2 ≤ a) (hb : 2 ≤ b)
    (hca : c + 3 ≤ a ∨ a + 3 ≤ c) (hcb : c + 3 ≤ b ∨ b + 2 ≤ c) (hab : a + 3 ≤ b ∨ b + 2 ≤ a) (hcs : c + 3 ≤ s)
    (has : a + 3 ≤ s) (hbs : b + 2 ≤ s) (st : Store F) (hA : st.get rA = A) (hB : st.get rB = B)
    {P Q : (Wc A B).Point} (hp : Rep3 A B (get3 st a) P) (hq : Rep2 A B (get2 st b) Q) :
    Rep3 A B (get3 ((ecpAddAJ c a b s).run (fieldFld F) st).1 c) (P + Q) := by
  have e : get3 ((ecpAddAJ c a b s).run (fieldFld F) st).1 c =
      (ecOps (curveF A B)).adda .n (get3 st a) (get2 st b) :=
    place_get3 (S := SW 3 3 2) (c := c) (a := a) (b := b) (s := s) (P := ecpAddAJ 2 5 8 11) _
      (by place_map) (by inj_w) (by decide) (by decide) (by decide)
      (ag2A (cv := curveF A B) .n (.inl rfl) hA hB)
  rw [e]; exact adda_correct h2 (.inl rfl) hp hq

/-- `ecpAddAJ(c, a, b, ec, stack)`, `c == a` (affine `b`) -/
theorem addAJ_anywhere_ca (h2 : (2 : F) ≠ 0) {c b s : Nat} (hc : 2 ≤ c) (hb : 2 ≤ b)
    (hcb : c + 3 ≤ b ∨ b + 2 ≤ c) (hcs : c + 3 ≤ s) (hbs : b + 2 ≤ s) (st : Store F) (hA : st.get rA = A)
    (hB : st.get rB = B) {P Q : (Wc A B).Point} (hp : Rep3 A B (get3 st c) P) (hq : Rep2 A B (get2 st b) Q) :
    Rep3 A B (get3 ((ecpAddAJ c c b s).run (fieldFld F) st).1 c) (P + Q) := by
  have e : get3 ((ecpAddAJ c c b s).run (fieldFld F) st).1 c =
      (ecOps (curveF A B)).adda .ca (get3 st c) (get2 st b) :=
    place_get3 (S := SW 3 0 2) (c := c) (a := 0) (b := b) (s := s) (P := ecpAddAJ 2 2 8 11) _
      (by place_map) (by inj_w) (by decide) (by decide) (by decide)
      (ag2A (cv := curveF A B) .ca (.inr (.inl rfl)) hA hB)
  rw [e]; exact adda_correct h2 (.inr (.inl rfl)) hp hq

/-- `ecpAddAJ(c, a, b, ec, stack)`, `c == b` (affine `b`) -/
theorem addAJ_anywhere_cb (h2 : (2 : F) ≠ 0) {c a s : Nat} (hc : 2 ≤ c) (ha : 2 ≤ a)
    (hca : c + 3 ≤ a ∨ a + 3 ≤ c) (hcs : c + 3 ≤ s) (has : a + 3 ≤ s) (st : Store F) (hA : st.get rA = A)
    (hB : st.get rB = B) {P Q : (Wc A B).Point} (hp : Rep3 A B (get3 st a) P) (hq : Rep2 A B (get2 st c) Q) :
    Rep3 A B (get3 ((ecpAddAJ c a c s).run (fieldFld F) st).1 c) (P + Q) := by
  have e : get3 ((ecpAddAJ c a c s).run (fieldFld F) st).1 c =
      (ecOps (curveF A B)).adda .cb (get3 st a) (get2 st c) :=
    place_get3 (S := SW 3 3 0) (c := c) (a := a) (b := 0) (s := s) (P := ecpAddAJ 2 5 2 11) _
      (by place_map) (by inj_w) (by decide) (by decide) (by decide)
      (ag2A (cv := curveF A B) .cb (.inr (.inr rfl)) hA hB)
  rw [e]; exact adda_correct h2 (.inr (.inr rfl)) hp hq

/-- `ecpSubAJ(c, a, b, ec, stack)`, all buffers distinct (affine `b`) -/
theorem subAJ_anywhere_n (h2 : (2 : F) ≠ 0) {c a b s : Nat} (hc : 2 ≤ c) (ha : 2 ≤ a) (hb : 2 ≤ b)
    (hca : c + 3 ≤ a ∨ a + 3 ≤ c) (hcb : c + 3 ≤ b ∨ b + 2 ≤ c) (hab : a + 3 ≤ b ∨ b + 2 ≤ a) (hcs : c + 3 ≤ s)
    (has : a + 3 ≤ s) (hbs : b + 2 ≤ s) (st : Store F) (hA : st.get rA = A) (hB : st.get rB = B)
    {P Q : (Wc A B).Point} (hp : Rep3 A B (get3 st a) P) (hq : Rep2 A B (get2 st b) Q) :
    Rep3 A B (get3 ((ecpSubAJ c a b s).run (fieldFld F) st).1 c) (P - Q) := by
  have e : get3 ((ecpSubAJ c a b s).run (fieldFld F) st).1 c =
      (ecOps (curveF A B)).suba .n (get3 st a) (get2 st b) :=
    place_get3 (S := SW 3 3 2) (c := c) (a := a) (b := b) (s := s) (P := ecpSubAJ 2 5 8 11) _
      (by place_map) (by inj_w) (by decide) (by decide) (by decide)
      (ag2A (cv := curveF A B) .n (.inl rfl) hA hB)
  rw [e]; exact suba_correct h2 (.inl rfl) hp hq

/-- `ecpSubAJ(c, a, b, ec, stack)`, `c == a` (affine `b`) -/
theorem subAJ_anywhere_ca (h2 : (2 : F) ≠ 0) {c b s : Nat} (hc : 2 ≤ c) (hb : 2 ≤ b)
    (hcb : c + 3 ≤ b ∨ b + 2 ≤ c) (hcs : c + 3 ≤ s) (hbs : b + 2 ≤ s) (st : Store F) (hA : st.get rA = A)
    (hB : st.get rB = B) {P Q : (Wc A B).Point} (hp : Rep3 A B (get3 st c) P) (hq : Rep2 A B (get2 st b) Q) :
    Rep3 A B (get3 ((ecpSubAJ c c b s).run (fieldFld F) st).1 c) (P - Q) := by
  have e : get3 ((ecpSubAJ c c b s).run (fieldFld F) st).1 c =
      (ecOps (curveF A B)).suba .ca (get3 st c) (get2 st b) :=
    place_get3 (S := SW 3 0 2) (c := c) (a := 0) (b := b) (s := s) (P := ecpSubAJ 2 2 8 11) _
      (by place_map) (by inj_w) (by decide) (by decide) (by decide)
      (ag2A (cv := curveF A B) .ca (.inr (.inl rfl)) hA hB)
  rw [e]; exact suba_correct h2 (.inr (.inl rfl)) hp hq

/-- `ecpSubAJ(c, a, b, ec, stack)`, `c == b` (affine `b`) -/
theorem subAJ_anywhere_cb (h2 : (2 : F) ≠ 0) {c a s : Nat} (hc : 2 ≤ c) (ha : 2 ≤ a)
    (hca : c + 3 ≤ a ∨ a + 3 ≤ c) (hcs : c + 3 ≤ s) (has : a + 3 ≤ s) (st : Store F) (hA : st.get rA = A)
    (hB : st.get rB = B) {P Q : (Wc A B).Point} (hp : Rep3 A B (get3 st a) P) (hq : Rep2 A B (get2 st c) Q) :
    Rep3 A B (get3 ((ecpSubAJ c a c s).run (fieldFld F) st).1 c) (P - Q) := by
  have e : get3 ((ecpSubAJ c a c s).run (fieldFld F) st).1 c =
      (ecOps (curveF A B)).suba .cb (get3 st a) (get2 st c) :=
    place_get3 (S := SW 3 3 0) (c := c) (a := a) (b := 0) (s := s) (P := ecpSubAJ 2 5 2 11) _
      (by place_map) (by inj_w) (by decide) (by decide) (by decide)
      (ag2A (cv := curveF A B) .cb (.inr (.inr rfl)) hA hB)
  rw [e]; exact suba_correct h2 (.inr (.inr rfl)) hp hq

/-- `ecpToAJ(b, a, ec, stack)`, destination and operand in different buffers: FALSE iff `a == O`, otherwise the affine point -/
theorem toAJ_anywhere_n {b a s : Nat} (hb : 2 ≤ b) (ha : 2 ≤ a) (hba : b + 2 ≤ a ∨ a + 3 ≤ b) (hbs : b + 2 ≤ s)
    (has : a + 3 ≤ s) (st : Store F) (hA : st.get rA = A) (hB : st.get rB = B) {P : (Wc A B).Point}
    (hp : Rep3 A B (get3 st a) P) :
    (((ecpToAJ b a s).run (fieldFld F) st).2 = false ↔ P = 0) ∧
    (((ecpToAJ b a s).run (fieldFld F) st).2 = true →
      Rep2 A B (get2 ((ecpToAJ b a s).run (fieldFld F) st).1 b) P) := by
  have e : optRes ((ecpToAJ b a s).run (fieldFld F) st) b =
      toa (curveF A B) .n (get3 st a) :=
    place_opt (S := SW 2 3 0) (c := b) (a := a) (b := 0) (s := s) (P := ecpToAJ 2 5 11) _
      (by place_map) (by inj_w) (by decide) (by decide) (by decide)
      (ag1 (cv := curveF A B) .n (.inl rfl) hA hB)
  exact optRes_spec e (toa_correct (.inl rfl) hp)

/-- `ecpToAJ(b, a, ec, stack)`, in place: FALSE iff `a == O`, otherwise the affine point -/
theorem toAJ_anywhere_ca {b s : Nat} (hb : 2 ≤ b) (hbs : b + 3 ≤ s) (st : Store F) (hA : st.get rA = A)
    (hB : st.get rB = B) {P : (Wc A B).Point} (hp : Rep3 A B (get3 st b) P) :
    (((ecpToAJ b b s).run (fieldFld F) st).2 = false ↔ P = 0) ∧
    (((ecpToAJ b b s).run (fieldFld F) st).2 = true →
      Rep2 A B (get2 ((ecpToAJ b b s).run (fieldFld F) st).1 b) P) := by
  have e : optRes ((ecpToAJ b b s).run (fieldFld F) st) b =
      toa (curveF A B) .ca (get3 st b) :=
    place_opt (S := SW 3 0 0) (c := b) (a := 0) (b := 0) (s := s) (P := ecpToAJ 2 2 11) _
      (by place_map) (by inj_w) (by decide) (by decide) (by decide)
      (ag1 (cv := curveF A B) .ca (.inr rfl) hA hB)
  exact optRes_spec e (toa_correct (.inr rfl) hp)

/-- `ecpNegA(b, a, ec)`, destination and operand in different buffers -/
theorem negA_anywhere_n {b a : Nat} (hb : 2 ≤ b) (ha : 2 ≤ a) (hba : b + 2 ≤ a ∨ a + 2 ≤ b) (st : Store F)
    (hA : st.get rA = A) (hB : st.get rB = B) {P : (Wc A B).Point} (hp : Rep2 A B (get2 st a) P) :
    Rep2 A B (get2 ((ecpNegA b a).run (fieldFld F) st).1 b) (-P) := by
  have e : get2 ((ecpNegA b a).run (fieldFld F) st).1 b =
      negA (curveF A B) .n (get2 st a) :=
    place_get2 (S := SW 2 2 0) (c := b) (a := a) (b := 0) (s := b + a + 3) (P := ecpNegA 2 5) _
      (by place_map) (by inj_w) (by decide) (by decide) (by decide)
      (ag1a (cv := curveF A B) .n (.inl rfl) hA hB)
  rw [e]; exact negA_correct (.inl rfl) hp

/-- `ecpNegA(b, a, ec)`, in place -/
theorem negA_anywhere_ca {b : Nat} (hb : 2 ≤ b) (st : Store F) (hA : st.get rA = A) (hB : st.get rB = B)
    {P : (Wc A B).Point} (hp : Rep2 A B (get2 st b) P) :
    Rep2 A B (get2 ((ecpNegA b b).run (fieldFld F) st).1 b) (-P) := by
  have e : get2 ((ecpNegA b b).run (fieldFld F) st).1 b =
      negA (curveF A B) .ca (get2 st b) :=
    place_get2 (S := SW 2 0 0) (c := b) (a := 0) (b := 0) (s := b + 3) (P := ecpNegA 2 2) _
      (by place_map) (by inj_w) (by decide) (by decide) (by decide)
      (ag1a (cv := curveF A B) .ca (.inr rfl) hA hB)
  rw [e]; exact negA_correct (.inr rfl) hp

/-- `ecpAddAA(c, a, b, ec, stack)`, all buffers distinct: FALSE iff `a + b == O`, otherwise the affine sum -/
theorem addAA_anywhere_n (h2 : (2 : F) ≠ 0) {c a b s : Nat} (hc : 2 ≤ c) (ha : 2 ≤ a) (hb : 2 ≤ b)
    (hca : c + 2 ≤ a ∨ a + 2 ≤ c) (hcb : c + 2 ≤ b ∨ b + 2 ≤ c) (hab : a + 2 ≤ b ∨ b + 2 ≤ a) (hcs : c + 2 ≤ s)
    (has : a + 2 ≤ s) (hbs : b + 2 ≤ s) (st : Store F) (hA : st.get rA = A) (hB : st.get rB = B)
    {P Q : (Wc A B).Point} (hp : Rep2 A B (get2 st a) P) (hq : Rep2 A B (get2 st b) Q) :
    (((ecpAddAA c a b s).run (fieldFld F) st).2 = false ↔ P + Q = 0) ∧
    (((ecpAddAA c a b s).run (fieldFld F) st).2 = true →
      Rep2 A B (get2 ((ecpAddAA c a b s).run (fieldFld F) st).1 c) (P + Q)) := by
  have e : optRes ((ecpAddAA c a b s).run (fieldFld F) st) c =
      addAA (curveF A B) .n (get2 st a) (get2 st b) :=
    place_opt (S := SW 2 2 2) (c := c) (a := a) (b := b) (s := s) (P := ecpAddAA 2 5 8 11) _
      (by place_map) (by inj_w) (by decide) (by decide) (by decide)
      (agAA (cv := curveF A B) .n hA hB)
  exact optRes_spec e (addAA_correct h2 (.inl rfl) hp hq)

/-- `ecpAddAA(c, a, b, ec, stack)`, `c == a`: FALSE iff `a + b == O`, otherwise the affine sum -/
theorem addAA_anywhere_ca (h2 : (2 : F) ≠ 0) {c b s : Nat} (hc : 2 ≤ c) (hb : 2 ≤ b)
    (hcb : c + 2 ≤ b ∨ b + 2 ≤ c) (hcs : c + 2 ≤ s) (hbs : b + 2 ≤ s) (st : Store F) (hA : st.get rA = A)
    (hB : st.get rB = B) {P Q : (Wc A B).Point} (hp : Rep2 A B (get2 st c) P) (hq : Rep2 A B (get2 st b) Q) :
    (((ecpAddAA c c b s).run (fieldFld F) st).2 = false ↔ P + Q = 0) ∧
    (((ecpAddAA c c b s).run (fieldFld F) st).2 = true →
      Rep2 A B (get2 ((ecpAddAA c c b s).run (fieldFld F) st).1 c) (P + Q)) := by
  have e : optRes ((ecpAddAA c c b s).run (fieldFld F) st) c =
      addAA (curveF A B) .ca (get2 st c) (get2 st b) :=
    place_opt (S := SW 2 0 2) (c := c) (a := 0) (b := b) (s := s) (P := ecpAddAA 2 2 8 11) _
      (by place_map) (by inj_w) (by decide) (by decide) (by decide)
      (agAA (cv := curveF A B) .ca hA hB)
  exact optRes_spec e (addAA_correct h2 (.inr (.inl rfl)) hp hq)

/-- `ecpAddAA(c, a, b, ec, stack)`, `c == b`: FALSE iff `a + b == O`, otherwise the affine sum -/
theorem addAA_anywhere_cb (h2 : (2 : F) ≠ 0) {c a s : Nat} (hc : 2 ≤ c) (ha : 2 ≤ a)
    (hca : c + 2 ≤ a ∨ a + 2 ≤ c) (hcs : c + 2 ≤ s) (has : a + 2 ≤ s) (st : Store F) (hA : st.get rA = A)
    (hB : st.get rB = B) {P Q : (Wc A B).Point} (hp : Rep2 A B (get2 st a) P) (hq : Rep2 A B (get2 st c) Q) :
    (((ecpAddAA c a c s).run (fieldFld F) st).2 = false ↔ P + Q = 0) ∧
    (((ecpAddAA c a c s).run (fieldFld F) st).2 = true →
      Rep2 A B (get2 ((ecpAddAA c a c s).run (fieldFld F) st).1 c) (P + Q)) := by
  have e : optRes ((ecpAddAA c a c s).run (fieldFld F) st) c =
      addAA (curveF A B) .cb (get2 st a) (get2 st c) :=
    place_opt (S := SW 2 2 0) (c := c) (a := a) (b := 0) (s := s) (P := ecpAddAA 2 5 2 11) _
      (by place_map) (by inj_w) (by decide) (by decide) (by decide)
      (agAA (cv := curveF A B) .cb hA hB)
  exact optRes_spec e (addAA_correct h2 (.inr (.inr rfl)) hp hq)

/-- `ecpAddAA(c, a, b, ec, stack)`, `a == b`, `c` distinct: FALSE iff `2a == O`, otherwise the affine double -/
theorem addAA_anywhere_ab (h2 : (2 : F) ≠ 0) {c a s : Nat} (hc : 2 ≤ c) (ha : 2 ≤ a)
    (hca : c + 2 ≤ a ∨ a + 2 ≤ c) (hcs : c + 2 ≤ s) (has : a + 2 ≤ s) (st : Store F) (hA : st.get rA = A)
    (hB : st.get rB = B) {P : (Wc A B).Point} (hp : Rep2 A B (get2 st a) P) :
    (((ecpAddAA c a a s).run (fieldFld F) st).2 = false ↔ P + P = 0) ∧
    (((ecpAddAA c a a s).run (fieldFld F) st).2 = true →
      Rep2 A B (get2 ((ecpAddAA c a a s).run (fieldFld F) st).1 c) (P + P)) := by
  have e : optRes ((ecpAddAA c a a s).run (fieldFld F) st) c =
      addAA (curveF A B) .ab (get2 st a) (get2 st a) :=
    place_opt (S := SW 2 2 0) (c := c) (a := a) (b := 0) (s := s) (P := ecpAddAA 2 5 5 11) _
      (by place_map) (by inj_w) (by decide) (by decide) (by decide)
      (agAA (cv := curveF A B) .ab hA hB)
  exact optRes_spec e (addAA_same_correct h2 (.inl rfl) hp _)

/-- `ecpAddAA(c, a, b, ec, stack)`, `a == b == c`: FALSE iff `2a == O`, otherwise the affine double -/
theorem addAA_anywhere_abc (h2 : (2 : F) ≠ 0) {c s : Nat} (hc : 2 ≤ c) (hcs : c + 2 ≤ s) (st : Store F)
    (hA : st.get rA = A) (hB : st.get rB = B) {P : (Wc A B).Point} (hp : Rep2 A B (get2 st c) P) :
    (((ecpAddAA c c c s).run (fieldFld F) st).2 = false ↔ P + P = 0) ∧
    (((ecpAddAA c c c s).run (fieldFld F) st).2 = true →
      Rep2 A B (get2 ((ecpAddAA c c c s).run (fieldFld F) st).1 c) (P + P)) := by
  have e : optRes ((ecpAddAA c c c s).run (fieldFld F) st) c =
      addAA (curveF A B) .abc (get2 st c) (get2 st c) :=
    place_opt (S := SW 2 0 0) (c := c) (a := 0) (b := 0) (s := s) (P := ecpAddAA 2 2 2 11) _
      (by place_map) (by inj_w) (by decide) (by decide) (by decide)
      (agAA (cv := curveF A B) .abc hA hB)
  exact optRes_spec e (addAA_same_correct h2 (.inr rfl) hp _)

/-- `ecpSubAA(c, a, b, ec, stack)`, all buffers distinct: FALSE iff `a - b == O`, otherwise the affine difference -/
theorem subAA_anywhere_n (h2 : (2 : F) ≠ 0) {c a b s : Nat} (hc : 2 ≤ c) (ha : 2 ≤ a) (hb : 2 ≤ b)
    (hca : c + 2 ≤ a ∨ a + 2 ≤ c) (hcb : c + 2 ≤ b ∨ b + 2 ≤ c) (hab : a + 2 ≤ b ∨ b + 2 ≤ a) (hcs : c + 2 ≤ s)
    (has : a + 2 ≤ s) (hbs : b + 2 ≤ s) (st : Store F) (hA : st.get rA = A) (hB : st.get rB = B)
    {P Q : (Wc A B).Point} (hp : Rep2 A B (get2 st a) P) (hq : Rep2 A B (get2 st b) Q) :
    (((ecpSubAA c a b s).run (fieldFld F) st).2 = false ↔ P - Q = 0) ∧
    (((ecpSubAA c a b s).run (fieldFld F) st).2 = true →
      Rep2 A B (get2 ((ecpSubAA c a b s).run (fieldFld F) st).1 c) (P - Q)) := by
  have e : optRes ((ecpSubAA c a b s).run (fieldFld F) st) c =
      subAA (curveF A B) .n (get2 st a) (get2 st b) :=
    place_opt (S := SW 2 2 2) (c := c) (a := a) (b := b) (s := s) (P := ecpSubAA 2 5 8 11) _
      (by place_map) (by inj_w) (by decide) (by decide) (by decide)
      (agAA (cv := curveF A B) .n hA hB)
  exact optRes_spec e (subAA_correct h2 (.inl rfl) hp hq)

/-- `ecpSubAA(c, a, b, ec, stack)`, `c == a`: FALSE iff `a - b == O`, otherwise the affine difference -/
theorem subAA_anywhere_ca (h2 : (2 : F) ≠ 0) {c b s : Nat} (hc : 2 ≤ c) (hb : 2 ≤ b)
    (hcb : c + 2 ≤ b ∨ b + 2 ≤ c) (hcs : c + 2 ≤ s) (hbs : b + 2 ≤ s) (st : Store F) (hA : st.get rA = A)
    (hB : st.get rB = B) {P Q : (Wc A B).Point} (hp : Rep2 A B (get2 st c) P) (hq : Rep2 A B (get2 st b) Q) :
    (((ecpSubAA c c b s).run (fieldFld F) st).2 = false ↔ P - Q = 0) ∧
    (((ecpSubAA c c b s).run (fieldFld F) st).2 = true →
      Rep2 A B (get2 ((ecpSubAA c c b s).run (fieldFld F) st).1 c) (P - Q)) := by
  have e : optRes ((ecpSubAA c c b s).run (fieldFld F) st) c =
      subAA (curveF A B) .ca (get2 st c) (get2 st b) :=
    place_opt (S := SW 2 0 2) (c := c) (a := 0) (b := b) (s := s) (P := ecpSubAA 2 2 8 11) _
      (by place_map) (by inj_w) (by decide) (by decide) (by decide)
      (agAA (cv := curveF A B) .ca hA hB)
  exact optRes_spec e (subAA_correct h2 (.inr (.inl rfl)) hp hq)

/-- `ecpSubAA(c, a, b, ec, stack)`, `c == b`: FALSE iff `a - b == O`, otherwise the affine difference -/
theorem subAA_anywhere_cb (h2 : (2 : F) ≠ 0) {c a s : Nat} (hc : 2 ≤ c) (ha : 2 ≤ a)
    (hca : c + 2 ≤ a ∨ a + 2 ≤ c) (hcs : c + 2 ≤ s) (has : a + 2 ≤ s) (st : Store F) (hA : st.get rA = A)
    (hB : st.get rB = B) {P Q : (Wc A B).Point} (hp : Rep2 A B (get2 st a) P) (hq : Rep2 A B (get2 st c) Q) :
    (((ecpSubAA c a c s).run (fieldFld F) st).2 = false ↔ P - Q = 0) ∧
    (((ecpSubAA c a c s).run (fieldFld F) st).2 = true →
      Rep2 A B (get2 ((ecpSubAA c a c s).run (fieldFld F) st).1 c) (P - Q)) := by
  have e : optRes ((ecpSubAA c a c s).run (fieldFld F) st) c =
      subAA (curveF A B) .cb (get2 st a) (get2 st c) :=
    place_opt (S := SW 2 2 0) (c := c) (a := a) (b := 0) (s := s) (P := ecpSubAA 2 5 2 11) _
      (by place_map) (by inj_w) (by decide) (by decide) (by decide)
      (agAA (cv := curveF A B) .cb hA hB)
  exact optRes_spec e (subAA_correct h2 (.inr (.inr rfl)) hp hq)

/-- `ecpSubAA(c, a, b, ec, stack)`, `a == b`, `c` distinct: FALSE (`a - a == O`) for every content of the buffer -/
theorem subAA_anywhere_ab {c a s : Nat} (hc : 2 ≤ c) (ha : 2 ≤ a) (hca : c + 2 ≤ a ∨ a + 2 ≤ c)
    (hcs : c + 2 ≤ s) (has : a + 2 ≤ s) (st : Store F) (hA : st.get rA = A) (hB : st.get rB = B) :
    ((ecpSubAA c a a s).run (fieldFld F) st).2 = false := by
  have e : optRes ((ecpSubAA c a a s).run (fieldFld F) st) c =
      subAA (curveF A B) .ab (get2 st a) (get2 st a) :=
    place_opt (S := SW 2 2 0) (c := c) (a := a) (b := 0) (s := s) (P := ecpSubAA 2 5 5 11) _
      (by place_map) (by inj_w) (by decide) (by decide) (by decide)
      (agAA (cv := curveF A B) .ab hA hB)
  exact optRes_none (e.trans (AA.subAA_exec_same .ab (.inl rfl) _ _))

/-- `ecpSubAA(c, a, b, ec, stack)`, `a == b == c`: FALSE (`a - a == O`) for every content of the buffer -/
theorem subAA_anywhere_abc {c s : Nat} (hc : 2 ≤ c) (hcs : c + 2 ≤ s) (st : Store F) (hA : st.get rA = A)
    (hB : st.get rB = B) :
    ((ecpSubAA c c c s).run (fieldFld F) st).2 = false := by
  have e : optRes ((ecpSubAA c c c s).run (fieldFld F) st) c =
      subAA (curveF A B) .abc (get2 st c) (get2 st c) :=
    place_opt (S := SW 2 0 0) (c := c) (a := 0) (b := 0) (s := s) (P := ecpSubAA 2 2 2 11) _
      (by place_map) (by inj_w) (by decide) (by decide) (by decide)
      (agAA (cv := curveF A B) .abc hA hB)
  exact optRes_none (e.trans (AA.subAA_exec_same .abc (.inr rfl) _ _))

/-- `ecpIsOnA(a, ec, stack)` (after the range test): TRUE iff the curve equation holds -/
theorem isOnA_anywhere {a s : Nat} (ha : 2 ≤ a) (has : a + 2 ≤ s) (st : Store F) (hA : st.get rA = A)
    (hB : st.get rB = B) :
    ((ecpIsOnA a s).run (fieldFld F) st).2 = true ↔ (get2 st a).2 ^ 2 = (get2 st a).1 ^ 3 + A * (get2 st a).1 + B := by
  have e : ((ecpIsOnA a s).run (fieldFld F) st).2 =
      isOnA (curveF A B) (get2 st a) :=
    place_flag (S := SW 0 2 0) (c := 0) (a := a) (b := 0) (s := s) (P := ecpIsOnA 5 11) _
      (by place_map) (by inj_w) (by decide) (by decide)
      (ag1a (cv := curveF A B) .n (.inl rfl) hA hB)
  rw [e]; exact isOnA_correct _
/-! ### non-vacuity: `y² = x³ + 1` over `ℚ`, placements different from the canonical one, garbage elsewhere -/

/-- `ecpAddAA(c, a, c)` with `c = 20`, `a = 7`, stack from `40`: `(2, 3) + (-1, 0)`; register 9 (right behind
    the affine `a`) and the stack register 40 hold garbage -/
example :
    let st : Store ℚ := upd (upd (put2 (put2 (base (curveF (0 : ℚ) 1)) 7 (2, 3)) 20 (-1, 0)) 9 7) 40 99
    (((ecpAddAA 20 7 20 40).run (fieldFld ℚ) st).2 = false ↔
      (.some 2 3 Un.ns23 + .some (-1) 0 Un.nsm10 : (Wc (0 : ℚ) 1).Point) = 0) ∧
    (((ecpAddAA 20 7 20 40).run (fieldFld ℚ) st).2 = true →
      Rep2 0 1 (get2 ((ecpAddAA 20 7 20 40).run (fieldFld ℚ) st).1 20)
        (.some 2 3 Un.ns23 + .some (-1) 0 Un.nsm10)) :=
  addAA_anywhere_cb (by norm_num) (by decide) (by decide) (by decide) (by decide) (by decide) _ rfl rfl
    Un.rep2_23 Un.rep2_m10

/-- `ecpToAJ(b, b)` in place at `b = 12`, stack from `15` -/
example :
    let st : Store ℚ := upd (put3 (base (curveF (0 : ℚ) 1)) 12 (8, 24, 2)) 16 5
    (((ecpToAJ 12 12 15).run (fieldFld ℚ) st).2 = false ↔ (.some 2 3 Un.ns23 : (Wc (0 : ℚ) 1).Point) = 0) ∧
    (((ecpToAJ 12 12 15).run (fieldFld ℚ) st).2 = true →
      Rep2 0 1 (get2 ((ecpToAJ 12 12 15).run (fieldFld ℚ) st).1 12) (.some 2 3 Un.ns23)) :=
  toAJ_anywhere_ca (by decide) (by decide) _ rfl rfl Un.rep3_23

end Bee2V.C06

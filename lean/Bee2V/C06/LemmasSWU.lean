/-
C06 — the SWU map `ecpSWU` (ecp.c), part 1: closed form of the execution.
`swuSpec p A B a` mirrors the instruction order of the program; `swu_eq` says the program computes it
over any field (the program is executed in three chunks on a generic store, each chunk by a small `simp`).
-/
import Bee2V.C06.Spec
import Mathlib.Tactic.Ring
namespace Bee2V.C06.SWU

set_option linter.unusedSectionVars false
set_option linter.unusedSimpArgs false
variable {F : Type} [Field F] [DecidableEq F]

/-! ## closed form -/

/-- `t = -a²` -/
def tF (a : F) : F := -(a * a)
/-- `t² + t` (register `x2` after the first two writes) -/
def wF (a : F) : F := tF a * tF a + tF a
/-- `x1 = -B (1 + t + t²) (A (t + t²))^(p-2)` in the order of the C -/
def x1F (p : Nat) (A B a : F) : F := -((wF a * A) ^ (p - 2) * (wF a + 1) * B)
/-- `y = x1³ + A x1 + B` in the order of the C -/
def gF (A B x : F) : F := x * A + x * x * x + B

/-- what `ecpSWU` computes -/
def swuSpec (p : Nat) (A B a : F) : P2 F :=
  let t := tF a
  let x1 := x1F p A B a
  let y := gF A B x1
  let s := y ^ (p - 2 - p / 4)
  if s * s * y = 1 then (x1, s * y) else (x1 * t, s * (a * a * a * y))

/-! ## execution -/

theorem run_block (f : Fld F) (is : List Instr) (k : Prog) (st : Store F) :
    Prog.run f (Prog.block is k) st = Prog.run f k (is.foldl (fun st i => i.exec f st) st) := by
  induction is generalizing st with
  | nil => rfl
  | cons i is ih => simp [Prog.block, Prog.run, ih]

/-- straight-line execution over a field -/
def run (l : List Instr) (st : Store F) : Store F :=
  l.foldl (fun st i => i.exec (fieldFld F) st) st

theorem run_append (l₁ l₂ : List Instr) (st : Store F) : run (l₁ ++ l₂) st = run l₂ (run l₁ st) := by
  simp [run, List.foldl_append]

open Instr in
/-- `t`, `x1` (registers 11, 12; 13 = `x2`, 16 = unity) -/
def chunk1 (e1 : Nat) : List Instr := [
  sqr 11 5, neg 11 11, sqr 13 11, add 13 13 11, mul 12 13 0, pow 12 12 e1, one 16,
  add 13 13 16, mul 12 12 13, mul 12 12 1, neg 12 12]

open Instr in
/-- `y`, `x2` (registers 14, 13) -/
def chunk2 : List Instr := [
  sqr 13 12, mul 13 13 12, mul 14 12 0, add 14 14 13, add 14 14 1, mul 13 12 11]

open Instr in
/-- `t <- y^e2`, `s <- a³ y`, `b.x <- t² y` (registers 11, 15, 2) -/
def chunk3 (e2 : Nat) : List Instr := [
  pow 11 14 e2, sqr 15 5, mul 15 15 5, mul 15 15 14, sqr 2 11, mul 2 2 14]

/-- the two arms of the final selection -/
def tail : Prog :=
  .ifone 2
    (Prog.block [.copy 2 12, .mul 3 11 14] (.ret true))
    (Prog.block [.copy 2 13, .mul 3 11 15] (.ret true))

theorem ecpSWU_chunks (p : Nat) :
    ecpSWU p sc sa sk = Prog.block (chunk1 (p - 2) ++ (chunk2 ++ chunk3 (p - 2 - p / 4))) tail := rfl

theorem chunk1_exec (p : Nat) (A B a : F) (st : Store F)
    (h0 : st.get 0 = A) (h1 : st.get 1 = B) (h5 : st.get 5 = a) :
    (run (chunk1 (p - 2)) st).get 0 = A ∧ (run (chunk1 (p - 2)) st).get 1 = B ∧
    (run (chunk1 (p - 2)) st).get 5 = a ∧ (run (chunk1 (p - 2)) st).get 11 = tF a ∧
    (run (chunk1 (p - 2)) st).get 12 = x1F p A B a := by
  simp [run, chunk1, Instr.exec, upd, fieldFld, tF, wF, x1F, h0, h1, h5]

theorem chunk2_exec (A B a t x1 : F) (st : Store F)
    (h0 : st.get 0 = A) (h1 : st.get 1 = B) (h5 : st.get 5 = a) (h11 : st.get 11 = t)
    (h12 : st.get 12 = x1) :
    (run chunk2 st).get 5 = a ∧ (run chunk2 st).get 12 = x1 ∧ (run chunk2 st).get 13 = x1 * t ∧
    (run chunk2 st).get 14 = gF A B x1 := by
  simp [run, chunk2, Instr.exec, upd, fieldFld, gF, h0, h1, h5, h11, h12]

theorem chunk3_exec (e2 : Nat) (a x1 x2 y : F) (st : Store F)
    (h5 : st.get 5 = a) (h12 : st.get 12 = x1) (h13 : st.get 13 = x2) (h14 : st.get 14 = y) :
    (run (chunk3 e2) st).get 2 = y ^ e2 * y ^ e2 * y ∧ (run (chunk3 e2) st).get 11 = y ^ e2 ∧
    (run (chunk3 e2) st).get 12 = x1 ∧ (run (chunk3 e2) st).get 13 = x2 ∧
    (run (chunk3 e2) st).get 14 = y ∧ (run (chunk3 e2) st).get 15 = a * a * a * y := by
  simp [run, chunk3, Instr.exec, upd, fieldFld, h5, h12, h13, h14]

theorem tail_exec (c s x1 x2 y sr : F) (st : Store F)
    (h2 : st.get 2 = c) (h11 : st.get 11 = s) (h12 : st.get 12 = x1) (h13 : st.get 13 = x2)
    (h14 : st.get 14 = y) (h15 : st.get 15 = sr) :
    get2 (tail.run (fieldFld F) st).1 2 = if c = 1 then (x1, s * y) else (x2, s * sr) := by
  by_cases hc : c = 1 <;>
    simp [tail, Prog.run, Prog.block, Instr.exec, upd, get2, fieldFld, cX, cY, h2, h11, h12, h13, h14,
      h15, hc]

/-- the program computes the closed form (any field, any `p`) -/
theorem swu_eq (p : Nat) (A B a : F) : swu p (curveF A B) a = swuSpec p A B a := by
  have hf : (curveF A B).f = fieldFld F := rfl
  unfold swu
  rw [ecpSWU_chunks, run_block, hf]
  change get2 (tail.run (fieldFld F)
    (run (chunk1 (p - 2) ++ (chunk2 ++ chunk3 (p - 2 - p / 4))) (upd (base (curveF A B)) sa a))).1 sc = _
  rw [run_append, run_append]
  have g0 : (upd (base (curveF A B)) sa a).get 0 = A := by simp [upd, base, curveF, mkCurve, sa, rA]
  have g1 : (upd (base (curveF A B)) sa a).get 1 = B := by simp [upd, base, curveF, mkCurve, sa, rA, rB]
  have g5 : (upd (base (curveF A B)) sa a).get 5 = a := by simp [upd, sa]
  obtain ⟨a0, a1, a5, a11, a12⟩ := chunk1_exec p A B a _ g0 g1 g5
  obtain ⟨b5, b12, b13, b14⟩ := chunk2_exec A B a _ _ _ a0 a1 a5 a11 a12
  obtain ⟨c2, c11, c12, c13, c14, c15⟩ := chunk3_exec (p - 2 - p / 4) a _ _ _ _ b5 b12 b13 b14
  rw [show sc = 2 from rfl, tail_exec _ _ _ _ _ _ _ c2 c11 c12 c13 c14 c15]
  rfl

end Bee2V.C06.SWU

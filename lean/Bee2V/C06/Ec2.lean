/-
C06 — executable model, part 2b: the routines of `src/math/ec2.c` (curves `y² + xy = x³ + A x² + B`
over GF(2^m)) as programs.

Affine points `(x, y)`, projective points in Lopez–Dahab coordinates `(X : Y : Z)`, `x = X / Z`,
`y = Y / Z²`, `O = (1 : 0 : 0)` (only `Z == 0` is tested), `-(X : Y : Z) = (X : ZX + Y : Z)`,
`-(x, y) = (x, x + y)`.

Same conventions as `Ecp.lean`: every definition is the C function statement by statement
(`// t1 <- xa za` is the instruction `.mul t1 (cX a) (cZ a)`); parameters are the base indices of the
operands in the store and `s`, the first free index of the scratch `stack`; temporaries `t1, t2, …`
are `s, s+1, …`; a callee gets the stack behind the caller's temporaries.  Field addition
`gf2Add(c, a, b)` (`wwXor`) is `.add c a b`, `gf2Add2(b, a)` (`wwXor2`, `b <- b + a`) is `.add b b a`;
the interpreter's `Fld.add` is instantiated by the XOR of GF(2^m).  The three-way branch
`if (qrIsUnity(A)) … else if (!qrIsZero(A)) …` on the coefficient is `ifone rA … (ifz rA … …)` with the
rest of the function repeated in each arm (`…Tail`).
Tied to the C source by `Bee2V/Gen/C06Ec2.lean` + `PropsGen2.lean`.
-/
import Bee2V.C06.Core
namespace Bee2V.C06
open Instr Prog

/- `ec2SetO(a, ec)` = `xa <- 1; ya <- 0; za <- 0` (`O = (1 : 0 : 0)`) is written out in the O-producing branches
   below (they write all three words since the commit "ec2/ecp doubling and addition set only Z when the result is O") -/

/-- `ec2FromALD`: `[3n]b <- [2n]a (P <- A)`: `xb <- xa; yb <- ya; zb <- 1` -/
def ec2FromALD (b a : Nat) : Prog :=
  block [copy (cX b) (cX a), copy (cY b) (cY a), one (cZ b)] (ret true)

/-- `ec2ToALD`: `[2n]b <- [3n]a (A <- P)`, FALSE iff `a == O`:
    `t1 <- za^{-1}; xb <- xa t1; t1 <- t1^2; yb <- ya t1` -/
def ec2ToALD (b a s : Nat) : Prog :=
  let t1 := s
  ifz (cZ a) (ret false) <|
  block [inv t1 (cZ a), mul (cX b) (cX a) t1, sqr t1 t1, mul (cY b) (cY a) t1] (ret true)

/-- `ec2NegLD`: `[3n]b <- -[3n]a`: `t1 <- xa * za; b <- (xa, ya + t1, za)` -/
def ec2NegLD (b a s : Nat) : Prog :=
  let t1 := s
  block [
    mul t1 (cX a) (cZ a),
    copy (cX b) (cX a), copy (cY b) (cY a), copy (cZ b) (cZ a),
    add (cY b) (cY b) t1] (ret true)

/-- end of `ec2DblLD` after the `A`-dependent step: `t1 <- t1 xb; yb <- yb + t1` -/
def ec2DblLDTail (b s : Nat) : Prog :=
  let t1 := s
  block [mul t1 t1 (cX b), add (cY b) (cY b) t1] (ret true)

/-- `ec2DblLD`: `[3n]b <- 2[3n]a` (dbl-2005-l style), `za == 0 || xa == 0 => b <- O`;
    `xb <- xb + A * zb` is skipped for `A == 0`, an addition for `A == 1`, a multiplication otherwise -/
def ec2DblLD (b a s : Nat) : Prog :=
  let t1 := s; let t2 := s + 1
  ifz (cZ a) (block [one (cX b), zero (cY b), zero (cZ b)] (ret true)) <|
  ifz (cX a) (block [one (cX b), zero (cY b), zero (cZ b)] (ret true)) <|
  block [
    mul t1 (cX a) (cZ a),          -- t1 <- xa za [A]
    sqr (cZ b) t1,                 -- zb <- t1^2 [A^2]
    sqr t2 (cX a),                 -- t2 <- xa^2 [B]
    add (cX b) (cY a) t2,          -- xb <- ya + t2 [C]
    mul t1 t1 (cX b),              -- t1 <- t1 xb [D]
    sqr (cX b) (cX b),             -- xb <- xb^2 + t1 [C^2 + D]
    add (cX b) (cX b) t1,
    add t1 t1 (cZ b),              -- t1 <- t1 + zb [Z3 + D]
    sqr (cY b) t2,                 -- yb <- t2^2 zb [B^2 Z3]
    mul (cY b) (cY b) (cZ b)] <|
  ifone rA (seq (add (cX b) (cX b) (cZ b)) (ec2DblLDTail b s)) <|
  ifz rA (ec2DblLDTail b s) <|
  block [mul t2 rA (cZ b), add (cX b) (cX b) t2] (ec2DblLDTail b s)

/-- end of `ec2DblALD`: `yb <- yb xb; t1 <- B zb; yb <- yb + t1` -/
def ec2DblALDTail (b s : Nat) : Prog :=
  let t1 := s
  block [mul (cY b) (cY b) (cX b), mul t1 rB (cZ b), add (cY b) (cY b) t1] (ret true)

/-- `ec2DblALD`: `[3n]b <- 2[2n]a (P <- 2A)`, `xa == 0 => b <- O` -/
def ec2DblALD (b a s : Nat) : Prog :=
  let t1 := s
  ifz (cX a) (block [one (cX b), zero (cY b), zero (cZ b)] (ret true)) <|
  block [
    sqr (cZ b) (cX a),             -- zb <- xa^2 [C]
    sqr (cX b) (cZ b),             -- xb <- zb^2 + B [C^2 + a6]
    add (cX b) (cX b) rB,
    sqr (cY b) (cY a),             -- yb <- ya^2 + B [Y1^2 + a6]
    add (cY b) (cY b) rB] <|
  -- yb <- yb + A zb
  ifone rA (seq (add (cY b) (cY b) (cZ b)) (ec2DblALDTail b s)) <|
  ifz rA (ec2DblALDTail b s) <|
  block [mul t1 rA (cZ b), add (cY b) (cY b) t1] (ec2DblALDTail b s)

/-- `ec2AddLD`: `[3n]c <- [3n]a + [3n]b` with the branches `a == O`, `b == O`, `A == B` (`a == ±b`);
    the doubling fall-through is `ec2DblLD(c, a, ec, stack)` -/
def ec2AddLD (c a b s : Nat) : Prog :=
  let t1 := s; let t2 := s + 1; let t3 := s + 2; let t4 := s + 3; let t5 := s + 4; let t6 := s + 5
  ifz (cZ a) (block [copy (cX c) (cX b), copy (cY c) (cY b), copy (cZ c) (cZ b)] (ret true)) <|
  ifz (cZ b) (block [copy (cX c) (cX a), copy (cY c) (cY a), copy (cZ c) (cZ a)] (ret true)) <|
  block [
    mul t1 (cX a) (cZ b),          -- t1 <- xa zb [A]
    mul t2 (cX b) (cZ a),          -- t2 <- xb za [B]
    sqr t3 (cZ b),                 -- t3 <- ya zb^2 [G]
    mul t3 t3 (cY a),
    sqr t4 (cZ a),                 -- t4 <- yb za^2 [H]
    mul t4 t4 (cY b)] <|
  ifeq t1 t2
    (ifeq t3 t4 (ec2DblLD c a (s + 6)) (block [one (cX c), zero (cY c), zero (cZ c)] (ret true))) <|
  block [
    add t5 t1 t2,                  -- t5 <- t1 + t2 [E]
    add t6 t3 t4,                  -- t6 <- t3 + t4 [I]
    mul t5 t5 t6,                  -- t5 <- t5 t6 [J]
    sqr (cX c) t1,                 -- xc <- t1^2 [C]
    sqr (cY c) t2,                 -- yc <- t2^2 [D]
    add t6 (cX c) (cY c),          -- t6 <- xc + yc [F]
    mul (cZ c) (cZ a) (cZ b),      -- zc <- t6 za zb [F Z1 Z2]
    mul (cZ c) t6 (cZ c),
    add t4 t4 (cY c),              -- t4 <- t1 (t4 + yc) [A (H + D)]
    mul t4 t1 t4,
    add (cX c) (cX c) t3,          -- xc <- t2 (xc + t3) + t4 [B (C + G) + A (H + D)]
    mul (cX c) t2 (cX c),
    add (cX c) (cX c) t4,
    mul t1 t1 t5,                  -- t1 <- t1 t5 [A J]
    mul t3 t3 t6,                  -- t3 <- t3 t6 [F G]
    add t1 t1 t3,                  -- t1 <- (t1 + t3) t6 [(A J + F G) F]
    mul t1 t1 t6,
    add (cY c) t5 (cZ c),          -- yc <- (t5 + zc) xc [(J + Z3) X3]
    mul (cY c) (cY c) (cX c),
    add (cY c) (cY c) t1] (ret true)

/-- end of `ec2AddALD` after `xc <- t2^2 + t1 + A t3` -/
def ec2AddALDTail (c s : Nat) : Prog :=
  let t1 := s; let t2 := s + 1; let t3 := s + 2; let t4 := s + 3
  block [
    mul (cX c) (cX c) t3,          -- xc <- xc t3 + t1^2 [C (A + B^2 + a2 C) + A^2]
    sqr t2 t1,
    add (cX c) (cX c) t2,
    sqr t2 (cZ c),                 -- yc <- yc zc^2 [(Y2 + X2) Z3^2]
    mul (cY c) (cY c) t2,
    add t4 t4 (cX c),              -- t4 <- t4 + xc [D + X3]
    mul t1 t1 t3,                  -- t1 <- t1 t3 + zc [A C + Z3]
    add t1 t1 (cZ c),
    mul t1 t1 t4,                  -- t1 <- t1 t4
    add (cY c) (cY c) t1] (ret true)

/-- `ec2AddALD`: `[3n]c <- [3n]a + [2n]b (P <- P + A)` with the branches `a == O`, `t2 == 0` (`a == ±b`);
    the doubling fall-through is `ec2DblALD(c, b, ec, stack)` -/
def ec2AddALD (c a b s : Nat) : Prog :=
  let t1 := s; let t2 := s + 1; let t3 := s + 2; let t4 := s + 3
  ifz (cZ a) (block [copy (cX c) (cX b), copy (cY c) (cY b), one (cZ c)] (ret true)) <|
  block [
    sqr t1 (cZ a),                 -- t1 <- ya + yb za^2 [A]
    mul t1 (cY b) t1,
    add t1 t1 (cY a),
    mul t2 (cX b) (cZ a),          -- t2 <- xa + xb za [B]
    add t2 t2 (cX a)] <|
  ifz t2
    (ifz t1 (ec2DblALD c b (s + 4)) (block [one (cX c), zero (cY c), zero (cZ c)] (ret true))) <|
  block [
    mul t3 t2 (cZ a),              -- t3 <- t2 za [C]
    sqr (cZ c) t3,                 -- zc <- t3^2 [C^2]
    mul t4 (cX b) (cZ c),          -- t4 <- xb zc [D]
    add (cY c) (cX b) (cY b),      -- yc <- xb + yb [X2 + Y2]
    sqr (cX c) t2,                 -- xc <- t2^2 + t1 + A t3 [B^2 + A + a2 C]
    add (cX c) (cX c) t1] <|
  ifone rA (seq (add (cX c) (cX c) t3) (ec2AddALDTail c s)) <|
  ifz rA (ec2AddALDTail c s) <|
  block [mul t2 rA t3, add (cX c) (cX c) t2] (ec2AddALDTail c s)

/-- `ec2SubLD`: `t <- -b; c <- a + t` (`yt <- xb zb + yb` first, then `xt`, `zt`) -/
def ec2SubLD (c a b s : Nat) : Prog :=
  let t := s
  block [
    mul (cY t) (cX b) (cZ b),
    add (cY t) (cY t) (cY b),
    copy (cX t) (cX b),
    copy (cZ t) (cZ b)] (ec2AddLD c a t (s + 3))

/-- `ec2SubALD`: `t <- b; yt <- yt + xt; c <- a + t` -/
def ec2SubALD (c a b s : Nat) : Prog :=
  let t := s
  block [copy (cX t) (cX b), copy (cY t) (cY b), add (cY t) (cY t) (cX t)] (ec2AddALD c a t (s + 2))

/-- `ec2IsOnA` after the range test `ec2SeemsOnA(a, ec)` (done on words by the wrapper):
    `t1 <- (xa + A) xa^2 + B; t2 <- ya (ya + xa); t1 == t2?` -/
def ec2IsOnA (a s : Nat) : Prog :=
  let t1 := s; let t2 := s + 1
  block [
    sqr t1 (cX a),
    add t2 (cX a) rA,
    mul t1 t1 t2,
    add t1 t1 rB,
    add t2 (cX a) (cY a),
    mul t2 t2 (cY a)] <|
  ifeq t1 t2 (ret true) (ret false)

/-- `ec2NegA`: `b <- (xa, ya + xa)` -/
def ec2NegA (b a : Nat) : Prog :=
  block [copy (cX b) (cX a), add (cY b) (cX a) (cY a)] (ret true)

/-- `ec2AddAA`: FALSE iff `a + b == O`; tangent for `a == b` (`xa == 0 => 2a == O`), chord otherwise -/
def ec2AddAA (c a b s : Nat) : Prog :=
  let t1 := s; let t2 := s + 1; let t3 := s + 2
  ifeq (cX a) (cX b)
    (ifeq (cY a) (cY b)
      (ifz (cX a) (ret false) <|
       block [
        div t1 (cY a) (cX a),      -- t1 <- ya / xa + xa [λ]
        add t1 t1 (cX a),
        copy t2 (cX a),            -- t2 <- xa
        sqr (cX c) t1,             -- xc <- t1^2 + t1 + A
        add (cX c) (cX c) t1,
        add (cX c) (cX c) rA,
        add t2 t2 (cX c),          -- t2 <- t1 (t2 + xc) [λ(xa + xc)]
        mul t2 t1 t2,
        add (cY c) (cY a) t2,      -- yc <- ya + t2 + xc
        add (cY c) (cY c) (cX c)] (ret true))
      (ret false)) <|
  block [
    copy t1 (cX a),                -- t1 <- xa
    add (cX c) (cX a) (cX b),      -- xc <- xa + xb
    add t2 (cY a) (cY b),          -- t2 <- ya + yb
    div t2 t2 (cX c),              -- t2 <- t2 / xc [λ]
    sqr t3 t2,                     -- t3 <- t2^2 [λ^2]
    add (cX c) (cX c) t2,          -- xc <- xc + t2 + t3 + A
    add (cX c) (cX c) t3,
    add (cX c) (cX c) rA,
    add t1 t1 (cX c),              -- t1 <- t1 + xc [xa + xc]
    mul t1 t1 t2,                  -- t1 <- t1 t2 [(xa + xc)λ]
    add (cY c) (cY a) (cX c),      -- yc <- xc + ya + t1
    add (cY c) (cY c) t1] (ret true)

/-- `ec2SubAA`: `t <- -b` (`ec2NegA(t, b, ec)`, two registers at `s`), then `ec2AddAA(c, a, t, …)` -/
def ec2SubAA (c a b s : Nat) : Prog :=
  let t := s
  block [copy (cX t) (cX b), add (cY t) (cX b) (cY b)] (ec2AddAA c a t (s + 2))

end Bee2V.C06

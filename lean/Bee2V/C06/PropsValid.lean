/-
C06, phase 3 — link to the validators (`ecpIsValid`, `ec2IsValid`; their arithmetic is property C12):
on a curve accepted by the validator every point of the curve is a nonsingular point, i.e. the hypotheses
`Rep2 …` / `RepB2 …` of the formula theorems reduce to "the coordinates satisfy the curve equation".
(`ecpIsValid`: `4A³ + 27B² ≠ 0`; `ec2IsValid`: `B ≠ 0`.  The formula theorems themselves do not need a valid
curve: they hold for the nonsingular points of any curve.)
-/
import Bee2V.C06.Spec2
import Mathlib.Tactic.LinearCombination
namespace Bee2V.C06
open WeierstrassCurve

section prime
variable {F : Type} [Field F] [DecidableEq F] {A B : F}

/-- discriminant condition of `ecpIsValid` ⇒ every affine solution of the equation is a point of the group -/
theorem ecp_onCurve_nonsingular (h2 : (2 : F) ≠ 0) (hΔ : 4 * A ^ 3 + 27 * B ^ 2 ≠ 0) {x y : F}
    (h : y ^ 2 = x ^ 3 + A * x + B) : (Wc A B).Nonsingular x y := by
  rw [Wc_nonsingular]
  refine ⟨h, ?_⟩
  by_contra hc
  rw [not_or, not_not, not_not] at hc
  obtain ⟨h1, h3⟩ := hc
  have hy : y = 0 := by
    have : 2 * y = 0 := by linear_combination h3
    rcases mul_eq_zero.1 this with h' | h'
    · exact absurd h' h2
    · exact h'
  apply hΔ
  have hA : A = -(3 * x ^ 2) := by linear_combination h1
  have hB : B = 2 * x ^ 3 := by
    have : x ^ 3 + A * x + B = 0 := by rw [← h, hy]; ring
    linear_combination this - x * h1
  rw [hA, hB]; ring

/-- every affine solution is represented: the hypothesis `Rep2` of the formula theorems is the curve equation -/
theorem ecp_rep2_of_onCurve (h2 : (2 : F) ≠ 0) (hΔ : 4 * A ^ 3 + 27 * B ^ 2 ≠ 0) {x y : F}
    (h : y ^ 2 = x ^ 3 + A * x + B) : ∃ P, Rep2 A B (x, y) P :=
  ⟨_, ecp_onCurve_nonsingular h2 hΔ h, rfl⟩

end prime

section binary
variable {F : Type} [Field F] [DecidableEq F] [CharP F 2] {A B : F}

/-- `ec2IsValid`'s condition `B ≠ 0` ⇒ every affine solution of the equation is a point of the group -/
theorem ec2_onCurve_nonsingular (hB : B ≠ 0) {x y : F}
    (h : y ^ 2 + x * y = x ^ 3 + A * x ^ 2 + B) : (Wb A B).Nonsingular x y := by
  rw [Wb_nonsingular]
  refine ⟨h, ?_⟩
  by_contra hc
  rw [not_or, not_not, not_not] at hc
  obtain ⟨h1, hx⟩ := hc
  apply hB
  subst hx
  have hy : y = 0 := by simpa using h1
  subst hy
  simpa using h.symm

theorem ec2_rep2_of_onCurve (hB : B ≠ 0) {x y : F}
    (h : y ^ 2 + x * y = x ^ 3 + A * x ^ 2 + B) : ∃ P, RepB2 A B (x, y) P :=
  ⟨_, ec2_onCurve_nonsingular hB h, rfl⟩

end binary

/-- non-vacuity: `y² = x³ + 1` over ℚ, `(2, 3)` -/
example : (Wc (0 : ℚ) 1).Nonsingular 2 3 :=
  ecp_onCurve_nonsingular (by norm_num) (by norm_num) (by norm_num)

end Bee2V.C06

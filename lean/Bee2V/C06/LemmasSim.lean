/-
C06 — simulation, part 1 (generic): if two records of field operations `f : Fld α`, `g : Fld β` are
related by a map `φ : α → β` that commutes with every operation on "reduced" values (`R`), then the
interpreter on `f` simulates the interpreter on `g` for EVERY program, and so do all the wrappers of
`Wrap.lean` (they are `get3/get2` of a run on a store built by `base/put3/put2/upd`).
Part 2 (`LemmasSim2`) instantiates this with `natFld p`, `fieldFld (ZMod p)`, `Nat.cast`, `· < p`.
-/
import Bee2V.C06.Wrap
namespace Bee2V.C06.Sim

variable {α β : Type}

/-- `φ` is a homomorphism of operation records on the values satisfying `R`, and `R` is preserved -/
structure FldSim (f : Fld α) (g : Fld β) (φ : α → β) (R : α → Prop) : Prop where
  zero : R f.zero ∧ φ f.zero = g.zero
  one : R f.one ∧ φ f.one = g.one
  add : ∀ a b, R a → R b → R (f.add a b) ∧ φ (f.add a b) = g.add (φ a) (φ b)
  sub : ∀ a b, R a → R b → R (f.sub a b) ∧ φ (f.sub a b) = g.sub (φ a) (φ b)
  mul : ∀ a b, R a → R b → R (f.mul a b) ∧ φ (f.mul a b) = g.mul (φ a) (φ b)
  neg : ∀ a, R a → R (f.neg a) ∧ φ (f.neg a) = g.neg (φ a)
  dbl : ∀ a, R a → R (f.dbl a) ∧ φ (f.dbl a) = g.dbl (φ a)
  half : ∀ a, R a → R (f.half a) ∧ φ (f.half a) = g.half (φ a)
  inv : ∀ a, R a → R (f.inv a) ∧ φ (f.inv a) = g.inv (φ a)
  pow : ∀ a e, R a → R (f.pow a e) ∧ φ (f.pow a e) = g.pow (φ a) e
  eqb : ∀ a b, R a → R b → f.eqb a b = g.eqb (φ a) (φ b)

/-- image of a store -/
def mapStore (φ : α → β) (st : Store α) : Store β := ⟨fun i => φ (st.get i)⟩

/-- every register is reduced -/
def RedS (R : α → Prop) (st : Store α) : Prop := ∀ i, R (st.get i)

@[simp] theorem mapStore_get (φ : α → β) (st : Store α) (i : Nat) : (mapStore φ st).get i = φ (st.get i) := rfl

theorem mapStore_upd (φ : α → β) (st : Store α) (d : Nat) (v : α) :
    mapStore φ (upd st d v) = upd (mapStore φ st) d (φ v) := by
  simp only [mapStore, upd, Store.mk.injEq]
  funext i
  split <;> rfl

theorem RedS_upd {R : α → Prop} {st : Store α} (h : RedS R st) (d : Nat) {v : α} (hv : R v) :
    RedS R (upd st d v) := by
  intro i
  simp only [upd]
  split
  · exact hv
  · exact h i

variable {f : Fld α} {g : Fld β} {φ : α → β} {R : α → Prop}

theorem exec_sim (H : FldSim f g φ R) (i : Instr) (st : Store α) (hst : RedS R st) :
    RedS R (i.exec f st) ∧ mapStore φ (i.exec f st) = i.exec g (mapStore φ st) := by
  cases i with
  | sqr d a =>
    have h := H.mul _ _ (hst a) (hst a)
    exact ⟨RedS_upd hst d h.1, by simp only [Instr.exec, mapStore_upd, h.2, mapStore_get]⟩
  | mul d a b =>
    have h := H.mul _ _ (hst a) (hst b)
    exact ⟨RedS_upd hst d h.1, by simp only [Instr.exec, mapStore_upd, h.2, mapStore_get]⟩
  | add d a b =>
    have h := H.add _ _ (hst a) (hst b)
    exact ⟨RedS_upd hst d h.1, by simp only [Instr.exec, mapStore_upd, h.2, mapStore_get]⟩
  | sub d a b =>
    have h := H.sub _ _ (hst a) (hst b)
    exact ⟨RedS_upd hst d h.1, by simp only [Instr.exec, mapStore_upd, h.2, mapStore_get]⟩
  | neg d a =>
    have h := H.neg _ (hst a)
    exact ⟨RedS_upd hst d h.1, by simp only [Instr.exec, mapStore_upd, h.2, mapStore_get]⟩
  | dbl d a =>
    have h := H.dbl _ (hst a)
    exact ⟨RedS_upd hst d h.1, by simp only [Instr.exec, mapStore_upd, h.2, mapStore_get]⟩
  | half d a =>
    have h := H.half _ (hst a)
    exact ⟨RedS_upd hst d h.1, by simp only [Instr.exec, mapStore_upd, h.2, mapStore_get]⟩
  | copy d a =>
    exact ⟨RedS_upd hst d (hst a), by simp only [Instr.exec, mapStore_upd, mapStore_get]⟩
  | zero d =>
    exact ⟨RedS_upd hst d H.zero.1, by simp only [Instr.exec, mapStore_upd, H.zero.2]⟩
  | one d =>
    exact ⟨RedS_upd hst d H.one.1, by simp only [Instr.exec, mapStore_upd, H.one.2]⟩
  | inv d a =>
    have h := H.inv _ (hst a)
    exact ⟨RedS_upd hst d h.1, by simp only [Instr.exec, mapStore_upd, h.2, mapStore_get]⟩
  | div d a b =>
    have hi := H.inv _ (hst b)
    have h := H.mul _ _ (hst a) hi.1
    exact ⟨RedS_upd hst d h.1, by simp only [Instr.exec, mapStore_upd, h.2, hi.2, mapStore_get]⟩
  | pow d a e =>
    have h := H.pow _ e (hst a)
    exact ⟨RedS_upd hst d h.1, by simp only [Instr.exec, mapStore_upd, h.2, mapStore_get]⟩

/-- the simulation theorem, generic form: by induction on the program -/
theorem run_sim_gen (H : FldSim f g φ R) (prog : Prog) (st : Store α) (hst : RedS R st) :
    RedS R (prog.run f st).1 ∧
    (prog.run f st).2 = (prog.run g (mapStore φ st)).2 ∧
    mapStore φ (prog.run f st).1 = (prog.run g (mapStore φ st)).1 := by
  induction prog generalizing st with
  | ret b => exact ⟨hst, rfl, rfl⟩
  | seq i k ih =>
    have h := exec_sim H i st hst
    simp only [Prog.run]
    rw [← h.2]
    exact ih _ h.1
  | ifz r t e iht ihe =>
    have hc : f.eqb (st.get r) f.zero = g.eqb ((mapStore φ st).get r) g.zero := by
      rw [H.eqb _ _ (hst r) H.zero.1, H.zero.2]; rfl
    simp only [Prog.run, hc]
    split
    · exact iht st hst
    · exact ihe st hst
  | ifeq r s t e iht ihe =>
    have hc : f.eqb (st.get r) (st.get s) = g.eqb ((mapStore φ st).get r) ((mapStore φ st).get s) := by
      rw [H.eqb _ _ (hst r) (hst s)]; rfl
    simp only [Prog.run, hc]
    split
    · exact iht st hst
    · exact ihe st hst
  | ifone r t e iht ihe =>
    have hc : f.eqb (st.get r) f.one = g.eqb ((mapStore φ st).get r) g.one := by
      rw [H.eqb _ _ (hst r) H.one.1, H.one.2]; rfl
    simp only [Prog.run, hc]
    split
    · exact iht st hst
    · exact ihe st hst

/-! ### wrappers -/

def map3 (φ : α → β) (q : P3 α) : P3 β := (φ q.1, φ q.2.1, φ q.2.2)
def map2 (φ : α → β) (q : P2 α) : P2 β := (φ q.1, φ q.2)
def R3 (R : α → Prop) (q : P3 α) : Prop := R q.1 ∧ R q.2.1 ∧ R q.2.2
def R2 (R : α → Prop) (q : P2 α) : Prop := R q.1 ∧ R q.2

/-- two curve descriptions related by `φ` -/
structure CurveSim (c : Curve α) (c' : Curve β) (φ : α → β) (R : α → Prop) : Prop where
  fld : FldSim c.f c'.f φ R
  rA : R c.A
  rB : R c.B
  hA : φ c.A = c'.A
  hB : φ c.B = c'.B
  a3 : c.a3 = c'.a3

theorem mkCurve_sim (H : FldSim f g φ R) {A B : α} (hA : R A) (hB : R B) :
    CurveSim (mkCurve f A B) (mkCurve g (φ A) (φ B)) φ R := by
  refine ⟨H, hA, hB, rfl, rfl, ?_⟩
  have h1 := H.dbl _ H.one.1
  have h2 := H.add _ _ h1.1 H.one.1
  have h3 := H.neg _ h2.1
  simp only [mkCurve]
  rw [H.eqb _ _ h3.1 hA, h3.2, h2.2, h1.2, H.one.2]

variable {c : Curve α} {c' : Curve β}

theorem base_red (C : CurveSim c c' φ R) : RedS R (base c) := by
  intro i
  simp only [base]
  split
  · exact C.rA
  · split
    · exact C.rB
    · exact C.fld.zero.1

theorem base_map (C : CurveSim c c' φ R) : mapStore φ (base c) = base c' := by
  simp only [mapStore, base, Store.mk.injEq]
  funext i
  split
  · exact C.hA
  · split
    · exact C.hB
    · exact C.fld.zero.2

theorem put3_map (st : Store α) (q : Nat) (a : P3 α) :
    mapStore φ (put3 st q a) = put3 (mapStore φ st) q (map3 φ a) := by
  simp only [put3, mapStore_upd, map3]

theorem put2_map (st : Store α) (q : Nat) (a : P2 α) :
    mapStore φ (put2 st q a) = put2 (mapStore φ st) q (map2 φ a) := by
  simp only [put2, mapStore_upd, map2]

theorem put3_red {st : Store α} (h : RedS R st) (q : Nat) {a : P3 α} (ha : R3 R a) :
    RedS R (put3 st q a) :=
  RedS_upd (RedS_upd (RedS_upd h _ ha.1) _ ha.2.1) _ ha.2.2

theorem put2_red {st : Store α} (h : RedS R st) (q : Nat) {a : P2 α} (ha : R2 R a) :
    RedS R (put2 st q a) :=
  RedS_upd (RedS_upd h _ ha.1) _ ha.2

theorem get3_map (st : Store α) (q : Nat) : map3 φ (get3 st q) = get3 (mapStore φ st) q := rfl
theorem get2_map (st : Store α) (q : Nat) : map2 φ (get2 st q) = get2 (mapStore φ st) q := rfl
theorem get3_red {st : Store α} (h : RedS R st) (q : Nat) : R3 R (get3 st q) := ⟨h _, h _, h _⟩
theorem get2_red {st : Store α} (h : RedS R st) (q : Nat) : R2 R (get2 st q) := ⟨h _, h _⟩

/-- the shape all wrappers have: run a program on a reduced store whose image is known -/
theorem run_on (C : CurveSim c c' φ R) (prog : Prog) {st : Store α} {st' : Store β}
    (hr : RedS R st) (hm : mapStore φ st = st') :
    RedS R (prog.run c.f st).1 ∧ (prog.run c.f st).2 = (prog.run c'.f st').2 ∧
    mapStore φ (prog.run c.f st).1 = (prog.run c'.f st').1 := by
  subst hm
  exact run_sim_gen C.fld prog st hr

theorem run1_sim (C : CurveSim c c' φ R) (prog : Nat → Nat → Nat → Prog) (al : Al) {a : P3 α}
    (ha : R3 R a) :
    R3 R (run1 c prog al a) ∧ map3 φ (run1 c prog al a) = run1 c' prog al (map3 φ a) := by
  have h := run_on C (prog sc (slotA al) sk) (put3_red (base_red C) (slotA al) ha)
    (by rw [put3_map, base_map C])
  exact ⟨get3_red h.1 _, by simp only [run1, get3_map, h.2.2]⟩

theorem run2_sim (C : CurveSim c c' φ R) (prog : Nat → Nat → Nat → Nat → Prog) (al : Al) {a b : P3 α}
    (ha : R3 R a) (hb : R3 R b) :
    R3 R (run2 c prog al a b) ∧ map3 φ (run2 c prog al a b) = run2 c' prog al (map3 φ a) (map3 φ b) := by
  have h := run_on C (prog sc (slotA al) (slotB al) sk)
    (st := if al = .ab ∨ al = .abc then put3 (base c) (slotA al) a
      else put3 (put3 (base c) (slotA al) a) (slotB al) b)
    (st' := if al = .ab ∨ al = .abc then put3 (base c') (slotA al) (map3 φ a)
      else put3 (put3 (base c') (slotA al) (map3 φ a)) (slotB al) (map3 φ b))
    (by
      split
      · exact put3_red (base_red C) _ ha
      · exact put3_red (put3_red (base_red C) _ ha) _ hb)
    (by
      split
      · rw [put3_map, base_map C]
      · rw [put3_map, put3_map, base_map C])
  exact ⟨get3_red h.1 _, by simp only [run2, get3_map, h.2.2]⟩

theorem run2A_sim (C : CurveSim c c' φ R) (prog : Nat → Nat → Nat → Nat → Prog) (al : Al) {a : P3 α}
    {b : P2 α} (ha : R3 R a) (hb : R2 R b) :
    R3 R (run2A c prog al a b) ∧
    map3 φ (run2A c prog al a b) = run2A c' prog al (map3 φ a) (map2 φ b) := by
  have h := run_on C (prog sc (slotA al) (slotB al) sk)
    (put2_red (put3_red (base_red C) (slotA al) ha) (slotB al) hb)
    (by rw [put2_map, put3_map, base_map C])
  exact ⟨get3_red h.1 _, by simp only [run2A, get3_map, h.2.2]⟩

theorem froma_sim (C : CurveSim c c' φ R) (al : Al) {a : P2 α} (ha : R2 R a) :
    R3 R (froma c al a) ∧ map3 φ (froma c al a) = froma c' al (map2 φ a) := by
  have h := run_on C (ecpFromAJ sc (slotA al)) (put2_red (base_red C) (slotA al) ha)
    (by rw [put2_map, base_map C])
  exact ⟨get3_red h.1 _, by simp only [froma, get3_map, h.2.2]⟩

theorem dbla_sim (C : CurveSim c c' φ R) (al : Al) {a : P2 α} (ha : R2 R a) :
    R3 R (dbla c al a) ∧ map3 φ (dbla c al a) = dbla c' al (map2 φ a) := by
  have h := run_on C (ecpDblAJ sc (slotA al) sk) (put2_red (base_red C) (slotA al) ha)
    (by rw [put2_map, base_map C])
  exact ⟨get3_red h.1 _, by simp only [dbla, get3_map, h.2.2]⟩

theorem negA_sim (C : CurveSim c c' φ R) (al : Al) {a : P2 α} (ha : R2 R a) :
    R2 R (negA c al a) ∧ map2 φ (negA c al a) = negA c' al (map2 φ a) := by
  have h := run_on C (ecpNegA sc (slotA al)) (put2_red (base_red C) (slotA al) ha)
    (by rw [put2_map, base_map C])
  exact ⟨get2_red h.1 _, by simp only [negA, get2_map, h.2.2]⟩

theorem opt_sim {r : Store α × Bool} {r' : Store β × Bool} (h1 : RedS R r.1) (h2 : r.2 = r'.2)
    (h3 : mapStore φ r.1 = r'.1) :
    (∀ q, (if r.2 then some (get2 r.1 sc) else none) = some q → R2 R q) ∧
    (if r.2 then some (get2 r.1 sc) else none).map (map2 φ) =
      if r'.2 then some (get2 r'.1 sc) else none := by
  rw [← h2, ← h3]
  cases r.2
  · exact ⟨fun q hq => (by cases hq), rfl⟩
  · exact ⟨fun q hq => (by cases hq; exact get2_red h1 _), rfl⟩

theorem toa_sim (C : CurveSim c c' φ R) (al : Al) {a : P3 α} (ha : R3 R a) :
    (∀ q, toa c al a = some q → R2 R q) ∧
    (toa c al a).map (map2 φ) = toa c' al (map3 φ a) := by
  have h := run_on C (ecpToAJ sc (slotA al) sk) (put3_red (base_red C) (slotA al) ha)
    (by rw [put3_map, base_map C])
  exact opt_sim h.1 h.2.1 h.2.2

theorem runAA_sim (C : CurveSim c c' φ R) (prog : Nat → Nat → Nat → Nat → Prog) (al : Al) {a b : P2 α}
    (ha : R2 R a) (hb : R2 R b) :
    (∀ q, runAA c prog al a b = some q → R2 R q) ∧
    (runAA c prog al a b).map (map2 φ) = runAA c' prog al (map2 φ a) (map2 φ b) := by
  have h := run_on C (prog sc (slotA al) (slotB al) sk)
    (st := if al = .ab ∨ al = .abc then put2 (base c) (slotA al) a
      else put2 (put2 (base c) (slotA al) a) (slotB al) b)
    (st' := if al = .ab ∨ al = .abc then put2 (base c') (slotA al) (map2 φ a)
      else put2 (put2 (base c') (slotA al) (map2 φ a)) (slotB al) (map2 φ b))
    (by
      split
      · exact put2_red (base_red C) _ ha
      · exact put2_red (put2_red (base_red C) _ ha) _ hb)
    (by
      split
      · rw [put2_map, base_map C]
      · rw [put2_map, put2_map, base_map C])
  exact opt_sim h.1 h.2.1 h.2.2

theorem isOnA_sim (C : CurveSim c c' φ R) {a : P2 α} (ha : R2 R a) :
    isOnA c a = isOnA c' (map2 φ a) := by
  have h := run_on C (ecpIsOnA sa sk) (put2_red (base_red C) sa ha)
    (by rw [put2_map, base_map C])
  simp only [isOnA, h.2.1]

theorem swu_sim (C : CurveSim c c' φ R) (p : Nat) {a : α} (ha : R a) :
    R2 R (swu p c a) ∧ map2 φ (swu p c a) = swu p c' (φ a) := by
  have h := run_on C (ecpSWU p sc sa sk) (RedS_upd (base_red C) sa ha)
    (by rw [mapStore_upd, base_map C])
  exact ⟨get2_red h.1 _, by simp only [swu, get2_map, h.2.2]⟩

theorem dblProg_sim (C : CurveSim c c' φ R) : dblProg c = dblProg c' := by
  simp only [dblProg, C.a3]

theorem tplProg_sim (C : CurveSim c c' φ R) : tplProg c = tplProg c' := by
  simp only [tplProg, C.a3]

end Bee2V.C06.Sim

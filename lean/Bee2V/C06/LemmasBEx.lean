/-
C06, stage 2 — concrete points used by the non-vacuity examples of PropsBAA / PropsBAddA:
`y² + xy = x³ + 1` over `ZMod 2` (cyclic group of order 4: O, (1,0), (0,1) of order two, (1,1)).
-/
import Bee2V.C06.LemmasBAddA2
import Mathlib.Algebra.Field.ZMod
namespace Bee2V.C06.BEx
open WeierstrassCurve

theorem ns01 : (Wb (0 : ZMod 2) 1).Nonsingular 0 1 := (Wb_nonsingular ..).2 (by decide)
theorem ns10 : (Wb (0 : ZMod 2) 1).Nonsingular 1 0 := (Wb_nonsingular ..).2 (by decide)
theorem ns11 : (Wb (0 : ZMod 2) 1).Nonsingular 1 1 := (Wb_nonsingular ..).2 (by decide)

theorem rep10 : RepB3 (0 : ZMod 2) 1 (1, 0, 1) (.some 1 0 ns10) :=
  BAddA.rep3_of_rep2 (by decide) (RepB2_of_eq ⟨ns10, rfl⟩ (by simp) (by simp))
theorem rep01 : RepB3 (0 : ZMod 2) 1 (0, 1, 1) (.some 0 1 ns01) :=
  BAddA.rep3_of_rep2 (by decide) (RepB2_of_eq ⟨ns01, rfl⟩ (by simp) (by simp))

end Bee2V.C06.BEx

/-
C06 / tripling, part 3: assembly (`run1 … ecpTplJ`, `run1 … ecpTplJA3`, the `tpl` entry of the table
filled by `ecpCreateJ`) and the concrete points used by the non-vacuity examples of `PropsTpl`.
-/
import Bee2V.C06.LemmasTpl2
import Mathlib.Tactic.NormNum
namespace Bee2V.C06.Tpl
open WeierstrassCurve
set_option linter.unusedSectionVars false
set_option linter.unusedVariables false
variable {F : Type} [Field F] [DecidableEq F] {A B : F}

theorem tplJ_ok {al : Al} {p : P3 F} {P : (Wc A B).Point} (h2 : (2 : F) ≠ 0)
    (hal : al = .n ∨ al = .ca) (hp : Rep3 A B p P) :
    Rep3 A B (run1 (curveF A B) ecpTplJ al p) (P + P + P) := by
  obtain ⟨X, Y, Z⟩ := p
  rw [tplJ_exec hal]
  exact tplOut_ok h2 hp

theorem tplJA3_ok {al : Al} {p : P3 F} {P : (Wc A B).Point} (h2 : (2 : F) ≠ 0) (hA : A = -3)
    (hal : al = .n ∨ al = .ca) (hp : Rep3 A B p P) :
    Rep3 A B (run1 (curveF A B) ecpTplJA3 al p) (P + P + P) := by
  obtain ⟨X, Y, Z⟩ := p
  rw [tplJA3_exec hal hA]
  exact tplOut_ok h2 hp

/-- `bA3` of `ecpCreateJ` over a field -/
theorem a3_iff : (curveF A B).a3 = true ↔ A = -3 := by
  simp only [curveF, mkCurve, fieldFld, decide_eq_true_eq]
  constructor
  · intro h; rw [← h]; ring
  · intro h; rw [h]; ring

theorem tpl_ok {al : Al} {p : P3 F} {P : (Wc A B).Point} (h2 : (2 : F) ≠ 0)
    (hal : al = .n ∨ al = .ca) (hp : Rep3 A B p P) :
    Rep3 A B ((ecOps (curveF A B)).tpl al p) (P + P + P) := by
  show Rep3 A B (run1 (curveF A B) (tplProg (curveF A B)) al p) (P + P + P)
  unfold tplProg
  by_cases h3 : (curveF A B).a3 = true
  · rw [if_pos h3]; exact tplJA3_ok h2 (a3_iff.1 h3) hal hp
  · rw [if_neg h3]; exact tplJ_ok h2 hal hp

/-! concrete points: `y² = x³ + 1` over ℚ has `(2, 3)` of order six, `(−1, 0)` of order two,
    `(0, 1)` of order three; `y² = x³ − 3x + 3` has `(1, 1)`. -/

theorem ns23 : (Wc (0 : ℚ) 1).Nonsingular 2 3 :=
  (Wc_nonsingular _ _ _ _).2 ⟨by norm_num, Or.inr (by norm_num)⟩
theorem nsm10 : (Wc (0 : ℚ) 1).Nonsingular (-1) 0 :=
  (Wc_nonsingular _ _ _ _).2 ⟨by norm_num, Or.inl (by norm_num)⟩
theorem ns01 : (Wc (0 : ℚ) 1).Nonsingular 0 1 :=
  (Wc_nonsingular _ _ _ _).2 ⟨by norm_num, Or.inr (by norm_num)⟩
theorem ns11 : (Wc (-3 : ℚ) 3).Nonsingular 1 1 :=
  (Wc_nonsingular _ _ _ _).2 ⟨by norm_num, Or.inr (by norm_num)⟩

theorem rep3_of {A B X Y Z x y : ℚ} (h : (Wc A B).Nonsingular x y) (hZ : Z ≠ 0)
    (hx : X / Z ^ 2 = x) (hy : Y / Z ^ 3 = y) : Rep3 A B (X, Y, Z) (.some x y h) := by
  unfold Rep3
  simp only []
  rw [if_neg hZ]
  subst hx; subst hy
  exact ⟨h, rfl⟩

/-- `(8 : 24 : 2)` is `(2, 3)`, not normalised -/
theorem rep3_23 : Rep3 (0 : ℚ) 1 (8, 24, 2) (.some 2 3 ns23) :=
  rep3_of ns23 (by norm_num) (by norm_num) (by norm_num)
theorem rep3_m10 : Rep3 (0 : ℚ) 1 (-4, 0, 2) (.some (-1) 0 nsm10) :=
  rep3_of nsm10 (by norm_num) (by norm_num) (by norm_num)
theorem rep3_01 : Rep3 (0 : ℚ) 1 (0, 8, 2) (.some 0 1 ns01) :=
  rep3_of ns01 (by norm_num) (by norm_num) (by norm_num)
theorem rep3_11 : Rep3 (-3 : ℚ) 3 (4, 8, 2) (.some 1 1 ns11) :=
  rep3_of ns11 (by norm_num) (by norm_num) (by norm_num)
theorem rep3_O : Rep3 (0 : ℚ) 1 (5, 7, 0) 0 := by
  unfold Rep3; simp

end Bee2V.C06.Tpl

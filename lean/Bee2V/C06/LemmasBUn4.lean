/-
C06, stage 2 — a field of characteristic 2 with a coefficient `A ∉ {0, 1}`: GF(4) by tables, and a point on
`y² + xy = x³ + ωx² + ω`, so that the non-vacuity examples of `PropsBUn` reach the third arm (multiplication
by `A`) of the branch in `ec2DblLD`/`ec2DblALD`.
-/
import Bee2V.C06.LemmasBUn3
namespace Bee2V.C06.BUn
open Bee2V.C06 WeierstrassCurve

/-- GF(4) = {0, 1, ω, ω² = ω + 1}, by tables (a field of characteristic 2 with a coefficient
    `A ∉ {0, 1}` for the non-vacuity examples) -/
inductive G4 | z | o | w | v
  deriving DecidableEq

namespace G4

def add : G4 → G4 → G4
  | z, b => b | a, z => a
  | o, o => z | o, w => v | o, v => w
  | w, o => v | w, w => z | w, v => o
  | v, o => w | v, w => o | v, v => z

def mul : G4 → G4 → G4
  | z, _ => z | _, z => z
  | o, b => b | a, o => a
  | w, w => v | w, v => o
  | v, w => o | v, v => w

def inv : G4 → G4
  | z => z | o => o | w => v | v => w

instance : Zero G4 := ⟨z⟩
instance : One G4 := ⟨o⟩
instance : Add G4 := ⟨add⟩
instance : Mul G4 := ⟨mul⟩
instance : Neg G4 := ⟨id⟩
instance : Inv G4 := ⟨inv⟩

instance : Field G4 where
  add_assoc a b c := by cases a <;> cases b <;> cases c <;> rfl
  zero_add a := by cases a <;> rfl
  add_zero a := by cases a <;> rfl
  add_comm a b := by cases a <;> cases b <;> rfl
  neg_add_cancel a := by cases a <;> rfl
  nsmul := nsmulRec
  zsmul := zsmulRec
  left_distrib a b c := by cases a <;> cases b <;> cases c <;> rfl
  right_distrib a b c := by cases a <;> cases b <;> cases c <;> rfl
  zero_mul a := by cases a <;> rfl
  mul_zero a := by cases a <;> rfl
  mul_assoc a b c := by cases a <;> cases b <;> cases c <;> rfl
  one_mul a := by cases a <;> rfl
  mul_one a := by cases a <;> rfl
  mul_comm a b := by cases a <;> cases b <;> rfl
  exists_pair_ne := ⟨z, o, by decide⟩
  mul_inv_cancel a h := by cases a <;> first | rfl | exact absurd rfl h
  inv_zero := rfl
  nnqsmul := _
  qsmul := _

instance : CharP G4 2 := CharTwo.of_one_ne_zero_of_two_eq_zero (by decide) (by
  rw [← one_add_one_eq_two]; rfl)

end G4

/-- `(1, ω)` on `y² + xy = x³ + ωx² + ω` over GF(4) (general-`A` arm) -/
theorem ns1w : (Wb G4.w G4.w).Nonsingular 1 G4.w := by
  rw [Wb_nonsingular]; exact ⟨by rfl, Or.inr (by decide)⟩

theorem repB2_1w : RepB2 G4.w G4.w (1, G4.w) (.some 1 G4.w ns1w) := ⟨ns1w, rfl⟩

/-- `(ω : 1 : ω)` is `(1, ω)` (`Y/Z² = 1/ω² = ω`) -/
theorem repB3_1w : RepB3 G4.w G4.w (G4.w, 1, G4.w) (.some 1 G4.w ns1w) :=
  repB3_of_repB2 (by decide) (RepB2_of_eq repB2_1w (by rfl) (by rfl))

end Bee2V.C06.BUn

/-
C06 — one-operand routines: symbolic execution on the canonical store, for the aliasings
`.n` (destination distinct from the operand) and `.ca` (in place).  Both give the same closed form.
-/
import Bee2V.C06.LemmasUn
namespace Bee2V.C06.Un
open Bee2V.C06 WeierstrassCurve

set_option linter.unusedSectionVars false
set_option linter.unusedSimpArgs false
set_option linter.unusedVariables false
variable {F : Type} [Field F] [DecidableEq F] {A B : F}

/-! ### `ecpDblJ` -/

theorem dblJ_exec {al : Al} (hal : al = .n ∨ al = .ca) (X Y Z : F) (hz : Z ≠ 0) (hy : Y ≠ 0) :
    run1 (curveF A B) ecpDblJ al (X, Y, Z) =
      dblForm (A * (Z * Z * (Z * Z)) + X * X + (X * X + X * X)) X Y Z := by
  rcases hal with rfl | rfl <;>
  simp [run1, curveF, mkCurve, slotA, ecpDblJ, Prog.run, Prog.block, Instr.exec, upd, get3, put3, base,
    fieldFld, cX, cY, cZ, rA, rB, sc, sa, sk, hz, hy, dblForm]

theorem dblJ_exec_z0 {al : Al} (hal : al = .n ∨ al = .ca) (X Y : F) :
    (run1 (curveF A B) ecpDblJ al (X, Y, 0)).2.2 = 0 := by
  rcases hal with rfl | rfl <;>
  simp [run1, curveF, mkCurve, slotA, ecpDblJ, Prog.run, Prog.block, Instr.exec, upd, get3, put3, base,
    fieldFld, cX, cY, cZ, rA, rB, sc, sa, sk]

theorem dblJ_exec_y0 {al : Al} (hal : al = .n ∨ al = .ca) (X Z : F) :
    (run1 (curveF A B) ecpDblJ al (X, 0, Z)).2.2 = 0 := by
  by_cases hz : Z = 0 <;> rcases hal with rfl | rfl <;>
  simp [run1, curveF, mkCurve, slotA, ecpDblJ, Prog.run, Prog.block, Instr.exec, upd, get3, put3, base,
    fieldFld, cX, cY, cZ, rA, rB, sc, sa, sk, hz]

/-! ### `ecpDblJA3` -/

theorem dblJA3_exec {al : Al} (hal : al = .n ∨ al = .ca) (X Y Z : F) (hz : Z ≠ 0) (hy : Y ≠ 0) :
    run1 (curveF A B) ecpDblJA3 al (X, Y, Z) =
      dblForm ((X + Z * Z) * (X - Z * Z) + (X + Z * Z) * (X - Z * Z) + (X + Z * Z) * (X - Z * Z)) X Y Z := by
  rcases hal with rfl | rfl <;>
  simp [run1, curveF, mkCurve, slotA, ecpDblJA3, Prog.run, Prog.block, Instr.exec, upd, get3, put3, base,
    fieldFld, cX, cY, cZ, rA, rB, sc, sa, sk, hz, hy, dblForm]

theorem dblJA3_exec_z0 {al : Al} (hal : al = .n ∨ al = .ca) (X Y : F) :
    (run1 (curveF A B) ecpDblJA3 al (X, Y, 0)).2.2 = 0 := by
  rcases hal with rfl | rfl <;>
  simp [run1, curveF, mkCurve, slotA, ecpDblJA3, Prog.run, Prog.block, Instr.exec, upd, get3, put3, base,
    fieldFld, cX, cY, cZ, rA, rB, sc, sa, sk]

theorem dblJA3_exec_y0 {al : Al} (hal : al = .n ∨ al = .ca) (X Z : F) :
    (run1 (curveF A B) ecpDblJA3 al (X, 0, Z)).2.2 = 0 := by
  by_cases hz : Z = 0 <;> rcases hal with rfl | rfl <;>
  simp [run1, curveF, mkCurve, slotA, ecpDblJA3, Prog.run, Prog.block, Instr.exec, upd, get3, put3, base,
    fieldFld, cX, cY, cZ, rA, rB, sc, sa, sk, hz]

/-! ### `ecpDblAJ` -/

theorem dblAJ_exec {al : Al} (hal : al = .n ∨ al = .ca) (X Y : F) (hy : Y ≠ 0) :
    dbla (curveF A B) al (X, Y) = dblaForm A X Y := by
  rcases hal with rfl | rfl <;>
  simp [dbla, curveF, mkCurve, slotA, ecpDblAJ, Prog.run, Prog.block, Instr.exec, upd, get3, put2, base,
    fieldFld, cX, cY, cZ, rA, rB, sc, sa, sk, hy, dblaForm]

theorem dblAJ_exec_y0 {al : Al} (hal : al = .n ∨ al = .ca) (X : F) :
    (dbla (curveF A B) al (X, 0)).2.2 = 0 := by
  rcases hal with rfl | rfl <;>
  simp [dbla, curveF, mkCurve, slotA, ecpDblAJ, Prog.run, Prog.block, Instr.exec, upd, get3, put2, base,
    fieldFld, cX, cY, cZ, rA, rB, sc, sa, sk]

/-! ### `ecpNegJ`, `ecpFromAJ`, `ecpToAJ`, `ecpNegA`, `ecpIsOnA` -/

theorem negJ_exec {al : Al} (hal : al = .n ∨ al = .ca) (X Y Z : F) :
    run1 (curveF A B) (fun b a _ => ecpNegJ b a) al (X, Y, Z) = (X, -Y, Z) := by
  rcases hal with rfl | rfl <;>
  simp [run1, curveF, mkCurve, slotA, ecpNegJ, Prog.run, Prog.block, Instr.exec, upd, get3, put3, base,
    fieldFld, cX, cY, cZ, rA, rB, sc, sa, sk]

theorem fromAJ_exec {al : Al} (hal : al = .n ∨ al = .ca) (X Y : F) :
    froma (curveF A B) al (X, Y) = (X, Y, 1) := by
  rcases hal with rfl | rfl <;>
  simp [froma, curveF, mkCurve, slotA, ecpFromAJ, Prog.run, Prog.block, Instr.exec, upd, get3, put2, base,
    fieldFld, cX, cY, cZ, rA, rB, sc, sa, sk]

theorem toAJ_exec {al : Al} (hal : al = .n ∨ al = .ca) (X Y Z : F) (hz : Z ≠ 0) :
    toa (curveF A B) al (X, Y, Z) = some (X * (Z⁻¹ * Z⁻¹), Y * (Z⁻¹ * (Z⁻¹ * Z⁻¹))) := by
  rcases hal with rfl | rfl <;>
  simp [toa, curveF, mkCurve, slotA, ecpToAJ, Prog.run, Prog.block, Instr.exec, upd, get2, put3, base,
    fieldFld, cX, cY, cZ, rA, rB, sc, sa, sk, hz]

theorem toAJ_exec_z0 {al : Al} (hal : al = .n ∨ al = .ca) (X Y : F) :
    toa (curveF A B) al (X, Y, 0) = none := by
  rcases hal with rfl | rfl <;>
  simp [toa, curveF, mkCurve, slotA, ecpToAJ, Prog.run, Prog.block, Instr.exec, upd, get2, put3, base,
    fieldFld, cX, cY, cZ, rA, rB, sc, sa, sk]

theorem negA_exec {al : Al} (hal : al = .n ∨ al = .ca) (X Y : F) :
    negA (curveF A B) al (X, Y) = (X, -Y) := by
  rcases hal with rfl | rfl <;>
  simp [negA, curveF, mkCurve, slotA, ecpNegA, Prog.run, Prog.block, Instr.exec, upd, get2, put2, base,
    fieldFld, cX, cY, cZ, rA, rB, sc, sa, sk]

theorem isOnA_exec (X Y : F) :
    isOnA (curveF A B) (X, Y) = decide ((X * X + A) * X + B = Y * Y) := by
  by_cases h : (X * X + A) * X + B = Y * Y <;>
  simp [isOnA, curveF, mkCurve, ecpIsOnA, Prog.run, Prog.block, Instr.exec, upd, put2, base,
    fieldFld, cX, cY, cZ, rA, rB, sc, sa, sk, h]

end Bee2V.C06.Un

/-
C06, stage 2 — affine addition / subtraction `ec2AddAA`, `ec2SubAA` (ec2.c, curves
`y² + xy = x³ + Ax² + B` in characteristic 2): closed form of the execution for every aliasing pattern
(`addAA_exec`, `addAA_exec_same`, `subAA_exec`, `subAA_exec_same`) and agreement of the closed forms
with Mathlib's group law (`addSpec_correct`, `dblSpec_correct`, `subSpec_correct`).
The C asserts that `a` and `c` are disjoint: the documented patterns are `.n`, `.cb`, `.ab`; the
execution lemmas also cover `.ca`, `.abc` (the routine saves `xa` before it writes `xc`).
-/
import Bee2V.C06.Spec2
import Mathlib.Tactic.Ring
import Mathlib.Tactic.FieldSimp
import Mathlib.Tactic.LinearCombination
namespace Bee2V.C06.BAA
open WeierstrassCurve

set_option linter.unusedSectionVars false
set_option linter.unusedSimpArgs false
variable {F : Type} [Field F] [DecidableEq F] [CharP F 2] {A B : F}

/-! ## closed forms -/

/-- chord as the C computes it from the slope `l`: `xc = xa + xb + l + l² + A`,
    `yc = ya + xc + (xa + xc) l` -/
def chord (A l x1 y1 x2 : F) : P2 F :=
  (x1 + x2 + l + l * l + A, y1 + (x1 + x2 + l + l * l + A) + (x1 + (x1 + x2 + l + l * l + A)) * l)

/-- tangent as the C computes it from the slope `l`: `xc = l² + l + A`, `yc = ya + l (xa + xc) + xc` -/
def tang (A l x1 y1 : F) : P2 F :=
  (l * l + l + A, y1 + l * (x1 + (l * l + l + A)) + (l * l + l + A))

/-- what `ec2AddAA` computes on distinct operand buffers -/
def addSpec (A x1 y1 x2 y2 : F) : Option (P2 F) :=
  if x1 = x2 then
    if y1 = y2 then
      if x1 = 0 then none else some (tang A (y1 * x1⁻¹ + x1) x1 y1)
    else none
  else some (chord A ((y1 + y2) * (x1 + x2)⁻¹) x1 y1 x2)

/-- what `ec2AddAA(c, a, a)` computes -/
def dblSpec (A x1 y1 : F) : Option (P2 F) :=
  if x1 = 0 then none else some (tang A (y1 * x1⁻¹ + x1) x1 y1)

/-- what `ec2SubAA` computes on distinct operand buffers: `ec2AddAA` on `a` and `(xb, xb + yb)` -/
def subSpec (A x1 y1 x2 y2 : F) : Option (P2 F) := addSpec A x1 y1 x2 (x2 + y2)

/-! ## execution -/

macro "baa_exec" : tactic => `(tactic|
  simp [runAA, ec2AddAA, ec2SubAA, Prog.run, Prog.block, Instr.exec, upd, get2,
    fieldFld, cX, cY, rA, rB, sc, sa, sb, sk, slotA, slotB, put2, base, curveB, mkCurve2, chord, tang, *])

/-- `ec2AddAA(c, a, b)`, `a`, `b` in different buffers (`c` anywhere; `.ca` is outside the C's
    precondition `wwIsDisjoint(a, c)`) -/
theorem addAA_exec (al : Al) (hal : al = .n ∨ al = .ca ∨ al = .cb) (x1 y1 x2 y2 : F) :
    runAA (curveB A B) ec2AddAA al (x1, y1) (x2, y2) = addSpec A x1 y1 x2 y2 := by
  unfold addSpec
  by_cases hx : x1 = x2
  · subst hx
    by_cases hy : y1 = y2
    · subst hy
      by_cases h0 : x1 = 0
      · rcases hal with rfl | rfl | rfl <;> baa_exec
      · rcases hal with rfl | rfl | rfl <;> baa_exec
    · rcases hal with rfl | rfl | rfl <;> baa_exec
  · rcases hal with rfl | rfl | rfl <;> baa_exec

/-- `ec2AddAA(c, a, a)` (`c` distinct, or `c == a` outside the precondition): the second value
    argument is not used -/
theorem addAA_exec_same (al : Al) (hal : al = .ab ∨ al = .abc) (x1 y1 : F) (b : P2 F) :
    runAA (curveB A B) ec2AddAA al (x1, y1) b = dblSpec A x1 y1 := by
  unfold dblSpec
  by_cases h0 : x1 = 0
  · rcases hal with rfl | rfl <;> baa_exec
  · rcases hal with rfl | rfl <;> baa_exec

/-- `ec2SubAA(c, a, b)`, `a`, `b` in different buffers -/
theorem subAA_exec (al : Al) (hal : al = .n ∨ al = .ca ∨ al = .cb) (x1 y1 x2 y2 : F) :
    runAA (curveB A B) ec2SubAA al (x1, y1) (x2, y2) = subSpec A x1 y1 x2 y2 := by
  unfold subSpec addSpec
  by_cases hx : x1 = x2
  · subst hx
    by_cases hy : y1 = x1 + y2
    · subst hy
      by_cases h0 : x1 = 0
      · rcases hal with rfl | rfl | rfl <;> baa_exec
      · rcases hal with rfl | rfl | rfl <;> baa_exec
    · rcases hal with rfl | rfl | rfl <;> baa_exec
  · rcases hal with rfl | rfl | rfl <;> baa_exec

/-- `ec2SubAA(c, a, a)` returns FALSE: through `ya != yt` if `xa ≠ 0`, through `xa == 0` otherwise -/
theorem subAA_exec_same (al : Al) (hal : al = .ab ∨ al = .abc) (a b : P2 F) :
    runAA (curveB A B) ec2SubAA al a b = none := by
  obtain ⟨x1, y1⟩ := a
  by_cases h0 : x1 = 0
  · rcases hal with rfl | rfl <;> baa_exec
  · have hy : ¬ y1 = x1 + y1 := by
      intro h; apply h0
      have : x1 + y1 + y1 = 0 := by rw [← h]; exact CharTwo.add_self_eq_zero y1
      rw [add_assoc, CharTwo.add_self_eq_zero, add_zero] at this; exact this
    rcases hal with rfl | rfl <;> baa_exec

/-! ## the closed forms and the group law -/

theorem RepB2_ne_zero {r : P2 F} {P : (Wb A B).Point} (h : RepB2 A B r P) : P ≠ 0 := by
  obtain ⟨_, rfl⟩ := h
  exact Affine.Point.some_ne_zero _

theorem of_some {o : Option (P2 F)} {r0 : P2 F} {P : (Wb A B).Point} (ho : o = some r0)
    (h : RepB2 A B r0 P) : (o = none ↔ P = 0) ∧ ∀ r, o = some r → RepB2 A B r P := by
  subst ho
  refine ⟨⟨fun h0 => (by cases h0), fun h0 => absurd h0 (RepB2_ne_zero h)⟩, ?_⟩
  intro r hr
  cases hr
  exact h

theorem of_none {o : Option (P2 F)} {P : (Wb A B).Point} (ho : o = none)
    (h : P = 0) : (o = none ↔ P = 0) ∧ ∀ r, o = some r → RepB2 A B r P := by
  subst ho
  exact ⟨⟨fun _ => h, fun _ => rfl⟩, fun r hr => by cases hr⟩

/-- tangent at `(x, y)`, `x ≠ 0`, in the form the C computes (`yc = ya + λ(xa + xc) + xc`;
    equal to `x² + (λ + 1) xc` because `λ x = x² + y`) -/
theorem tangent_rep {x y : F} (h : (Wb A B).Nonsingular x y) (hx : x ≠ 0) :
    RepB2 A B (tang A (y * x⁻¹ + x) x y) (Affine.Point.some x y h + Affine.Point.some x y h) := by
  refine RepB2_of_eq (addB_tangent h hx) ?_ ?_
  · simp only [div_eq_mul_inv]; ring
  · simp only [div_eq_mul_inv]
    field_simp
    char2

/-- chord through `(x₁, y₁)`, `(x₂, y₂)`, `x₁ ≠ x₂`, in the form the C computes -/
theorem chord_rep {x1 y1 x2 y2 : F} (h1 : (Wb A B).Nonsingular x1 y1) (h2 : (Wb A B).Nonsingular x2 y2)
    (hx : x1 ≠ x2) :
    RepB2 A B (chord A ((y1 + y2) * (x1 + x2)⁻¹) x1 y1 x2)
      (Affine.Point.some x1 y1 h1 + Affine.Point.some x2 y2 h2) := by
  refine RepB2_of_eq (addB_chord h1 h2 hx) ?_ ?_ <;> simp only [div_eq_mul_inv] <;> ring

theorem addSpec_correct {x1 y1 x2 y2 : F}
    (h1 : (Wb A B).Nonsingular x1 y1) (h2 : (Wb A B).Nonsingular x2 y2) :
    (addSpec A x1 y1 x2 y2 = none ↔ Affine.Point.some x1 y1 h1 + Affine.Point.some x2 y2 h2 = 0) ∧
    ∀ r, addSpec A x1 y1 x2 y2 = some r →
      RepB2 A B r (Affine.Point.some x1 y1 h1 + Affine.Point.some x2 y2 h2) := by
  by_cases hx : x1 = x2
  · subst hx
    by_cases hy : y1 = y2
    · subst hy
      by_cases h0 : x1 = 0
      · subst h0
        exact of_none (by simp [addSpec]) (addB_order2 h1)
      · exact of_some (by simp [addSpec, h0]) (tangent_rep h1 h0)
    · refine of_none (by simp [addSpec, hy]) (addB_inverse h1 h2 rfl ?_)
      rcases yB_eq_or_neg h1 h2 with h | h
      · exact absurd h hy
      · exact h
  · exact of_some (by simp [addSpec, hx]) (chord_rep h1 h2 hx)

theorem dblSpec_correct {x1 y1 : F} (h1 : (Wb A B).Nonsingular x1 y1) :
    (dblSpec A x1 y1 = none ↔ Affine.Point.some x1 y1 h1 + Affine.Point.some x1 y1 h1 = 0) ∧
    ∀ r, dblSpec A x1 y1 = some r →
      RepB2 A B r (Affine.Point.some x1 y1 h1 + Affine.Point.some x1 y1 h1) := by
  by_cases h0 : x1 = 0
  · subst h0
    exact of_none (by simp [dblSpec]) (addB_order2 h1)
  · exact of_some (by simp [dblSpec, h0]) (tangent_rep h1 h0)

theorem subSpec_correct {x1 y1 x2 y2 : F}
    (h1 : (Wb A B).Nonsingular x1 y1) (h2 : (Wb A B).Nonsingular x2 y2) :
    (subSpec A x1 y1 x2 y2 = none ↔ Affine.Point.some x1 y1 h1 - Affine.Point.some x2 y2 h2 = 0) ∧
    ∀ r, subSpec A x1 y1 x2 y2 = some r →
      RepB2 A B r (Affine.Point.some x1 y1 h1 - Affine.Point.some x2 y2 h2) := by
  obtain ⟨hn, en⟩ := negB_some h2
  simp only at hn en
  rw [sub_eq_add_neg, en]
  exact addSpec_correct h1 hn

end Bee2V.C06.BAA

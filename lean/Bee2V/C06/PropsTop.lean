/-
C06 — composition of the parts into statements about the real call structure:
  * `ecOps_correct`: the function table that `ecpCreateJ` installs (over any field with 2 ≠ 0)
    implements Mathlib's group of points, for the aliasing patterns `ecMulA`/`ecAddMulA` use;
  * `ecMulA_curve`, `ecHasOrderA_curve`, `ecAddMulA_curve`: the window-NAF routines of ec.c run on
    that table return `d • P` / `Σ dᵢ • Pᵢ` and FALSE exactly for the point at infinity;
  * `ecOps_nat_correct`, `ecMulA_nat`, `ecHasOrderA_nat`, `ecAddMulA_nat`: the same for what the
    driver `drv_c06` executes (naturals mod a prime p > 2), through the simulation `run_sim`.
-/
import Bee2V.C06.LemmasTop
import Bee2V.C06.PropsMul
import Bee2V.C06.PropsUn
import Bee2V.C06.PropsAddJ
import Bee2V.C06.PropsAddAJ
import Bee2V.C06.PropsSim
import Bee2V.C06.PropsTpl
import Bee2V.C06.PropsAA
import Bee2V.C06.PropsSWU
namespace Bee2V.C06
open WeierstrassCurve

section field
variable {F : Type} [Field F] [DecidableEq F] {A B : F}

/-- the table of `ecpCreateJ` is a correct operation table for the group of points -/
theorem ecOps_correct (h2 : (2 : F) ≠ 0) :
    (ecOps (curveF A B)).Correct (Rep3 A B) (Rep2 A B) where
  froma h := froma_correct (Or.inl rfl) h
  view_froma {a g} h := by rw [view_froma]; exact h
  toa_none h := (toa_correct (Or.inl rfl) h).1
  toa_some h hb := (toa_correct (Or.inl rfl) h).2 _ hb
  setO := setO_correct
  dbl_ca h := dbl_correct h2 (Or.inr rfl) h
  dbla h := dbla_correct h2 (Or.inl rfl) h
  add_n hp hq := add_correct h2 (Or.inl rfl) hp hq
  add_ca hp hq := add_correct h2 (Or.inr (Or.inl rfl)) hp hq
  sub_ca hp hq := sub_correct h2 (Or.inr (Or.inl rfl)) hp hq
  adda_n hp hq := adda_correct h2 (Or.inl rfl) hp hq
  adda_ca hp hq := adda_correct h2 (Or.inr (Or.inl rfl)) hp hq
  suba_ca hp hq := suba_correct h2 (Or.inr (Or.inl rfl)) hp hq

/-- `ecMulA` on a curve over any field with `2 ≠ 0`: FALSE iff `d • P = O`, else the affine `d • P` -/
theorem ecMulA_curve (h2 : (2 : F) ≠ 0) {a : P2 F} {P : (Wc A B).Point} (ha : Rep2 A B a P)
    (W m d : Nat) :
    (ecMulA (ecOps (curveF A B)) W a d m = none ↔ d • P = 0) ∧
    ∀ b, ecMulA (ecOps (curveF A B)) W a d m = some b → Rep2 A B b (d • P) :=
  ecMulA_spec (ecOps_correct h2) ha W m d

theorem ecHasOrderA_curve (h2 : (2 : F) ≠ 0) {a : P2 F} {P : (Wc A B).Point} (ha : Rep2 A B a P)
    (W m q : Nat) :
    ecHasOrderA (ecOps (curveF A B)) W a q m = true ↔ q • P = 0 :=
  ecHasOrderA_spec (ecOps_correct h2) ha W m q

/-- `ecAddMulA` on a curve: the multi-scalar sum `Σ dᵢ • Pᵢ` (repeated points, zero scalars, scalars of
    different lengths and hence different window widths included) -/
theorem ecAddMulA_curve (h2 : (2 : F) ≠ 0) (args : List (P2 F × Nat)) (Ps : List (Wc A B).Point)
    (h : List.Forall₂ (fun ad P => Rep2 A B ad.1 P) args Ps) (W : Nat) :
    let s := (List.zipWith (fun ad P => ad.2 • P) args Ps).sum
    (ecAddMulA (ecOps (curveF A B)) W args = none ↔ s = 0) ∧
    ∀ b, ecAddMulA (ecOps (curveF A B)) W args = some b → Rep2 A B b s :=
  ecAddMulA_spec (ecOps_correct h2) args Ps h W

end field

section nat
variable (p : Nat) [Fact p.Prime] (hp2 : p ≠ 2) {A B : Nat} (hA : A < p) (hB : B < p)
include hp2 hA hB

/-- the table the driver runs (`natFld p`) is correct for the group of points over `ZMod p` -/
theorem ecOps_nat_correct :
    (ecOps (mkCurve (natFld p) A B)).Correct (RepN3 p A B) (RepN2 p A B) := by
  have h2 : (2 : ZMod p) ≠ 0 := Sim.two_ne_zero' p hp2
  have hc := ecOps_correct (A := (A : ZMod p)) (B := (B : ZMod p)) h2
  refine
    { froma := ?_, view_froma := ?_, toa_none := ?_, toa_some := ?_, setO := ?_, dbl_ca := ?_,
      dbla := ?_, add_n := ?_, add_ca := ?_, sub_ca := ?_, adda_n := ?_, adda_ca := ?_,
      suba_ca := ?_ }
  · rintro a g ⟨hr, hg⟩
    have s := ecOps_sim_froma p hp2 hA hB hr
    exact ⟨s.1, by rw [s.2]; exact hc.froma hg⟩
  · rintro a g ⟨hr, hg⟩
    have s := ecOps_sim_froma p hp2 hA hB hr
    have v := ecOps_sim_view p (A := A) (B := B) s.1
    exact ⟨v.1, by rw [v.2, s.2]; exact hc.view_froma hg⟩
  · rintro q g ⟨hr, hg⟩
    have s := ecOps_sim_toa p hp2 hA hB hr
    rw [← hc.toa_none hg, ← s.2, Option.map_eq_none_iff]
  · rintro q g b ⟨hr, hg⟩ hb
    have s := ecOps_sim_toa p hp2 hA hB hr
    refine ⟨s.1 _ hb, hc.toa_some hg ?_⟩
    rw [← s.2, hb]; rfl
  · have s := ecOps_sim_setO p hp2 (A := A) (B := B)
    exact ⟨s.1, by rw [s.2]; exact hc.setO⟩
  · rintro q g ⟨hr, hg⟩
    have s := ecOps_sim_dbl p hp2 hA hB .ca hr
    exact ⟨s.1, by rw [s.2]; exact hc.dbl_ca hg⟩
  · rintro a g ⟨hr, hg⟩
    have s := ecOps_sim_dbla p hp2 hA hB hr
    exact ⟨s.1, by rw [s.2]; exact hc.dbla hg⟩
  · rintro q r g h ⟨hr, hg⟩ ⟨hr', hh⟩
    have s := ecOps_sim_add p hp2 hA hB .n hr hr'
    exact ⟨s.1, by rw [s.2]; exact hc.add_n hg hh⟩
  · rintro q r g h ⟨hr, hg⟩ ⟨hr', hh⟩
    have s := ecOps_sim_add p hp2 hA hB .ca hr hr'
    exact ⟨s.1, by rw [s.2]; exact hc.add_ca hg hh⟩
  · rintro q r g h ⟨hr, hg⟩ ⟨hr', hh⟩
    have s := ecOps_sim_sub p hp2 hA hB .ca hr hr'
    exact ⟨s.1, by rw [s.2]; exact hc.sub_ca hg hh⟩
  · rintro q r g h ⟨hr, hg⟩ ⟨hr', hh⟩
    have s := ecOps_sim_adda p hp2 hA hB .n hr hr'
    exact ⟨s.1, by rw [s.2]; exact hc.adda_n hg hh⟩
  · rintro q r g h ⟨hr, hg⟩ ⟨hr', hh⟩
    have s := ecOps_sim_adda p hp2 hA hB .ca hr hr'
    exact ⟨s.1, by rw [s.2]; exact hc.adda_ca hg hh⟩
  · rintro q r g h ⟨hr, hg⟩ ⟨hr', hh⟩
    have s := ecOps_sim_suba p hp2 hA hB .ca hr hr'
    exact ⟨s.1, by rw [s.2]; exact hc.suba_ca hg hh⟩

/-- what `drv_c06` computes for `mul`: for a point `(x, y)` of the curve over `ZMod p` given by
    reduced naturals, every word size `W`, every length `m`, every scalar `d`: FALSE iff `d • P = O`,
    otherwise reduced coordinates of `d • P` -/
theorem ecMulA_nat {x y : Nat} (hx : x < p) (hy : y < p)
    (hns : (Wc (A : ZMod p) (B : ZMod p)).Nonsingular (x : ZMod p) (y : ZMod p)) (W m d : Nat) :
    (ecMulA (ecOps (mkCurve (natFld p) A B)) W (x, y) d m = none ↔
        d • (Affine.Point.some _ _ hns) = 0) ∧
    ∀ b, ecMulA (ecOps (mkCurve (natFld p) A B)) W (x, y) d m = some b →
        b.1 < p ∧ b.2 < p ∧
        Rep2 (A : ZMod p) (B : ZMod p) ((b.1 : ZMod p), (b.2 : ZMod p)) (d • (Affine.Point.some _ _ hns)) := by
  have ha : RepN2 p A B (x, y) (Affine.Point.some _ _ hns) :=
    ⟨⟨hx, hy⟩, by show Rep2 _ _ ((x : ZMod p), (y : ZMod p)) _; exact ⟨hns, rfl⟩⟩
  have h := ecMulA_spec (ecOps_nat_correct p hp2 hA hB) ha W m d
  exact ⟨h.1, fun b hb => ⟨(h.2 b hb).1.1, (h.2 b hb).1.2, (h.2 b hb).2⟩⟩

theorem ecHasOrderA_nat {x y : Nat} (hx : x < p) (hy : y < p)
    (hns : (Wc (A : ZMod p) (B : ZMod p)).Nonsingular (x : ZMod p) (y : ZMod p)) (W m q : Nat) :
    ecHasOrderA (ecOps (mkCurve (natFld p) A B)) W (x, y) q m = true ↔
      q • (Affine.Point.some _ _ hns) = 0 :=
  ecHasOrderA_spec (ecOps_nat_correct p hp2 hA hB)
    (⟨⟨hx, hy⟩, by show Rep2 _ _ ((x : ZMod p), (y : ZMod p)) _; exact ⟨hns, rfl⟩⟩ :
      RepN2 p A B (x, y) (Affine.Point.some _ _ hns)) W m q

/-- what `drv_c06` computes for `addmul` -/
theorem ecAddMulA_nat (args : List (P2 Nat × Nat)) (Ps : List (Wc (A : ZMod p) (B : ZMod p)).Point)
    (h : List.Forall₂ (fun ad P => RepN2 p A B ad.1 P) args Ps) (W : Nat) :
    let s := (List.zipWith (fun ad P => ad.2 • P) args Ps).sum
    (ecAddMulA (ecOps (mkCurve (natFld p) A B)) W args = none ↔ s = 0) ∧
    ∀ b, ecAddMulA (ecOps (mkCurve (natFld p) A B)) W args = some b → RepN2 p A B b s :=
  ecAddMulA_spec (ecOps_nat_correct p hp2 hA hB) args Ps h W

/-! ### every routine and aliasing on what the driver runs -/

theorem neg_nat {al : Al} (hal : al = .n ∨ al = .ca) {q : P3 Nat} {P} (hq : RepN3 p A B q P) :
    RepN3 p A B ((ecOps (mkCurve (natFld p) A B)).neg al q) (-P) := by
  have s := ecOps_sim_neg p hp2 hA hB al hq.1
  exact ⟨s.1, by rw [s.2]; exact neg_correct hal hq.2⟩

theorem dbl_nat {al : Al} (hal : al = .n ∨ al = .ca) {q : P3 Nat} {P} (hq : RepN3 p A B q P) :
    RepN3 p A B ((ecOps (mkCurve (natFld p) A B)).dbl al q) (P + P) := by
  have s := ecOps_sim_dbl p hp2 hA hB al hq.1
  exact ⟨s.1, by rw [s.2]; exact dbl_correct (Sim.two_ne_zero' p hp2) hal hq.2⟩

theorem tpl_nat {al : Al} (hal : al = .n ∨ al = .ca) {q : P3 Nat} {P} (hq : RepN3 p A B q P) :
    RepN3 p A B ((ecOps (mkCurve (natFld p) A B)).tpl al q) (P + P + P) := by
  have s := ecOps_sim_tpl p hp2 hA hB al hq.1
  exact ⟨s.1, by rw [s.2]; exact tpl_correct (Sim.two_ne_zero' p hp2) hal hq.2⟩

theorem add_nat {al : Al} (hal : al = .n ∨ al = .ca ∨ al = .cb) {q r : P3 Nat} {P Q}
    (hq : RepN3 p A B q P) (hr : RepN3 p A B r Q) :
    RepN3 p A B ((ecOps (mkCurve (natFld p) A B)).add al q r) (P + Q) := by
  have s := ecOps_sim_add p hp2 hA hB al hq.1 hr.1
  exact ⟨s.1, by rw [s.2]; exact add_correct (Sim.two_ne_zero' p hp2) hal hq.2 hr.2⟩

theorem sub_nat {al : Al} (hal : al = .n ∨ al = .ca ∨ al = .cb) {q r : P3 Nat} {P Q}
    (hq : RepN3 p A B q P) (hr : RepN3 p A B r Q) :
    RepN3 p A B ((ecOps (mkCurve (natFld p) A B)).sub al q r) (P - Q) := by
  have s := ecOps_sim_sub p hp2 hA hB al hq.1 hr.1
  exact ⟨s.1, by rw [s.2]; exact sub_correct (Sim.two_ne_zero' p hp2) hal hq.2 hr.2⟩

theorem adda_nat {al : Al} (hal : al = .n ∨ al = .ca ∨ al = .cb) {q : P3 Nat} {r : P2 Nat} {P Q}
    (hq : RepN3 p A B q P) (hr : RepN2 p A B r Q) :
    RepN3 p A B ((ecOps (mkCurve (natFld p) A B)).adda al q r) (P + Q) := by
  have s := ecOps_sim_adda p hp2 hA hB al hq.1 hr.1
  exact ⟨s.1, by rw [s.2]; exact adda_correct (Sim.two_ne_zero' p hp2) hal hq.2 hr.2⟩

theorem suba_nat {al : Al} (hal : al = .n ∨ al = .ca ∨ al = .cb) {q : P3 Nat} {r : P2 Nat} {P Q}
    (hq : RepN3 p A B q P) (hr : RepN2 p A B r Q) :
    RepN3 p A B ((ecOps (mkCurve (natFld p) A B)).suba al q r) (P - Q) := by
  have s := ecOps_sim_suba p hp2 hA hB al hq.1 hr.1
  exact ⟨s.1, by rw [s.2]; exact suba_correct (Sim.two_ne_zero' p hp2) hal hq.2 hr.2⟩

theorem addAA_nat {al : Al} (hal : al = .n ∨ al = .ca ∨ al = .cb) {q r : P2 Nat} {P Q}
    (hq : RepN2 p A B q P) (hr : RepN2 p A B r Q) :
    (addAA (mkCurve (natFld p) A B) al q r = none ↔ P + Q = 0) ∧
    ∀ t, addAA (mkCurve (natFld p) A B) al q r = some t → RepN2 p A B t (P + Q) := by
  have s := runAA_sim p hp2 hA hB ecpAddAA al hq.1 hr.1
  have c := addAA_correct (Sim.two_ne_zero' p hp2) hal hq.2 hr.2
  refine ⟨?_, fun t ht => ⟨s.1 t ht, c.2 _ ?_⟩⟩
  · rw [← c.1]; unfold addAA; rw [← s.2, Option.map_eq_none_iff]
  · unfold addAA at ht ⊢; rw [← s.2, ht]; rfl

theorem subAA_nat {al : Al} (hal : al = .n ∨ al = .ca ∨ al = .cb) {q r : P2 Nat} {P Q}
    (hq : RepN2 p A B q P) (hr : RepN2 p A B r Q) :
    (subAA (mkCurve (natFld p) A B) al q r = none ↔ P - Q = 0) ∧
    ∀ t, subAA (mkCurve (natFld p) A B) al q r = some t → RepN2 p A B t (P - Q) := by
  have s := runAA_sim p hp2 hA hB ecpSubAA al hq.1 hr.1
  have c := subAA_correct (Sim.two_ne_zero' p hp2) hal hq.2 hr.2
  refine ⟨?_, fun t ht => ⟨s.1 t ht, c.2 _ ?_⟩⟩
  · rw [← c.1]; unfold subAA; rw [← s.2, Option.map_eq_none_iff]
  · unfold subAA at ht ⊢; rw [← s.2, ht]; rfl

/-- SWU on what the driver runs: inside the exact domain the output is a reduced point of the curve -/
theorem swu_nat_on_curve (hp : p % 4 = 3) {a : Nat} (ha : a < p)
    (hA0 : (A : ZMod p) ≠ 0) (hB0 : (B : ZMod p) ≠ 0)
    (hdom : IsSquare (B : ZMod p) ∨ ((a : ZMod p) ≠ 0 ∧ (a : ZMod p) ≠ 1 ∧ (a : ZMod p) ≠ -1)) :
    (swu p (mkCurve (natFld p) A B) a).1 < p ∧ (swu p (mkCurve (natFld p) A B) a).2 < p ∧
    ((swu p (mkCurve (natFld p) A B) a).2 : ZMod p) ^ 2 =
      ((swu p (mkCurve (natFld p) A B) a).1 : ZMod p) ^ 3 + A * ((swu p (mkCurve (natFld p) A B) a).1 : ZMod p) + B := by
  have s := swu_sim p hp2 hA hB p ha
  have c := swu_on_curve p hp (A : ZMod p) (B : ZMod p) (a : ZMod p) hA0 hB0 hdom
  rw [← s.2] at c
  exact ⟨s.1.1, s.1.2, c⟩

end nat

/-! ## non-vacuity: `y² = x³ + x + 1` over `ZMod 23` (order 28), `P = (3, 10)` -/

example : ecMulA (ecOps (mkCurve (natFld 23) 1 1)) 64 (3, 10) 2 1 = some (7, 12) := by decide +kernel
example : ecMulA (ecOps (mkCurve (natFld 23) 1 1)) 64 (3, 10) 28 1 = none := by decide +kernel
example : ecHasOrderA (ecOps (mkCurve (natFld 23) 1 1)) 64 (3, 10) 28 1 = true := by decide +kernel
-- 3P + 3P = 6P: the running sum meets a precomputed multiple (P == Q fall-through of ecpAddJ, c == a)
example : ecAddMulA (ecOps (mkCurve (natFld 23) 1 1)) 64 [((3, 10), 3), ((3, 10), 3)] = some (12, 4) := by
  decide +kernel
example : ecAddMulA (ecOps (mkCurve (natFld 23) 1 1)) 64 [((3, 10), 2), ((3, 13), 2)] = none := by
  decide +kernel


attribute [local instance] fact_prime_23 in
/-- the hypotheses of `ecMulA_nat` are satisfiable: `p = 23`, `A = B = 1`, `P = (3, 10)`, `d = 29 = 28 + 1` -/
example : ∃ hns : (Wc ((1 : Nat) : ZMod 23) ((1 : Nat) : ZMod 23)).Nonsingular ((3 : Nat) : ZMod 23) ((10 : Nat) : ZMod 23),
    ecMulA (ecOps (mkCurve (natFld 23) 1 1)) 64 (3, 10) 29 1 ≠ none ∧
    (29 : Nat) • (Affine.Point.some _ _ hns) ≠ 0 := by
  have hns : (Wc ((1 : Nat) : ZMod 23) ((1 : Nat) : ZMod 23)).Nonsingular ((3 : Nat) : ZMod 23) ((10 : Nat) : ZMod 23) :=
    (Wc_nonsingular _ _ _ _).2 ⟨by decide, Or.inr (by decide)⟩
  have h := ecMulA_nat 23 (by decide) (A := 1) (B := 1) (by decide) (by decide) (x := 3) (y := 10)
    (by decide) (by decide) hns 64 1 29
  have hne : ecMulA (ecOps (mkCurve (natFld 23) 1 1)) 64 (3, 10) 29 1 ≠ none := by decide +kernel
  exact ⟨hns, hne, fun h0 => hne (h.1.2 h0)⟩

end Bee2V.C06

/-
C06 — ecpSubJ: symbolic execution of `run2 (curveF A B) ecpSubJ al` per branch and aliasing.
`ecpSubJ(c, a, b)` writes `t = (X2, -Y2, Z2)` into the scratch and calls `ecpAddJ(c, a, t)`; the closed
forms are those of `ecpAddJ` on `(X2, -Y2, Z2)`.
-/
import Bee2V.C06.LemmasAddJ
namespace Bee2V.C06.AddJ
open WeierstrassCurve
set_option linter.unusedSimpArgs false
set_option linter.unusedVariables false
variable {F : Type} [Field F] [DecidableEq F] {A B : F}

/-- close a goal `(x, y, z) = addG …`/`dblG …` that is not syntactically the closed form -/
macro "close_form" : tactic =>
  `(tactic| first | done | (simp only [addG, dblG]; done) | (simp only [addG, dblG, neg_mul]; done))

theorem sub_exec_aO {al : Al} (hal : al = .n ∨ al = .ca ∨ al = .cb) (X1 Y1 Z1 X2 Y2 Z2 : F) (h1 : Z1 = 0) :
    run2 (curveF A B) ecpSubJ al (X1, Y1, Z1) (X2, Y2, Z2) = (X2, -Y2, Z2) := by
  subst h1
  rcases hal with rfl | rfl | rfl <;> exec_simp []

theorem sub_exec_bO {al : Al} (hal : al = .n ∨ al = .ca ∨ al = .cb) (X1 Y1 Z1 X2 Y2 Z2 : F) (h1 : Z1 ≠ 0) (h2 : Z2 = 0) :
    run2 (curveF A B) ecpSubJ al (X1, Y1, Z1) (X2, Y2, Z2) = (X1, Y1, Z1) := by
  subst h2
  rcases hal with rfl | rfl | rfl <;> exec_simp [h1]

theorem sub_exec_gen {al : Al} (hal : al = .n ∨ al = .ca ∨ al = .cb) (X1 Y1 Z1 X2 Y2 Z2 : F)
    (h1 : Z1 ≠ 0) (h2 : Z2 ≠ 0) (hH : hh X1 Z1 X2 Z2 ≠ 0) :
    run2 (curveF A B) ecpSubJ al (X1, Y1, Z1) (X2, Y2, Z2) = addG X1 Y1 Z1 X2 (-Y2) Z2 := by
  unfold hh at hH
  rcases hal with rfl | rfl | rfl <;> exec_simp [h1, h2, hH] <;> close_form

theorem sub_exec_opp {al : Al} (hal : al = .n ∨ al = .ca ∨ al = .cb) (X1 Y1 Z1 X2 Y2 Z2 : F)
    (h1 : Z1 ≠ 0) (h2 : Z2 ≠ 0) (hH : hh X1 Z1 X2 Z2 = 0) (hS : s1 Y1 Z2 ≠ s1 (-Y2) Z1) :
    (run2 (curveF A B) ecpSubJ al (X1, Y1, Z1) (X2, Y2, Z2)).2.2 = 0 := by
  unfold hh at hH; simp only [s1, neg_mul] at hS
  rcases hal with rfl | rfl | rfl <;> exec_simp [h1, h2, hH, hS]

theorem sub_exec_eq_a {al : Al} (hal : al = .n ∨ al = .cb) (X1 Y1 Z1 X2 Y2 Z2 : F)
    (h1 : Z1 ≠ 0) (h2 : Z2 ≠ 0) (hH : hh X1 Z1 X2 Z2 = 0) (hS : s1 Y1 Z2 = s1 (-Y2) Z1) (hY : Y1 ≠ 0) :
    run2 (curveF A B) ecpSubJ al (X1, Y1, Z1) (X2, Y2, Z2) = dblG A X1 Y1 Z1 := by
  unfold hh at hH; simp only [s1, neg_mul] at hS
  rcases hal with rfl | rfl <;> exec_simp [h1, h2, hH, hS, hY] <;> close_form

theorem sub_exec_eq_a0 {al : Al} (hal : al = .n ∨ al = .cb) (X1 Y1 Z1 X2 Y2 Z2 : F)
    (h1 : Z1 ≠ 0) (h2 : Z2 ≠ 0) (hH : hh X1 Z1 X2 Z2 = 0) (hS : s1 Y1 Z2 = s1 (-Y2) Z1) (hY : Y1 = 0) :
    (run2 (curveF A B) ecpSubJ al (X1, Y1, Z1) (X2, Y2, Z2)).2.2 = 0 := by
  subst hY; unfold hh at hH; simp only [s1, neg_mul] at hS
  rcases hal with rfl | rfl <;> exec_simp [h1, h2, hH, hS]

theorem sub_exec_eq_b (X1 Y1 Z1 X2 Y2 Z2 : F)
    (h1 : Z1 ≠ 0) (h2 : Z2 ≠ 0) (hH : hh X1 Z1 X2 Z2 = 0) (hS : s1 Y1 Z2 = s1 (-Y2) Z1) (hY : Y2 ≠ 0) :
    run2 (curveF A B) ecpSubJ .ca (X1, Y1, Z1) (X2, Y2, Z2) = dblG A X2 (-Y2) Z2 := by
  unfold hh at hH; simp only [s1, neg_mul] at hS
  exec_simp [h1, h2, hH, hS, hY]; close_form

theorem sub_exec_eq_b0 (X1 Y1 Z1 X2 Y2 Z2 : F)
    (h1 : Z1 ≠ 0) (h2 : Z2 ≠ 0) (hH : hh X1 Z1 X2 Z2 = 0) (hS : s1 Y1 Z2 = s1 (-Y2) Z1) (hY : Y2 = 0) :
    (run2 (curveF A B) ecpSubJ .ca (X1, Y1, Z1) (X2, Y2, Z2)).2.2 = 0 := by
  subst hY; unfold hh at hH; simp only [s1, neg_mul] at hS
  exec_simp [h1, h2, hH, hS]

/-! `a == b` (`.ab`): `a - a`; every path ends with `Z = 0` -/
theorem sub_exec_ab_O (X1 Y1 Z1 : F) (q : P3 F) (h1 : Z1 = 0) :
    (run2 (curveF A B) ecpSubJ .ab (X1, Y1, Z1) q).2.2 = 0 := by
  subst h1
  exec_simp []

theorem sub_exec_ab_0 (X1 Y1 Z1 : F) (q : P3 F) (h1 : Z1 ≠ 0) (hY : Y1 = 0) :
    (run2 (curveF A B) ecpSubJ .ab (X1, Y1, Z1) q).2.2 = 0 := by
  subst hY
  exec_simp [h1]

theorem sub_exec_ab (X1 Y1 Z1 : F) (q : P3 F) (h1 : Z1 ≠ 0)
    (hS : s1 Y1 Z1 ≠ s1 (-Y1) Z1) :
    (run2 (curveF A B) ecpSubJ .ab (X1, Y1, Z1) q).2.2 = 0 := by
  simp only [s1, neg_mul] at hS
  exec_simp [h1, hS]

end Bee2V.C06.AddJ

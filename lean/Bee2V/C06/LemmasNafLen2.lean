/-
C06 — NAF layer, part 5: the length invariant along the whole loop (`nafLoopAll_lenInv`), at the final
state (`nafLoopLen_lenInv`), the summary `wwNAFLen_spec`, and the read positions of the decoder (`ReadsOk`).
-/
import Bee2V.C06.LemmasNafLen
namespace Bee2V.C06.MulL
open Bee2V.C06

theorem nafLoopAll_lenInv {d w : Nat} (hw : 2 ≤ w) : ∀ (fuel : Nat) (st : NafSt) (len : Nat),
    LenInv d w st len → nafLoopAll (LenInv d w) d w (bitSize d) fuel (w + st.size) st len := by
  intro fuel
  induction fuel with
  | zero => intro st len h; exact h
  | succ n ih =>
    intro st len h
    refine ⟨h, fun hnt => ?_⟩
    have := ih _ _ (lenInv_step hw h hnt)
    rwa [nafStep_size, ← Nat.add_assoc] at this

theorem nafLoopLen_lenInv {d w : Nat} (hw : 2 ≤ w) : ∀ (fuel : Nat) (st : NafSt) (len : Nat),
    LenInv d w st len →
    LenInv d w (nafLoopLen d w (bitSize d) fuel (w + st.size) st len).1
      (nafLoopLen d w (bitSize d) fuel (w + st.size) st len).2 := by
  intro fuel
  induction fuel with
  | zero => intro st len h; exact h
  | succ n ih =>
    intro st len h
    unfold nafLoopLen
    split
    · exact h
    · rename_i hnt
      have := ih _ _ (lenInv_step hw h hnt)
      rwa [nafStep_size, ← Nat.add_assoc] at this

/-- everything about the final state of the instrumented `wwNAF` -/
theorem wwNAFLen_spec {d w : Nat} (hw : 2 ≤ w) (hd : 0 < d) :
    (wwNAF d w).1 ≤ bitSize d + 1 ∧
    wwNAFLen d w + 2 ≤ 2 * (wwNAF d w).1 + w ∧
    (wwNAF d w).2 < 2 ^ wwNAFLen d w ∧
    wwNAFLen d w = digitsLen w (decode w (wwNAF d w).2 (wwNAF d w).1 0) := by
  have hd0 : d ≠ 0 := by omega
  have h0 := lenInv_init hw hd0
  have hf := nafLoopLen_lenInv hw (bitSize d + w + 2) _ _ h0
  have hterm := nafLoop_term hw (bitSize d + w + 2) h0.inv (mu_init hw)
  simp only [Nat.add_zero] at hf hterm
  have hfst := nafLoopLen_fst d w (bitSize d) (bitSize d + w + 2) w
    { window := d % 2 ^ w, naf := 0, size := 0 } 0
  have e1 : wwNAF d w = ((nafLoopLen d w (bitSize d) (bitSize d + w + 2) w
      { window := d % 2 ^ w, naf := 0, size := 0 } 0).1.size,
      (nafLoopLen d w (bitSize d) (bitSize d + w + 2) w
      { window := d % 2 ^ w, naf := 0, size := 0 } 0).1.naf) := by
    unfold wwNAF; rw [if_neg hd0, hfst]
  have e2 : wwNAFLen d w = (nafLoopLen d w (bitSize d) (bitSize d + w + 2) w
      { window := d % 2 ^ w, naf := 0, size := 0 } 0).2 := by
    unfold wwNAFLen; rw [if_neg hd0]
  rw [← hfst] at hterm
  rw [e1, e2]
  generalize nafLoopLen d w (bitSize d) (bitSize d + w + 2) w _ 0 = r at hf hterm
  have := hf.sz
  exact ⟨by show r.1.size ≤ _; omega, hf.fin hterm.1 hterm.2, hf.packed, hf.dlen⟩

/-- the reads of the decoder (= of `ecMulA`): a non-zero digit at position `i` occupies `[i, i+w)`,
    a zero digit `[i, i+1)`; all inside the first `bound` bits -/
def ReadsOk (w naf bound : Nat) : Nat → Nat → Prop
  | 0, _ => True
  | k + 1, i =>
    if getBits naf i w % 2 = 1 then i + w ≤ bound ∧ ReadsOk w naf bound k (i + w)
    else i + 1 ≤ bound ∧ ReadsOk w naf bound k (i + 1)

theorem readsOk_decode {w : Nat} (hw : 2 ≤ w) (naf : Nat) : ∀ (k i : Nat),
    ReadsOk w naf (i + digitsLen w (decode w naf k i)) k i := by
  intro k
  induction k with
  | zero => intro i; trivial
  | succ k ih =>
    intro i
    unfold ReadsOk decode
    simp only
    split
    · rename_i hodd
      rw [digitsLen, if_neg (sval_ne_zero hw hodd), ← Nat.add_assoc]
      exact ⟨Nat.le_add_right _ _, ih _⟩
    · rw [digitsLen, if_pos rfl, ← Nat.add_assoc]
      exact ⟨Nat.le_add_right _ _, ih _⟩

end Bee2V.C06.MulL

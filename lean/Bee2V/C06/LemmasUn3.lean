/-
C06 — one-operand routines: execution + formulas = group law (all special cases), the word-level
`ecpIsOnA` over `natFld p`, and the concrete points used by the non-vacuity examples of `PropsUn`.
-/
import Bee2V.C06.LemmasUn2
import Mathlib.Data.ZMod.Basic
import Mathlib.Tactic.NormNum
import Mathlib.Tactic.NormNum.Prime
namespace Bee2V.C06.Un
open Bee2V.C06 WeierstrassCurve

set_option linter.unusedSectionVars false
set_option linter.unusedSimpArgs false
set_option linter.unusedVariables false
variable {F : Type} [Field F] [DecidableEq F] {A B : F}

/-- doubling with a program whose three behaviours are known -/
theorem dbl_of_exec (h2 : (2 : F) ≠ 0) (f : P3 F → P3 F) (M : F → F → F)
    (hM : ∀ X Z, M X Z = 3 * X ^ 2 + A * Z ^ 4)
    (e : ∀ X Y Z, Z ≠ 0 → Y ≠ 0 → f (X, Y, Z) = dblForm (M X Z) X Y Z)
    (ez : ∀ X Y, (f (X, Y, 0)).2.2 = 0) (ey : ∀ X Z, (f (X, 0, Z)).2.2 = 0)
    {p : P3 F} {P : (Wc A B).Point} (hp : Rep3 A B p P) : Rep3 A B (f p) (P + P) := by
  obtain ⟨X, Y, Z⟩ := p
  by_cases hz : Z = 0
  · subst hz
    rw [rep3_z0 hp rfl, add_zero]; exact rep3_O (ez X Y)
  · by_cases hy : Y = 0
    · subst hy
      obtain ⟨h, rfl⟩ := rep3_nz hp hz
      rw [add_self_y0 h (zero_div _)]; exact rep3_O (ey X Z)
    · rw [e X Y Z hz hy]; exact dbl_math h2 hp hz hy (hM X Z)

theorem dblJ_ok (h2 : (2 : F) ≠ 0) {al : Al} (hal : al = .n ∨ al = .ca) {p : P3 F} {P : (Wc A B).Point}
    (hp : Rep3 A B p P) : Rep3 A B (run1 (curveF A B) ecpDblJ al p) (P + P) :=
  dbl_of_exec h2 _ (fun X Z => A * (Z * Z * (Z * Z)) + X * X + (X * X + X * X)) (fun X Z => by ring)
    (dblJ_exec hal) (dblJ_exec_z0 hal) (dblJ_exec_y0 hal) hp

theorem dblJA3_ok (h2 : (2 : F) ≠ 0) (hA : A = -3) {al : Al} (hal : al = .n ∨ al = .ca) {p : P3 F}
    {P : (Wc A B).Point} (hp : Rep3 A B p P) : Rep3 A B (run1 (curveF A B) ecpDblJA3 al p) (P + P) :=
  dbl_of_exec h2 _
    (fun X Z => (X + Z * Z) * (X - Z * Z) + (X + Z * Z) * (X - Z * Z) + (X + Z * Z) * (X - Z * Z))
    (fun X Z => by rw [hA]; ring)
    (dblJA3_exec hal) (dblJA3_exec_z0 hal) (dblJA3_exec_y0 hal) hp

/-- `bA3` of `ecpCreateJ` over a field -/
theorem a3_iff : (curveF A B).a3 = true ↔ A = -3 := by
  simp only [curveF, mkCurve, fieldFld, decide_eq_true_eq]
  constructor
  · intro h; rw [← h]; norm_num
  · intro h; rw [h]; norm_num

theorem dbl_ok (h2 : (2 : F) ≠ 0) {al : Al} (hal : al = .n ∨ al = .ca) {p : P3 F} {P : (Wc A B).Point}
    (hp : Rep3 A B p P) : Rep3 A B (run1 (curveF A B) (dblProg (curveF A B)) al p) (P + P) := by
  by_cases h : (curveF A B).a3 = true
  · have : dblProg (curveF A B) = ecpDblJA3 := by simp [dblProg, h]
    rw [this]; exact dblJA3_ok h2 (a3_iff.1 h) hal hp
  · have : dblProg (curveF A B) = ecpDblJ := by simp [dblProg, h]
    rw [this]; exact dblJ_ok h2 hal hp

theorem dbla_ok (h2 : (2 : F) ≠ 0) {al : Al} (hal : al = .n ∨ al = .ca) {a : P2 F} {P : (Wc A B).Point}
    (ha : Rep2 A B a P) : Rep3 A B (dbla (curveF A B) al a) (P + P) := by
  obtain ⟨X, Y⟩ := a
  by_cases hy : Y = 0
  · subst hy
    obtain ⟨h, rfl⟩ := ha
    rw [add_self_y0 h rfl]; exact rep3_O (dblAJ_exec_y0 hal X)
  · rw [dblAJ_exec hal X Y hy]; exact dbla_math h2 ha hy

theorem neg_ok {al : Al} (hal : al = .n ∨ al = .ca) {p : P3 F} {P : (Wc A B).Point}
    (hp : Rep3 A B p P) : Rep3 A B (run1 (curveF A B) (fun b a _ => ecpNegJ b a) al p) (-P) := by
  obtain ⟨X, Y, Z⟩ := p
  rw [negJ_exec hal]
  by_cases hz : Z = 0
  · rw [rep3_z0 hp hz, neg_zero]; exact rep3_O hz
  · obtain ⟨h, rfl⟩ := rep3_nz hp hz
    exact rep3_of_rep2 hz (Rep2_of_eq (neg_some h) rfl (neg_div _ _).symm)

theorem froma_ok {al : Al} (hal : al = .n ∨ al = .ca) {a : P2 F} {P : (Wc A B).Point}
    (ha : Rep2 A B a P) : Rep3 A B (froma (curveF A B) al a) P := by
  obtain ⟨X, Y⟩ := a
  rw [fromAJ_exec hal]
  exact rep3_of_rep2 one_ne_zero (Rep2_of_eq ha (by simp) (by simp))

theorem toa_ok {al : Al} (hal : al = .n ∨ al = .ca) {p : P3 F} {P : (Wc A B).Point}
    (hp : Rep3 A B p P) :
    (toa (curveF A B) al p = none ↔ P = 0) ∧ ∀ b, toa (curveF A B) al p = some b → Rep2 A B b P := by
  obtain ⟨X, Y, Z⟩ := p
  by_cases hz : Z = 0
  · subst hz
    rw [toAJ_exec_z0 hal]
    exact ⟨⟨fun _ => rep3_z0 hp rfl, fun _ => rfl⟩, fun b hb => (by cases hb)⟩
  · rw [toAJ_exec hal X Y Z hz]
    obtain ⟨h, rfl⟩ := rep3_nz hp hz
    refine ⟨⟨fun hb => (by cases hb), fun hb => absurd hb (Affine.Point.some_ne_zero h)⟩, fun b hb => ?_⟩
    cases hb
    exact Rep2_of_eq ⟨h, rfl⟩ (by field_simp) (by field_simp)

theorem negA_ok {al : Al} (hal : al = .n ∨ al = .ca) {a : P2 F} {P : (Wc A B).Point}
    (ha : Rep2 A B a P) : Rep2 A B (negA (curveF A B) al a) (-P) := by
  obtain ⟨X, Y⟩ := a
  rw [negA_exec hal]
  obtain ⟨h, rfl⟩ := ha
  exact neg_some h

theorem isOnA_ok (a : P2 F) : isOnA (curveF A B) a = true ↔ a.2 ^ 2 = a.1 ^ 3 + A * a.1 + B := by
  obtain ⟨X, Y⟩ := a
  rw [isOnA_exec, decide_eq_true_eq]
  constructor <;> intro h <;> linear_combination -h

/-! ### `ecpIsOnA` on words -/

theorem isOnA_nat_exec (p A B x y : Nat) :
    isOnA (mkCurve (natFld p) A B) (x, y) = (((x * x + A) * x + B) % p == y * y % p) := by
  by_cases h : ((x * x + A) * x + B) % p = y * y % p <;>
  simp [isOnA, mkCurve, ecpIsOnA, Prog.run, Prog.block, Instr.exec, upd, put2, base,
    natFld, cX, cY, cZ, rA, rB, sc, sa, sk, h]

theorem isOnAW_ok (p : Nat) [Fact p.Prime] (A B x y : Nat) :
    isOnAW p (mkCurve (natFld p) A B) (x, y) = true ↔
      x < p ∧ y < p ∧ ((y : ZMod p) ^ 2 = (x : ZMod p) ^ 3 + A * x + B) := by
  unfold isOnAW
  by_cases hr : x < p ∧ y < p
  · simp only [hr, if_true, true_and, and_self]
    rw [isOnA_nat_exec, beq_iff_eq]
    rw [← ZMod.natCast_eq_natCast_iff']
    simp only [Nat.cast_add, Nat.cast_mul]
    constructor <;> intro h <;> linear_combination -h
  · simp only [hr, if_false]
    constructor
    · intro h; cases h
    · intro h; exact absurd ⟨h.1, h.2.1⟩ hr

/-! ### concrete points for the non-vacuity examples -/

/-- `(2, 3)` on `y² = x³ + 1` over `ℚ` -/
theorem ns23 : (Wc (0 : ℚ) 1).Nonsingular 2 3 := by rw [Wc_nonsingular]; norm_num

/-- `(-1, 0)`, a point of order two on `y² = x³ + 1` over `ℚ` -/
theorem nsm10 : (Wc (0 : ℚ) 1).Nonsingular (-1) 0 := by rw [Wc_nonsingular]; norm_num

/-- `(1, 1)` on `y² = x³ - 3x + 3` over `ℚ` (the `A = -3` case) -/
theorem ns11 : (Wc (-3 : ℚ) 3).Nonsingular 1 1 := by rw [Wc_nonsingular]; norm_num

theorem rep2_23 : Rep2 (0 : ℚ) 1 (2, 3) (.some 2 3 ns23) := ⟨ns23, rfl⟩
theorem rep2_m10 : Rep2 (0 : ℚ) 1 (-1, 0) (.some (-1) 0 nsm10) := ⟨nsm10, rfl⟩

/-- `(8 : 24 : 2)` is `(2, 3)` -/
theorem rep3_23 : Rep3 (0 : ℚ) 1 (8, 24, 2) (.some 2 3 ns23) :=
  rep3_of_rep2 (by norm_num) (Rep2_of_eq rep2_23 (by norm_num) (by norm_num))

/-- `(-4 : 0 : 2)` is `(-1, 0)` -/
theorem rep3_m10 : Rep3 (0 : ℚ) 1 (-4, 0, 2) (.some (-1) 0 nsm10) :=
  rep3_of_rep2 (by norm_num) (Rep2_of_eq rep2_m10 (by norm_num) (by norm_num))

/-- `(4 : 8 : 2)` is `(1, 1)` on the `A = -3` curve -/
theorem rep3_11 : Rep3 (-3 : ℚ) 3 (4, 8, 2) (.some 1 1 ns11) :=
  rep3_of_rep2 (by norm_num) (Rep2_of_eq ⟨ns11, rfl⟩ (by norm_num) (by norm_num))

theorem prime7 : Fact (Nat.Prime 7) := ⟨by norm_num⟩

end Bee2V.C06.Un

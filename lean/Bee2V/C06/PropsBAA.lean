/-
C06, stage 2 — property theorems for the affine routines `ec2AddAA`, `ec2SubAA` (ec2.c, binary curves
`y² + xy = x³ + Ax² + B` over a field of characteristic 2): for ALL pairs of curve points (chord,
tangent, inverse points, points of order 2 = `x = 0`) and every documented aliasing of the three
buffers (`.n` all distinct, `.cb` `c == b`, `.ab` `a == b`; the C asserts `a`, `c` disjoint) the routine
returns FALSE exactly when the result is `O` and otherwise writes the affine coordinates of the
sum / difference in Mathlib's group of points.
`addAA2 c = runAA c ec2AddAA`, `subAA2 c = runAA c ec2SubAA` (Wrap2.lean); `none` = FALSE.
The `…_extra` theorems: the undocumented patterns `c == a` (`.ca`, `.abc`) give the same results
(the routine saves `xa` in a temporary before it writes `xc`).
-/
import Bee2V.C06.LemmasBAA
import Mathlib.Algebra.Field.ZMod
import Bee2V.C06.LemmasBEx
namespace Bee2V.C06
open WeierstrassCurve
open Bee2V.C06.BEx (ns01 ns10 ns11)

-- `subAA2_same_none` keeps the hypothesis `RepB2 A B a P` of the common interface although its proof
-- does not need it
set_option linter.unusedVariables false
variable {F : Type} [Field F] [DecidableEq F] [CharP F 2] {A B : F}

/-- `ec2AddAA(c, a, b)`, `a` and `b` in different buffers (`c` distinct or `c == b`) -/
theorem addAA2_correct {al : Al} (hal : al = .n ∨ al = .cb)
    {a b : P2 F} {P Q : (Wb A B).Point} (ha : RepB2 A B a P) (hb : RepB2 A B b Q) :
    (addAA2 (curveB A B) al a b = none ↔ P + Q = 0) ∧
    ∀ r, addAA2 (curveB A B) al a b = some r → RepB2 A B r (P + Q) := by
  obtain ⟨x1, y1⟩ := a
  obtain ⟨x2, y2⟩ := b
  obtain ⟨h1, rfl⟩ := ha
  obtain ⟨h2, rfl⟩ := hb
  rw [addAA2, BAA.addAA_exec al (by rcases hal with h | h <;> simp [h])]
  exact BAA.addSpec_correct h1 h2

/-- `ec2AddAA(c, a, a)` (`a == b`, `c` distinct): doubling; FALSE iff `xa = 0` (order two) -/
theorem addAA2_same_correct {a : P2 F} {P : (Wb A B).Point} (ha : RepB2 A B a P) (b : P2 F) :
    (addAA2 (curveB A B) .ab a b = none ↔ P + P = 0) ∧
    ∀ r, addAA2 (curveB A B) .ab a b = some r → RepB2 A B r (P + P) := by
  obtain ⟨x1, y1⟩ := a
  obtain ⟨h1, rfl⟩ := ha
  rw [addAA2, BAA.addAA_exec_same .ab (.inl rfl)]
  exact BAA.dblSpec_correct h1

/-- `ec2SubAA(c, a, b)`, `a` and `b` in different buffers (`c` distinct or `c == b`); includes
    `a = -b`, where `a - b = 2a` is computed by the tangent at `a` (or FALSE if `xa = 0`) -/
theorem subAA2_correct {al : Al} (hal : al = .n ∨ al = .cb)
    {a b : P2 F} {P Q : (Wb A B).Point} (ha : RepB2 A B a P) (hb : RepB2 A B b Q) :
    (subAA2 (curveB A B) al a b = none ↔ P - Q = 0) ∧
    ∀ r, subAA2 (curveB A B) al a b = some r → RepB2 A B r (P - Q) := by
  obtain ⟨x1, y1⟩ := a
  obtain ⟨x2, y2⟩ := b
  obtain ⟨h1, rfl⟩ := ha
  obtain ⟨h2, rfl⟩ := hb
  rw [subAA2, BAA.subAA_exec al (by rcases hal with h | h <;> simp [h])]
  exact BAA.subSpec_correct h1 h2

/-- `ec2SubAA(c, a, a)` (`a == b`, `c` distinct) returns FALSE for every `a`: through `ya != yt` if
    `xa ≠ 0`, through the `xa == 0` test otherwise (then `ya == yt`) -/
theorem subAA2_same_none {a : P2 F} {P : (Wb A B).Point} (ha : RepB2 A B a P) (b : P2 F) :
    subAA2 (curveB A B) .ab a b = none := by
  rw [subAA2, BAA.subAA_exec_same .ab (.inl rfl)]

/-- `ec2SubAA(c, a, a)` in the common form: FALSE, and `P - P = 0` -/
theorem subAA2_same_correct {a : P2 F} {P : (Wb A B).Point} (ha : RepB2 A B a P) (b : P2 F) :
    (subAA2 (curveB A B) .ab a b = none ↔ P - P = 0) ∧
    ∀ r, subAA2 (curveB A B) .ab a b = some r → RepB2 A B r (P - P) :=
  BAA.of_none (subAA2_same_none ha b) (sub_self P)

/-! ## outside the precondition: `c == a` -/

/-- `ec2AddAA(a, a, b)` (`c == a`, excluded by the C's `ASSERT(wwIsDisjoint(a, c, 2 * n))`) happens to
    compute the same result -/
theorem addAA2_ca_extra {a b : P2 F} {P Q : (Wb A B).Point} (ha : RepB2 A B a P) (hb : RepB2 A B b Q) :
    (addAA2 (curveB A B) .ca a b = none ↔ P + Q = 0) ∧
    ∀ r, addAA2 (curveB A B) .ca a b = some r → RepB2 A B r (P + Q) := by
  obtain ⟨x1, y1⟩ := a
  obtain ⟨x2, y2⟩ := b
  obtain ⟨h1, rfl⟩ := ha
  obtain ⟨h2, rfl⟩ := hb
  rw [addAA2, BAA.addAA_exec .ca (by simp)]
  exact BAA.addSpec_correct h1 h2

/-- `ec2AddAA(a, a, a)` (`a == b == c`, outside the precondition): the same doubling -/
theorem addAA2_abc_extra {a : P2 F} {P : (Wb A B).Point} (ha : RepB2 A B a P) (b : P2 F) :
    (addAA2 (curveB A B) .abc a b = none ↔ P + P = 0) ∧
    ∀ r, addAA2 (curveB A B) .abc a b = some r → RepB2 A B r (P + P) := by
  obtain ⟨x1, y1⟩ := a
  obtain ⟨h1, rfl⟩ := ha
  rw [addAA2, BAA.addAA_exec_same .abc (.inr rfl)]
  exact BAA.dblSpec_correct h1

/-- `ec2SubAA(a, a, b)` (`c == a`, outside the precondition): the same result -/
theorem subAA2_ca_extra {a b : P2 F} {P Q : (Wb A B).Point} (ha : RepB2 A B a P) (hb : RepB2 A B b Q) :
    (subAA2 (curveB A B) .ca a b = none ↔ P - Q = 0) ∧
    ∀ r, subAA2 (curveB A B) .ca a b = some r → RepB2 A B r (P - Q) := by
  obtain ⟨x1, y1⟩ := a
  obtain ⟨x2, y2⟩ := b
  obtain ⟨h1, rfl⟩ := ha
  obtain ⟨h2, rfl⟩ := hb
  rw [subAA2, BAA.subAA_exec .ca (by simp)]
  exact BAA.subSpec_correct h1 h2

/-- `ec2SubAA(a, a, a)` (outside the precondition): FALSE -/
theorem subAA2_abc_extra {a : P2 F} {P : (Wb A B).Point} (ha : RepB2 A B a P) (b : P2 F) :
    (subAA2 (curveB A B) .abc a b = none ↔ P - P = 0) ∧
    ∀ r, subAA2 (curveB A B) .abc a b = some r → RepB2 A B r (P - P) :=
  BAA.of_none (by rw [subAA2, BAA.subAA_exec_same .abc (.inr rfl)]) (sub_self P)

/-! ## non-vacuity: `y² + xy = x³ + 1` over GF(2) = `ZMod 2`; the group is cyclic of order 4:
    `O`, `(1, 0)`, `2 (1, 0) = (0, 1)` (order two), `3 (1, 0) = (1, 1)` -/

section NonVacuity



/-- chord, `c == b`: `(0,1) + (1,0) = (1,1)` -/
example : ∃ (a b : P2 (ZMod 2)) (P Q : (Wb (0 : ZMod 2) 1).Point), RepB2 0 1 a P ∧ RepB2 0 1 b Q ∧
    addAA2 (curveB 0 1) .cb a b = some (1, 1) ∧ P + Q ≠ 0 :=
  have e : addAA2 (curveB (0 : ZMod 2) 1) .cb (0, 1) (1, 0) = some (1, 1) := by
    rw [addAA2, BAA.addAA_exec _ (by simp)]; simp [BAA.addSpec, BAA.chord]; decide
  ⟨(0, 1), (1, 0), _, _, ⟨ns01, rfl⟩, ⟨ns10, rfl⟩, e,
    fun h0 => by
      have := (addAA2_correct (.inr rfl) ⟨ns01, rfl⟩ ⟨ns10, rfl⟩).1.2 h0
      rw [e] at this; cases this⟩

/-- inverse points, all buffers distinct: `(1,0) + (1,1) = O`, FALSE -/
example : ∃ (a b : P2 (ZMod 2)) (P Q : (Wb (0 : ZMod 2) 1).Point), RepB2 0 1 a P ∧ RepB2 0 1 b Q ∧
    addAA2 (curveB 0 1) .n a b = none ∧ P + Q = 0 :=
  have e : addAA2 (curveB (0 : ZMod 2) 1) .n (1, 0) (1, 1) = none := by
    rw [addAA2, BAA.addAA_exec _ (by simp)]; simp [BAA.addSpec]
  ⟨(1, 0), (1, 1), _, _, ⟨ns10, rfl⟩, ⟨ns11, rfl⟩, e,
    (addAA2_correct (.inl rfl) ⟨ns10, rfl⟩ ⟨ns11, rfl⟩).1.1 e⟩

/-- doubling, `a == b`: `2 (1,0) = (0,1)`; a point of order two: `2 (0,1) = O`, FALSE -/
example : ∃ (a a' : P2 (ZMod 2)) (P P' : (Wb (0 : ZMod 2) 1).Point), RepB2 0 1 a P ∧ RepB2 0 1 a' P' ∧
    addAA2 (curveB 0 1) .ab a (1, 1) = some (0, 1) ∧ addAA2 (curveB 0 1) .ab a' (1, 1) = none ∧
    P + P ≠ 0 ∧ P' + P' = 0 :=
  have e : addAA2 (curveB (0 : ZMod 2) 1) .ab (1, 0) (1, 1) = some (0, 1) := by
    rw [addAA2, BAA.addAA_exec_same _ (by simp)]; simp [BAA.dblSpec, BAA.tang]; decide
  have e' : addAA2 (curveB (0 : ZMod 2) 1) .ab (0, 1) (1, 1) = none := by
    rw [addAA2, BAA.addAA_exec_same _ (by simp)]; simp [BAA.dblSpec]
  ⟨(1, 0), (0, 1), _, _, ⟨ns10, rfl⟩, ⟨ns01, rfl⟩, e, e',
    (fun h0 => by
      have := (addAA2_same_correct ⟨ns10, rfl⟩ (1, 1)).1.2 h0
      rw [e] at this; cases this),
    (addAA2_same_correct ⟨ns01, rfl⟩ (1, 1)).1.1 e'⟩

/-- subtraction: chord `(0,1) - (1,1) = (1,1)`; `a = -b`: `(1,0) - (1,1) = 2 (1,0) = (0,1)`;
    `a = b` in different buffers: FALSE -/
example : ∃ (a b a' : P2 (ZMod 2)) (P Q P' : (Wb (0 : ZMod 2) 1).Point),
    RepB2 0 1 a P ∧ RepB2 0 1 b Q ∧ RepB2 0 1 a' P' ∧
    subAA2 (curveB 0 1) .n a b = some (1, 1) ∧ subAA2 (curveB 0 1) .cb a' b = some (0, 1) ∧
    subAA2 (curveB 0 1) .cb b b = none :=
  ⟨(0, 1), (1, 1), (1, 0), _, _, _, ⟨ns01, rfl⟩, ⟨ns11, rfl⟩, ⟨ns10, rfl⟩,
    by rw [subAA2, BAA.subAA_exec _ (by simp)]; simp [BAA.subSpec, BAA.addSpec, BAA.chord]; decide,
    by rw [subAA2, BAA.subAA_exec _ (by simp)]; simp [BAA.subSpec, BAA.addSpec, BAA.tang]; decide,
    by rw [subAA2, BAA.subAA_exec _ (by simp)]; simp [BAA.subSpec, BAA.addSpec]⟩

/-- `ec2SubAA(c, a, a)`: hypotheses satisfiable (a point with `xa ≠ 0` and the point of order two) -/
example : ∃ (a a' : P2 (ZMod 2)) (P P' : (Wb (0 : ZMod 2) 1).Point), RepB2 0 1 a P ∧ RepB2 0 1 a' P' ∧
    subAA2 (curveB 0 1) .ab a (1, 1) = none ∧ subAA2 (curveB 0 1) .ab a' (1, 1) = none :=
  ⟨(1, 0), (0, 1), _, _, ⟨ns10, rfl⟩, ⟨ns01, rfl⟩,
    subAA2_same_none ⟨ns10, rfl⟩ _, subAA2_same_none ⟨ns01, rfl⟩ _⟩

/-- the `…_extra` statements: `c == a`, `(0,1) + (1,0) = (1,1)` -/
example : ∃ (a b : P2 (ZMod 2)) (P Q : (Wb (0 : ZMod 2) 1).Point), RepB2 0 1 a P ∧ RepB2 0 1 b Q ∧
    addAA2 (curveB 0 1) .ca a b = some (1, 1) :=
  ⟨(0, 1), (1, 0), _, _, ⟨ns01, rfl⟩, ⟨ns10, rfl⟩, by
    rw [addAA2, BAA.addAA_exec _ (by simp)]; simp [BAA.addSpec, BAA.chord]; decide⟩

end NonVacuity

end Bee2V.C06

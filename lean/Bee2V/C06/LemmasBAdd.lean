/-
C06, stage 2 — ec2AddLD: symbolic execution of `run2 (curveB A B) ec2AddLD al` per branch and aliasing.
Closed forms: `addG` (generic branch, add-2005-dl) and `dblG` (the fall-through `ec2DblLD(c, a, …)`, whose
three arms `A = 1`, `A = 0`, general all give `X₃ = C² + D + A·Z₃`).
-/
import Bee2V.C06.Spec2
import Mathlib.Tactic.Ring
import Mathlib.Tactic.FieldSimp
import Mathlib.Tactic.LinearCombination
namespace Bee2V.C06.BAdd
open WeierstrassCurve
set_option linter.unusedSimpArgs false
set_option linter.unusedVariables false
set_option linter.unusedSectionVars false
variable {F : Type} [Field F] [DecidableEq F] [CharP F 2] {A B : F}

/-- `A' = X₁Z₂` / `B' = X₂Z₁` as the program computes them -/
def aa (X Z : F) : F := X * Z
/-- `G = Y₁Z₂²` / `H = Y₂Z₁²` as the program computes them -/
def gg (Y Z : F) : F := Z * Z * Y

/-- closed form of the generic branch of `ec2AddLD` -/
def addG (X1 Y1 Z1 X2 Y2 Z2 : F) : P3 F :=
  let A' := X1 * Z2
  let B' := X2 * Z1
  let G := Z2 * Z2 * Y1
  let H := Z1 * Z1 * Y2
  let J := (A' + B') * (G + H)
  let F' := A' * A' + B' * B'
  let Z3 := F' * (Z1 * Z2)
  let X3 := B' * (A' * A' + G) + A' * (H + B' * B')
  (X3, (J + Z3) * X3 + (A' * J + G * F') * F', Z3)

/-- closed form of the generic branch of `ec2DblLD` -/
def dblG (A X Y Z : F) : P3 F :=
  let Z3 := X * Z * (X * Z)
  let C := Y + X * X
  let D := X * Z * C
  let X3 := C * C + D + A * Z3
  (X3, X * X * (X * X) * Z3 + (D + Z3) * X3, Z3)

/-- reading a store after a write (used instead of unfolding `upd`: much cheaper proof terms) -/
theorem get_upd {G : Type} (st : Store G) (d : Nat) (v : G) (i : Nat) :
    (upd st d v).get i = if i = d then v else st.get i := rfl

macro "exec_simp" "[" ts:Lean.Parser.Tactic.simpLemma,* "]" : tactic =>
  `(tactic| simp [run2, curveB, mkCurve2, ec2AddLD, ec2SubLD, ec2DblLD, ec2DblLDTail, Prog.run, Prog.block,
      Instr.exec, get_upd, get3, fieldFld, cX, cY, cZ, rA, rB, sc, sa, sb, sk, slotA, slotB, put3, base, aa, gg, $ts,*])

/-- close a goal `(x, y, z) = addG …`/`dblG …` that is not syntactically the closed form -/
macro "close_form" : tactic =>
  `(tactic| first
    | done
    | (simp only [addG, dblG]; done)
    | (simp [addG, dblG]; done)
    | (simp only [addG, dblG, Prod.mk.injEq]; refine ⟨?_, ?_, ?_⟩ <;> ring))

theorem add_exec_aO {al : Al} (hal : al = .n ∨ al = .ca ∨ al = .cb) (X1 Y1 Z1 X2 Y2 Z2 : F) (h1 : Z1 = 0) :
    run2 (curveB A B) ec2AddLD al (X1, Y1, Z1) (X2, Y2, Z2) = (X2, Y2, Z2) := by
  subst h1
  rcases hal with rfl | rfl | rfl <;> exec_simp []

theorem add_exec_bO {al : Al} (hal : al = .n ∨ al = .ca ∨ al = .cb) (X1 Y1 Z1 X2 Y2 Z2 : F) (h1 : Z1 ≠ 0)
    (h2 : Z2 = 0) :
    run2 (curveB A B) ec2AddLD al (X1, Y1, Z1) (X2, Y2, Z2) = (X1, Y1, Z1) := by
  subst h2
  rcases hal with rfl | rfl | rfl <;> exec_simp [h1]

theorem add_exec_gen {al : Al} (hal : al = .n ∨ al = .ca ∨ al = .cb) (X1 Y1 Z1 X2 Y2 Z2 : F)
    (h1 : Z1 ≠ 0) (h2 : Z2 ≠ 0) (hA : aa X1 Z2 ≠ aa X2 Z1) :
    run2 (curveB A B) ec2AddLD al (X1, Y1, Z1) (X2, Y2, Z2) = addG X1 Y1 Z1 X2 Y2 Z2 := by
  unfold aa at hA
  rcases hal with rfl | rfl | rfl <;> exec_simp [h1, h2, hA] <;> close_form

theorem add_exec_opp {al : Al} (hal : al = .n ∨ al = .ca ∨ al = .cb) (X1 Y1 Z1 X2 Y2 Z2 : F)
    (h1 : Z1 ≠ 0) (h2 : Z2 ≠ 0) (hA : aa X1 Z2 = aa X2 Z1) (hG : gg Y1 Z2 ≠ gg Y2 Z1) :
    (run2 (curveB A B) ec2AddLD al (X1, Y1, Z1) (X2, Y2, Z2)).2.2 = 0 := by
  unfold aa at hA; unfold gg at hG
  rcases hal with rfl | rfl | rfl <;> exec_simp [h1, h2, hA, hG]

/-- `a = b` as points, `x = 0`: `ec2DblLD(c, a)` returns `O` -/
theorem add_exec_eq0 {al : Al} (hal : al = .n ∨ al = .ca ∨ al = .cb) (X1 Y1 Z1 X2 Y2 Z2 : F)
    (h1 : Z1 ≠ 0) (h2 : Z2 ≠ 0) (hA : aa X1 Z2 = aa X2 Z1) (hG : gg Y1 Z2 = gg Y2 Z1) (hX : X1 = 0) :
    (run2 (curveB A B) ec2AddLD al (X1, Y1, Z1) (X2, Y2, Z2)).2.2 = 0 := by
  subst hX; unfold aa at hA; unfold gg at hG
  rcases hal with rfl | rfl | rfl <;> exec_simp [h1, h2, hA, hG]

/-- `a = b` as points, `x ≠ 0`: `ec2DblLD(c, a)` (in place for `c == a`), all three arms of the branch on `A` -/
theorem add_exec_eq {al : Al} (hal : al = .n ∨ al = .ca ∨ al = .cb) (X1 Y1 Z1 X2 Y2 Z2 : F)
    (h1 : Z1 ≠ 0) (h2 : Z2 ≠ 0) (hA : aa X1 Z2 = aa X2 Z1) (hG : gg Y1 Z2 = gg Y2 Z1) (hX : X1 ≠ 0) :
    run2 (curveB A B) ec2AddLD al (X1, Y1, Z1) (X2, Y2, Z2) = dblG A X1 Y1 Z1 := by
  unfold aa at hA; unfold gg at hG
  by_cases hA1 : A = 1
  · subst hA1
    rcases hal with rfl | rfl | rfl <;> exec_simp [h1, h2, hA, hG, hX] <;> close_form
  by_cases hA0 : A = 0
  · subst hA0
    rcases hal with rfl | rfl | rfl <;> exec_simp [h1, h2, hA, hG, hX] <;> close_form
  rcases hal with rfl | rfl | rfl <;> exec_simp [h1, h2, hA, hG, hX, hA1, hA0] <;> close_form

/-! `a == b` (`.ab`): the second value argument is ignored -/
theorem add_exec_ab_O (X1 Y1 Z1 : F) (q : P3 F) (h1 : Z1 = 0) :
    (run2 (curveB A B) ec2AddLD .ab (X1, Y1, Z1) q).2.2 = 0 := by
  subst h1
  exec_simp []

theorem add_exec_ab_0 (X1 Y1 Z1 : F) (q : P3 F) (h1 : Z1 ≠ 0) (hX : X1 = 0) :
    (run2 (curveB A B) ec2AddLD .ab (X1, Y1, Z1) q).2.2 = 0 := by
  subst hX
  exec_simp [h1]

theorem add_exec_ab (X1 Y1 Z1 : F) (q : P3 F) (h1 : Z1 ≠ 0) (hX : X1 ≠ 0) :
    run2 (curveB A B) ec2AddLD .ab (X1, Y1, Z1) q = dblG A X1 Y1 Z1 := by
  by_cases hA1 : A = 1
  · subst hA1
    exec_simp [h1, hX]; close_form
  by_cases hA0 : A = 0
  · subst hA0
    exec_simp [h1, hX]; close_form
  exec_simp [h1, hX, hA1, hA0]; close_form

end Bee2V.C06.BAdd

/-
C06 — NAF layer, part 1: `bitSize`/shift facts, the digit decoder `decode` (mirrors the reading order of
`ecMulA`: odd code ⇒ digit of `w` bits, even ⇒ zero digit of 1 bit), `sval`, `nafVal`, push lemmas, and the
four arithmetic cases of one `wwNAF` iteration (`nafStep_cases`).
-/
import Bee2V.C06.Mul
import Mathlib.Tactic.Ring
import Mathlib.Tactic.Linarith
import Mathlib.Tactic.LinearCombination
namespace Bee2V.C06.MulL
open Bee2V.C06

theorem bitSize_le_iff (n k : Nat) : bitSize n ≤ k ↔ n < 2 ^ k := by
  unfold bitSize
  split
  · subst n; simp
  · rename_i h
    rw [Nat.succ_le_iff, Nat.log2_lt h]

theorem lt_two_pow_bitSize (n : Nat) : n < 2 ^ bitSize n := (bitSize_le_iff n _).1 (Nat.le_refl _)

theorem bitSize_pos {n : Nat} (h : n ≠ 0) : 0 < bitSize n := by
  unfold bitSize; simp [h]

theorem bitSize_half_lt {n : Nat} (h : n ≠ 0) : bitSize (n / 2) < bitSize n := by
  have h1 := lt_two_pow_bitSize n
  have h2 := bitSize_pos h
  obtain ⟨k, hk⟩ : ∃ k, bitSize n = k + 1 := ⟨bitSize n - 1, by omega⟩
  rw [hk] at h1 ⊢
  have : bitSize (n / 2) ≤ k := by
    rw [bitSize_le_iff]; rw [Nat.pow_succ] at h1; omega
  omega

theorem shr_eq_zero_iff (d i : Nat) : d >>> i = 0 ↔ bitSize d ≤ i := by
  rw [Nat.shiftRight_eq_div_pow, Nat.div_eq_zero_iff, bitSize_le_iff]
  simp

theorem testBit_lt_bitSize {d i : Nat} (h : d.testBit i = true) : i < bitSize d := by
  have := Nat.ge_two_pow_of_testBit h
  by_contra hc
  have := (bitSize_le_iff d i).1 (by omega)
  omega

/-- `d >>> i = bit_i + 2 (d >>> (i+1))` -/
theorem shr_succ (d i : Nat) : d >>> i = (if d.testBit i then 1 else 0) + 2 * (d >>> (i + 1)) := by
  rw [Nat.testBit_eq_decide_div_mod_eq, Nat.shiftRight_eq_div_pow, Nat.shiftRight_eq_div_pow,
    Nat.pow_succ, ← Nat.div_div_eq_div_mul]
  generalize d / 2 ^ i = x
  by_cases h : x % 2 = 1 <;> simp [h] <;> omega


/-! ### digit codes and the decoder (mirrors the reading order of `ecMulA`) -/

/-- signed value of a digit code of width `w` -/
def sval (w c : Nat) : Int := if c < 2 ^ (w - 1) then (c : Int) else -((c - 2 ^ (w - 1) : Nat) : Int)

/-- digits of the packed `naf`, most significant first: `k` digits from bit position `i` -/
def decode (w naf : Nat) : Nat → Nat → List Int
  | 0, _ => []
  | k + 1, i =>
    let c := getBits naf i w
    if c % 2 = 1 then sval w c :: decode w naf k (i + w) else 0 :: decode w naf k (i + 1)

/-- value of a most-significant-first digit list -/
def nafVal : List Int → Int
  | [] => 0
  | e :: L => e * 2 ^ L.length + nafVal L

theorem decode_length (w naf k i : Nat) : (decode w naf k i).length = k := by
  induction k generalizing i with
  | zero => rfl
  | succ k ih => unfold decode; simp only []; split <;> simp [ih]

theorem getBits_shift (naf s c i w : Nat) (hc : c < 2 ^ s) :
    getBits (naf * 2 ^ s + c) (i + s) w = getBits naf i w := by
  unfold getBits
  rw [Nat.add_comm i s, Nat.shiftRight_add, Nat.shiftRight_eq_div_pow (naf * 2 ^ s + c)]
  have : (naf * 2 ^ s + c) / 2 ^ s = naf := by
    rw [Nat.mul_comm, Nat.mul_add_div (by positivity), Nat.div_eq_of_lt hc]; rfl
  rw [this]

theorem decode_shift (w naf s c : Nat) (hc : c < 2 ^ s) (k i : Nat) :
    decode w (naf * 2 ^ s + c) k (i + s) = decode w naf k i := by
  induction k generalizing i with
  | zero => rfl
  | succ k ih =>
    unfold decode
    simp only [getBits_shift _ _ _ _ _ hc]
    rw [Nat.add_right_comm i s w, Nat.add_right_comm i s 1, ih, ih]

theorem getBits_zero_lo (naf w c : Nat) (hc : c < 2 ^ w) : getBits (naf * 2 ^ w + c) 0 w = c := by
  unfold getBits
  rw [Nat.shiftRight_zero, Nat.mul_comm, Nat.mul_add_mod, Nat.mod_eq_of_lt hc]

/-- pushing a non-zero digit code at the low end -/
theorem decode_push (w naf c k : Nat) (hc : c < 2 ^ w) (hodd : c % 2 = 1) :
    decode w (naf * 2 ^ w + c) (k + 1) 0 = sval w c :: decode w naf k 0 := by
  conv => lhs; unfold decode
  simp only [getBits_zero_lo _ _ _ hc, hodd, if_true]
  rw [decode_shift w naf w c hc k 0]

/-- pushing a zero digit at the low end -/
theorem decode_push0 (w naf k : Nat) (hw : 1 ≤ w) :
    decode w (naf * 2) (k + 1) 0 = 0 :: decode w naf k 0 := by
  conv => lhs; unfold decode
  have h0 : getBits (naf * 2) 0 w % 2 = 0 := by
    unfold getBits
    rw [Nat.shiftRight_zero, Nat.mod_mod_of_dvd _ (dvd_pow_self 2 (by omega))]; omega
  have := decode_shift w naf 1 0 (by norm_num) k 0
  simp only [pow_one, Nat.add_zero] at this
  simp [h0, this]

/-! ### one iteration of `wwNAF` -/

theorem two_pow_split {w : Nat} (hw : 2 ≤ w) :
    2 ^ w = 2 * 2 ^ (w - 1) ∧ 2 ^ (w - 1) = 2 * 2 ^ (w - 2) ∧ 0 < 2 ^ (w - 2) := by
  obtain ⟨v, rfl⟩ : ∃ v, w = v + 2 := ⟨w - 2, by omega⟩
  refine ⟨?_, ?_, by positivity⟩
  · rw [show v + 2 - 1 = v + 1 by omega, Nat.pow_succ]; omega
  · rw [show v + 2 - 1 = v + 1 by omega, show v + 2 - 2 = v by omega, Nat.pow_succ]; omega

/-- the bit shifted into the window -/
def inBit (a alen i H : Nat) : Nat := if i < alen ∧ a.testBit i = true then H else 0

/-- the four cases of one `wwNAF` iteration, in arithmetic form (`H = 2^(w-1)`) -/
theorem nafStep_cases (a alen i : Nat) {w : Nat} (hw : 2 ≤ w) (st : NafSt) (hwin : st.window ≤ 2 ^ w)
    (H : Nat) (hHdef : H = 2 ^ (w - 1)) :
    (st.window % 2 = 0 ∧
      nafStep a w alen i st = ⟨st.window / 2 + inBit a alen i H, st.naf * 2, st.size + 1⟩) ∨
    (st.window % 2 = 1 ∧ st.window < H ∧
      nafStep a w alen i st = ⟨inBit a alen i H, st.naf * 2 ^ w + st.window, st.size + 1⟩) ∨
    (st.window % 2 = 1 ∧ H ≤ st.window ∧ i < alen ∧
      nafStep a w alen i st =
        ⟨H + inBit a alen i H, st.naf * 2 ^ w + (3 * H - st.window), st.size + 1⟩) ∨
    (st.window % 2 = 1 ∧ H ≤ st.window ∧ alen ≤ i ∧
      nafStep a w alen i st =
        ⟨H / 2 + inBit a alen i H, st.naf * 2 ^ w + (st.window - H), st.size + 1⟩) := by
  obtain ⟨h1, h2, h3⟩ := two_pow_split hw
  rw [← hHdef] at h1 h2
  have hH : 2 ^ w / 2 = H := by omega
  by_cases hodd : st.window % 2 = 1
  · have hlt : st.window < 2 ^ w := by
      rcases Nat.lt_or_ge st.window (2 ^ w) with h | h
      · exact h
      · have : st.window = 2 ^ w := by omega
        rw [this, h1] at hodd; omega
    by_cases hge : H ≤ st.window
    · have hmod : st.window % H = st.window - H := by
        rw [Nat.mod_eq_sub_mod hge, Nat.mod_eq_of_lt (by omega)]
      by_cases hi : i < alen
      · right; right; left
        refine ⟨hodd, hge, hi, ?_⟩
        have hm2 : (H - (st.window - H)) % H = H - (st.window - H) := by
          apply Nat.mod_eq_of_lt
          have : st.window ≠ H := by intro h; rw [h] at hodd; omega
          omega
        simp only [nafStep, inBit, hodd, if_true, Nat.mod_eq_of_lt hlt, hH, hge, ge_iff_le,
          Nat.not_le.2 hi, if_false, hmod, hm2]
        congr 2; omega
      · right; right; right
        refine ⟨hodd, hge, Nat.not_lt.1 hi, ?_⟩
        simp only [nafStep, inBit, hodd, if_true, Nat.mod_eq_of_lt hlt, hH, hge, ge_iff_le,
          Nat.not_lt.1 hi, hmod]
    · right; left
      refine ⟨hodd, Nat.not_le.1 hge, ?_⟩
      simp only [nafStep, inBit, hodd, if_true, Nat.mod_eq_of_lt hlt, hH, hge, ge_iff_le, if_false]
      congr 1; omega
  · left
    refine ⟨by omega, ?_⟩
    simp only [nafStep, inBit, hodd, if_false, hH]

end Bee2V.C06.MulL

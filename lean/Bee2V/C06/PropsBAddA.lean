/-
C06, stage 2 — property theorems: mixed addition / subtraction on binary curves `ec2AddALD`, `ec2SubALD`
(madd-2005-dl; Lopez–Dahab `a`, affine `b`) return the group-law result of Mathlib's `(Wb A B).Point` for
ALL inputs — `a = O`, `a = b` (fall-through to `ec2DblALD(c, b)`, including `xb = 0`), `a = −b`, generic —
for each arm of the three-way branch on the coefficient `A` (`A = 1`, `A = 0`, else) and for the aliasings
`.n` (distinct buffers), `.ca` (`c == a`), `.cb` (`c == b`, the affine `b` at the start of `c`).
-/
import Bee2V.C06.LemmasBAddA2
import Mathlib.Algebra.Field.ZMod
import Bee2V.C06.LemmasBEx
namespace Bee2V.C06
open WeierstrassCurve
open Bee2V.C06.BEx (ns01 ns10 ns11 rep10 rep01)

set_option linter.unusedSectionVars false
variable {F : Type} [Field F] [DecidableEq F] [CharP F 2] {A B : F}

/-- `ec2AddALD`: `c <- a + b` in the group of points, in every special case and under every aliasing -/
theorem addaB_correct {al : Al} {p : P3 F} {q : P2 F} {P Q : (Wb A B).Point}
    (hal : al = .n ∨ al = .ca ∨ al = .cb) (hp : RepB3 A B p P) (hq : RepB2 A B q Q) :
    RepB3 A B ((ecOps2 (curveB A B)).adda al p q) (P + Q) :=
  BAddA.spec_correct (BAddA.add_spec hal p q) hp hq

/-- `ec2SubALD`: `c <- a - b` in the group of points, in every special case and under every aliasing -/
theorem subaB_correct {al : Al} {p : P3 F} {q : P2 F} {P Q : (Wb A B).Point}
    (hal : al = .n ∨ al = .ca ∨ al = .cb) (hp : RepB3 A B p P) (hq : RepB2 A B q Q) :
    RepB3 A B ((ecOps2 (curveB A B)).suba al p q) (P - Q) := by
  obtain ⟨h, rfl⟩ := hq
  rw [sub_eq_add_neg]
  exact BAddA.spec_correct (BAddA.sub_spec hal p q) hp (RepB2_of_eq (negB_some h) rfl (add_comm _ _))

/-! ### non-vacuity: `y² + xy = x³ + 1` over GF(2) = `ZMod 2`; the group is cyclic of order 4:
    `O`, `(1, 0) = (1 : 0 : 1)`, `2 (1, 0) = (0, 1)` (order two), `3 (1, 0) = (1, 1)` -/

section NonVacuity



/-- `adda`: chord `(1,0) + (0,1) = (1,1)` with `c == b`; doubling `(1,0) + (1,0) = (0,1)` with `c == a`;
    `(1,0) + (1,1) = O`; doubling of the point of order two `(0,1) + (0,1) = O` with `c == b`; `O + (0,1)` -/
example : ∃ (p p' : P3 (ZMod 2)) (q q' q'' : P2 (ZMod 2)) (P P' Q Q' Q'' : (Wb (0 : ZMod 2) 1).Point),
    RepB3 0 1 p P ∧ RepB3 0 1 p' P' ∧ RepB2 0 1 q Q ∧ RepB2 0 1 q' Q' ∧ RepB2 0 1 q'' Q'' ∧
    (ecOps2 (curveB 0 1)).adda .cb p q = (1, 1, 1) ∧
    (ecOps2 (curveB 0 1)).adda .ca p q' = (0, 1, 1) ∧
    ((ecOps2 (curveB 0 1)).adda .n p q'').2.2 = 0 ∧ P + Q'' = 0 ∧
    ((ecOps2 (curveB 0 1)).adda .cb p' q).2.2 = 0 ∧ P' + Q = 0 ∧
    (ecOps2 (curveB 0 1)).adda .ca (1, 1, 0) q = (0, 1, 1) :=
  ⟨(1, 0, 1), (0, 1, 1), (0, 1), (1, 0), (1, 1), _, _, _, _, _, rep10, rep01, ⟨ns01, rfl⟩, ⟨ns10, rfl⟩,
    ⟨ns11, rfl⟩,
    by rw [show (ecOps2 (curveB (0 : ZMod 2) 1)).adda = run2A _ ec2AddALD from rfl,
        BAddA.add_gen (.inr (.inr rfl)) _ _ _ _ _ (by decide) (by decide)]
       decide,
    by rw [show (ecOps2 (curveB (0 : ZMod 2) 1)).adda = run2A _ ec2AddALD from rfl,
        BAddA.add_dbl (.inr (.inl rfl)) _ _ _ _ _ (by decide) (by decide) (by decide) (by decide)]
       decide,
    BAddA.add_inv (.inl rfl) _ _ _ _ _ (by decide) (by decide) (by decide),
    addB_inverse ns10 ns11 rfl (by decide),
    BAddA.add_dbl0 (.inr (.inr rfl)) _ _ _ _ (by decide) (by decide) (by decide),
    addB_order2 ns01,
    BAddA.add_o (.inr (.inl rfl)) ..⟩

/-- `suba`: `(1,0) - (0,1) = (1,1)` with `c == b`; `(1,0) - (1,1) = 2 (1,0) = (0,1)` with `c == a`;
    `(1,0) - (1,0) = O`; `O - (1,0) = (1,1)` -/
example : ∃ (p : P3 (ZMod 2)) (q q' q'' : P2 (ZMod 2)) (P Q Q' Q'' : (Wb (0 : ZMod 2) 1).Point),
    RepB3 0 1 p P ∧ RepB2 0 1 q Q ∧ RepB2 0 1 q' Q' ∧ RepB2 0 1 q'' Q'' ∧
    (ecOps2 (curveB 0 1)).suba .cb p q = (1, 1, 1) ∧
    (ecOps2 (curveB 0 1)).suba .ca p q' = (0, 1, 1) ∧
    ((ecOps2 (curveB 0 1)).suba .n p q'').2.2 = 0 ∧ P - Q'' = 0 ∧
    (ecOps2 (curveB 0 1)).suba .ca (1, 1, 0) q'' = (1, 1, 1) :=
  ⟨(1, 0, 1), (0, 1), (1, 1), (1, 0), _, _, _, _, rep10, ⟨ns01, rfl⟩, ⟨ns11, rfl⟩, ⟨ns10, rfl⟩,
    by rw [show (ecOps2 (curveB (0 : ZMod 2) 1)).suba = run2A _ ec2SubALD from rfl,
        BAddA.sub_gen (.inr (.inr rfl)) _ _ _ _ _ (by decide) (by decide)]
       decide,
    by rw [show (ecOps2 (curveB (0 : ZMod 2) 1)).suba = run2A _ ec2SubALD from rfl,
        BAddA.sub_dbl (.inr (.inl rfl)) _ _ _ _ _ (by decide) (by decide) (by decide) (by decide)]
       decide,
    BAddA.sub_inv (.inl rfl) _ _ _ _ _ (by decide) (by decide) (by decide),
    sub_self _,
    by rw [show (ecOps2 (curveB (0 : ZMod 2) 1)).suba = run2A _ ec2SubALD from rfl,
        BAddA.sub_o (.inr (.inl rfl))]
       decide⟩

end NonVacuity

end Bee2V.C06

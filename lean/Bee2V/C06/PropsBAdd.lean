/-
C06, stage 2 — property theorems for `ec2AddLD` / `ec2SubLD` (`ec->add`, `ec->sub` of `ec2CreateLD`).

For every pair of Lopez–Dahab triples that stand for points `P`, `Q` of `y² + xy = x³ + Ax² + B` over a field of
characteristic 2 (including `O`, `P = Q` in different representations — the fall-through `ec2DblLD(c, a, …)` with
its three-way branch on `A` —, points of order two `x = 0`, `P = −Q`) and for every aliasing of the output with an
input that the header allows, the program returns a triple that stands for Mathlib's `P + Q` resp. `P − Q`.
-/
import Bee2V.C06.LemmasBAdd5
namespace Bee2V.C06
open WeierstrassCurve
set_option linter.unusedVariables false
set_option linter.unusedSectionVars false
variable {F : Type} [Field F] [DecidableEq F] [CharP F 2] {A B : F}

/-- `ec2AddLD(c, a, b)`, `a`, `b` in different buffers; `c` distinct, `c == a` or `c == b` -/
theorem addB_correct {al : Al} {p q : P3 F} {P Q : (Wb A B).Point}
    (hal : al = .n ∨ al = .ca ∨ al = .cb) (hp : RepB3 A B p P) (hq : RepB3 A B q Q) :
    RepB3 A B ((ecOps2 (curveB A B)).add al p q) (P + Q) :=
  BAdd.add_ok hal hp hq

/-- `ec2AddLD(c, a, a)`: the doubling fall-through (the value `q` is not placed in the store) -/
theorem addB_ab_correct {p : P3 F} {P : (Wb A B).Point} (hp : RepB3 A B p P) (q : P3 F) :
    RepB3 A B ((ecOps2 (curveB A B)).add .ab p q) (P + P) :=
  BAdd.add_ab_ok hp q

/-- `ec2SubLD(c, a, b)` -/
theorem subB_correct {al : Al} {p q : P3 F} {P Q : (Wb A B).Point}
    (hal : al = .n ∨ al = .ca ∨ al = .cb) (hp : RepB3 A B p P) (hq : RepB3 A B q Q) :
    RepB3 A B ((ecOps2 (curveB A B)).sub al p q) (P - Q) :=
  BAdd.sub_ok hal hp hq

/-- `ec2SubLD(c, a, a)` is `O` (in fact for every triple `p`, see `BAdd.sub_ab_ok`) -/
theorem subB_ab_correct {p : P3 F} {P : (Wb A B).Point} (hp : RepB3 A B p P) (q : P3 F) :
    RepB3 A B ((ecOps2 (curveB A B)).sub .ab p q) 0 :=
  BAdd.sub_ab_ok p q

/-! Non-vacuity: `y² + xy = x³ + 1` over `GF(2)`, the points `(1, 0)`, `(1, 1) = −(1, 0)` and `(0, 1)` of
    order two. -/

/-- generic branch, `c == a` -/
example : RepB3 (0 : ZMod 2) 1 ((ecOps2 (curveB (0 : ZMod 2) 1)).add .ca (1, 0, 1) (0, 1, 1))
    (.some 1 0 BAdd.ns10 + .some 0 1 BAdd.ns01) :=
  addB_correct (Or.inr (Or.inl rfl)) BAdd.rep10 BAdd.rep01
/-- equal points in different buffers, `c == b`: the fall-through doubles `a` -/
example : RepB3 (0 : ZMod 2) 1 ((ecOps2 (curveB (0 : ZMod 2) 1)).add .cb (1, 0, 1) (1, 0, 1))
    (.some 1 0 BAdd.ns10 + .some 1 0 BAdd.ns10) :=
  addB_correct (Or.inr (Or.inr rfl)) BAdd.rep10 BAdd.rep10
/-- opposite points -/
example : RepB3 (0 : ZMod 2) 1 ((ecOps2 (curveB (0 : ZMod 2) 1)).add .n (1, 0, 1) (1, 1, 1))
    (.some 1 0 BAdd.ns10 + .some 1 1 BAdd.ns11) :=
  addB_correct (Or.inl rfl) BAdd.rep10 BAdd.rep11
/-- `O + Q` -/
example : RepB3 (0 : ZMod 2) 1 ((ecOps2 (curveB (0 : ZMod 2) 1)).add .n (1, 0, 0) (1, 1, 1))
    (0 + .some 1 1 BAdd.ns11) :=
  addB_correct (Or.inl rfl) BAdd.repO BAdd.rep11
/-- `a == b`, a point of order two -/
example : RepB3 (0 : ZMod 2) 1 ((ecOps2 (curveB (0 : ZMod 2) 1)).add .ab (0, 1, 1) (0, 0, 0))
    (.some 0 1 BAdd.ns01 + .some 0 1 BAdd.ns01) :=
  addB_ab_correct BAdd.rep01 _
example : RepB3 (0 : ZMod 2) 1 ((ecOps2 (curveB (0 : ZMod 2) 1)).sub .cb (1, 0, 1) (0, 1, 1))
    (.some 1 0 BAdd.ns10 - .some 0 1 BAdd.ns01) :=
  subB_correct (Or.inr (Or.inr rfl)) BAdd.rep10 BAdd.rep01
/-- `P − (−P)`: the fall-through of `ec2AddLD` inside `ec2SubLD` -/
example : RepB3 (0 : ZMod 2) 1 ((ecOps2 (curveB (0 : ZMod 2) 1)).sub .ca (1, 0, 1) (1, 1, 1))
    (.some 1 0 BAdd.ns10 - .some 1 1 BAdd.ns11) :=
  subB_correct (Or.inr (Or.inl rfl)) BAdd.rep10 BAdd.rep11
example : RepB3 (0 : ZMod 2) 1 ((ecOps2 (curveB (0 : ZMod 2) 1)).sub .ab (1, 0, 1) (0, 0, 0)) 0 :=
  subB_ab_correct BAdd.rep10 _

end Bee2V.C06

/-
C06, stage 2 — ec2AddLD/ec2SubLD: the closed forms represent chord and tangent sums; assembly.
`add_core` is the case analysis of the group law against the branch behaviour of the program (stated
abstractly over the result `r`); `add_ok`, `sub_ok`, `add_ab_ok`, `sub_ab_ok` instantiate it with the execution
lemmas for each aliasing.
-/
import Bee2V.C06.LemmasBAdd3
namespace Bee2V.C06.BAdd
open WeierstrassCurve
set_option linter.unusedSimpArgs false
set_option linter.unusedVariables false
set_option linter.unusedSectionVars false
variable {F : Type} [Field F] [DecidableEq F] [CharP F 2] {A B : F}

/-- chord -/
theorem addG_rep {x1 y1 Z1 x2 y2 Z2 : F} (hz1 : Z1 ≠ 0) (hz2 : Z2 ≠ 0)
    (hn1 : (Wb A B).Nonsingular x1 y1) (hn2 : (Wb A B).Nonsingular x2 y2) (hx : x1 ≠ x2) :
    RepB3 A B (addG (x1 * Z1) (y1 * Z1 ^ 2) Z1 (x2 * Z2) (y2 * Z2 ^ 2) Z2)
      (Affine.Point.some x1 y1 hn1 + Affine.Point.some x2 y2 hn2) := by
  have hd : x1 + x2 ≠ 0 := fun h => hx (CharTwo.add_eq_zero.1 h)
  have hw : Z1 * Z2 ≠ 0 := mul_ne_zero hz1 hz2
  refine rep3_of_rep2 ?_ (addB_chord hn1 hn2 hx) ?_ ?_
  · rw [addG_Z]; exact mul_ne_zero (pow_ne_zero _ hw) (pow_ne_zero _ hd)
  · rw [addG_Z, addG_X, chord_x hn1 hn2 hd]; field_simp
  · rw [addG_Z, addG_Y, chord_x hn1 hn2 hd]
    generalize Z1 * Z2 = w at hw ⊢
    field_simp
    char2

theorem dblG_Z (A x y Z : F) : (dblG A (x * Z) (y * Z ^ 2) Z).2.2 = x ^ 2 * Z ^ 4 := by
  simp only [dblG]; ring

/-- tangent (no curve equation is needed) -/
theorem dblG_rep {x y Z : F} (hz : Z ≠ 0) (hn : (Wb A B).Nonsingular x y) (hx : x ≠ 0) :
    RepB3 A B (dblG A (x * Z) (y * Z ^ 2) Z) (Affine.Point.some x y hn + Affine.Point.some x y hn) := by
  refine rep3_of_rep2 ?_ (addB_tangent hn hx) ?_ ?_
  · rw [dblG_Z]; exact mul_ne_zero (pow_ne_zero _ hx) (pow_ne_zero _ hz)
  · rw [dblG_Z]; simp only [dblG]; field_simp; char2
  · rw [dblG_Z]; simp only [dblG]; field_simp; char2

theorem add_core {X1 Y1 Z1 X2 Y2 Z2 : F} {r : P3 F} {P Q : (Wb A B).Point}
    (hp : RepB3 A B (X1, Y1, Z1) P) (hq : RepB3 A B (X2, Y2, Z2) Q)
    (eaO : Z1 = 0 → r = (X2, Y2, Z2))
    (ebO : Z1 ≠ 0 → Z2 = 0 → r = (X1, Y1, Z1))
    (egen : Z1 ≠ 0 → Z2 ≠ 0 → aa X1 Z2 ≠ aa X2 Z1 → r = addG X1 Y1 Z1 X2 Y2 Z2)
    (eopp : Z1 ≠ 0 → Z2 ≠ 0 → aa X1 Z2 = aa X2 Z1 → gg Y1 Z2 ≠ gg Y2 Z1 → r.2.2 = 0)
    (eeq0 : Z1 ≠ 0 → Z2 ≠ 0 → aa X1 Z2 = aa X2 Z1 → gg Y1 Z2 = gg Y2 Z1 → X1 = 0 → r.2.2 = 0)
    (eeq : Z1 ≠ 0 → Z2 ≠ 0 → aa X1 Z2 = aa X2 Z1 → gg Y1 Z2 = gg Y2 Z1 → X1 ≠ 0 → r = dblG A X1 Y1 Z1) :
    RepB3 A B r (P + Q) := by
  by_cases h1 : Z1 = 0
  · rw [eaO h1, rep3_O h1 hp, zero_add]; exact hq
  by_cases h2 : Z2 = 0
  · rw [ebO h1 h2, rep3_O h2 hq, add_zero]; exact hp
  obtain ⟨x1, y1, hn1, rfl, rfl, rfl⟩ := rep3_nz h1 hp
  obtain ⟨x2, y2, hn2, rfl, rfl, rfl⟩ := rep3_nz h2 hq
  have hzz : Z1 * Z2 ≠ 0 := mul_ne_zero h1 h2
  have hzz2 : Z1 ^ 2 * Z2 ^ 2 ≠ 0 := mul_ne_zero (pow_ne_zero _ h1) (pow_ne_zero _ h2)
  by_cases hA : aa (x1 * Z1) Z2 = aa (x2 * Z2) Z1
  · have hx : x1 = x2 := by
      have h := aa_affine x1 Z1 x2 Z2
      rw [hA, CharTwo.add_self_eq_zero] at h
      exact CharTwo.add_eq_zero.1 ((mul_eq_zero.1 h.symm).resolve_left hzz)
    subst hx
    by_cases hG : gg (y1 * Z1 ^ 2) Z2 = gg (y2 * Z2 ^ 2) Z1
    · have hy : y1 = y2 := by
        have h := gg_affine y1 Z1 y2 Z2
        rw [hG, CharTwo.add_self_eq_zero] at h
        exact CharTwo.add_eq_zero.1 ((mul_eq_zero.1 h.symm).resolve_left hzz2)
      subst hy
      by_cases hx0 : x1 = 0
      · subst hx0
        rw [addB_order2 hn1]
        exact rep3_zero (eeq0 h1 h2 hA hG (zero_mul _))
      · rw [eeq h1 h2 hA hG (mul_ne_zero hx0 h1)]
        exact dblG_rep h1 hn1 hx0
    · have hy : y1 = x1 + y2 := by
        rcases yB_eq_or_neg hn1 hn2 with e | e
        · exact absurd (by rw [e]; unfold gg; ring) hG
        · exact e
      rw [addB_inverse hn1 hn2 rfl hy]
      exact rep3_zero (eopp h1 h2 hA hG)
  · have hx : x1 ≠ x2 := by
      intro e; apply hA; rw [e]; unfold aa; ring
    rw [egen h1 h2 hA]
    exact addG_rep h1 h2 hn1 hn2 hx

theorem add_ok {al : Al} (hal : al = .n ∨ al = .ca ∨ al = .cb) {p q : P3 F}
    {P Q : (Wb A B).Point} (hp : RepB3 A B p P) (hq : RepB3 A B q Q) :
    RepB3 A B (run2 (curveB A B) ec2AddLD al p q) (P + Q) := by
  obtain ⟨X1, Y1, Z1⟩ := p; obtain ⟨X2, Y2, Z2⟩ := q
  exact add_core hp hq (add_exec_aO hal X1 Y1 Z1 X2 Y2 Z2) (add_exec_bO hal X1 Y1 Z1 X2 Y2 Z2)
    (add_exec_gen hal X1 Y1 Z1 X2 Y2 Z2) (add_exec_opp hal X1 Y1 Z1 X2 Y2 Z2)
    (add_exec_eq0 hal X1 Y1 Z1 X2 Y2 Z2) (add_exec_eq hal X1 Y1 Z1 X2 Y2 Z2)

theorem sub_ok {al : Al} (hal : al = .n ∨ al = .ca ∨ al = .cb) {p q : P3 F}
    {P Q : (Wb A B).Point} (hp : RepB3 A B p P) (hq : RepB3 A B q Q) :
    RepB3 A B (run2 (curveB A B) ec2SubLD al p q) (P - Q) := by
  obtain ⟨X1, Y1, Z1⟩ := p; obtain ⟨X2, Y2, Z2⟩ := q
  rw [sub_eq_add_neg]
  exact add_core hp (rep3_neg hq) (sub_exec_aO hal X1 Y1 Z1 X2 Y2 Z2) (sub_exec_bO hal X1 Y1 Z1 X2 Y2 Z2)
    (sub_exec_gen hal X1 Y1 Z1 X2 Y2 Z2) (sub_exec_opp hal X1 Y1 Z1 X2 Y2 Z2)
    (sub_exec_eq0 hal X1 Y1 Z1 X2 Y2 Z2) (sub_exec_eq hal X1 Y1 Z1 X2 Y2 Z2)

theorem add_ab_ok {p : P3 F} {P : (Wb A B).Point} (hp : RepB3 A B p P) (q : P3 F) :
    RepB3 A B (run2 (curveB A B) ec2AddLD .ab p q) (P + P) := by
  obtain ⟨X1, Y1, Z1⟩ := p
  by_cases h1 : Z1 = 0
  · rw [rep3_O h1 hp, add_zero]; exact rep3_zero (add_exec_ab_O X1 Y1 Z1 q h1)
  obtain ⟨x, y, hn, rfl, rfl, rfl⟩ := rep3_nz h1 hp
  by_cases hx : x = 0
  · subst hx
    rw [addB_order2 hn]
    exact rep3_zero (add_exec_ab_0 _ _ _ q h1 (zero_mul _))
  · rw [add_exec_ab _ _ _ q h1 (mul_ne_zero hx h1)]
    exact dblG_rep h1 hn hx

/-- `a - a` with `a == b`: `O` whatever the triple is (no hypothesis on `p` is needed) -/
theorem sub_ab_ok (p q : P3 F) :
    RepB3 A B (run2 (curveB A B) ec2SubLD .ab p q) 0 := by
  obtain ⟨X1, Y1, Z1⟩ := p
  apply rep3_zero
  by_cases h1 : Z1 = 0
  · exact sub_exec_ab_O X1 Y1 Z1 q h1
  by_cases hX : X1 = 0
  · exact sub_exec_ab_0 X1 Y1 Z1 q h1 hX
  · refine sub_exec_ab X1 Y1 Z1 q h1 ?_
    unfold gg; intro e
    have h : Z1 * Z1 * Y1 + Z1 * Z1 * (X1 * Z1 + Y1) = 0 := by rw [← e]; exact CharTwo.add_self_eq_zero _
    have h' : Z1 * Z1 * Y1 + Z1 * Z1 * (X1 * Z1 + Y1) = X1 * Z1 ^ 3 := by char2
    rw [h'] at h
    exact (mul_ne_zero hX (pow_ne_zero _ h1)) h

end Bee2V.C06.BAdd

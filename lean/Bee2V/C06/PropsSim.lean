/-
C06 — property theorems, simulation: for a prime `p ≠ 2` the interpreter on `natFld p` (what the
driver executes, canonical residues as naturals) simulates the interpreter on `fieldFld (ZMod p)`
(what the group-law theorems are about) through `Nat.cast`, for EVERY program; hence every wrapper
of `Wrap.lean` and every entry of the function table `ecOps` commutes with the casts.

`castStore p st = ⟨fun i => (st.get i : ZMod p)⟩`, `cast3 p (x, y, z) = ((x : ZMod p), (y : ZMod p), (z : ZMod p))`,
`cast2` likewise, `Red3 p q = (q.1 < p ∧ q.2.1 < p ∧ q.2.2 < p)`, `Red2` likewise
(definitions in `LemmasSim2`, namespace `Bee2V.C06.Sim`).
-/
import Bee2V.C06.LemmasSim2
namespace Bee2V.C06
open Sim (castStore cast3 cast2 Red3 Red2)

/-- `powMod` (square-and-multiply of the model) is the modular power -/
theorem powMod_spec (a e p : Nat) : powMod a e p = a ^ e % p := Sim.powMod_eq a e p

/-- every operation of `natFld p` commutes with the cast to `ZMod p` on residues `< p`, and the result
    is again `< p` (fields of `Sim.FldSim`: zero one add sub mul neg dbl half inv pow eqb) -/
theorem natFld_sim (p : Nat) [Fact p.Prime] (hp2 : p ≠ 2) :
    Sim.FldSim (natFld p) (fieldFld (ZMod p)) (fun a : Nat => (a : ZMod p)) (fun a => a < p) :=
  Sim.natFld_sim p hp2

/-- the simulation theorem: results stay reduced, the returned flag and the final store agree -/
theorem run_sim (p : Nat) [Fact p.Prime] (hp2 : p ≠ 2) (prog : Prog) (st : Store Nat)
    (hst : ∀ i, st.get i < p) :
    (∀ i, ((prog.run (natFld p) st).1.get i) < p) ∧
    (prog.run (natFld p) st).2 = (prog.run (fieldFld (ZMod p)) (castStore p st)).2 ∧
    castStore p (prog.run (natFld p) st).1 = (prog.run (fieldFld (ZMod p)) (castStore p st)).1 :=
  Sim.run_sim_gen (Sim.natFld_sim p hp2) prog st hst

section wrappers
variable (p : Nat) [Fact p.Prime] (hp2 : p ≠ 2) {A B : Nat} (hA : A < p) (hB : B < p)
include hp2 hA hB

/-- `bA3` of `ecpCreateJ` is the same on both sides -/
theorem mkCurve_a3_sim :
    (mkCurve (natFld p) A B).a3 = (curveF (A : ZMod p) (B : ZMod p)).a3 :=
  (Sim.curve_sim p hp2 hA hB).a3

theorem dblProg_sim :
    dblProg (mkCurve (natFld p) A B) = dblProg (curveF (A : ZMod p) (B : ZMod p)) :=
  Sim.dblProg_sim (Sim.curve_sim p hp2 hA hB)

theorem tplProg_sim :
    tplProg (mkCurve (natFld p) A B) = tplProg (curveF (A : ZMod p) (B : ZMod p)) :=
  Sim.tplProg_sim (Sim.curve_sim p hp2 hA hB)

theorem run1_sim (prog : Nat → Nat → Nat → Prog) (al : Al) {a : P3 Nat} (ha : Red3 p a) :
    Red3 p (run1 (mkCurve (natFld p) A B) prog al a) ∧
    cast3 p (run1 (mkCurve (natFld p) A B) prog al a) =
      run1 (curveF (A : ZMod p) (B : ZMod p)) prog al (cast3 p a) :=
  Sim.run1_sim (Sim.curve_sim p hp2 hA hB) prog al ha

theorem run2_sim (prog : Nat → Nat → Nat → Nat → Prog) (al : Al) {a b : P3 Nat}
    (ha : Red3 p a) (hb : Red3 p b) :
    Red3 p (run2 (mkCurve (natFld p) A B) prog al a b) ∧
    cast3 p (run2 (mkCurve (natFld p) A B) prog al a b) =
      run2 (curveF (A : ZMod p) (B : ZMod p)) prog al (cast3 p a) (cast3 p b) :=
  Sim.run2_sim (Sim.curve_sim p hp2 hA hB) prog al ha hb

theorem run2A_sim (prog : Nat → Nat → Nat → Nat → Prog) (al : Al) {a : P3 Nat} {b : P2 Nat}
    (ha : Red3 p a) (hb : Red2 p b) :
    Red3 p (run2A (mkCurve (natFld p) A B) prog al a b) ∧
    cast3 p (run2A (mkCurve (natFld p) A B) prog al a b) =
      run2A (curveF (A : ZMod p) (B : ZMod p)) prog al (cast3 p a) (cast2 p b) :=
  Sim.run2A_sim (Sim.curve_sim p hp2 hA hB) prog al ha hb

theorem froma_sim (al : Al) {a : P2 Nat} (ha : Red2 p a) :
    Red3 p (froma (mkCurve (natFld p) A B) al a) ∧
    cast3 p (froma (mkCurve (natFld p) A B) al a) =
      froma (curveF (A : ZMod p) (B : ZMod p)) al (cast2 p a) :=
  Sim.froma_sim (Sim.curve_sim p hp2 hA hB) al ha

theorem dbla_sim (al : Al) {a : P2 Nat} (ha : Red2 p a) :
    Red3 p (dbla (mkCurve (natFld p) A B) al a) ∧
    cast3 p (dbla (mkCurve (natFld p) A B) al a) =
      dbla (curveF (A : ZMod p) (B : ZMod p)) al (cast2 p a) :=
  Sim.dbla_sim (Sim.curve_sim p hp2 hA hB) al ha

theorem negA_sim (al : Al) {a : P2 Nat} (ha : Red2 p a) :
    Red2 p (negA (mkCurve (natFld p) A B) al a) ∧
    cast2 p (negA (mkCurve (natFld p) A B) al a) =
      negA (curveF (A : ZMod p) (B : ZMod p)) al (cast2 p a) :=
  Sim.negA_sim (Sim.curve_sim p hp2 hA hB) al ha

/-- `ecpToAJ`: `none` (FALSE) on one side iff on the other; the affine results correspond -/
theorem toa_sim (al : Al) {a : P3 Nat} (ha : Red3 p a) :
    (∀ q, toa (mkCurve (natFld p) A B) al a = some q → Red2 p q) ∧
    (toa (mkCurve (natFld p) A B) al a).map (cast2 p) =
      toa (curveF (A : ZMod p) (B : ZMod p)) al (cast3 p a) :=
  Sim.toa_sim (Sim.curve_sim p hp2 hA hB) al ha

/-- `ecpAddAA`/`ecpSubAA` (any affine three-address routine) -/
theorem runAA_sim (prog : Nat → Nat → Nat → Nat → Prog) (al : Al) {a b : P2 Nat}
    (ha : Red2 p a) (hb : Red2 p b) :
    (∀ q, runAA (mkCurve (natFld p) A B) prog al a b = some q → Red2 p q) ∧
    (runAA (mkCurve (natFld p) A B) prog al a b).map (cast2 p) =
      runAA (curveF (A : ZMod p) (B : ZMod p)) prog al (cast2 p a) (cast2 p b) :=
  Sim.runAA_sim (Sim.curve_sim p hp2 hA hB) prog al ha hb

theorem isOnA_sim {a : P2 Nat} (ha : Red2 p a) :
    isOnA (mkCurve (natFld p) A B) a = isOnA (curveF (A : ZMod p) (B : ZMod p)) (cast2 p a) :=
  Sim.isOnA_sim (Sim.curve_sim p hp2 hA hB) ha

/-- `ecpSWU` with the exponents of modulus `m` (the program is the same on both sides) -/
theorem swu_sim (m : Nat) {a : Nat} (ha : a < p) :
    Red2 p (swu m (mkCurve (natFld p) A B) a) ∧
    cast2 p (swu m (mkCurve (natFld p) A B) a) =
      swu m (curveF (A : ZMod p) (B : ZMod p)) (a : ZMod p) :=
  Sim.swu_sim (Sim.curve_sim p hp2 hA hB) m ha

/-! #### the function table `ecOps` -/

theorem ecOps_sim_froma {a : P2 Nat} (ha : Red2 p a) :
    Red3 p ((ecOps (mkCurve (natFld p) A B)).froma a) ∧
    cast3 p ((ecOps (mkCurve (natFld p) A B)).froma a) =
      (ecOps (curveF (A : ZMod p) (B : ZMod p))).froma (cast2 p a) :=
  froma_sim p hp2 hA hB .n ha

theorem ecOps_sim_toa {a : P3 Nat} (ha : Red3 p a) :
    (∀ q, (ecOps (mkCurve (natFld p) A B)).toa a = some q → Red2 p q) ∧
    ((ecOps (mkCurve (natFld p) A B)).toa a).map (cast2 p) =
      (ecOps (curveF (A : ZMod p) (B : ZMod p))).toa (cast3 p a) :=
  toa_sim p hp2 hA hB .n ha

omit hp2 hA hB in
theorem ecOps_sim_view {a : P3 Nat} (ha : Red3 p a) :
    Red2 p ((ecOps (mkCurve (natFld p) A B)).view a) ∧
    cast2 p ((ecOps (mkCurve (natFld p) A B)).view a) =
      (ecOps (curveF (A : ZMod p) (B : ZMod p))).view (cast3 p a) :=
  ⟨⟨ha.1, ha.2.1⟩, rfl⟩

omit hA hB in
theorem ecOps_sim_setO :
    Red3 p (ecOps (mkCurve (natFld p) A B)).setO ∧
    cast3 p (ecOps (mkCurve (natFld p) A B)).setO =
      (ecOps (curveF (A : ZMod p) (B : ZMod p))).setO := by
  have h := (Sim.natFld_sim p hp2).zero
  exact ⟨⟨h.1, h.1, h.1⟩, by
    show ((((0 : Nat) : ZMod p)), (((0 : Nat) : ZMod p)), (((0 : Nat) : ZMod p))) = (0, 0, 0)
    rw [Nat.cast_zero]⟩

theorem ecOps_sim_neg (al : Al) {a : P3 Nat} (ha : Red3 p a) :
    Red3 p ((ecOps (mkCurve (natFld p) A B)).neg al a) ∧
    cast3 p ((ecOps (mkCurve (natFld p) A B)).neg al a) =
      (ecOps (curveF (A : ZMod p) (B : ZMod p))).neg al (cast3 p a) :=
  run1_sim p hp2 hA hB _ al ha

theorem ecOps_sim_dbl (al : Al) {a : P3 Nat} (ha : Red3 p a) :
    Red3 p ((ecOps (mkCurve (natFld p) A B)).dbl al a) ∧
    cast3 p ((ecOps (mkCurve (natFld p) A B)).dbl al a) =
      (ecOps (curveF (A : ZMod p) (B : ZMod p))).dbl al (cast3 p a) := by
  show Red3 p (run1 _ (dblProg (mkCurve (natFld p) A B)) al a) ∧
    cast3 p (run1 _ (dblProg (mkCurve (natFld p) A B)) al a) =
      run1 _ (dblProg (curveF (A : ZMod p) (B : ZMod p))) al (cast3 p a)
  rw [← dblProg_sim p hp2 hA hB]
  exact run1_sim p hp2 hA hB _ al ha

theorem ecOps_sim_tpl (al : Al) {a : P3 Nat} (ha : Red3 p a) :
    Red3 p ((ecOps (mkCurve (natFld p) A B)).tpl al a) ∧
    cast3 p ((ecOps (mkCurve (natFld p) A B)).tpl al a) =
      (ecOps (curveF (A : ZMod p) (B : ZMod p))).tpl al (cast3 p a) := by
  show Red3 p (run1 _ (tplProg (mkCurve (natFld p) A B)) al a) ∧
    cast3 p (run1 _ (tplProg (mkCurve (natFld p) A B)) al a) =
      run1 _ (tplProg (curveF (A : ZMod p) (B : ZMod p))) al (cast3 p a)
  rw [← tplProg_sim p hp2 hA hB]
  exact run1_sim p hp2 hA hB _ al ha

theorem ecOps_sim_dbla {a : P2 Nat} (ha : Red2 p a) :
    Red3 p ((ecOps (mkCurve (natFld p) A B)).dbla a) ∧
    cast3 p ((ecOps (mkCurve (natFld p) A B)).dbla a) =
      (ecOps (curveF (A : ZMod p) (B : ZMod p))).dbla (cast2 p a) :=
  dbla_sim p hp2 hA hB .n ha

theorem ecOps_sim_add (al : Al) {a b : P3 Nat} (ha : Red3 p a) (hb : Red3 p b) :
    Red3 p ((ecOps (mkCurve (natFld p) A B)).add al a b) ∧
    cast3 p ((ecOps (mkCurve (natFld p) A B)).add al a b) =
      (ecOps (curveF (A : ZMod p) (B : ZMod p))).add al (cast3 p a) (cast3 p b) :=
  run2_sim p hp2 hA hB _ al ha hb

theorem ecOps_sim_sub (al : Al) {a b : P3 Nat} (ha : Red3 p a) (hb : Red3 p b) :
    Red3 p ((ecOps (mkCurve (natFld p) A B)).sub al a b) ∧
    cast3 p ((ecOps (mkCurve (natFld p) A B)).sub al a b) =
      (ecOps (curveF (A : ZMod p) (B : ZMod p))).sub al (cast3 p a) (cast3 p b) :=
  run2_sim p hp2 hA hB _ al ha hb

theorem ecOps_sim_adda (al : Al) {a : P3 Nat} {b : P2 Nat} (ha : Red3 p a) (hb : Red2 p b) :
    Red3 p ((ecOps (mkCurve (natFld p) A B)).adda al a b) ∧
    cast3 p ((ecOps (mkCurve (natFld p) A B)).adda al a b) =
      (ecOps (curveF (A : ZMod p) (B : ZMod p))).adda al (cast3 p a) (cast2 p b) :=
  run2A_sim p hp2 hA hB _ al ha hb

theorem ecOps_sim_suba (al : Al) {a : P3 Nat} {b : P2 Nat} (ha : Red3 p a) (hb : Red2 p b) :
    Red3 p ((ecOps (mkCurve (natFld p) A B)).suba al a b) ∧
    cast3 p ((ecOps (mkCurve (natFld p) A B)).suba al a b) =
      (ecOps (curveF (A : ZMod p) (B : ZMod p))).suba al (cast3 p a) (cast2 p b) :=
  run2A_sim p hp2 hA hB _ al ha hb

end wrappers

/-! ### non-vacuity: `p = 7`, curve `y² = x³ + 4x + 3` (`A = -3`, so `bA3`), points `(1,1)`, `(5,1)` -/

attribute [local instance] Sim.fact_prime_7

/-- hypotheses of all theorems are satisfiable -/
example : (7 : Nat) ≠ 2 ∧ (4 : Nat) < 7 ∧ (3 : Nat) < 7 ∧ Red3 7 (1, 1, 1) ∧ Red3 7 (5, 1, 1) ∧
    Red2 7 (5, 1) ∧ (∀ i, (Store.mk (fun i => i % 7)).get i < 7) :=
  ⟨by decide, by decide, by decide, ⟨by decide, by decide, by decide⟩,
    ⟨by decide, by decide, by decide⟩, ⟨by decide, by decide⟩, fun i => Nat.mod_lt i (by decide)⟩

/-- `powMod_spec`: a concrete value -/
example : powMod 3 5 7 = 5 := by rw [powMod_spec]; decide

/-- `run_sim`: a program with a branch, `half` and `inv`, on the store `i ↦ i mod 7` -/
example :
    ((Prog.ifz 3 (.seq (.half 2 5) (.ret true)) (.seq (.inv 2 5) (.ret false))).run (natFld 7)
      ⟨fun i => i % 7⟩).1.get 2 = 3 ∧
    ((Prog.ifz 3 (.seq (.half 2 5) (.ret true)) (.seq (.inv 2 5) (.ret false))).run (natFld 7)
      ⟨fun i => i % 7⟩).2 = false := by decide +kernel

/-- … and what `run_sim` then says about the run over `ZMod 7` -/
example :
    ((Prog.ifz 3 (.seq (.half 2 5) (.ret true)) (.seq (.inv 2 5) (.ret false))).run (fieldFld (ZMod 7))
      (castStore 7 ⟨fun i => i % 7⟩)).2 = false := by
  rw [← (run_sim 7 (by decide) _ ⟨fun i => i % 7⟩ (fun i => Nat.mod_lt i (by decide))).2.1]
  decide +kernel

/-- `mkCurve_a3_sim`: `bA3` is set for `A = 4 = -3 (mod 7)` and not for `A = 1` -/
example : (mkCurve (natFld 7) 4 3).a3 = true ∧ (mkCurve (natFld 7) 1 3).a3 = false := by decide

/-- wrappers on naturals evaluate -/
example : run1 (mkCurve (natFld 7) 4 3) (dblProg (mkCurve (natFld 7) 4 3)) .ca (1, 1, 1) = (6, 6, 2) := by
  decide
example : (ecOps (mkCurve (natFld 7) 4 3)).add .n (1, 1, 1) (5, 1, 1) = (1, 6, 1) := by decide
example : (ecOps (mkCurve (natFld 7) 4 3)).toa (1, 6, 1) = some (1, 6) ∧
    (ecOps (mkCurve (natFld 7) 4 3)).toa (1, 1, 0) = none := by decide +kernel
example : isOnA (mkCurve (natFld 7) 4 3) (1, 1) = true := by decide
example : swu 7 (mkCurve (natFld 7) 4 3) 3 = (5, 1) := by decide +kernel

/-- … and transfer: the field-level table over `ZMod 7` adds `(1,1) + (5,1) = (1,-1)` -/
example : (ecOps (curveF (4 : ZMod 7) 3)).add .n (1, 1, 1) (5, 1, 1) = (1, 6, 1) := by
  have h := (ecOps_sim_add 7 (by decide) (A := 4) (B := 3) (by decide) (by decide) .n
    (a := (1, 1, 1)) (b := (5, 1, 1)) ⟨by decide, by decide, by decide⟩
    ⟨by decide, by decide, by decide⟩).2
  have e : (ecOps (mkCurve (natFld 7) 4 3)).add .n (1, 1, 1) (5, 1, 1) = (1, 6, 1) := by decide
  rw [e] at h
  exact h.symm

end Bee2V.C06

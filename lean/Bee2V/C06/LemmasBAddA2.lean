/-
C06, stage 2 — `ec2AddALD` / `ec2SubALD`, part 2: the algebra (characteristic 2).
A result satisfying `Spec A B p q` represents `P + Q`.
-/
import Bee2V.C06.LemmasBAddA
import Mathlib.Tactic.FieldSimp
import Mathlib.Tactic.LinearCombination
namespace Bee2V.C06.BAddA
open Bee2V.C06 WeierstrassCurve

set_option linter.unusedSectionVars false
set_option linter.unusedSimpArgs false
set_option linter.unusedVariables false
variable {F : Type} [Field F] [DecidableEq F] [CharP F 2] {A B : F}

/-- a triple with `Z = 0` stands for `O` -/
theorem rep3_zero {r : P3 F} (h : r.2.2 = 0) : RepB3 A B r 0 := by
  unfold RepB3; rw [if_pos h]

theorem rep3_of_rep2 {X Y Z : F} {P : (Wb A B).Point} (hz : Z ≠ 0)
    (h : RepB2 A B (X / Z, Y / Z ^ 2) P) : RepB3 A B (X, Y, Z) P := by
  unfold RepB3; rw [if_neg hz]; exact h

/-- `a = O`: the result `(xb : yb : 1)` -/
theorem alg_o {x2 y2 : F} {Q : (Wb A B).Point} (hq : RepB2 A B (x2, y2) Q) :
    RepB3 A B (x2, y2, 1) (0 + Q) := by
  rw [zero_add]
  exact rep3_of_rep2 one_ne_zero (RepB2_of_eq hq (by simp) (by simp))

/-- madd-2005-dl against the chord formulas, `d = x1 + x2` kept as an atom (no curve equation needed) -/
theorem gen_x (A x1 y1 Z1 x2 y2 d : F) (hz : Z1 ≠ 0) (hd : d ≠ 0) (e : d = x1 + x2) :
    ((y1 + y2) / d) ^ 2 + (y1 + y2) / d + x1 + x2 + A
      = (genF A (x1 * Z1) (y1 * Z1 ^ 2) Z1 x2 y2).1 / (Z1 * d * Z1 * (Z1 * d * Z1)) := by
  unfold genF t1F t2F; field_simp; subst e; char2

theorem gen_y (A x1 y1 Z1 x2 y2 d : F) (hz : Z1 ≠ 0) (hd : d ≠ 0) (e : d = x1 + x2) :
    ((y1 + y2) / d) * (x1 + (((y1 + y2) / d) ^ 2 + (y1 + y2) / d + x1 + x2 + A))
        + (((y1 + y2) / d) ^ 2 + (y1 + y2) / d + x1 + x2 + A) + y1
      = (genF A (x1 * Z1) (y1 * Z1 ^ 2) Z1 x2 y2).2.1 / (Z1 * d * Z1 * (Z1 * d * Z1)) ^ 2 := by
  unfold genF t1F t2F; field_simp; subst e; char2

theorem gen_z (A x1 y1 Z1 x2 y2 : F) :
    (genF A (x1 * Z1) (y1 * Z1 ^ 2) Z1 x2 y2).2.2 = Z1 * (x1 + x2) * Z1 * (Z1 * (x1 + x2) * Z1) := by
  unfold genF t1F t2F; ring

/-- generic branch: chord -/
theorem alg_gen {x1 y1 Z1 x2 y2 : F} (h₁ : (Wb A B).Nonsingular x1 y1) (h₂ : (Wb A B).Nonsingular x2 y2)
    (hz : Z1 ≠ 0) (hx : x1 ≠ x2) :
    RepB3 A B (genF A (x1 * Z1) (y1 * Z1 ^ 2) Z1 x2 y2)
      (Affine.Point.some x1 y1 h₁ + Affine.Point.some x2 y2 h₂) := by
  have hd : x1 + x2 ≠ 0 := fun h => hx (CharTwo.add_eq_zero.1 h)
  have hz3 : Z1 * (x1 + x2) * Z1 * (Z1 * (x1 + x2) * Z1) ≠ 0 :=
    mul_ne_zero (mul_ne_zero (mul_ne_zero hz hd) hz) (mul_ne_zero (mul_ne_zero hz hd) hz)
  have hr : genF A (x1 * Z1) (y1 * Z1 ^ 2) Z1 x2 y2
      = ((genF A (x1 * Z1) (y1 * Z1 ^ 2) Z1 x2 y2).1, (genF A (x1 * Z1) (y1 * Z1 ^ 2) Z1 x2 y2).2.1,
          Z1 * (x1 + x2) * Z1 * (Z1 * (x1 + x2) * Z1)) := by
    rw [← gen_z]
  rw [hr]
  exact rep3_of_rep2 hz3 (RepB2_of_eq (addB_chord h₁ h₂ hx)
    (gen_x A x1 y1 Z1 x2 y2 _ hz hd rfl) (gen_y A x1 y1 Z1 x2 y2 _ hz hd rfl))

/-- the curve equation solved for `B` -/
theorem curve_B {x y : F} (e : y ^ 2 + x * y = x ^ 3 + A * x ^ 2 + B) :
    B = y ^ 2 + x * y + x ^ 3 + A * x ^ 2 := by
  rw [e]; char2

/-- mdbl-2005-dl against the tangent formulas (uses the curve equation) -/
theorem dbl_x (A B x y : F) (hx : x ≠ 0) (e : y ^ 2 + x * y = x ^ 3 + A * x ^ 2 + B) :
    (x + y / x) ^ 2 + (x + y / x) + A = (dblF A B x y).1 / (x * x) := by
  have eB := curve_B e
  subst eB
  unfold dblF; field_simp; char2

theorem dbl_y (A B x y : F) (hx : x ≠ 0) (e : y ^ 2 + x * y = x ^ 3 + A * x ^ 2 + B) :
    x ^ 2 + ((x + y / x) + 1) * ((x + y / x) ^ 2 + (x + y / x) + A) = (dblF A B x y).2.1 / (x * x) ^ 2 := by
  have eB := curve_B e
  subst eB
  unfold dblF; field_simp; char2

/-- doubling branch: tangent at the affine `b`, `x ≠ 0` -/
theorem alg_dbl {x y : F} (h : (Wb A B).Nonsingular x y) (hx : x ≠ 0) :
    RepB3 A B (dblF A B x y) (Affine.Point.some x y h + Affine.Point.some x y h) := by
  have e := ((Wb_nonsingular A B x y).1 h).1
  exact rep3_of_rep2 (X := (dblF A B x y).1) (Y := (dblF A B x y).2.1) (Z := x * x) (mul_ne_zero hx hx)
    (RepB2_of_eq (addB_tangent h hx) (dbl_x A B x y hx e) (dbl_y A B x y hx e))

/-- a result described by `Spec` represents the sum, in every case -/
theorem spec_correct {p : P3 F} {q : P2 F} {r : P3 F} {P Q : (Wb A B).Point}
    (hs : Spec A B p q r) (hp : RepB3 A B p P) (hq : RepB2 A B q Q) : RepB3 A B r (P + Q) := by
  obtain ⟨X1, Y1, Z1⟩ := p
  obtain ⟨x2, y2⟩ := q
  by_cases hz : Z1 = 0
  · unfold RepB3 at hp; rw [if_pos hz] at hp; subst hp
    rw [hs.o hz]; exact alg_o hq
  · obtain ⟨x1, rfl⟩ : ∃ x1, X1 = x1 * Z1 := ⟨X1 / Z1, by field_simp⟩
    obtain ⟨y1, rfl⟩ : ∃ y1, Y1 = y1 * Z1 ^ 2 := ⟨Y1 / Z1 ^ 2, by field_simp⟩
    unfold RepB3 at hp; rw [if_neg hz] at hp
    obtain ⟨h₁, rfl⟩ := RepB2_of_eq (x' := x1) (y' := y1) hp (by field_simp) (by field_simp)
    obtain ⟨h₂, rfl⟩ := hq
    have e1 : t2F (x1 * Z1) Z1 x2 = Z1 * (x1 + x2) := by unfold t2F; ring
    have e2 : t1F (y1 * Z1 ^ 2) Z1 y2 = Z1 ^ 2 * (y1 + y2) := by unfold t1F; ring
    by_cases hx : x1 = x2
    · subst hx
      have ht2 : t2F (x1 * Z1) Z1 x1 = 0 := by rw [e1, CharTwo.add_self_eq_zero, mul_zero]
      by_cases hy : y1 = y2
      · subst hy
        have ht1 : t1F (y1 * Z1 ^ 2) Z1 y1 = 0 := by rw [e2, CharTwo.add_self_eq_zero, mul_zero]
        by_cases x0 : x1 = 0
        · rw [addB_inverse h₁ h₂ rfl (by rw [x0, zero_add])]
          exact rep3_zero (hs.dbl0 hz ht2 ht1 x0)
        · rw [hs.dbl hz ht2 ht1 x0]; exact alg_dbl h₁ x0
      · have ht1 : t1F (y1 * Z1 ^ 2) Z1 y2 ≠ 0 := by
          rw [e2]; exact mul_ne_zero (pow_ne_zero 2 hz) (fun h => hy (CharTwo.add_eq_zero.1 h))
        rcases yB_eq_or_neg h₁ h₂ with e | e
        · exact absurd e hy
        · rw [addB_inverse h₁ h₂ rfl e]
          exact rep3_zero (hs.inv hz ht2 ht1)
    · have ht2 : t2F (x1 * Z1) Z1 x2 ≠ 0 := by
        rw [e1]; exact mul_ne_zero hz (fun h => hx (CharTwo.add_eq_zero.1 h))
      rw [hs.gen hz ht2]; exact alg_gen h₁ h₂ hz hx

end Bee2V.C06.BAddA

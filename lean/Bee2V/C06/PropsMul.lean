/-
C06 — property theorems for the window-NAF layer: `wwNAF` (ww.c) and `ecMulA`, `ecHasOrderA`,
`ecAddMulA` (ec.c), over ANY additive commutative group `G` and any operation table that is correct
w.r.t. `G` (`EcOps.Correct`, LemmasMul.lean).  Every scalar, every length `m`, every window width.
-/
import Bee2V.C06.LemmasMulAdd
import Mathlib.Data.ZMod.Defs
namespace Bee2V.C06
open MulL
variable {P A G : Type} [AddCommGroup G] {o : EcOps P A} {R3 : P → G → Prop} {R2 : A → G → Prop}

/-- `wwNAF(naf, d, n, w)` for `d > 0`, `w ≥ 2`: the packed string, decoded from bit 0 exactly as
    `ecMulA` reads it (`decode`), has `size` digits whose value `Σ e_j 2^j` is `d`; `size > 0`; the first
    code read (most significant digit) is odd and positive; every digit is 0 or odd with `|e| < 2^(w-1)`.
    In particular the fuel `bitSize d + w + 2` of the model's loop suffices. -/
theorem wwNAF_value {d w : Nat} (hw : 2 ≤ w) (hd : 0 < d) :
    nafVal (decode w (wwNAF d w).2 (wwNAF d w).1 0) = d ∧
    (decode w (wwNAF d w).2 (wwNAF d w).1 0).length = (wwNAF d w).1 ∧
    0 < (wwNAF d w).1 ∧
    getBits (wwNAF d w).2 0 w % 2 = 1 ∧ getBits (wwNAF d w).2 0 w < 2 ^ (w - 1) ∧
    ∀ e ∈ decode w (wwNAF d w).2 (wwNAF d w).1 0,
      e = 0 ∨ (e % 2 = 1 ∧ -(2 ^ (w - 1) : Int) < e ∧ e < 2 ^ (w - 1)) := by
  obtain ⟨h1, h2, h3, h4⟩ := wwNAF_spec hw hd
  exact ⟨h1, decode_length _ _ _ _, h2, h3, h4, decode_digits hw _ _ _⟩

/-- `wwNAF` of zero: size 0 (and `ecMulA` returns FALSE) -/
theorem wwNAF_value_zero (w : Nat) : wwNAF 0 w = (0, 0) := wwNAF_zero w

/-- the table of odd multiples: entry `i < count` exists (no default is ever read) and represents
    `(2 i + 1) g`; entry 0 is literally `froma a` (it is re-read as an affine point via `view`). -/
theorem preTable_spec {a : A} {g : G} (hc : o.Correct R3 R2) (ha : R2 a g) (count i : Nat)
    (hi : i < count) :
    (preTable o a count)[0]? = some (o.froma a) ∧
    ∃ p, (preTable o a count)[i]? = some p ∧ R3 p ((2 * i + 1) • g) :=
  ⟨(preTable_ok hc ha count).zero, (preTable_ok hc ha count).ent i hi⟩

/-- `ecMulA(b, a, ec, d, m, stack)`: FALSE iff `d a = O`, otherwise `b = d a` -/
theorem ecMulA_spec {a : A} {g : G} (hc : o.Correct R3 R2) (ha : R2 a g) (W m d : Nat) :
    (ecMulA o W a d m = none ↔ d • g = 0) ∧ ∀ b, ecMulA o W a d m = some b → R2 b (d • g) := by
  have hw : 2 ≤ ecNAFWidth (m * W) := by have := ecNAFWidth_ge (m * W); omega
  rcases Nat.eq_zero_or_pos d with rfl | hd
  · simp [ecMulA, wwNAF_zero]
  · have hr := mulCore_spec hc hw ha hd
    have hpos := (wwNAF_spec hw hd).2.1
    unfold ecMulA
    simp only [if_neg (Nat.pos_iff_ne_zero.1 hpos)]
    exact ⟨hc.toa_none hr, fun b hb => hc.toa_some hr hb⟩

/-- the same for every window width `w ≥ 2` (not only the widths 3..6 chosen by `ecNAFWidth`) -/
theorem ecMulA_anyWidth {a : A} {g : G} (hc : o.Correct R3 R2) (ha : R2 a g) {w d : Nat}
    (hw : 2 ≤ w) (hd : 0 < d) :
    R3 (mulLoop o (preTable o a (2 ^ (w - 2))) w (wwNAF d w).2 ((wwNAF d w).1 - 1) w
      ((preTable o a (2 ^ (w - 2))).getD (getBits (wwNAF d w).2 0 w / 2) o.setO)) (d • g) :=
  mulCore_spec hc hw ha hd

/-- `ecHasOrderA(a, ec, q, m, stack)` -/
theorem ecHasOrderA_spec {a : A} {g : G} (hc : o.Correct R3 R2) (ha : R2 a g) (W m q : Nat) :
    ecHasOrderA o W a q m = true ↔ q • g = 0 := by
  unfold ecHasOrderA
  rw [Option.isNone_iff_eq_none]
  exact (ecMulA_spec hc ha W m q).1

/-- `ecAddMulA(b, ec, stack, k, a_1, d_1, m_1, …)`: FALSE iff `Σ d_i a_i = O`, otherwise `b = Σ d_i a_i` -/
theorem ecAddMulA_spec (hc : o.Correct R3 R2) (args : List (A × Nat)) (gs : List G)
    (h : List.Forall₂ (fun ad g => R2 ad.1 g) args gs) (W : Nat) :
    let s := (List.zipWith (fun ad g => ad.2 • g) args gs).sum
    (ecAddMulA o W args = none ↔ s = 0) ∧ ∀ b, ecAddMulA o W args = some b → R2 b s := by
  intro s
  obtain ⟨i1, i2, i3, i4⟩ := rows_init (o := o) hc W h
  have hmx := foldl_max_le (args.map fun ad => mkTerm o W ad.1 ad.2) 0
  have hr := addMulLoop_spec hc
    ((args.map fun ad => mkTerm o W ad.1 ad.2).foldl (fun acc tm => max acc tm.size) 0)
    (List.zipWith (mkRow o W) args gs) _ _ i3 hc.setO
  rw [i4 _ (by
    intro r hr
    apply hmx.2
    rw [← i1]; exact List.mem_map_of_mem hr), i1, i2, smul_zero, zero_add] at hr
  exact ⟨hc.toa_none hr, fun b hb => hc.toa_some hr hb⟩

/-! ### non-vacuity (`grpOps G`: the group itself as operation table, identity relations) -/

-- wwNAF_value: 29 = 2^5 - 3 at width 3
example : wwNAF 29 3 = (6, 897) := by decide
example : decode 3 (wwNAF 29 3).2 (wwNAF 29 3).1 0 = [1, 0, 0, 0, 0, -3] := by decide
example : nafVal (decode 3 (wwNAF 29 3).2 (wwNAF 29 3).1 0) = 29 :=
  (wwNAF_value (d := 29) (w := 3) (by decide) (by decide)).1
example : wwNAF 1000003 5 = (21, 12922670081) ∧ wwNAF 1000003 6 = (20, 51615134721) := by decide

-- preTable_spec: 3rd entry of the table of 5 ∈ ℤ is 7 * 5
example : (preTable (grpOps Int) 5 4)[3]? = some 35 := by decide
example := preTable_spec (grpOps_correct Int) (a := 5) (g := 5) rfl 4 3 (by decide)

-- ecMulA_spec: widths 3, 4, 5, 6; a result O in a group with torsion
example := ecMulA_spec (grpOps_correct Int) (a := 1) (g := 1) rfl 64 1 29
example : ecMulA (grpOps Int) 64 1 29 1 = some 29 := by decide
example : ecMulA (grpOps Int) 64 5 1000003 1 = some 5000015 := by decide   -- w = 4
example : ecMulA (grpOps Int) 32 5 1000003 1 = some 5000015 := by decide   -- w = 3
example : ecMulA (grpOps Int) 64 5 1000003 2 = some 5000015 := by decide   -- w = 5
example : ecMulA (grpOps Int) 64 (-3) 123456789 6 = some (-370370367) := by decide   -- w = 6
example : ecMulA (grpOps (ZMod 7)) 64 3 14 1 = none := by decide
example : ecMulA (grpOps (ZMod 7)) 64 3 15 1 = some 3 := by decide
example : ecMulA (grpOps Int) 64 1 0 1 = none := by decide

-- ecHasOrderA_spec
example := ecHasOrderA_spec (grpOps_correct (ZMod 7)) (a := 3) (g := 3) rfl 64 1 7
example : ecHasOrderA (grpOps (ZMod 7)) 64 3 7 1 = true := by decide
example : ecHasOrderA (grpOps (ZMod 7)) 64 3 8 1 = false := by decide

-- ecAddMulA_spec: terms of different NAF lengths, a zero scalar, a result O
example := ecAddMulA_spec (grpOps_correct Int) [(1, 29), (-2, 1000), (3, 0)] [1, -2, 3]
  (by simp) 64
example : ecAddMulA (grpOps Int) 64 [(1, 29), (-2, 1000), (3, 0)] = some (-1971) := by decide
example : ecAddMulA (grpOps Int) 32 [(1, 1000003), (7, 77)] = some 1000542 := by decide
example : ecAddMulA (grpOps Int) 64 [(1, 6), (-2, 3)] = none := by decide
example : ecAddMulA (grpOps (ZMod 7)) 64 [(1, 6), (2, 4)] = none := by decide

end Bee2V.C06

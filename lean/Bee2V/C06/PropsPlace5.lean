/-
C06, phase 3 — the formula theorems of the binary-curve routines (ec2.c) for ARBITRARY placements, part 2:
`ec2ToALD`, `ec2NegA` (`_n`, `_ca`), the affine routines `ec2AddAA`, `ec2SubAA` (`_n`, `_cb`, `_ab`: the C asserts
`a` and `c` disjoint) and `ec2IsOnA`.  Same setting as PropsPlace3.lean.  FALSE-returning routines: the flag is
FALSE iff the result is `O`, and if it is TRUE the destination holds the affine result (`place_opt`).
-/
import Bee2V.C06.LemmasPlace3
import Bee2V.C06.PropsBUn
import Bee2V.C06.PropsBAA
namespace Bee2V.C06
open WeierstrassCurve
set_option linter.unusedSimpArgs false
set_option linter.unusedVariables false
variable {F : Type} [Field F] [DecidableEq F] [CharP F 2] {A B : F}

/-- `ec2ToALD(b, a, ec, stack)`, destination and operand in different buffers: FALSE iff `a == O`, otherwise the affine point -/
theorem ec2ToALD_anywhere_n {b a s : Nat} (hb : 2 ≤ b) (ha : 2 ≤ a) (hba : b + 2 ≤ a ∨ a + 3 ≤ b)
    (hbs : b + 2 ≤ s) (has : a + 3 ≤ s) (st : Store F) (hA : st.get rA = A) (hB : st.get rB = B)
    {P : (Wb A B).Point} (hp : RepB3 A B (get3 st a) P) :
    (((ec2ToALD b a s).run (fieldFld F) st).2 = false ↔ P = 0) ∧
    (((ec2ToALD b a s).run (fieldFld F) st).2 = true →
      RepB2 A B (get2 ((ec2ToALD b a s).run (fieldFld F) st).1 b) P) := by
  have e : optRes ((ec2ToALD b a s).run (fieldFld F) st) b =
      toa2 (curveB A B) .n (get3 st a) :=
    place_opt (S := SW 2 3 0) (c := b) (a := a) (b := 0) (s := s) (P := ec2ToALD 2 5 11) _
      (by place_map2) (by inj_w) (by decide) (by decide) (by decide)
      (ag1 (cv := curveB A B) .n (.inl rfl) hA hB)
  exact optRes_spec e (toaB_correct (.inl rfl) hp)

/-- `ec2ToALD(b, a, ec, stack)`, in place: FALSE iff `a == O`, otherwise the affine point -/
theorem ec2ToALD_anywhere_ca {b s : Nat} (hb : 2 ≤ b) (hbs : b + 3 ≤ s) (st : Store F) (hA : st.get rA = A)
    (hB : st.get rB = B) {P : (Wb A B).Point} (hp : RepB3 A B (get3 st b) P) :
    (((ec2ToALD b b s).run (fieldFld F) st).2 = false ↔ P = 0) ∧
    (((ec2ToALD b b s).run (fieldFld F) st).2 = true →
      RepB2 A B (get2 ((ec2ToALD b b s).run (fieldFld F) st).1 b) P) := by
  have e : optRes ((ec2ToALD b b s).run (fieldFld F) st) b =
      toa2 (curveB A B) .ca (get3 st b) :=
    place_opt (S := SW 3 0 0) (c := b) (a := 0) (b := 0) (s := s) (P := ec2ToALD 2 2 11) _
      (by place_map2) (by inj_w) (by decide) (by decide) (by decide)
      (ag1 (cv := curveB A B) .ca (.inr rfl) hA hB)
  exact optRes_spec e (toaB_correct (.inr rfl) hp)

/-- `ec2NegA(b, a, ec)`, destination and operand in different buffers -/
theorem ec2NegA_anywhere_n {b a : Nat} (hb : 2 ≤ b) (ha : 2 ≤ a) (hba : b + 2 ≤ a ∨ a + 2 ≤ b) (st : Store F)
    (hA : st.get rA = A) (hB : st.get rB = B) {P : (Wb A B).Point} (hp : RepB2 A B (get2 st a) P) :
    RepB2 A B (get2 ((ec2NegA b a).run (fieldFld F) st).1 b) (-P) := by
  have e : get2 ((ec2NegA b a).run (fieldFld F) st).1 b =
      negA2 (curveB A B) .n (get2 st a) :=
    place_get2 (S := SW 2 2 0) (c := b) (a := a) (b := 0) (s := b + a + 3) (P := ec2NegA 2 5) _
      (by place_map2) (by inj_w) (by decide) (by decide) (by decide)
      (ag1a (cv := curveB A B) .n (.inl rfl) hA hB)
  rw [e]; exact negAB_correct (.inl rfl) hp

/-- `ec2NegA(b, a, ec)`, in place -/
theorem ec2NegA_anywhere_ca {b : Nat} (hb : 2 ≤ b) (st : Store F) (hA : st.get rA = A) (hB : st.get rB = B)
    {P : (Wb A B).Point} (hp : RepB2 A B (get2 st b) P) :
    RepB2 A B (get2 ((ec2NegA b b).run (fieldFld F) st).1 b) (-P) := by
  have e : get2 ((ec2NegA b b).run (fieldFld F) st).1 b =
      negA2 (curveB A B) .ca (get2 st b) :=
    place_get2 (S := SW 2 0 0) (c := b) (a := 0) (b := 0) (s := b + 3) (P := ec2NegA 2 2) _
      (by place_map2) (by inj_w) (by decide) (by decide) (by decide)
      (ag1a (cv := curveB A B) .ca (.inr rfl) hA hB)
  rw [e]; exact negAB_correct (.inr rfl) hp

/-- `ec2AddAA(c, a, b, ec, stack)`, all buffers distinct: FALSE iff `a + b == O`, otherwise the affine sum -/
theorem ec2AddAA_anywhere_n {c a b s : Nat} (hc : 2 ≤ c) (ha : 2 ≤ a) (hb : 2 ≤ b) (hca : c + 2 ≤ a ∨ a + 2 ≤ c)
    (hcb : c + 2 ≤ b ∨ b + 2 ≤ c) (hab : a + 2 ≤ b ∨ b + 2 ≤ a) (hcs : c + 2 ≤ s) (has : a + 2 ≤ s)
    (hbs : b + 2 ≤ s) (st : Store F) (hA : st.get rA = A) (hB : st.get rB = B) {P Q : (Wb A B).Point}
    (hp : RepB2 A B (get2 st a) P) (hq : RepB2 A B (get2 st b) Q) :
    (((ec2AddAA c a b s).run (fieldFld F) st).2 = false ↔ P + Q = 0) ∧
    (((ec2AddAA c a b s).run (fieldFld F) st).2 = true →
      RepB2 A B (get2 ((ec2AddAA c a b s).run (fieldFld F) st).1 c) (P + Q)) := by
  have e : optRes ((ec2AddAA c a b s).run (fieldFld F) st) c =
      addAA2 (curveB A B) .n (get2 st a) (get2 st b) :=
    place_opt (S := SW 2 2 2) (c := c) (a := a) (b := b) (s := s) (P := ec2AddAA 2 5 8 11) _
      (by place_map2) (by inj_w) (by decide) (by decide) (by decide)
      (agAA (cv := curveB A B) .n hA hB)
  exact optRes_spec e (addAA2_correct (.inl rfl) hp hq)

/-- `ec2AddAA(c, a, b, ec, stack)`, `c == b`: FALSE iff `a + b == O`, otherwise the affine sum -/
theorem ec2AddAA_anywhere_cb {c a s : Nat} (hc : 2 ≤ c) (ha : 2 ≤ a) (hca : c + 2 ≤ a ∨ a + 2 ≤ c)
    (hcs : c + 2 ≤ s) (has : a + 2 ≤ s) (st : Store F) (hA : st.get rA = A) (hB : st.get rB = B)
    {P Q : (Wb A B).Point} (hp : RepB2 A B (get2 st a) P) (hq : RepB2 A B (get2 st c) Q) :
    (((ec2AddAA c a c s).run (fieldFld F) st).2 = false ↔ P + Q = 0) ∧
    (((ec2AddAA c a c s).run (fieldFld F) st).2 = true →
      RepB2 A B (get2 ((ec2AddAA c a c s).run (fieldFld F) st).1 c) (P + Q)) := by
  have e : optRes ((ec2AddAA c a c s).run (fieldFld F) st) c =
      addAA2 (curveB A B) .cb (get2 st a) (get2 st c) :=
    place_opt (S := SW 2 2 0) (c := c) (a := a) (b := 0) (s := s) (P := ec2AddAA 2 5 2 11) _
      (by place_map2) (by inj_w) (by decide) (by decide) (by decide)
      (agAA (cv := curveB A B) .cb hA hB)
  exact optRes_spec e (addAA2_correct (.inr rfl) hp hq)

/-- `ec2AddAA(c, a, b, ec, stack)`, `a == b`, `c` distinct: FALSE iff `2a == O` (`xa = 0`), otherwise the affine double -/
theorem ec2AddAA_anywhere_ab {c a s : Nat} (hc : 2 ≤ c) (ha : 2 ≤ a) (hca : c + 2 ≤ a ∨ a + 2 ≤ c)
    (hcs : c + 2 ≤ s) (has : a + 2 ≤ s) (st : Store F) (hA : st.get rA = A) (hB : st.get rB = B)
    {P : (Wb A B).Point} (hp : RepB2 A B (get2 st a) P) :
    (((ec2AddAA c a a s).run (fieldFld F) st).2 = false ↔ P + P = 0) ∧
    (((ec2AddAA c a a s).run (fieldFld F) st).2 = true →
      RepB2 A B (get2 ((ec2AddAA c a a s).run (fieldFld F) st).1 c) (P + P)) := by
  have e : optRes ((ec2AddAA c a a s).run (fieldFld F) st) c =
      addAA2 (curveB A B) .ab (get2 st a) (get2 st a) :=
    place_opt (S := SW 2 2 0) (c := c) (a := a) (b := 0) (s := s) (P := ec2AddAA 2 5 5 11) _
      (by place_map2) (by inj_w) (by decide) (by decide) (by decide)
      (agAA (cv := curveB A B) .ab hA hB)
  exact optRes_spec e (addAA2_same_correct hp _)

/-- `ec2SubAA(c, a, b, ec, stack)`, all buffers distinct: FALSE iff `a - b == O`, otherwise the affine difference -/
theorem ec2SubAA_anywhere_n {c a b s : Nat} (hc : 2 ≤ c) (ha : 2 ≤ a) (hb : 2 ≤ b) (hca : c + 2 ≤ a ∨ a + 2 ≤ c)
    (hcb : c + 2 ≤ b ∨ b + 2 ≤ c) (hab : a + 2 ≤ b ∨ b + 2 ≤ a) (hcs : c + 2 ≤ s) (has : a + 2 ≤ s)
    (hbs : b + 2 ≤ s) (st : Store F) (hA : st.get rA = A) (hB : st.get rB = B) {P Q : (Wb A B).Point}
    (hp : RepB2 A B (get2 st a) P) (hq : RepB2 A B (get2 st b) Q) :
    (((ec2SubAA c a b s).run (fieldFld F) st).2 = false ↔ P - Q = 0) ∧
    (((ec2SubAA c a b s).run (fieldFld F) st).2 = true →
      RepB2 A B (get2 ((ec2SubAA c a b s).run (fieldFld F) st).1 c) (P - Q)) := by
  have e : optRes ((ec2SubAA c a b s).run (fieldFld F) st) c =
      subAA2 (curveB A B) .n (get2 st a) (get2 st b) :=
    place_opt (S := SW 2 2 2) (c := c) (a := a) (b := b) (s := s) (P := ec2SubAA 2 5 8 11) _
      (by place_map2) (by inj_w) (by decide) (by decide) (by decide)
      (agAA (cv := curveB A B) .n hA hB)
  exact optRes_spec e (subAA2_correct (.inl rfl) hp hq)

/-- `ec2SubAA(c, a, b, ec, stack)`, `c == b`: FALSE iff `a - b == O`, otherwise the affine difference -/
theorem ec2SubAA_anywhere_cb {c a s : Nat} (hc : 2 ≤ c) (ha : 2 ≤ a) (hca : c + 2 ≤ a ∨ a + 2 ≤ c)
    (hcs : c + 2 ≤ s) (has : a + 2 ≤ s) (st : Store F) (hA : st.get rA = A) (hB : st.get rB = B)
    {P Q : (Wb A B).Point} (hp : RepB2 A B (get2 st a) P) (hq : RepB2 A B (get2 st c) Q) :
    (((ec2SubAA c a c s).run (fieldFld F) st).2 = false ↔ P - Q = 0) ∧
    (((ec2SubAA c a c s).run (fieldFld F) st).2 = true →
      RepB2 A B (get2 ((ec2SubAA c a c s).run (fieldFld F) st).1 c) (P - Q)) := by
  have e : optRes ((ec2SubAA c a c s).run (fieldFld F) st) c =
      subAA2 (curveB A B) .cb (get2 st a) (get2 st c) :=
    place_opt (S := SW 2 2 0) (c := c) (a := a) (b := 0) (s := s) (P := ec2SubAA 2 5 2 11) _
      (by place_map2) (by inj_w) (by decide) (by decide) (by decide)
      (agAA (cv := curveB A B) .cb hA hB)
  exact optRes_spec e (subAA2_correct (.inr rfl) hp hq)

/-- `ec2SubAA(c, a, b, ec, stack)`, `a == b`, `c` distinct: FALSE (`a - a == O`) for every content of the buffer -/
theorem ec2SubAA_anywhere_ab {c a s : Nat} (hc : 2 ≤ c) (ha : 2 ≤ a) (hca : c + 2 ≤ a ∨ a + 2 ≤ c)
    (hcs : c + 2 ≤ s) (has : a + 2 ≤ s) (st : Store F) (hA : st.get rA = A) (hB : st.get rB = B) :
    ((ec2SubAA c a a s).run (fieldFld F) st).2 = false := by
  have e : optRes ((ec2SubAA c a a s).run (fieldFld F) st) c =
      subAA2 (curveB A B) .ab (get2 st a) (get2 st a) :=
    place_opt (S := SW 2 2 0) (c := c) (a := a) (b := 0) (s := s) (P := ec2SubAA 2 5 5 11) _
      (by place_map2) (by inj_w) (by decide) (by decide) (by decide)
      (agAA (cv := curveB A B) .ab hA hB)
  exact optRes_none (e.trans (BAA.subAA_exec_same .ab (.inl rfl) _ _))

/-- `ec2IsOnA(a, ec, stack)` (after the range test): TRUE iff the curve equation holds -/
theorem ec2IsOnA_anywhere {a s : Nat} (ha : 2 ≤ a) (has : a + 2 ≤ s) (st : Store F) (hA : st.get rA = A)
    (hB : st.get rB = B) :
    ((ec2IsOnA a s).run (fieldFld F) st).2 = true ↔ (get2 st a).2 ^ 2 + (get2 st a).1 * (get2 st a).2 = (get2 st a).1 ^ 3 + A * (get2 st a).1 ^ 2 + B := by
  have e : ((ec2IsOnA a s).run (fieldFld F) st).2 =
      isOnA2 (curveB A B) (get2 st a) :=
    place_flag (S := SW 0 2 0) (c := 0) (a := a) (b := 0) (s := s) (P := ec2IsOnA 5 11) _
      (by place_map2) (by inj_w) (by decide) (by decide)
      (ag1a (cv := curveB A B) .n (.inl rfl) hA hB)
  rw [e]; exact isOnA2_correct _
/-! ### non-vacuity: `y² + xy = x³ + 1` over GF(2), placements different from the canonical one -/

/-- `ec2AddAA(c, a, c)` (`c == b`) with `c = 20`, `a = 7`, stack from `40`: `(1, 0) + (0, 1)`; register 9 and the
    stack register 40 hold garbage -/
example :
    let st : Store (ZMod 2) := upd (upd (put2 (put2 (base (curveB (0 : ZMod 2) 1)) 7 (1, 0)) 20 (0, 1)) 9 1) 40 1
    (((ec2AddAA 20 7 20 40).run (fieldFld (ZMod 2)) st).2 = false ↔
      (.some 1 0 BUn.ns10 + .some 0 1 BUn.ns01 : (Wb (0 : ZMod 2) 1).Point) = 0) ∧
    (((ec2AddAA 20 7 20 40).run (fieldFld (ZMod 2)) st).2 = true →
      RepB2 0 1 (get2 ((ec2AddAA 20 7 20 40).run (fieldFld (ZMod 2)) st).1 20)
        (.some 1 0 BUn.ns10 + .some 0 1 BUn.ns01)) :=
  ec2AddAA_anywhere_cb (by decide) (by decide) (by decide) (by decide) (by decide) _ rfl rfl
    BUn.repB2_10 BUn.repB2_01

/-- `ec2IsOnA(a)` with `a = 7`, stack from `9` -/
example : ((ec2IsOnA 7 9).run (fieldFld (ZMod 2)) (put2 (base (curveB (0 : ZMod 2) 1)) 7 (1, 0))).2 = true :=
  (ec2IsOnA_anywhere (A := 0) (B := 1) (by decide) (by decide) _ rfl rfl).2 (by decide)

end Bee2V.C06

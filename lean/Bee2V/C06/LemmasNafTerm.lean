/-
C06 — NAF layer, part 3: termination within the model's fuel `bitSize d + w + 2` (measure `mu`),
`wwNAF_spec`, `wwNAF_zero`, `decode_digits`.
-/
import Bee2V.C06.LemmasNafInv
namespace Bee2V.C06.MulL
open Bee2V.C06

theorem nafStep_size (a w alen i : Nat) (st : NafSt) : (nafStep a w alen i st).size = st.size + 1 := rfl

/-- the invariant holds for the result of the loop, whatever the fuel -/
theorem nafLoop_inv {d w : Nat} (hw : 2 ≤ w) (fuel : Nat) {st : NafSt} (inv : NafInv d w st) :
    NafInv d w (nafLoop d w (bitSize d) fuel (w + st.size) st) := by
  induction fuel generalizing st with
  | zero => exact inv
  | succ n ih =>
    unfold nafLoop
    split
    · exact inv
    · rename_i hnt
      have := ih (nafInv_step hw inv hnt)
      rwa [nafStep_size, ← Nat.add_assoc] at this

/-- termination measure: an upper bound for the number of remaining iterations -/
def mu (d w : Nat) (st : NafSt) : Nat :=
  if w + st.size < bitSize d then bitSize d - (w + st.size) + w + 1
  else if st.window % 2 = 1 ∧ 2 ^ (w - 1) ≤ st.window then w
  else bitSize st.window

theorem mu2_le {w x : Nat} (hx : x ≤ 2 ^ w) :
    (if x % 2 = 1 ∧ 2 ^ (w - 1) ≤ x then w else bitSize x) ≤ w + 1 := by
  split
  · omega
  · have := Nat.two_pow_pos w
    rw [bitSize_le_iff, Nat.pow_succ]; omega

theorem mu_step {d w : Nat} (hw : 2 ≤ w) {st : NafSt} (hwin : st.window ≤ 2 ^ w)
    (hnt : ¬(st.window = 0 ∧ w + st.size ≥ bitSize d)) :
    mu d w (nafStep d w (bitSize d) (w + st.size) st) < mu d w st := by
  obtain ⟨h1, h2, h3⟩ := two_pow_split hw
  by_cases hph : w + st.size < bitSize d
  · -- phase 1
    have hnext : (nafStep d w (bitSize d) (w + st.size) st).window ≤ 2 ^ w := by
      have hile := inBit_le d (w + st.size) (2 ^ (w - 1))
      rcases nafStep_cases d (bitSize d) (w + st.size) hw st hwin _ rfl with
        ⟨_, heq⟩ | ⟨_, _, heq⟩ | ⟨_, _, _, heq⟩ | ⟨_, _, _, heq⟩ <;> rw [heq] <;> simp only <;> omega
    have hm := mu2_le hnext
    unfold mu
    rw [nafStep_size, if_pos hph]
    split <;> omega
  · -- phase 2
    have hge : bitSize d ≤ w + st.size := Nat.not_lt.1 hph
    have hib := inBit_of_ge (H := 2 ^ (w - 1)) hge
    have hw0 : st.window ≠ 0 := fun h => hnt ⟨h, hge⟩
    unfold mu
    rw [nafStep_size, if_neg hph, if_neg (by omega)]
    rcases nafStep_cases d (bitSize d) (w + st.size) hw st hwin _ rfl with
      ⟨hpar, heq⟩ | ⟨hpar, hlt, heq⟩ | ⟨hpar, hge', hi, heq⟩ | ⟨hpar, hge', hi, heq⟩
    · rw [heq, hib]; simp only [Nat.add_zero]
      rw [if_neg (by omega), if_neg (by omega)]
      exact bitSize_half_lt hw0
    · rw [heq, hib]; simp only
      rw [if_neg (by omega), if_neg (by omega)]
      exact bitSize_pos hw0
    · omega
    · rw [heq, hib]; simp only [Nat.add_zero]
      rw [if_neg (by omega), if_pos ⟨hpar, hge'⟩]
      have : bitSize (2 ^ (w - 1) / 2) ≤ w - 1 := by rw [bitSize_le_iff]; omega
      omega

theorem nafLoop_term {d w : Nat} (hw : 2 ≤ w) (fuel : Nat) {st : NafSt} (inv : NafInv d w st)
    (hf : mu d w st ≤ fuel) :
    let r := nafLoop d w (bitSize d) fuel (w + st.size) st
    r.window = 0 ∧ bitSize d ≤ w + r.size := by
  induction fuel generalizing st with
  | zero =>
    by_cases hnt : st.window = 0 ∧ w + st.size ≥ bitSize d
    · exact hnt
    · have := mu_step hw inv.win hnt; omega
  | succ n ih =>
    unfold nafLoop
    split
    · rename_i h; exact h
    · rename_i hnt
      have hlt := mu_step hw inv.win hnt
      have := ih (nafInv_step hw inv hnt) (by omega)
      rwa [nafStep_size, ← Nat.add_assoc] at this

theorem nafInv_init {d w : Nat} (hd : d ≠ 0) :
    NafInv d w { window := d % 2 ^ w, naf := 0, size := 0 } := by
  refine ⟨?_, ?_, ?_⟩
  · exact Nat.le_of_lt (Nat.mod_lt _ (by positivity))
  · simp only [decode, nafVal, Nat.add_zero, pow_zero, one_mul, zero_add]
    rw [Nat.shiftRight_eq_div_pow]
    have := Nat.mod_add_div d (2 ^ w)
    exact_mod_cast this.symm
  · intro h0 hb
    exfalso
    simp only [Nat.add_zero] at h0 hb
    have := (bitSize_le_iff d w).1 hb
    rw [Nat.mod_eq_of_lt this] at h0
    exact hd h0

theorem mu_init {d w : Nat} (hw : 2 ≤ w) :
    mu d w { window := d % 2 ^ w, naf := 0, size := 0 } ≤ bitSize d + w + 2 := by
  unfold mu
  simp only [Nat.add_zero]
  split
  · omega
  · have := mu2_le (Nat.le_of_lt (Nat.mod_lt d (show 0 < 2 ^ w by positivity)))
    omega

/-- **wwNAF**: the digit string of `wwNAF d w`, read as `ecMulA` reads it, has value `d`; its first
    (most significant) code is odd and positive; the fuel of the model suffices. -/
theorem wwNAF_spec {d w : Nat} (hw : 2 ≤ w) (hd : 0 < d) :
    nafVal (decode w (wwNAF d w).2 (wwNAF d w).1 0) = d ∧ 0 < (wwNAF d w).1 ∧
    getBits (wwNAF d w).2 0 w % 2 = 1 ∧ getBits (wwNAF d w).2 0 w < 2 ^ (w - 1) := by
  have hd0 : d ≠ 0 := by omega
  have inv0 := nafInv_init (w := w) hd0
  have hinv := nafLoop_inv hw (bitSize d + w + 2) inv0
  have hterm := nafLoop_term hw (bitSize d + w + 2) inv0 (mu_init hw)
  simp only [Nat.add_zero] at hinv hterm
  unfold wwNAF
  rw [if_neg hd0]
  simp only
  generalize nafLoop d w (bitSize d) (bitSize d + w + 2) w _ = r at hinv hterm
  obtain ⟨hz, hb⟩ := hterm
  have hv := hinv.val
  rw [hz, (shr_eq_zero_iff d _).2 hb] at hv
  simp only [Nat.cast_zero, mul_zero, add_zero] at hv
  exact ⟨hv.symm, hinv.top hz hb⟩

theorem wwNAF_zero (w : Nat) : wwNAF 0 w = (0, 0) := by simp [wwNAF]

/-- every digit is 0 or odd of magnitude `< 2^(w-1)` -/
theorem decode_digits {w : Nat} (hw : 2 ≤ w) (naf : Nat) :
    ∀ (k i : Nat) (e : Int), e ∈ decode w naf k i →
      e = 0 ∨ (e % 2 = 1 ∧ -(2 ^ (w - 1) : Int) < e ∧ e < 2 ^ (w - 1)) := by
  obtain ⟨h1, h2, h3⟩ := two_pow_split hw
  obtain ⟨H, hH⟩ : ∃ H, H = 2 ^ (w - 1) := ⟨_, rfl⟩
  have hHI : (2 ^ (w - 1) : Int) = (H : Int) := by rw [hH]; push_cast; rfl
  rw [hHI]
  rw [← hH] at h1 h2
  intro k
  induction k with
  | zero => intro i e he; simp [decode] at he
  | succ k ih =>
    intro i e he
    unfold decode at he
    simp only at he
    split at he
    · rename_i hodd
      rcases List.mem_cons.1 he with rfl | he
      · right
        have hlt : getBits naf i w < 2 ^ w := Nat.mod_lt _ (by positivity)
        generalize getBits naf i w = c at hodd hlt
        by_cases hc : c < H
        · rw [sval_pos hH hc]; omega
        · rw [sval_neg hH (by omega)]; omega
      · exact ih _ _ he
    · rcases List.mem_cons.1 he with rfl | he
      · left; rfl
      · exact ih _ _ he

end Bee2V.C06.MulL

/-
C06 — executable model, part 3: `wwNAF` (src/math/ww.c) and `ecNAFWidth` (src/math/ec.c).

`wwNAF(naf, a, n, w)` writes the width-`w` NAF of `a` as a packed bit string and returns the number
of digits.  Digits are produced from the least significant one; each new digit is shifted in at the
LOW end (`wwShHi` + `wwSetBits(naf, 0, w, digit)`), so that the most significant digit ends at bit 0.
A zero digit takes one bit (`0`), a non-zero digit `w` bits: the odd value `|d| < 2^(w-1)` with the
bit `2^(w-1)` set for a negative digit.  The packed string is modelled as an unbounded `Nat`
(the C buffer has `2n+1` words; that this suffices is a stack-depth matter, not modelled here).

Arithmetic form of the word operations (valid because `window ≤ 2^w`, `w < B_PER_W`):
`window & hi_bit` ↦ `window ≥ hi` for an odd `window < 2^w`; `window & mask` ↦ `window % hi`;
`(0 - window) & mask` ↦ `(hi - window % hi) % hi`; `digit ^= hi_bit` ↦ `digit + hi` (bit clear).
-/
namespace Bee2V.C06

/-- `wwBitSize` -/
def bitSize (a : Nat) : Nat := if a = 0 then 0 else a.log2 + 1

/-- `ecNAFWidth(l)` -/
def ecNAFWidth (l : Nat) : Nat :=
  if l ≥ 336 then 6 else if l ≥ 120 then 5 else if l ≥ 40 then 4 else 3

structure NafSt where
  window : Nat
  naf : Nat
  size : Nat
  deriving Repr, DecidableEq

/-- one iteration of the `for (i = w; window || i < a_len; ++i)` body -/
def nafStep (a w alen i : Nat) (st : NafSt) : NafSt :=
  let next := 2 ^ w
  let hi := next / 2
  let wn :=
    if st.window % 2 = 1 then
      let dw :=
        if st.window % next ≥ hi then
          if i ≥ alen then (st.window % hi, hi)
          else ((hi - st.window % hi) % hi + hi, next)
        else (st.window, 0)
      (dw.2, st.naf * next + dw.1)         -- wwShHi(naf, .., w); wwSetBits(naf, 0, w, digit)
    else (st.window, st.naf * 2)           -- wwShHi(naf, .., 1)
  let window' := wn.1 / 2 + (if i < alen ∧ a.testBit i then hi else 0)
  { window := window', naf := wn.2, size := st.size + 1 }

/-- the loop, with explicit fuel (the theorems show `alen + w + 2` iterations suffice) -/
def nafLoop (a w alen : Nat) : Nat → Nat → NafSt → NafSt
  | 0, _, st => st
  | fuel + 1, i, st =>
    if st.window = 0 ∧ i ≥ alen then st
    else nafLoop a w alen fuel (i + 1) (nafStep a w alen i st)

/-- `wwNAF(naf, a, n, w)`: (naf_size, packed naf) -/
def wwNAF (a w : Nat) : Nat × Nat :=
  if a = 0 then (0, 0) else
  let alen := bitSize a
  let st := nafLoop a w alen (alen + w + 2) w { window := a % 2 ^ w, naf := 0, size := 0 }
  (st.size, st.naf)

/-- `wwGetBits(naf, i, w)` -/
def getBits (naf i w : Nat) : Nat := (naf >>> i) % 2 ^ w

end Bee2V.C06

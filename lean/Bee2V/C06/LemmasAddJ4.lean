/-
C06 — ecpAddJ/ecpSubJ: assembly.  `add_core` is the case analysis of the group law against the
branch behaviour of the program (stated abstractly over the result `r`); `add_ok`, `sub_ok`, `add_ab_ok`,
`sub_ab_ok` instantiate it with the execution lemmas for each aliasing.
-/
import Bee2V.C06.LemmasAddJ3
import Mathlib.Tactic.NormNum
namespace Bee2V.C06.AddJ
open WeierstrassCurve
set_option linter.unusedSimpArgs false
set_option linter.unusedVariables false
set_option linter.unusedSectionVars false
variable {F : Type} [Field F] [DecidableEq F] {A B : F}

theorem add_core {X1 Y1 Z1 X2 Y2 Z2 : F} {r : P3 F} {P Q : (Wc A B).Point} (h2 : (2 : F) ≠ 0)
    (hp : Rep3 A B (X1, Y1, Z1) P) (hq : Rep3 A B (X2, Y2, Z2) Q)
    (eaO : Z1 = 0 → r = (X2, Y2, Z2))
    (ebO : Z1 ≠ 0 → Z2 = 0 → r = (X1, Y1, Z1))
    (egen : Z1 ≠ 0 → Z2 ≠ 0 → hh X1 Z1 X2 Z2 ≠ 0 → r = addG X1 Y1 Z1 X2 Y2 Z2)
    (eopp : Z1 ≠ 0 → Z2 ≠ 0 → hh X1 Z1 X2 Z2 = 0 → s1 Y1 Z2 ≠ s1 Y2 Z1 → r.2.2 = 0)
    (eeq0 : Z1 ≠ 0 → Z2 ≠ 0 → hh X1 Z1 X2 Z2 = 0 → s1 Y1 Z2 = s1 Y2 Z1 → Y1 = 0 → Y2 = 0 → r.2.2 = 0)
    (eeq : Z1 ≠ 0 → Z2 ≠ 0 → hh X1 Z1 X2 Z2 = 0 → s1 Y1 Z2 = s1 Y2 Z1 → Y1 ≠ 0 → Y2 ≠ 0 →
      r = dblG A X1 Y1 Z1 ∨ r = dblG A X2 Y2 Z2) :
    Rep3 A B r (P + Q) := by
  by_cases h1 : Z1 = 0
  · rw [eaO h1, rep3_O h1 hp, zero_add]; exact hq
  by_cases h2' : Z2 = 0
  · rw [ebO h1 h2', rep3_O h2' hq, add_zero]; exact hp
  obtain ⟨x1, y1, hn1, rfl, rfl, rfl⟩ := rep3_nz h1 hp
  obtain ⟨x2, y2, hn2, rfl, rfl, rfl⟩ := rep3_nz h2' hq
  have hzz : Z1 ^ 2 * Z2 ^ 2 ≠ 0 := mul_ne_zero (pow_ne_zero _ h1) (pow_ne_zero _ h2')
  have hzz3 : Z1 ^ 3 * Z2 ^ 3 ≠ 0 := mul_ne_zero (pow_ne_zero _ h1) (pow_ne_zero _ h2')
  by_cases hH : hh (x1 * Z1 ^ 2) Z1 (x2 * Z2 ^ 2) Z2 = 0
  · have hx : x1 = x2 := by
      have h := hH
      rw [hh_affine] at h
      exact (sub_eq_zero.1 ((mul_eq_zero.1 h).resolve_left hzz)).symm
    subst hx
    by_cases hS : s1 (y1 * Z1 ^ 3) Z2 = s1 (y2 * Z2 ^ 3) Z1
    · have hy : y1 = y2 := by
        have h := s1_affine y1 Z1 y2 Z2
        rw [hS, sub_self] at h
        exact sub_eq_zero.1 ((mul_eq_zero.1 h.symm).resolve_left hzz3)
      subst hy
      by_cases hy0 : y1 = 0
      · rw [dbl_order2 hn1 hy0]
        exact rep3_zero (eeq0 h1 h2' hH hS (by rw [hy0, zero_mul]) (by rw [hy0, zero_mul]))
      · have hY1 : y1 * Z1 ^ 3 ≠ 0 := mul_ne_zero hy0 (pow_ne_zero _ h1)
        have hY2 : y1 * Z2 ^ 3 ≠ 0 := mul_ne_zero hy0 (pow_ne_zero _ h2')
        rcases eeq h1 h2' hH hS hY1 hY2 with e | e
        · rw [e]; exact dblG_rep h2 h1 hn1 hy0
        · rw [e]; exact dblG_rep h2 h2' hn2 hy0
    · have hy : y1 = -y2 := by
        rcases y_eq_or_neg hn1 hn2 with e | e
        · exact absurd (by rw [e]; unfold s1; ring) hS
        · exact e
      rw [add_inverse hn1 hn2 rfl hy]
      exact rep3_zero (eopp h1 h2' hH hS)
  · have hx : x1 ≠ x2 := by
      intro e; apply hH; rw [hh_affine, e, sub_self, mul_zero]
    rw [egen h1 h2' hH]
    exact addG_rep h2 h1 h2' hn1 hn2 hx

theorem add_ok {al : Al} (h2 : (2 : F) ≠ 0) (hal : al = .n ∨ al = .ca ∨ al = .cb) {p q : P3 F}
    {P Q : (Wc A B).Point} (hp : Rep3 A B p P) (hq : Rep3 A B q Q) :
    Rep3 A B (run2 (curveF A B) ecpAddJ al p q) (P + Q) := by
  obtain ⟨X1, Y1, Z1⟩ := p; obtain ⟨X2, Y2, Z2⟩ := q
  refine add_core h2 hp hq (add_exec_aO hal X1 Y1 Z1 X2 Y2 Z2) (add_exec_bO hal X1 Y1 Z1 X2 Y2 Z2)
    (add_exec_gen hal X1 Y1 Z1 X2 Y2 Z2) (add_exec_opp hal X1 Y1 Z1 X2 Y2 Z2) ?_ ?_
  · intro h1 h2' hH hS hY1 hY2
    rcases hal with rfl | rfl | rfl
    · exact add_exec_eq_a0 (Or.inl rfl) X1 Y1 Z1 X2 Y2 Z2 h1 h2' hH hS hY1
    · exact add_exec_eq_b0 X1 Y1 Z1 X2 Y2 Z2 h1 h2' hH hS hY2
    · exact add_exec_eq_a0 (Or.inr rfl) X1 Y1 Z1 X2 Y2 Z2 h1 h2' hH hS hY1
  · intro h1 h2' hH hS hY1 hY2
    rcases hal with rfl | rfl | rfl
    · exact Or.inl (add_exec_eq_a (Or.inl rfl) X1 Y1 Z1 X2 Y2 Z2 h1 h2' hH hS hY1)
    · exact Or.inr (add_exec_eq_b X1 Y1 Z1 X2 Y2 Z2 h1 h2' hH hS hY2)
    · exact Or.inl (add_exec_eq_a (Or.inr rfl) X1 Y1 Z1 X2 Y2 Z2 h1 h2' hH hS hY1)

theorem sub_ok {al : Al} (h2 : (2 : F) ≠ 0) (hal : al = .n ∨ al = .ca ∨ al = .cb) {p q : P3 F}
    {P Q : (Wc A B).Point} (hp : Rep3 A B p P) (hq : Rep3 A B q Q) :
    Rep3 A B (run2 (curveF A B) ecpSubJ al p q) (P - Q) := by
  obtain ⟨X1, Y1, Z1⟩ := p; obtain ⟨X2, Y2, Z2⟩ := q
  rw [sub_eq_add_neg]
  refine add_core h2 hp (rep3_neg hq) (sub_exec_aO hal X1 Y1 Z1 X2 Y2 Z2) (sub_exec_bO hal X1 Y1 Z1 X2 Y2 Z2)
    (sub_exec_gen hal X1 Y1 Z1 X2 Y2 Z2) (sub_exec_opp hal X1 Y1 Z1 X2 Y2 Z2) ?_ ?_
  · intro h1 h2' hH hS hY1 hY2
    rcases hal with rfl | rfl | rfl
    · exact sub_exec_eq_a0 (Or.inl rfl) X1 Y1 Z1 X2 Y2 Z2 h1 h2' hH hS hY1
    · exact sub_exec_eq_b0 X1 Y1 Z1 X2 Y2 Z2 h1 h2' hH hS (neg_eq_zero.1 hY2)
    · exact sub_exec_eq_a0 (Or.inr rfl) X1 Y1 Z1 X2 Y2 Z2 h1 h2' hH hS hY1
  · intro h1 h2' hH hS hY1 hY2
    rcases hal with rfl | rfl | rfl
    · exact Or.inl (sub_exec_eq_a (Or.inl rfl) X1 Y1 Z1 X2 Y2 Z2 h1 h2' hH hS hY1)
    · exact Or.inr (sub_exec_eq_b X1 Y1 Z1 X2 Y2 Z2 h1 h2' hH hS (neg_ne_zero.1 hY2))
    · exact Or.inl (sub_exec_eq_a (Or.inr rfl) X1 Y1 Z1 X2 Y2 Z2 h1 h2' hH hS hY1)

theorem add_ab_ok (h2 : (2 : F) ≠ 0) {p : P3 F} {P : (Wc A B).Point} (hp : Rep3 A B p P) (q : P3 F) :
    Rep3 A B (run2 (curveF A B) ecpAddJ .ab p q) (P + P) := by
  obtain ⟨X1, Y1, Z1⟩ := p
  by_cases h1 : Z1 = 0
  · rw [rep3_O h1 hp, add_zero]; exact rep3_zero (add_exec_ab_O X1 Y1 Z1 q h1)
  obtain ⟨x, y, hn, rfl, rfl, rfl⟩ := rep3_nz h1 hp
  by_cases hy : y = 0
  · rw [dbl_order2 hn hy]
    exact rep3_zero (add_exec_ab_0 _ _ _ q h1 (by rw [hy, zero_mul]))
  · rw [add_exec_ab _ _ _ q h1 (mul_ne_zero hy (pow_ne_zero _ h1))]
    exact dblG_rep h2 h1 hn hy

/-- `a - a` with `a == b`: `O` whatever the triple is (no hypothesis on `p` is needed) -/
theorem sub_ab_ok (h2 : (2 : F) ≠ 0) (p q : P3 F) :
    Rep3 A B (run2 (curveF A B) ecpSubJ .ab p q) 0 := by
  obtain ⟨X1, Y1, Z1⟩ := p
  apply rep3_zero
  by_cases h1 : Z1 = 0
  · exact sub_exec_ab_O X1 Y1 Z1 q h1
  by_cases hY : Y1 = 0
  · exact sub_exec_ab_0 X1 Y1 Z1 q h1 hY
  · refine sub_exec_ab X1 Y1 Z1 q h1 ?_
    unfold s1; intro e
    have h : 2 * (Y1 * (Z1 * (Z1 * Z1))) = 0 := by linear_combination e
    simp [h2, hY, h1] at h

/-! data for the non-vacuity examples of `PropsAddJ`: `y² = x³ + 1` over `ℚ` -/
theorem ns23 : (Wc (0 : ℚ) 1).Nonsingular 2 3 :=
  (Wc_nonsingular _ _ _ _).2 ⟨by norm_num, Or.inr (by norm_num)⟩
theorem ns01 : (Wc (0 : ℚ) 1).Nonsingular 0 1 :=
  (Wc_nonsingular _ _ _ _).2 ⟨by norm_num, Or.inr (by norm_num)⟩
theorem nsm10 : (Wc (0 : ℚ) 1).Nonsingular (-1) 0 :=
  (Wc_nonsingular _ _ _ _).2 ⟨by norm_num, Or.inl (by norm_num)⟩
theorem rep23 : Rep3 (0 : ℚ) 1 (8, 24, 2) (.some 2 3 ns23) :=
  rep3_of_rep2 (by norm_num) ⟨ns23, rfl⟩ (by norm_num) (by norm_num)
theorem rep01 : Rep3 (0 : ℚ) 1 (0, 1, 1) (.some 0 1 ns01) :=
  rep3_of_rep2 (by norm_num) ⟨ns01, rfl⟩ (by norm_num) (by norm_num)
theorem repm10 : Rep3 (0 : ℚ) 1 (-1, 0, 1) (.some (-1) 0 nsm10) :=
  rep3_of_rep2 (by norm_num) ⟨nsm10, rfl⟩ (by norm_num) (by norm_num)

end Bee2V.C06.AddJ

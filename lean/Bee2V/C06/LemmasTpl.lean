/-
C06 / tripling, part 1: symbolic execution of `ecpTplJ` (tpl-2007-bl) and `ecpTplJA3`
(tpl-2007-bl-2, A = −3) on values, distinct (`al = .n`) and in place (`al = .ca`).
Both routines are split into a head (up to `E²`) and a common tail of 28 instructions; the split is
checked by `rfl` against the programs of `Ecp`.  Result: `run1 … = tplOut A X Y Z` with
`M = 3X² + AZ⁴`, `E = 12XY² − M²`, `U = 2ME − 16Y⁴`,
`X₃ = 4(XE² − 4Y²U)`, `Y₃ = 8Y(U(16Y⁴ − U) − E³)`, `Z₃ = 2ZE`.
-/
import Bee2V.C06.Spec
import Mathlib.Tactic.Ring
import Mathlib.Tactic.FieldSimp
import Mathlib.Tactic.LinearCombination
namespace Bee2V.C06.Tpl
open WeierstrassCurve Instr Prog
set_option linter.unusedSectionVars false
set_option linter.unusedSimpArgs false
variable {F : Type} [Field F] [DecidableEq F] {A B : F}

/-- `M = 3X² + A·Z⁴` -/
def tM (A X Z : F) : F := 3 * X ^ 2 + A * Z ^ 4
/-- `E = 12·X·Y² − M²` -/
def tE (A X Y Z : F) : F := 12 * X * Y ^ 2 - tM A X Z ^ 2
/-- `U = 2·M·E − 16·Y⁴` -/
def tU (A X Y Z : F) : F := 2 * tM A X Z * tE A X Y Z - 16 * Y ^ 4
/-- closed form of the output of `ecpTplJ` -/
def tplOut (A X Y Z : F) : P3 F :=
  (4 * (X * tE A X Y Z ^ 2 - 4 * Y ^ 2 * tU A X Y Z),
   8 * Y * (tU A X Y Z * (16 * Y ^ 4 - tU A X Y Z) - tE A X Y Z ^ 3),
   2 * Z * tE A X Y Z)

/-- running a straight-line block = folding `exec` over it -/
theorem block_run (f : Fld F) (l : List Instr) (k : Prog) (st : Store F) :
    (Prog.block l k).run f st = k.run f (l.foldl (fun s i => i.exec f s) st) := by
  induction l generalizing st with
  | nil => rfl
  | cons i is ih => simp [Prog.block, Prog.run, ih]

/-- first 19 instructions of `ecpTplJ` (up to `E²`) -/
def headJ (a s : Nat) : List Instr :=
  let t0 := s; let t1 := s + 1; let t2 := s + 2; let t3 := s + 3
  let t4 := s + 4; let t5 := s + 5; let t6 := s + 6; let t7 := s + 7
  [sqr t0 (cX a), sqr t1 (cY a), sqr t2 (cZ a), sqr t3 t1, sqr t4 t2, mul t4 t4 rA, dbl t5 t0,
   add t5 t0 t5, add t4 t4 t5, sqr t5 t4, add t6 (cX a) t1, sqr t6 t6, sub t6 t6 t0, sub t6 t6 t3,
   dbl t7 t6, add t6 t6 t7, dbl t6 t6, sub t6 t6 t5, sqr t7 t6]

/-- first 16 instructions of `ecpTplJA3` (up to `E²`) -/
def headA3 (a s : Nat) : List Instr :=
  let t1 := s; let t2 := s + 1; let t3 := s + 2
  let t4 := s + 3; let t5 := s + 4; let t6 := s + 5; let t7 := s + 6
  [sqr t1 (cY a), sqr t2 (cZ a), sqr t3 t1, sub t4 (cX a) t2, add t5 (cX a) t2, mul t4 t4 t5,
   dbl t5 t4, add t4 t4 t5, sqr t5 t4, mul t6 (cX a) t1, dbl t7 t6, add t6 t6 t7, dbl t6 t6,
   dbl t6 t6, sub t6 t6 t5, sqr t7 t6]

/-- the common last 28 instructions of `ecpTplJ` and `ecpTplJA3` -/
def tailL (b a t1 t2 t3 t4 t5 t6 t7 : Nat) : List Instr :=
  [dbl t3 t3, dbl t3 t3, dbl t3 t3, dbl t3 t3,
   add (cZ b) (cZ a) t6, sqr (cZ b) (cZ b), sub (cZ b) (cZ b) t2, sub (cZ b) (cZ b) t7,
   add t2 t4 t6, sqr t2 t2, sub t2 t2 t5, sub t2 t2 t7, sub t2 t2 t3, sub t3 t3 t2,
   mul t3 t2 t3, mul t6 t6 t7, sub t3 t3 t6,
   mul (cY b) (cY a) t3, dbl (cY b) (cY b), dbl (cY b) (cY b), dbl (cY b) (cY b),
   mul t1 t1 t2, dbl t1 t1, dbl t1 t1,
   mul (cX b) (cX a) t7, sub (cX b) (cX b) t1, dbl (cX b) (cX b), dbl (cX b) (cX b)]

theorem tplJ_split (b a s : Nat) : ecpTplJ b a s =
    Prog.block (headJ a s) (Prog.block
      (tailL b a (s + 1) (s + 2) (s + 3) (s + 4) (s + 5) (s + 6) (s + 7)) (.ret true)) := rfl

theorem tplJA3_split (b a s : Nat) : ecpTplJA3 b a s =
    Prog.block (headA3 a s) (Prog.block
      (tailL b a s (s + 1) (s + 2) (s + 3) (s + 4) (s + 5) (s + 6)) (.ret true)) := rfl


/-- the tail on a generic store whose scratch holds `Y², Z², Y⁴, M, M², E, E²` -/
theorem tail_run (a t1 : Nat) (ha : a = 2 ∨ a = 5) (ht : t1 = 11 ∨ t1 = 12)
    (st : Store F) (X Y Z M E : F)
    (hX : st.get a = X) (hY : st.get (a + 1) = Y) (hZ : st.get (a + 2) = Z)
    (h1 : st.get t1 = Y ^ 2) (h2 : st.get (t1 + 1) = Z ^ 2) (h3 : st.get (t1 + 2) = Y ^ 4)
    (h4 : st.get (t1 + 3) = M) (h5 : st.get (t1 + 4) = M ^ 2) (h6 : st.get (t1 + 5) = E)
    (h7 : st.get (t1 + 6) = E ^ 2) :
    get3 ((Prog.block (tailL 2 a t1 (t1 + 1) (t1 + 2) (t1 + 3) (t1 + 4) (t1 + 5) (t1 + 6))
      (.ret true)).run (fieldFld F) st).1 2 =
    (4 * (X * E ^ 2 - 4 * Y ^ 2 * (2 * M * E - 16 * Y ^ 4)),
     8 * Y * ((2 * M * E - 16 * Y ^ 4) * (16 * Y ^ 4 - (2 * M * E - 16 * Y ^ 4)) - E ^ 3),
     2 * Z * E) := by
  rcases ha with rfl | rfl <;> rcases ht with rfl | rfl <;>
  · simp only [Nat.reduceAdd] at hX hY hZ h1 h2 h3 h4 h5 h6 h7
    simp [tailL, Prog.run, Prog.block, Instr.exec, upd, get3, fieldFld, cX, cY, cZ,
      hX, hY, hZ, h1, h2, h3, h4, h5, h6, h7]
    refine ⟨?_, ?_, ?_⟩ <;> ring

theorem slotA_cases {al : Al} (hal : al = .n ∨ al = .ca) : slotA al = 2 ∨ slotA al = 5 := by
  rcases hal with rfl | rfl <;> simp [slotA, sc, sa]

theorem tplJ_exec {al : Al} (hal : al = .n ∨ al = .ca) (X Y Z : F) :
    run1 (curveF A B) ecpTplJ al (X, Y, Z) = tplOut A X Y Z := by
  unfold run1
  simp only [sc, sk]
  rw [tplJ_split, block_run]
  have ha := slotA_cases hal
  generalize slotA al = a at ha ⊢
  refine tail_run a 12 ha (Or.inr rfl) _ X Y Z (tM A X Z) (tE A X Y Z) ?_ ?_ ?_ ?_ ?_ ?_ ?_ ?_ ?_ ?_ <;>
  · rcases ha with rfl | rfl <;>
    · simp [headJ, List.foldl, Instr.exec, upd, put3, base, curveF, mkCurve, fieldFld, cX, cY, cZ,
        rA, rB, tM, tE]
      try ring

theorem tplJA3_exec {al : Al} (hal : al = .n ∨ al = .ca) (hA : A = -3) (X Y Z : F) :
    run1 (curveF A B) ecpTplJA3 al (X, Y, Z) = tplOut A X Y Z := by
  subst hA
  unfold run1
  simp only [sc, sk]
  rw [tplJA3_split, block_run]
  have ha := slotA_cases hal
  generalize slotA al = a at ha ⊢
  refine tail_run a 11 ha (Or.inl rfl) _ X Y Z (tM (-3) X Z) (tE (-3) X Y Z) ?_ ?_ ?_ ?_ ?_ ?_ ?_ ?_ ?_ ?_ <;>
  · rcases ha with rfl | rfl <;>
    · simp [headA3, List.foldl, Instr.exec, upd, put3, base, curveF, mkCurve, fieldFld, cX, cY, cZ,
        rA, rB, tM, tE]
      try ring
end Bee2V.C06.Tpl

/-
C06, phase 3 — the moduli of the standard binary fields as the driver builds them from the field token
`b:m:k1:k2:k3` (`Drv.ctx?`), and their irreducibility, decided in the kernel by the verified Ben-Or test of the
C05 area (`instance : DecidablePred C05.NatIrred`).
-/
import Bee2V.C05.PropsSimC06
namespace Bee2V.C06
open Bee2V.C05 (NatIrred)

/-- modulus `x^m + x^k1 + x^k2 + x^k3 + 1` (a zero exponent is skipped), bit i = coefficient of x^i -/
def gf2Mod (m k1 k2 k3 : Nat) : Nat :=
  [m, k1, k2, k3].foldl (fun acc k => if k = 0 then acc else acc ||| (1 <<< k)) 1

theorem natIrred_163 : NatIrred (gf2Mod 163 7 6 3) := by decide +kernel
theorem natIrred_233 : NatIrred (gf2Mod 233 74 0 0) := by decide +kernel
theorem natIrred_283 : NatIrred (gf2Mod 283 12 7 5) := by decide +kernel

instance fact163 : Fact (NatIrred (gf2Mod 163 7 6 3)) := ⟨natIrred_163⟩
instance fact233 : Fact (NatIrred (gf2Mod 233 74 0 0)) := ⟨natIrred_233⟩
instance fact283 : Fact (NatIrred (gf2Mod 283 12 7 5)) := ⟨natIrred_283⟩

end Bee2V.C06

/-
C06 — property theorems for the one-operand routines of `ecp.c`: `ecpNegJ`, `ecpDblJ`, `ecpDblJA3`,
`ecpDblAJ`, `ecpFromAJ`, `ecpToAJ`, `ecpNegA`, `ecSetO`, `ecpIsOnA`.  Each returns the value of
Mathlib's group law on `(Wc A B).Point` for EVERY input — the point at infinity and the points of
order two included — with the destination distinct from the operand (`al = .n`) and in place
(`al = .ca`), over any field with `2 ≠ 0`.
-/
import Bee2V.C06.LemmasUn3
namespace Bee2V.C06
open WeierstrassCurve

set_option linter.unusedSectionVars false
set_option linter.unusedVariables false
variable {F : Type} [Field F] [DecidableEq F] {A B : F}

/-- `ecpNegJ` -/
theorem neg_correct {al : Al} {p : P3 F} {P : (Wc A B).Point} (hal : al = .n ∨ al = .ca)
    (hp : Rep3 A B p P) : Rep3 A B ((ecOps (curveF A B)).neg al p) (-P) :=
  Un.neg_ok hal hp

example : Rep3 (0 : ℚ) 1 ((ecOps (curveF 0 1)).neg .ca (8, 24, 2)) (-(.some 2 3 Un.ns23)) :=
  neg_correct (Or.inr rfl) Un.rep3_23

/-- `ecpDblJ` (any `A`) -/
theorem dblJ_correct {al : Al} {p : P3 F} {P : (Wc A B).Point} (h2 : (2 : F) ≠ 0)
    (hal : al = .n ∨ al = .ca) (hp : Rep3 A B p P) :
    Rep3 A B (run1 (curveF A B) ecpDblJ al p) (P + P) :=
  Un.dblJ_ok h2 hal hp

example : Rep3 (-3 : ℚ) 3 (run1 (curveF (-3) 3) ecpDblJ .ca (4, 8, 2))
    (.some 1 1 Un.ns11 + .some 1 1 Un.ns11) :=
  dblJ_correct (by norm_num) (Or.inr rfl) Un.rep3_11

/-- `ecpDblJA3` (`A = -3`) -/
theorem dblJA3_correct {al : Al} {p : P3 F} {P : (Wc A B).Point} (h2 : (2 : F) ≠ 0) (hA : A = -3)
    (hal : al = .n ∨ al = .ca) (hp : Rep3 A B p P) :
    Rep3 A B (run1 (curveF A B) ecpDblJA3 al p) (P + P) :=
  Un.dblJA3_ok h2 hA hal hp

example : Rep3 (-3 : ℚ) 3 (run1 (curveF (-3) 3) ecpDblJA3 .ca (4, 8, 2))
    (.some 1 1 Un.ns11 + .some 1 1 Un.ns11) :=
  dblJA3_correct (by norm_num) rfl (Or.inr rfl) Un.rep3_11

/-- `ec->dbl` as installed by `ecpCreateJ` (`ecpDblJA3` iff `A == -3`, else `ecpDblJ`) -/
theorem dbl_correct {al : Al} {p : P3 F} {P : (Wc A B).Point} (h2 : (2 : F) ≠ 0)
    (hal : al = .n ∨ al = .ca) (hp : Rep3 A B p P) :
    Rep3 A B ((ecOps (curveF A B)).dbl al p) (P + P) :=
  Un.dbl_ok h2 hal hp

example : Rep3 (0 : ℚ) 1 ((ecOps (curveF 0 1)).dbl .ca (8, 24, 2))
    (.some 2 3 Un.ns23 + .some 2 3 Un.ns23) :=
  dbl_correct (by norm_num) (Or.inr rfl) Un.rep3_23
/-- a point of order two, in place -/
example : Rep3 (0 : ℚ) 1 ((ecOps (curveF 0 1)).dbl .ca (-4, 0, 2))
    (.some (-1) 0 Un.nsm10 + .some (-1) 0 Un.nsm10) :=
  dbl_correct (by norm_num) (Or.inr rfl) Un.rep3_m10
/-- the `A = -3` selection -/
example : Rep3 (-3 : ℚ) 3 ((ecOps (curveF (-3) 3)).dbl .n (4, 8, 2))
    (.some 1 1 Un.ns11 + .some 1 1 Un.ns11) :=
  dbl_correct (by norm_num) (Or.inl rfl) Un.rep3_11

/-- `ecpDblAJ`, including `y = 0 → O` -/
theorem dbla_correct {al : Al} {a : P2 F} {P : (Wc A B).Point} (h2 : (2 : F) ≠ 0)
    (hal : al = .n ∨ al = .ca) (ha : Rep2 A B a P) :
    Rep3 A B (dbla (curveF A B) al a) (P + P) :=
  Un.dbla_ok h2 hal ha

example : Rep3 (0 : ℚ) 1 (dbla (curveF 0 1) .ca (2, 3)) (.some 2 3 Un.ns23 + .some 2 3 Un.ns23) :=
  dbla_correct (by norm_num) (Or.inr rfl) Un.rep2_23
example : Rep3 (0 : ℚ) 1 (dbla (curveF 0 1) .n (-1, 0))
    (.some (-1) 0 Un.nsm10 + .some (-1) 0 Un.nsm10) :=
  dbla_correct (by norm_num) (Or.inl rfl) Un.rep2_m10

/-- `ecpFromAJ` -/
theorem froma_correct {al : Al} {a : P2 F} {P : (Wc A B).Point} (hal : al = .n ∨ al = .ca)
    (ha : Rep2 A B a P) : Rep3 A B (froma (curveF A B) al a) P :=
  Un.froma_ok hal ha

example : Rep3 (0 : ℚ) 1 (froma (curveF 0 1) .ca (2, 3)) (.some 2 3 Un.ns23) :=
  froma_correct (Or.inr rfl) Un.rep2_23

/-- `ecpToAJ`: FALSE iff the point is `O`, otherwise the affine point -/
theorem toa_correct {al : Al} {p : P3 F} {P : (Wc A B).Point} (hal : al = .n ∨ al = .ca)
    (hp : Rep3 A B p P) :
    (toa (curveF A B) al p = none ↔ P = 0) ∧ ∀ b, toa (curveF A B) al p = some b → Rep2 A B b P :=
  Un.toa_ok hal hp

example : (toa (curveF (0 : ℚ) 1) .ca (8, 24, 2) = none ↔ (Affine.Point.some 2 3 Un.ns23) = 0) ∧
    ∀ b, toa (curveF (0 : ℚ) 1) .ca (8, 24, 2) = some b → Rep2 0 1 b (.some 2 3 Un.ns23) :=
  toa_correct (Or.inr rfl) Un.rep3_23

/-- `ecpNegA` -/
theorem negA_correct {al : Al} {a : P2 F} {P : (Wc A B).Point} (hal : al = .n ∨ al = .ca)
    (ha : Rep2 A B a P) : Rep2 A B (negA (curveF A B) al a) (-P) :=
  Un.negA_ok hal ha

example : Rep2 (0 : ℚ) 1 (negA (curveF 0 1) .ca (2, 3)) (-(.some 2 3 Un.ns23)) :=
  negA_correct (Or.inr rfl) Un.rep2_23

/-- `ecpFromAJ` then reading the first two words back -/
theorem view_froma (a : P2 F) :
    (ecOps (curveF A B)).view ((ecOps (curveF A B)).froma a) = a := by
  obtain ⟨X, Y⟩ := a
  show ((froma (curveF A B) .n (X, Y)).1, (froma (curveF A B) .n (X, Y)).2.1) = (X, Y)
  rw [Un.fromAJ_exec (Or.inl rfl)]

example : (ecOps (curveF (0 : ℚ) 1)).view ((ecOps (curveF (0 : ℚ) 1)).froma (2, 3)) = (2, 3) :=
  view_froma _

/-- `ecSetO` -/
theorem setO_correct : Rep3 A B (ecOps (curveF A B)).setO 0 :=
  Un.rep3_O rfl

example : Rep3 (0 : ℚ) 1 (ecOps (curveF 0 1)).setO 0 := setO_correct

/-- `ecpIsOnA` on field elements -/
theorem isOnA_correct (a : P2 F) :
    isOnA (curveF A B) a = true ↔ a.2 ^ 2 = a.1 ^ 3 + A * a.1 + B :=
  Un.isOnA_ok a

example : isOnA (curveF (0 : ℚ) 1) (2, 3) = true := (isOnA_correct _).2 (by norm_num)
example : ¬ isOnA (curveF (0 : ℚ) 1) (2, 4) = true := fun h => by
  have := (isOnA_correct _).1 h; norm_num at this

/-- `ecpIsOnA` on words over `natFld p`: range test, then the curve equation in `ZMod p` -/
theorem isOnAW_correct (p : Nat) [Fact p.Prime] (A B x y : Nat) (hA : A < p) (hB : B < p) :
    isOnAW p (mkCurve (natFld p) A B) (x, y) = true ↔
      x < p ∧ y < p ∧ ((y : ZMod p) ^ 2 = (x : ZMod p) ^ 3 + A * x + B) :=
  Un.isOnAW_ok p A B x y

example : isOnAW 7 (mkCurve (natFld 7) 1 1) (0, 1) = true :=
  (@isOnAW_correct 7 Un.prime7 1 1 0 1 (by norm_num) (by norm_num)).2
    ⟨by norm_num, by norm_num, by simp⟩

end Bee2V.C06

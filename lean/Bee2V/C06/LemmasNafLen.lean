/-
C06 — NAF layer, part 4: the bit length of the packed string as the C tracks it (`naf_len`): instrumented
loop `nafLoopLen`, "holds at every visited state" predicate `nafLoopAll`, the shape of one iteration
(`nafStep_shape`), and the length invariant `LenInv` with its preservation.
-/
import Bee2V.C06.LemmasNafTerm
namespace Bee2V.C06.MulL
open Bee2V.C06

/-- `naf_len` after one iteration: `+w` for a non-zero digit, `+1` for a zero digit -/
def nafStepLen (w : Nat) (st : NafSt) (len : Nat) : Nat :=
  if st.window % 2 = 1 then len + w else len + 1

/-- `nafLoop` carrying `naf_len` -/
def nafLoopLen (a w alen : Nat) : Nat → Nat → NafSt → Nat → NafSt × Nat
  | 0, _, st, len => (st, len)
  | fuel + 1, i, st, len =>
    if st.window = 0 ∧ i ≥ alen then (st, len)
    else nafLoopLen a w alen fuel (i + 1) (nafStep a w alen i st) (nafStepLen w st len)

/-- final `naf_len` of `wwNAF(naf, a, n, w)` -/
def wwNAFLen (a w : Nat) : Nat :=
  if a = 0 then 0 else
  (nafLoopLen a w (bitSize a) (bitSize a + w + 2) w { window := a % 2 ^ w, naf := 0, size := 0 } 0).2

/-- `Q` holds at every state visited by the loop (loop head, before the exit test, and the final state) -/
def nafLoopAll (Q : NafSt → Nat → Prop) (a w alen : Nat) : Nat → Nat → NafSt → Nat → Prop
  | 0, _, st, len => Q st len
  | fuel + 1, i, st, len =>
    Q st len ∧ (¬(st.window = 0 ∧ i ≥ alen) →
      nafLoopAll Q a w alen fuel (i + 1) (nafStep a w alen i st) (nafStepLen w st len))

theorem nafLoopLen_fst (a w alen : Nat) : ∀ (fuel i : Nat) (st : NafSt) (len : Nat),
    (nafLoopLen a w alen fuel i st len).1 = nafLoop a w alen fuel i st := by
  intro fuel
  induction fuel with
  | zero => intro i st len; rfl
  | succ n ih =>
    intro i st len
    unfold nafLoopLen nafLoop
    split
    · rfl
    · exact ih _ _ _

theorem nafLoopAll_mono {Q Q' : NafSt → Nat → Prop} (h : ∀ st len, Q st len → Q' st len)
    (a w alen : Nat) : ∀ (fuel i : Nat) (st : NafSt) (len : Nat),
    nafLoopAll Q a w alen fuel i st len → nafLoopAll Q' a w alen fuel i st len := by
  intro fuel
  induction fuel with
  | zero => intro i st len hq; exact h _ _ hq
  | succ n ih =>
    intro i st len hq
    exact ⟨h _ _ hq.1, fun hnt => ih _ _ _ (hq.2 hnt)⟩

/-- bit length of a digit list: `w` per non-zero digit, 1 per zero digit -/
def digitsLen (w : Nat) : List Int → Nat
  | [] => 0
  | e :: L => (if e = 0 then 1 else w) + digitsLen w L

theorem sval_ne_zero {w c : Nat} (hw : 2 ≤ w) (hodd : c % 2 = 1) : sval w c ≠ 0 := by
  obtain ⟨_, h2, _⟩ := two_pow_split hw
  by_cases hc : c < 2 ^ (w - 1)
  · rw [sval_pos rfl hc]; omega
  · rw [sval_neg rfl (by omega)]; omega

/-- shape of one iteration: what is pushed and which power of two divides the next window -/
theorem nafStep_shape {d w : Nat} (hw : 2 ≤ w) (i : Nat) (st : NafSt) (hwin : st.window ≤ 2 ^ w) :
    (st.window % 2 = 0 ∧ (nafStep d w (bitSize d) i st).naf = st.naf * 2 ∧
      ∀ r, 2 ^ (r + 1) ∣ st.window → r + 1 ≤ w - 1 → 2 ^ r ∣ (nafStep d w (bitSize d) i st).window) ∨
    (st.window % 2 = 1 ∧ ∃ c r, c % 2 = 1 ∧ c < 2 ^ w ∧
      (nafStep d w (bitSize d) i st).naf = st.naf * 2 ^ w + c ∧
      2 ^ r ∣ (nafStep d w (bitSize d) i st).window ∧ w - 2 ≤ r ∧ r ≤ w - 1) := by
  obtain ⟨h1, h2, h3⟩ := two_pow_split hw
  have hib := inBit_eq d i (2 ^ (w - 1))
  have hlt : st.window % 2 = 1 → st.window < 2 ^ w := by
    intro hpar; rw [h1, h2] at hwin ⊢; exact odd_lt_of_le hwin hpar
  rcases nafStep_cases d (bitSize d) i hw st hwin _ rfl with
    ⟨hpar, heq⟩ | ⟨hpar, hl, heq⟩ | ⟨hpar, hge, hi, heq⟩ | ⟨hpar, hge, hi, heq⟩
  · left
    refine ⟨hpar, by rw [heq], ?_⟩
    intro r hr hrw
    rw [heq, hib]
    apply Nat.dvd_add
    · obtain ⟨q, hq⟩ := hr
      exact ⟨q, by rw [hq, Nat.pow_succ, Nat.mul_assoc, Nat.mul_comm 2 q, ← Nat.mul_assoc,
        Nat.mul_div_cancel _ (by decide)]⟩
    · exact Dvd.dvd.mul_right (Nat.pow_dvd_pow 2 (by omega)) _
  · right
    refine ⟨hpar, st.window, w - 1, hpar, hlt hpar, by rw [heq], ?_, by omega, le_refl _⟩
    rw [heq, hib]; exact Dvd.intro _ rfl
  · right
    have := hlt hpar
    refine ⟨hpar, 3 * 2 ^ (w - 1) - st.window, w - 1, by omega, by omega, by rw [heq], ?_,
      by omega, le_refl _⟩
    rw [heq, hib]
    exact Nat.dvd_add (dvd_refl _) (Dvd.intro _ rfl)
  · right
    have := hlt hpar
    refine ⟨hpar, st.window - 2 ^ (w - 1), w - 2, by omega, by omega, by rw [heq], ?_,
      le_refl _, by omega⟩
    rw [heq, inBit_of_ge hi, h2]
    simp

/-- the length invariant at the head of the loop -/
structure LenInv (d w : Nat) (st : NafSt) (len : Nat) : Prop where
  inv : NafInv d w st
  sz : st.size + mu d w st ≤ bitSize d + 1
  amort : ∃ r, len ≤ 2 * st.size + r ∧ r ≤ w - 1 ∧ 2 ^ r ∣ st.window
  packed : st.naf < 2 ^ len
  dlen : len = digitsLen w (decode w st.naf st.size 0)
  fin : st.window = 0 → bitSize d ≤ w + st.size → len + 2 ≤ 2 * st.size + w

theorem lenInv_step {d w : Nat} (hw : 2 ≤ w) {st : NafSt} {len : Nat} (h : LenInv d w st len)
    (hnt : ¬(st.window = 0 ∧ w + st.size ≥ bitSize d)) :
    LenInv d w (nafStep d w (bitSize d) (w + st.size) st) (nafStepLen w st len) := by
  have inv' := nafInv_step hw h.inv hnt
  have hmu := mu_step hw h.inv.win hnt
  obtain ⟨r, hr1, hr2, hr3⟩ := h.amort
  have hpk := h.packed
  have hsz := h.sz
  have hpw := Nat.two_pow_pos w
  rcases nafStep_shape (d := d) hw (w + st.size) st h.inv.win with
    ⟨hpar, hnaf, hdvd⟩ | ⟨hpar, c, r', hco, hc, hnaf, hdvd, hr'1, hr'2⟩
  · -- zero digit
    have hl : nafStepLen w st len = len + 1 := by unfold nafStepLen; rw [if_neg (by omega)]
    rw [hl]
    refine ⟨inv', by rw [nafStep_size]; omega, ?_, ?_, ?_, ?_⟩
    · rcases r with _ | r
      · exact ⟨0, by rw [nafStep_size]; omega, by omega, by simp⟩
      · exact ⟨r, by rw [nafStep_size]; omega, by omega, hdvd r hr3 hr2⟩
    · rw [hnaf, Nat.pow_succ]; omega
    · rw [hnaf, nafStep_size, decode_push0 w _ _ (by omega), digitsLen, if_pos rfl, ← h.dlen]; omega
    · intro hz hb
      exfalso
      have := (inv'.top hz hb).2.1
      rw [hnaf] at this
      unfold getBits at this
      rw [Nat.shiftRight_zero, Nat.mod_mod_of_dvd _ (dvd_pow_self 2 (by omega))] at this
      omega
  · -- non-zero digit: the window is odd, hence `r = 0`
    have hl : nafStepLen w st len = len + w := by unfold nafStepLen; rw [if_pos hpar]
    have hr0 : r = 0 := by
      rcases r with _ | r
      · rfl
      · exfalso
        have : 2 ∣ st.window := Dvd.dvd.trans (Dvd.intro_left (2 ^ r) (by rw [Nat.pow_succ])) hr3
        omega
    subst hr0
    rw [hl]
    refine ⟨inv', by rw [nafStep_size]; omega, ⟨r', by rw [nafStep_size]; omega, hr'2, hdvd⟩, ?_, ?_, ?_⟩
    · rw [hnaf, Nat.pow_add]
      calc st.naf * 2 ^ w + c < st.naf * 2 ^ w + 2 ^ w := by omega
        _ = (st.naf + 1) * 2 ^ w := by ring
        _ ≤ 2 ^ len * 2 ^ w := Nat.mul_le_mul_right _ hpk
    · rw [hnaf, nafStep_size, decode_push w _ _ _ hc hco, digitsLen, if_neg (sval_ne_zero hw hco),
        ← h.dlen]; omega
    · intro _ _; rw [nafStep_size]; omega

theorem lenInv_init {d w : Nat} (hw : 2 ≤ w) (hd : d ≠ 0) :
    LenInv d w { window := d % 2 ^ w, naf := 0, size := 0 } 0 := by
  refine ⟨nafInv_init hd, ?_, ⟨0, by simp, by omega, by simp⟩, by simp, by simp [decode, digitsLen], ?_⟩
  · -- tight initial measure: at most `bitSize d + 1` iterations
    obtain ⟨_, h2, _⟩ := two_pow_split hw
    unfold mu
    simp only [Nat.add_zero, Nat.zero_add]
    split
    · omega
    · rename_i hge
      have hdw : d < 2 ^ w := (bitSize_le_iff d w).1 (by omega)
      rw [Nat.mod_eq_of_lt hdw]
      split
      · rename_i hc
        have : ¬ bitSize d ≤ w - 1 := by rw [bitSize_le_iff]; omega
        omega
      · omega
  · intro h0 hb
    exfalso
    exact (nafInv_init (w := w) hd).top h0 hb |>.1 |> Nat.lt_irrefl 0

end Bee2V.C06.MulL

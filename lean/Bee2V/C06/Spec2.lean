/-
C06, stage 2 — specification side for binary curves `y² + xy = x³ + Ax² + B` over a field of
characteristic 2 (`ec2.c`, Lopez–Dahab coordinates `x = X/Z`, `y = Y/Z²`, `−(x, y) = (x, x + y)`).
The group is Mathlib's `WeierstrassCurve.Affine.Point` for `a₁ = 1, a₂ = A, a₃ = a₄ = 0, a₆ = B`.
`char2` is a normalisation tactic for polynomial identities in characteristic 2
(`sub`/`neg` ↦ `add`, `ring_nf`, numerals reduced mod 2, `ring`); after `field_simp` it closes the
identities of the formula lemmas.
-/
import Mathlib.Algebra.CharP.Two
import Mathlib.Algebra.CharP.Basic
import Bee2V.C06.Spec
import Bee2V.C06.Wrap2
namespace Bee2V.C06
open WeierstrassCurve

set_option linter.unusedSectionVars false
set_option linter.unusedSimpArgs false
variable {F : Type} [Field F] [DecidableEq F] [CharP F 2]

theorem ofNat_char2 (n : ℕ) [n.AtLeastTwo] : (OfNat.ofNat n : F) = ((n % 2 : ℕ) : F) := by
  rw [← Nat.cast_ofNat (R := F)]
  exact CharP.cast_eq_mod F 2 n

/-- close / normalise a polynomial identity in characteristic 2 -/
macro "char2" : tactic => `(tactic|
  (try simp only [CharTwo.sub_eq_add, CharTwo.neg_eq] at *
   try ring_nf
   try simp only [ofNat_char2, Nat.reduceMod, Nat.cast_zero, Nat.cast_one, mul_zero, mul_one, add_zero, zero_add]
   try ring))

/-- the curve `y² + xy = x³ + Ax² + B` -/
def Wb (A B : F) : Affine F := { a₁ := 1, a₂ := A, a₃ := 0, a₄ := 0, a₆ := B }

/-- `ec2CreateLD` over a field of characteristic 2 -/
def curveB (A B : F) : Curve F := mkCurve2 (fieldFld F) A B

theorem Wb_equation (A B x y : F) : (Wb A B).Equation x y ↔ y ^ 2 + x * y = x ^ 3 + A * x ^ 2 + B := by
  rw [Affine.equation_iff]; simp [Wb]

@[simp] theorem Wb_negY (A B x y : F) : (Wb A B).negY x y = x + y := by
  simp [Affine.negY, Wb]; char2

/-- nonsingular points: on the curve and not (`x = 0` and `y = x²`…); in characteristic 2 the
    partial derivatives are `y + x²` (by x) and `x` (by y) -/
theorem Wb_nonsingular (A B x y : F) :
    (Wb A B).Nonsingular x y ↔ y ^ 2 + x * y = x ^ 3 + A * x ^ 2 + B ∧ (y + x ^ 2 ≠ 0 ∨ x ≠ 0) := by
  rw [Affine.nonsingular_iff, Wb_equation]
  simp only [Wb, one_mul, zero_mul, mul_zero, add_zero, sub_zero]
  have e1 : (y ≠ 3 * x ^ 2 + 2 * A * x) ↔ (y + x ^ 2 ≠ 0) := by
    constructor
    · intro h h0; apply h
      have : y = x ^ 2 := by
        have := h0; rw [CharTwo.add_eq_zero] at this; exact this
      rw [this]; char2
    · intro h h0; apply h; rw [h0]; char2
  have e2 : (y ≠ -y - x) ↔ (x ≠ 0) := by
    have e : -y - x = y + x := by char2
    rw [e]; simp
  rw [e1, e2]

/-- an affine pair stands for the point with these coordinates -/
def RepB2 (A B : F) (a : P2 F) (P : (Wb A B).Point) : Prop :=
  ∃ h : (Wb A B).Nonsingular a.1 a.2, P = .some a.1 a.2 h

/-- a Lopez–Dahab triple `(X : Y : Z)` stands for `O` if `Z = 0` and for `(X/Z, Y/Z²)` otherwise -/
def RepB3 (A B : F) (p : P3 F) (P : (Wb A B).Point) : Prop :=
  if p.2.2 = 0 then P = 0 else RepB2 A B (p.1 / p.2.2, p.2.1 / p.2.2 ^ 2) P

theorem RepB2_of_eq {A B : F} {x y x' y' : F} {P : (Wb A B).Point} (h : RepB2 A B (x, y) P)
    (hx : x = x') (hy : y = y') : RepB2 A B (x', y') P := by
  subst hx; subst hy; exact h

/-- chord: `x₁ ≠ x₂`, `λ = (y₁ + y₂)/(x₁ + x₂)`, `x₃ = λ² + λ + x₁ + x₂ + A`, `y₃ = λ(x₁ + x₃) + x₃ + y₁` -/
theorem addB_chord {A B x₁ y₁ x₂ y₂ : F} (h₁ : (Wb A B).Nonsingular x₁ y₁) (h₂ : (Wb A B).Nonsingular x₂ y₂)
    (hx : x₁ ≠ x₂) :
    RepB2 A B (((y₁ + y₂) / (x₁ + x₂)) ^ 2 + (y₁ + y₂) / (x₁ + x₂) + x₁ + x₂ + A,
      ((y₁ + y₂) / (x₁ + x₂)) * (x₁ + (((y₁ + y₂) / (x₁ + x₂)) ^ 2 + (y₁ + y₂) / (x₁ + x₂) + x₁ + x₂ + A))
        + (((y₁ + y₂) / (x₁ + x₂)) ^ 2 + (y₁ + y₂) / (x₁ + x₂) + x₁ + x₂ + A) + y₁)
      (Affine.Point.some x₁ y₁ h₁ + Affine.Point.some x₂ y₂ h₂) := by
  rw [Affine.Point.add_of_X_ne hx]
  have hs : (Wb A B).slope x₁ x₂ y₁ y₂ = (y₁ + y₂) / (x₁ + x₂) := by
    rw [Affine.slope_of_X_ne hx]; simp only [CharTwo.sub_eq_add]
  refine RepB2_of_eq ⟨_, rfl⟩ ?_ ?_
  · rw [hs]; simp [Wb]; char2
  · rw [hs]; simp [Wb]; char2

/-- tangent: doubling of a point with `x ≠ 0`, `λ = x + y/x`, `x₃ = λ² + λ + A`, `y₃ = x² + (λ + 1)x₃` -/
theorem addB_tangent {A B x y : F} (h : (Wb A B).Nonsingular x y) (hx : x ≠ 0) :
    RepB2 A B ((x + y / x) ^ 2 + (x + y / x) + A,
      x ^ 2 + ((x + y / x) + 1) * ((x + y / x) ^ 2 + (x + y / x) + A))
      (Affine.Point.some x y h + Affine.Point.some x y h) := by
  have hy' : y ≠ (Wb A B).negY x y := by
    rw [Wb_negY]; intro h0; apply hx
    have : x + y + y = 0 := by rw [← h0]; exact CharTwo.add_self_eq_zero y
    have h1 : x = x + y + y := by char2
    rw [h1]; exact this
  rw [Affine.Point.add_self_of_Y_ne hy']
  have hs : (Wb A B).slope x x y y = x + y / x := by
    rw [Affine.slope_of_Y_ne rfl hy', Wb_negY]
    simp only [Wb, mul_zero, add_zero, one_mul, zero_mul]
    have hd : y - (x + y) = x := by char2
    have hn : 3 * x ^ 2 + 2 * A * x - y = x ^ 2 + y := by char2
    rw [hd, hn]
    field_simp
  refine RepB2_of_eq ⟨_, rfl⟩ ?_ ?_
  · rw [hs]; simp [Wb]; char2
  · rw [hs]; simp [Wb]; field_simp; char2

/-- inverse points: same `x`, `y₁ = x₂ + y₂` -/
theorem addB_inverse {A B x₁ y₁ x₂ y₂ : F} (h₁ : (Wb A B).Nonsingular x₁ y₁) (h₂ : (Wb A B).Nonsingular x₂ y₂)
    (hx : x₁ = x₂) (hy : y₁ = x₂ + y₂) :
    Affine.Point.some x₁ y₁ h₁ + Affine.Point.some x₂ y₂ h₂ = 0 :=
  Affine.Point.add_of_Y_eq hx (by rw [Wb_negY]; exact hy)

/-- two points with the same `x` have `y₁ = y₂` or `y₁ = x + y₂` -/
theorem yB_eq_or_neg {A B x y₁ y₂ : F} (h₁ : (Wb A B).Nonsingular x y₁) (h₂ : (Wb A B).Nonsingular x y₂) :
    y₁ = y₂ ∨ y₁ = x + y₂ := by
  have e₁ := ((Wb_nonsingular A B x y₁).1 h₁).1
  have e₂ := ((Wb_nonsingular A B x y₂).1 h₂).1
  have : (y₁ + y₂) * (y₁ + y₂ + x) = 0 := by
    have : (y₁ + y₂) * (y₁ + y₂ + x) = (y₁ ^ 2 + x * y₁) + (y₂ ^ 2 + x * y₂) := by char2
    rw [this, e₁, e₂]; exact CharTwo.add_self_eq_zero _
  rcases mul_eq_zero.1 this with h | h
  · exact Or.inl (CharTwo.add_eq_zero.1 h)
  · right
    have : y₁ + (x + y₂) = 0 := by rw [← h]; ring
    exact CharTwo.add_eq_zero.1 this

theorem negB_some {A B x y : F} (h : (Wb A B).Nonsingular x y) :
    RepB2 A B (x, x + y) (-(Affine.Point.some x y h)) := by
  rw [Affine.Point.neg_some]
  exact RepB2_of_eq ⟨_, rfl⟩ rfl (Wb_negY A B x y)

/-- a point with `x = 0` has order two -/
theorem addB_order2 {A B y : F} (h : (Wb A B).Nonsingular 0 y) :
    Affine.Point.some 0 y h + Affine.Point.some 0 y h = 0 :=
  addB_inverse h h rfl (by simp)

end Bee2V.C06

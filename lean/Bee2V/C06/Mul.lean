/-
C06 — executable model, part 4: `ecMulA`, `ecHasOrderA`, `ecAddMulA` (src/math/ec.c) over an
abstract table of point operations (`ec_o`: froma, toa, neg, add, adda, sub, suba, dbl, dbla, tpl).

`P` = projective points (`ec->d * n` words), `A` = affine points (`2n` words).  Each operation
carries the aliasing pattern of its call (`Al`), because the C routines are called in place
(`ecDbl(t, t, …)`, `ecAdd(t, t, pre + …)`), and returns the contents of the destination afterwards.
`view` is the C's reading of a projective buffer as an affine one (`ecDblA(t, pre, …)`,
`ecAddA(t, t, pre, …)`: the first `2n` words of `pre[0] = froma(a)`).
-/
import Bee2V.C06.Naf
namespace Bee2V.C06

/-- aliasing pattern of a three-address call `op(c, a, b)`: all distinct / `c == a` / `c == b` /
    `a == b` with `c` distinct / `a == b == c` (affine routines only; excluded for `ecpAddJ`).
    For two-address calls `op(b, a)`: `.n` distinct, `.ca` in place. -/
inductive Al where
  | n | ca | cb | ab | abc
  deriving Repr, DecidableEq

structure EcOps (P A : Type) where
  froma : A → P
  toa : P → Option A          -- `none` = FALSE (the point is O)
  view : P → A
  setO : P                     -- `ecSetO` on a fresh buffer
  neg : Al → P → P
  dbl : Al → P → P
  tpl : Al → P → P
  dbla : A → P
  add : Al → P → P → P
  sub : Al → P → P → P
  adda : Al → P → A → P
  suba : Al → P → A → P

variable {P A : Type}

/-- `pre[0] <- a; t <- 2a; pre[1] <- t + pre[0]; pre[i] <- t + pre[i-1]` (`count = 2^(w-2)` entries) -/
def preTable (o : EcOps P A) (a : A) (count : Nat) : Array P :=
  let pre0 := o.froma a
  let t := o.dbla (o.view pre0)
  let pre1 := o.adda .n t (o.view pre0)
  let rec go : Nat → P → Array P → Array P
    | 0, _, acc => acc
    | k + 1, last, acc => let nx := o.add .n t last; go k nx (acc.push nx)
  go (count - 2) pre1 #[pre0, pre1]

/-- `t <- t ± pre[..]` for a non-zero NAF code `c` of width `w` (`hi = 2^(w-1)`) -/
def nafApply (o : EcOps P A) (pre : Array P) (hi c : Nat) (t : P) : P :=
  let pre0 := pre.getD 0 o.setO
  if c = 1 then o.adda .ca t (o.view pre0)
  else if c = hi + 1 then o.suba .ca t (o.view pre0)
  else if c % (2 * hi) ≥ hi then o.sub .ca t (pre.getD ((c - hi) / 2) o.setO)
  else o.add .ca t (pre.getD (c / 2) o.setO)

/-- the `while (--naf_size)` loop of `ecMulA`: `k` remaining digits, bit position `i` -/
def mulLoop (o : EcOps P A) (pre : Array P) (w naf : Nat) : Nat → Nat → P → P
  | 0, _, t => t
  | k + 1, i, t =>
    let c := getBits naf i w
    if c % 2 = 1 then
      mulLoop o pre w naf k (i + w) (nafApply o pre (2 ^ (w - 1)) c (o.dbl .ca t))
    else
      mulLoop o pre w naf k (i + 1) (o.dbl .ca t)

/-- `ecMulA(b, a, ec, d, m, stack)`; `W` = bits per word; `none` = FALSE -/
def ecMulA (o : EcOps P A) (W : Nat) (a : A) (d m : Nat) : Option A :=
  let w := ecNAFWidth (m * W)
  let sn := wwNAF d w
  if sn.1 = 0 then none else
  let pre := preTable o a (2 ^ (w - 2))
  let c0 := getBits sn.2 0 w
  let t := pre.getD (c0 / 2) o.setO
  o.toa (mulLoop o pre w sn.2 (sn.1 - 1) w t)

/-- `ecHasOrderA(a, ec, q, m, stack)` -/
def ecHasOrderA (o : EcOps P A) (W : Nat) (a : A) (q m : Nat) : Bool :=
  (ecMulA o W a q m).isNone

/-- one term of `ecAddMulA` after the preprocessing pass -/
structure Term (P : Type) where
  pre : Array P
  w : Nat
  size : Nat
  naf : Nat

/-- `wwWordSize(d, m)` for `d < 2^(W m)` -/
def wordSize (W d : Nat) : Nat := (bitSize d + W - 1) / W

def mkTerm (o : EcOps P A) (W : Nat) (a : A) (d : Nat) : Term P :=
  let m := wordSize W d
  let w := ecNAFWidth (m * W)
  let sn := wwNAF d w
  { pre := preTable o a (2 ^ (w - 2)), w := w, size := sn.1, naf := sn.2 }

/-- inner `for (i = 0; i < k; ++i)` of the main loop at countdown value `cnt`:
    threads `t` and the positions `naf_pos[i]` -/
def addMulInner (o : EcOps P A) (cnt : Nat) : List (Term P) → List Nat → P → P × List Nat
  | tm :: tms, pos :: poss, t =>
    if tm.size < cnt then
      let r := addMulInner o cnt tms poss t
      (r.1, pos :: r.2)
    else
      let c := getBits tm.naf pos tm.w
      if c % 2 = 1 then
        let r := addMulInner o cnt tms poss (nafApply o tm.pre (2 ^ (tm.w - 1)) c t)
        (r.1, (pos + tm.w) :: r.2)
      else
        let r := addMulInner o cnt tms poss t
        (r.1, (pos + 1) :: r.2)
  | _, _, t => (t, [])

/-- `for (; naf_max_size; --naf_max_size)` -/
def addMulLoop (o : EcOps P A) (tms : List (Term P)) : Nat → List Nat → P → P
  | 0, _, t => t
  | cnt + 1, pos, t =>
    let r := addMulInner o (cnt + 1) tms pos (o.dbl .ca t)
    addMulLoop o tms cnt r.2 r.1

/-- `ecAddMulA(b, ec, stack, k, a[0], d[0], m[0], …)` -/
def ecAddMulA (o : EcOps P A) (W : Nat) (args : List (A × Nat)) : Option A :=
  let tms := args.map fun ad => mkTerm o W ad.1 ad.2
  let mx := tms.foldl (fun acc tm => max acc tm.size) 0
  o.toa (addMulLoop o tms mx (tms.map fun _ => 0) o.setO)

end Bee2V.C06

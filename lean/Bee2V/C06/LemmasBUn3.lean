/-
C06, stage 2 — one-operand routines of `ec2.c`: execution + formulas = group law (all special cases:
the point at infinity, the points of order two `x = 0`), and the concrete points over `ZMod 2` used by
the non-vacuity examples of `PropsBUn`.
-/
import Bee2V.C06.LemmasBUn2
import Mathlib.Data.ZMod.Basic
import Mathlib.Algebra.Field.ZMod
namespace Bee2V.C06.BUn
open Bee2V.C06 WeierstrassCurve

set_option linter.unusedSectionVars false
set_option linter.unusedSimpArgs false
set_option linter.unusedVariables false
variable {F : Type} [Field F] [DecidableEq F] [CharP F 2] {A B : F}

/-- `ec2DblLD`: `Z = 0 → O`, `X = 0` (order two) `→ O`, else dbl-2005-l -/
theorem dbl_ok {al : Al} (hal : al = .n ∨ al = .ca) {p : P3 F} {P : (Wb A B).Point}
    (hp : RepB3 A B p P) : RepB3 A B (run1 (curveB A B) ec2DblLD al p) (P + P) := by
  obtain ⟨X, Y, Z⟩ := p
  by_cases hz : Z = 0
  · subst hz
    rw [repB3_z0 hp rfl, add_zero]; exact repB3_O (dblLD_exec_z0 hal X Y)
  · by_cases hx : X = 0
    · subst hx
      obtain ⟨h, rfl⟩ := repB3_nz hp hz
      have h0 : (0 : F) / Z = 0 := zero_div _
      have : ∀ (x y : F) (h : (Wb A B).Nonsingular x y), x = 0 →
          Affine.Point.some x y h + Affine.Point.some x y h = 0 := by
        intro x y h hx0; subst hx0; exact addB_order2 h
      rw [this _ _ h h0]; exact repB3_O (dblLD_exec_x0 hal Y Z)
    · rw [dblLD_exec hal X Y Z hz hx]; exact dblB_math hp hz hx

/-- `ec2DblALD`: `x = 0` (order two) `→ O`, else mdbl-2005-dl -/
theorem dbla_ok {al : Al} (hal : al = .n ∨ al = .ca) {a : P2 F} {P : (Wb A B).Point}
    (ha : RepB2 A B a P) : RepB3 A B (dbla2 (curveB A B) al a) (P + P) := by
  obtain ⟨X, Y⟩ := a
  by_cases hx : X = 0
  · subst hx
    obtain ⟨h, rfl⟩ := ha
    rw [addB_order2 h]; exact repB3_O (dblALD_exec_x0 hal Y)
  · rw [dblALD_exec hal X Y hx]; exact dblaB_math ha hx

/-- `ec2NegLD`: `(X : XZ + Y : Z)` -/
theorem neg_ok {al : Al} (hal : al = .n ∨ al = .ca) {p : P3 F} {P : (Wb A B).Point}
    (hp : RepB3 A B p P) : RepB3 A B (run1 (curveB A B) ec2NegLD al p) (-P) := by
  obtain ⟨X, Y, Z⟩ := p
  rw [negLD_exec hal]
  by_cases hz : Z = 0
  · rw [repB3_z0 hp hz, neg_zero]; exact repB3_O hz
  · obtain ⟨h, rfl⟩ := repB3_nz hp hz
    exact repB3_of_repB2 hz (RepB2_of_eq (negB_some h) rfl (by field_simp; ring))

theorem froma_ok {al : Al} (hal : al = .n ∨ al = .ca) {a : P2 F} {P : (Wb A B).Point}
    (ha : RepB2 A B a P) : RepB3 A B (froma2 (curveB A B) al a) P := by
  obtain ⟨X, Y⟩ := a
  rw [fromALD_exec hal]
  exact repB3_of_repB2 one_ne_zero (RepB2_of_eq ha (by simp) (by simp))

theorem toa_ok {al : Al} (hal : al = .n ∨ al = .ca) {p : P3 F} {P : (Wb A B).Point}
    (hp : RepB3 A B p P) :
    (toa2 (curveB A B) al p = none ↔ P = 0) ∧ ∀ b, toa2 (curveB A B) al p = some b → RepB2 A B b P := by
  obtain ⟨X, Y, Z⟩ := p
  by_cases hz : Z = 0
  · subst hz
    rw [toALD_exec_z0 hal]
    exact ⟨⟨fun _ => repB3_z0 hp rfl, fun _ => rfl⟩, fun b hb => (by cases hb)⟩
  · rw [toALD_exec hal X Y Z hz]
    obtain ⟨h, rfl⟩ := repB3_nz hp hz
    refine ⟨⟨fun hb => (by cases hb), fun hb => absurd hb (Affine.Point.some_ne_zero h)⟩, fun b hb => ?_⟩
    cases hb
    exact RepB2_of_eq ⟨h, rfl⟩ (by field_simp) (by field_simp)

theorem negA_ok {al : Al} (hal : al = .n ∨ al = .ca) {a : P2 F} {P : (Wb A B).Point}
    (ha : RepB2 A B a P) : RepB2 A B (negA2 (curveB A B) al a) (-P) := by
  obtain ⟨X, Y⟩ := a
  rw [negA_exec hal]
  obtain ⟨h, rfl⟩ := ha
  exact negB_some h

theorem isOnA_ok (a : P2 F) :
    isOnA2 (curveB A B) a = true ↔ a.2 ^ 2 + a.1 * a.2 = a.1 ^ 3 + A * a.1 ^ 2 + B := by
  obtain ⟨X, Y⟩ := a
  rw [isOnA_exec, decide_eq_true_eq]
  constructor <;> intro h <;> linear_combination -h

/-! ### concrete points over `ZMod 2` for the non-vacuity examples -/

/-- `(1, 0)` on `y² + xy = x³ + 1` over GF(2) (a point of order four; `A = 0` arm) -/
theorem ns10 : (Wb (0 : ZMod 2) 1).Nonsingular 1 0 := by rw [Wb_nonsingular]; decide

/-- `(0, 1)`, the point of order two on `y² + xy = x³ + 1` over GF(2) -/
theorem ns01 : (Wb (0 : ZMod 2) 1).Nonsingular 0 1 := by rw [Wb_nonsingular]; decide

/-- `(0, 1)`, the point of order two on `y² + xy = x³ + x² + 1` over GF(2) (`A = 1` arm) -/
theorem ns01' : (Wb (1 : ZMod 2) 1).Nonsingular 0 1 := by rw [Wb_nonsingular]; decide

theorem repB2_10 : RepB2 (0 : ZMod 2) 1 (1, 0) (.some 1 0 ns10) := ⟨ns10, rfl⟩
theorem repB2_01 : RepB2 (0 : ZMod 2) 1 (0, 1) (.some 0 1 ns01) := ⟨ns01, rfl⟩
theorem repB2_01' : RepB2 (1 : ZMod 2) 1 (0, 1) (.some 0 1 ns01') := ⟨ns01', rfl⟩

/-- `(1 : 0 : 1)` is `(1, 0)` -/
theorem repB3_10 : RepB3 (0 : ZMod 2) 1 (1, 0, 1) (.some 1 0 ns10) :=
  repB3_of_repB2 one_ne_zero (RepB2_of_eq repB2_10 (by simp) (by simp))

/-- `(0 : 1 : 1)` is `(0, 1)` -/
theorem repB3_01 : RepB3 (0 : ZMod 2) 1 (0, 1, 1) (.some 0 1 ns01) :=
  repB3_of_repB2 one_ne_zero (RepB2_of_eq repB2_01 (by simp) (by simp))

end Bee2V.C06.BUn

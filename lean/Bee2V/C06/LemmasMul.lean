/-
C06 — scalar multiplication over an abstract correct operation table: `EcOps.Correct`, the table of odd
multiples (`preTable_ok`), `nafApply_spec`, `mulLoop_spec` (Horner), `mulCore_spec` (= `ecMulA` at any width ≥ 2).
-/
import Bee2V.C06.LemmasNafTerm
import Mathlib.Algebra.Module.Basic
import Mathlib.Tactic.Abel

namespace Bee2V.C06

/-- correctness of an operation table w.r.t. an additive commutative group `G`:
    `R3 p g` — the projective value `p` represents `g`; `R2 a g` — the affine value `a` represents `g`. -/
structure EcOps.Correct {P A G : Type} [AddCommGroup G] (o : EcOps P A)
    (R3 : P → G → Prop) (R2 : A → G → Prop) : Prop where
  froma : ∀ {a g}, R2 a g → R3 (o.froma a) g
  view_froma : ∀ {a g}, R2 a g → R2 (o.view (o.froma a)) g
  toa_none : ∀ {p g}, R3 p g → (o.toa p = none ↔ g = 0)
  toa_some : ∀ {p g b}, R3 p g → o.toa p = some b → R2 b g
  setO : R3 o.setO 0
  dbl_ca : ∀ {p g}, R3 p g → R3 (o.dbl .ca p) (g + g)
  dbla : ∀ {a g}, R2 a g → R3 (o.dbla a) (g + g)
  add_n : ∀ {p q g h}, R3 p g → R3 q h → R3 (o.add .n p q) (g + h)
  add_ca : ∀ {p q g h}, R3 p g → R3 q h → R3 (o.add .ca p q) (g + h)
  sub_ca : ∀ {p q g h}, R3 p g → R3 q h → R3 (o.sub .ca p q) (g - h)
  adda_n : ∀ {p a g h}, R3 p g → R2 a h → R3 (o.adda .n p a) (g + h)
  adda_ca : ∀ {p a g h}, R3 p g → R2 a h → R3 (o.adda .ca p a) (g + h)
  suba_ca : ∀ {p a g h}, R3 p g → R2 a h → R3 (o.suba .ca p a) (g - h)

namespace MulL
variable {P A G : Type} [AddCommGroup G] {o : EcOps P A} {R3 : P → G → Prop} {R2 : A → G → Prop}

/-- a table of the odd multiples `g, 3g, …, (2 count - 1) g` whose entry 0 is literally `froma a` -/
structure TableOk (o : EcOps P A) (R3 : P → G → Prop) (pre : Array P) (a : A) (g : G)
    (count : Nat) : Prop where
  zero : pre[0]? = some (o.froma a)
  ent : ∀ i, i < count → ∃ p, pre[i]? = some p ∧ R3 p ((2 * i + 1) • g)

theorem go_spec (hc : o.Correct R3 R2) {t : P} {g : G} (ht : R3 t (g + g)) (x : P) :
    ∀ (k m : Nat) (last : P) (acc : Array P), acc.size = m + 1 → R3 last ((2 * m + 1) • g) →
      acc[0]? = some x → (∀ i, i < m + 1 → ∃ p, acc[i]? = some p ∧ R3 p ((2 * i + 1) • g)) →
      (preTable.go o t k last acc)[0]? = some x ∧
      ∀ i, i < m + 1 + k → ∃ p, (preTable.go o t k last acc)[i]? = some p ∧ R3 p ((2 * i + 1) • g) := by
  intro k
  induction k with
  | zero => intro m last acc _ _ h0 hacc; exact ⟨h0, hacc⟩
  | succ k ih =>
    intro m last acc hsz hl h0 hacc
    unfold preTable.go
    simp only
    have hnx : R3 (o.add .n t last) ((2 * (m + 1) + 1) • g) := by
      have := hc.add_n ht hl
      rwa [show 2 * (m + 1) + 1 = 2 + (2 * m + 1) by ring, add_nsmul, two_nsmul]
    have := ih (m + 1) (o.add .n t last) (acc.push (o.add .n t last)) (by simp [hsz]) hnx
      (by rw [Array.getElem?_push, if_neg (by omega)]; exact h0)
      (by
        intro i hi
        rw [Array.getElem?_push]
        by_cases h : i = acc.size
        · rw [if_pos h]; exact ⟨_, rfl, by rw [h, hsz]; exact hnx⟩
        · rw [if_neg h]; exact hacc i (by omega))
    refine ⟨this.1, fun i hi => this.2 i (by omega)⟩

/-- **preTable**: entry `i < count` exists and represents `(2 i + 1) g`; entry 0 is `froma a` -/
theorem preTable_ok (hc : o.Correct R3 R2) {a : A} {g : G} (ha : R2 a g) (count : Nat) :
    TableOk o R3 (preTable o a count) a g count := by
  have hv := hc.view_froma ha
  have ht := hc.dbla hv
  have h1 : R3 (o.adda .n (o.dbla (o.view (o.froma a))) (o.view (o.froma a))) ((2 * 1 + 1) • g) := by
    have := hc.adda_n ht hv
    rwa [show 2 * 1 + 1 = 2 + 1 by rfl, add_nsmul, two_nsmul, one_nsmul]
  have := go_spec hc ht (o.froma a) (count - 2) 1
    (o.adda .n (o.dbla (o.view (o.froma a))) (o.view (o.froma a)))
    #[o.froma a, o.adda .n (o.dbla (o.view (o.froma a))) (o.view (o.froma a))] rfl h1 (by simp) (by
    intro i hi
    rcases i with _ | _ | i
    · exact ⟨o.froma a, by simp, by simpa using hc.froma ha⟩
    · exact ⟨_, by simp, h1⟩
    · omega)
  exact ⟨this.1, fun i hi => this.2 i (by omega)⟩

theorem getD_of_some {pre : Array P} {i : Nat} {p d : P} (h : pre[i]? = some p) : pre.getD i d = p := by
  rw [Array.getD_eq_getD_getElem?, h]; rfl

/-- `nafApply` adds the signed digit of any odd code `c < 2^w` (`w ≥ 2`) -/
theorem nafApply_spec (hc : o.Correct R3 R2) {w : Nat} (hw : 2 ≤ w) {a : A} {g : G} (ha : R2 a g)
    {pre : Array P} (tb : TableOk o R3 pre a g (2 ^ (w - 2))) {c : Nat} (hodd : c % 2 = 1)
    (hlt : c < 2 ^ w) {t : P} {h : G} (ht : R3 t h) :
    R3 (nafApply o pre (2 ^ (w - 1)) c t) (h + sval w c • g) := by
  obtain ⟨h1, h2, h3⟩ := two_pow_split hw
  obtain ⟨H, hH⟩ : ∃ H, H = 2 ^ (w - 1) := ⟨_, rfl⟩
  obtain ⟨H2, hH2⟩ : ∃ H2, H2 = 2 ^ (w - 2) := ⟨_, rfl⟩
  rw [← hH2] at tb
  rw [← hH] at h1 h2 ⊢; rw [← hH2] at h2 h3
  have hv := hc.view_froma ha
  unfold nafApply
  simp only [getD_of_some tb.zero]
  split_ifs with c1 c2 c3
  · subst c1
    rw [sval_pos hH (by omega)]
    simpa using hc.adda_ca ht hv
  · rw [sval_neg hH (by omega), c2]
    have := hc.suba_ca ht hv
    simpa [sub_eq_add_neg] using this
  · rw [Nat.mod_eq_of_lt (by omega)] at c3
    obtain ⟨p, hp, hr⟩ := tb.ent ((c - H) / 2) (by omega)
    rw [getD_of_some hp, sval_neg hH c3, neg_smul, natCast_zsmul, ← sub_eq_add_neg]
    rw [show 2 * ((c - H) / 2) + 1 = c - H by omega] at hr
    exact hc.sub_ca ht hr
  · rw [Nat.mod_eq_of_lt (by omega)] at c3
    obtain ⟨p, hp, hr⟩ := tb.ent (c / 2) (by omega)
    rw [getD_of_some hp, sval_pos hH (by omega), natCast_zsmul]
    rw [show 2 * (c / 2) + 1 = c by omega] at hr
    exact hc.add_ca ht hr

theorem getBits_lt (naf i w : Nat) : getBits naf i w < 2 ^ w := Nat.mod_lt _ (by positivity)

/-- the `while (--naf_size)` loop: Horner evaluation of the remaining digits -/
theorem mulLoop_spec (hc : o.Correct R3 R2) {w : Nat} (hw : 2 ≤ w) {a : A} {g : G} (ha : R2 a g)
    {pre : Array P} (tb : TableOk o R3 pre a g (2 ^ (w - 2))) (naf : Nat) :
    ∀ (k i : Nat) (t : P) (n : Int), R3 t (n • g) →
      R3 (mulLoop o pre w naf k i t) ((n * 2 ^ k + nafVal (decode w naf k i)) • g) := by
  intro k
  induction k with
  | zero => intro i t n ht; simpa [mulLoop, decode, nafVal] using ht
  | succ k ih =>
    intro i t n ht
    have hd := hc.dbl_ca ht
    rw [← add_smul] at hd
    unfold mulLoop decode
    simp only
    split
    · rename_i hodd
      have := nafApply_spec hc hw ha tb hodd (getBits_lt naf i w) hd
      rw [← add_smul] at this
      have := ih (i + w) _ _ this
      rw [nafVal, decode_length]
      convert this using 2; ring
    · have := ih (i + 1) _ _ hd
      rw [nafVal, decode_length]
      convert this using 2; ring

theorem ecNAFWidth_ge (l : Nat) : 3 ≤ ecNAFWidth l ∧ ecNAFWidth l ≤ 6 := by
  unfold ecNAFWidth; split_ifs <;> omega

/-- **ecMulA** at an arbitrary window width `w ≥ 2` (the body of `ecMulA` after `w` is chosen) -/
theorem mulCore_spec (hc : o.Correct R3 R2) {w : Nat} (hw : 2 ≤ w) {a : A} {g : G} (ha : R2 a g)
    {d : Nat} (hd : 0 < d) :
    let sn := wwNAF d w
    let pre := preTable o a (2 ^ (w - 2))
    R3 (mulLoop o pre w sn.2 (sn.1 - 1) w (pre.getD (getBits sn.2 0 w / 2) o.setO)) (d • g) := by
  intro sn pre
  obtain ⟨h1, h2, h3⟩ := two_pow_split hw
  obtain ⟨hv, hpos, hodd, hlt⟩ := wwNAF_spec hw hd
  have tb := preTable_ok hc ha (2 ^ (w - 2))
  obtain ⟨p, hp, hr⟩ := tb.ent (getBits (wwNAF d w).2 0 w / 2) (by omega)
  show R3 (mulLoop o _ w (wwNAF d w).2 ((wwNAF d w).1 - 1) w
    ((preTable o a (2 ^ (w - 2))).getD (getBits (wwNAF d w).2 0 w / 2) o.setO)) (d • g)
  rw [getD_of_some hp]
  rw [show 2 * (getBits (wwNAF d w).2 0 w / 2) + 1 = getBits (wwNAF d w).2 0 w by omega,
    ← natCast_zsmul] at hr
  have := mulLoop_spec hc hw ha tb (wwNAF d w).2 ((wwNAF d w).1 - 1) w p _ hr
  obtain ⟨s, hs⟩ : ∃ s, (wwNAF d w).1 = s + 1 := ⟨(wwNAF d w).1 - 1, by omega⟩
  rw [hs] at hv
  unfold decode at hv
  simp only [hodd, if_true, Nat.zero_add, nafVal, decode_length, sval_pos rfl hlt] at hv
  rw [hs, Nat.add_sub_cancel] at this ⊢
  rw [hv, natCast_zsmul] at this
  exact this

end MulL
end Bee2V.C06

/-
C06 — ecpAddJ: the algebra.  Jacobian triples versus affine points, the closed forms `addG` (chord) and
`dblG` (tangent) represent the sums Mathlib's group law gives.
-/
import Bee2V.C06.LemmasAddJ2
namespace Bee2V.C06.AddJ
open WeierstrassCurve
set_option linter.unusedSimpArgs false
set_option linter.unusedVariables false
set_option linter.unusedSectionVars false
variable {F : Type} [Field F] [DecidableEq F] {A B : F}

theorem rep3_O {X Y Z : F} {P : (Wc A B).Point} (hz : Z = 0) (h : Rep3 A B (X, Y, Z) P) : P = 0 := by
  subst hz; simpa [Rep3] using h

theorem rep3_zero {p : P3 F} (hz : p.2.2 = 0) : Rep3 A B p 0 := by
  simp [Rep3, hz]

theorem rep3_nz {X Y Z : F} {P : (Wc A B).Point} (hz : Z ≠ 0) (h : Rep3 A B (X, Y, Z) P) :
    ∃ x y, ∃ hns : (Wc A B).Nonsingular x y, X = x * Z ^ 2 ∧ Y = y * Z ^ 3 ∧ P = .some x y hns := by
  simp only [Rep3, hz, if_false] at h
  obtain ⟨hns, hP⟩ := h
  exact ⟨_, _, hns, by field_simp, by field_simp, hP⟩

theorem rep3_of_rep2 {p : P3 F} {x y : F} {P : (Wc A B).Point} (hz : p.2.2 ≠ 0) (h : Rep2 A B (x, y) P)
    (hx : p.1 = x * p.2.2 ^ 2) (hy : p.2.1 = y * p.2.2 ^ 3) : Rep3 A B p P := by
  simp only [Rep3, hz, if_false]
  exact Rep2_of_eq h (by rw [hx]; field_simp) (by rw [hy]; field_simp)

theorem rep3_neg {X Y Z : F} {P : (Wc A B).Point} (h : Rep3 A B (X, Y, Z) P) : Rep3 A B (X, -Y, Z) (-P) := by
  by_cases hz : Z = 0
  · have := rep3_O hz h; subst this; rw [neg_zero]; exact rep3_zero hz
  · obtain ⟨x, y, hns, rfl, rfl, rfl⟩ := rep3_nz hz h
    exact rep3_of_rep2 hz (neg_some hns) rfl (by ring)

theorem hh_affine (x1 Z1 x2 Z2 : F) :
    hh (x1 * Z1 ^ 2) Z1 (x2 * Z2 ^ 2) Z2 = Z1 ^ 2 * Z2 ^ 2 * (x2 - x1) := by
  unfold hh; ring

theorem s1_affine (y1 Z1 y2 Z2 : F) :
    s1 (y1 * Z1 ^ 3) Z2 - s1 (y2 * Z2 ^ 3) Z1 = Z1 ^ 3 * Z2 ^ 3 * (y1 - y2) := by
  unfold s1; ring

theorem s1_zero_iff {Y1 Z1 Y2 Z2 : F} (h1 : Z1 ≠ 0) (h2 : Z2 ≠ 0) (hS : s1 Y1 Z2 = s1 Y2 Z1) :
    Y1 = 0 ↔ Y2 = 0 := by
  unfold s1 at hS
  constructor
  · intro h; subst h
    have : Y2 * (Z1 * (Z1 * Z1)) = 0 := by rw [← hS]; ring
    simpa [h1] using this
  · intro h; subst h
    have : Y1 * (Z2 * (Z2 * Z2)) = 0 := by rw [hS]; ring
    simpa [h2] using this

/-- chord -/
theorem addG_rep {x1 y1 Z1 x2 y2 Z2 : F} (h2 : (2 : F) ≠ 0) (hz1 : Z1 ≠ 0) (hz2 : Z2 ≠ 0)
    (hn1 : (Wc A B).Nonsingular x1 y1) (hn2 : (Wc A B).Nonsingular x2 y2) (hx : x1 ≠ x2) :
    Rep3 A B (addG (x1 * Z1 ^ 2) (y1 * Z1 ^ 3) Z1 (x2 * Z2 ^ 2) (y2 * Z2 ^ 3) Z2)
      (Affine.Point.some x1 y1 hn1 + Affine.Point.some x2 y2 hn2) := by
  have hd : x1 - x2 ≠ 0 := sub_ne_zero.2 hx
  have hd' : x2 - x1 ≠ 0 := sub_ne_zero.2 (Ne.symm hx)
  have hZ : (addG (x1 * Z1 ^ 2) (y1 * Z1 ^ 3) Z1 (x2 * Z2 ^ 2) (y2 * Z2 ^ 3) Z2).2.2
      = 2 * Z1 ^ 3 * Z2 ^ 3 * (x2 - x1) := by
    simp only [addG]; ring
  refine rep3_of_rep2 ?_ (add_chord hn1 hn2 hx) ?_ ?_
  · rw [hZ]; exact mul_ne_zero (mul_ne_zero (mul_ne_zero h2 (pow_ne_zero _ hz1)) (pow_ne_zero _ hz2)) hd'
  · rw [hZ]; simp only [addG]; field_simp; ring
  · rw [hZ]; simp only [addG]; field_simp; ring

/-- tangent -/
theorem dblG_rep {x y Z : F} (h2 : (2 : F) ≠ 0) (hz : Z ≠ 0) (hn : (Wc A B).Nonsingular x y) (hy : y ≠ 0) :
    Rep3 A B (dblG A (x * Z ^ 2) (y * Z ^ 3) Z) (Affine.Point.some x y hn + Affine.Point.some x y hn) := by
  have hyy : y + y ≠ 0 := by rw [← two_mul]; exact mul_ne_zero h2 hy
  have hZ : (dblG A (x * Z ^ 2) (y * Z ^ 3) Z).2.2 = 2 * y * Z ^ 4 := by
    simp only [dblG]; ring
  have h4 : (4 : F) ≠ 0 := by
    have : (4 : F) = 2 * 2 := by norm_num
    rw [this]; exact mul_ne_zero h2 h2
  have e : y + y = 2 * y := (two_mul y).symm
  refine rep3_of_rep2 ?_ (add_tangent hn hyy) ?_ ?_
  · rw [hZ]; exact mul_ne_zero (mul_ne_zero h2 hy) (pow_ne_zero _ hz)
  · rw [hZ]; simp only [dblG]; rw [e]; field_simp; ring
  · rw [hZ]; simp only [dblG]; rw [e]; field_simp; ring

/-- a point of order two: `y = 0` -/
theorem dbl_order2 {x y : F} (hn : (Wc A B).Nonsingular x y) (hy : y = 0) :
    Affine.Point.some x y hn + Affine.Point.some x y hn = 0 :=
  add_inverse hn hn rfl (by rw [hy, neg_zero])

end Bee2V.C06.AddJ

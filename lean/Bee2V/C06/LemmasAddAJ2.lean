/-
C06 — `ecpAddAJ` / `ecpSubAJ`, part 2: the algebra.  A result satisfying `Spec A p q` represents `P + Q`.
-/
import Bee2V.C06.LemmasAddAJ
import Mathlib.Tactic.FieldSimp
import Mathlib.Tactic.LinearCombination
namespace Bee2V.C06.AddAJ
open Bee2V.C06 WeierstrassCurve

set_option linter.unusedSectionVars false
set_option linter.unusedSimpArgs false
variable {F : Type} [Field F] [DecidableEq F] {A B : F}

/-- a triple with `Z = 0` stands for `O` -/
theorem rep3_zero {r : P3 F} (h : r.2.2 = 0) : Rep3 A B r 0 := by
  unfold Rep3; rw [if_pos h]

/-- a triple `(x Z², y Z³, Z)`, `Z ≠ 0`, stands for `(x, y)` -/
theorem rep3_scaled {x y Z : F} {P : (Wc A B).Point} (hz : Z ≠ 0) (h : Rep2 A B (x, y) P) :
    Rep3 A B (x * Z ^ 2, y * Z ^ 3, Z) P := by
  unfold Rep3; rw [if_neg hz]
  exact Rep2_of_eq h (by field_simp) (by field_simp)

theorem rep3_of_rep2 {X Y Z : F} {P : (Wc A B).Point} (hz : Z ≠ 0)
    (h : Rep2 A B (X / Z ^ 2, Y / Z ^ 3) P) : Rep3 A B (X, Y, Z) P := by
  unfold Rep3; rw [if_neg hz]; exact h

/-- `a = O`: the result `(xb : yb : 1)` -/
theorem alg_o {x2 y2 : F} {Q : (Wc A B).Point} (hq : Rep2 A B (x2, y2) Q) :
    Rep3 A B (x2, y2, 1) (0 + Q) := by
  rw [zero_add]
  exact rep3_of_rep2 one_ne_zero (Rep2_of_eq hq (by simp) (by simp))

/-- generic branch: chord -/
theorem alg_gen {x1 y1 Z1 x2 y2 : F} (h₁ : (Wc A B).Nonsingular x1 y1) (h₂ : (Wc A B).Nonsingular x2 y2)
    (hz : Z1 ≠ 0) (hx : x1 ≠ x2) :
    Rep3 A B (genF (x1 * Z1 ^ 2) (y1 * Z1 ^ 3) Z1 x2 y2)
      (Affine.Point.some x1 y1 h₁ + Affine.Point.some x2 y2 h₂) := by
  have hd : x1 - x2 ≠ 0 := sub_ne_zero.2 hx
  have ht : Z1 * Z1 * x2 - x1 * Z1 ^ 2 ≠ 0 := by
    have : Z1 * Z1 * x2 - x1 * Z1 ^ 2 = -(Z1 ^ 2 * (x1 - x2)) := by ring
    rw [this]; exact neg_ne_zero.2 (mul_ne_zero (pow_ne_zero 2 hz) hd)
  unfold genF t1F t2F
  refine rep3_of_rep2 (mul_ne_zero ht hz) (Rep2_of_eq (add_chord h₁ h₂ hx) ?_ ?_)
  · field_simp; ring
  · field_simp; ring

/-- mdbl-2007-bl against the tangent formulas, denominator `d = y + y` kept as an atom -/
theorem dbl_x (A x y d : F) (hd : d ≠ 0) (e : d = y + y) :
    ((3 * x ^ 2 + A) / d) ^ 2 - x - x = (dblF A x y).1 / d ^ 2 := by
  unfold dblF; field_simp; subst e; ring

theorem dbl_y (A x y d : F) (hd : d ≠ 0) (e : d = y + y) :
    ((3 * x ^ 2 + A) / d) * (x - (((3 * x ^ 2 + A) / d) ^ 2 - x - x)) - y = (dblF A x y).2.1 / d ^ 3 := by
  unfold dblF; field_simp; subst e; ring

/-- doubling branch: tangent at the affine `b` -/
theorem alg_dbl {x y : F} (h2 : (2 : F) ≠ 0) (h : (Wc A B).Nonsingular x y) (hy : y ≠ 0) :
    Rep3 A B (dblF A x y) (Affine.Point.some x y h + Affine.Point.some x y h) := by
  have hyy : y + y ≠ 0 := by rw [← two_mul]; exact mul_ne_zero h2 hy
  exact rep3_of_rep2 (X := (dblF A x y).1) (Y := (dblF A x y).2.1) (Z := y + y) hyy
    (Rep2_of_eq (add_tangent h hyy) (dbl_x A x y _ hyy rfl) (dbl_y A x y _ hyy rfl))

/-- a result described by `Spec` represents the sum, in every case -/
theorem spec_correct (h2 : (2 : F) ≠ 0) {p : P3 F} {q : P2 F} {r : P3 F} {P Q : (Wc A B).Point}
    (hs : Spec A p q r) (hp : Rep3 A B p P) (hq : Rep2 A B q Q) : Rep3 A B r (P + Q) := by
  obtain ⟨X1, Y1, Z1⟩ := p
  obtain ⟨x2, y2⟩ := q
  by_cases hz : Z1 = 0
  · unfold Rep3 at hp; rw [if_pos hz] at hp; subst hp
    rw [hs.o hz]; exact alg_o hq
  · obtain ⟨x1, rfl⟩ : ∃ x1, X1 = x1 * Z1 ^ 2 := ⟨X1 / Z1 ^ 2, by field_simp⟩
    obtain ⟨y1, rfl⟩ : ∃ y1, Y1 = y1 * Z1 ^ 3 := ⟨Y1 / Z1 ^ 3, by field_simp⟩
    unfold Rep3 at hp; rw [if_neg hz] at hp
    obtain ⟨h₁, rfl⟩ := Rep2_of_eq (x' := x1) (y' := y1) hp (by field_simp) (by field_simp)
    obtain ⟨h₂, rfl⟩ := hq
    have e1 : t1F (x1 * Z1 ^ 2) Z1 x2 = Z1 ^ 2 * (x2 - x1) := by unfold t1F; ring
    have e2 : t2F (y1 * Z1 ^ 3) Z1 y2 = Z1 ^ 3 * (y2 - y1) := by unfold t2F; ring
    by_cases hx : x1 = x2
    · subst hx
      have ht1 : t1F (x1 * Z1 ^ 2) Z1 x1 = 0 := by rw [e1, sub_self, mul_zero]
      by_cases hy : y1 = y2
      · subst hy
        have ht2 : t2F (y1 * Z1 ^ 3) Z1 y1 = 0 := by rw [e2, sub_self, mul_zero]
        by_cases y0 : y1 = 0
        · rw [add_inverse h₁ h₂ rfl (by rw [y0, neg_zero])]
          exact rep3_zero (hs.dbl0 hz ht1 ht2 y0)
        · rw [hs.dbl hz ht1 ht2 y0]; exact alg_dbl h2 h₁ y0
      · have ht2 : t2F (y1 * Z1 ^ 3) Z1 y2 ≠ 0 := by
          rw [e2]; exact mul_ne_zero (pow_ne_zero 3 hz) (sub_ne_zero.2 (Ne.symm hy))
        rcases y_eq_or_neg h₁ h₂ with e | e
        · exact absurd e hy
        · rw [add_inverse h₁ h₂ rfl e]
          exact rep3_zero (hs.inv hz ht1 ht2)
    · have ht1 : t1F (x1 * Z1 ^ 2) Z1 x2 ≠ 0 := by
        rw [e1]; exact mul_ne_zero (pow_ne_zero 2 hz) (sub_ne_zero.2 (Ne.symm hx))
      rw [hs.gen hz ht1]; exact alg_gen h₁ h₂ hz hx

end Bee2V.C06.AddAJ

/-
C06 — executable model, part 5: calling the programs of `Ecp` on values.

Canonical store layout: `rA = 0`, `rB = 1`, destination slot `sc = 2..4`, operand slots
`sa = 5..7`, `sb = 8..10`, scratch stack from `11`.  An aliased call places the operand in the
destination slot and passes the same index twice, exactly like the C caller passing the same pointer.
The result is the contents of the destination slot after the call (for an `O` result the X, Y words
are whatever the routine left there).
-/
import Bee2V.C06.Ecp
import Bee2V.C06.Mul
namespace Bee2V.C06

abbrev P3 (F : Type) := F × F × F
abbrev P2 (F : Type) := F × F

/-- curve description `ec_o` as far as `ecp.c` reads it; `a3` is `bA3` of `ecpCreateJ` -/
structure Curve (F : Type) where
  f : Fld F
  A : F
  B : F
  a3 : Bool

/-- `ecpCreateJ`: `t <- 2·1; t <- t + 1; t <- -t; bA3 <- (t == A)` -/
def mkCurve {F : Type} (f : Fld F) (A B : F) : Curve F :=
  { f := f, A := A, B := B, a3 := f.eqb (f.neg (f.add (f.dbl f.one) f.one)) A }

variable {F : Type}

abbrev sc : Nat := 2
abbrev sa : Nat := 5
abbrev sb : Nat := 8
abbrev sk : Nat := 11

def base (c : Curve F) : Store F := ⟨fun i => if i = rA then c.A else if i = rB then c.B else c.f.zero⟩

def put3 (st : Store F) (q : Nat) (p : P3 F) : Store F :=
  upd (upd (upd st (cX q) p.1) (cY q) p.2.1) (cZ q) p.2.2
def put2 (st : Store F) (q : Nat) (p : P2 F) : Store F :=
  upd (upd st (cX q) p.1) (cY q) p.2
def get3 (st : Store F) (q : Nat) : P3 F := (st.get (cX q), st.get (cY q), st.get (cZ q))
def get2 (st : Store F) (q : Nat) : P2 F := (st.get (cX q), st.get (cY q))

/-- slot of the first / second operand under an aliasing pattern -/
def slotA : Al → Nat
  | .ca => sc | .abc => sc | _ => sa
def slotB : Al → Nat
  | .cb => sc | .abc => sc | .ab => sa | .n => sb | .ca => sb

/-- run a two-address projective routine `op(b, a)` -/
def run1 (c : Curve F) (prog : Nat → Nat → Nat → Prog) (al : Al) (a : P3 F) : P3 F :=
  let ia := slotA al
  get3 ((prog sc ia sk).run c.f (put3 (base c) ia a)).1 sc

/-- run a three-address projective routine `op(c, a, b)` -/
def run2 (c : Curve F) (prog : Nat → Nat → Nat → Nat → Prog) (al : Al) (a b : P3 F) : P3 F :=
  let ia := slotA al; let ib := slotB al
  let st := put3 (base c) ia a
  let st := if al = .ab ∨ al = .abc then st else put3 st ib b
  get3 ((prog sc ia ib sk).run c.f st).1 sc

/-- run a mixed routine `op(c, a, b)`, `b` affine -/
def run2A (c : Curve F) (prog : Nat → Nat → Nat → Nat → Prog) (al : Al) (a : P3 F) (b : P2 F) : P3 F :=
  let ia := slotA al; let ib := slotB al
  get3 ((prog sc ia ib sk).run c.f (put2 (put3 (base c) ia a) ib b)).1 sc

def dblProg (c : Curve F) := if c.a3 then ecpDblJA3 else ecpDblJ
def tplProg (c : Curve F) := if c.a3 then ecpTplJA3 else ecpTplJ

def froma (c : Curve F) (al : Al) (a : P2 F) : P3 F :=
  let ia := slotA al
  get3 ((ecpFromAJ sc ia).run c.f (put2 (base c) ia a)).1 sc

def toa (c : Curve F) (al : Al) (a : P3 F) : Option (P2 F) :=
  let ia := slotA al
  let r := (ecpToAJ sc ia sk).run c.f (put3 (base c) ia a)
  if r.2 then some (get2 r.1 sc) else none

def dbla (c : Curve F) (al : Al) (a : P2 F) : P3 F :=
  let ia := slotA al
  get3 ((ecpDblAJ sc ia sk).run c.f (put2 (base c) ia a)).1 sc

/-- the function table filled in by `ecpCreateJ` -/
def ecOps (c : Curve F) : EcOps (P3 F) (P2 F) where
  froma := froma c .n
  toa := toa c .n
  view p := (p.1, p.2.1)
  setO := (c.f.zero, c.f.zero, c.f.zero)
  neg := run1 c (fun b a _ => ecpNegJ b a)
  dbl := run1 c (dblProg c)
  tpl := run1 c (tplProg c)
  dbla := dbla c .n
  add := run2 c ecpAddJ
  sub := run2 c ecpSubJ
  adda := run2A c ecpAddAJ
  suba := run2A c ecpSubAJ

/-- affine routines `ecpAddAA/ecpSubAA(c, a, b)`: `none` = FALSE -/
def runAA (c : Curve F) (prog : Nat → Nat → Nat → Nat → Prog) (al : Al) (a b : P2 F) : Option (P2 F) :=
  let ia := slotA al; let ib := slotB al
  let st := put2 (base c) ia a
  let st := if al = .ab ∨ al = .abc then st else put2 st ib b
  let r := (prog sc ia ib sk).run c.f st
  if r.2 then some (get2 r.1 sc) else none

def addAA (c : Curve F) := runAA c ecpAddAA
def subAA (c : Curve F) := runAA c ecpSubAA

def negA (c : Curve F) (al : Al) (a : P2 F) : P2 F :=
  let ia := slotA al
  get2 ((ecpNegA sc ia).run c.f (put2 (base c) ia a)).1 sc

/-- `ecpIsOnA` on field elements (the word-level range test is in `isOnAW`) -/
def isOnA (c : Curve F) (a : P2 F) : Bool :=
  ((ecpIsOnA sa sk).run c.f (put2 (base c) sa a)).2

/-- `ecpIsOnA` on words: `zmIsIn(xa) && zmIsIn(ya)` first -/
def isOnAW (p : Nat) (c : Curve Nat) (a : P2 Nat) : Bool :=
  if a.1 < p ∧ a.2 < p then isOnA c a else false

/-- `ecpSWU(b, a, …)`, `a` one field element at `sa` -/
def swu (p : Nat) (c : Curve F) (a : F) : P2 F :=
  get2 ((ecpSWU p sc sa sk).run c.f (upd (base c) sa a)).1 sc

end Bee2V.C06

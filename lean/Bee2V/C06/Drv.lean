/-
C06 — driver handlers (line protocol, see docs/C06.md).  Numbers are lower-case hex without leading
zeros.  Every line starts `<op> <field> <A> <B>`; `<field>` is the prime p (hex) for `ecp.c`, or
`b:m:k1:k2:k3` for GF(2^m) = GF(2)[x]/(x^m + x^k1 + x^k2 + x^k3 + 1) and `ec2.c`.
Projective results are printed normalised to affine (`x y`) or `O`; the routines returning FALSE for
the point at infinity print `O`.
-/
import Bee2V.C06.Wrap
import Bee2V.C06.Wrap2
import Bee2V.C06.Core2
import Bee2V.Base.Proto
namespace Bee2V.C06.Drv
open Bee2V.C06 Bee2V.Proto

def hexNat? (s : String) : Option Nat :=
  if s.isEmpty then none else
  s.toList.foldlM (fun acc c => (hexDigit c).map (fun d => acc * 16 + d)) 0

def natHex (n : Nat) : String := String.ofList (Nat.toDigits 16 n)

def al? : String → Option Al
  | "n" => some .n | "ca" => some .ca | "cb" => some .cb | "ab" => some .ab | "abc" => some .abc
  | _ => none

/-- everything the handlers need about one curve (prime or binary) -/
structure Ctx where
  bin : Bool
  p : Nat                     -- prime, or 0
  f : Fld Nat
  c : Curve Nat
  o : EcOps (P3 Nat) (P2 Nat)
  toa : Al → P3 Nat → Option (P2 Nat)
  dbla : Al → P2 Nat → P3 Nat
  froma : Al → P2 Nat → P3 Nat
  negA : Al → P2 Nat → P2 Nat
  addAA : Al → P2 Nat → P2 Nat → Option (P2 Nat)
  subAA : Al → P2 Nat → P2 Nat → Option (P2 Nat)
  isOn : P2 Nat → Bool

def mkCtx (p A B : Nat) : Ctx :=
  let c := mkCurve (natFld p) (A % p) (B % p)
  { bin := false, p := p, f := natFld p, c := c, o := ecOps c, toa := toa c, dbla := dbla c, froma := froma c,
    negA := negA c, addAA := addAA c, subAA := subAA c, isOn := isOnAW p c }

def mkCtx2 (m md A B : Nat) : Ctx :=
  let f := gf2Fld md m
  let c := mkCurve2 f A B
  { bin := true, p := 0, f := f, c := c, o := ecOps2 c, toa := toa2 c, dbla := dbla2 c, froma := froma2 c,
    negA := negA2 c, addAA := addAA2 c, subAA := subAA2 c, isOn := isOnAW2 m c }

def showA (a : P2 Nat) : String := natHex a.1 ++ " " ++ natHex a.2
def showOA : Option (P2 Nat) → String
  | none => "O"
  | some a => showA a

/-- normalisation of a projective triple, computed here (not by the model's `toa`):
    Jacobian `(X/Z², Y/Z³)` for prime curves, Lopez–Dahab `(X/Z, Y/Z²)` for binary ones -/
def showJ (x : Ctx) (q : P3 Nat) : String :=
  let f := x.f
  if f.eqb q.2.2 f.zero then "O" else
    let zi := f.inv q.2.2
    let zi2 := f.mul zi zi
    if x.bin then showA (f.mul q.1 zi, f.mul q.2.1 zi2)
    else showA (f.mul q.1 zi2, f.mul q.2.1 (f.mul zi2 zi))

/-- `(x, y, u) ↦ (u²x, u³y, u)` resp. `(ux, u²y, u)` -/
def scale (x : Ctx) (a : P2 Nat) (u : Nat) : P3 Nat :=
  let f := x.f
  let u2 := f.mul u u
  if x.bin then (f.mul u a.1, f.mul u2 a.2, u)
  else (f.mul u2 a.1, f.mul (f.mul u2 u) a.2, u % x.p)

def nums (ts : List String) : Option (List Nat) := ts.mapM hexNat?

/-- single operation: `op al args…` (after the curve) -/
def single (x : Ctx) (op : String) (al : Al) (v : List Nat) : String :=
  let o := x.o
  match op, v with
  | "neg", [a, b, z] => showJ x (o.neg al (a, b, z))
  | "dbl", [a, b, z] => showJ x (o.dbl al (a, b, z))
  | "tpl", [a, b, z] => if x.bin then "-" else showJ x (o.tpl al (a, b, z))
  | "toa", [a, b, z] => showOA (x.toa al (a, b, z))
  | "dbla", [a, b] => showJ x (x.dbla al (a, b))
  | "froma", [a, b] => showJ x (x.froma al (a, b))
  | "nega", [a, b] => showA (x.negA al (a, b))
  | "add", [a, b, z, a', b', z'] => showJ x (o.add al (a, b, z) (a', b', z'))
  | "sub", [a, b, z, a', b', z'] => showJ x (o.sub al (a, b, z) (a', b', z'))
  | "adda", [a, b, z, a', b'] => showJ x (o.adda al (a, b, z) (a', b'))
  | "suba", [a, b, z, a', b'] => showJ x (o.suba al (a, b, z) (a', b'))
  | "addaa", [a, b, a', b'] => showOA (x.addAA al (a, b) (a', b'))
  | "subaa", [a, b, a', b'] => showOA (x.subAA al (a, b) (a', b'))
  | _, _ => "bad-op"

/-- `pair`: all routines and aliasings on one ordered pair `(P, Q)`; `u = 0` encodes `O`.
    For binary curves `ec2AddAA/ec2SubAA` require `a`, `c` disjoint: `c == a` is skipped there. -/
def pair (x : Ctx) (v : List Nat) : String :=
  match v with
  | [x1, y1, u1, x2, y2, u2] =>
    let p3 := scale x (x1, y1) u1
    let q3 := scale x (x2, y2) u2
    let P := [x1, y1]; let Q := [x2, y2]
    let l3 := fun (q : P3 Nat) => [q.1, q.2.1, q.2.2]
    let hasP := !(x.f.eqb p3.2.2 x.f.zero); let hasQ := !(x.f.eqb q3.2.2 x.f.zero)
    let s := fun op al args => single x op al args
    let skip := fun (b : Bool) (r : String) => if b then r else "-"
    let nb := !x.bin
    String.intercalate ";" [
      s "add" .n (l3 p3 ++ l3 q3), s "add" .ca (l3 p3 ++ l3 q3), s "add" .cb (l3 p3 ++ l3 q3),
      s "add" .ab (l3 p3 ++ l3 p3),
      s "sub" .n (l3 p3 ++ l3 q3), s "sub" .ca (l3 p3 ++ l3 q3), s "sub" .cb (l3 p3 ++ l3 q3),
      s "sub" .ab (l3 p3 ++ l3 p3),
      skip hasQ (s "adda" .n (l3 p3 ++ Q)), skip hasQ (s "adda" .ca (l3 p3 ++ Q)),
      skip hasQ (s "adda" .cb (l3 p3 ++ Q)),
      skip hasQ (s "suba" .n (l3 p3 ++ Q)), skip hasQ (s "suba" .ca (l3 p3 ++ Q)),
      skip hasQ (s "suba" .cb (l3 p3 ++ Q)),
      s "dbl" .n (l3 p3), s "dbl" .ca (l3 p3), s "tpl" .n (l3 p3), s "tpl" .ca (l3 p3),
      s "neg" .n (l3 p3), s "neg" .ca (l3 p3), s "toa" .n (l3 p3), s "toa" .ca (l3 p3),
      skip hasP (s "dbla" .n P), skip hasP (s "dbla" .ca P),
      skip hasP (s "froma" .n P), skip hasP (s "froma" .ca P),
      skip hasP (s "nega" .n P), skip hasP (s "nega" .ca P),
      skip (hasP && hasQ) (s "addaa" .n (P ++ Q)), skip (hasP && hasQ && nb) (s "addaa" .ca (P ++ Q)),
      skip (hasP && hasQ) (s "addaa" .cb (P ++ Q)), skip (hasP && nb) (s "addaa" .abc (P ++ P)),
      skip (hasP && hasQ) (s "subaa" .n (P ++ Q)), skip (hasP && hasQ && nb) (s "subaa" .ca (P ++ Q)),
      skip (hasP && hasQ) (s "subaa" .cb (P ++ Q)), skip (hasP && nb) (s "subaa" .abc (P ++ P))]
  | _ => "bad-op"

/-- `addmul` arguments: `x y d` triples -/
def triples : List Nat → Option (List (P2 Nat × Nat))
  | [] => some []
  | a :: b :: d :: r => (triples r).map (fun t => ((a, b), d) :: t)
  | _ => none

def mulOp (x : Ctx) (W : Nat) (r : List String) : String :=
  match nums r with
  | some [a, b, d, m] => showOA (ecMulA x.o W (a, b) d m)
  | _ => "bad-op"

def hasOp (x : Ctx) (W : Nat) (r : List String) : String :=
  match nums r with
  | some [a, b, d, m] => if ecHasOrderA x.o W (a, b) d m then "1" else "0"
  | _ => "bad-op"

def addMulOp (x : Ctx) (W : Nat) (r : List String) : String :=
  match nums r with
  | some v => match triples v with
    | some ts => if ts.isEmpty then "bad-op" else showOA (ecAddMulA x.o W ts)
    | none => "bad-op"
  | none => "bad-op"

/-- field token: prime `p` in hex, or `b:m:k1:k2:k3` -/
def ctx? (sp sA sB : String) : Option Ctx :=
  match hexNat? sA, hexNat? sB with
  | some A, some B =>
    if sp.startsWith "b:" then
      match (sp.drop 2).toString.splitOn ":" |>.mapM String.toNat? with
      | some [m, k1, k2, k3] =>
        if m < 3 then none else
        let md := [m, k1, k2, k3].foldl (fun acc k => if k = 0 then acc else acc ||| (1 <<< k)) 1
        some (mkCtx2 m md A B)
      | _ => none
    else
      match hexNat? sp with
      | some p => if p < 5 ∨ p % 2 = 0 then none else some (mkCtx p A B)
      | none => none
  | _, _ => none

def handle (args : List String) : String :=
  match args with
  | op :: sp :: sA :: sB :: rest =>
    match ctx? sp sA sB with
    | none => "bad-op"
    | some x =>
      match op, rest with
      | "pair", r => match nums r with
        | some v => pair x v
        | none => "bad-op"
      | "ison", [a, b] => match hexNat? a, hexNat? b with
        | some a, some b => if x.isOn (a, b) then "1" else "0"
        | _, _ => "bad-op"
      | "swu", [a] => match hexNat? a with
        | some a => if x.bin then "bad-op" else showA (swu x.p x.c (a % x.p))
        | none => "bad-op"
      | "mul", r => mulOp x 64 r
      | "mul32", r => mulOp x 32 r
      | "hasorder", r => hasOp x 64 r
      | "hasorder32", r => hasOp x 32 r
      | "addmul", r => addMulOp x 64 r
      | "addmul32", r => addMulOp x 32 r
      | "naf", [d, w] => match hexNat? d, hexNat? w with
        | some d, some w => let r := wwNAF d w; natHex r.1 ++ " " ++ natHex r.2
        | _, _ => "bad-op"
      | _, al :: r => match al? al, nums r with
        | some al, some v => single x op al v
        | _, _ => "bad-op"
      | _, _ => "bad-op"
  | _ => "bad-op"

end Bee2V.C06.Drv

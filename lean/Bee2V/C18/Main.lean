import Bee2V.C18.Drv
/-- driver executable of area C18 (`drv_c18`) -/
def main : IO Unit := Bee2V.Proto.runLoop fun
  | "seq" :: args => Bee2V.C18.Drv.handle args
  | _ => "bad-op"

/-
C18 — executable small-step model of mt.c:mtCallOnce and of the shared generator of rng.c
(rngCreate / rngIsValid / rngClose / rngStepR / rngStepR2 / rngRekey) under sequentially
consistent interleaving.  Hand-written, mirrors the C statement by statement at the granularity
of one shared access per program counter.  No Mathlib (the driver `drv_c18` runs it).

Tie to the source:
  (a) the shared-access table of the C functions is REGENERATED on every run
      (xlate/x_c18_access.py → Bee2V/Gen/C18.lean) and must equal, after normalisation, the
      table derived from this model (`Bee2V.C18.table_matches`, Props.lean, by `decide`);
  (b) sequential refinement: single-thread op sequences are run on the real functions and on
      this model (harness/c18.c vs drv_c18) and all observables compared.
-/
import Bee2V.C18.Types

namespace Bee2V.C18

inductive UseKind | stepR | stepR2 | rekey
deriving DecidableEq, Repr

/-- operations a thread may perform (grammar of the property) -/
inductive Op
  | create (src : Bool)           -- rngCreate(source, …): with / without an additional source
  | isValid
  | close
  | use (k : UseKind) (blocks : Nat)   -- request of `blocks` 32-octet blocks (ignored for rekey)
deriving DecidableEq, Repr

inductive Pc
  | idle
  -- mtCallOnce(&_once, rngInit) inside rngCreate
  | oCas | iMtx | iExit | iSet | oPub
  -- rest of rngCreate
  | cInited | cLock | cCtr | cBump | cAlloc | cEntropy | cSetCtr | cUnlockOk | cUnlockErr
  -- rngIsValid
  | vOnce | vInited | vLock | vBody | vUnlock
  -- rngClose
  | xLock | xDec | xFree | xUnlock
  -- rngStepR / rngStepR2 / rngRekey
  | uLock | uBody | uUnlock
deriving DecidableEq, Repr

/-- a block handed to a caller: (thread, key epoch, position in that epoch's CTR stream) -/
structure Blk where
  tid : Nat
  epoch : Nat
  idx : Nat
deriving DecidableEq, Repr

def onceMax : Nat := 2     -- stands for SIZE_MAX in `_once`

structure Sh where
  once : Nat := 0          -- 0, 1 or onceMax
  inited : Bool := false   -- _inited
  mtxOk : Bool := false    -- the mutex object has been created
  owner : Option Nat := none
  ctr : Nat := 0           -- _ctr (never decremented at 0: theorem `no_underflow`; overflow at 2^64 references not modelled)
  alive : Bool := false    -- _state != 0
  epoch : Nat := 0         -- ghost: number of keys installed so far
  idx : Nat := 0           -- position in the current CTR stream
  initRuns : Nat := 0      -- ghost: how often rngInit was entered
  log : List Blk := []     -- ghost: blocks handed out
deriving Repr

structure TState where
  pc : Pc := .idle
  prog : List Op := []
  refs : Nat := 0          -- ghost: references this thread holds
  src : Bool := false      -- current rngCreate has a source
  kind : UseKind := .stepR2
  blocks : Nat := 0
  tmp : Bool := false      -- rngIsValid: value of b
  results : List Nat := [] -- values returned so far (0 = ERR_OK / FALSE …), newest first
deriving Repr

structure Cfg where
  n : Nat
  sh : Sh
  th : Nat → TState

def setTh (th : Nat → TState) (t : Nat) (T : TState) : Nat → TState :=
  fun u => if u = t then T else th u

def Cfg.upd (c : Cfg) (t : Nat) (sh : Sh) (T : TState) : Cfg :=
  { c with sh := sh, th := setTh c.th t T }

/-- finish the current operation with return value `r` -/
def TState.done (T : TState) (r : Nat) : TState :=
  { T with pc := .idle, prog := T.prog.tail, results := r :: T.results }

def freshBlocks (t e i : Nat) : Nat → List Blk
  | 0 => []
  | k + 1 => ⟨t, e, i⟩ :: freshBlocks t e (i + 1) k

/-- result codes -/
def rOK : Nat := 0
def rERR : Nat := 1

/-- One step of a thread with local state `T` and identity `t` on the shared state `sh`;
`ch` resolves the nondeterminism of the environment (bit 0: mtMtxCreate / utilOnExit /
blobCreate succeed iff 0; bit 1: enough entropy iff 0).
`none`: the thread cannot move (finished, blocked on the mutex, or the next operation is not
allowed by the grammar: use/close without holding a reference). -/
def stepLocal (sh : Sh) (T : TState) (t ch : Nat) : Option (Sh × TState) :=
  match T.pc with
  | .idle =>
    match T.prog with
    | [] => none
    | .create s :: _ => some (sh, { T with pc := .oCas, src := s })
    | .isValid :: _ => some (sh, { T with pc := .vOnce })
    | .close :: _ => if T.refs = 0 then none else some (sh, { T with pc := .xLock })
    | .use k b :: _ => if T.refs = 0 then none else some (sh, { T with pc := .uLock, kind := k, blocks := b })
  -- mtCallOnce: t = CAS(once, 0, MAX)
  | .oCas =>
    if sh.once = 0 then some ({ sh with once := onceMax, initRuns := sh.initRuns + 1 }, { T with pc := .iMtx })
    else if sh.once = onceMax then some (sh, T)                      -- spin
    else some (sh, { T with pc := .cInited })
  -- rngInit
  | .iMtx =>
    if ch % 2 = 0 then some ({ sh with mtxOk := true }, { T with pc := .iExit })
    else some (sh, { T with pc := .oPub })
  | .iExit =>
    if ch % 2 = 0 then some (sh, { T with pc := .iSet })
    else some ({ sh with mtxOk := false }, { T with pc := .oPub })
  | .iSet => some ({ sh with inited := true }, { T with pc := .oPub })
  -- publication of the trigger (atomic compare-and-swap MAX -> 1)
  | .oPub => some ({ sh with once := if sh.once = onceMax then 1 else sh.once }, { T with pc := .cInited })
  -- rngCreate after the once-gate
  | .cInited => if sh.inited then some (sh, { T with pc := .cLock }) else some (sh, T.done rERR)
  | .cLock => if sh.owner = none then some ({ sh with owner := some t }, { T with pc := .cCtr }) else none
  | .cCtr => if sh.ctr ≠ 0 then some (sh, { T with pc := .cBump }) else some (sh, { T with pc := .cAlloc })
  | .cBump =>
    some ({ sh with ctr := sh.ctr + 1, idx := if T.src then sh.idx + 1 else sh.idx },
      { T with pc := .cUnlockOk, refs := T.refs + 1 })
  | .cAlloc =>
    if ch % 2 = 0 then some ({ sh with alive := true }, { T with pc := .cEntropy })
    else some (sh, { T with pc := .cUnlockErr })
  | .cEntropy =>
    if (ch / 2) % 2 = 0 then some ({ sh with epoch := sh.epoch + 1, idx := 0 }, { T with pc := .cSetCtr })
    else some ({ sh with alive := false }, { T with pc := .cUnlockErr })
  | .cSetCtr => some ({ sh with ctr := 1 }, { T with pc := .cUnlockOk, refs := T.refs + 1 })
  | .cUnlockOk => some ({ sh with owner := none }, T.done rOK)
  | .cUnlockErr => some ({ sh with owner := none }, T.done rERR)
  -- rngIsValid
  | .vOnce => if sh.once = 1 then some (sh, { T with pc := .vInited }) else some (sh, T.done 0)
  | .vInited => if sh.inited then some (sh, { T with pc := .vLock }) else some (sh, T.done 0)
  | .vLock => if sh.owner = none then some ({ sh with owner := some t }, { T with pc := .vBody }) else none
  | .vBody => some (sh, { T with pc := .vUnlock, tmp := decide (sh.ctr ≠ 0) && sh.alive })
  | .vUnlock => some ({ sh with owner := none }, T.done (if T.tmp then 1 else 0))
  -- rngClose
  | .xLock => if sh.owner = none then some ({ sh with owner := some t }, { T with pc := .xDec }) else none
  | .xDec =>
    some ({ sh with ctr := sh.ctr - 1 },
      { T with pc := if sh.ctr - 1 = 0 then .xFree else .xUnlock, refs := T.refs - 1 })
  | .xFree => some ({ sh with alive := false }, { T with pc := .xUnlock })
  | .xUnlock => some ({ sh with owner := none }, T.done rOK)
  -- rngStepR / rngStepR2 / rngRekey
  | .uLock => if sh.owner = none then some ({ sh with owner := some t }, { T with pc := .uBody }) else none
  | .uBody =>
    match T.kind with
    | .rekey => some ({ sh with epoch := sh.epoch + 1, idx := 0 }, { T with pc := .uUnlock })
    | _ => some ({ sh with idx := sh.idx + T.blocks, log := sh.log ++ freshBlocks t sh.epoch sh.idx T.blocks },
             { T with pc := .uUnlock })
  | .uUnlock => some ({ sh with owner := none }, T.done rOK)

/-- one step of thread `t` of a configuration (threads are `0 … n-1`) -/
def step (c : Cfg) (t : Nat) (ch : Nat) : Option Cfg :=
  if c.n ≤ t then none else
  match stepLocal c.sh (c.th t) t ch with
  | none => none
  | some (sh, T) => some (c.upd t sh T)

/-- initial configuration: `n` threads with the given programs -/
def init (n : Nat) (progs : Nat → List Op) : Cfg :=
  { n := n, sh := {}, th := fun u => if u < n then { prog := progs u } else {} }

/-- run a schedule (thread, choice); entries that cannot move are skipped -/
def runSched (c : Cfg) : List (Nat × Nat) → Cfg
  | [] => c
  | (t, ch) :: rest => runSched ((step c t ch).getD c) rest

/-! ### Access table of the model (what each program counter touches) -/

/-- the thread holds the mutex at this program counter -/
def inCS : Pc → Bool
  | .cCtr | .cBump | .cAlloc | .cEntropy | .cSetCtr | .cUnlockOk | .cUnlockErr
  | .vBody | .vUnlock | .xDec | .xFree | .xUnlock | .uBody | .uUnlock => true
  | _ => false

/-- shared data accesses performed by the step taken at a program counter
(location, write, atomic); lock / unlock themselves are synchronisation, but acquiring
reads the mutex object that mtMtxCreate wrote -/
def accs : Pc → List (Loc × Bool × Bool)
  | .idle => []
  | .oCas => [(.once, true, true)]
  | .iMtx => [(.mtx, true, false)]
  | .iExit => [(.mtx, true, false)]
  | .iSet => [(.inited, true, false)]
  | .oPub => [(.once, true, true)]
  | .cInited => [(.inited, false, false)]
  | .cLock => [(.mtx, false, false)]
  | .cCtr => [(.ctr, false, false)]
  | .cBump => [(.state, false, false), (.gen, true, false), (.ctr, false, false), (.ctr, true, false)]
  | .cAlloc => [(.state, true, false), (.state, false, false)]
  | .cEntropy => [(.state, false, false), (.gen, true, false), (.state, true, false)]
  | .cSetCtr => [(.state, false, false), (.gen, true, false), (.ctr, true, false)]
  | .cUnlockOk => []
  | .cUnlockErr => []
  | .vOnce => [(.once, true, true)]
  | .vInited => [(.inited, false, false)]
  | .vLock => [(.mtx, false, false)]
  | .vBody => [(.ctr, false, false), (.state, false, false), (.gen, true, false)]
  | .vUnlock => []
  | .xLock => [(.mtx, false, false)]
  | .xDec => [(.ctr, false, false), (.ctr, true, false)]
  | .xFree => [(.state, false, false), (.gen, true, false), (.state, true, false)]
  | .xUnlock => []
  | .uLock => [(.mtx, false, false)]
  | .uBody => [(.state, false, false), (.gen, true, false)]
  | .uUnlock => []

def recsOf (p : Pc) : List AccRec := (accs p).map fun (l, w, a) => .acc l w a (inCS p)

/-- the model's access table, function by function, in the order of the C source -/
def table : List (String × List AccRec) := [
  ("mtCallOnce", recsOf .oCas ++ [.call "fn" false] ++ recsOf .oPub),
  ("rngInit", recsOf .iMtx ++ recsOf .iExit ++ recsOf .iSet),
  ("rngCreate", [.call "mtCallOnce" false] ++ recsOf .cInited ++ recsOf .cLock ++ recsOf .cCtr ++ recsOf .cBump
      ++ recsOf .cAlloc ++ recsOf .cEntropy ++ recsOf .cSetCtr),
  ("rngIsValid_internal", (accs .vBody).map fun (l, w, a) => .acc l w a false),
  ("rngIsValid", recsOf .vOnce ++ recsOf .vInited ++ recsOf .vLock ++ [.call "rngIsValid_internal" true]),
  ("rngClose", recsOf .xLock ++ recsOf .xDec ++ recsOf .xFree),
  ("rngStepR2", recsOf .uLock ++ recsOf .uBody),
  ("rngStepR", recsOf .uLock ++ recsOf .uBody),
  ("rngRekey", recsOf .uLock ++ recsOf .uBody)]

def normTable (t : List (String × List AccRec)) : List (String × List AccRec) :=
  t.map fun (f, l) => (f, norm l)

end Bee2V.C18

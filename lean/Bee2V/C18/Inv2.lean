import Bee2V.C18.Inv

namespace Bee2V.C18

/-! ### Reference counting and the life cycle of the generator state -/

theorem sumRefs_other (th : Nat → TState) (t : Nat) (T : TState) (k : Nat) (h : k ≤ t) :
    sumRefs (setTh th t T) k = sumRefs th k := by
  induction k with
  | zero => rfl
  | succ k ih =>
    have hk : k ≠ t := by omega
    simp [sumRefs, ih (by omega), setTh_other _ _ _ _ hk]

theorem sumRefs_upd (th : Nat → TState) (t : Nat) (T : TState) (n : Nat) (h : t < n) :
    sumRefs (setTh th t T) n + (th t).refs = sumRefs th n + T.refs := by
  induction n with
  | zero => omega
  | succ k ih =>
    by_cases hk : t = k
    · subst hk
      simp [sumRefs, sumRefs_other th t T t (Nat.le_refl _)]; omega
    · have hk' : k ≠ t := fun e => hk e.symm
      have := ih (by omega)
      simp [sumRefs, setTh_other _ _ _ _ hk']; omega

theorem refs_le_sum (th : Nat → TState) (t n : Nat) (h : t < n) : (th t).refs ≤ sumRefs th n := by
  induction n with
  | zero => omega
  | succ k ih =>
    by_cases hk : t = k
    · subst hk; simp [sumRefs]
    · have := ih (by omega); simp [sumRefs]; omega

/-- "the state pointer is set but the counter is still / already 0": inside rngCreate between
the allocation and `_ctr = 1`, inside rngClose between `--_ctr` and the release -/
def midPc : Pc → Bool
  | .cEntropy | .cSetCtr | .xFree => true
  | _ => false

theorem midPc_iff (p : Pc) : midPc p = true ↔ (p = .cEntropy ∨ p = .cSetCtr ∨ p = .xFree) := by
  cases p <;> simp [midPc]
theorem midPc_false (p : Pc) : midPc p = false ↔ (p ≠ .cEntropy ∧ p ≠ .cSetCtr ∧ p ≠ .xFree) := by
  cases p <;> simp [midPc]

structure Inv2 (c : Cfg) : Prop where
  cnt : c.sh.ctr = sumRefs c.th c.n
  free : c.sh.owner = none → (c.sh.alive = true ↔ c.sh.ctr ≠ 0)
  held : ∀ u, c.sh.owner = some u → midPc (c.th u).pc = false → (c.sh.alive = true ↔ c.sh.ctr ≠ 0)
  mid : ∀ u, midPc (c.th u).pc = true → c.sh.alive = true ∧ c.sh.ctr = 0
  alloc : ∀ u, (c.th u).pc = .cAlloc → c.sh.alive = false ∧ c.sh.ctr = 0
  bump : ∀ u, (c.th u).pc = .cBump → c.sh.ctr ≠ 0

theorem local_cnt (sh sh' : Sh) (T T' : TState) (t ch : Nat)
    (h : stepLocal sh T t ch = some (sh', T')) (h1 : T.pc = .cSetCtr → sh.ctr = 0)
    (h2 : T.pc = .xDec → sh.ctr ≠ 0 ∧ T.refs ≠ 0) : sh'.ctr + T.refs = sh.ctr + T'.refs := by
  local_cases h T
  all_goals (simp_all [TState.done] <;> omega)

theorem inv2_cnt {c : Cfg} {t ch : Nat} {sh' : Sh} {T' : TState} (hinv : Inv c) (h2 : Inv2 c) (ht : t < c.n)
    (hloc : stepLocal c.sh (c.th t) t ch = some (sh', T')) :
    (c.upd t sh' T').sh.ctr = sumRefs (c.upd t sh' T').th (c.upd t sh' T').n := by
  have hs := sumRefs_upd c.th t T' c.n ht
  have hle := refs_le_sum c.th t c.n ht
  have hc := h2.cnt
  have hl := local_cnt _ _ _ _ _ _ hloc
    (fun hp => (h2.mid t (by simp [midPc_iff, hp])).2)
    (fun hp => by
      have := hinv.hold t (by simp [holdPc_iff, hp])
      exact ⟨by omega, this⟩)
  simp only [Cfg.upd]
  omega

theorem others_outside {c : Cfg} (hinv : Inv c) {t u : Nat} (hu : u ≠ t) (ho : c.sh.owner = some t) :
    inCS (c.th u).pc = false := by
  cases hcs : inCS (c.th u).pc
  · rfl
  · exfalso
    have := (hinv.owner u).1 hcs
    rw [ho] at this
    exact hu (Option.some.inj this).symm

theorem xdec_pos {c : Cfg} (hinv : Inv c) (h2 : Inv2 c) {t : Nat} (ht : t < c.n) (hp : (c.th t).pc = .xDec) :
    c.sh.ctr ≠ 0 := by
  have := hinv.hold t (by simp [holdPc_iff, hp])
  have hle := refs_le_sum c.th t c.n ht
  have := h2.cnt
  omega

macro "field2_cases" hloc:ident hinv:ident c:ident t:ident u:ident : tactic => `(tactic| (
  by_cases hu : $u:ident = $t:ident
  · subst hu
    simp only [Cfg.upd, setTh_same]
    generalize Cfg.th $c:ident $u:ident = T at *
    local_cases $hloc:ident T
    all_goals simp_all [midPc_iff, midPc_false, inCS_iff, inCS_false, TState.done, rOK, rERR]
  · have hnot := others_outside $hinv:ident hu
    have hu' : ¬ $t:ident = $u:ident := fun e => hu e.symm
    have hown := Inv.owner $hinv:ident $t:ident
    simp only [Cfg.upd, setTh_other _ _ _ _ hu]
    generalize Cfg.th $c:ident $t:ident = T at *
    generalize Cfg.th $c:ident $u:ident = U at *
    local_cases $hloc:ident T
    all_goals simp_all [midPc_iff, midPc_false, inCS_iff, inCS_false, TState.done, rOK, rERR]))

theorem inv2_mid {c : Cfg} {t ch : Nat} {sh' : Sh} {T' : TState} (hinv : Inv c) (h2 : Inv2 c) (ht : t < c.n)
    (hloc : stepLocal c.sh (c.th t) t ch = some (sh', T')) :
    ∀ u, midPc ((c.upd t sh' T').th u).pc = true → (c.upd t sh' T').sh.alive = true ∧ (c.upd t sh' T').sh.ctr = 0 := by
  intro u
  have h1 := h2.mid u
  have h3 := h2.mid t
  have h4 := h2.alloc t
  have h6 := hinv.owner t
  have h7 := h2.held t
  have hx := xdec_pos hinv h2 ht
  field2_cases hloc hinv c t u

theorem inv2_alloc {c : Cfg} {t ch : Nat} {sh' : Sh} {T' : TState} (hinv : Inv c) (h2 : Inv2 c) (ht : t < c.n)
    (hloc : stepLocal c.sh (c.th t) t ch = some (sh', T')) :
    ∀ u, ((c.upd t sh' T').th u).pc = .cAlloc → (c.upd t sh' T').sh.alive = false ∧ (c.upd t sh' T').sh.ctr = 0 := by
  intro u
  have h1 := h2.alloc u
  have h3 := h2.alloc t
  have h6 := hinv.owner t
  have h7 := h2.held t
  have hx := xdec_pos hinv h2 ht
  field2_cases hloc hinv c t u

theorem inv2_bump {c : Cfg} {t ch : Nat} {sh' : Sh} {T' : TState} (hinv : Inv c) (h2 : Inv2 c) (ht : t < c.n)
    (hloc : stepLocal c.sh (c.th t) t ch = some (sh', T')) :
    ∀ u, ((c.upd t sh' T').th u).pc = .cBump → (c.upd t sh' T').sh.ctr ≠ 0 := by
  intro u
  have h1 := h2.bump u
  have h3 := h2.bump t
  have h6 := hinv.owner t
  have hx := xdec_pos hinv h2 ht
  field2_cases hloc hinv c t u

theorem inv2_free {c : Cfg} {t ch : Nat} {sh' : Sh} {T' : TState} (hinv : Inv c) (h2 : Inv2 c)
    (hloc : stepLocal c.sh (c.th t) t ch = some (sh', T')) :
    sh'.owner = none → (sh'.alive = true ↔ sh'.ctr ≠ 0) := by
  have h1 := h2.free
  have h3 := h2.held t
  have h6 := hinv.owner t
  generalize c.th t = T at *
  local_cases hloc T
  all_goals simp_all [midPc_iff, midPc_false, inCS_iff, inCS_false, TState.done]

theorem inv2_held {c : Cfg} {t ch : Nat} {sh' : Sh} {T' : TState} (hinv : Inv c) (h2 : Inv2 c) (ht : t < c.n)
    (hloc : stepLocal c.sh (c.th t) t ch = some (sh', T')) :
    ∀ u, (c.upd t sh' T').sh.owner = some u → midPc ((c.upd t sh' T').th u).pc = false →
      ((c.upd t sh' T').sh.alive = true ↔ (c.upd t sh' T').sh.ctr ≠ 0) := by
  intro u
  have h1 := h2.held u
  have h3 := h2.held t
  have h4 := h2.free
  have h5 := h2.mid t
  have h6 := hinv.owner t
  have h7 := h2.alloc t
  have h8 := h2.bump t
  have hx := xdec_pos hinv h2 ht
  field2_cases hloc hinv c t u

theorem inv2_step {c c' : Cfg} {t ch : Nat} (hinv : Inv c) (h2 : Inv2 c) (hs : step c t ch = some c') : Inv2 c' := by
  obtain ⟨ht, sh', T', hloc, rfl⟩ := step_elim hs
  exact {
    cnt := inv2_cnt hinv h2 ht hloc
    free := inv2_free hinv h2 hloc
    held := inv2_held hinv h2 ht hloc
    mid := inv2_mid hinv h2 ht hloc
    alloc := inv2_alloc hinv h2 ht hloc
    bump := inv2_bump hinv h2 ht hloc }

theorem sumRefs_zero (th : Nat → TState) (n : Nat) (h : ∀ u, (th u).refs = 0) : sumRefs th n = 0 := by
  induction n with
  | zero => rfl
  | succ k ih => simp [sumRefs, ih, h k]

theorem inv2_init (n : Nat) (progs : Nat → List Op) : Inv2 (init n progs) := by
  have hpc : ∀ u, ((init n progs).th u).pc = .idle := by intro u; simp only [init]; split <;> rfl
  have hrefs : ∀ u, ((init n progs).th u).refs = 0 := by intro u; simp only [init]; split <;> rfl
  have hsh : (init n progs).sh = {} := rfl
  constructor
  · rw [sumRefs_zero _ _ hrefs, hsh]
  all_goals (intros; simp_all [midPc_iff])

theorem inv2_reach {n : Nat} {progs : Nat → List Op} {c : Cfg} (h : Reach n progs c) : Inv2 c := by
  induction h with
  | init => exact inv2_init n progs
  | step hr hs ih => exact inv2_step (inv_reach hr) ih hs

end Bee2V.C18

import Bee2V.C18.Model

namespace Bee2V.C18

/-! ### Reachability -/

inductive Reach (n : Nat) (progs : Nat → List Op) : Cfg → Prop
  | init : Reach n progs (init n progs)
  | step {c c' : Cfg} {t ch : Nat} : Reach n progs c → step c t ch = some c' → Reach n progs c'

@[simp] theorem setTh_same (th : Nat → TState) (t : Nat) (T : TState) : setTh th t T t = T := by simp [setTh]
@[simp] theorem setTh_other (th : Nat → TState) (t u : Nat) (T : TState) (h : u ≠ t) : setTh th t T u = th u := by
  simp [setTh, h]

/-- case split of a local step on the program counter of the moving thread; afterwards
`sh'`, `T'` are replaced by the explicit results -/
macro "local_cases" h:ident T:ident : tactic => `(tactic| (
  obtain ⟨pc, prog, refs, src, kind, blocks, tmp, results⟩ := $T:ident
  cases pc <;> simp only [stepLocal] at $h:ident
  all_goals (try split at $h:ident)
  all_goals (try split at $h:ident)
  all_goals (cases $h:ident)))

/-! ### Classes of program counters -/

/-- inside rngInit / before the publication of the trigger -/
def initPc : Pc → Bool
  | .iMtx | .iExit | .iSet | .oPub => true
  | _ => false

/-- the thread has passed the once-gate (or holds a reference obtained through it) -/
def postOnce : Pc → Bool
  | .idle | .oCas | .iMtx | .iExit | .iSet | .oPub | .vOnce => false
  | _ => true

/-- about to acquire the mutex -/
def lockPc : Pc → Bool
  | .cLock | .vLock | .xLock | .uLock => true
  | _ => false

/-- rngClose / rngStep* in progress before the reference is given back -/
def holdPc : Pc → Bool
  | .xLock | .xDec | .uLock | .uBody | .uUnlock => true
  | _ => false

theorem initPc_iff (p : Pc) : initPc p = true ↔ (p = .iMtx ∨ p = .iExit ∨ p = .iSet ∨ p = .oPub) := by
  cases p <;> simp [initPc]
theorem initPc_false (p : Pc) : initPc p = false ↔ (p ≠ .iMtx ∧ p ≠ .iExit ∧ p ≠ .iSet ∧ p ≠ .oPub) := by
  cases p <;> simp [initPc]

theorem postOnce_iff (p : Pc) : postOnce p = true ↔ (p ≠ .idle ∧ p ≠ .oCas ∧ p ≠ .iMtx ∧ p ≠ .iExit ∧ p ≠ .iSet ∧ p ≠ .oPub ∧ p ≠ .vOnce) := by
  cases p <;> simp [postOnce]
theorem postOnce_false (p : Pc) : postOnce p = false ↔ (p = .idle ∨ p = .oCas ∨ p = .iMtx ∨ p = .iExit ∨ p = .iSet ∨ p = .oPub ∨ p = .vOnce) := by
  cases p <;> simp [postOnce]
theorem lockPc_iff (p : Pc) : lockPc p = true ↔ (p = .cLock ∨ p = .vLock ∨ p = .xLock ∨ p = .uLock) := by
  cases p <;> simp [lockPc]
theorem lockPc_false (p : Pc) : lockPc p = false ↔ (p ≠ .cLock ∧ p ≠ .vLock ∧ p ≠ .xLock ∧ p ≠ .uLock) := by
  cases p <;> simp [lockPc]
theorem holdPc_iff (p : Pc) : holdPc p = true ↔ (p = .xLock ∨ p = .xDec ∨ p = .uLock ∨ p = .uBody ∨ p = .uUnlock) := by
  cases p <;> simp [holdPc]
theorem holdPc_false (p : Pc) : holdPc p = false ↔ (p ≠ .xLock ∧ p ≠ .xDec ∧ p ≠ .uLock ∧ p ≠ .uBody ∧ p ≠ .uUnlock) := by
  cases p <;> simp [holdPc]
theorem inCS_iff (p : Pc) : inCS p = true ↔ (p = .cCtr ∨ p = .cBump ∨ p = .cAlloc ∨ p = .cEntropy ∨ p = .cSetCtr ∨ p = .cUnlockOk ∨ p = .cUnlockErr ∨ p = .vBody ∨ p = .vUnlock ∨ p = .xDec ∨ p = .xFree ∨ p = .xUnlock ∨ p = .uBody ∨ p = .uUnlock) := by
  cases p <;> simp [inCS]
theorem inCS_false (p : Pc) : inCS p = false ↔ (p ≠ .cCtr ∧ p ≠ .cBump ∧ p ≠ .cAlloc ∧ p ≠ .cEntropy ∧ p ≠ .cSetCtr ∧ p ≠ .cUnlockOk ∧ p ≠ .cUnlockErr ∧ p ≠ .vBody ∧ p ≠ .vUnlock ∧ p ≠ .xDec ∧ p ≠ .xFree ∧ p ≠ .xUnlock ∧ p ≠ .uBody ∧ p ≠ .uUnlock) := by
  cases p <;> simp [inCS]

/-! ### The invariant -/

def sumRefs (th : Nat → TState) : Nat → Nat
  | 0 => 0
  | k + 1 => sumRefs th k + (th k).refs

structure Inv (c : Cfg) : Prop where
  owner : ∀ u, inCS (c.th u).pc = true ↔ c.sh.owner = some u
  onceRange : c.sh.once = 0 ∨ c.sh.once = 1 ∨ c.sh.once = onceMax
  initRegion : ∀ u, initPc (c.th u).pc = true → c.sh.once = onceMax
  initUnique : ∀ u v, initPc (c.th u).pc = true → initPc (c.th v).pc = true → u = v
  post : ∀ u, postOnce (c.th u).pc = true → c.sh.once = 1
  refsPost : ∀ u, (c.th u).refs ≠ 0 → c.sh.once = 1 ∧ c.sh.inited = true
  flags0 : c.sh.once = 0 → c.sh.inited = false ∧ c.sh.mtxOk = false ∧ c.sh.initRuns = 0
  runs : c.sh.once ≠ 0 → c.sh.initRuns = 1
  flags1 : c.sh.once = 1 → c.sh.inited = c.sh.mtxOk
  initFlags : ∀ u, ((c.th u).pc = .iMtx → c.sh.inited = false ∧ c.sh.mtxOk = false) ∧
      ((c.th u).pc = .iExit ∨ (c.th u).pc = .iSet → c.sh.inited = false ∧ c.sh.mtxOk = true) ∧
      ((c.th u).pc = .oPub → c.sh.inited = c.sh.mtxOk)
  lockReady : ∀ u, (lockPc (c.th u).pc = true ∨ inCS (c.th u).pc = true) → c.sh.inited = true
  idleOut : ∀ u, c.n ≤ u → (c.th u).pc = .idle ∧ (c.th u).refs = 0
  hold : ∀ u, holdPc (c.th u).pc = true → (c.th u).refs ≠ 0

theorem local_owner (sh sh' : Sh) (T T' : TState) (t ch : Nat)
    (h : stepLocal sh T t ch = some (sh', T')) (h0 : inCS T.pc = true ↔ sh.owner = some t) :
    (inCS T'.pc = true ↔ sh'.owner = some t) ∧ (∀ u, u ≠ t → (sh'.owner = some u ↔ sh.owner = some u)) := by
  local_cases h T
  all_goals (simp_all [inCS_iff, inCS_false, TState.done] <;> omega)

/-- destructs `step c t ch = some c'` into the local step of thread `t` -/
theorem step_elim {c c' : Cfg} {t ch : Nat} (hs : step c t ch = some c') :
    t < c.n ∧ ∃ sh' T', stepLocal c.sh (c.th t) t ch = some (sh', T') ∧ c' = c.upd t sh' T' := by
  unfold step at hs
  split at hs
  · cases hs
  · rename_i hnt
    split at hs
    · cases hs
    · rename_i sh' T' hloc
      cases hs
      exact ⟨by omega, sh', T', hloc, rfl⟩

theorem inv_owner {c : Cfg} {t ch : Nat} {sh' : Sh} {T' : TState} (hinv : Inv c)
    (hloc : stepLocal c.sh (c.th t) t ch = some (sh', T')) :
    ∀ u, inCS ((c.upd t sh' T').th u).pc = true ↔ (c.upd t sh' T').sh.owner = some u := by
  have := local_owner _ _ _ _ _ _ hloc (hinv.owner t)
  intro u
  by_cases hu : u = t
  · subst hu; simpa [Cfg.upd] using this.1
  · have h2 := this.2 u hu
    have h3 := hinv.owner u
    simp [Cfg.upd, hu]; rw [h2]; exact h3

/-- closes a per-thread invariant field after a step: case split on "the thread is / is not the
moving one", then on the program counter of the moving thread -/
macro "field_cases" hloc:ident c:ident t:ident u:ident : tactic => `(tactic| (
  by_cases hu : $u:ident = $t:ident
  · subst hu
    simp only [Cfg.upd, setTh_same]
    generalize Cfg.th $c:ident $u:ident = T at *
    local_cases $hloc:ident T
    all_goals simp_all [initPc_iff, initPc_false, postOnce_iff, postOnce_false, lockPc_iff, lockPc_false, holdPc_iff, holdPc_false, inCS_iff, inCS_false, onceMax, TState.done, rOK, rERR]
  · simp only [Cfg.upd, setTh_other _ _ _ _ hu]
    generalize Cfg.th $c:ident $t:ident = T at *
    generalize Cfg.th $c:ident $u:ident = U at *
    local_cases $hloc:ident T
    all_goals simp_all [initPc_iff, initPc_false, postOnce_iff, postOnce_false, lockPc_iff, lockPc_false, holdPc_iff, holdPc_false, inCS_iff, inCS_false, onceMax, TState.done, rOK, rERR]))

theorem inv_initRegion {c : Cfg} {t ch : Nat} {sh' : Sh} {T' : TState} (hinv : Inv c)
    (hloc : stepLocal c.sh (c.th t) t ch = some (sh', T')) :
    ∀ u, initPc ((c.upd t sh' T').th u).pc = true → (c.upd t sh' T').sh.once = onceMax := by
  intro u
  have h1 := hinv.initRegion u
  have h2 := hinv.initRegion t
  have h3 := hinv.post t
  have h4 := hinv.post u
  have h5 := hinv.onceRange
  have h6 := hinv.initUnique u t
  field_cases hloc c t u

theorem inv_onceRange {c : Cfg} {t ch : Nat} {sh' : Sh} {T' : TState} (hinv : Inv c)
    (hloc : stepLocal c.sh (c.th t) t ch = some (sh', T')) :
    sh'.once = 0 ∨ sh'.once = 1 ∨ sh'.once = onceMax := by
  have h5 := hinv.onceRange
  generalize c.th t = T at *
  local_cases hloc T
  all_goals simp_all [onceMax]

theorem inv_post {c : Cfg} {t ch : Nat} {sh' : Sh} {T' : TState} (hinv : Inv c)
    (hloc : stepLocal c.sh (c.th t) t ch = some (sh', T')) :
    ∀ u, postOnce ((c.upd t sh' T').th u).pc = true → (c.upd t sh' T').sh.once = 1 := by
  intro u
  have h1 := hinv.initRegion u
  have h2 := hinv.initRegion t
  have h3 := hinv.post t
  have h4 := hinv.post u
  have h5 := hinv.onceRange
  have h6 := hinv.refsPost t
  field_cases hloc c t u

theorem inv_initUnique {c : Cfg} {t ch : Nat} {sh' : Sh} {T' : TState} (hinv : Inv c)
    (hloc : stepLocal c.sh (c.th t) t ch = some (sh', T')) :
    ∀ u v, initPc ((c.upd t sh' T').th u).pc = true → initPc ((c.upd t sh' T').th v).pc = true → u = v := by
  intro u v
  have h0 := hinv.initUnique u v
  have h1 := hinv.initUnique u t
  have h2 := hinv.initUnique t v
  have h3 := hinv.initRegion u
  have h4 := hinv.initRegion v
  have h5 := hinv.initRegion t
  by_cases hu : u = t <;> by_cases hv : v = t
  · subst hu; subst hv; intros; rfl
  · subst hu
    simp only [Cfg.upd, setTh_same, setTh_other _ _ _ _ hv]
    generalize c.th u = T at *
    generalize c.th v = V at *
    local_cases hloc T
    all_goals simp_all [initPc_iff, initPc_false, onceMax, TState.done]
  · subst hv
    simp only [Cfg.upd, setTh_same, setTh_other _ _ _ _ hu]
    generalize c.th v = T at *
    generalize c.th u = U at *
    local_cases hloc T
    all_goals simp_all [initPc_iff, initPc_false, onceMax, TState.done]
  · simp only [Cfg.upd, setTh_other _ _ _ _ hu, setTh_other _ _ _ _ hv]
    exact h0

theorem inv_refsPost {c : Cfg} {t ch : Nat} {sh' : Sh} {T' : TState} (hinv : Inv c)
    (hloc : stepLocal c.sh (c.th t) t ch = some (sh', T')) :
    ∀ u, ((c.upd t sh' T').th u).refs ≠ 0 → (c.upd t sh' T').sh.once = 1 ∧ (c.upd t sh' T').sh.inited = true := by
  intro u
  have h1 := hinv.refsPost u
  have h2 := hinv.refsPost t
  have h3 := hinv.post t
  have h4 := hinv.initRegion t
  have h5 := hinv.lockReady t
  field_cases hloc c t u

theorem inv_flags {c : Cfg} {t ch : Nat} {sh' : Sh} {T' : TState} (hinv : Inv c)
    (hloc : stepLocal c.sh (c.th t) t ch = some (sh', T')) :
    (sh'.once = 0 → sh'.inited = false ∧ sh'.mtxOk = false ∧ sh'.initRuns = 0) ∧
    (sh'.once ≠ 0 → sh'.initRuns = 1) ∧ (sh'.once = 1 → sh'.inited = sh'.mtxOk) := by
  have h1 := hinv.flags0
  have h2 := hinv.runs
  have h3 := hinv.flags1
  have h4 := hinv.initRegion t
  have h5 := hinv.initFlags t
  have h6 := hinv.onceRange
  generalize c.th t = T at *
  local_cases hloc T
  all_goals simp_all [initPc_iff, onceMax]

theorem inv_initFlags {c : Cfg} {t ch : Nat} {sh' : Sh} {T' : TState} (hinv : Inv c)
    (hloc : stepLocal c.sh (c.th t) t ch = some (sh', T')) :
    ∀ u, (((c.upd t sh' T').th u).pc = .iMtx → (c.upd t sh' T').sh.inited = false ∧ (c.upd t sh' T').sh.mtxOk = false) ∧
      (((c.upd t sh' T').th u).pc = .iExit ∨ ((c.upd t sh' T').th u).pc = .iSet →
        (c.upd t sh' T').sh.inited = false ∧ (c.upd t sh' T').sh.mtxOk = true) ∧
      (((c.upd t sh' T').th u).pc = .oPub → (c.upd t sh' T').sh.inited = (c.upd t sh' T').sh.mtxOk) := by
  intro u
  have h1 := hinv.initFlags u
  have h2 := hinv.initFlags t
  have h3 := hinv.initUnique u t
  have h4 := hinv.flags0
  have h5 := hinv.initRegion u
  field_cases hloc c t u

theorem inv_lockReady {c : Cfg} {t ch : Nat} {sh' : Sh} {T' : TState} (hinv : Inv c)
    (hloc : stepLocal c.sh (c.th t) t ch = some (sh', T')) :
    ∀ u, (lockPc ((c.upd t sh' T').th u).pc = true ∨ inCS ((c.upd t sh' T').th u).pc = true) →
      (c.upd t sh' T').sh.inited = true := by
  intro u
  have h1 := hinv.lockReady u
  have h2 := hinv.lockReady t
  have h3 := hinv.refsPost t
  field_cases hloc c t u

theorem inv_idleOut {c : Cfg} {t : Nat} {sh' : Sh} {T' : TState} (hinv : Inv c) (ht : t < c.n) :
    ∀ u, (c.upd t sh' T').n ≤ u → ((c.upd t sh' T').th u).pc = .idle ∧ ((c.upd t sh' T').th u).refs = 0 := by
  intro u hu
  have h1 := hinv.idleOut u
  have : u ≠ t := by simp [Cfg.upd] at hu; omega
  simp only [Cfg.upd, setTh_other _ _ _ _ this]
  exact h1 (by simpa [Cfg.upd] using hu)

theorem inv_hold {c : Cfg} {t ch : Nat} {sh' : Sh} {T' : TState} (hinv : Inv c)
    (hloc : stepLocal c.sh (c.th t) t ch = some (sh', T')) :
    ∀ u, holdPc ((c.upd t sh' T').th u).pc = true → ((c.upd t sh' T').th u).refs ≠ 0 := by
  intro u
  have h1 := hinv.hold u
  have h2 := hinv.hold t
  field_cases hloc c t u

theorem inv_step {c c' : Cfg} {t ch : Nat} (hinv : Inv c) (hs : step c t ch = some c') : Inv c' := by
  obtain ⟨ht, sh', T', hloc, rfl⟩ := step_elim hs
  have hf := inv_flags hinv hloc
  exact {
    owner := inv_owner hinv hloc
    onceRange := inv_onceRange hinv hloc
    initRegion := inv_initRegion hinv hloc
    initUnique := inv_initUnique hinv hloc
    post := inv_post hinv hloc
    refsPost := inv_refsPost hinv hloc
    flags0 := hf.1
    runs := hf.2.1
    flags1 := hf.2.2
    initFlags := inv_initFlags hinv hloc
    lockReady := inv_lockReady hinv hloc
    idleOut := inv_idleOut hinv ht
    hold := inv_hold hinv hloc }

theorem inv_init (n : Nat) (progs : Nat → List Op) : Inv (init n progs) := by
  have hpc : ∀ u, ((init n progs).th u).pc = .idle := by intro u; simp only [init]; split <;> rfl
  have hrefs : ∀ u, ((init n progs).th u).refs = 0 := by intro u; simp only [init]; split <;> rfl
  have hsh : (init n progs).sh = {} := rfl
  constructor
  all_goals (intros; simp_all [initPc_iff, postOnce_iff, lockPc_iff, holdPc_iff, inCS_iff, onceMax])

theorem inv_reach {n : Nat} {progs : Nat → List Op} {c : Cfg} (h : Reach n progs c) : Inv c := by
  induction h with
  | init => exact inv_init n progs
  | step _ hs ih => exact inv_step ih hs

end Bee2V.C18

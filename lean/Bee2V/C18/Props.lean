import Bee2V.C18.Model
import Bee2V.Gen.C18

namespace Bee2V.C18

/-! ### Tie (a): the model's access table is the one extracted from the current C source -/

theorem table_matches : normTable Bee2V.Gen.C18.table = normTable table := by decide

/-! ### Reachability -/

inductive Reach (n : Nat) (progs : Nat → List Op) : Cfg → Prop
  | init : Reach n progs (init n progs)
  | step {c c' : Cfg} {t ch : Nat} : Reach n progs c → step c t ch = some c' → Reach n progs c'

@[simp] theorem setTh_same (th : Nat → TState) (t : Nat) (T : TState) : setTh th t T t = T := by simp [setTh]
@[simp] theorem setTh_other (th : Nat → TState) (t u : Nat) (T : TState) (h : u ≠ t) : setTh th t T u = th u := by
  simp [setTh, h]

/-- case split of a local step on the program counter of the moving thread; afterwards
`sh'`, `T'` are replaced by the explicit results -/
macro "local_cases" h:ident T:ident : tactic => `(tactic| (
  obtain ⟨pc, prog, refs, src, kind, blocks, tmp, results⟩ := $T:ident
  cases pc <;> simp only [stepLocal] at $h:ident
  all_goals (try split at $h:ident)
  all_goals (try split at $h:ident)
  all_goals (cases $h:ident)))

theorem local_owner (sh sh' : Sh) (T T' : TState) (t ch : Nat)
    (h : stepLocal sh T t ch = some (sh', T')) (h0 : inCS T.pc = true ↔ sh.owner = some t) :
    (inCS T'.pc = true ↔ sh'.owner = some t) ∧ (∀ u, u ≠ t → (sh'.owner = some u ↔ sh.owner = some u)) := by
  local_cases h T
  all_goals (simp_all [inCS, TState.done] <;> omega)

end Bee2V.C18

/-
C18 — property theorems: for EVERY number of threads, EVERY assignment of operation
sequences to the threads (grammar of the property: use/close only while holding a reference)
and EVERY schedule (sequentially consistent interleaving, every resolution of the
environment's choices), about the model of Bee2V/C18/Model.lean.
Helper lemmas and invariants: Inv.lean, Inv2.lean, Log.lean.
-/
import Bee2V.C18.Log
import Bee2V.Gen.C18

namespace Bee2V.C18

/-! ### Tie (a): the model's access table is the one extracted from the current C source -/

/-- The shared-access table regenerated from rng.c / mt.c (which variable, read or write,
through an atomic primitive or not, with the mutex held or not, in source order) coincides
with the table of the model.  Moving an access out of the critical section, dropping a lock,
turning the atomic publication of the trigger into a plain store, … changes the left side. -/
theorem table_matches : normTable Bee2V.Gen.C18.table = normTable table := by decide

/-! ### Mutual exclusion and lock discipline -/

theorem mutual_exclusion {n : Nat} {progs : Nat → List Op} {c : Cfg} (h : Reach n progs c) (t u : Nat)
    (ht : inCS (c.th t).pc = true) (hu : inCS (c.th u).pc = true) : t = u := by
  have hi := inv_reach h
  have a := (hi.owner t).1 ht
  have b := (hi.owner u).1 hu
  rw [a] at b
  exact Option.some.inj b

def guarded : Loc → Bool
  | .ctr | .state | .gen => true
  | _ => false

def allPcs : List Pc := [.idle, .oCas, .iMtx, .iExit, .iSet, .oPub, .cInited, .cLock, .cCtr, .cBump, .cAlloc,
  .cEntropy, .cSetCtr, .cUnlockOk, .cUnlockErr, .vOnce, .vInited, .vLock, .vBody, .vUnlock, .xLock, .xDec,
  .xFree, .xUnlock, .uLock, .uBody, .uUnlock]

theorem mem_allPcs (p : Pc) : p ∈ allPcs := by cases p <;> simp [allPcs]

theorem guarded_inCS_tab : (allPcs.all fun p => (accs p).all fun a => !guarded a.1 || inCS p) = true := by decide

/-- **Lock discipline.** Every access to the reference counter, to the state pointer and to
the generator state is made by the thread that owns the mutex. -/
theorem lockset {n : Nat} {progs : Nat → List Op} {c : Cfg} (h : Reach n progs c) (t : Nat)
    (a : Loc × Bool × Bool) (ha : a ∈ accs (c.th t).pc) (hg : guarded a.1 = true) : c.sh.owner = some t := by
  have h1 := List.all_eq_true.1 guarded_inCS_tab _ (mem_allPcs (c.th t).pc)
  have h2 := List.all_eq_true.1 h1 a ha
  simp [hg] at h2
  exact ((inv_reach h).owner t).1 h2

/-! ### Once-initialisation -/

/-- **Exactly once.** rngInit is entered at most once in any execution; every thread that has
passed the once-gate (mtCallOnce returned) does so after the single run has completed
(the trigger is 1, published after the initialiser's effects). -/
theorem once_exactly {n : Nat} {progs : Nat → List Op} {c : Cfg} (h : Reach n progs c) :
    c.sh.initRuns ≤ 1 ∧ ∀ t, postOnce (c.th t).pc = true → c.sh.initRuns = 1 ∧ c.sh.once = 1 := by
  have hi := inv_reach h
  constructor
  · by_cases h0 : c.sh.once = 0
    · have := (hi.flags0 h0).2.2; omega
    · have := hi.runs h0; omega
  · intro t ht
    have h1 := hi.post t ht
    exact ⟨hi.runs (by omega), h1⟩

/-- **Visibility.** Once the trigger is published, the effects of the initialiser (the flag
`_inited`, the mutex object) never change again and agree with each other. -/
theorem init_effects_stable {n : Nat} {progs : Nat → List Op} {c c' : Cfg} {t ch : Nat}
    (h : Reach n progs c) (h1 : c.sh.once = 1) (hs : step c t ch = some c') :
    c'.sh.once = 1 ∧ c'.sh.inited = c.sh.inited ∧ c'.sh.mtxOk = c.sh.mtxOk ∧ c.sh.inited = c.sh.mtxOk := by
  have hi := inv_reach h
  obtain ⟨_, sh', T', hloc, rfl⟩ := step_elim hs
  have h2 := hi.initRegion t
  have h3 := hi.flags1 h1
  simp only [Cfg.upd]
  generalize c.th t = T at *
  local_cases hloc T
  all_goals simp_all [initPc_iff, onceMax]

/-- a thread that holds the mutex or is about to take it finds the mutex object created -/
theorem mutex_ready {n : Nat} {progs : Nat → List Op} {c : Cfg} (h : Reach n progs c) (t : Nat)
    (hp : lockPc (c.th t).pc = true ∨ inCS (c.th t).pc = true) : c.sh.inited = true ∧ c.sh.mtxOk = true := by
  have hi := inv_reach h
  have h1 := hi.lockReady t hp
  have hpost : postOnce (c.th t).pc = true := by
    rcases hp with hp | hp
    · rw [lockPc_iff] at hp; rw [postOnce_iff]; rcases hp with hp | hp | hp | hp <;> simp [hp]
    · rw [inCS_iff] at hp; rw [postOnce_iff]
      rcases hp with hp | hp | hp | hp | hp | hp | hp | hp | hp | hp | hp | hp | hp | hp <;> simp [hp]
  have h2 := hi.flags1 (hi.post t hpost)
  exact ⟨h1, by rw [← h2]; exact h1⟩

/-! ### Absence of data races -/

/-- two accesses conflict: same location, at least one write, not both atomic -/
def conflict (a b : Loc × Bool × Bool) : Bool := a.1 == b.1 && (a.2.1 || b.2.1) && !(a.2.2 && b.2.2)

def conflictPc (p q : Pc) : Bool := (accs p).any fun a => (accs q).any fun b => conflict a b

/-- a data race: two different threads whose next steps perform conflicting accesses
(lock acquisition counts as a read of the mutex object even while the thread is blocked) -/
def Race (c : Cfg) : Prop :=
  ∃ t u, t ≠ u ∧ ∃ a ∈ accs (c.th t).pc, ∃ b ∈ accs (c.th u).pc, conflict a b = true

theorem conflict_class_tab : (allPcs.all fun p => allPcs.all fun q => !conflictPc p q ||
    ((inCS p && inCS q) || (initPc p && initPc q) || (initPc p && postOnce q) || (postOnce p && initPc q))) = true := by
  decide

/-- **No data race** in any reachable configuration, for any number of threads. -/
theorem no_data_race {n : Nat} {progs : Nat → List Op} {c : Cfg} (h : Reach n progs c) : ¬ Race c := by
  rintro ⟨t, u, htu, a, ha, b, hb, hab⟩
  have hi := inv_reach h
  have hc : conflictPc (c.th t).pc (c.th u).pc = true := by
    simp only [conflictPc, List.any_eq_true]
    exact ⟨a, ha, b, hb, hab⟩
  have h1 := List.all_eq_true.1 (List.all_eq_true.1 conflict_class_tab _ (mem_allPcs (c.th t).pc)) _ (mem_allPcs (c.th u).pc)
  simp only [hc, Bool.not_true, Bool.false_or, Bool.or_eq_true, Bool.and_eq_true] at h1
  rcases h1 with ((h1 | h1) | h1) | h1
  · exact htu (mutual_exclusion h t u h1.1 h1.2)
  · exact htu (hi.initUnique t u h1.1 h1.2)
  · have := hi.initRegion t h1.1; have := hi.post u h1.2; simp [onceMax] at *; omega
  · have := hi.initRegion u h1.2; have := hi.post t h1.1; simp [onceMax] at *; omega

/-! ### Reference counting -/

/-- **Balanced reference count.** `_ctr` always equals the number of references held by the
threads; when all references have been given back (and nobody is inside a critical section)
the counter is 0 and the generator state has been released. -/
theorem refcount_balanced {n : Nat} {progs : Nat → List Op} {c : Cfg} (h : Reach n progs c) :
    c.sh.ctr = sumRefs c.th c.n ∧
    ((∀ u, (c.th u).refs = 0) → c.sh.owner = none → c.sh.ctr = 0 ∧ c.sh.alive = false) := by
  have h2 := inv2_reach h
  refine ⟨h2.cnt, fun hz ho => ?_⟩
  have hc : c.sh.ctr = 0 := by rw [h2.cnt, sumRefs_zero _ _ hz]
  refine ⟨hc, ?_⟩
  have := h2.free ho
  cases ha : c.sh.alive
  · rfl
  · exact absurd (this.1 ha) (by simp [hc])

/-- the counter is never decremented at 0 -/
theorem no_underflow {n : Nat} {progs : Nat → List Op} {c : Cfg} (h : Reach n progs c) (t : Nat)
    (hp : (c.th t).pc = .xDec) : c.sh.ctr ≠ 0 := by
  have hi := inv_reach h
  have htn : t < c.n := by
    by_cases hlt : t < c.n
    · exact hlt
    · have := (hi.idleOut t (by omega)).1; rw [hp] at this; cases this
  exact xdec_pos hi (inv2_reach h) htn hp

/-- **No use after release.** Whenever a thread generates (rngStepR / rngStepR2 / rngRekey
inside the critical section) or bumps the counter, the generator state exists. -/
theorem use_safe {n : Nat} {progs : Nat → List Op} {c : Cfg} (h : Reach n progs c) (t : Nat)
    (hp : (c.th t).pc = .uBody ∨ (c.th t).pc = .cBump ∨ (c.th t).pc = .xDec) : c.sh.alive = true := by
  have hi := inv_reach h
  have h2 := inv2_reach h
  have hcs : inCS (c.th t).pc = true := by rcases hp with hp | hp | hp <;> simp [hp, inCS]
  have ho := (hi.owner t).1 hcs
  have hmid : midPc (c.th t).pc = false := by rcases hp with hp | hp | hp <;> simp [hp, midPc]
  have hrel := h2.held t ho hmid
  have htn : t < c.n := by
    by_cases hlt : t < c.n
    · exact hlt
    · have := (hi.idleOut t (by omega)).1; rcases hp with hp | hp | hp <;> (rw [hp] at this; cases this)
  have hctr : c.sh.ctr ≠ 0 := by
    rcases hp with hp | hp | hp
    · have := hi.hold t (by simp [holdPc_iff, hp])
      have hle := refs_le_sum c.th t c.n htn
      have := h2.cnt
      omega
    · exact h2.bump t hp
    · exact xdec_pos hi h2 htn hp
  exact hrel.2 hctr

/-! ### Output blocks -/

/-- **Distinct blocks.** No two blocks ever handed out (to the same or to different threads)
are the same position of the same key's CTR stream. -/
theorem distinct_blocks {n : Nat} {progs : Nat → List Op} {c : Cfg} (h : Reach n progs c) :
    c.sh.log.Pairwise (fun a b => ¬ SamePos a b) :=
  (inv3_reach h).nodup

/-- **Requests are filled.** The generation step of a request for `k` blocks hands exactly `k`
new blocks to the requesting thread (appended to the log), whatever the other threads do. -/
theorem request_filled (sh sh' : Sh) (T T' : TState) (t ch : Nat) (hp : T.pc = .uBody) (hk : T.kind ≠ .rekey)
    (h : stepLocal sh T t ch = some (sh', T')) :
    ∃ bs, sh'.log = sh.log ++ bs ∧ bs.length = T.blocks ∧ ∀ b ∈ bs, b.tid = t := by
  obtain ⟨pc, prog, refs, src, kind, blocks, tmp, results⟩ := T
  simp only at hp hk
  subst hp
  cases kind <;> simp only [stepLocal] at h
  · cases h
    exact ⟨_, rfl, length_fresh _ _ _ _, fun b hb => ((mem_fresh _ _ _ _ _).1 hb).1⟩
  · cases h
    exact ⟨_, rfl, length_fresh _ _ _ _, fun b hb => ((mem_fresh _ _ _ _ _).1 hb).1⟩
  · exact absurd rfl hk

/-! ### Non-vacuity: concrete schedules reach the interesting states -/

def demoProgs : Nat → List Op
  | 0 => [.create false, .use .stepR2 2, .close]
  | 1 => [.create true, .use .stepR 1, .use .rekey 0, .close]
  | _ => [.isValid]

def rep (t k : Nat) : List (Nat × Nat) := List.replicate k (t, 0)

/-- thread 0 creates the generator (thread 1 races into the once-gate meanwhile), thread 1 joins
(second reference), thread 0 generates two blocks, thread 1 one block -/
def demoSched : List (Nat × Nat) := rep 0 2 ++ rep 1 2 ++ rep 0 12 ++ rep 1 6 ++ rep 0 4 ++ rep 1 4

example : (runSched (init 3 demoProgs) demoSched).sh.ctr = 2 := by decide +kernel
example : (runSched (init 3 demoProgs) demoSched).sh.log.length = 3 := by decide +kernel
example : (runSched (init 3 demoProgs) demoSched).sh.initRuns = 1 := by decide +kernel

end Bee2V.C18

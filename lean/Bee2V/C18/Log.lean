import Bee2V.C18.Inv2

namespace Bee2V.C18

/-! ### Output blocks: every block handed out is a fresh position of a CTR stream -/

theorem mem_fresh (t e : Nat) : ∀ (k i : Nat) (b : Blk),
    b ∈ freshBlocks t e i k ↔ (b.tid = t ∧ b.epoch = e ∧ i ≤ b.idx ∧ b.idx < i + k) := by
  intro k
  induction k with
  | zero => intro i b; simp [freshBlocks]
  | succ k ih =>
    intro i b
    simp only [freshBlocks, List.mem_cons, ih]
    constructor
    · rintro (h | h)
      · subst h; simp
      · omega
    · intro h
      by_cases hb : b.idx = i
      · left; cases b; simp_all
      · right; omega

def SamePos (a b : Blk) : Prop := a.epoch = b.epoch ∧ a.idx = b.idx

theorem pairwise_fresh (t e : Nat) : ∀ (k i : Nat), (freshBlocks t e i k).Pairwise (fun a b => ¬ SamePos a b) := by
  intro k
  induction k with
  | zero => intro i; simp [freshBlocks]
  | succ k ih =>
    intro i
    simp only [freshBlocks, List.pairwise_cons]
    refine ⟨?_, ih (i + 1)⟩
    intro b hb
    rw [mem_fresh] at hb
    simp [SamePos]; omega

theorem length_fresh (t e : Nat) : ∀ (k i : Nat), (freshBlocks t e i k).length = k := by
  intro k; induction k with
  | zero => intro i; rfl
  | succ k ih => intro i; simp [freshBlocks, ih]

structure Inv3 (sh : Sh) : Prop where
  consumed : ∀ b ∈ sh.log, b.epoch < sh.epoch ∨ (b.epoch = sh.epoch ∧ b.idx < sh.idx)
  nodup : sh.log.Pairwise (fun a b => ¬ SamePos a b)

theorem local_log (sh sh' : Sh) (T T' : TState) (t ch : Nat)
    (h : stepLocal sh T t ch = some (sh', T')) (h3 : Inv3 sh) : Inv3 sh' := by
  obtain ⟨hc, hn⟩ := h3
  local_cases h T
  all_goals first
    | exact ⟨hc, hn⟩
    | (refine ⟨fun b hb => ?_, hn⟩
       have := hc b hb
       dsimp only at this ⊢
       omega)
    | (constructor
       · intro b hb
         dsimp only at hb ⊢
         rw [List.mem_append] at hb
         rcases hb with hb | hb
         · have := hc b hb; omega
         · rw [mem_fresh] at hb; omega
       · dsimp only
         rw [List.pairwise_append]
         refine ⟨hn, pairwise_fresh _ _ _ _, ?_⟩
         intro a ha b hb
         have := hc a ha
         rw [mem_fresh] at hb
         simp only [SamePos]; omega)

theorem inv3_reach {n : Nat} {progs : Nat → List Op} {c : Cfg} (h : Reach n progs c) : Inv3 c.sh := by
  induction h with
  | init => exact ⟨by simp [init], by simp [init]⟩
  | step _ hs ih =>
    obtain ⟨_, sh', T', hloc, rfl⟩ := step_elim hs
    exact local_log _ _ _ _ _ _ hloc ih

end Bee2V.C18

import Bee2V.C18.Model
import Bee2V.Base.Proto
namespace Bee2V.C18.Drv
open Bee2V.C18 Bee2V.Proto

def parseOp (s : String) : Option Op :=
  if s = "c0" then some (.create false)
  else if s = "c1" then some (.create true)
  else if s = "v" then some .isValid
  else if s = "x" then some .close
  else if s = "R" then some (.use .stepR 1)
  else if s = "k" then some (.use .rekey 0)
  else if s.startsWith "r" then (s.drop 1).toNat?.map (fun k => .use .stepR2 k)
  else none

/-- run thread 0 until its current operation has returned (fuel-bounded; a single thread never blocks) -/
def runOp (c : Cfg) : Nat → Option Cfg
  | 0 => none
  | fuel + 1 =>
    match step c 0 0 with
    | none => none
    | some c' => if (c'.th 0).pc == .idle then some c' else runOp c' fuel

def obs (c : Cfg) : String :=
  let r := ((c.th 0).results.headD 99)
  s!"{r} {c.sh.ctr} {if c.sh.alive then 1 else 0} {c.sh.once} {if c.sh.inited then 1 else 0}"

def runSeq (c : Cfg) : Nat → List String → List String
  | 0, acc => acc.reverse
  | k + 1, acc =>
    match runOp c 64 with
    | none => ("stuck" :: acc).reverse
    | some c' => runSeq c' k (obs c' :: acc)

/-- `seq <op> <op> …` → observables after each operation, separated by `;` -/
def handle (args : List String) : String :=
  match args.mapM parseOp with
  | none => "bad-op"
  | some ops =>
    let c := init 1 (fun _ => ops)
    String.intercalate ";" (runSeq c ops.length [])

end Bee2V.C18.Drv

/-
C18 — shared types of the concurrency model (no Mathlib).
-/
namespace Bee2V.C18

/-- shared locations of rng.c / mt.c: the once-trigger, the flag `_inited`, the mutex object,
the reference counter, the pointer `_state`, and the contents of the generator state -/
inductive Loc | once | inited | mtx | ctr | state | gen
deriving DecidableEq, Repr

/-- one entry of the access table extracted from the C source -/
inductive AccRec
  | acc (l : Loc) (write atomic locked : Bool)
  | call (f : String) (locked : Bool)
deriving DecidableEq, Repr

def AccRec.locked : AccRec → Bool
  | .acc _ _ _ k => k
  | .call _ k => k

def AccRec.isCall : AccRec → Bool
  | .call .. => true
  | _ => false

/-- normal form of an access list: inside a maximal run without calls and with an unchanged
mutex flag every distinct access is kept once, in order of first occurrence -/
def normAux : List AccRec → List AccRec → List AccRec → List AccRec
  | [], seg, out => out ++ seg
  | a :: rest, seg, out =>
    if a.isCall then normAux rest [] (out ++ seg ++ [a])
    else match seg with
      | [] => normAux rest [a] out
      | s :: _ =>
        if s.locked != a.locked then normAux rest [a] (out ++ seg)
        else if seg.contains a then normAux rest seg out
        else normAux rest (seg ++ [a]) out

def norm (l : List AccRec) : List AccRec := normAux l [] []

end Bee2V.C18

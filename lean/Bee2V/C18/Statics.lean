/-
C18 — completeness of the model's set of shared variables.

`Bee2V.Gen.C18Statics.statics` (regenerated on every run by xlate/x_c18_statics.py) lists EVERY object of the
compiled library with static storage duration that is not `const` (nm: .data/.bss/common), with the call
sites of the nine functions of the property's grammar from which a function mentioning it can be reached and
the mutex state at each site.  Every entry must fall into one of four classes; an entry without a class
(a new mutable static reachable from an unlocked call site, say) makes `statics_classified` fail.

  modelled      the five variables of rng.c that the interleaving model carries (`Loc`)
  unreachable   no function mentioning it is reachable from the grammar's operations
  neverWritten  reachable, but no function of its translation unit can modify it
  guardedOnly   every call site that reaches it holds `_mtx` or lies inside the once-initialiser rngInit;
                `protected_exclusive` shows that at most one thread is at such a program point at any time
                (mutual exclusion, uniqueness of the initialising thread, and: nobody holds the mutex while
                the initialiser runs), so accesses to these objects are never concurrent.
-/
import Bee2V.Gen.C18Statics
import Bee2V.C18.Props

namespace Bee2V.C18
open Bee2V.Gen.C18Statics

inductive StaticClass | modelled | unreachable | neverWritten | guardedOnly
deriving DecidableEq, Repr

def modelledNames : List String := ["_once", "_inited", "_mtx", "_ctr", "_state"]

def siteProtected (r : String × Option Bool) : Bool :=
  r.2 == some true || r.1 == "rngInit"

def classify (s : StaticRec) : Option StaticClass :=
  if s.file == "core/rng.c" && modelledNames.contains s.name then some .modelled
  else if s.reach.isEmpty then some .unreachable
  else if !s.written then some .neverWritten
  else if s.reach.all siteProtected then some .guardedOnly
  else none

/-- **Every mutable static of the library has a class.** -/
theorem statics_classified : statics.all (fun s => (classify s).isSome) = true := by decide +kernel

/-- the variables the model carries exist in rng.c (no stale model) -/
theorem modelled_exist :
    modelledNames.all (fun n => statics.any fun s => s.file == "core/rng.c" && s.name == n) = true := by
  decide +kernel

/-- nothing else in rng.c is mutable and static: the model's `Loc` is the whole of rng.c's shared state -/
theorem rng_statics_all_modelled :
    statics.all (fun s => !(s.file == "core/rng.c") || modelledNames.contains s.name) = true := by decide +kernel

/-- indirect calls on paths reachable from the grammar (not followed by the reachability analysis): only the
dynamically loaded system entropy function, which is called with `_mtx` held -/
theorem indirect_calls_known :
    indirectCalls.all (fun c => [("rngSys2Read", "rand_bytes")].contains c) = true := by decide +kernel

/-- program points at which a thread may reach a `protected` object: mutex held, or inside rngInit -/
def touch (p : Pc) : Bool := inCS p || initPc p

theorem inCS_postOnce_tab : (allPcs.all fun p => !inCS p || postOnce p) = true := by decide

/-- **Protected objects are never accessed concurrently**: in every reachable configuration at most one
thread holds the mutex or runs the once-initialiser. -/
theorem protected_exclusive {n : Nat} {progs : Nat → List Op} {c : Cfg} (h : Reach n progs c) (t u : Nat)
    (ht : touch (c.th t).pc = true) (hu : touch (c.th u).pc = true) : t = u := by
  have hi := inv_reach h
  have post_of_cs : ∀ v, inCS (c.th v).pc = true → c.sh.once = 1 := by
    intro v hv
    have h1 := List.all_eq_true.1 inCS_postOnce_tab _ (mem_allPcs (c.th v).pc)
    simp [hv] at h1
    exact hi.post v h1
  simp only [touch, Bool.or_eq_true] at ht hu
  rcases ht with ht | ht <;> rcases hu with hu | hu
  · exact mutual_exclusion h t u ht hu
  · have a := post_of_cs t ht
    have b := hi.initRegion u hu
    rw [a] at b
    exact absurd b (by decide)
  · have a := post_of_cs u hu
    have b := hi.initRegion t ht
    rw [a] at b
    exact absurd b (by decide)
  · exact hi.initUnique t u ht hu

/-- non-vacuity: the inventory is not empty and has members of every class that occurs today -/
example : (statics.map classify).contains (some .guardedOnly) = true ∧
    (statics.map classify).contains (some .modelled) = true ∧
    (statics.map classify).contains (some .unreachable) = true := by decide +kernel

end Bee2V.C18

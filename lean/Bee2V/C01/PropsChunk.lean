/-
C01 property theorems: chunk independence of the buffered absorbers
(belt_mac.c `beltMACStepA`, belt_hash.c `beltHashStepH`, belt_hmac.c `beltHMACStepA`).
The result of a Start / Step* / StepG session depends only on the concatenation of the fragments, not on where
the data was cut, and a StepG in the middle of a session does not disturb it.
Stated for an ARBITRARY `C : Cipher`, with no hypothesis on it (so in particular for `beltCipher`).
Only property theorems and non-vacuity examples; helper lemmas are in Lemmas/Chunk.lean.
-/
import Bee2V.C01.Lemmas.Chunk
import Bee2V.C01.Lemmas.Aead
namespace Bee2V.C01

/-- the toy cipher of the non-vacuity examples -/
def chunkToy : Cipher := ⟨fun _ x => x.map (· + 1), fun _ x => x.map (· - 1)⟩
/-- a toy cipher that depends on its key (belt-hash feeds data through the key input) -/
def chunkToy2 : Cipher := ⟨fun k x => (xorb x k).map (· * 3 + 1), fun _ x => x⟩
/-- 37 octets 0, 1, ..., 36 -/
def chunkToyData : Bytes := (List.range 37).map UInt8.ofNat

/-! ### belt-MAC -/

/-- The state of `beltMACStepA` after ANY fragmentation `cs` of the data `X = cs.flatten` is determined by `X`:
`st->s` is the CBC-MAC chain value over all 16-octet blocks of `X` except the last one, the last block (full or
not; never empty unless `X` is) is pending in `st->block[0 .. filled)`, `filled = 0` for empty `X` and
`((|X| - 1) mod 16) + 1` otherwise; key material untouched. Nothing is said about `block[filled .. 16)`: these
octets do depend on the fragmentation. -/
theorem mac_state_spec (C : Cipher) (key : Bytes) (cs : List Bytes) :
    let X := cs.flatten
    let st := cs.foldl (macStepA C) (macStart C key)
    st.key = fmtKey key ∧ st.r = C.enc (fmtKey key) (zeros 16) ∧
    st.s = macChain C (fmtKey key) ((X.length - 1) / 16) (zeros 16) X ∧
    st.filled = (if X = [] then 0 else (X.length - 1) % 16 + 1) ∧
    st.block.take st.filled = X.drop (16 * ((X.length - 1) / 16)) ∧ st.block.length = 16 := by
  intro X st
  have h := macInv_fold cs (macInv_start C key)
  rw [List.nil_append] at h
  exact ⟨h.key, h.r, h.s, h.filled.trans (length_macPend X), h.pend, h.blen⟩

/-- 37 octets cut 5 + 20 + 12: two blocks folded into `s`, 5 octets pending -/
example : (fun st : MacSt => (st.filled, st.s, st.block.take 5))
      ([chunkToyData.take 5, (chunkToyData.drop 5).take 20, chunkToyData.drop 25].foldl (macStepA chunkToy)
        (macStart chunkToy (zeros 16))) =
      (5, [18, 20, 18, 24, 18, 20, 18, 32, 18, 20, 18, 24, 18, 20, 18, 16], [32, 33, 34, 35, 36]) := by decide

/-- The tag is a closed-form function `macTagSpec` of the concatenated data: the last block (complete: xored with
`phi1(r)`; incomplete or empty: padded with 0x80 0 ... 0 and xored with `phi2(r)`) added to the chain value and
encrypted. -/
theorem mac_tag_spec (C : Cipher) (key : Bytes) (cs : List Bytes) (n : Nat) :
    (macStepG C (cs.foldl (macStepA C) (macStart C key)) n).2 =
      (macTagSpec C (fmtKey key) (C.enc (fmtKey key) (zeros 16)) cs.flatten).take n := by
  have h := macInv_fold cs (macInv_start C key)
  rw [List.nil_append] at h
  show (macStepGInternal C _).mac.take n = _
  rw [macInv_tag h]

/-- CHUNK INDEPENDENCE of belt-MAC: `beltMACStart; beltMACStepA(c1); ...; beltMACStepA(cm); beltMACStepG2`
returns the same tag as a single `beltMACStepA` on the concatenation, for every cipher, key, list of fragments
(empty fragments included) and tag length. -/
theorem mac_chunk_independent (C : Cipher) (key : Bytes) (cs : List Bytes) (n : Nat) :
    (macStepG C (cs.foldl (macStepA C) (macStart C key)) n).2 =
      (macStepG C (macStepA C (macStart C key) cs.flatten) n).2 := by
  have h := mac_tag_spec C key [cs.flatten] n
  simp only [List.foldl_cons, List.foldl_nil, List.flatten_cons, List.flatten_nil, List.append_nil] at h
  rw [mac_tag_spec, h]

example : (macStepG chunkToy ([chunkToyData.take 5, (chunkToyData.drop 5).take 20, chunkToyData.drop 25].foldl
    (macStepA chunkToy) (macStart chunkToy (zeros 16))) 8).2 =
    (macStepG chunkToy (macStepA chunkToy (macStart chunkToy (zeros 16)) chunkToyData) 8).2 := by decide
/-- ... and the tag does depend on the data (last octet changed) -/
example : (macStepG chunkToy (macStepA chunkToy (macStart chunkToy (zeros 16)) chunkToyData) 8).2 ≠
    (macStepG chunkToy (macStepA chunkToy (macStart chunkToy (zeros 16)) (chunkToyData.take 36 ++ [0])) 8).2 := by
  decide
/-- ... and on the length (a full last block is not confused with its padded prefix) -/
example : (macStepG chunkToy (macStepA chunkToy (macStart chunkToy (zeros 16)) (chunkToyData.take 32)) 8).2 ≠
    (macStepG chunkToy (macStepA chunkToy (macStart chunkToy (zeros 16)) (chunkToyData.take 31)) 8).2 := by
  decide

/-- ... and, with a key-dependent toy cipher, on the key -/
example : (macStepG chunkToy2 (macStepA chunkToy2 (macStart chunkToy2 (zeros 16)) chunkToyData) 8).2 ≠
    (macStepG chunkToy2 (macStepA chunkToy2 (macStart chunkToy2 (zeros 15 ++ [1])) chunkToyData) 8).2 := by
  decide

/-- the same for `beltMACStepV2`: the verdict does not depend on the fragmentation -/
theorem mac_chunk_independent_V (C : Cipher) (key : Bytes) (cs : List Bytes) (mac : Bytes) :
    (macStepV C (cs.foldl (macStepA C) (macStart C key)) mac).2 =
      (macStepV C (macStepA C (macStart C key) cs.flatten) mac).2 := by
  have h := mac_chunk_independent C key cs mac.length
  simp only [macStepG, macStepV] at h ⊢
  rw [h]

example : (macStepV chunkToy ([chunkToyData.take 16, [], chunkToyData.drop 16].foldl (macStepA chunkToy)
    (macStart chunkToy (zeros 16))) [51, 54, 49, 60, 56, 150, 20, 34]).2 = true := by decide

/-- The high-level `beltMAC(mac, src, count, key, len)` equals any fragmented session over the same data. -/
theorem macHL_chunked (C : Cipher) (key : Bytes) (cs : List Bytes) (hk : validKeyLen key.length = true) :
    macHL C cs.flatten key = (.ok, some (macStepG C (cs.foldl (macStepA C) (macStart C key)) 8).2) := by
  simp only [macHL, hk, Bool.not_true, Bool.false_eq_true, if_false, mac_chunk_independent]

/-- for the real cipher -/
theorem beltMAC_chunked (key : Bytes) (cs : List Bytes) (hk : validKeyLen key.length = true) :
    macHL beltCipher cs.flatten key =
      (.ok, some (macStepG beltCipher (cs.foldl (macStepA beltCipher) (macStart beltCipher key)) 8).2) :=
  macHL_chunked beltCipher key cs hk

/-- GET-THEN-CONTINUE: in an arbitrary session of `beltMACStepA` and `beltMACStepG2` calls (`MacOp.absorb` /
`MacOp.get`), a final `beltMACStepG2` returns the tag of the concatenation of all absorbed fragments: the
intermediate StepG calls (which write `st->mac` and the padding octets of `st->block`) change nothing. -/
theorem mac_get_then_continue (C : Cipher) (key : Bytes) (ops : List MacOp) (n : Nat) :
    (macStepG C (macRun C (macStart C key) ops) n).2 =
      (macStepG C (macStepA C (macStart C key) (ops.map MacOp.data).flatten) n).2 := by
  have h := macInv_run ops (macInv_start C key)
  have h1 := macInv_stepA (macInv_start C key) (ops.map MacOp.data).flatten
  show (macStepGInternal C _).mac.take n = (macStepGInternal C _).mac.take n
  rw [macInv_tag h, macInv_tag h1]

/-- the simplest instance: absorb, get, absorb, get = absorb both, get -/
theorem mac_get_then_continue2 (C : Cipher) (key a b : Bytes) (m n : Nat) :
    (macStepG C (macStepA C (macStepG C (macStepA C (macStart C key) a) m).1 b) n).2 =
      (macStepG C (macStepA C (macStart C key) (a ++ b)) n).2 := by
  have h := mac_get_then_continue C key [.absorb a, .get m, .absorb b] n
  simpa [macRun, MacOp.data] using h

/-- a Get with 5 octets pending overwrites block[5..16) with padding; the continuation is not affected -/
example : (macStepG chunkToy (macRun chunkToy (macStart chunkToy (zeros 16))
      [.absorb (chunkToyData.take 21), .get 8, .absorb (chunkToyData.drop 21)]) 8).2 =
    (macStepG chunkToy (macStepA chunkToy (macStart chunkToy (zeros 16)) chunkToyData) 8).2 := by decide
example : (macStepG chunkToy (macStepA chunkToy (macStart chunkToy (zeros 16)) (chunkToyData.take 21)) 8).1.block ≠
    (macStepA chunkToy (macStart chunkToy (zeros 16)) (chunkToyData.take 21)).block := by decide

/-! ### the length counter of belt-hash -/

/-- `beltBlockAddBitSizeU32` is additive: counting `m` octets and then `n` octets leaves the 128-bit length block
in the state reached by counting `m + n` octets at once (every argument a 64-bit `size_t`). -/
theorem addBitSizeBlock_add (b : Bytes) (m n : Nat) (hl : b.length = 16) (hmn : m + n < 2 ^ 64) :
    addBitSizeBlock (addBitSizeBlock b m) n = addBitSizeBlock b (m + n) := by
  have l1 := Aead.length_addBitSizeBlock b m hl
  apply Aead.eq_of_leNat_eq
  · rw [Aead.length_addBitSizeBlock _ n l1, Aead.length_addBitSizeBlock b (m + n) hl]
  · rw [Aead.addBitSizeBlock_val _ n l1 (by omega), Aead.addBitSizeBlock_val b m hl (by omega),
      Aead.addBitSizeBlock_val b (m + n) hl hmn]
    omega

example : addBitSizeBlock (addBitSizeBlock (zeros 16) (2 ^ 61 - 1)) 1 = addBitSizeBlock (zeros 16) (2 ^ 61) := by
  decide

/-- counting zero octets changes nothing -/
theorem addBitSizeBlock_zero (b : Bytes) (hl : b.length = 16) : addBitSizeBlock b 0 = b := by
  apply Aead.eq_of_leNat_eq
  · rw [Aead.length_addBitSizeBlock b 0 hl, hl]
  · have := Aead.leNat_lt b
    rw [hl] at this
    rw [Aead.addBitSizeBlock_val b 0 hl (by omega)]
    omega

/-- The length block after a fragmented session equals the length block of the one-shot call, as long as the
total length is a `size_t`. -/
theorem lenFold_eq (cs : List Bytes) : ∀ (L : Bytes), L.length = 16 → cs.flatten.length < 2 ^ 64 →
    lenFold L cs = addBitSizeBlock L cs.flatten.length := by
  induction cs with
  | nil => intro L hl _; simp only [lenFold, List.foldl_nil, List.flatten_nil, List.length_nil]
           exact (addBitSizeBlock_zero L hl).symm
  | cons c cs ih =>
    intro L hl hb
    simp only [List.flatten_cons, List.length_append] at hb ⊢
    show lenFold (addBitSizeBlock L c.length) cs = _
    rw [ih _ (Aead.length_addBitSizeBlock L _ hl) (by omega), addBitSizeBlock_add L _ _ hl hb]

/-! ### belt-hash -/

/-- The state of `beltHashStepH` after any fragmentation `cs` of `X = cs.flatten`: the second half of `st->ls`
and `st->h` are the `beltCompr2` chain over the whole 32-octet blocks of `X` (a full block is compressed at once,
unlike belt-MAC), `filled = |X| mod 32`, the pending octets are in `block[0 .. filled)`, and the length block
is the fold of the per-fragment updates. No bound on sizes. -/
theorem hash_state_spec (C : Cipher) (cs : List Bytes) :
    let X := cs.flatten
    let st := cs.foldl (hashStepH C) hashStart
    st.ls.take 16 = lenFold (zeros 16) cs ∧
    (st.ls.drop 16, st.h) = comprChain C (X.length / 32) (zeros 16, hInit) X ∧
    st.filled = X.length % 32 ∧ st.block.take st.filled = X.drop (32 * (X.length / 32)) ∧
    st.block.length = 32 := by
  intro X st
  have h := hashInv_fold cs (hashInv_start C)
  rw [List.nil_append] at h
  exact ⟨h.len, h.sh, h.filled, h.pend, h.blen⟩

/-- CHUNK INDEPENDENCE of belt-hash: `beltHashStart; beltHashStepH(c1); ...; beltHashStepH(cm); beltHashStepG2`
returns the hash of the one-shot call on the concatenation, for every cipher and every fragmentation whose total
length fits a 64-bit `size_t` (otherwise the one-shot call does not exist in C). -/
theorem hash_chunk_independent (C : Cipher) (cs : List Bytes) (n : Nat) (hb : cs.flatten.length < 2 ^ 64) :
    (hashStepG C (cs.foldl (hashStepH C) hashStart) n).2 =
      (hashStepG C (hashStepH C hashStart cs.flatten) n).2 := by
  have h := hashInv_fold cs (hashInv_start C)
  have h1 := hashInv_stepH (hashInv_start C) cs.flatten
  rw [lenFold_eq cs _ rfl hb] at h
  show (hashStepGInternal C _).h1.take n = (hashStepGInternal C _).h1.take n
  rw [hashInv_out h, hashInv_out h1]

/-- the same for `beltHashStepV2` -/
theorem hash_chunk_independent_V (C : Cipher) (cs : List Bytes) (hash : Bytes) (hb : cs.flatten.length < 2 ^ 64) :
    (hashStepV C (cs.foldl (hashStepH C) hashStart) hash).2 =
      (hashStepV C (hashStepH C hashStart cs.flatten) hash).2 := by
  have h := hash_chunk_independent C cs hash.length hb
  simp only [hashStepG, hashStepV] at h ⊢
  rw [h]

/-- `beltHash(hash, src, count)` equals any fragmented session over the same data -/
theorem hashHL_chunked (C : Cipher) (cs : List Bytes) (hb : cs.flatten.length < 2 ^ 64) :
    hashHL C cs.flatten = (.ok, some (hashStepG C (cs.foldl (hashStepH C) hashStart) 32).2) := by
  simp only [hashHL, hash_chunk_independent C cs 32 hb]

/-- get-then-continue for belt-hash: `beltHashStepG2` in the middle of a session (it writes `s1`, `h1` and the
zero padding of `block`) does not change the final hash. -/
theorem hash_get_then_continue (C : Cipher) (a b : Bytes) (m n : Nat) (hb : a.length + b.length < 2 ^ 64) :
    (hashStepG C (hashStepH C (hashStepG C (hashStepH C hashStart a) m).1 b) n).2 =
      (hashStepG C (hashStepH C hashStart (a ++ b)) n).2 := by
  have h := hashInv_stepH (hashInv_stepG (hashInv_stepH (hashInv_start C) a)) b
  have h1 := hashInv_stepH (hashInv_start C) (a ++ b)
  rw [addBitSizeBlock_add _ _ _ rfl (by simpa using hb)] at h
  rw [List.nil_append, List.length_append] at h1
  rw [List.nil_append] at h
  show (hashStepGInternal C _).h1.take n = (hashStepGInternal C _).h1.take n
  rw [hashInv_out h1]
  exact congrArg (List.take n) (hashInv_out h)

example : (hashStepG chunkToy2 ([chunkToyData.take 5, (chunkToyData.drop 5).take 20, chunkToyData.drop 25].foldl
    (hashStepH chunkToy2) hashStart) 32).2 =
    (hashStepG chunkToy2 (hashStepH chunkToy2 hashStart chunkToyData) 32).2 := by decide
/-- the hash depends on the data ... -/
example : (hashStepG chunkToy2 (hashStepH chunkToy2 hashStart chunkToyData) 32).2 ≠
    (hashStepG chunkToy2 (hashStepH chunkToy2 hashStart (chunkToyData.take 36 ++ [0])) 32).2 := by decide
/-- ... and on its length (zero padding is disambiguated by the length block) -/
example : (hashStepG chunkToy2 (hashStepH chunkToy2 hashStart (chunkToyData.take 32)) 32).2 ≠
    (hashStepG chunkToy2 (hashStepH chunkToy2 hashStart (chunkToyData.take 32 ++ [0])) 32).2 := by decide
/-- a Get with 5 octets pending zeroes block[5..32) -/
example : (hashStepG chunkToy2 (hashStepH chunkToy2 hashStart (chunkToyData.take 37)) 32).1.block ≠
    (hashStepH chunkToy2 hashStart (chunkToyData.take 37)).block := by decide

/-! ### belt-HMAC -/

/-- CHUNK INDEPENDENCE of `beltHMACStepA` from any state with an empty buffer (`filled = 0`, a 32-octet `block`,
a length block in `ls_in`): the tag of a fragmented session equals the tag of the one-shot call. -/
theorem hmac_chunk_independent_of_state (C : Cipher) (st0 : HmacSt) (hl : 16 ≤ st0.ls_in.length)
    (hblk : st0.block.length = 32) (hf : st0.filled = 0) (cs : List Bytes) (n : Nat)
    (hb : cs.flatten.length < 2 ^ 64) :
    (hmacStepG C (cs.foldl (hmacStepA C) st0) n).2 = (hmacStepG C (hmacStepA C st0 cs.flatten) n).2 := by
  have h0 := hmacInv_init C st0 hl hblk hf
  have h := hmacInv_fold cs h0
  have h1 := hmacInv_stepA h0 cs.flatten
  rw [lenFold_eq cs _ h0.inner.llen hb] at h
  show (hmacStepGInternal C _).h1_out.take n = (hmacStepGInternal C _).h1_out.take n
  rw [hmacInv_out h, hmacInv_out h1]

/-
Full statement: `hmac_chunk_independent` below for EVERY key length. For keys longer than 32 octets
`(hmacStart C key).block` is `beltHash(key)` xor pads, whose length is 32 only if the cipher preserves the
block length (`hlen`). The partial statement takes the length of the start block as a hypothesis; it is
discharged under `hlen` for every key length in PropsSpecHash.lean (`hmac_chunk_independent_anykey`), which
closes this item.
-/
/-- belt-HMAC after `beltHMACStart(key)`, any key for which the start state has a 32-octet block -/
theorem hmac_chunk_independent_partial (C : Cipher) (key : Bytes) (hblk : (hmacStart C key).block.length = 32)
    (cs : List Bytes) (n : Nat) (hb : cs.flatten.length < 2 ^ 64) :
    (hmacStepG C (cs.foldl (hmacStepA C) (hmacStart C key)) n).2 =
      (hmacStepG C (hmacStepA C (hmacStart C key) cs.flatten) n).2 := by
  refine hmac_chunk_independent_of_state C _ ?_ hblk rfl cs n hb
  show 16 ≤ (addBitSizeBlock (zeros 16) 32 ++ _).length
  rw [List.length_append, Aead.length_addBitSizeBlock _ _ rfl]; omega

/-- CHUNK INDEPENDENCE of belt-HMAC for keys of at most 32 octets (every key length used with belt), every
cipher, no further hypothesis. -/
theorem hmac_chunk_independent (C : Cipher) (key : Bytes) (hk : key.length ≤ 32) (cs : List Bytes) (n : Nat)
    (hb : cs.flatten.length < 2 ^ 64) :
    (hmacStepG C (cs.foldl (hmacStepA C) (hmacStart C key)) n).2 =
      (hmacStepG C (hmacStepA C (hmacStart C key) cs.flatten) n).2 := by
  refine hmac_chunk_independent_partial C key ?_ cs n hb
  simp only [hmacStart, hk, if_true, List.length_map, List.length_append, zeros, List.length_replicate]
  omega

/-- `beltHMAC(mac, src, count, key, len)` equals any fragmented session -/
theorem hmacHL_chunked (C : Cipher) (key : Bytes) (hk : key.length ≤ 32) (cs : List Bytes)
    (hb : cs.flatten.length < 2 ^ 64) :
    hmacHL C cs.flatten key = (.ok, some (hmacStepG C (cs.foldl (hmacStepA C) (hmacStart C key)) 32).2) := by
  simp only [hmacHL, hmac_chunk_independent C key hk cs 32 hb]

example : (hmacStepG chunkToy2 ([chunkToyData.take 5, (chunkToyData.drop 5).take 20, chunkToyData.drop 25].foldl
    (hmacStepA chunkToy2) (hmacStart chunkToy2 [1, 2, 3])) 32).2 =
    (hmacStepG chunkToy2 (hmacStepA chunkToy2 (hmacStart chunkToy2 [1, 2, 3]) chunkToyData) 32).2 := by decide
example : (hmacStepG chunkToy2 (hmacStepA chunkToy2 (hmacStart chunkToy2 [1, 2, 3]) chunkToyData) 32).2 ≠
    (hmacStepG chunkToy2 (hmacStepA chunkToy2 (hmacStart chunkToy2 [1, 2, 3]) (chunkToyData.take 36 ++ [0])) 32).2 := by
  decide
example : (hmacStepG chunkToy2 (hmacStepA chunkToy2 (hmacStart chunkToy2 [1, 2, 3]) chunkToyData) 32).2 ≠
    (hmacStepG chunkToy2 (hmacStepA chunkToy2 (hmacStart chunkToy2 [1, 2, 4]) chunkToyData) 32).2 := by decide
/-- the hypothesis of the partial statement holds for a long key with a length-preserving cipher -/
example : (hmacStart chunkToy2 chunkToyData).block.length = 32 := by decide

/-- get-then-continue for belt-HMAC (keys of at most 32 octets): `beltHMACStepG2` in the middle of a session
does not change the final tag. -/
theorem hmac_get_then_continue (C : Cipher) (key : Bytes) (hk : key.length ≤ 32) (a b : Bytes) (m n : Nat)
    (hb : a.length + b.length < 2 ^ 64) :
    (hmacStepG C (hmacStepA C (hmacStepG C (hmacStepA C (hmacStart C key) a) m).1 b) n).2 =
      (hmacStepG C (hmacStepA C (hmacStart C key) (a ++ b)) n).2 := by
  have hblk : (hmacStart C key).block.length = 32 := by
    simp only [hmacStart, hk, if_true, List.length_map, List.length_append, zeros, List.length_replicate]
    omega
  have hl : 16 ≤ (hmacStart C key).ls_in.length := by
    show 16 ≤ (addBitSizeBlock (zeros 16) 32 ++ _).length
    rw [List.length_append, Aead.length_addBitSizeBlock _ _ rfl]; omega
  have h0 := hmacInv_init C (hmacStart C key) hl hblk rfl
  have h := hmacInv_stepA (hmacInv_stepG (hmacInv_stepA h0 a)) b
  have h1 := hmacInv_stepA h0 (a ++ b)
  rw [addBitSizeBlock_add _ _ _ h0.inner.llen (by simpa using hb)] at h
  rw [List.nil_append, List.length_append] at h1
  rw [List.nil_append] at h
  show (hmacStepGInternal C _).h1_out.take n = (hmacStepGInternal C _).h1_out.take n
  rw [hmacInv_out h1]
  exact congrArg (List.take n) (hmacInv_out h)

example : (hmacStepG chunkToy2 (hmacStepA chunkToy2 (hmacStepG chunkToy2 (hmacStepA chunkToy2
      (hmacStart chunkToy2 [1, 2, 3]) (chunkToyData.take 21)) 32).1 (chunkToyData.drop 21)) 32).2 =
    (hmacStepG chunkToy2 (hmacStepA chunkToy2 (hmacStart chunkToy2 [1, 2, 3]) chunkToyData) 32).2 := by decide

end Bee2V.C01

/-
C01 property theorems: the formulation of belt_block.c (rotated tables, the macros R/E/D with pointer-permuted
registers, subkey index formulas, beltKeyExpand2) = the formulation of STB 34.101.31 §6.1
(`Bee2V.C01.Spec.*` in Lemmas/SpecBlock.lean, written step by step as the standard writes it).
Only property theorems and non-vacuity examples.
-/
import Bee2V.C01.Lemmas.SpecBlock
namespace Bee2V.C01
open Bee2V.Gen.C01

/-! ## The specification itself reproduces the appendix vectors of the standard
(so `Spec.encr`/`Spec.decr`/`Spec.G` are the standard's cipher, not merely a copy of the code) -/

/-- STB 34.101.31 A.1: X = H[0..15], θ = H[128..159] -/
example : Spec.blockEncr Spec.specG ((H.toList.drop 128).take 32) (H.toList.take 16) =
    [0x69, 0xCC, 0xA1, 0xC9, 0x35, 0x57, 0xC9, 0xE3, 0xD6, 0x6B, 0xC3, 0xE0, 0xFA, 0x88, 0xFA, 0x6E] := by
  decide +kernel

/-- STB 34.101.31 A.4: Y = H[64..79], θ = H[160..191] -/
example : Spec.blockDecr Spec.specG ((H.toList.drop 160).take 32) ((H.toList.drop 64).take 16) =
    [0x0D, 0xC5, 0x30, 0x06, 0x00, 0xCA, 0xB8, 0x40, 0xB3, 0x84, 0x48, 0xE5, 0xE9, 0x93, 0xF4, 0x21] := by
  decide +kernel

/-! ## G-blocks -/

/-- The macro `G5` (xor of four lookups in the pre-rotated tables H5, H13, H21, H29) computes
`G_5(u) = RotHi^5(H(u1) ‖ H(u2) ‖ H(u3) ‖ H(u4))` of the standard, for every 32-bit word. -/
theorem G5_spec (x : UInt32) : G5 x = Spec.G 5 x := G5_eq x
/-- The macro `G13` computes `G_13` of the standard, for every 32-bit word. -/
theorem G13_spec (x : UInt32) : G13 x = Spec.G 13 x := G13_eq x
/-- The macro `G21` computes `G_21` of the standard, for every 32-bit word. -/
theorem G21_spec (x : UInt32) : G21 x = Spec.G 21 x := G21_eq x

/-- non-vacuity: the G-blocks are not trivial and differ from each other -/
example : Spec.G 5 0 = 0x36363636 ∧ Spec.G 5 0x0A = 0x36362016 ∧ Spec.G 13 1 ≠ Spec.G 5 1 ∧ G21 0x01020304 = Spec.G 21 0x01020304 := by decide +kernel

/-- In the octet lanes `|||` and `^^^` coincide: the code may xor the four rotated lanes because the standard's
concatenation puts them on disjoint bit positions (here: for any four words confined to pairwise disjoint masks). -/
theorem lanes_xor_eq_or (t0 t1 t2 t3 m0 m1 m2 m3 : UInt32)
    (h0 : t0 &&& m0 = t0) (h1 : t1 &&& m1 = t1) (h2 : t2 &&& m2 = t2) (h3 : t3 &&& m3 = t3)
    (m01 : m0 &&& m1 = 0) (m02 : m0 &&& m2 = 0) (m03 : m0 &&& m3 = 0) (m12 : m1 &&& m2 = 0) (m13 : m1 &&& m3 = 0)
    (m23 : m2 &&& m3 = 0) : t0 ^^^ t1 ^^^ t2 ^^^ t3 = t0 ||| t1 ||| t2 ||| t3 :=
  xor4_eq_or4 t0 t1 t2 t3 m0 m1 m2 m3 h0 h1 h2 h3 m01 m02 m03 m12 m13 m23

example : (0x12 : UInt32) ^^^ 0x3400 ^^^ 0x560000 ^^^ 0x78000000 = 0x78563412 := by decide

/-! ## Rounds -/

/-- One macro `R(a, b, c, d, K, i, subkey)` performs exactly steps 2.1)–2.9) of the standard with the seven round
keys `subkey(K, i, 0..6)` (the code saves the auxiliary register `e` of the standard in `b` and `c`). -/
theorem R_spec (g : GFun) (sk : Nat → UInt32) (i : Nat) (a b c d : UInt32) :
    R g sk (UInt32.ofNat i) a b c d = Spec.steps g (sk 0) (sk 1) (sk 2) (sk 3) (sk 4) (sk 5) (sk 6) i a b c d :=
  R_eq_steps g sk i a b c d

/-- `subkey_e(K, i, j) = K[7i-6+j]` and `subkey_d(K, i, j) = K[7i-j]` in the numbering of the standard
(`K[1..56]`, `K[j] = θ[(j-1) mod 8 + 1]`), for every round number `i ≥ 1` and `j = 0..6`. -/
theorem subkey_spec (K : Array UInt32) (i j : Nat) (hi : 1 ≤ i) (hj : j ≤ 6) :
    subkeyE K i j = Spec.rk K (7 * i - 6 + j) ∧ subkeyD K i j = Spec.rk K (7 * i - j) := by
  simp only [subkeyE, subkeyD, Spec.rk]
  constructor <;> congr 2 <;> omega

example : subkeyE #[10, 11, 12, 13, 14, 15, 16, 17] 2 0 = 17 ∧ subkeyD #[10, 11, 12, 13, 14, 15, 16, 17] 8 0 = 17 := by
  decide

/-- The macro `E` (`beltBlockEncr3`): eight macros `R` on pointer-permuted registers (`R(b, d, a, c, K, 2, …)`, …)
followed by three xor-swaps = the standard's encryption: eight rounds `i = 1..8`, each steps 1)–9) with
`K[7i-6..7i]` and the exchanges `a ↔ b, c ↔ d, b ↔ c`, then `Y = b ‖ d ‖ a ‖ c`.
For every key array, all register values and arbitrary G-blocks. -/
theorem E_spec (g : GFun) (K : Array UInt32) (a b c d : UInt32) : E g K a b c d = Spec.encr g K (a, b, c, d) :=
  E_eq_encr g K a b c d

/-- The macro `D` (`beltBlockDecr3`) = the standard's decryption: rounds `i = 8..1`, each steps 1)–9) with
`K[7i], K[7i-1], …, K[7i-6]` and the exchanges `a ↔ b, c ↔ d, a ↔ d`, then `X = c ‖ a ‖ d ‖ b`. -/
theorem D_spec (g : GFun) (K : Array UInt32) (a b c d : UInt32) : D g K a b c d = Spec.decr g K (a, b, c, d) :=
  D_eq_decr g K a b c d

/-- non-vacuity: the register exchanges matter (the result is not a fixed point, and the output order is used) -/
example : Spec.encr beltG #[1, 2, 3, 4, 5, 6, 7, 8] (1, 2, 3, 4) ≠ (1, 2, 3, 4) ∧
    Spec.decr beltG #[1, 2, 3, 4, 5, 6, 7, 8] (Spec.encr beltG #[1, 2, 3, 4, 5, 6, 7, 8] (1, 2, 3, 4)) = (1, 2, 3, 4) := by
  decide +kernel

/-- `beltBlockEncr` on octets (block and formatted key read as little-endian words, table-driven G-blocks)
is the block cipher of the standard with the standard's G-blocks, for every key and every block. -/
theorem blockEncr_spec (key blk : Bytes) : blockEncr key blk = Spec.blockEncr Spec.specG key blk :=
  blockEncr_eq_spec key blk

/-- `beltBlockDecr` on octets is the decryption of the standard. -/
theorem blockDecr_spec (key blk : Bytes) : blockDecr key blk = Spec.blockDecr Spec.specG key blk :=
  blockDecr_eq_spec key blk

/-! ## Key expansion -/

/-- `beltKeyExpand2` with a 128-bit key: `θ5..θ8 = θ1..θ4`. -/
theorem keyExpand2_128 (key : Bytes) (h : key.length = 16) :
    (u32From key).length = 4 ∧ keyExpand2 key = u32From key ++ u32From key :=
  ⟨by rw [length_u32From, h], keyExpand2_16 key h⟩

/-- `beltKeyExpand2` with a 192-bit key: `θ7 = θ1 ⊕ θ2 ⊕ θ3`, `θ8 = θ4 ⊕ θ5 ⊕ θ6`. -/
theorem keyExpand2_192 (key : Bytes) (h : key.length = 24) :
    ∃ t1 t2 t3 t4 t5 t6, u32From key = [t1, t2, t3, t4, t5, t6] ∧
      keyExpand2 key = [t1, t2, t3, t4, t5, t6, t1 ^^^ t2 ^^^ t3, t4 ^^^ t5 ^^^ t6] := keyExpand2_24 key h

/-- `beltKeyExpand2` with a 256-bit key: the eight words of the key. -/
theorem keyExpand2_256 (key : Bytes) (h : key.length = 32) :
    (u32From key).length = 8 ∧ keyExpand2 key = u32From key :=
  ⟨by rw [length_u32From, h], keyExpand2_32 key h⟩

/-- In all three cases the result is `Spec.keyExpandW` of the key words (the standard's expansion on words). -/
theorem keyExpand2_spec (key : Bytes) (h : key.length = 16 ∨ key.length = 24 ∨ key.length = 32) :
    keyExpand2 key = Spec.keyExpandW (u32From key) ∧ (keyExpand2 key).length = 8 := by
  rcases h with h | h | h
  · obtain ⟨w0, w1, w2, w3, hw⟩ := u32From_16 key h
    simp only [keyExpand2, Spec.keyExpandW, hw, List.length_cons, List.length_nil, and_self]
  · obtain ⟨t1, t2, t3, t4, t5, t6, hw, he⟩ := keyExpand2_24 key h
    simp only [he, Spec.keyExpandW, hw, List.length_cons, List.length_nil, and_self]
  · have hl := length_u32From key
    rw [h] at hl
    refine ⟨?_, by rw [keyExpand2_32 key h, hl]⟩
    rw [keyExpand2_32 key h]
    unfold Spec.keyExpandW
    split
    · next heq => rw [heq] at hl; simp at hl
    · next heq => rw [heq] at hl; simp at hl
    · rfl

/-- The word version `beltKeyExpand2` and the octet version `beltKeyExpand` agree: storing the eight expanded words
little-endian gives the 32 octets produced by `beltKeyExpand`, for every key of 16, 24 or 32 octets. -/
theorem keyExpand_agree (key : Bytes) (h : key.length = 16 ∨ key.length = 24 ∨ key.length = 32) :
    u32To (keyExpand2 key) = keyExpand key := by
  rcases h with h | h | h
  · exact keyExpand_agree_16 key h
  · exact keyExpand_agree_24 key h
  · exact keyExpand_agree_32 key h

/-- non-vacuity: a 24-octet key where the xor words are visible (octets 24..27 = k[0..3] ^ k[4..7] ^ k[8..11]) -/
example : (u32To (keyExpand2 (H.toList.take 24))).drop 24 = (keyExpand (H.toList.take 24)).drop 24 ∧
    (keyExpand (H.toList.take 24)).drop 24 = [141, 241, 79, 125, 198, 248, 96, 213] := by decide +kernel

/-- Loads commute with xor (used above; the loads of the model are arithmetic, xor is bitwise). -/
theorem ld32_xor_spec (a0 a1 a2 a3 b0 b1 b2 b3 : UInt8) :
    ld32 a0 a1 a2 a3 ^^^ ld32 b0 b1 b2 b3 = ld32 (a0 ^^^ b0) (a1 ^^^ b1) (a2 ^^^ b2) (a3 ^^^ b3) :=
  ld32_xor a0 a1 a2 a3 b0 b1 b2 b3

example : ld32 0xFF 1 2 3 ^^^ ld32 0x0F 1 0 0 = 0x030200F0 := by decide

/-- End to end: `beltKeyExpand2` followed by `beltBlockEncr` = the standard's cipher under the octet-expanded key,
for every key of 16, 24 or 32 octets and every block. -/
theorem blockEncr_keyExpand_spec (key blk : Bytes) (h : key.length = 16 ∨ key.length = 24 ∨ key.length = 32) :
    blockEncr (u32To (keyExpand2 key)) blk = Spec.blockEncr Spec.specG (keyExpand key) blk := by
  rw [blockEncr_eq_spec, keyExpand_agree key h]

theorem blockDecr_keyExpand_spec (key blk : Bytes) (h : key.length = 16 ∨ key.length = 24 ∨ key.length = 32) :
    blockDecr (u32To (keyExpand2 key)) blk = Spec.blockDecr Spec.specG (keyExpand key) blk := by
  rw [blockDecr_eq_spec, keyExpand_agree key h]

end Bee2V.C01

/-
C01 property theorems: belt_lcl.c, the length-block arithmetic `block <- block + 8 * count`
(`beltBlockAddBitSizeU32`, `beltHalfBlockAddBitSizeW`), every `#if` variant.
Only property theorems and non-vacuity examples; helper lemmas are in Lemmas/Aead.lean.
-/
import Bee2V.C01.Lemmas.Aead
namespace Bee2V.C01
open Aead

/-- `beltBlockAddBitSizeU32`, the `#else` variant (size_t of at least 32 bits, here 64): the hand-written carry
chain `carry = (u32)count << 3; t = count >> 29; carry = (block[0] += carry) < carry;
if ((block[1] += carry) < carry) block[1] = (u32)t; else carry = (block[1] += (u32)t) < (u32)t; ...`
is exact: the 128-bit number held in the four limbs grows by exactly `8 * count` modulo 2^128, for every
content of the block and every 64-bit `count` (no carry is lost, none is added twice). -/
theorem addBitSizeU32_spec (b0 b1 b2 b3 : UInt32) (count : Nat) (hc : count < 2 ^ 64) :
    ∃ r0 r1 r2 r3 : UInt32, addBitSizeU32 [b0, b1, b2, b3] count = [r0, r1, r2, r3] ∧
      r0.toNat + 2 ^ 32 * r1.toNat + 2 ^ 64 * r2.toNat + 2 ^ 96 * r3.toNat =
        (b0.toNat + 2 ^ 32 * b1.toNat + 2 ^ 64 * b2.toNat + 2 ^ 96 * b3.toNat + 8 * count) % 2 ^ 128 := by
  have h := addBitSizeU32_val b0 b1 b2 b3 count hc
  rw [addBitSizeU32_eq] at h ⊢
  refine ⟨_, _, _, _, rfl, ?_⟩
  simp only [u32Val] at h
  omega

/-- all carries at once: 2^96 - 8 + 8 * 1 = 2^96 -/
example : addBitSizeU32 [0xFFFFFFF8, 0xFFFFFFFF, 0xFFFFFFFF, 0] 1 = [0, 0, 0, 1] := by decide
/-- the `block[1] = (u32)t` arm (block[1] + carry wraps) with a non-zero `t` -/
example : addBitSizeU32 [0xFFFFFFFF, 0xFFFFFFFF, 5, 7] (2 ^ 29 * 3 + 1) = [7, 3, 6, 7] := by decide
/-- wrap-around modulo 2^128 -/
example : addBitSizeU32 [0xFFFFFFFF, 0xFFFFFFFF, 0xFFFFFFFF, 0xFFFFFFFF] 1 = [7, 0, 0, 0] := by decide

/-- `beltBlockAddBitSizeU32`, the `#if (B_PER_S < 32)` variant (16-bit size_t; compiled nowhere in this image,
modelled from the source): exact for every `count < 2^16`. -/
theorem addBitSizeU32_small_spec (b0 b1 b2 b3 : UInt32) (count : Nat) (hc : count < 2 ^ 16) :
    ∃ r0 r1 r2 r3 : UInt32, addBitSizeU32_small [b0, b1, b2, b3] count = [r0, r1, r2, r3] ∧
      r0.toNat + 2 ^ 32 * r1.toNat + 2 ^ 64 * r2.toNat + 2 ^ 96 * r3.toNat =
        (b0.toNat + 2 ^ 32 * b1.toNat + 2 ^ 64 * b2.toNat + 2 ^ 96 * b3.toNat + 8 * count) % 2 ^ 128 := by
  have h := addBitSizeU32_small_val b0 b1 b2 b3 count hc
  rw [addBitSizeU32_small_eq] at h ⊢
  refine ⟨_, _, _, _, rfl, ?_⟩
  simp only [u32Val] at h
  omega

example : addBitSizeU32_small [0xFFFFFFF8, 0xFFFFFFFF, 0xFFFFFFFF, 0] 1 = [0, 0, 0, 1] := by decide

/-- On the domain of the small variant the two `#if` arms of `beltBlockAddBitSizeU32` agree limb by limb. -/
theorem addBitSizeU32_small_eq_big (b0 b1 b2 b3 : UInt32) (count : Nat) (hc : count < 2 ^ 16) :
    addBitSizeU32_small [b0, b1, b2, b3] count = addBitSizeU32 [b0, b1, b2, b3] count := by
  have h1 := addBitSizeU32_small_val b0 b1 b2 b3 count hc
  have h2 := addBitSizeU32_val b0 b1 b2 b3 count (by omega)
  rw [← h2] at h1
  rw [addBitSizeU32_small_eq, addBitSizeU32_eq] at h1 ⊢
  exact u32Val4_inj _ _ _ _ _ _ _ _ h1

/-- The same on the octet image (`u32 block[4]` of a little-endian build, as used by belt-hash): the 16 octets
read as a little-endian number grow by `8 * count` modulo 2^128. -/
theorem addBitSizeBlock_spec (b : Bytes) (count : Nat) (hl : b.length = 16) (hc : count < 2 ^ 64) :
    (addBitSizeBlock b count).length = 16 ∧ leNat (addBitSizeBlock b count) = (leNat b + 8 * count) % 2 ^ 128 :=
  ⟨length_addBitSizeBlock b count hl, addBitSizeBlock_val b count hl hc⟩

example : addBitSizeBlock (zeros 16) (2 ^ 61) = zeros 8 ++ [1] ++ zeros 7 := by decide

/-- `beltHalfBlockAddBitSizeW`, `B_PER_W == 64` (`block[0] += (word)count << 3`): the 8 octets read as a
little-endian number grow by `8 * count` modulo 2^64. -/
theorem addBitSizeW64_spec (half : Bytes) (count : Nat) :
    leNat (addBitSizeW64 half count) = (leNat half + 8 * count) % 2 ^ 64 := addBitSizeW64_val half count

/-- `beltHalfBlockAddBitSizeW`, `B_PER_W == 32` (two words; carry out of word 0 plus `count >> 15 >> 14`
into word 1): exact modulo 2^64 for every 8-octet half block and every 64-bit `count`. -/
theorem addBitSizeW32_spec (half : Bytes) (count : Nat) (hl : half.length = 8) (hc : count < 2 ^ 64) :
    leNat (addBitSizeW32 half count) = (leNat half + 8 * count) % 2 ^ 64 := addBitSizeW32_val half count hl hc

/-- `beltHalfBlockAddBitSizeW`, `B_PER_W == 16` (four words, the same conditional carry chain as
`beltBlockAddBitSizeU32`, compiled nowhere in this image): exact modulo 2^64. -/
theorem addBitSizeW16_spec (half : Bytes) (count : Nat) (hl : half.length = 8) (hc : count < 2 ^ 64) :
    leNat (addBitSizeW16 half count) = (leNat half + 8 * count) % 2 ^ 64 := addBitSizeW16_val half count hl hc

example : addBitSizeW32 [0xF8, 0xFF, 0xFF, 0xFF, 0xFF, 0xFF, 0xFF, 0x00] 1 = [0, 0, 0, 0, 0, 0, 0, 1] := by decide
example : addBitSizeW16 [0xF8, 0xFF, 0xFF, 0xFF, 0xFF, 0xFF, 0xFF, 0x00] 1 = [0, 0, 0, 0, 0, 0, 0, 1] := by decide
example : addBitSizeW16 [0xFF, 0xFF, 0xFF, 0xFF, 5, 0, 7, 0] (2 ^ 13 * 3 + 1) = [7, 0, 3, 0, 6, 0, 7, 0] := by decide

/-- The three word-size variants of `beltHalfBlockAddBitSizeW` write the same 8 octets: the DWP / CHE length
block does not depend on `B_PER_W` (so a statement about the 64-bit build is a statement about the 32-bit and
16-bit builds). -/
theorem addBitSizeW_word_size_independent (w : Nat) (half : Bytes) (count : Nat) (hl : half.length = 8)
    (hc : count < 2 ^ 64) :
    addBitSizeW w half count = addBitSizeW64 half count ∧
    addBitSizeW32 half count = addBitSizeW64 half count ∧ addBitSizeW16 half count = addBitSizeW64 half count :=
  ⟨addBitSizeW_eq_W64 w half count hl hc, addBitSizeW32_eq_W64 half count hl hc, addBitSizeW16_eq_W64 half count hl hc⟩

example : addBitSizeW 32 [1, 2, 3, 4, 5, 6, 7, 8] (2 ^ 40 + 5) = addBitSizeW 64 [1, 2, 3, 4, 5, 6, 7, 8] (2 ^ 40 + 5) := by
  decide

end Bee2V.C01

/-
C01 property theorems: FMT block count, the extended kernel-checked part of the table.
-/
import Bee2V.C01.PropsFmt
import Bee2V.C01.Lemmas.FmtTable6
import Bee2V.C01.Lemmas.FmtTable7
import Bee2V.C01.Lemmas.FmtTable8
import Bee2V.C01.Lemmas.FmtTable9
import Bee2V.C01.Lemmas.FmtTable10
import Bee2V.C01.Lemmas.FmtTable11
import Bee2V.C01.Lemmas.FmtTable12
import Bee2V.C01.Lemmas.FmtTable13
import Bee2V.C01.Lemmas.FmtTable14
import Bee2V.C01.Lemmas.FmtTable15
import Bee2V.C01.Lemmas.FmtTable16
import Bee2V.C01.Lemmas.FmtTable17
import Bee2V.C01.Lemmas.FmtTable18
import Bee2V.C01.Lemmas.FmtTable19
import Bee2V.C01.Lemmas.FmtTable20
import Bee2V.C01.Lemmas.FmtTable21
namespace Bee2V.C01

/-
FULL STATEMENT (the standard's b = min{b | mod^count ≤ 2^(64 b)} on the whole domain of the API):
  ∀ mod count, 2 ≤ mod → mod ≤ 65536 → 1 ≤ count → count ≤ 300 → IsBlockCount mod count (calcB mod count)
PROVED HERE by kernel evaluation (`decide +kernel`) of the model of beltFMTCalcB with the constants regenerated
from the source: every alphabet size 2..17409 and the 49 rows of `fmtExtraRows` (49667 ± 1, 2^11..2^16 ± 1,
65535, 65536, perfect powers), every count 1..300 -- 17457 rows x 300 counts.
MISSING: the rows 17410..65534 outside `fmtExtraRows` (measured kernel cost 13.5 s per 64 rows on an idle core);
they are covered by the exhaustive comparison implementation = model = exact integers of the thorough tier only.
-/
theorem calcB_spec_rows_partial (mod count : Nat) (hm : (2 ≤ mod ∧ mod < 17410) ∨ mod ∈ fmtExtraRows)
    (hc : 1 ≤ count) (hc' : count ≤ 300) : IsBlockCount mod count (calcB mod count) := by
  rcases hm with ⟨h2, hlt⟩ | hrow
  · by_cases a : mod ≤ 1025
    · exact calcB_spec_partial mod count (Or.inl ⟨h2, a⟩) hc hc'
    by_cases b0 : mod < 2050
    · exact fmtFile_6 mod count (by omega) (by omega) hc hc'
    by_cases b1 : mod < 3074
    · exact fmtFile_7 mod count (by omega) (by omega) hc hc'
    by_cases b2 : mod < 4098
    · exact fmtFile_8 mod count (by omega) (by omega) hc hc'
    by_cases b3 : mod < 5122
    · exact fmtFile_9 mod count (by omega) (by omega) hc hc'
    by_cases b4 : mod < 6146
    · exact fmtFile_10 mod count (by omega) (by omega) hc hc'
    by_cases b5 : mod < 7170
    · exact fmtFile_11 mod count (by omega) (by omega) hc hc'
    by_cases b6 : mod < 8194
    · exact fmtFile_12 mod count (by omega) (by omega) hc hc'
    by_cases b7 : mod < 9218
    · exact fmtFile_13 mod count (by omega) (by omega) hc hc'
    by_cases b8 : mod < 10242
    · exact fmtFile_14 mod count (by omega) (by omega) hc hc'
    by_cases b9 : mod < 11266
    · exact fmtFile_15 mod count (by omega) (by omega) hc hc'
    by_cases b10 : mod < 12290
    · exact fmtFile_16 mod count (by omega) (by omega) hc hc'
    by_cases b11 : mod < 13314
    · exact fmtFile_17 mod count (by omega) (by omega) hc hc'
    by_cases b12 : mod < 14338
    · exact fmtFile_18 mod count (by omega) (by omega) hc hc'
    by_cases b13 : mod < 15362
    · exact fmtFile_19 mod count (by omega) (by omega) hc hc'
    by_cases b14 : mod < 16386
    · exact fmtFile_20 mod count (by omega) (by omega) hc hc'
    exact fmtFile_21 mod count (by omega) (by omega) hc hc'
  · exact calcB_spec_partial mod count (Or.inr hrow) hc hc'

/-- non-vacuity: a row of the new part, with the block count attained exactly -/
example : IsBlockCount 10007 100 (calcB 10007 100) := calcB_spec_rows_partial 10007 100 (Or.inl (by omega)) (by omega) (by omega)
example : calcB 10007 100 = 21 := by decide +kernel

end Bee2V.C01

/-
C01 property theorems: format-preserving encryption (belt_fmt.c).
-/
import Bee2V.C01.Spec
import Bee2V.C01.Lemmas.Fmt
import Bee2V.C01.Lemmas.FmtTable1
import Bee2V.C01.Lemmas.FmtTable2
import Bee2V.C01.Lemmas.FmtTable3
import Bee2V.C01.Lemmas.FmtTable4
import Bee2V.C01.Lemmas.FmtTable5
namespace Bee2V.C01

/-- `beltBin2StrSub` undoes `beltBin2StrAdd` digit by digit in Z_mod, for EVERY alphabet size
2 ≤ mod ≤ 65536, every octet string `bin` and every word over the alphabet (for mod = 65536 `bin` must
hold at least `count` u16 values, as it does in the C code). -/
theorem bin2str_sub_add (mod : Nat) (hm2 : 2 ≤ mod) (hm : mod ≤ 65536) (s : List Nat) (bin : Bytes)
    (hs : ∀ d ∈ s, d < mod) (hlen : mod = 65536 → s.length ≤ (u16From bin).length) :
    bin2strSub mod (bin2strAdd mod s bin) bin = s ∧ bin2strAdd mod (bin2strSub mod s bin) bin = s :=
  ⟨bin2strSub_bin2strAdd mod hm2 hm s bin hs hlen, bin2strAdd_bin2strSub mod hm2 hm s bin hs hlen⟩

example : bin2strAdd 10 [9, 9] (natLE 16 1234) = [3, 2] := by decide
example : bin2strSub 10 [3, 2] (natLE 16 1234) = [9, 9] := by decide

/-- outputs of both conversions stay in the alphabet, whatever the inputs -/
theorem bin2str_in_alphabet (mod : Nat) (hm2 : 2 ≤ mod) (s : List Nat) (bin : Bytes) :
    (∀ d ∈ bin2strAdd mod s bin, d < mod) ∧ (∀ d ∈ bin2strSub mod s bin, d < mod) :=
  ⟨bin2strAdd_lt mod hm2 s bin, bin2strSub_lt mod hm2 s bin⟩

/-- `beltFMTStepD` inverts `beltFMTStepE` (three Feistel rounds) for every alphabet 2 ≤ mod < 65536, every
word length, every IV (also NULL), every key -- and for ANY block cipher: nothing about `C` is used. -/
theorem fmtStepD_fmtStepE (C : Cipher) (st : FmtSt) (iv : Option Bytes) (buf : List Nat)
    (hm2 : 2 ≤ st.mod) (hm : st.mod < 65536) (hlen : buf.length = st.n1 + st.n2) (hd : ∀ d ∈ buf, d < st.mod) :
    fmtStepD C st iv (fmtStepE C st iv buf) = buf :=
  fmtStepD_fmtStepE' C st iv buf hm2 (by omega) hlen hd (fun h => by omega)

/-- full statement for mod = 65536 too.  PARTIAL: for mod = 65536 it assumes that the keyed half-round
function returns at least `count` u16 values (`FmtLenOk`: true in the C code because the three
primitives -- block, belt-32block, WBL -- preserve the length `8 (b + 1)` of their buffer and
`4 (b + 1) ≥ count`); that length fact is not proved here for the WBL Opt path. -/
theorem fmtStepD_fmtStepE_partial (C : Cipher) (st : FmtSt) (iv : Option Bytes) (buf : List Nat)
    (hm2 : 2 ≤ st.mod) (hm : st.mod ≤ 65536) (hlen : buf.length = st.n1 + st.n2) (hd : ∀ d ∈ buf, d < st.mod)
    (hF : FmtLenOk C st (fmtIv st iv)) :
    fmtStepD C st iv (fmtStepE C st iv buf) = buf :=
  fmtStepD_fmtStepE' C st iv buf hm2 hm hlen hd hF

theorem length_fmtStepE (C : Cipher) (st : FmtSt) (iv : Option Bytes) (buf : List Nat)
    (hm : st.mod < 65536) (hlen : buf.length = st.n1 + st.n2) : (fmtStepE C st iv buf).length = buf.length := by
  have hF : FmtLenOk C st (fmtIv st iv) := fun h => by omega
  simp only [fmtStepE]
  rw [fmtRoundE_length C st _ 2 _ (fmtRoundE_length C st _ 1 _ (fmtRoundE_length C st _ 0 _ hlen hF) hF) hF, hlen]

/-- High level: `beltFMTDecr` inverts `beltFMTEncr` for every alphabet 2 ≤ mod < 65536, every word of
2..600 symbols of the alphabet, every key and IV; for every cipher `C`. -/
theorem fmtDecr_fmtEncr (C : Cipher) (mod : Nat) (src ct : List Nat) (key : Bytes) (iv : Option Bytes)
    (hm : mod < 65536) (hd : ∀ d ∈ src, d < mod)
    (h : fmtEncr C mod src key iv = (.ok, some ct)) : fmtDecr C mod ct key iv = (.ok, some src) := by
  simp only [fmtEncr] at h
  cases hc : fmtCheck mod src.length key.length with
  | some e =>
    rw [hc] at h
    simp only [Prod.mk.injEq, reduceCtorEq, and_false] at h
  | none =>
    rw [hc] at h
    simp only [Prod.mk.injEq, Option.some.injEq, true_and] at h
    have hm2 : 2 ≤ mod := by
      simp only [fmtCheck] at hc
      split at hc
      · simp at hc
      · rename_i h1
        simp only [Bool.or_eq_true, decide_eq_true_eq, not_or, Nat.not_lt] at h1
        omega
    have hn : src.length = (fmtStart mod src.length key).n1 + (fmtStart mod src.length key).n2 := by
      simp only [fmtStart]; omega
    have hl : ct.length = src.length := by
      rw [← h]; exact length_fmtStepE C _ iv src (by simpa [fmtStart] using hm) hn
    simp only [fmtDecr, hl, hc]
    rw [← h, fmtStepD_fmtStepE C _ iv src (by simpa [fmtStart] using hm2) (by simpa [fmtStart] using hm) hn
      (by simpa [fmtStart] using hd)]

/-- argument checks of `beltFMTEncr/Decr`: ERR_BAD_INPUT iff the alphabet size is outside [2, 65536], the word
is shorter than 2 or the key length is not 16/24/32; otherwise ERR_NOT_IMPLEMENTED iff the word is longer than
600; in both cases dest is not written. -/
theorem fmtEncr_errors (C : Cipher) (mod : Nat) (src : List Nat) (key : Bytes) (iv : Option Bytes) :
    ((mod < 2 ∨ 65536 < mod ∨ src.length < 2 ∨ ¬(key.length = 16 ∨ key.length = 24 ∨ key.length = 32)) →
      fmtEncr C mod src key iv = (.badInput, none)) ∧
    (¬(mod < 2 ∨ 65536 < mod ∨ src.length < 2 ∨ ¬(key.length = 16 ∨ key.length = 24 ∨ key.length = 32)) →
      600 < src.length → fmtEncr C mod src key iv = (.notImplemented, none)) ∧
    (¬(mod < 2 ∨ 65536 < mod ∨ src.length < 2 ∨ ¬(key.length = 16 ∨ key.length = 24 ∨ key.length = 32)) →
      src.length ≤ 600 → (fmtEncr C mod src key iv).1 = .ok) := by
  have hk : validKeyLen key.length = true ↔ (key.length = 16 ∨ key.length = 24 ∨ key.length = 32) := by
    simp [validKeyLen, or_assoc]
  refine ⟨fun h => ?_, fun h hl => ?_, fun h hl => ?_⟩
  · have : (decide (mod < 2) || decide (mod > 65536) || decide (src.length < 2) || !validKeyLen key.length) = true := by
      rcases h with h | h | h | h
      · simp [h]
      · simp [h]
      · simp [h]
      · have : validKeyLen key.length = false := by
          cases hv : validKeyLen key.length with
          | false => rfl
          | true => exact absurd (hk.mp hv) h
        simp [this]
    simp only [fmtEncr, fmtCheck, this, if_true]
  · have : (decide (mod < 2) || decide (mod > 65536) || decide (src.length < 2) || !validKeyLen key.length) = false := by
      have hv : validKeyLen key.length = true := hk.mpr (by
        by_cases hh : key.length = 16 ∨ key.length = 24 ∨ key.length = 32
        · exact hh
        · exact absurd (Or.inr (Or.inr (Or.inr hh))) h)
      simp only [not_or, Nat.not_lt] at h
      simp [hv]; omega
    simp only [fmtEncr, fmtCheck, this, Bool.false_eq_true, if_false, decide_eq_true_eq]
    simp [hl]
  · have : (decide (mod < 2) || decide (mod > 65536) || decide (src.length < 2) || !validKeyLen key.length) = false := by
      have hv : validKeyLen key.length = true := hk.mpr (by
        by_cases hh : key.length = 16 ∨ key.length = 24 ∨ key.length = 32
        · exact hh
        · exact absurd (Or.inr (Or.inr (Or.inr hh))) h)
      simp only [not_or, Nat.not_lt] at h
      simp [hv]; omega
    simp only [fmtEncr, fmtCheck, this, Bool.false_eq_true, if_false, decide_eq_true_eq]
    have : ¬ (src.length > 600) := by omega
    simp [this]

/-- Block count: sanity instances (the formerly dead special case, a tiny alphabet, the 65536 shortcut). -/
theorem calcB_witnesses : calcB 49667 160 = 39 ∧ Spec.fmtBlocks 49667 160 = 39 ∧ calcB 10 10 = 1 ∧ calcB 65536 300 = 75 ∧
    calcBGeneral 49667 160 = 40 := by decide +kernel

/-
FULL STATEMENT (the standard's b = min{b | mod^count ≤ 2^(64 b)} on the whole domain of the API):
  ∀ mod count, 2 ≤ mod → mod ≤ 65536 → 1 ≤ count → count ≤ 300 → IsBlockCount mod count (calcB mod count)
PROVED HERE (kernel evaluation, `decide +kernel`, of the model of beltFMTCalcB with the constants regenerated
from the source): all alphabet sizes 2..1025 and 49 further rows (49667 and its neighbours, every power of
two from 2^11 to 2^16 with its neighbours, 65535, 65536, perfect powers), every count 1..300.
MISSING: the remaining rows 1026..65534 (19.3 of 19.6 million points; measured kernel cost 13.5 s per 64 rows,
i.e. about 3.8 CPU-hours for the table) -- covered by the exhaustive comparison of the thorough tier only.
-/
theorem calcB_spec_partial (mod count : Nat) (hm : (2 ≤ mod ∧ mod ≤ 1025) ∨ mod ∈ fmtExtraRows)
    (hc : 1 ≤ count) (hc' : count ≤ 300) : IsBlockCount mod count (calcB mod count) := by
  rcases hm with ⟨h2, h1025⟩ | hrow
  · by_cases a1 : mod < 66
    · exact checkMods_spec 64 2 fmtRows_2 mod count (by omega) (by omega) hc hc'
    by_cases a2 : mod < 130
    · exact checkMods_spec 64 66 fmtRows_66 mod count (by omega) (by omega) hc hc'
    by_cases a3 : mod < 194
    · exact checkMods_spec 64 130 fmtRows_130 mod count (by omega) (by omega) hc hc'
    by_cases a4 : mod < 258
    · exact checkMods_spec 64 194 fmtRows_194 mod count (by omega) (by omega) hc hc'
    by_cases a5 : mod < 322
    · exact checkMods_spec 64 258 fmtRows_258 mod count (by omega) (by omega) hc hc'
    by_cases a6 : mod < 386
    · exact checkMods_spec 64 322 fmtRows_322 mod count (by omega) (by omega) hc hc'
    by_cases a7 : mod < 450
    · exact checkMods_spec 64 386 fmtRows_386 mod count (by omega) (by omega) hc hc'
    by_cases a8 : mod < 514
    · exact checkMods_spec 64 450 fmtRows_450 mod count (by omega) (by omega) hc hc'
    by_cases a9 : mod < 578
    · exact checkMods_spec 64 514 fmtRows_514 mod count (by omega) (by omega) hc hc'
    by_cases a10 : mod < 642
    · exact checkMods_spec 64 578 fmtRows_578 mod count (by omega) (by omega) hc hc'
    by_cases a11 : mod < 706
    · exact checkMods_spec 64 642 fmtRows_642 mod count (by omega) (by omega) hc hc'
    by_cases a12 : mod < 770
    · exact checkMods_spec 64 706 fmtRows_706 mod count (by omega) (by omega) hc hc'
    by_cases a13 : mod < 834
    · exact checkMods_spec 64 770 fmtRows_770 mod count (by omega) (by omega) hc hc'
    by_cases a14 : mod < 898
    · exact checkMods_spec 64 834 fmtRows_834 mod count (by omega) (by omega) hc hc'
    by_cases a15 : mod < 962
    · exact checkMods_spec 64 898 fmtRows_898 mod count (by omega) (by omega) hc hc'
    · exact checkMods_spec 64 962 fmtRows_962 mod count (by omega) (by omega) hc hc'
  · have h := List.all_eq_true.mp fmtRows_extra mod hrow
    exact checkMods_spec 1 mod h mod count (by omega) (by omega) hc hc'

/-- non-vacuity: the exact count is attained with both inequalities strict at the formerly wrong point -/
example : IsBlockCount 49667 160 39 ∧ ¬ IsBlockCount 49667 160 40 := by
  constructor
  · exact calcB_witnesses.1 ▸ calcB_spec_partial 49667 160 (Or.inr (by decide)) (by omega) (by omega)
  · intro h
    have := h.2
    simp only [IsBlockCount] at h
    revert this
    decide +kernel

end Bee2V.C01

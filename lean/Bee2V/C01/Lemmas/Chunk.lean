/-
C01 helper lemmas: chunk independence of the buffered absorbers (belt_mac.c, belt_hash.c, belt_hmac.c).
The state reached after absorbing data in fragments is described by the concatenated data alone.
-/
import Bee2V.C01.Model.Hash
import Bee2V.C01.Lemmas.Bytes
namespace Bee2V.C01

/-! ### the `while (count >= bs)` loop, any block size -/

section gloop
variable {σ : Type}

theorem gl_fuel (bs : Nat) (hbs : 0 < bs) (body : σ → Bytes → σ × Bytes) :
    ∀ (f1 f2 : Nat) (s : σ) (rest : Bytes), rest.length ≤ f1 → rest.length ≤ f2 →
      blockLoop bs (fun n => decide (bs ≤ n)) body f1 s rest
        = blockLoop bs (fun n => decide (bs ≤ n)) body f2 s rest := by
  intro f1
  induction f1 with
  | zero =>
    intro f2 s rest h1 h2
    have hc : ¬ bs ≤ rest.length := by omega
    cases f2 <;> simp [blockLoop, hc]
  | succ f1 ih =>
    intro f2 s rest h1 h2
    by_cases hc : bs ≤ rest.length
    · cases f2 with
      | zero => omega
      | succ f2 =>
        have hd : (rest.drop bs).length ≤ f1 := by simp only [List.length_drop]; omega
        have hd2 : (rest.drop bs).length ≤ f2 := by simp only [List.length_drop]; omega
        simp only [blockLoop, hc, decide_true, if_true]
        rw [ih f2 _ _ hd hd2]
    · cases f2 <;> simp [blockLoop, hc]

theorem gl_stop (bs : Nat) (body : σ → Bytes → σ × Bytes) (s : σ) (buf : Bytes) (h : buf.length < bs) :
    fullBlocks bs body s buf = (s, [], buf) := by
  unfold fullBlocks
  have hc : ¬ bs ≤ buf.length := by omega
  cases buf.length <;> simp [blockLoop, hc]

theorem gl_step (bs : Nat) (hbs : 0 < bs) (body : σ → Bytes → σ × Bytes) (s : σ) (buf : Bytes)
    (h : bs ≤ buf.length) :
    fullBlocks bs body s buf =
      ((fullBlocks bs body (body s (buf.take bs)).1 (buf.drop bs)).1,
       (body s (buf.take bs)).2 ++ (fullBlocks bs body (body s (buf.take bs)).1 (buf.drop bs)).2.1,
       (fullBlocks bs body (body s (buf.take bs)).1 (buf.drop bs)).2.2) := by
  unfold fullBlocks
  cases hl : buf.length with
  | zero => omega
  | succ n =>
    have hc : bs ≤ n + 1 := by omega
    simp only [blockLoop, hl, hc, decide_true, if_true]
    rw [gl_fuel bs hbs body n (buf.drop bs).length _ (buf.drop bs)
      (by simp only [List.length_drop]; omega) (Nat.le_refl _)]

end gloop

/-! ### belt-MAC: the state as a function of the data absorbed so far -/

/-- CBC-MAC chain value after `n` whole 16-octet blocks of `X`, starting from `s` -/
def macChain (C : Cipher) (k : Bytes) : Nat → Bytes → Bytes → Bytes
  | 0, s, _ => s
  | n + 1, s, X => macChain C k n (C.enc k (xorb s (X.take 16))) (X.drop 16)

/-- number of blocks already folded into `s` once `X` has been absorbed: all blocks but the last
(possibly full) one, which stays pending -/
def macNb (X : Bytes) : Nat := (X.length - 1) / 16

/-- `st->s` once `X` has been absorbed -/
def macS (C : Cipher) (k : Bytes) (X : Bytes) : Bytes := macChain C k (macNb X) (zeros 16) X

/-- the pending octets `st->block[0 .. filled)` once `X` has been absorbed -/
def macPend (X : Bytes) : Bytes := X.drop (16 * macNb X)

theorem length_macPend (X : Bytes) :
    (macPend X).length = if X = [] then 0 else (X.length - 1) % 16 + 1 := by
  simp only [macPend, macNb, List.length_drop]
  split
  · next h => subst h; rfl
  · next h =>
    have : X.length ≠ 0 := fun h0 => h (List.eq_nil_of_length_eq_zero h0)
    omega

theorem macChain_append_of_le (C : Cipher) (k : Bytes) :
    ∀ (n : Nat) (s X Y : Bytes), 16 * n ≤ X.length → macChain C k n s (X ++ Y) = macChain C k n s X := by
  intro n
  induction n with
  | zero => intros; rfl
  | succ n ih =>
    intro s X Y h
    simp only [macChain]
    rw [List.take_append_of_le_length (by omega), List.drop_append_of_le_length (by omega)]
    exact ih _ _ _ (by simp only [List.length_drop]; omega)

theorem macChain_add (C : Cipher) (k : Bytes) :
    ∀ (n m : Nat) (s X : Bytes),
      macChain C k (n + m) s X = macChain C k m (macChain C k n s X) (X.drop (16 * n)) := by
  intro n
  induction n with
  | zero => intro m s X; simp [macChain]
  | succ n ih =>
    intro m s X
    rw [show n + 1 + m = (n + m) + 1 by omega]
    simp only [macChain]
    rw [ih, List.drop_drop]
    congr 2
    omega

theorem macChain_succ_right (C : Cipher) (k : Bytes) (n : Nat) (s X : Bytes) :
    macChain C k (n + 1) s X =
      C.enc k (xorb (macChain C k n s X) ((X.drop (16 * n)).take 16)) := by
  rw [macChain_add]; rfl

theorem chunk_drop_block16 (blk Y : Bytes) (n : Nat) (hb : blk.length = 16) :
    (blk ++ Y).drop (16 * (n + 1)) = Y.drop (16 * n) := by
  have e : 16 * (n + 1) = blk.length + 16 * n := by omega
  rw [e, List.drop_append, List.drop_of_length_le (by omega), List.nil_append, Nat.add_sub_cancel_left]

/-- the loop over full blocks in `beltMACStepA` -/
theorem mac_loop (C : Cipher) (k : Bytes) :
    ∀ (m : Nat) (Y s blk : Bytes), Y.length / 16 = m → blk.length = 16 →
      fullBlocks 16 (fun (sb : Bytes × Bytes) b => ((C.enc k (xorb sb.1 sb.2), b), ([] : Bytes))) (s, blk) Y =
        ((macChain C k m s (blk ++ Y), ((blk ++ Y).drop (16 * m)).take 16), [], Y.drop (16 * m)) := by
  intro m
  induction m with
  | zero =>
    intro Y s blk hm hb
    rw [gl_stop _ _ _ _ (by omega)]
    simp [macChain, List.take_left' hb]
  | succ m ih =>
    intro Y s blk hm hb
    have hY : 16 ≤ Y.length := by omega
    rw [gl_step 16 (by omega) _ _ _ hY]
    have ht : (Y.take 16).length = 16 := by simp only [List.length_take]; omega
    rw [ih (Y.drop 16) _ (Y.take 16) (by simp only [List.length_drop]; omega) ht]
    rw [chunk_drop_block16 blk Y m hb]
    simp only [List.take_append_drop, List.nil_append, macChain, List.take_left' hb, List.drop_left' hb,
      List.drop_drop]
    have e2 : 16 + 16 * m = 16 * (m + 1) := by omega
    rw [e2]

/-- write at an offset inside the buffer: what the first octets become -/
theorem chunk_take_putAt (blk x : Bytes) (off : Nat) (h : off ≤ blk.length) :
    (putAt blk off x).take (off + x.length) = blk.take off ++ x := by
  unfold putAt
  rw [List.append_assoc, ← List.append_assoc]
  exact List.take_left' (by simp only [List.length_append, List.length_take]; omega)

theorem chunk_length_putAt (blk x : Bytes) (off : Nat) (h : off + x.length ≤ blk.length) :
    (putAt blk off x).length = blk.length := by
  unfold putAt
  simp only [List.length_append, List.length_take, List.length_drop]; omega

/-- the part of `beltMACStepA` after the pending block has been completed -/
def macTail (C : Cipher) (st : MacSt) (blk0 buf : Bytes) : MacSt :=
  let l := fullBlocks 16 (fun (sb : Bytes × Bytes) b => ((C.enc st.key (xorb sb.1 sb.2), b), [])) (st.s, blk0) buf
  let r := l.2.2
  if r.length ≠ 0 then
    let s := C.enc st.key (xorb l.1.1 l.1.2)
    { st with s := s, block := putAt l.1.2 0 r, filled := r.length }
  else { st with s := l.1.1, block := l.1.2, filled := 16 }

/-- what an absorption step does to the abstract state (chain value, pending octets) -/
structure MacStepAbs (C : Cipher) (st st' : MacSt) (Z : Bytes) : Prop where
  key : st'.key = st.key
  r : st'.r = st.r
  s : st'.s = macChain C st.key ((Z.length - 1) / 16) st.s Z
  filled : st'.filled = Z.length - 16 * ((Z.length - 1) / 16)
  pend : st'.block.take st'.filled = Z.drop (16 * ((Z.length - 1) / 16))
  blen : st'.block.length = 16

theorem MacStepAbs.of_n {C : Cipher} {st st' : MacSt} {Z : Bytes} (n : Nat) (hn : (Z.length - 1) / 16 = n)
    (key : st'.key = st.key) (r : st'.r = st.r) (s : st'.s = macChain C st.key n st.s Z)
    (filled : st'.filled = Z.length - 16 * n) (pend : st'.block.take st'.filled = Z.drop (16 * n))
    (blen : st'.block.length = 16) : MacStepAbs C st st' Z := by
  subst hn; exact ⟨key, r, s, filled, pend, blen⟩

theorem macTail_abs (C : Cipher) (st : MacSt) (blk0 Y : Bytes) (hb : blk0.length = 16) :
    MacStepAbs C st (macTail C st blk0 Y) (blk0 ++ Y) := by
  have hZ : (blk0 ++ Y).length = 16 + Y.length := by simp only [List.length_append, hb]
  have hl := mac_loop C st.key (Y.length / 16) Y st.s blk0 rfl hb
  unfold macTail
  rw [hl]
  have hrl : (Y.drop (16 * (Y.length / 16))).length = Y.length % 16 := by
    simp only [List.length_drop]; omega
  have hbl : (((blk0 ++ Y).drop (16 * (Y.length / 16))).take 16).length = 16 := by
    simp only [List.length_take, List.length_drop, hZ]; omega
  by_cases hr : Y.length % 16 = 0
  · have hn : ((blk0 ++ Y).length - 1) / 16 = Y.length / 16 := by rw [hZ]; omega
    simp only [hrl, hr, ne_eq, not_true_eq_false, if_false]
    refine MacStepAbs.of_n _ hn rfl rfl rfl (by simp only [hZ]; omega) ?_ hbl
    show List.take 16 _ = _
    rw [List.take_take, Nat.min_self]
    exact List.take_of_length_le (by simp only [List.length_drop, hZ]; omega)
  · have hn : ((blk0 ++ Y).length - 1) / 16 = Y.length / 16 + 1 := by rw [hZ]; omega
    simp only [hrl, hr, ne_eq, not_false_eq_true, if_true]
    refine MacStepAbs.of_n _ hn rfl rfl ?_ (by simp only [hZ]; omega) ?_ ?_
    · rw [macChain_succ_right]
    · show List.take (Y.length % 16) (putAt _ 0 _) = _
      have := chunk_take_putAt (((blk0 ++ Y).drop (16 * (Y.length / 16))).take 16)
        (Y.drop (16 * (Y.length / 16))) 0 (by omega)
      simp only [Nat.zero_add, hrl, List.take_zero, List.nil_append] at this
      rw [this, chunk_drop_block16 blk0 Y _ hb]
    · rw [chunk_length_putAt _ _ _ (by rw [hbl, hrl]; omega), hbl]

theorem macStepA_abs (C : Cipher) (st : MacSt) (buf : Bytes) (hb : st.block.length = 16) (hf : st.filled ≤ 16) :
    MacStepAbs C st (macStepA C st buf) (st.block.take st.filled ++ buf) := by
  have hZ : (st.block.take st.filled ++ buf).length = st.filled + buf.length := by
    simp only [List.length_append, List.length_take]; omega
  by_cases hc : st.filled < 16 ∧ buf.length ≤ 16 - st.filled
  · have hn : (st.filled + buf.length - 1) / 16 = 0 := by omega
    unfold macStepA
    rw [if_pos hc]
    refine MacStepAbs.of_n 0 (by rw [hZ]; exact hn) rfl rfl rfl (by simp only [hZ]; omega) ?_ ?_
    · exact chunk_take_putAt _ _ _ (by omega)
    · rw [chunk_length_putAt _ _ _ (by omega), hb]
  · by_cases hf16 : st.filled < 16
    · have hlt : 16 - st.filled < buf.length := by omega
      have hblk0 : putAt st.block st.filled (buf.take (16 - st.filled)) =
          st.block.take st.filled ++ buf.take (16 - st.filled) := by
        unfold putAt
        rw [List.drop_of_length_le (by simp only [List.length_take]; omega), List.append_nil]
      have e : macStepA C st buf = macTail C st (st.block.take st.filled ++ buf.take (16 - st.filled))
          (buf.drop (16 - st.filled)) := by
        unfold macStepA macTail
        rw [if_neg hc]
        simp only [hf16, if_true, hblk0]
      rw [e]
      have := macTail_abs C st (st.block.take st.filled ++ buf.take (16 - st.filled)) (buf.drop (16 - st.filled))
        (by simp only [List.length_append, List.length_take]; omega)
      rwa [List.append_assoc, List.take_append_drop] at this
    · have hf' : st.filled = 16 := by omega
      have e : macStepA C st buf = macTail C st st.block buf := by
        unfold macStepA macTail
        rw [if_neg hc]
        simp only [hf16, if_false, List.drop_zero]
      rw [e, hf', List.take_of_length_le (by omega)]
      exact macTail_abs C st st.block buf hb

/-- The belt-MAC state after the data `X` has been absorbed, in whatever fragments: everything the later steps
read is a function of `X` (and of the key material `k`, `r`) alone. The octets `block[filled .. 16)` are
deliberately not mentioned: they depend on the fragmentation. -/
structure MacInv (C : Cipher) (k r : Bytes) (X : Bytes) (st : MacSt) : Prop where
  key : st.key = k
  r : st.r = r
  s : st.s = macS C k X
  filled : st.filled = (macPend X).length
  pend : st.block.take st.filled = macPend X
  blen : st.block.length = 16

theorem macNb_le (X : Bytes) : 16 * macNb X ≤ X.length := by unfold macNb; omega

theorem macInv_start (C : Cipher) (key : Bytes) :
    MacInv C (fmtKey key) (C.enc (fmtKey key) (zeros 16)) [] (macStart C key) :=
  ⟨rfl, rfl, rfl, rfl, rfl, rfl⟩

theorem macInv_stepA {C : Cipher} {k r X : Bytes} {st : MacSt} (h : MacInv C k r X st) (buf : Bytes) :
    MacInv C k r (X ++ buf) (macStepA C st buf) := by
  have hpl : (macPend X).length = X.length - 16 * macNb X := by simp only [macPend, List.length_drop]
  have hle := macNb_le X
  have hf : st.filled ≤ 16 := by rw [h.filled, hpl]; unfold macNb; omega
  have a := macStepA_abs C st buf h.blen hf
  rw [h.pend] at a
  have hZ : macPend X ++ buf = (X ++ buf).drop (16 * macNb X) := by
    rw [List.drop_append_of_le_length hle]; rfl
  have hZl : (macPend X ++ buf).length = X.length - 16 * macNb X + buf.length := by
    simp only [List.length_append, hpl]
  have hnb : macNb (X ++ buf) = macNb X + ((macPend X ++ buf).length - 1) / 16 := by
    rw [hZl]; simp only [macNb, List.length_append]; omega
  obtain ⟨akey, ar, as, afilled, apend, ablen⟩ := a
  generalize hn : ((macPend X ++ buf).length - 1) / 16 = n at as afilled apend hnb
  have hP : macPend (X ++ buf) = (macPend X ++ buf).drop (16 * n) := by
    show (X ++ buf).drop (16 * macNb (X ++ buf)) = _
    rw [hnb, hZ, List.drop_drop, Nat.mul_add]
  refine ⟨akey.trans h.key, ar.trans h.r, ?_, ?_, ?_, ablen⟩
  · rw [as, h.key, h.s, macS, macS, hnb, macChain_add, macChain_append_of_le _ _ _ _ _ _ hle, hZ]
  · rw [hP, List.length_drop]; exact afilled
  · rw [hP]; exact apend

theorem macInv_fold {C : Cipher} {k r : Bytes} (cs : List Bytes) :
    ∀ {X : Bytes} {st : MacSt}, MacInv C k r X st → MacInv C k r (X ++ cs.flatten) (cs.foldl (macStepA C) st) := by
  induction cs with
  | nil => intro X st h; simpa using h
  | cons c cs ih =>
    intro X st h
    simp only [List.foldl_cons, List.flatten_cons, ← List.append_assoc]
    exact ih (macInv_stepA h c)

/-- the tag block `st->mac` computed by `beltMACStepG_internal`, as a function of the absorbed data -/
def macTagSpec (C : Cipher) (k r X : Bytes) : Bytes :=
  let r0 := r.take 4
  let r1 := (r.drop 4).take 4
  let r2 := (r.drop 8).take 4
  let r3 := (r.drop 12).take 4
  if (macPend X).length = 16 then
    C.enc k (xorb (xorb (macS C k X) (macPend X)) (r1 ++ r2 ++ r3 ++ xorb r0 r1))
  else
    C.enc k (xorb (xorb (macS C k X) (macPend X ++ [0x80] ++ zeros (16 - (macPend X).length - 1)))
      (xorb r0 r3 ++ r0 ++ r1 ++ r2))

theorem macInv_tag {C : Cipher} {k r X : Bytes} {st : MacSt} (h : MacInv C k r X st) :
    (macStepGInternal C st).mac = macTagSpec C k r X := by
  unfold macStepGInternal macTagSpec
  by_cases hf : st.filled = 16
  · have hb : st.block = macPend X := by
      rw [← h.pend, hf, List.take_of_length_le (by rw [h.blen]; omega)]
    have hp : (macPend X).length = 16 := by rw [← h.filled]; exact hf
    simp only [hf, beq_self_eq_true, if_true, hp, h.key, h.r, h.s, hb]
  · have hbeq : (st.filled == 16) = false := by simpa using hf
    simp only [hbeq, hf, Bool.false_eq_true, if_false, h.key, h.r, h.s, h.pend, ← h.filled]

/-- `beltMACStepG_internal` only writes `mac` and the padding octets: the state still describes `X` -/
theorem macInv_stepG {C : Cipher} {k r X : Bytes} {st : MacSt} (h : MacInv C k r X st) :
    MacInv C k r X (macStepGInternal C st) := by
  have hpl : (macPend X).length = X.length - 16 * macNb X := by simp only [macPend, List.length_drop]
  have hf : st.filled ≤ 16 := by rw [h.filled, hpl]; unfold macNb; omega
  unfold macStepGInternal
  by_cases hf16 : st.filled = 16
  · have hbeq : (st.filled == 16) = true := by simp [hf16]
    simp only [hbeq, if_true]
    exact ⟨h.key, h.r, h.s, h.filled, h.pend, h.blen⟩
  · have hbeq : (st.filled == 16) = false := by simpa using hf16
    simp only [hbeq, Bool.false_eq_true, if_false]
    have hl : (st.block.take st.filled).length = st.filled := by
      simp only [List.length_take, h.blen]; omega
    refine ⟨h.key, h.r, h.s, h.filled, ?_, ?_⟩
    · show List.take st.filled (st.block.take st.filled ++ [0x80] ++ zeros (16 - st.filled - 1)) = _
      rw [List.append_assoc, List.take_left' hl, h.pend]
    · show (st.block.take st.filled ++ [0x80] ++ zeros (16 - st.filled - 1)).length = 16
      simp only [List.length_append, hl, zeros, List.length_replicate, List.length_cons, List.length_nil]
      omega

/-- a session of `beltMACStepA` / `beltMACStepG2` calls -/
inductive MacOp where
  | absorb (buf : Bytes)
  | get (n : Nat)

def MacOp.data : MacOp → Bytes
  | .absorb b => b
  | .get _ => []

def macRun (C : Cipher) (st : MacSt) (ops : List MacOp) : MacSt :=
  ops.foldl (fun st op => match op with
    | .absorb b => macStepA C st b
    | .get n => (macStepG C st n).1) st

theorem macInv_run {C : Cipher} {k r : Bytes} (ops : List MacOp) :
    ∀ {X : Bytes} {st : MacSt}, MacInv C k r X st →
      MacInv C k r (X ++ (ops.map MacOp.data).flatten) (macRun C st ops) := by
  induction ops with
  | nil => intro X st h; simpa [macRun] using h
  | cons op ops ih =>
    intro X st h
    cases op with
    | absorb b =>
      have := ih (macInv_stepA h b)
      simpa only [macRun, List.foldl_cons, List.map_cons, List.flatten_cons, MacOp.data, List.append_assoc] using this
    | get n =>
      have := ih (macInv_stepG h)
      simpa only [macRun, List.foldl_cons, List.map_cons, List.flatten_cons, MacOp.data, List.nil_append,
        macStepG] using this

/-! ### belt-hash / belt-HMAC: the 32-octet absorber -/

/-- `(s, h)` after `n` whole 32-octet blocks of `X` have been compressed, starting from `sh` -/
def comprChain (C : Cipher) : Nat → Bytes × Bytes → Bytes → Bytes × Bytes
  | 0, sh, _ => sh
  | n + 1, sh, X => comprChain C n (compr2 C sh.1 sh.2 (X.take 32)) (X.drop 32)

theorem comprChain_append_of_le (C : Cipher) :
    ∀ (n : Nat) (sh : Bytes × Bytes) (X Y : Bytes), 32 * n ≤ X.length →
      comprChain C n sh (X ++ Y) = comprChain C n sh X := by
  intro n
  induction n with
  | zero => intros; rfl
  | succ n ih =>
    intro sh X Y h
    simp only [comprChain]
    rw [List.take_append_of_le_length (by omega), List.drop_append_of_le_length (by omega)]
    exact ih _ _ _ (by simp only [List.length_drop]; omega)

theorem comprChain_add (C : Cipher) :
    ∀ (n m : Nat) (sh : Bytes × Bytes) (X : Bytes),
      comprChain C (n + m) sh X = comprChain C m (comprChain C n sh X) (X.drop (32 * n)) := by
  intro n
  induction n with
  | zero => intro m sh X; simp [comprChain]
  | succ n ih =>
    intro m sh X
    rw [show n + 1 + m = (n + m) + 1 by omega]
    simp only [comprChain]
    rw [ih, List.drop_drop]
    congr 2
    omega

theorem chunk_drop_block32 (blk Y : Bytes) (n : Nat) (hb : blk.length = 32) :
    (blk ++ Y).drop (32 * (n + 1)) = Y.drop (32 * n) := by
  have e : 32 * (n + 1) = blk.length + 32 * n := by omega
  rw [e, List.drop_append, List.drop_of_length_le (by omega), List.nil_append, Nat.add_sub_cancel_left]

/-- the loop over full blocks in `beltHashStepH` / `beltHMACStepA` -/
theorem hash_loop (C : Cipher) :
    ∀ (m : Nat) (Y s h blk : Bytes), Y.length / 32 = m → blk.length = 32 →
      ∃ blk' : Bytes, blk'.length = 32 ∧
        fullBlocks 32 (fun (st : Bytes × Bytes × Bytes) b =>
          let r := compr2 C st.1 st.2.1 b
          ((r.1, r.2, b), ([] : Bytes))) (s, h, blk) Y =
        (((comprChain C m (s, h) Y).1, (comprChain C m (s, h) Y).2, blk'), [], Y.drop (32 * m)) := by
  intro m
  induction m with
  | zero =>
    intro Y s h blk hm hb
    refine ⟨blk, hb, ?_⟩
    rw [gl_stop _ _ _ _ (by omega)]
    simp [comprChain]
  | succ m ih =>
    intro Y s h blk hm hb
    have hY : 32 ≤ Y.length := by omega
    have ht : (Y.take 32).length = 32 := by simp only [List.length_take]; omega
    rcases ih (Y.drop 32) (compr2 C s h (Y.take 32)).1 (compr2 C s h (Y.take 32)).2 (Y.take 32)
      (by simp only [List.length_drop]; omega) ht with ⟨blk', hb', e⟩
    refine ⟨blk', hb', ?_⟩
    rw [gl_step 32 (by omega) _ _ _ hY]
    simp only [e, List.nil_append, comprChain, List.drop_drop]
    have e2 : 32 + 32 * m = 32 * (m + 1) := by omega
    rw [e2]

/-- the part of `absorb32` after the pending block has been completed and compressed -/
def absorbTail (C : Cipher) (s h blk0 Y : Bytes) : Bytes × Bytes × Bytes × Nat :=
  let l := fullBlocks 32 (fun (st : Bytes × Bytes × Bytes) b =>
      let r := compr2 C st.1 st.2.1 b
      ((r.1, r.2, b), [])) (s, h, blk0) Y
  let r := l.2.2
  if r.length ≠ 0 then (l.1.1, l.1.2.1, putAt l.1.2.2 0 r, r.length)
  else (l.1.1, l.1.2.1, l.1.2.2, 0)

/-- what `absorb32` does to the abstract state ((s, h), pending octets), `Z` = pending octets ++ new data -/
structure AbsorbAbs (C : Cipher) (s h : Bytes) (r : Bytes × Bytes × Bytes × Nat) (Z : Bytes) : Prop where
  sh : (r.1, r.2.1) = comprChain C (Z.length / 32) (s, h) Z
  filled : r.2.2.2 = Z.length % 32
  pend : r.2.2.1.take r.2.2.2 = Z.drop (32 * (Z.length / 32))
  blen : r.2.2.1.length = 32

theorem absorbTail_abs (C : Cipher) (s h blk0 Y : Bytes) (hb : blk0.length = 32) :
    AbsorbAbs C s h (absorbTail C s h blk0 Y) Y := by
  rcases hash_loop C (Y.length / 32) Y s h blk0 rfl hb with ⟨blk', hb', e⟩
  unfold absorbTail
  rw [e]
  have hrl : (Y.drop (32 * (Y.length / 32))).length = Y.length % 32 := by
    simp only [List.length_drop]; omega
  by_cases hr : Y.length % 32 = 0
  · simp only [hrl, hr, ne_eq, not_true_eq_false, if_false]
    refine ⟨rfl, hr.symm, ?_, hb'⟩
    show List.take 0 blk' = _
    rw [List.take_zero, List.drop_of_length_le (by omega)]
  · simp only [hrl, hr, ne_eq, not_false_eq_true, if_true]
    refine ⟨rfl, rfl, ?_, ?_⟩
    · show List.take (Y.length % 32) (putAt blk' 0 _) = _
      have := chunk_take_putAt blk' (Y.drop (32 * (Y.length / 32))) 0 (by omega)
      simpa only [Nat.zero_add, hrl, List.take_zero, List.nil_append] using this
    · show (putAt blk' 0 _).length = 32
      rw [chunk_length_putAt _ _ _ (by rw [hrl]; omega), hb']

theorem absorb32_abs (C : Cipher) (s h block : Bytes) (filled : Nat) (buf : Bytes)
    (hb : block.length = 32) (hf : filled < 32) :
    AbsorbAbs C s h (absorb32 C s h block filled buf) (block.take filled ++ buf) := by
  have hZ : (block.take filled ++ buf).length = filled + buf.length := by
    simp only [List.length_append, List.length_take]; omega
  by_cases hc : filled ≠ 0 ∧ buf.length < 32 - filled
  · unfold absorb32
    rw [if_pos hc]
    have hn : (block.take filled ++ buf).length / 32 = 0 := by rw [hZ]; omega
    refine ⟨by rw [hn]; rfl, by rw [hZ]; show filled + buf.length = _; omega, ?_, ?_⟩
    · rw [hn]; exact chunk_take_putAt _ _ _ (by omega)
    · show (putAt block filled buf).length = 32
      rw [chunk_length_putAt _ _ _ (by omega), hb]
  · by_cases hf0 : filled ≠ 0
    · have hlt : 32 - filled ≤ buf.length := by omega
      have hblk0 : putAt block filled (buf.take (32 - filled)) =
          block.take filled ++ buf.take (32 - filled) := by
        unfold putAt
        rw [List.drop_of_length_le (by simp only [List.length_take]; omega), List.append_nil]
      have hb0 : (block.take filled ++ buf.take (32 - filled)).length = 32 := by
        simp only [List.length_append, List.length_take]; omega
      have e : absorb32 C s h block filled buf =
          absorbTail C (compr2 C s h (block.take filled ++ buf.take (32 - filled))).1
            (compr2 C s h (block.take filled ++ buf.take (32 - filled))).2
            (block.take filled ++ buf.take (32 - filled)) (buf.drop (32 - filled)) := by
        unfold absorb32 absorbTail
        rw [if_neg hc]
        simp only [hf0, ne_eq, not_false_eq_true, if_true, hblk0]
      have a := absorbTail_abs C (compr2 C s h (block.take filled ++ buf.take (32 - filled))).1
        (compr2 C s h (block.take filled ++ buf.take (32 - filled))).2
        (block.take filled ++ buf.take (32 - filled)) (buf.drop (32 - filled)) hb0
      rw [← e] at a
      have hZ2 : block.take filled ++ buf =
          (block.take filled ++ buf.take (32 - filled)) ++ buf.drop (32 - filled) := by
        rw [List.append_assoc, List.take_append_drop]
      have hYl : (buf.drop (32 - filled)).length = buf.length - (32 - filled) := by
        simp only [List.length_drop]
      have hn : (block.take filled ++ buf).length / 32 = (buf.drop (32 - filled)).length / 32 + 1 := by
        rw [hZ, hYl]; omega
      refine ⟨?_, ?_, ?_, a.blen⟩
      · rw [a.sh, hn]
        simp only [comprChain]
        rw [hZ2, List.take_left' hb0, List.drop_left' hb0]
      · rw [a.filled, hZ, hYl]; omega
      · rw [a.pend, hn, hZ2, chunk_drop_block32 _ _ _ hb0]
    · have hf' : filled = 0 := by omega
      have e : absorb32 C s h block filled buf = absorbTail C s h block buf := by
        unfold absorb32 absorbTail
        rw [if_neg hc]
        simp only [hf', ne_eq, not_true_eq_false, if_false, List.drop_zero]
      rw [e, hf', List.take_zero, List.nil_append]
      exact absorbTail_abs C s h block buf hb

theorem length_addBitSizeU32_4 (a b c d : UInt32) (n : Nat) : (addBitSizeU32 [a, b, c, d] n).length = 4 := by
  simp only [addBitSizeU32]
  split <;> split <;> rfl

theorem length_addBitSizeBlock' (b : Bytes) (n : Nat) (hl : b.length = 16) :
    (addBitSizeBlock b n).length = 16 := by
  rcases u32From_16 b hl with ⟨w0, w1, w2, w3, hw⟩
  rw [addBitSizeBlock, hw, length_u32To, length_addBitSizeU32_4]

/-- The fields `(ls, h, block, filled)` of a belt-hash / belt-HMAC state after the data `X` has been absorbed,
starting from `(s0, h0)`: `L` is the length block, `(s, h)` the compression chain over the whole 32-octet blocks
of `X`, the first `filled = |X| mod 32` octets of `block` the pending ones. -/
structure SpongeInv (C : Cipher) (L s0 h0 X : Bytes) (ls h block : Bytes) (fl : Nat) : Prop where
  len : ls.take 16 = L
  llen : L.length = 16
  sh : (ls.drop 16, h) = comprChain C (X.length / 32) (s0, h0) X
  filled : fl = X.length % 32
  pend : block.take fl = X.drop (32 * (X.length / 32))
  blen : block.length = 32

theorem spongeInv_step {C : Cipher} {L s0 h0 X ls h block : Bytes} {filled : Nat}
    (inv : SpongeInv C L s0 h0 X ls h block filled) (buf : Bytes) :
    SpongeInv C (addBitSizeBlock L buf.length) s0 h0 (X ++ buf)
      (addBitSizeBlock (ls.take 16) buf.length ++ (absorb32 C (ls.drop 16) h block filled buf).1)
      (absorb32 C (ls.drop 16) h block filled buf).2.1
      (absorb32 C (ls.drop 16) h block filled buf).2.2.1
      (absorb32 C (ls.drop 16) h block filled buf).2.2.2 := by
  have hf : filled < 32 := by rw [inv.filled]; omega
  have a := absorb32_abs C (ls.drop 16) h block filled buf inv.blen hf
  rw [inv.pend] at a
  have hle : 32 * (X.length / 32) ≤ X.length := by omega
  have hZ : X.drop (32 * (X.length / 32)) ++ buf = (X ++ buf).drop (32 * (X.length / 32)) := by
    rw [List.drop_append_of_le_length hle]
  have hZl : (X.drop (32 * (X.length / 32)) ++ buf).length = X.length % 32 + buf.length := by
    simp only [List.length_append, List.length_drop]; omega
  have hnb : (X ++ buf).length / 32 = X.length / 32 + (X.drop (32 * (X.length / 32)) ++ buf).length / 32 := by
    rw [hZl, List.length_append]; omega
  obtain ⟨ash, afilled, apend, ablen⟩ := a
  generalize hn : (X.drop (32 * (X.length / 32)) ++ buf).length / 32 = n at ash apend hnb
  have hl16 : (addBitSizeBlock (ls.take 16) buf.length).length = 16 :=
    length_addBitSizeBlock' _ _ (by rw [inv.len]; exact inv.llen)
  refine ⟨?_, length_addBitSizeBlock' _ _ inv.llen, ?_, ?_, ?_, ablen⟩
  · rw [List.take_left' hl16, inv.len]
  · rw [List.drop_left' hl16, ash, inv.sh, hnb, comprChain_add, comprChain_append_of_le _ _ _ _ _ hle, hZ]
  · rw [afilled, hZl, List.length_append]; omega
  · rw [apend, hnb, hZ, List.drop_drop, Nat.mul_add]

/-! #### belt-hash -/

def HashInv (C : Cipher) (L X : Bytes) (st : HashSt) : Prop :=
  SpongeInv C L (zeros 16) hInit X st.ls st.h st.block st.filled

theorem hashInv_start (C : Cipher) : HashInv C (zeros 16) [] hashStart :=
  ⟨rfl, rfl, rfl, rfl, rfl, rfl⟩

theorem hashInv_stepH {C : Cipher} {L X : Bytes} {st : HashSt} (h : HashInv C L X st) (buf : Bytes) :
    HashInv C (addBitSizeBlock L buf.length) (X ++ buf) (hashStepH C st buf) :=
  spongeInv_step h buf

/-- the length block after a sequence of fragments -/
def lenFold (L : Bytes) (cs : List Bytes) : Bytes := cs.foldl (fun L c => addBitSizeBlock L c.length) L

theorem hashInv_fold {C : Cipher} (cs : List Bytes) :
    ∀ {L X : Bytes} {st : HashSt}, HashInv C L X st →
      HashInv C (lenFold L cs) (X ++ cs.flatten) (cs.foldl (hashStepH C) st) := by
  induction cs with
  | nil => intro L X st h; simpa [lenFold] using h
  | cons c cs ih =>
    intro L X st h
    simp only [List.foldl_cons, List.flatten_cons, ← List.append_assoc, lenFold]
    exact ih (hashInv_stepH h c)

/-- the inner digest computed by `beltHashStepG_internal` / `beltHMACStepG_internal`, as a function of the length
block and the absorbed data -/
def spongeOut (C : Cipher) (L s0 h0 X : Bytes) : Bytes :=
  let sh := comprChain C (X.length / 32) (s0, h0) X
  if X.length % 32 ≠ 0 then
    let r := compr2 C sh.1 sh.2 (X.drop (32 * (X.length / 32)) ++ zeros (32 - X.length % 32))
    compr C r.2 (L ++ r.1)
  else compr C sh.2 (L ++ sh.1)

theorem spongeInv_out {C : Cipher} {L s0 h0 X ls h block : Bytes} {fl : Nat}
    (inv : SpongeInv C L s0 h0 X ls h block fl) :
    (if fl ≠ 0 then
      compr C (compr2 C (ls.drop 16) h (block.take fl ++ zeros (32 - fl))).2
        (ls.take 16 ++ (compr2 C (ls.drop 16) h (block.take fl ++ zeros (32 - fl))).1)
     else compr C h ls) = spongeOut C L s0 h0 X := by
  have h1 : ls.drop 16 = (comprChain C (X.length / 32) (s0, h0) X).1 := congrArg Prod.fst inv.sh
  have h2 : h = (comprChain C (X.length / 32) (s0, h0) X).2 := congrArg Prod.snd inv.sh
  have hls : ls = L ++ (comprChain C (X.length / 32) (s0, h0) X).1 := by
    rw [← h1, ← inv.len, List.take_append_drop]
  unfold spongeOut
  by_cases hf : fl ≠ 0
  · have hx : X.length % 32 ≠ 0 := by rw [← inv.filled]; exact hf
    simp only [hf, hx, ne_eq, not_false_eq_true, if_true, inv.pend, h1, h2, inv.len]
    rw [inv.filled]
  · have hx : ¬ X.length % 32 ≠ 0 := by rw [← inv.filled]; exact hf
    simp only [hf, hx, if_false, h2]
    rw [hls]

/-- writing the zero padding behind the pending octets keeps the description -/
theorem spongeInv_pad {C : Cipher} {L s0 h0 X ls h block : Bytes} {fl : Nat}
    (inv : SpongeInv C L s0 h0 X ls h block fl) :
    SpongeInv C L s0 h0 X ls h (block.take fl ++ zeros (32 - fl)) fl := by
  have hfl : fl < 32 := by rw [inv.filled]; omega
  have hl : (block.take fl).length = fl := by simp only [List.length_take, inv.blen]; omega
  refine ⟨inv.len, inv.llen, inv.sh, inv.filled, ?_, ?_⟩
  · rw [List.take_left' hl, inv.pend]
  · simp only [List.length_append, hl, zeros, List.length_replicate]; omega

/-- `st->h1` computed by `beltHashStepG_internal` -/
def hashOutSpec (C : Cipher) (L X : Bytes) : Bytes := spongeOut C L (zeros 16) hInit X

theorem hashInv_out {C : Cipher} {L X : Bytes} {st : HashSt} (h : HashInv C L X st) :
    (hashStepGInternal C st).h1 = hashOutSpec C L X := by
  have := spongeInv_out h
  unfold hashStepGInternal hashOutSpec
  by_cases hf : st.filled ≠ 0
  · simp only [hf, ne_eq, not_false_eq_true, if_true] at this ⊢
    exact this
  · simp only [hf, if_false] at this ⊢
    exact this

theorem hashInv_stepG {C : Cipher} {L X : Bytes} {st : HashSt} (h : HashInv C L X st) :
    HashInv C L X (hashStepGInternal C st) := by
  unfold hashStepGInternal
  by_cases hf : st.filled ≠ 0
  · simp only [hf, ne_eq, not_false_eq_true, if_true]
    exact spongeInv_pad h
  · simp only [hf, if_false]
    exact h

/-! #### belt-HMAC -/

structure HmacInv (C : Cipher) (L s0 h0 lsOut hOut X : Bytes) (st : HmacSt) : Prop where
  inner : SpongeInv C L s0 h0 X st.ls_in st.h_in st.block st.filled
  lsOut : st.ls_out = lsOut
  hOut : st.h_out = hOut

theorem hmacInv_init (C : Cipher) (st : HmacSt) (hl : 16 ≤ st.ls_in.length) (hb : st.block.length = 32)
    (hf : st.filled = 0) :
    HmacInv C (st.ls_in.take 16) (st.ls_in.drop 16) st.h_in st.ls_out st.h_out [] st :=
  ⟨⟨rfl, by simp only [List.length_take]; omega, rfl, hf, by rw [hf]; rfl, hb⟩, rfl, rfl⟩

theorem hmacInv_stepA {C : Cipher} {L s0 h0 lo ho X : Bytes} {st : HmacSt} (h : HmacInv C L s0 h0 lo ho X st)
    (buf : Bytes) : HmacInv C (addBitSizeBlock L buf.length) s0 h0 lo ho (X ++ buf) (hmacStepA C st buf) :=
  ⟨spongeInv_step h.inner buf, h.lsOut, h.hOut⟩

theorem hmacInv_fold {C : Cipher} {s0 h0 lo ho : Bytes} (cs : List Bytes) :
    ∀ {L X : Bytes} {st : HmacSt}, HmacInv C L s0 h0 lo ho X st →
      HmacInv C (lenFold L cs) s0 h0 lo ho (X ++ cs.flatten) (cs.foldl (hmacStepA C) st) := by
  induction cs with
  | nil => intro L X st h; simpa [lenFold] using h
  | cons c cs ih =>
    intro L X st h
    simp only [List.foldl_cons, List.flatten_cons, ← List.append_assoc, lenFold]
    exact ih (hmacInv_stepA h c)

/-- `st->h1_out` computed by `beltHMACStepG_internal` -/
def hmacOutSpec (C : Cipher) (L s0 h0 lo ho X : Bytes) : Bytes :=
  let r := compr2 C (lo.drop 16) ho (spongeOut C L s0 h0 X)
  compr C r.2 (lo.take 16 ++ r.1)

theorem hmacInv_out {C : Cipher} {L s0 h0 lo ho X : Bytes} {st : HmacSt} (h : HmacInv C L s0 h0 lo ho X st) :
    (hmacStepGInternal C st).h1_out = hmacOutSpec C L s0 h0 lo ho X := by
  have := spongeInv_out h.inner
  unfold hmacStepGInternal hmacOutSpec
  by_cases hf : st.filled ≠ 0
  · simp only [hf, ne_eq, not_false_eq_true, if_true] at this ⊢
    rw [this, h.lsOut, h.hOut]
  · simp only [hf, if_false] at this ⊢
    rw [this, h.lsOut, h.hOut]

theorem hmacInv_stepG {C : Cipher} {L s0 h0 lo ho X : Bytes} {st : HmacSt} (h : HmacInv C L s0 h0 lo ho X st) :
    HmacInv C L s0 h0 lo ho X (hmacStepGInternal C st) := by
  unfold hmacStepGInternal
  by_cases hf : st.filled ≠ 0
  · simp only [hf, ne_eq, not_false_eq_true, if_true]
    exact ⟨spongeInv_pad h.inner, h.lsOut, h.hOut⟩
  · simp only [hf, if_false]
    exact ⟨h.inner, h.lsOut, h.hOut⟩

end Bee2V.C01

/- kernel-checked rows of the beltFMTCalcB table: alphabet sizes 3074..4097, all counts 1..300 (static file; the
   constants come from the regenerated Bee2V.Gen.C01Tables through `calcB`) -/
import Bee2V.C01.Lemmas.FmtTable
set_option Elab.async false
namespace Bee2V.C01

set_option maxRecDepth 100000 in
theorem fmtRows_3074 : checkMods 64 3074 = true := by decide +kernel

set_option maxRecDepth 100000 in
theorem fmtRows_3138 : checkMods 64 3138 = true := by decide +kernel

set_option maxRecDepth 100000 in
theorem fmtRows_3202 : checkMods 64 3202 = true := by decide +kernel

set_option maxRecDepth 100000 in
theorem fmtRows_3266 : checkMods 64 3266 = true := by decide +kernel

set_option maxRecDepth 100000 in
theorem fmtRows_3330 : checkMods 64 3330 = true := by decide +kernel

set_option maxRecDepth 100000 in
theorem fmtRows_3394 : checkMods 64 3394 = true := by decide +kernel

set_option maxRecDepth 100000 in
theorem fmtRows_3458 : checkMods 64 3458 = true := by decide +kernel

set_option maxRecDepth 100000 in
theorem fmtRows_3522 : checkMods 64 3522 = true := by decide +kernel

set_option maxRecDepth 100000 in
theorem fmtRows_3586 : checkMods 64 3586 = true := by decide +kernel

set_option maxRecDepth 100000 in
theorem fmtRows_3650 : checkMods 64 3650 = true := by decide +kernel

set_option maxRecDepth 100000 in
theorem fmtRows_3714 : checkMods 64 3714 = true := by decide +kernel

set_option maxRecDepth 100000 in
theorem fmtRows_3778 : checkMods 64 3778 = true := by decide +kernel

set_option maxRecDepth 100000 in
theorem fmtRows_3842 : checkMods 64 3842 = true := by decide +kernel

set_option maxRecDepth 100000 in
theorem fmtRows_3906 : checkMods 64 3906 = true := by decide +kernel

set_option maxRecDepth 100000 in
theorem fmtRows_3970 : checkMods 64 3970 = true := by decide +kernel

set_option maxRecDepth 100000 in
theorem fmtRows_4034 : checkMods 64 4034 = true := by decide +kernel

theorem fmtFile_8 (mod count : Nat) (h1 : 3074 ≤ mod) (h2 : mod < 4098) (hc : 1 ≤ count) (hc' : count ≤ 300) :
    IsBlockCount mod count (calcB mod count) := by
  by_cases a0 : mod < 3138
  · exact checkMods_spec 64 3074 fmtRows_3074 mod count (by omega) (by omega) hc hc'
  by_cases a1 : mod < 3202
  · exact checkMods_spec 64 3138 fmtRows_3138 mod count (by omega) (by omega) hc hc'
  by_cases a2 : mod < 3266
  · exact checkMods_spec 64 3202 fmtRows_3202 mod count (by omega) (by omega) hc hc'
  by_cases a3 : mod < 3330
  · exact checkMods_spec 64 3266 fmtRows_3266 mod count (by omega) (by omega) hc hc'
  by_cases a4 : mod < 3394
  · exact checkMods_spec 64 3330 fmtRows_3330 mod count (by omega) (by omega) hc hc'
  by_cases a5 : mod < 3458
  · exact checkMods_spec 64 3394 fmtRows_3394 mod count (by omega) (by omega) hc hc'
  by_cases a6 : mod < 3522
  · exact checkMods_spec 64 3458 fmtRows_3458 mod count (by omega) (by omega) hc hc'
  by_cases a7 : mod < 3586
  · exact checkMods_spec 64 3522 fmtRows_3522 mod count (by omega) (by omega) hc hc'
  by_cases a8 : mod < 3650
  · exact checkMods_spec 64 3586 fmtRows_3586 mod count (by omega) (by omega) hc hc'
  by_cases a9 : mod < 3714
  · exact checkMods_spec 64 3650 fmtRows_3650 mod count (by omega) (by omega) hc hc'
  by_cases a10 : mod < 3778
  · exact checkMods_spec 64 3714 fmtRows_3714 mod count (by omega) (by omega) hc hc'
  by_cases a11 : mod < 3842
  · exact checkMods_spec 64 3778 fmtRows_3778 mod count (by omega) (by omega) hc hc'
  by_cases a12 : mod < 3906
  · exact checkMods_spec 64 3842 fmtRows_3842 mod count (by omega) (by omega) hc hc'
  by_cases a13 : mod < 3970
  · exact checkMods_spec 64 3906 fmtRows_3906 mod count (by omega) (by omega) hc hc'
  by_cases a14 : mod < 4034
  · exact checkMods_spec 64 3970 fmtRows_3970 mod count (by omega) (by omega) hc hc'
  exact checkMods_spec 64 4034 fmtRows_4034 mod count (by omega) (by omega) hc hc'

end Bee2V.C01

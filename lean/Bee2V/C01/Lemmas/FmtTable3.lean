/- kernel-checked rows of the beltFMTCalcB table: alphabet sizes 514..769, all counts 1..300 -/
import Bee2V.C01.Lemmas.FmtTable
namespace Bee2V.C01

set_option maxRecDepth 100000 in
theorem fmtRows_514 : checkMods 64 514 = true := by decide +kernel

set_option maxRecDepth 100000 in
theorem fmtRows_578 : checkMods 64 578 = true := by decide +kernel

set_option maxRecDepth 100000 in
theorem fmtRows_642 : checkMods 64 642 = true := by decide +kernel

set_option maxRecDepth 100000 in
theorem fmtRows_706 : checkMods 64 706 = true := by decide +kernel

end Bee2V.C01

/- kernel-checked rows of the beltFMTCalcB table: alphabet sizes 12290..13313, all counts 1..300 (static file; the
   constants come from the regenerated Bee2V.Gen.C01Tables through `calcB`) -/
import Bee2V.C01.Lemmas.FmtTable
set_option Elab.async false
namespace Bee2V.C01

set_option maxRecDepth 100000 in
theorem fmtRows_12290 : checkMods 64 12290 = true := by decide +kernel

set_option maxRecDepth 100000 in
theorem fmtRows_12354 : checkMods 64 12354 = true := by decide +kernel

set_option maxRecDepth 100000 in
theorem fmtRows_12418 : checkMods 64 12418 = true := by decide +kernel

set_option maxRecDepth 100000 in
theorem fmtRows_12482 : checkMods 64 12482 = true := by decide +kernel

set_option maxRecDepth 100000 in
theorem fmtRows_12546 : checkMods 64 12546 = true := by decide +kernel

set_option maxRecDepth 100000 in
theorem fmtRows_12610 : checkMods 64 12610 = true := by decide +kernel

set_option maxRecDepth 100000 in
theorem fmtRows_12674 : checkMods 64 12674 = true := by decide +kernel

set_option maxRecDepth 100000 in
theorem fmtRows_12738 : checkMods 64 12738 = true := by decide +kernel

set_option maxRecDepth 100000 in
theorem fmtRows_12802 : checkMods 64 12802 = true := by decide +kernel

set_option maxRecDepth 100000 in
theorem fmtRows_12866 : checkMods 64 12866 = true := by decide +kernel

set_option maxRecDepth 100000 in
theorem fmtRows_12930 : checkMods 64 12930 = true := by decide +kernel

set_option maxRecDepth 100000 in
theorem fmtRows_12994 : checkMods 64 12994 = true := by decide +kernel

set_option maxRecDepth 100000 in
theorem fmtRows_13058 : checkMods 64 13058 = true := by decide +kernel

set_option maxRecDepth 100000 in
theorem fmtRows_13122 : checkMods 64 13122 = true := by decide +kernel

set_option maxRecDepth 100000 in
theorem fmtRows_13186 : checkMods 64 13186 = true := by decide +kernel

set_option maxRecDepth 100000 in
theorem fmtRows_13250 : checkMods 64 13250 = true := by decide +kernel

theorem fmtFile_17 (mod count : Nat) (h1 : 12290 ≤ mod) (h2 : mod < 13314) (hc : 1 ≤ count) (hc' : count ≤ 300) :
    IsBlockCount mod count (calcB mod count) := by
  by_cases a0 : mod < 12354
  · exact checkMods_spec 64 12290 fmtRows_12290 mod count (by omega) (by omega) hc hc'
  by_cases a1 : mod < 12418
  · exact checkMods_spec 64 12354 fmtRows_12354 mod count (by omega) (by omega) hc hc'
  by_cases a2 : mod < 12482
  · exact checkMods_spec 64 12418 fmtRows_12418 mod count (by omega) (by omega) hc hc'
  by_cases a3 : mod < 12546
  · exact checkMods_spec 64 12482 fmtRows_12482 mod count (by omega) (by omega) hc hc'
  by_cases a4 : mod < 12610
  · exact checkMods_spec 64 12546 fmtRows_12546 mod count (by omega) (by omega) hc hc'
  by_cases a5 : mod < 12674
  · exact checkMods_spec 64 12610 fmtRows_12610 mod count (by omega) (by omega) hc hc'
  by_cases a6 : mod < 12738
  · exact checkMods_spec 64 12674 fmtRows_12674 mod count (by omega) (by omega) hc hc'
  by_cases a7 : mod < 12802
  · exact checkMods_spec 64 12738 fmtRows_12738 mod count (by omega) (by omega) hc hc'
  by_cases a8 : mod < 12866
  · exact checkMods_spec 64 12802 fmtRows_12802 mod count (by omega) (by omega) hc hc'
  by_cases a9 : mod < 12930
  · exact checkMods_spec 64 12866 fmtRows_12866 mod count (by omega) (by omega) hc hc'
  by_cases a10 : mod < 12994
  · exact checkMods_spec 64 12930 fmtRows_12930 mod count (by omega) (by omega) hc hc'
  by_cases a11 : mod < 13058
  · exact checkMods_spec 64 12994 fmtRows_12994 mod count (by omega) (by omega) hc hc'
  by_cases a12 : mod < 13122
  · exact checkMods_spec 64 13058 fmtRows_13058 mod count (by omega) (by omega) hc hc'
  by_cases a13 : mod < 13186
  · exact checkMods_spec 64 13122 fmtRows_13122 mod count (by omega) (by omega) hc hc'
  by_cases a14 : mod < 13250
  · exact checkMods_spec 64 13186 fmtRows_13186 mod count (by omega) (by omega) hc hc'
  exact checkMods_spec 64 13250 fmtRows_13250 mod count (by omega) (by omega) hc hc'

end Bee2V.C01

/- kernel-checked single rows of the beltFMTCalcB table (special case 49667, powers of two and their neighbours, perfect powers) -/
import Bee2V.C01.Lemmas.FmtTable
namespace Bee2V.C01

def fmtExtraRows : List Nat := [1296, 1331, 2047, 2048, 2049, 2197, 2401, 3125, 4095, 4096, 4097, 4913, 6561, 6859, 7776, 8191, 8192, 8193, 9999, 10000, 12167, 14641, 15625, 16383, 16384, 16385, 16807, 19683, 24389, 28561, 29791, 32767, 32768, 32769, 40000, 46340, 46341, 46656, 49666, 49667, 49668, 50000, 50653, 59049, 60000, 65521, 65534, 65535, 65536]

set_option maxRecDepth 100000 in
theorem fmtRows_extra : (fmtExtraRows.all fun m => checkMods 1 m) = true := by decide +kernel

end Bee2V.C01

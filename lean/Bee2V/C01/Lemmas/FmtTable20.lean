/- kernel-checked rows of the beltFMTCalcB table: alphabet sizes 15362..16385, all counts 1..300 (static file; the
   constants come from the regenerated Bee2V.Gen.C01Tables through `calcB`) -/
import Bee2V.C01.Lemmas.FmtTable
set_option Elab.async false
namespace Bee2V.C01

set_option maxRecDepth 100000 in
theorem fmtRows_15362 : checkMods 64 15362 = true := by decide +kernel

set_option maxRecDepth 100000 in
theorem fmtRows_15426 : checkMods 64 15426 = true := by decide +kernel

set_option maxRecDepth 100000 in
theorem fmtRows_15490 : checkMods 64 15490 = true := by decide +kernel

set_option maxRecDepth 100000 in
theorem fmtRows_15554 : checkMods 64 15554 = true := by decide +kernel

set_option maxRecDepth 100000 in
theorem fmtRows_15618 : checkMods 64 15618 = true := by decide +kernel

set_option maxRecDepth 100000 in
theorem fmtRows_15682 : checkMods 64 15682 = true := by decide +kernel

set_option maxRecDepth 100000 in
theorem fmtRows_15746 : checkMods 64 15746 = true := by decide +kernel

set_option maxRecDepth 100000 in
theorem fmtRows_15810 : checkMods 64 15810 = true := by decide +kernel

set_option maxRecDepth 100000 in
theorem fmtRows_15874 : checkMods 64 15874 = true := by decide +kernel

set_option maxRecDepth 100000 in
theorem fmtRows_15938 : checkMods 64 15938 = true := by decide +kernel

set_option maxRecDepth 100000 in
theorem fmtRows_16002 : checkMods 64 16002 = true := by decide +kernel

set_option maxRecDepth 100000 in
theorem fmtRows_16066 : checkMods 64 16066 = true := by decide +kernel

set_option maxRecDepth 100000 in
theorem fmtRows_16130 : checkMods 64 16130 = true := by decide +kernel

set_option maxRecDepth 100000 in
theorem fmtRows_16194 : checkMods 64 16194 = true := by decide +kernel

set_option maxRecDepth 100000 in
theorem fmtRows_16258 : checkMods 64 16258 = true := by decide +kernel

set_option maxRecDepth 100000 in
theorem fmtRows_16322 : checkMods 64 16322 = true := by decide +kernel

theorem fmtFile_20 (mod count : Nat) (h1 : 15362 ≤ mod) (h2 : mod < 16386) (hc : 1 ≤ count) (hc' : count ≤ 300) :
    IsBlockCount mod count (calcB mod count) := by
  by_cases a0 : mod < 15426
  · exact checkMods_spec 64 15362 fmtRows_15362 mod count (by omega) (by omega) hc hc'
  by_cases a1 : mod < 15490
  · exact checkMods_spec 64 15426 fmtRows_15426 mod count (by omega) (by omega) hc hc'
  by_cases a2 : mod < 15554
  · exact checkMods_spec 64 15490 fmtRows_15490 mod count (by omega) (by omega) hc hc'
  by_cases a3 : mod < 15618
  · exact checkMods_spec 64 15554 fmtRows_15554 mod count (by omega) (by omega) hc hc'
  by_cases a4 : mod < 15682
  · exact checkMods_spec 64 15618 fmtRows_15618 mod count (by omega) (by omega) hc hc'
  by_cases a5 : mod < 15746
  · exact checkMods_spec 64 15682 fmtRows_15682 mod count (by omega) (by omega) hc hc'
  by_cases a6 : mod < 15810
  · exact checkMods_spec 64 15746 fmtRows_15746 mod count (by omega) (by omega) hc hc'
  by_cases a7 : mod < 15874
  · exact checkMods_spec 64 15810 fmtRows_15810 mod count (by omega) (by omega) hc hc'
  by_cases a8 : mod < 15938
  · exact checkMods_spec 64 15874 fmtRows_15874 mod count (by omega) (by omega) hc hc'
  by_cases a9 : mod < 16002
  · exact checkMods_spec 64 15938 fmtRows_15938 mod count (by omega) (by omega) hc hc'
  by_cases a10 : mod < 16066
  · exact checkMods_spec 64 16002 fmtRows_16002 mod count (by omega) (by omega) hc hc'
  by_cases a11 : mod < 16130
  · exact checkMods_spec 64 16066 fmtRows_16066 mod count (by omega) (by omega) hc hc'
  by_cases a12 : mod < 16194
  · exact checkMods_spec 64 16130 fmtRows_16130 mod count (by omega) (by omega) hc hc'
  by_cases a13 : mod < 16258
  · exact checkMods_spec 64 16194 fmtRows_16194 mod count (by omega) (by omega) hc hc'
  by_cases a14 : mod < 16322
  · exact checkMods_spec 64 16258 fmtRows_16258 mod count (by omega) (by omega) hc hc'
  exact checkMods_spec 64 16322 fmtRows_16322 mod count (by omega) (by omega) hc hc'

end Bee2V.C01

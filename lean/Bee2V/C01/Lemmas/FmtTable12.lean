/- kernel-checked rows of the beltFMTCalcB table: alphabet sizes 7170..8193, all counts 1..300 (static file; the
   constants come from the regenerated Bee2V.Gen.C01Tables through `calcB`) -/
import Bee2V.C01.Lemmas.FmtTable
set_option Elab.async false
namespace Bee2V.C01

set_option maxRecDepth 100000 in
theorem fmtRows_7170 : checkMods 64 7170 = true := by decide +kernel

set_option maxRecDepth 100000 in
theorem fmtRows_7234 : checkMods 64 7234 = true := by decide +kernel

set_option maxRecDepth 100000 in
theorem fmtRows_7298 : checkMods 64 7298 = true := by decide +kernel

set_option maxRecDepth 100000 in
theorem fmtRows_7362 : checkMods 64 7362 = true := by decide +kernel

set_option maxRecDepth 100000 in
theorem fmtRows_7426 : checkMods 64 7426 = true := by decide +kernel

set_option maxRecDepth 100000 in
theorem fmtRows_7490 : checkMods 64 7490 = true := by decide +kernel

set_option maxRecDepth 100000 in
theorem fmtRows_7554 : checkMods 64 7554 = true := by decide +kernel

set_option maxRecDepth 100000 in
theorem fmtRows_7618 : checkMods 64 7618 = true := by decide +kernel

set_option maxRecDepth 100000 in
theorem fmtRows_7682 : checkMods 64 7682 = true := by decide +kernel

set_option maxRecDepth 100000 in
theorem fmtRows_7746 : checkMods 64 7746 = true := by decide +kernel

set_option maxRecDepth 100000 in
theorem fmtRows_7810 : checkMods 64 7810 = true := by decide +kernel

set_option maxRecDepth 100000 in
theorem fmtRows_7874 : checkMods 64 7874 = true := by decide +kernel

set_option maxRecDepth 100000 in
theorem fmtRows_7938 : checkMods 64 7938 = true := by decide +kernel

set_option maxRecDepth 100000 in
theorem fmtRows_8002 : checkMods 64 8002 = true := by decide +kernel

set_option maxRecDepth 100000 in
theorem fmtRows_8066 : checkMods 64 8066 = true := by decide +kernel

set_option maxRecDepth 100000 in
theorem fmtRows_8130 : checkMods 64 8130 = true := by decide +kernel

theorem fmtFile_12 (mod count : Nat) (h1 : 7170 ≤ mod) (h2 : mod < 8194) (hc : 1 ≤ count) (hc' : count ≤ 300) :
    IsBlockCount mod count (calcB mod count) := by
  by_cases a0 : mod < 7234
  · exact checkMods_spec 64 7170 fmtRows_7170 mod count (by omega) (by omega) hc hc'
  by_cases a1 : mod < 7298
  · exact checkMods_spec 64 7234 fmtRows_7234 mod count (by omega) (by omega) hc hc'
  by_cases a2 : mod < 7362
  · exact checkMods_spec 64 7298 fmtRows_7298 mod count (by omega) (by omega) hc hc'
  by_cases a3 : mod < 7426
  · exact checkMods_spec 64 7362 fmtRows_7362 mod count (by omega) (by omega) hc hc'
  by_cases a4 : mod < 7490
  · exact checkMods_spec 64 7426 fmtRows_7426 mod count (by omega) (by omega) hc hc'
  by_cases a5 : mod < 7554
  · exact checkMods_spec 64 7490 fmtRows_7490 mod count (by omega) (by omega) hc hc'
  by_cases a6 : mod < 7618
  · exact checkMods_spec 64 7554 fmtRows_7554 mod count (by omega) (by omega) hc hc'
  by_cases a7 : mod < 7682
  · exact checkMods_spec 64 7618 fmtRows_7618 mod count (by omega) (by omega) hc hc'
  by_cases a8 : mod < 7746
  · exact checkMods_spec 64 7682 fmtRows_7682 mod count (by omega) (by omega) hc hc'
  by_cases a9 : mod < 7810
  · exact checkMods_spec 64 7746 fmtRows_7746 mod count (by omega) (by omega) hc hc'
  by_cases a10 : mod < 7874
  · exact checkMods_spec 64 7810 fmtRows_7810 mod count (by omega) (by omega) hc hc'
  by_cases a11 : mod < 7938
  · exact checkMods_spec 64 7874 fmtRows_7874 mod count (by omega) (by omega) hc hc'
  by_cases a12 : mod < 8002
  · exact checkMods_spec 64 7938 fmtRows_7938 mod count (by omega) (by omega) hc hc'
  by_cases a13 : mod < 8066
  · exact checkMods_spec 64 8002 fmtRows_8002 mod count (by omega) (by omega) hc hc'
  by_cases a14 : mod < 8130
  · exact checkMods_spec 64 8066 fmtRows_8066 mod count (by omega) (by omega) hc hc'
  exact checkMods_spec 64 8130 fmtRows_8130 mod count (by omega) (by omega) hc hc'

end Bee2V.C01

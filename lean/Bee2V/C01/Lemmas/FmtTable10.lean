/- kernel-checked rows of the beltFMTCalcB table: alphabet sizes 5122..6145, all counts 1..300 (static file; the
   constants come from the regenerated Bee2V.Gen.C01Tables through `calcB`) -/
import Bee2V.C01.Lemmas.FmtTable
set_option Elab.async false
namespace Bee2V.C01

set_option maxRecDepth 100000 in
theorem fmtRows_5122 : checkMods 64 5122 = true := by decide +kernel

set_option maxRecDepth 100000 in
theorem fmtRows_5186 : checkMods 64 5186 = true := by decide +kernel

set_option maxRecDepth 100000 in
theorem fmtRows_5250 : checkMods 64 5250 = true := by decide +kernel

set_option maxRecDepth 100000 in
theorem fmtRows_5314 : checkMods 64 5314 = true := by decide +kernel

set_option maxRecDepth 100000 in
theorem fmtRows_5378 : checkMods 64 5378 = true := by decide +kernel

set_option maxRecDepth 100000 in
theorem fmtRows_5442 : checkMods 64 5442 = true := by decide +kernel

set_option maxRecDepth 100000 in
theorem fmtRows_5506 : checkMods 64 5506 = true := by decide +kernel

set_option maxRecDepth 100000 in
theorem fmtRows_5570 : checkMods 64 5570 = true := by decide +kernel

set_option maxRecDepth 100000 in
theorem fmtRows_5634 : checkMods 64 5634 = true := by decide +kernel

set_option maxRecDepth 100000 in
theorem fmtRows_5698 : checkMods 64 5698 = true := by decide +kernel

set_option maxRecDepth 100000 in
theorem fmtRows_5762 : checkMods 64 5762 = true := by decide +kernel

set_option maxRecDepth 100000 in
theorem fmtRows_5826 : checkMods 64 5826 = true := by decide +kernel

set_option maxRecDepth 100000 in
theorem fmtRows_5890 : checkMods 64 5890 = true := by decide +kernel

set_option maxRecDepth 100000 in
theorem fmtRows_5954 : checkMods 64 5954 = true := by decide +kernel

set_option maxRecDepth 100000 in
theorem fmtRows_6018 : checkMods 64 6018 = true := by decide +kernel

set_option maxRecDepth 100000 in
theorem fmtRows_6082 : checkMods 64 6082 = true := by decide +kernel

theorem fmtFile_10 (mod count : Nat) (h1 : 5122 ≤ mod) (h2 : mod < 6146) (hc : 1 ≤ count) (hc' : count ≤ 300) :
    IsBlockCount mod count (calcB mod count) := by
  by_cases a0 : mod < 5186
  · exact checkMods_spec 64 5122 fmtRows_5122 mod count (by omega) (by omega) hc hc'
  by_cases a1 : mod < 5250
  · exact checkMods_spec 64 5186 fmtRows_5186 mod count (by omega) (by omega) hc hc'
  by_cases a2 : mod < 5314
  · exact checkMods_spec 64 5250 fmtRows_5250 mod count (by omega) (by omega) hc hc'
  by_cases a3 : mod < 5378
  · exact checkMods_spec 64 5314 fmtRows_5314 mod count (by omega) (by omega) hc hc'
  by_cases a4 : mod < 5442
  · exact checkMods_spec 64 5378 fmtRows_5378 mod count (by omega) (by omega) hc hc'
  by_cases a5 : mod < 5506
  · exact checkMods_spec 64 5442 fmtRows_5442 mod count (by omega) (by omega) hc hc'
  by_cases a6 : mod < 5570
  · exact checkMods_spec 64 5506 fmtRows_5506 mod count (by omega) (by omega) hc hc'
  by_cases a7 : mod < 5634
  · exact checkMods_spec 64 5570 fmtRows_5570 mod count (by omega) (by omega) hc hc'
  by_cases a8 : mod < 5698
  · exact checkMods_spec 64 5634 fmtRows_5634 mod count (by omega) (by omega) hc hc'
  by_cases a9 : mod < 5762
  · exact checkMods_spec 64 5698 fmtRows_5698 mod count (by omega) (by omega) hc hc'
  by_cases a10 : mod < 5826
  · exact checkMods_spec 64 5762 fmtRows_5762 mod count (by omega) (by omega) hc hc'
  by_cases a11 : mod < 5890
  · exact checkMods_spec 64 5826 fmtRows_5826 mod count (by omega) (by omega) hc hc'
  by_cases a12 : mod < 5954
  · exact checkMods_spec 64 5890 fmtRows_5890 mod count (by omega) (by omega) hc hc'
  by_cases a13 : mod < 6018
  · exact checkMods_spec 64 5954 fmtRows_5954 mod count (by omega) (by omega) hc hc'
  by_cases a14 : mod < 6082
  · exact checkMods_spec 64 6018 fmtRows_6018 mod count (by omega) (by omega) hc hc'
  exact checkMods_spec 64 6082 fmtRows_6082 mod count (by omega) (by omega) hc hc'

end Bee2V.C01

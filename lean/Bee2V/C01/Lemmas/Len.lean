/-
C01 helper lemmas: output lengths of belt-hash / belt-mac / belt-HMAC of the model, with NO bound on the length
of the data (the length block is 16 octets whatever the count).
-/
import Bee2V.C01.Lemmas.SpecHash
namespace Bee2V.C01.LenL
open Bee2V.C01 Bee2V.C01.SpecHashL

theorem length_phi (r : Bytes) (hr : r.length = 16) : (Spec.phi1 r).length = 16 ∧ (Spec.phi2 r).length = 16 := by
  simp only [Spec.phi1, Spec.phi2, Spec.word32, List.length_append, length_xorb, List.length_take,
    List.length_drop, hr]
  omega

section len
variable (C : Cipher) (hlen : ∀ k x : Bytes, x.length = 16 → (C.enc k x).length = 16)
include hlen

/-- lengths after `beltCompr2` on well-formed buffers -/
theorem length_compr2 (s h X : Bytes) (hs : s.length = 16) (hh : h.length = 32) (hX : X.length = 32) :
    (compr2 C s h X).1.length = 16 ∧ (compr2 C s h X).2.length = 32 := by
  rw [compr2_eq C s h X hX hh]
  exact length_step C hlen s h X hs hh hX

theorem length_compr (h X : Bytes) (hh : h.length = 32) (hX : X.length = 32) : (compr C h X).length = 32 :=
  (length_compr2 C hlen (zeros 16) h X (length_zeros 16) hh hX).2

/-- the digest of the model is 32 octets for every 16-octet length block and every data -/
theorem length_spongeOut (L X : Bytes) (hL : L.length = 16) :
    (spongeOut C L (zeros 16) hInit X).length = 32 := by
  rw [hInit_eq, spongeOut_eq C hlen L X hL]
  have l := length_specFold C hlen X ((X.length + 31) / 32) (zeros 16, Spec.hashInit) (length_zeros 16)
    (by decide +kernel)
  apply length_sigma2 C hlen
  simp only [List.length_append, hL, Spec.hashChain]
  rw [← specFold, l.1, l.2]

theorem length_hashOut {L X : Bytes} {st : HashSt} (h : HashInv C L X st) :
    (hashStepGInternal C st).h1.length = 32 := by
  rw [hashInv_out h, hashOutSpec]
  exact length_spongeOut C hlen L X h.llen

/-- `K0` of the model is 32 octets for every key -/
theorem length_modelK0 (key : Bytes) : (modelK0 C key).length = 32 := by
  by_cases hk : key.length ≤ 32
  · exact length_modelK0_short C key hk
  · simp only [modelK0, hk, if_false]
    exact length_spongeOut C hlen _ _ (length_addBitSizeBlock' _ _ rfl)

theorem length_hmacStart_block' (key : Bytes) : (hmacStart C key).block.length = 32 := by
  rw [hmacStart_eq]
  simp only [List.length_map, length_modelK0 C hlen key]

/-- the outer digest is 32 octets whenever the state describes some data absorbed after a 32-octet first block
`B`, and the outer state is well formed -/
theorem length_hmacOut {L B lo ho X : Bytes} {st : HmacSt} (hB : B.length = 32) (hlo : lo.length = 32)
    (hho : ho.length = 32)
    (inv : HmacInv C L (compr2 C (zeros 16) hInit B).1 (compr2 C (zeros 16) hInit B).2 lo ho X st) :
    (hmacStepGInternal C st).h1_out.length = 32 := by
  rw [hmacInv_out inv, hmacOutSpec, spongeOut_prepend C L _ _ B X hB]
  have hin := length_spongeOut C hlen L (B ++ X) inv.inner.llen
  have l := length_compr2 C hlen (lo.drop 16) ho _ (by simp only [List.length_drop, hlo]) hho hin
  exact length_compr C hlen _ _ l.2 (by simp only [List.length_append, List.length_take, hlo, l.1]; omega)

/-- the invariant of the start state, every key length, no bound -/
theorem hmacInv_start' (key : Bytes) :
    HmacInv C (addBitSizeBlock (zeros 16) 32)
      (compr2 C (zeros 16) hInit ((modelK0 C key).map (· ^^^ 0x36))).1
      (compr2 C (zeros 16) hInit ((modelK0 C key).map (· ^^^ 0x36))).2
      (hmacStart C key).ls_out (hmacStart C key).h_out [] (hmacStart C key) := by
  have l16 : (addBitSizeBlock (zeros 16) 32).length = 16 := length_addBitSizeBlock' _ _ rfl
  have hl : 16 ≤ (hmacStart C key).ls_in.length := by
    show 16 ≤ (addBitSizeBlock (zeros 16) 32 ++ _).length
    rw [List.length_append, l16]; omega
  have ht : (hmacStart C key).ls_in.take 16 = addBitSizeBlock (zeros 16) 32 := by
    show (addBitSizeBlock (zeros 16) 32 ++ _).take 16 = _
    exact List.take_left' l16
  have hd : (hmacStart C key).ls_in.drop 16 =
      (compr2 C (zeros 16) hInit ((modelK0 C key).map (· ^^^ 0x36))).1 := by
    rw [hmacStart_eq]; exact List.drop_left' l16
  have hh : (hmacStart C key).h_in = (compr2 C (zeros 16) hInit ((modelK0 C key).map (· ^^^ 0x36))).2 := by
    rw [hmacStart_eq]
  have := hmacInv_init C (hmacStart C key) hl (length_hmacStart_block' C hlen key) rfl
  rwa [ht, hd, hh] at this

theorem length_hmacStart_out (key : Bytes) :
    (hmacStart C key).ls_out.length = 32 ∧ (hmacStart C key).h_out.length = 32 := by
  have hop : (((modelK0 C key).map (· ^^^ 0x36)).map (· ^^^ 0x6A)).length = 32 := by
    rw [List.length_map, List.length_map, length_modelK0 C hlen key]
  have l := length_compr2 C hlen (zeros 16) hInit _ (length_zeros 16) (by decide) hop
  rw [hmacStart_eq]
  exact ⟨by simp only [List.length_append, length_addBitSizeBlock' (zeros 16) 64 rfl, l.1], l.2⟩

/-- the outer digest after any fragmentation is 32 octets -/
theorem length_hmac_fold (key : Bytes) (cs : List Bytes) :
    (hmacStepGInternal C (cs.foldl (hmacStepA C) (hmacStart C key))).h1_out.length = 32 := by
  have inv := hmacInv_fold cs (hmacInv_start' C hlen key)
  have lo := length_hmacStart_out C hlen key
  exact length_hmacOut C hlen (by rw [List.length_map, length_modelK0 C hlen key]) lo.1 lo.2 inv

/-! #### belt-mac -/

theorem length_macFold (K X : Bytes) : ∀ m : Nat, 16 * m ≤ X.length →
    ((List.range m).foldl (fun s i => C.enc K (xorb s (Spec.blockAt 16 X i))) (zeros 16)).length = 16 := by
  intro m
  induction m with
  | zero => intro _; exact length_zeros 16
  | succ m ih =>
    intro hm
    rw [List.range_succ, List.foldl_append]
    apply hlen
    have hb : (Spec.blockAt 16 X m).length = 16 := by
      simp only [Spec.blockAt, List.length_take, List.length_drop]; omega
    rw [length_xorb, ih (by omega), hb, Nat.min_self]

/-- `E_K(s)` of belt-mac is one block -/
theorem length_macFull (K X : Bytes) : (Spec.macFull C.enc K X).length = 16 := by
  have hr := length_phi (C.enc K (zeros 16)) (hlen _ _ (length_zeros 16))
  have hf := length_macFold C hlen K X (Spec.macBlockCount X - 1)
    (by simp only [Spec.macBlockCount]; omega)
  have hx : (Spec.blockAt 16 X (Spec.macBlockCount X - 1)).length ≤ 16 := by
    simp only [Spec.blockAt, List.length_take]; omega
  unfold Spec.macFull
  apply hlen
  by_cases h16 : (Spec.blockAt 16 X (Spec.macBlockCount X - 1)).length = 16
  · simp only [h16, if_true, length_xorb, hf, hr.1, Nat.min_self]
  · simp only [h16, if_false, length_xorb, hf, hr.2, List.length_append, List.length_cons, List.length_nil,
      length_zeros]
    omega

end len

end Bee2V.C01.LenL

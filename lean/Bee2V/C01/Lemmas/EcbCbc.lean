/-
C01 helper lemmas for belt_ecb.c / belt_cbc.c: the step functions written over an arbitrary block map,
their shape on whole-block buffers and on buffers with a ragged tail (ciphertext stealing).
-/
import Bee2V.C01.Model.Modes
import Bee2V.C01.Lemmas.Lists
namespace Bee2V.C01

/-- every buffer of at least 16 octets whose length is not a multiple of 16 is
`whole blocks ++ last whole block ++ ragged tail` -/
theorem ragged_decomp (buf : Bytes) (h16 : 16 ≤ buf.length) (hr : buf.length % 16 ≠ 0) :
    ∃ pre last tail : Bytes, buf = pre ++ last ++ tail ∧ pre.length % 16 = 0 ∧ last.length = 16 ∧
      0 < tail.length ∧ tail.length < 16 := by
  refine ⟨buf.take (16 * (buf.length / 16 - 1)), (buf.drop (16 * (buf.length / 16 - 1))).take 16,
    (buf.drop (16 * (buf.length / 16 - 1))).drop 16, ?_, ?_, ?_, ?_, ?_⟩
  · rw [List.append_assoc, List.take_append_drop, List.take_append_drop]
  · simp only [List.length_take]; omega
  · simp only [List.length_take, List.length_drop]; omega
  · simp only [List.length_drop]; omega
  · simp only [List.length_drop]; omega

/-! ### ECB -/

/-- the loop of `beltECBStepE/D` on whole blocks: apply `f` blockwise -/
def mapB (f : Bytes → Bytes) (x : Bytes) : Bytes := (fullBlocks 16 (fun (_ : Unit) b => ((), f b)) () x).2.1

/-- `beltECBStepE` / `beltECBStepD` over an arbitrary block map -/
def ecbStep (f : Bytes → Bytes) (buf : Bytes) : Bytes :=
  let l := fullBlocks 16 (fun (_ : Unit) b => ((), f b)) () buf
  let p := l.2.1
  let r := l.2.2
  if r.length ≠ 0 then
    let sw := stealSwap (p.drop (p.length - 16)) r
    p.take (p.length - 16) ++ f sw.1 ++ sw.2
  else p

theorem ecbStepE_eq (C : Cipher) (key buf : Bytes) : ecbStepE C key buf = ecbStep (C.enc key) buf := rfl
theorem ecbStepD_eq (C : Cipher) (key buf : Bytes) : ecbStepD C key buf = ecbStep (C.dec key) buf := rfl

theorem mapB_nil (f : Bytes → Bytes) : mapB f [] = [] := by
  simp only [mapB, fullBlocks_nil]

theorem mapB_cons (f : Bytes → Bytes) (b rest : Bytes) (hb : b.length = 16) :
    mapB f (b ++ rest) = f b ++ mapB f rest := by
  simp only [mapB, fullBlocks_cons _ _ b rest hb]

theorem mapB_block (f : Bytes → Bytes) (b : Bytes) (hb : b.length = 16) : mapB f b = f b := by
  have := mapB_cons f b [] hb
  simpa [mapB_nil] using this

theorem mapB_append (f : Bytes → Bytes) (x y : Bytes) (hx : x.length % 16 = 0) :
    mapB f (x ++ y) = mapB f x ++ mapB f y := by
  simp only [mapB, fullBlocks_append _ _ x y hx]

/-- the loop leaves nothing when the buffer consists of whole blocks (any body, any state) -/
theorem fullBlocks_whole_rest {σ : Type} (body : σ → Bytes → σ × Bytes) :
    ∀ x : Bytes, x.length % 16 = 0 → ∀ s : σ, (fullBlocks 16 body s x).2.2 = [] := by
  intro x hx
  refine whole_induction (P := fun x => ∀ s : σ, (fullBlocks 16 body s x).2.2 = []) ?_ ?_ x hx
  · intro s; simp only [fullBlocks_nil]
  · intro b rest hb _ ih s
    simp only [fullBlocks_cons _ _ b rest hb, ih]

theorem length_mapB (f : Bytes → Bytes) (hlen : ∀ x, x.length = 16 → (f x).length = 16) :
    ∀ x : Bytes, x.length % 16 = 0 → (mapB f x).length = x.length := by
  intro x hx
  refine whole_induction (P := fun x => (mapB f x).length = x.length) ?_ ?_ x hx
  · simp [mapB_nil]
  · intro b rest hb _ ih
    simp only [mapB_cons f b rest hb, List.length_append, ih, hlen b hb, hb]

theorem mapB_mapB (f g : Bytes → Bytes) (hlen : ∀ x, x.length = 16 → (f x).length = 16)
    (hgf : ∀ x, x.length = 16 → g (f x) = x) :
    ∀ x : Bytes, x.length % 16 = 0 → mapB g (mapB f x) = x := by
  intro x hx
  refine whole_induction (P := fun x => mapB g (mapB f x) = x) ?_ ?_ x hx
  · simp [mapB_nil]
  · intro b rest hb _ ih
    rw [mapB_cons f b rest hb, mapB_cons g (f b) _ (hlen b hb), hgf b hb, ih]

theorem ecbStep_whole (f : Bytes → Bytes) (x : Bytes) (hx : x.length % 16 = 0) : ecbStep f x = mapB f x := by
  simp only [ecbStep, fullBlocks_whole_rest _ x hx, List.length_nil, ne_eq, not_true_eq_false, if_false, mapB]

/-- shape of the output on a buffer with a ragged tail -/
theorem ecbStep_ragged (f : Bytes → Bytes) (hlen : ∀ x, x.length = 16 → (f x).length = 16)
    (pre last tail : Bytes) (hpre : pre.length % 16 = 0) (hlast : last.length = 16)
    (ht0 : 0 < tail.length) (ht : tail.length < 16) :
    ecbStep f (pre ++ last ++ tail) =
      mapB f pre ++ f (tail ++ (f last).drop tail.length) ++ (f last).take tail.length := by
  have hfl := hlen last hlast
  have hl : fullBlocks 16 (fun (_ : Unit) b => ((), f b)) () (pre ++ last ++ tail)
      = ((), mapB f pre ++ f last, tail) := by
    rw [List.append_assoc, fullBlocks_append _ _ pre _ hpre, fullBlocks_cons _ _ last tail hlast,
      fullBlocks_short _ _ tail ht]
    simp only [mapB, List.append_nil]
  have hne : tail.length ≠ 0 := by omega
  simp only [ecbStep, hl, hne, ne_eq, not_false_eq_true, if_true, stealSwap, List.length_append, hfl,
    Nat.add_sub_cancel]
  rw [List.drop_left' rfl, List.take_left' rfl]

/-! ### CBC -/

/-- body of the loop of `beltCBCStepE` (state = `st->block`) -/
def cbcEB (f : Bytes → Bytes) : Bytes → Bytes → Bytes × Bytes :=
  fun blk b => (f (xorb blk b), f (xorb blk b))

/-- body of the loop of `beltCBCStepD` (state = `(st->block, st->block2)`) -/
def cbcDB (g : Bytes → Bytes) : Bytes × Bytes → Bytes → (Bytes × Bytes) × Bytes :=
  fun s b => ((b, b), xorb (g b) s.1)

/-- `beltCBCStepE` over an arbitrary block map: (new `st->block`, output) -/
def cbcE (f : Bytes → Bytes) (iv buf : Bytes) : Bytes × Bytes :=
  let l := fullBlocks 16 (cbcEB f) iv buf
  let p := l.2.1
  let r := l.2.2
  if r.length ≠ 0 then
    let sw := stealSwap (p.drop (p.length - 16)) r
    let last := xorPrefix sw.1 (l.1.take r.length)
    (l.1, p.take (p.length - 16) ++ f last ++ sw.2)
  else (l.1, p)

/-- `beltCBCStepD` over an arbitrary block map: (new `(st->block, st->block2)`, output) -/
def cbcD (g : Bytes → Bytes) (s : Bytes × Bytes) (buf : Bytes) : (Bytes × Bytes) × Bytes :=
  let l := blockLoop 16 (fun n => decide (32 ≤ n) || n == 16) (cbcDB g) buf.length s buf
  let p := l.2.1
  let r := l.2.2
  if r.length ≠ 0 then
    let b0 := g (r.take 16)
    let t := r.drop 16
    let b1 := t ++ b0.drop t.length
    let t1 := b0.take t.length
    let t2 := xorb t1 (b1.take t.length)
    let b2 := xorb (g b1) l.1.1
    (l.1, p ++ b2 ++ t2)
  else (l.1, p)

theorem cbcStepE_eq (C : Cipher) (st : CbcSt) (buf : Bytes) :
    cbcStepE C st buf =
      ({ st with block := (cbcE (C.enc st.key) st.block buf).1 }, (cbcE (C.enc st.key) st.block buf).2) := by
  have hb : (fun (blk : Bytes) (b : Bytes) => (C.enc st.key (xorb blk b), C.enc st.key (xorb blk b)))
      = cbcEB (C.enc st.key) := rfl
  simp only [cbcStepE, cbcE, hb]
  by_cases h : (fullBlocks 16 (cbcEB (C.enc st.key)) st.block buf).2.2.length ≠ 0
  · simp only [if_pos h]
  · simp only [if_neg h]

theorem cbcStepD_eq (C : Cipher) (st : CbcSt) (buf : Bytes) :
    cbcStepD C st buf =
      ({ st with block := (cbcD (C.dec st.key) (st.block, st.block2) buf).1.1,
                 block2 := (cbcD (C.dec st.key) (st.block, st.block2) buf).1.2 },
       (cbcD (C.dec st.key) (st.block, st.block2) buf).2) := by
  have hb : (fun (s : Bytes × Bytes) (b : Bytes) => ((b, b), xorb (C.dec st.key b) s.1))
      = cbcDB (C.dec st.key) := rfl
  simp only [cbcStepD, cbcD, hb]
  by_cases h : (blockLoop 16 (fun n => decide (32 ≤ n) || n == 16) (cbcDB (C.dec st.key)) buf.length
      (st.block, st.block2) buf).2.2.length ≠ 0
  · simp only [if_pos h]
  · simp only [if_neg h]

/-- the condition of the loop of `beltCBCStepD` implies that a whole block is left -/
theorem cbcD_cond (n : Nat) (h : (decide (32 ≤ n) || n == 16) = true) : 16 ≤ n := by
  simp at h; omega

/-- CBC on whole blocks: lengths, state, and decryption undoes encryption -/
theorem cbc_whole (f g : Bytes → Bytes) (hlen : ∀ x, x.length = 16 → (f x).length = 16)
    (hgf : ∀ x, x.length = 16 → g (f x) = x) :
    ∀ x : Bytes, x.length % 16 = 0 → ∀ iv s2 : Bytes, iv.length = 16 →
      (fullBlocks 16 (cbcEB f) iv x).2.1.length = x.length ∧
      (fullBlocks 16 (cbcEB f) iv x).1.length = 16 ∧
      (fullBlocks 16 (cbcDB g) (iv, s2) (fullBlocks 16 (cbcEB f) iv x).2.1).2.1 = x ∧
      (fullBlocks 16 (cbcDB g) (iv, s2) (fullBlocks 16 (cbcEB f) iv x).2.1).1.1
        = (fullBlocks 16 (cbcEB f) iv x).1 := by
  intro x hx
  refine whole_induction (P := fun x => ∀ iv s2 : Bytes, iv.length = 16 →
      (fullBlocks 16 (cbcEB f) iv x).2.1.length = x.length ∧
      (fullBlocks 16 (cbcEB f) iv x).1.length = 16 ∧
      (fullBlocks 16 (cbcDB g) (iv, s2) (fullBlocks 16 (cbcEB f) iv x).2.1).2.1 = x ∧
      (fullBlocks 16 (cbcDB g) (iv, s2) (fullBlocks 16 (cbcEB f) iv x).2.1).1.1
        = (fullBlocks 16 (cbcEB f) iv x).1) ?_ ?_ x hx
  · intro iv s2 hiv
    simp only [fullBlocks_nil, List.length_nil, hiv, and_self]
  · intro b rest hb _ ih iv s2 hiv
    have hx16 : (xorb iv b).length = 16 := by rw [length_xorb]; omega
    have hc : (f (xorb iv b)).length = 16 := hlen _ hx16
    obtain ⟨ih1, ih2, ih3, ih4⟩ := ih (f (xorb iv b)) (f (xorb iv b)) hc
    have hbody : cbcEB f iv b = (f (xorb iv b), f (xorb iv b)) := rfl
    rw [fullBlocks_cons _ iv b rest hb, hbody]
    simp only
    rw [fullBlocks_cons _ (iv, s2) (f (xorb iv b)) _ hc]
    have hbody2 : cbcDB g (iv, s2) (f (xorb iv b)) = ((f (xorb iv b), f (xorb iv b)), b) := by
      simp only [cbcDB, hgf _ hx16, xorb_xorb_cancel_left iv b (by omega)]
    rw [hbody2]
    simp only [List.length_append, hc, hb, ih1, ih2, ih3, ih4, and_self]

end Bee2V.C01

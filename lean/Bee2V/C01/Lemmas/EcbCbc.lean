/-
C01 helper lemmas for belt_ecb.c / belt_cbc.c: the step functions written over an arbitrary block map,
their shape on whole-block buffers and on buffers with a ragged tail (ciphertext stealing).
-/
import Bee2V.C01.Model.Modes
import Bee2V.C01.Lemmas.Lists
namespace Bee2V.C01

/-- every buffer of at least 16 octets whose length is not a multiple of 16 is
`whole blocks ++ last whole block ++ ragged tail` -/
theorem ragged_decomp (buf : Bytes) (h16 : 16 ≤ buf.length) (hr : buf.length % 16 ≠ 0) :
    ∃ pre last tail : Bytes, buf = pre ++ last ++ tail ∧ pre.length % 16 = 0 ∧ last.length = 16 ∧
      0 < tail.length ∧ tail.length < 16 := by
  refine ⟨buf.take (16 * (buf.length / 16 - 1)), (buf.drop (16 * (buf.length / 16 - 1))).take 16,
    (buf.drop (16 * (buf.length / 16 - 1))).drop 16, ?_, ?_, ?_, ?_, ?_⟩
  · rw [List.append_assoc, List.take_append_drop, List.take_append_drop]
  · simp only [List.length_take]; omega
  · simp only [List.length_take, List.length_drop]; omega
  · simp only [List.length_drop]; omega
  · simp only [List.length_drop]; omega

/-! ### ECB -/

/-- the loop of `beltECBStepE/D` on whole blocks: apply `f` blockwise -/
def mapB (f : Bytes → Bytes) (x : Bytes) : Bytes := (fullBlocks 16 (fun (_ : Unit) b => ((), f b)) () x).2.1

/-- `beltECBStepE` / `beltECBStepD` over an arbitrary block map -/
def ecbStep (f : Bytes → Bytes) (buf : Bytes) : Bytes :=
  let l := fullBlocks 16 (fun (_ : Unit) b => ((), f b)) () buf
  let p := l.2.1
  let r := l.2.2
  if r.length ≠ 0 then
    let sw := stealSwap (p.drop (p.length - 16)) r
    p.take (p.length - 16) ++ f sw.1 ++ sw.2
  else p

theorem ecbStepE_eq (C : Cipher) (key buf : Bytes) : ecbStepE C key buf = ecbStep (C.enc key) buf := rfl
theorem ecbStepD_eq (C : Cipher) (key buf : Bytes) : ecbStepD C key buf = ecbStep (C.dec key) buf := rfl

theorem mapB_nil (f : Bytes → Bytes) : mapB f [] = [] := by
  simp only [mapB, fullBlocks_nil]

theorem mapB_cons (f : Bytes → Bytes) (b rest : Bytes) (hb : b.length = 16) :
    mapB f (b ++ rest) = f b ++ mapB f rest := by
  simp only [mapB, fullBlocks_cons _ _ b rest hb]

theorem mapB_block (f : Bytes → Bytes) (b : Bytes) (hb : b.length = 16) : mapB f b = f b := by
  have := mapB_cons f b [] hb
  simpa [mapB_nil] using this

theorem mapB_append (f : Bytes → Bytes) (x y : Bytes) (hx : x.length % 16 = 0) :
    mapB f (x ++ y) = mapB f x ++ mapB f y := by
  simp only [mapB, fullBlocks_append _ _ x y hx]

/-- the loop leaves nothing when the buffer consists of whole blocks (any body, any state) -/
theorem fullBlocks_whole_rest {σ : Type} (body : σ → Bytes → σ × Bytes) :
    ∀ x : Bytes, x.length % 16 = 0 → ∀ s : σ, (fullBlocks 16 body s x).2.2 = [] := by
  intro x hx
  refine whole_induction (P := fun x => ∀ s : σ, (fullBlocks 16 body s x).2.2 = []) ?_ ?_ x hx
  · intro s; simp only [fullBlocks_nil]
  · intro b rest hb _ ih s
    simp only [fullBlocks_cons _ _ b rest hb, ih]

theorem length_mapB (f : Bytes → Bytes) (hlen : ∀ x, x.length = 16 → (f x).length = 16) :
    ∀ x : Bytes, x.length % 16 = 0 → (mapB f x).length = x.length := by
  intro x hx
  refine whole_induction (P := fun x => (mapB f x).length = x.length) ?_ ?_ x hx
  · simp [mapB_nil]
  · intro b rest hb _ ih
    simp only [mapB_cons f b rest hb, List.length_append, ih, hlen b hb, hb]

theorem mapB_mapB (f g : Bytes → Bytes) (hlen : ∀ x, x.length = 16 → (f x).length = 16)
    (hgf : ∀ x, x.length = 16 → g (f x) = x) :
    ∀ x : Bytes, x.length % 16 = 0 → mapB g (mapB f x) = x := by
  intro x hx
  refine whole_induction (P := fun x => mapB g (mapB f x) = x) ?_ ?_ x hx
  · simp [mapB_nil]
  · intro b rest hb _ ih
    rw [mapB_cons f b rest hb, mapB_cons g (f b) _ (hlen b hb), hgf b hb, ih]

theorem ecbStep_whole (f : Bytes → Bytes) (x : Bytes) (hx : x.length % 16 = 0) : ecbStep f x = mapB f x := by
  simp only [ecbStep, fullBlocks_whole_rest _ x hx, List.length_nil, ne_eq, not_true_eq_false, if_false, mapB]

/-- shape of the output on a buffer with a ragged tail -/
theorem ecbStep_ragged (f : Bytes → Bytes) (hlen : ∀ x, x.length = 16 → (f x).length = 16)
    (pre last tail : Bytes) (hpre : pre.length % 16 = 0) (hlast : last.length = 16)
    (ht0 : 0 < tail.length) (ht : tail.length < 16) :
    ecbStep f (pre ++ last ++ tail) =
      mapB f pre ++ f (tail ++ (f last).drop tail.length) ++ (f last).take tail.length := by
  have hfl := hlen last hlast
  have hl : fullBlocks 16 (fun (_ : Unit) b => ((), f b)) () (pre ++ last ++ tail)
      = ((), mapB f pre ++ f last, tail) := by
    rw [List.append_assoc, fullBlocks_append _ _ pre _ hpre, fullBlocks_cons _ _ last tail hlast,
      fullBlocks_short _ _ tail ht]
    simp only [mapB, List.append_nil]
  have hne : tail.length ≠ 0 := by omega
  simp only [ecbStep, hl, hne, ne_eq, not_false_eq_true, if_true, stealSwap, List.length_append, hfl,
    Nat.add_sub_cancel]
  rw [List.drop_left' rfl, List.take_left' rfl]

/-! ### CBC -/

/-- body of the loop of `beltCBCStepE` (state = `st->block`) -/
def cbcEB (f : Bytes → Bytes) : Bytes → Bytes → Bytes × Bytes :=
  fun blk b => (f (xorb blk b), f (xorb blk b))

/-- body of the loop of `beltCBCStepD` (state = `(st->block, st->block2)`) -/
def cbcDB (g : Bytes → Bytes) : Bytes × Bytes → Bytes → (Bytes × Bytes) × Bytes :=
  fun s b => ((b, b), xorb (g b) s.1)

/-- `beltCBCStepE` over an arbitrary block map: (new `st->block`, output) -/
def cbcE (f : Bytes → Bytes) (iv buf : Bytes) : Bytes × Bytes :=
  let l := fullBlocks 16 (cbcEB f) iv buf
  let p := l.2.1
  let r := l.2.2
  if r.length ≠ 0 then
    let sw := stealSwap (p.drop (p.length - 16)) r
    let last := xorPrefix sw.1 (l.1.take r.length)
    (l.1, p.take (p.length - 16) ++ f last ++ sw.2)
  else (l.1, p)

/-- `beltCBCStepD` over an arbitrary block map: (new `(st->block, st->block2)`, output) -/
def cbcD (g : Bytes → Bytes) (s : Bytes × Bytes) (buf : Bytes) : (Bytes × Bytes) × Bytes :=
  let l := blockLoop 16 (fun n => decide (32 ≤ n) || n == 16) (cbcDB g) buf.length s buf
  let p := l.2.1
  let r := l.2.2
  if r.length ≠ 0 then
    let b0 := g (r.take 16)
    let t := r.drop 16
    let b1 := t ++ b0.drop t.length
    let t1 := b0.take t.length
    let t2 := xorb t1 (b1.take t.length)
    let b2 := xorb (g b1) l.1.1
    (l.1, p ++ b2 ++ t2)
  else (l.1, p)

theorem cbcStepE_eq (C : Cipher) (st : CbcSt) (buf : Bytes) :
    cbcStepE C st buf =
      ({ st with block := (cbcE (C.enc st.key) st.block buf).1 }, (cbcE (C.enc st.key) st.block buf).2) := by
  have hb : (fun (blk : Bytes) (b : Bytes) => (C.enc st.key (xorb blk b), C.enc st.key (xorb blk b)))
      = cbcEB (C.enc st.key) := rfl
  simp only [cbcStepE, cbcE, hb]
  by_cases h : (fullBlocks 16 (cbcEB (C.enc st.key)) st.block buf).2.2.length ≠ 0
  · simp only [if_pos h]
  · simp only [if_neg h]

theorem cbcStepD_eq (C : Cipher) (st : CbcSt) (buf : Bytes) :
    cbcStepD C st buf =
      ({ st with block := (cbcD (C.dec st.key) (st.block, st.block2) buf).1.1,
                 block2 := (cbcD (C.dec st.key) (st.block, st.block2) buf).1.2 },
       (cbcD (C.dec st.key) (st.block, st.block2) buf).2) := by
  have hb : (fun (s : Bytes × Bytes) (b : Bytes) => ((b, b), xorb (C.dec st.key b) s.1))
      = cbcDB (C.dec st.key) := rfl
  simp only [cbcStepD, cbcD, hb]
  by_cases h : (blockLoop 16 (fun n => decide (32 ≤ n) || n == 16) (cbcDB (C.dec st.key)) buf.length
      (st.block, st.block2) buf).2.2.length ≠ 0
  · simp only [if_pos h]
  · simp only [if_neg h]

/-- the condition of the loop of `beltCBCStepD` implies that a whole block is left -/
theorem cbcD_cond (n : Nat) (h : (decide (32 ≤ n) || n == 16) = true) : 16 ≤ n := by
  simp at h; omega

theorem cbcD_cond_stop (k : Nat) (h0 : 0 < k) (h : k < 16) :
    (decide (32 ≤ 16 + k) || 16 + k == 16) = false := by
  simp; omega

/-- CBC on whole blocks: lengths, state, and decryption undoes encryption -/
theorem cbc_whole (f g : Bytes → Bytes) (hlen : ∀ x, x.length = 16 → (f x).length = 16)
    (hgf : ∀ x, x.length = 16 → g (f x) = x) :
    ∀ x : Bytes, x.length % 16 = 0 → ∀ iv s2 : Bytes, iv.length = 16 →
      (fullBlocks 16 (cbcEB f) iv x).2.1.length = x.length ∧
      (fullBlocks 16 (cbcEB f) iv x).1.length = 16 ∧
      (fullBlocks 16 (cbcDB g) (iv, s2) (fullBlocks 16 (cbcEB f) iv x).2.1).2.1 = x ∧
      (fullBlocks 16 (cbcDB g) (iv, s2) (fullBlocks 16 (cbcEB f) iv x).2.1).1.1
        = (fullBlocks 16 (cbcEB f) iv x).1 := by
  intro x hx
  refine whole_induction (P := fun x => ∀ iv s2 : Bytes, iv.length = 16 →
      (fullBlocks 16 (cbcEB f) iv x).2.1.length = x.length ∧
      (fullBlocks 16 (cbcEB f) iv x).1.length = 16 ∧
      (fullBlocks 16 (cbcDB g) (iv, s2) (fullBlocks 16 (cbcEB f) iv x).2.1).2.1 = x ∧
      (fullBlocks 16 (cbcDB g) (iv, s2) (fullBlocks 16 (cbcEB f) iv x).2.1).1.1
        = (fullBlocks 16 (cbcEB f) iv x).1) ?_ ?_ x hx
  · intro iv s2 hiv
    simp only [fullBlocks_nil, List.length_nil, hiv, and_self]
  · intro b rest hb _ ih iv s2 hiv
    have hx16 : (xorb iv b).length = 16 := by rw [length_xorb]; omega
    have hc : (f (xorb iv b)).length = 16 := hlen _ hx16
    obtain ⟨ih1, ih2, ih3, ih4⟩ := ih (f (xorb iv b)) (f (xorb iv b)) hc
    have hbody : cbcEB f iv b = (f (xorb iv b), f (xorb iv b)) := rfl
    rw [fullBlocks_cons _ iv b rest hb, hbody]
    simp only
    rw [fullBlocks_cons _ (iv, s2) (f (xorb iv b)) _ hc]
    have hbody2 : cbcDB g (iv, s2) (f (xorb iv b)) = ((f (xorb iv b), f (xorb iv b)), b) := by
      simp only [cbcDB, hgf _ hx16, xorb_xorb_cancel_left iv b (by omega)]
    rw [hbody2]
    simp only [List.length_append, hc, hb, ih1, ih2, ih3, ih4, and_self]

/-! ### ECB: lengths and inversion -/

theorem length_ecbStep (f : Bytes → Bytes) (hlen : ∀ x, x.length = 16 → (f x).length = 16)
    (buf : Bytes) (h16 : 16 ≤ buf.length) : (ecbStep f buf).length = buf.length := by
  by_cases hr : buf.length % 16 = 0
  · rw [ecbStep_whole f buf hr, length_mapB f hlen buf hr]
  · obtain ⟨pre, last, tail, rfl, hpre, hlast, ht0, ht⟩ := ragged_decomp buf h16 hr
    rw [ecbStep_ragged f hlen pre last tail hpre hlast ht0 ht]
    have hfl := hlen last hlast
    have h2 : (tail ++ (f last).drop tail.length).length = 16 := by
      simp only [List.length_append, List.length_drop]; omega
    simp only [List.length_append, length_mapB f hlen pre hpre, hlen _ h2, List.length_take, hlast]
    omega

theorem ecbStep_ecbStep (f g : Bytes → Bytes) (hlenf : ∀ x, x.length = 16 → (f x).length = 16)
    (hleng : ∀ x, x.length = 16 → (g x).length = 16) (hgf : ∀ x, x.length = 16 → g (f x) = x)
    (buf : Bytes) (h16 : 16 ≤ buf.length) : ecbStep g (ecbStep f buf) = buf := by
  by_cases hr : buf.length % 16 = 0
  · rw [ecbStep_whole f buf hr, ecbStep_whole g _ (by rw [length_mapB f hlenf buf hr]; exact hr),
      mapB_mapB f g hlenf hgf buf hr]
  · obtain ⟨pre, last, tail, rfl, hpre, hlast, ht0, ht⟩ := ragged_decomp buf h16 hr
    rw [ecbStep_ragged f hlenf pre last tail hpre hlast ht0 ht]
    have hfl := hlenf last hlast
    have h2 : (tail ++ (f last).drop tail.length).length = 16 := by
      simp only [List.length_append, List.length_drop]; omega
    have h3 : ((f last).take tail.length).length = tail.length := by
      simp only [List.length_take]; omega
    rw [ecbStep_ragged g hleng (mapB f pre) _ _ (by rw [length_mapB f hlenf pre hpre]; exact hpre)
      (hlenf _ h2) (by omega) (by omega)]
    rw [h3, hgf _ h2, List.drop_left' rfl, List.take_left' rfl, List.take_append_drop, hgf last hlast,
      mapB_mapB f g hlenf hgf pre hpre]

/-! ### CBC: shapes, lengths and inversion -/

theorem cbcE_whole (f : Bytes → Bytes) (iv x : Bytes) (hx : x.length % 16 = 0) :
    cbcE f iv x = ((fullBlocks 16 (cbcEB f) iv x).1, (fullBlocks 16 (cbcEB f) iv x).2.1) := by
  simp only [cbcE, fullBlocks_whole_rest _ x hx, List.length_nil, ne_eq, not_true_eq_false, if_false]

/-- shape of `beltCBCStepE` on a buffer with a ragged tail: with `s1` the chaining block after `pre` and
`c = E(s1 ^ last)`, the output is `E-CBC(pre) ++ E((tail ^ c[0..k)) ++ c[k..16)) ++ c[0..k)`. -/
theorem cbcE_ragged (f : Bytes → Bytes) (iv pre last tail c : Bytes)
    (hpre : pre.length % 16 = 0) (hlast : last.length = 16) (ht0 : 0 < tail.length) (ht : tail.length < 16)
    (hc : c = f (xorb (fullBlocks 16 (cbcEB f) iv pre).1 last)) (hcl : c.length = 16) :
    cbcE f iv (pre ++ last ++ tail) =
      (c, (fullBlocks 16 (cbcEB f) iv pre).2.1
            ++ f (xorb tail (c.take tail.length) ++ c.drop tail.length) ++ c.take tail.length) := by
  have hl : fullBlocks 16 (cbcEB f) iv (pre ++ last ++ tail)
      = (c, (fullBlocks 16 (cbcEB f) iv pre).2.1 ++ c, tail) := by
    rw [List.append_assoc, fullBlocks_append _ _ pre _ hpre, fullBlocks_cons _ _ last tail hlast]
    have hbody : cbcEB f (fullBlocks 16 (cbcEB f) iv pre).1 last = (c, c) := by rw [hc]; rfl
    rw [hbody]
    simp only [fullBlocks_short _ _ tail ht, List.append_nil]
  have hne : tail.length ≠ 0 := by omega
  have htk : (c.take tail.length).length = tail.length := by simp only [List.length_take]; omega
  simp only [cbcE, hl, hne, ne_eq, not_false_eq_true, if_true, stealSwap, xorPrefix, List.length_append, hcl,
    Nat.add_sub_cancel, htk]
  rw [List.drop_left' rfl, List.take_left' rfl, xorb_append_left _ _ _ htk, List.drop_left' rfl]

theorem cbcD_whole (g : Bytes → Bytes) (s : Bytes × Bytes) (cx : Bytes) (hcx : cx.length % 16 = 0) :
    cbcD g s cx = ((fullBlocks 16 (cbcDB g) s cx).1, (fullBlocks 16 (cbcDB g) s cx).2.1) := by
  have hl := blockLoop_append (fun n => decide (32 ≤ n) || n == 16) (cbcDB g) cbcD_cond []
    (by intro m h1 h2; simp; omega) cx hcx s cx.length (by simp)
  simp only [List.append_nil, List.length_nil, blockLoop] at hl
  simp only [cbcD, hl, List.length_nil, ne_eq, not_true_eq_false, if_false]

/-- shape of `beltCBCStepD` on `whole blocks ++ one block ++ ragged tail`: the loop stops before `y`. -/
theorem cbcD_ragged (g : Bytes → Bytes) (s : Bytes × Bytes) (cx y t : Bytes)
    (hcx : cx.length % 16 = 0) (hy : y.length = 16) (ht0 : 0 < t.length) (ht : t.length < 16) :
    cbcD g s (cx ++ y ++ t) =
      ((fullBlocks 16 (cbcDB g) s cx).1,
       (fullBlocks 16 (cbcDB g) s cx).2.1
         ++ xorb (g (t ++ (g y).drop t.length)) (fullBlocks 16 (cbcDB g) s cx).1.1
         ++ xorb ((g y).take t.length) ((t ++ (g y).drop t.length).take t.length)) := by
  have hl := blockLoop_append (fun n => decide (32 ≤ n) || n == 16) (cbcDB g) cbcD_cond (y ++ t)
    (by intro m h1 h2; simp [hy]; omega) cx hcx s (cx ++ y ++ t).length (by simp)
  have hstop : blockLoop 16 (fun n => decide (32 ≤ n) || n == 16) (cbcDB g) (y ++ t).length
      (fullBlocks 16 (cbcDB g) s cx).1 (y ++ t) = ((fullBlocks 16 (cbcDB g) s cx).1, [], y ++ t) :=
    blockLoop_stop _ _ _ _ _ _ (by rw [List.length_append, hy]; exact cbcD_cond_stop _ ht0 ht)
  rw [hstop, ← List.append_assoc] at hl
  have hne : (y ++ t).length ≠ 0 := by rw [List.length_append, hy]; omega
  simp only [cbcD, hl, hne, ne_eq, not_false_eq_true, if_true, List.append_nil]
  rw [List.take_left' hy, List.drop_left' hy]

theorem cbcE_loop_len (f : Bytes → Bytes) (hlen : ∀ x, x.length = 16 → (f x).length = 16) :
    ∀ x : Bytes, x.length % 16 = 0 → ∀ iv : Bytes, iv.length = 16 →
      (fullBlocks 16 (cbcEB f) iv x).2.1.length = x.length ∧ (fullBlocks 16 (cbcEB f) iv x).1.length = 16 := by
  intro x hx
  refine whole_induction (P := fun x => ∀ iv : Bytes, iv.length = 16 →
      (fullBlocks 16 (cbcEB f) iv x).2.1.length = x.length ∧ (fullBlocks 16 (cbcEB f) iv x).1.length = 16)
    ?_ ?_ x hx
  · intro iv hiv
    simp only [fullBlocks_nil, List.length_nil, hiv, and_self]
  · intro b rest hb _ ih iv hiv
    have hx16 : (xorb iv b).length = 16 := by rw [length_xorb]; omega
    have hc : (f (xorb iv b)).length = 16 := hlen _ hx16
    obtain ⟨ih1, ih2⟩ := ih (f (xorb iv b)) hc
    have hbody : cbcEB f iv b = (f (xorb iv b), f (xorb iv b)) := rfl
    rw [fullBlocks_cons _ iv b rest hb, hbody]
    simp only [List.length_append, hc, hb, ih1, ih2, and_self]

theorem length_cbcE (f : Bytes → Bytes) (hlen : ∀ x, x.length = 16 → (f x).length = 16)
    (iv buf : Bytes) (hiv : iv.length = 16) (h16 : 16 ≤ buf.length) : (cbcE f iv buf).2.length = buf.length := by
  by_cases hr : buf.length % 16 = 0
  · rw [cbcE_whole f iv buf hr]
    exact (cbcE_loop_len f hlen buf hr iv hiv).1
  · obtain ⟨pre, last, tail, rfl, hpre, hlast, ht0, ht⟩ := ragged_decomp buf h16 hr
    obtain ⟨h1, h2⟩ := cbcE_loop_len f hlen pre hpre iv hiv
    have hx16 : (xorb (fullBlocks 16 (cbcEB f) iv pre).1 last).length = 16 := by rw [length_xorb]; omega
    have hcl := hlen _ hx16
    rw [cbcE_ragged f iv pre last tail _ hpre hlast ht0 ht rfl hcl]
    generalize f (xorb (fullBlocks 16 (cbcEB f) iv pre).1 last) = c at hcl
    have h3 : (xorb tail (c.take tail.length) ++ c.drop tail.length).length = 16 := by
      simp only [List.length_append, length_xorb, List.length_take, List.length_drop]; omega
    simp only [List.length_append, h1, hlen _ h3, List.length_take, hlast]
    omega

/-- `beltCBCStepD` undoes `beltCBCStepE` (same chaining block at the start), every admissible length -/
theorem cbcD_cbcE (f g : Bytes → Bytes) (hlen : ∀ x, x.length = 16 → (f x).length = 16)
    (hgf : ∀ x, x.length = 16 → g (f x) = x) (iv s2 buf : Bytes) (hiv : iv.length = 16)
    (h16 : 16 ≤ buf.length) : (cbcD g (iv, s2) (cbcE f iv buf).2).2 = buf := by
  by_cases hr : buf.length % 16 = 0
  · obtain ⟨h1, h2, h3, h4⟩ := cbc_whole f g hlen hgf buf hr iv s2 hiv
    rw [cbcE_whole f iv buf hr]
    simp only
    rw [cbcD_whole g _ _ (by rw [h1]; exact hr)]
    exact h3
  · obtain ⟨pre, last, tail, rfl, hpre, hlast, ht0, ht⟩ := ragged_decomp buf h16 hr
    obtain ⟨h1, h2, h3, h4⟩ := cbc_whole f g hlen hgf pre hpre iv s2 hiv
    have hx16 : (xorb (fullBlocks 16 (cbcEB f) iv pre).1 last).length = 16 := by rw [length_xorb]; omega
    have hcl := hlen _ hx16
    have hgc := hgf _ hx16
    rw [cbcE_ragged f iv pre last tail _ hpre hlast ht0 ht rfl hcl]
    generalize f (xorb (fullBlocks 16 (cbcEB f) iv pre).1 last) = c at hcl hgc
    have htk : (c.take tail.length).length = tail.length := by simp only [List.length_take]; omega
    have hxk : (xorb tail (c.take tail.length)).length = tail.length := by rw [length_xorb]; omega
    have h5 : (xorb tail (c.take tail.length) ++ c.drop tail.length).length = 16 := by
      simp only [List.length_append, hxk, List.length_drop]; omega
    simp only
    rw [cbcD_ragged g (iv, s2) _ _ _ (by rw [h1]; exact hpre) (hlen _ h5) (by omega) (by omega)]
    simp only [htk, hgf _ h5, h3, h4]
    rw [List.drop_left' hxk, List.take_left' hxk, List.take_append_drop, hgc,
      xorb_xorb_cancel _ _ (by omega), xorb_xorb_cancel_left _ _ (by omega)]

/-! ### spec-level characterisations on whole blocks -/

theorem chunks16_nil : chunks16 [] = [] := by
  rw [chunks16]; simp

theorem chunks16_block (b : Bytes) (hb : b.length = 16) : chunks16 b = [b] := by
  rw [chunks16]
  have hne : b.isEmpty = false := by cases b with
    | nil => simp at hb
    | cons _ _ => rfl
  simp [hb, hne]

theorem chunks16_cons (b rest : Bytes) (hb : b.length = 16) (hr : rest ≠ []) :
    chunks16 (b ++ rest) = b :: chunks16 rest := by
  rw [chunks16]
  have hpos : 0 < rest.length := List.length_pos_iff.mpr hr
  have hn : ¬ (b ++ rest).length ≤ 16 := by simp only [List.length_append]; omega
  rw [dif_neg hn, List.take_left' hb, List.drop_left' hb]

/-- on whole blocks the ECB loop is `flatMap` over the 16-octet chunks -/
theorem mapB_eq_flatMap (f : Bytes → Bytes) :
    ∀ x : Bytes, x.length % 16 = 0 → mapB f x = (chunks16 x).flatMap f := by
  intro x hx
  refine whole_induction (P := fun x => mapB f x = (chunks16 x).flatMap f) ?_ ?_ x hx
  · simp [mapB_nil, chunks16_nil]
  · intro b rest hb _ ih
    by_cases hr : rest = []
    · subst hr
      simp [mapB_block f b hb, chunks16_block b hb]
    · rw [mapB_cons f b rest hb, chunks16_cons b rest hb hr, ih]
      simp

/-- the CBC chaining equation `c_i = f(c_{i-1} ^ p_i)`, `c_0 = prev` -/
def cbcChain (f : Bytes → Bytes) : Bytes → List Bytes → List Bytes
  | _, [] => []
  | prev, p :: ps => f (xorb prev p) :: cbcChain f (f (xorb prev p)) ps

theorem cbcE_loop_eq_chain (f : Bytes → Bytes) :
    ∀ x : Bytes, x.length % 16 = 0 → ∀ iv : Bytes,
      (fullBlocks 16 (cbcEB f) iv x).2.1 = (cbcChain f iv (chunks16 x)).flatten := by
  intro x hx
  refine whole_induction (P := fun x => ∀ iv : Bytes,
      (fullBlocks 16 (cbcEB f) iv x).2.1 = (cbcChain f iv (chunks16 x)).flatten) ?_ ?_ x hx
  · intro iv; simp [fullBlocks_nil, chunks16_nil, cbcChain]
  · intro b rest hb _ ih iv
    have hbody : cbcEB f iv b = (f (xorb iv b), f (xorb iv b)) := rfl
    rw [fullBlocks_cons _ iv b rest hb, hbody]
    by_cases hr : rest = []
    · subst hr
      simp [fullBlocks_nil, chunks16_block b hb, cbcChain]
    · simp only [chunks16_cons b rest hb hr, cbcChain, List.flatten_cons, ih]

/-! ### a toy cipher for non-vacuity examples -/

/-- add 1 to / subtract 1 from every octet (the key is ignored) -/
def toyCipher : Cipher := ⟨fun _ x => x.map (· + 1), fun _ x => x.map (· - 1)⟩

theorem toy_len_enc (k x : Bytes) : (toyCipher.enc k x).length = x.length := by simp [toyCipher]
theorem toy_len_dec (k x : Bytes) : (toyCipher.dec k x).length = x.length := by simp [toyCipher]
theorem toy_dec_enc (k x : Bytes) : toyCipher.dec k (toyCipher.enc k x) = x := by
  simp only [toyCipher, List.map_map]
  have : ((fun (a : UInt8) => a - 1) ∘ fun a => a + 1) = id := by funext a; simp only [Function.comp]; grind
  rw [this, List.map_id]
theorem toy_enc_dec (k x : Bytes) : toyCipher.enc k (toyCipher.dec k x) = x := by
  simp only [toyCipher, List.map_map]
  have : ((fun (a : UInt8) => a + 1) ∘ fun a => a - 1) = id := by funext a; simp only [Function.comp]; grind
  rw [this, List.map_id]

/-! ### the argument check of the high-level functions -/

theorem badCond_iff (n len : Nat) :
    (decide (n < 16) || !validKeyLen len) = true ↔ (n < 16 ∨ ¬ (len = 16 ∨ len = 24 ∨ len = 32)) := by
  simp [validKeyLen, and_assoc]

/-! ### CBC: encryption undoes decryption -/

theorem xorb_cancel_mid (a b : Bytes) (h : b.length = a.length) : xorb a (xorb b a) = b := by
  rw [xorb_comm a, xorb_xorb_cancel b a (by omega)]

theorem cbc_whole' (f g : Bytes → Bytes) (hlen : ∀ x, x.length = 16 → (g x).length = 16)
    (hfg : ∀ x, x.length = 16 → f (g x) = x) :
    ∀ cx : Bytes, cx.length % 16 = 0 → ∀ iv s2 : Bytes, iv.length = 16 →
      (fullBlocks 16 (cbcDB g) (iv, s2) cx).2.1.length = cx.length ∧
      (fullBlocks 16 (cbcDB g) (iv, s2) cx).1.1.length = 16 ∧
      (fullBlocks 16 (cbcEB f) iv (fullBlocks 16 (cbcDB g) (iv, s2) cx).2.1).2.1 = cx ∧
      (fullBlocks 16 (cbcEB f) iv (fullBlocks 16 (cbcDB g) (iv, s2) cx).2.1).1
        = (fullBlocks 16 (cbcDB g) (iv, s2) cx).1.1 := by
  intro cx hcx
  refine whole_induction (P := fun cx => ∀ iv s2 : Bytes, iv.length = 16 →
      (fullBlocks 16 (cbcDB g) (iv, s2) cx).2.1.length = cx.length ∧
      (fullBlocks 16 (cbcDB g) (iv, s2) cx).1.1.length = 16 ∧
      (fullBlocks 16 (cbcEB f) iv (fullBlocks 16 (cbcDB g) (iv, s2) cx).2.1).2.1 = cx ∧
      (fullBlocks 16 (cbcEB f) iv (fullBlocks 16 (cbcDB g) (iv, s2) cx).2.1).1
        = (fullBlocks 16 (cbcDB g) (iv, s2) cx).1.1) ?_ ?_ cx hcx
  · intro iv s2 hiv
    simp only [fullBlocks_nil, List.length_nil, hiv, and_self]
  · intro b rest hb _ ih iv s2 hiv
    have hg := hlen b hb
    have hp : (xorb (g b) iv).length = 16 := by rw [length_xorb]; omega
    obtain ⟨ih1, ih2, ih3, ih4⟩ := ih b b hb
    have hbody : cbcDB g (iv, s2) b = ((b, b), xorb (g b) iv) := rfl
    rw [fullBlocks_cons _ (iv, s2) b rest hb, hbody]
    simp only
    rw [fullBlocks_cons _ iv (xorb (g b) iv) _ hp]
    have hbody2 : cbcEB f iv (xorb (g b) iv) = (b, b) := by
      simp only [cbcEB, xorb_cancel_mid iv (g b) (by omega), hfg b hb]
    rw [hbody2]
    simp only [List.length_append, hp, hb, ih1, ih2, ih3, ih4, and_self]

/-- `beltCBCStepE` undoes `beltCBCStepD` (same chaining block at the start), every admissible length -/
theorem cbcE_cbcD (f g : Bytes → Bytes) (hlen : ∀ x, x.length = 16 → (g x).length = 16)
    (hfg : ∀ x, x.length = 16 → f (g x) = x) (iv s2 buf : Bytes) (hiv : iv.length = 16)
    (h16 : 16 ≤ buf.length) : (cbcE f iv (cbcD g (iv, s2) buf).2).2 = buf := by
  by_cases hr : buf.length % 16 = 0
  · obtain ⟨h1, h2, h3, h4⟩ := cbc_whole' f g hlen hfg buf hr iv s2 hiv
    rw [cbcD_whole g _ buf hr]
    simp only
    rw [cbcE_whole f iv _ (by rw [h1]; exact hr)]
    exact h3
  · obtain ⟨cx, y, t, rfl, hcx, hy, ht0, ht⟩ := ragged_decomp buf h16 hr
    obtain ⟨h1, h2, h3, h4⟩ := cbc_whole' f g hlen hfg cx hcx iv s2 hiv
    have hgy := hlen y hy
    have hb1 : (t ++ (g y).drop t.length).length = 16 := by
      simp only [List.length_append, List.length_drop]; omega
    have hgb1 := hlen _ hb1
    have hb2 : (xorb (g (t ++ (g y).drop t.length)) (fullBlocks 16 (cbcDB g) (iv, s2) cx).1.1).length = 16 := by
      rw [length_xorb]; omega
    have htk : ((g y).take t.length).length = t.length := by simp only [List.length_take]; omega
    have ht2 : (xorb ((g y).take t.length) ((t ++ (g y).drop t.length).take t.length)).length = t.length := by
      rw [List.take_left' rfl, length_xorb]; omega
    rw [cbcD_ragged g (iv, s2) cx y t hcx hy ht0 ht]
    simp only
    rw [cbcE_ragged f iv _ _ _ (t ++ (g y).drop t.length) (by rw [h1]; exact hcx) hb2 (by omega) (by omega)
      (by rw [h4, xorb_cancel_mid _ _ (by omega), hfg _ hb1]) hb1]
    simp only [ht2, h3]
    rw [List.take_left' rfl, List.drop_left' rfl, xorb_xorb_cancel _ _ (by omega), List.take_append_drop,
      hfg y hy]

theorem cbcD_loop_len (g : Bytes → Bytes) (hlen : ∀ x, x.length = 16 → (g x).length = 16) :
    ∀ cx : Bytes, cx.length % 16 = 0 → ∀ s : Bytes × Bytes, s.1.length = 16 →
      (fullBlocks 16 (cbcDB g) s cx).2.1.length = cx.length ∧ (fullBlocks 16 (cbcDB g) s cx).1.1.length = 16 := by
  intro cx hcx
  refine whole_induction (P := fun cx => ∀ s : Bytes × Bytes, s.1.length = 16 →
      (fullBlocks 16 (cbcDB g) s cx).2.1.length = cx.length ∧ (fullBlocks 16 (cbcDB g) s cx).1.1.length = 16)
    ?_ ?_ cx hcx
  · intro s hs
    simp only [fullBlocks_nil, List.length_nil, hs, and_self]
  · intro b rest hb _ ih s hs
    have hg := hlen b hb
    have hp : (xorb (g b) s.1).length = 16 := by rw [length_xorb]; omega
    obtain ⟨ih1, ih2⟩ := ih (b, b) hb
    have hbody : cbcDB g s b = ((b, b), xorb (g b) s.1) := rfl
    rw [fullBlocks_cons _ s b rest hb, hbody]
    simp only [List.length_append, hp, hb, ih1, ih2, and_self]

theorem length_cbcD (g : Bytes → Bytes) (hlen : ∀ x, x.length = 16 → (g x).length = 16)
    (s : Bytes × Bytes) (buf : Bytes) (hs : s.1.length = 16) (h16 : 16 ≤ buf.length) :
    (cbcD g s buf).2.length = buf.length := by
  by_cases hr : buf.length % 16 = 0
  · rw [cbcD_whole g s buf hr]
    exact (cbcD_loop_len g hlen buf hr s hs).1
  · obtain ⟨cx, y, t, rfl, hcx, hy, ht0, ht⟩ := ragged_decomp buf h16 hr
    obtain ⟨h1, h2⟩ := cbcD_loop_len g hlen cx hcx s hs
    have hgy := hlen y hy
    have hb1 : (t ++ (g y).drop t.length).length = 16 := by
      simp only [List.length_append, List.length_drop]; omega
    have hgb1 := hlen _ hb1
    rw [cbcD_ragged g s cx y t hcx hy ht0 ht]
    simp only [List.length_append, length_xorb, List.length_take, List.length_drop, h1, h2, hgb1, hgy, hy]
    omega

end Bee2V.C01

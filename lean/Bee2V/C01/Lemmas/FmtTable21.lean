/- kernel-checked rows of the beltFMTCalcB table: alphabet sizes 16386..17409, all counts 1..300 (static file; the
   constants come from the regenerated Bee2V.Gen.C01Tables through `calcB`) -/
import Bee2V.C01.Lemmas.FmtTable
set_option Elab.async false
namespace Bee2V.C01

set_option maxRecDepth 100000 in
theorem fmtRows_16386 : checkMods 64 16386 = true := by decide +kernel

set_option maxRecDepth 100000 in
theorem fmtRows_16450 : checkMods 64 16450 = true := by decide +kernel

set_option maxRecDepth 100000 in
theorem fmtRows_16514 : checkMods 64 16514 = true := by decide +kernel

set_option maxRecDepth 100000 in
theorem fmtRows_16578 : checkMods 64 16578 = true := by decide +kernel

set_option maxRecDepth 100000 in
theorem fmtRows_16642 : checkMods 64 16642 = true := by decide +kernel

set_option maxRecDepth 100000 in
theorem fmtRows_16706 : checkMods 64 16706 = true := by decide +kernel

set_option maxRecDepth 100000 in
theorem fmtRows_16770 : checkMods 64 16770 = true := by decide +kernel

set_option maxRecDepth 100000 in
theorem fmtRows_16834 : checkMods 64 16834 = true := by decide +kernel

set_option maxRecDepth 100000 in
theorem fmtRows_16898 : checkMods 64 16898 = true := by decide +kernel

set_option maxRecDepth 100000 in
theorem fmtRows_16962 : checkMods 64 16962 = true := by decide +kernel

set_option maxRecDepth 100000 in
theorem fmtRows_17026 : checkMods 64 17026 = true := by decide +kernel

set_option maxRecDepth 100000 in
theorem fmtRows_17090 : checkMods 64 17090 = true := by decide +kernel

set_option maxRecDepth 100000 in
theorem fmtRows_17154 : checkMods 64 17154 = true := by decide +kernel

set_option maxRecDepth 100000 in
theorem fmtRows_17218 : checkMods 64 17218 = true := by decide +kernel

set_option maxRecDepth 100000 in
theorem fmtRows_17282 : checkMods 64 17282 = true := by decide +kernel

set_option maxRecDepth 100000 in
theorem fmtRows_17346 : checkMods 64 17346 = true := by decide +kernel

theorem fmtFile_21 (mod count : Nat) (h1 : 16386 ≤ mod) (h2 : mod < 17410) (hc : 1 ≤ count) (hc' : count ≤ 300) :
    IsBlockCount mod count (calcB mod count) := by
  by_cases a0 : mod < 16450
  · exact checkMods_spec 64 16386 fmtRows_16386 mod count (by omega) (by omega) hc hc'
  by_cases a1 : mod < 16514
  · exact checkMods_spec 64 16450 fmtRows_16450 mod count (by omega) (by omega) hc hc'
  by_cases a2 : mod < 16578
  · exact checkMods_spec 64 16514 fmtRows_16514 mod count (by omega) (by omega) hc hc'
  by_cases a3 : mod < 16642
  · exact checkMods_spec 64 16578 fmtRows_16578 mod count (by omega) (by omega) hc hc'
  by_cases a4 : mod < 16706
  · exact checkMods_spec 64 16642 fmtRows_16642 mod count (by omega) (by omega) hc hc'
  by_cases a5 : mod < 16770
  · exact checkMods_spec 64 16706 fmtRows_16706 mod count (by omega) (by omega) hc hc'
  by_cases a6 : mod < 16834
  · exact checkMods_spec 64 16770 fmtRows_16770 mod count (by omega) (by omega) hc hc'
  by_cases a7 : mod < 16898
  · exact checkMods_spec 64 16834 fmtRows_16834 mod count (by omega) (by omega) hc hc'
  by_cases a8 : mod < 16962
  · exact checkMods_spec 64 16898 fmtRows_16898 mod count (by omega) (by omega) hc hc'
  by_cases a9 : mod < 17026
  · exact checkMods_spec 64 16962 fmtRows_16962 mod count (by omega) (by omega) hc hc'
  by_cases a10 : mod < 17090
  · exact checkMods_spec 64 17026 fmtRows_17026 mod count (by omega) (by omega) hc hc'
  by_cases a11 : mod < 17154
  · exact checkMods_spec 64 17090 fmtRows_17090 mod count (by omega) (by omega) hc hc'
  by_cases a12 : mod < 17218
  · exact checkMods_spec 64 17154 fmtRows_17154 mod count (by omega) (by omega) hc hc'
  by_cases a13 : mod < 17282
  · exact checkMods_spec 64 17218 fmtRows_17218 mod count (by omega) (by omega) hc hc'
  by_cases a14 : mod < 17346
  · exact checkMods_spec 64 17282 fmtRows_17282 mod count (by omega) (by omega) hc hc'
  exact checkMods_spec 64 17346 fmtRows_17346 mod count (by omega) (by omega) hc hc'

end Bee2V.C01

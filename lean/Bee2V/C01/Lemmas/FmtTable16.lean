/- kernel-checked rows of the beltFMTCalcB table: alphabet sizes 11266..12289, all counts 1..300 (static file; the
   constants come from the regenerated Bee2V.Gen.C01Tables through `calcB`) -/
import Bee2V.C01.Lemmas.FmtTable
set_option Elab.async false
namespace Bee2V.C01

set_option maxRecDepth 100000 in
theorem fmtRows_11266 : checkMods 64 11266 = true := by decide +kernel

set_option maxRecDepth 100000 in
theorem fmtRows_11330 : checkMods 64 11330 = true := by decide +kernel

set_option maxRecDepth 100000 in
theorem fmtRows_11394 : checkMods 64 11394 = true := by decide +kernel

set_option maxRecDepth 100000 in
theorem fmtRows_11458 : checkMods 64 11458 = true := by decide +kernel

set_option maxRecDepth 100000 in
theorem fmtRows_11522 : checkMods 64 11522 = true := by decide +kernel

set_option maxRecDepth 100000 in
theorem fmtRows_11586 : checkMods 64 11586 = true := by decide +kernel

set_option maxRecDepth 100000 in
theorem fmtRows_11650 : checkMods 64 11650 = true := by decide +kernel

set_option maxRecDepth 100000 in
theorem fmtRows_11714 : checkMods 64 11714 = true := by decide +kernel

set_option maxRecDepth 100000 in
theorem fmtRows_11778 : checkMods 64 11778 = true := by decide +kernel

set_option maxRecDepth 100000 in
theorem fmtRows_11842 : checkMods 64 11842 = true := by decide +kernel

set_option maxRecDepth 100000 in
theorem fmtRows_11906 : checkMods 64 11906 = true := by decide +kernel

set_option maxRecDepth 100000 in
theorem fmtRows_11970 : checkMods 64 11970 = true := by decide +kernel

set_option maxRecDepth 100000 in
theorem fmtRows_12034 : checkMods 64 12034 = true := by decide +kernel

set_option maxRecDepth 100000 in
theorem fmtRows_12098 : checkMods 64 12098 = true := by decide +kernel

set_option maxRecDepth 100000 in
theorem fmtRows_12162 : checkMods 64 12162 = true := by decide +kernel

set_option maxRecDepth 100000 in
theorem fmtRows_12226 : checkMods 64 12226 = true := by decide +kernel

theorem fmtFile_16 (mod count : Nat) (h1 : 11266 ≤ mod) (h2 : mod < 12290) (hc : 1 ≤ count) (hc' : count ≤ 300) :
    IsBlockCount mod count (calcB mod count) := by
  by_cases a0 : mod < 11330
  · exact checkMods_spec 64 11266 fmtRows_11266 mod count (by omega) (by omega) hc hc'
  by_cases a1 : mod < 11394
  · exact checkMods_spec 64 11330 fmtRows_11330 mod count (by omega) (by omega) hc hc'
  by_cases a2 : mod < 11458
  · exact checkMods_spec 64 11394 fmtRows_11394 mod count (by omega) (by omega) hc hc'
  by_cases a3 : mod < 11522
  · exact checkMods_spec 64 11458 fmtRows_11458 mod count (by omega) (by omega) hc hc'
  by_cases a4 : mod < 11586
  · exact checkMods_spec 64 11522 fmtRows_11522 mod count (by omega) (by omega) hc hc'
  by_cases a5 : mod < 11650
  · exact checkMods_spec 64 11586 fmtRows_11586 mod count (by omega) (by omega) hc hc'
  by_cases a6 : mod < 11714
  · exact checkMods_spec 64 11650 fmtRows_11650 mod count (by omega) (by omega) hc hc'
  by_cases a7 : mod < 11778
  · exact checkMods_spec 64 11714 fmtRows_11714 mod count (by omega) (by omega) hc hc'
  by_cases a8 : mod < 11842
  · exact checkMods_spec 64 11778 fmtRows_11778 mod count (by omega) (by omega) hc hc'
  by_cases a9 : mod < 11906
  · exact checkMods_spec 64 11842 fmtRows_11842 mod count (by omega) (by omega) hc hc'
  by_cases a10 : mod < 11970
  · exact checkMods_spec 64 11906 fmtRows_11906 mod count (by omega) (by omega) hc hc'
  by_cases a11 : mod < 12034
  · exact checkMods_spec 64 11970 fmtRows_11970 mod count (by omega) (by omega) hc hc'
  by_cases a12 : mod < 12098
  · exact checkMods_spec 64 12034 fmtRows_12034 mod count (by omega) (by omega) hc hc'
  by_cases a13 : mod < 12162
  · exact checkMods_spec 64 12098 fmtRows_12098 mod count (by omega) (by omega) hc hc'
  by_cases a14 : mod < 12226
  · exact checkMods_spec 64 12162 fmtRows_12162 mod count (by omega) (by omega) hc hc'
  exact checkMods_spec 64 12226 fmtRows_12226 mod count (by omega) (by omega) hc hc'

end Bee2V.C01

import Bee2V.C01.Model.Block
import Bee2V.C01.Lemmas.Bytes
namespace Bee2V.C01

theorem u32_xor_cancel (x y : UInt32) : x ^^^ y ^^^ y = x := by
  rw [UInt32.xor_assoc, UInt32.xor_self, UInt32.xor_zero]
theorem u32_xor_cancel' (x y : UInt32) : x ^^^ (x ^^^ y) = y := by
  rw [← UInt32.xor_assoc, UInt32.xor_self, UInt32.zero_xor]
theorem u32_add_sub (x y : UInt32) : x + y - y = x := by grind
theorem u32_sub_add (x y : UInt32) : x - y + y = x := by grind
theorem u32_add_sub' (x y : UInt32) : y + (x - y) = x := by grind
theorem u32_r5 (x y z : UInt32) : (x + y) - (y + z) + z = x := by grind
theorem u32_add_sub_left (x y : UInt32) : x + y - x = y := by grind

theorem xorSwap_eq (x y : UInt32) : xorSwap x y = (y, x) := by
  simp only [xorSwap]
  rw [UInt32.xor_comm x y]
  simp only [u32_xor_cancel', u32_xor_cancel]

/-- One application of the macro `R` is undone by `R` with the subkeys in reverse order applied to the
registers in the order d, c, b, a (G-blocks opaque). -/
theorem R_inv (g : GFun) (sk : Nat → UInt32) (i a b c d : UInt32) :
    R g (fun j => sk (6 - j)) i (R g sk i a b c d).2.2.2 (R g sk i a b c d).2.2.1
        (R g sk i a b c d).2.1 (R g sk i a b c d).1 = (d, c, b, a) := by
  simp only [R, u32_xor_cancel, u32_add_sub, u32_add_sub', u32_r5, u32_add_sub_left, u32_sub_add, Nat.sub_self,
    Nat.reduceSub]


theorem R_inv' (g : GFun) (sk sk' : Nat → UInt32) (hsk : ∀ j, j ≤ 6 → sk' j = sk (6 - j)) (i a b c d a' b' c' d' : UInt32)
    (h : R g sk i a b c d = (a', b', c', d')) : R g sk' i d' c' b' a' = (d, c, b, a) := by
  have h0 := R_inv g sk i a b c d
  rw [h] at h0
  simp only [R] at h0 ⊢
  simp only [hsk 0 (by omega), hsk 1 (by omega), hsk 2 (by omega), hsk 3 (by omega), hsk 4 (by omega),
    hsk 5 (by omega), hsk 6 (by omega)]
  exact h0

/-- The macro `D` undoes the macro `E` whenever each D-round undoes the matching E-round in the
conjugated register order. -/
theorem decRounds_encRounds (rfE rfD : Nat → UInt32 → UInt32 → UInt32 → UInt32 → Regs)
    (hinv : ∀ i a b c d a' b' c' d', 1 ≤ i → rfE i a b c d = (a', b', c', d') → rfD i d' c' b' a' = (d, c, b, a))
    (a b c d : UInt32) :
    decRounds rfD (encRounds rfE a b c d).1 (encRounds rfE a b c d).2.1 (encRounds rfE a b c d).2.2.1
      (encRounds rfE a b c d).2.2.2 = (a, b, c, d) := by
  unfold encRounds
  rcases h1 : rfE 1 a b c d with ⟨a1, b1, c1, d1⟩
  simp only []
  rcases h2 : rfE 2 b1 d1 a1 c1 with ⟨b2, d2, a2, c2⟩
  simp only []
  rcases h3 : rfE 3 d2 c2 b2 a2 with ⟨d3, c3, b3, a3⟩
  simp only []
  rcases h4 : rfE 4 c3 a3 d3 b3 with ⟨c4, a4, d4, b4⟩
  simp only []
  rcases h5 : rfE 5 a4 b4 c4 d4 with ⟨a5, b5, c5, d5⟩
  simp only []
  rcases h6 : rfE 6 b5 d5 a5 c5 with ⟨b6, d6, a6, c6⟩
  simp only []
  rcases h7 : rfE 7 d6 c6 b6 a6 with ⟨d7, c7, b7, a7⟩
  simp only []
  rcases h8 : rfE 8 c7 a7 d7 b7 with ⟨c8, a8, d8, b8⟩
  simp only [xorSwap_eq]
  have i1 := hinv _ _ _ _ _ _ _ _ _ (by omega) h1
  have i2 := hinv _ _ _ _ _ _ _ _ _ (by omega) h2
  have i3 := hinv _ _ _ _ _ _ _ _ _ (by omega) h3
  have i4 := hinv _ _ _ _ _ _ _ _ _ (by omega) h4
  have i5 := hinv _ _ _ _ _ _ _ _ _ (by omega) h5
  have i6 := hinv _ _ _ _ _ _ _ _ _ (by omega) h6
  have i7 := hinv _ _ _ _ _ _ _ _ _ (by omega) h7
  have i8 := hinv _ _ _ _ _ _ _ _ _ (by omega) h8
  simp only [decRounds, i8, i7, i6, i5, i4, i3, i2, i1, xorSwap_eq]


/-- the converse composition: `E` undoes `D` -/
theorem encRounds_decRounds (rfE rfD : Nat → UInt32 → UInt32 → UInt32 → UInt32 → Regs)
    (hinv : ∀ i a b c d a' b' c' d', 1 ≤ i → rfD i a b c d = (a', b', c', d') → rfE i d' c' b' a' = (d, c, b, a))
    (a b c d : UInt32) :
    encRounds rfE (decRounds rfD a b c d).1 (decRounds rfD a b c d).2.1 (decRounds rfD a b c d).2.2.1
      (decRounds rfD a b c d).2.2.2 = (a, b, c, d) := by
  unfold decRounds
  rcases h8 : rfD 8 a b c d with ⟨a8, b8, c8, d8⟩
  simp only []
  rcases h7 : rfD 7 c8 a8 d8 b8 with ⟨c7, a7, d7, b7⟩
  simp only []
  rcases h6 : rfD 6 d7 c7 b7 a7 with ⟨d6, c6, b6, a6⟩
  simp only []
  rcases h5 : rfD 5 b6 d6 a6 c6 with ⟨b5, d5, a5, c5⟩
  simp only []
  rcases h4 : rfD 4 a5 b5 c5 d5 with ⟨a4, b4, c4, d4⟩
  simp only []
  rcases h3 : rfD 3 c4 a4 d4 b4 with ⟨c3, a3, d3, b3⟩
  simp only []
  rcases h2 : rfD 2 d3 c3 b3 a3 with ⟨d2, c2, b2, a2⟩
  simp only []
  rcases h1 : rfD 1 b2 d2 a2 c2 with ⟨b1, d1, a1, c1⟩
  simp only [xorSwap_eq]
  have i1 := hinv _ _ _ _ _ _ _ _ _ (by omega) h1
  have i2 := hinv _ _ _ _ _ _ _ _ _ (by omega) h2
  have i3 := hinv _ _ _ _ _ _ _ _ _ (by omega) h3
  have i4 := hinv _ _ _ _ _ _ _ _ _ (by omega) h4
  have i5 := hinv _ _ _ _ _ _ _ _ _ (by omega) h5
  have i6 := hinv _ _ _ _ _ _ _ _ _ (by omega) h6
  have i7 := hinv _ _ _ _ _ _ _ _ _ (by omega) h7
  have i8 := hinv _ _ _ _ _ _ _ _ _ (by omega) h8
  simp only [encRounds, i8, i7, i6, i5, i4, i3, i2, i1, xorSwap_eq]

theorem subkeyD_eq (K : Array UInt32) (i j : Nat) (hi : 1 ≤ i) (hj : j ≤ 6) : subkeyD K i j = subkeyE K i (6 - j) := by
  simp only [subkeyD, subkeyE]
  congr 2
  omega

theorem subkeyE_eq (K : Array UInt32) (i j : Nat) (hi : 1 ≤ i) (hj : j ≤ 6) : subkeyE K i j = subkeyD K i (6 - j) := by
  simp only [subkeyD, subkeyE]
  congr 2
  omega

/-- `beltBlockDecr3` undoes `beltBlockEncr3` for every key array and every G-blocks -/
theorem D_E (g : GFun) (K : Array UInt32) (a b c d : UInt32) :
    D g K (E g K a b c d).1 (E g K a b c d).2.1 (E g K a b c d).2.2.1 (E g K a b c d).2.2.2 = (a, b, c, d) := by
  apply decRounds_encRounds
  intro i a b c d a' b' c' d' hi h
  exact R_inv' g (subkeyE K i) (subkeyD K i) (fun j hj => subkeyD_eq K i j hi hj) _ a b c d a' b' c' d' h

theorem E_D (g : GFun) (K : Array UInt32) (a b c d : UInt32) :
    E g K (D g K a b c d).1 (D g K a b c d).2.1 (D g K a b c d).2.2.1 (D g K a b c d).2.2.2 = (a, b, c, d) := by
  apply encRounds_decRounds
  intro i a b c d a' b' c' d' hi h
  exact R_inv' g (subkeyD K i) (subkeyE K i) (fun j hj => subkeyE_eq K i j hi hj) _ a b c d a' b' c' d' h

theorem length_blockEncr (key blk : Bytes) (h : blk.length = 16) : (blockEncr key blk).length = 16 := by
  obtain ⟨w0, w1, w2, w3, hw⟩ := u32From_16 blk h
  simp only [blockEncr, hw, length_u32To, List.length_cons, List.length_nil]

theorem length_blockDecr (key blk : Bytes) (h : blk.length = 16) : (blockDecr key blk).length = 16 := by
  obtain ⟨w0, w1, w2, w3, hw⟩ := u32From_16 blk h
  simp only [blockDecr, hw, length_u32To, List.length_cons, List.length_nil]

theorem blockDecr_blockEncr' (key blk : Bytes) (h : blk.length = 16) : blockDecr key (blockEncr key blk) = blk := by
  obtain ⟨w0, w1, w2, w3, hw⟩ := u32From_16 blk h
  have hb := u32To_u32From_16 blk h
  rw [hw] at hb
  have hde := D_E beltG (u32From key).toArray w0 w1 w2 w3
  rcases he : E beltG (u32From key).toArray w0 w1 w2 w3 with ⟨a, b, c, d⟩
  rw [he] at hde
  simp only [blockEncr, hw, he, blockDecr, u32From_u32To]
  simp only [] at hde
  rw [hde]
  exact hb

theorem blockEncr_blockDecr' (key blk : Bytes) (h : blk.length = 16) : blockEncr key (blockDecr key blk) = blk := by
  obtain ⟨w0, w1, w2, w3, hw⟩ := u32From_16 blk h
  have hb := u32To_u32From_16 blk h
  rw [hw] at hb
  have hde := E_D beltG (u32From key).toArray w0 w1 w2 w3
  rcases he : D beltG (u32From key).toArray w0 w1 w2 w3 with ⟨a, b, c, d⟩
  rw [he] at hde
  simp only [blockDecr, hw, he, blockEncr, u32From_u32To]
  simp only [] at hde
  rw [hde]
  exact hb

end Bee2V.C01

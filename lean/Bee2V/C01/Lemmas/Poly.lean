/-
C01: beltPolyMul is multiplication in GF(2)[x] / (x^128 + x^7 + x^2 + x + 1).
Relates the executable model `polyMul` (Model/Lcl.lean) to the Nat-coded polynomial arithmetic
`clmul` / `pmod` of C05 (Bee2V.C05.Spec) whose ring theory is proved there.
-/
import Bee2V.C01.Model.Lcl
import Bee2V.C05.LemmasPp
namespace Bee2V.C01.Poly
open Bee2V.C01 Bee2V.C05.Spec Bee2V.C05.Pp

/-- the belt modulus x^128 + x^7 + x^2 + x + 1 -/
def beltP : Nat := 2 ^ 128 + 2 ^ 7 + 2 ^ 2 + 2 ^ 1 + 1

theorem beltP_eq : beltP = 2 ^ 128 + 0x87 := by decide
theorem beltP_ne : beltP ≠ 0 := by decide
theorem beltP_log2 : beltP.log2 = 128 := by decide +kernel

/-- the model's bit-serial product is the carry-less product of C05 -/
theorem clmul_model (a : Nat) (n b : Nat) (hb : b < 2 ^ n) : Bee2V.C01.clmul a n b = Bee2V.C05.Spec.clmul a b := by
  induction n generalizing b with
  | zero =>
    have : b = 0 := by simpa using hb
    subst this
    simp [Bee2V.C01.clmul, clmul_zero]
  | succ n ih =>
    have hb2 : b / 2 < 2 ^ n := by rw [Nat.pow_succ] at hb; omega
    simp only [Bee2V.C01.clmul]
    rw [ih (b / 2) hb2]
    have hsplit : b = (b % 2) ^^^ (2 * (b / 2)) := by
      apply Nat.eq_of_testBit_eq
      intro i
      rw [Nat.testBit_xor]
      cases i with
      | zero => simp [Nat.testBit_zero, Nat.mul_mod_right]
      | succ i =>
        have h1 : (b % 2).testBit (i + 1) = false := Nat.testBit_lt_two_pow (by
          have : b % 2 < 2 := Nat.mod_lt _ (by omega)
          exact Nat.lt_of_lt_of_le this (by
            calc 2 = 2 ^ 1 := rfl
              _ ≤ 2 ^ (i + 1) := Nat.pow_le_pow_right (by omega) (by omega)))
        simp only [h1, Bool.false_xor, Nat.testBit_succ]
        congr 1
        omega
    conv => rhs; rw [hsplit, clmul_xor, clmul_two_mul]
    congr 1
    rcases Nat.mod_two_eq_zero_or_one b with h | h
    · simp [h, clmul_zero]
    · simp [h, clmul_one]

/-- one reduction step keeps the residue class and lowers the degree bound -/
theorem redBelt_spec (n p : Nat) (hp : p < 2 ^ (128 + n)) :
    redBelt n p = pmod p beltP := by
  induction n generalizing p with
  | zero =>
    simp only [redBelt]
    exact (pmod_of_lt beltP_ne (by rw [beltP_log2]; simpa using hp)).symm
  | succ n ih =>
    simp only [redBelt]
    by_cases hbit : p.testBit (128 + n) = true
    · rw [if_pos hbit]
      have hlt : p ^^^ (beltP <<< n) < 2 ^ (n + beltP.log2) :=
        xor_shift_lt beltP_ne (by rw [beltP_log2]; rw [show n + 128 + 1 = 128 + (n + 1) by omega]; exact hp)
          (by rw [beltP_log2, Nat.add_comm]; exact hbit)
      rw [beltP_log2, Nat.add_comm] at hlt
      have e : (2 ^ 128 + 0x87 : Nat) = beltP := beltP_eq.symm
      rw [e, ih _ hlt]
      apply pmod_cong beltP_ne
      refine ⟨2 ^ n, ?_⟩
      rw [clmul_comm, clmul_two_pow, Nat.xor_comm, ← Nat.xor_assoc, Nat.xor_self, Nat.zero_xor]
    · have hbit' : p.testBit (128 + n) = false := by simpa using hbit
      rw [if_neg hbit]
      exact ih p (lt_two_pow_of_bit_clear (by rw [show 128 + n + 1 = 128 + (n + 1) by omega]; exact hp) hbit')

end Bee2V.C01.Poly

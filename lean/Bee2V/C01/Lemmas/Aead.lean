/-
Helper lemmas for PropsLcl.lean / PropsAead.lean: carry chains of belt_lcl.c, little-endian
octet arithmetic, xor of buffers, the block loop, DWP / CHE state projections.
-/
import Bee2V.C01.Model.Aead
import Bee2V.C01.Lemmas.Block
namespace Bee2V.C01

/-! ### u32 carry chain -/

/-- value of a little-endian array of 32-bit limbs -/
def u32Val : List UInt32 → Nat
  | [] => 0
  | w :: ws => w.toNat + 2 ^ 32 * u32Val ws

theorem addc32_spec (x y : UInt32) :
    (addc32 x y).1.toNat + 2 ^ 32 * (addc32 x y).2.toNat = x.toNat + y.toNat ∧ (addc32 x y).2.toNat ≤ 1 := by
  have hx := x.toNat_lt; have hy := y.toNat_lt
  simp only [addc32]
  by_cases h : x + y < y
  · simp only [h, if_true]
    rw [UInt32.lt_iff_toNat_lt, UInt32.toNat_add] at h
    rw [UInt32.toNat_add]
    simp only [UInt32.toNat_one]
    omega
  · simp only [h, if_false]
    rw [UInt32.lt_iff_toNat_lt, UInt32.toNat_add] at h
    rw [UInt32.toNat_add]
    simp only [UInt32.toNat_zero]
    omega

/-- `if ((b += carry) < carry) b = tw; else carry = (b += tw) < tw;` -/
def stepc (b carry tw : UInt32) : UInt32 × UInt32 :=
  if b + carry < carry then (tw, carry) else addc32 (b + carry) tw

theorem stepc_spec (b carry tw : UInt32) (hc : carry.toNat ≤ 1) :
    (stepc b carry tw).1.toNat + 2 ^ 32 * (stepc b carry tw).2.toNat = b.toNat + carry.toNat + tw.toNat
      ∧ (stepc b carry tw).2.toNat ≤ 1 := by
  have hb := b.toNat_lt; have ht := tw.toNat_lt
  simp only [stepc]
  by_cases h : b + carry < carry
  · simp only [h, if_true]
    rw [UInt32.lt_iff_toNat_lt, UInt32.toNat_add] at h
    omega
  · simp only [h, if_false]
    have := addc32_spec (b + carry) tw
    rw [UInt32.lt_iff_toNat_lt, UInt32.toNat_add] at h
    rw [UInt32.toNat_add] at this
    omega

theorem addBitSizeU32_eq (b0 b1 b2 b3 : UInt32) (count : Nat) :
    addBitSizeU32 [b0, b1, b2, b3] count =
      let c := UInt32.ofNat count <<< 3
      let t := (count % 2 ^ 64) >>> 29
      let r0 := addc32 b0 c
      let r1 := stepc b1 r0.2 (UInt32.ofNat t)
      let r2 := stepc b2 r1.2 (UInt32.ofNat (t >>> 32))
      [r0.1, r1.1, r2.1, b3 + r2.2 + UInt32.ofNat (t >>> 32 >>> 32)] := by
  rfl

theorem u32_ofNat_shl3 (count : Nat) : (UInt32.ofNat count <<< 3).toNat = (count * 8) % 2 ^ 32 := by
  rw [UInt32.toNat_shiftLeft, UInt32.toNat_ofNat']
  have h : (3 : UInt32).toNat % 32 = 3 := by decide
  rw [h, Nat.shiftLeft_eq]
  omega

theorem addBitSizeU32_val (b0 b1 b2 b3 : UInt32) (count : Nat) (hc : count < 2 ^ 64) :
    u32Val (addBitSizeU32 [b0, b1, b2, b3] count) = (u32Val [b0, b1, b2, b3] + 8 * count) % 2 ^ 128 := by
  rw [addBitSizeU32_eq]
  simp only [u32Val]
  have h0 := addc32_spec b0 (UInt32.ofNat count <<< 3)
  have h1 := stepc_spec b1 (addc32 b0 (UInt32.ofNat count <<< 3)).2 (UInt32.ofNat ((count % 2 ^ 64) >>> 29)) h0.2
  have h2 := stepc_spec b2 (stepc b1 (addc32 b0 (UInt32.ofNat count <<< 3)).2 (UInt32.ofNat ((count % 2 ^ 64) >>> 29))).2
    (UInt32.ofNat ((count % 2 ^ 64) >>> 29 >>> 32)) h1.2
  generalize addc32 b0 (UInt32.ofNat count <<< 3) = r0 at *
  generalize stepc b1 r0.2 (UInt32.ofNat ((count % 2 ^ 64) >>> 29)) = r1 at *
  generalize stepc b2 r1.2 (UInt32.ofNat ((count % 2 ^ 64) >>> 29 >>> 32)) = r2 at *
  rw [u32_ofNat_shl3] at h0
  simp only [UInt32.toNat_add, UInt32.toNat_ofNat', Nat.shiftRight_eq_div_pow] at *
  have := r0.1.toNat_lt; have := r1.1.toNat_lt; have := r2.1.toNat_lt
  have := b0.toNat_lt; have := b1.toNat_lt; have := b2.toNat_lt; have := b3.toNat_lt
  omega

theorem addBitSizeU32_small_eq (b0 b1 b2 b3 : UInt32) (count : Nat) :
    addBitSizeU32_small [b0, b1, b2, b3] count =
      let r0 := addc32 b0 (UInt32.ofNat (count % 2 ^ 16) <<< 3)
      let r1 := addc32 b1 r0.2
      let r2 := addc32 b2 r1.2
      [r0.1, r1.1, r2.1, b3 + r2.2] := by
  rfl

theorem addBitSizeU32_small_val (b0 b1 b2 b3 : UInt32) (count : Nat) (hc : count < 2 ^ 16) :
    u32Val (addBitSizeU32_small [b0, b1, b2, b3] count) = (u32Val [b0, b1, b2, b3] + 8 * count) % 2 ^ 128 := by
  rw [addBitSizeU32_small_eq]
  simp only [u32Val]
  have h0 := addc32_spec b0 (UInt32.ofNat (count % 2 ^ 16) <<< 3)
  have h1 := addc32_spec b1 (addc32 b0 (UInt32.ofNat (count % 2 ^ 16) <<< 3)).2
  have h2 := addc32_spec b2 (addc32 b1 (addc32 b0 (UInt32.ofNat (count % 2 ^ 16) <<< 3)).2).2
  generalize addc32 b0 (UInt32.ofNat (count % 2 ^ 16) <<< 3) = r0 at *
  generalize addc32 b1 r0.2 = r1 at *
  generalize addc32 b2 r1.2 = r2 at *
  rw [u32_ofNat_shl3] at h0
  simp only [UInt32.toNat_add] at *
  have := r0.1.toNat_lt; have := r1.1.toNat_lt; have := r2.1.toNat_lt
  have := b0.toNat_lt; have := b1.toNat_lt; have := b2.toNat_lt; have := b3.toNat_lt
  omega

/-! ### little-endian octet strings -/

theorem length_natLE (n v : Nat) : (natLE n v).length = n := by
  induction n generalizing v with
  | zero => rfl
  | succ n ih => simp only [natLE, List.length_cons, ih]

theorem leNat_natLE (n v : Nat) : leNat (natLE n v) = v % 256 ^ n := by
  induction n generalizing v with
  | zero => simp only [natLE, leNat, Nat.pow_zero, Nat.mod_one]
  | succ n ih =>
    simp only [natLE, leNat, ih]
    have hp : 256 ^ (n + 1) = 256 * 256 ^ n := by rw [Nat.pow_succ, Nat.mul_comm]
    rw [UInt8.toNat_ofNat', hp, Nat.mod_mul]
    omega

theorem leNat_append (a b : Bytes) : leNat (a ++ b) = leNat a + 256 ^ a.length * leNat b := by
  induction a with
  | nil => simp only [List.nil_append, leNat, List.length_nil, Nat.pow_zero, Nat.one_mul, Nat.zero_add]
  | cons x a ih =>
    simp only [List.cons_append, leNat, ih, List.length_cons, Nat.pow_succ]
    rw [Nat.mul_add, Nat.add_assoc, Nat.mul_comm (256 ^ a.length) 256, Nat.mul_assoc]

theorem leNat_lt (b : Bytes) : leNat b < 256 ^ b.length := by
  induction b with
  | nil => simp only [leNat, List.length_nil, Nat.pow_zero]; omega
  | cons x b ih =>
    have := x.toNat_lt
    simp only [leNat, List.length_cons, Nat.pow_succ]
    omega

theorem natLE_leNat (b : Bytes) : natLE b.length (leNat b) = b := by
  induction b with
  | nil => rfl
  | cons x b ih =>
    have hx := x.toNat_lt
    simp only [List.length_cons, natLE, leNat]
    have h1 : (x.toNat + 256 * leNat b) / 256 = leNat b := by omega
    rw [h1, ih, u8_ofNat_eq _ x (by omega)]

/-- two octet strings of the same length with the same little-endian value are equal -/
theorem eq_of_leNat_eq (a b : Bytes) (hl : a.length = b.length) (hv : leNat a = leNat b) : a = b := by
  rw [← natLE_leNat a, ← natLE_leNat b, hl, hv]

theorem natLE_mod (n v : Nat) : natLE n (v % 256 ^ n) = natLE n v := by
  apply eq_of_leNat_eq
  · simp only [length_natLE]
  · simp only [leNat_natLE, Nat.mod_mod]

/-! ### beltHalfBlockAddBitSizeW -/

theorem addBitSizeW64_val (half : Bytes) (count : Nat) :
    leNat (addBitSizeW64 half count) = (leNat half + 8 * count) % 2 ^ 64 := by
  simp only [addBitSizeW64, leNat_natLE]
  omega

theorem leNat_split (b : Bytes) (k : Nat) : leNat b = leNat (b.take k) + 256 ^ (b.take k).length * leNat (b.drop k) := by
  rw [← leNat_append, List.take_append_drop]

theorem addBitSizeW32_val (half : Bytes) (count : Nat) (hl : half.length = 8) (hc : count < 2 ^ 64) :
    leNat (addBitSizeW32 half count) = (leNat half + 8 * count) % 2 ^ 64 := by
  have h0 := leNat_lt (half.take 4)
  have h1 := leNat_lt (half.drop 4)
  have hs := leNat_split half 4
  have e4 : min 4 8 = 4 := by decide
  simp only [List.length_take, List.length_drop, hl, e4, Nat.reduceSub, Nat.reducePow] at h0 h1 hs
  simp only [addBitSizeW32, leNat_append, leNat_natLE, length_natLE, Nat.shiftRight_eq_div_pow]
  generalize leNat (half.take 4) = x0 at *
  generalize leNat (half.drop 4) = x1 at *
  rw [hs]
  split <;> omega

/-- Nat image of `if ((b += carry) < carry) b = tw; else carry = (b += tw) < tw;` on 16-bit words -/
def stepc16 (b carry tw : Nat) : Nat × Nat :=
  if (b + carry) % 2 ^ 16 < carry then (tw, carry)
  else ((((b + carry) % 2 ^ 16 + tw) % 2 ^ 16), if ((b + carry) % 2 ^ 16 + tw) % 2 ^ 16 < tw then 1 else 0)

theorem stepc16_spec (b carry tw : Nat) (hb : b < 2 ^ 16) (ht : tw < 2 ^ 16) (hc : carry ≤ 1) :
    (stepc16 b carry tw).1 + 2 ^ 16 * (stepc16 b carry tw).2 = b + carry + tw ∧ (stepc16 b carry tw).2 ≤ 1
      ∧ (stepc16 b carry tw).1 < 2 ^ 16 := by
  simp only [stepc16]
  split
  · simp only []; omega
  · simp only []
    split <;> omega

theorem addBitSizeW16_eq (half : Bytes) (count : Nat) :
    addBitSizeW16 half count =
      let w (i : Nat) := leNat ((half.drop (2 * i)).take 2)
      let carry := (count * 8) % 2 ^ 16
      let t := (count % 2 ^ 64) >>> 13
      let s0 := (w 0 + carry) % 2 ^ 16
      let c0 := if s0 < carry then 1 else 0
      let r1 := stepc16 (w 1) c0 (t % 2 ^ 16)
      let r2 := stepc16 (w 2) r1.2 (t >>> 16 % 2 ^ 16)
      natLE 2 s0 ++ natLE 2 r1.1 ++ natLE 2 r2.1 ++
        natLE 2 (((w 3 + r2.2) % 2 ^ 16 + t >>> 16 >>> 16 % 2 ^ 16) % 2 ^ 16) := by
  simp only [addBitSizeW16, stepc16]

theorem leNat_two (b : Bytes) (h : b.length = 2) : leNat b < 2 ^ 16 := by
  have := leNat_lt b
  rw [h] at this
  exact this

theorem addBitSizeW16_val (half : Bytes) (count : Nat) (hl : half.length = 8) (hc : count < 2 ^ 64) :
    leNat (addBitSizeW16 half count) = (leNat half + 8 * count) % 2 ^ 64 := by
  match half, hl with
  | [a0, a1, a2, a3, a4, a5, a6, a7], _ =>
    rw [addBitSizeW16_eq]
    simp only [Nat.mul_zero, Nat.mul_one, Nat.reduceMul, List.drop_zero, List.drop_succ_cons, List.take_succ_cons,
      List.take_zero, List.drop_nil, List.take_nil]
    have w0 := leNat_two [a0, a1] rfl
    have w1 := leNat_two [a2, a3] rfl
    have w2 := leNat_two [a4, a5] rfl
    have w3 := leNat_two [a6, a7] rfl
    have hv : leNat [a0, a1, a2, a3, a4, a5, a6, a7]
        = leNat [a0, a1] + 2 ^ 16 * leNat [a2, a3] + 2 ^ 32 * leNat [a4, a5] + 2 ^ 48 * leNat [a6, a7] := by
      simp only [leNat]; omega
    rw [hv]
    generalize leNat [a0, a1] = x0 at *
    generalize leNat [a2, a3] = x1 at *
    generalize leNat [a4, a5] = x2 at *
    generalize leNat [a6, a7] = x3 at *
    simp only [leNat_append, leNat_natLE, length_natLE, List.length_append, Nat.shiftRight_eq_div_pow, Nat.reducePow,
      Nat.reduceAdd]
    have hc0 : (if (x0 + count * 8 % 65536) % 65536 < count * 8 % 65536 then 1 else 0) ≤ 1 := by split <;> omega
    have hs0 : (x0 + count * 8 % 65536) % 65536
        + 65536 * (if (x0 + count * 8 % 65536) % 65536 < count * 8 % 65536 then 1 else 0) = x0 + count * 8 % 65536 := by
      split <;> omega
    generalize (if (x0 + count * 8 % 65536) % 65536 < count * 8 % 65536 then 1 else 0) = c0 at *
    have h1 := stepc16_spec x1 c0 (count % 18446744073709551616 / 8192 % 65536) w1 (by omega) hc0
    generalize stepc16 x1 c0 (count % 18446744073709551616 / 8192 % 65536) = r1 at *
    have h2 := stepc16_spec x2 r1.2 (count % 18446744073709551616 / 8192 / 65536 % 65536) w2 (by omega) h1.2.1
    generalize stepc16 x2 r1.2 (count % 18446744073709551616 / 8192 / 65536 % 65536) = r2 at *
    omega

end Bee2V.C01

/-
Helper lemmas for PropsLcl.lean / PropsAead.lean: carry chains of belt_lcl.c, little-endian
octet arithmetic, xor of buffers, the block loop, DWP / CHE state projections.
-/
import Bee2V.C01.Model.Aead
import Bee2V.C01.Lemmas.Block
/- all helper names live in the sub-namespace `Bee2V.C01.Aead` so that they cannot clash with the helper files of
the other mode proofs -/
namespace Bee2V.C01.Aead

/-! ### u32 carry chain -/

/-- value of a little-endian array of 32-bit limbs -/
def u32Val : List UInt32 → Nat
  | [] => 0
  | w :: ws => w.toNat + 2 ^ 32 * u32Val ws

theorem addc32_spec (x y : UInt32) :
    (addc32 x y).1.toNat + 2 ^ 32 * (addc32 x y).2.toNat = x.toNat + y.toNat ∧ (addc32 x y).2.toNat ≤ 1 := by
  have hx := x.toNat_lt; have hy := y.toNat_lt
  simp only [addc32]
  by_cases h : x + y < y
  · simp only [h, if_true]
    rw [UInt32.lt_iff_toNat_lt, UInt32.toNat_add] at h
    rw [UInt32.toNat_add]
    simp only [UInt32.toNat_one]
    omega
  · simp only [h, if_false]
    rw [UInt32.lt_iff_toNat_lt, UInt32.toNat_add] at h
    rw [UInt32.toNat_add]
    simp only [UInt32.toNat_zero]
    omega

/-- `if ((b += carry) < carry) b = tw; else carry = (b += tw) < tw;` -/
def stepc (b carry tw : UInt32) : UInt32 × UInt32 :=
  if b + carry < carry then (tw, carry) else addc32 (b + carry) tw

theorem stepc_spec (b carry tw : UInt32) (hc : carry.toNat ≤ 1) :
    (stepc b carry tw).1.toNat + 2 ^ 32 * (stepc b carry tw).2.toNat = b.toNat + carry.toNat + tw.toNat
      ∧ (stepc b carry tw).2.toNat ≤ 1 := by
  have hb := b.toNat_lt; have ht := tw.toNat_lt
  simp only [stepc]
  by_cases h : b + carry < carry
  · simp only [h, if_true]
    rw [UInt32.lt_iff_toNat_lt, UInt32.toNat_add] at h
    omega
  · simp only [h, if_false]
    have := addc32_spec (b + carry) tw
    rw [UInt32.lt_iff_toNat_lt, UInt32.toNat_add] at h
    rw [UInt32.toNat_add] at this
    omega

theorem addBitSizeU32_eq (b0 b1 b2 b3 : UInt32) (count : Nat) :
    addBitSizeU32 [b0, b1, b2, b3] count =
      let c := UInt32.ofNat count <<< 3
      let t := (count % 2 ^ 64) >>> 29
      let r0 := addc32 b0 c
      let r1 := stepc b1 r0.2 (UInt32.ofNat t)
      let r2 := stepc b2 r1.2 (UInt32.ofNat (t >>> 32))
      [r0.1, r1.1, r2.1, b3 + r2.2 + UInt32.ofNat (t >>> 32 >>> 32)] := by
  rfl

theorem u32_ofNat_shl3 (count : Nat) : (UInt32.ofNat count <<< 3).toNat = (count * 8) % 2 ^ 32 := by
  rw [UInt32.toNat_shiftLeft, UInt32.toNat_ofNat']
  have h : (3 : UInt32).toNat % 32 = 3 := by decide
  rw [h, Nat.shiftLeft_eq]
  omega

theorem addBitSizeU32_val (b0 b1 b2 b3 : UInt32) (count : Nat) (hc : count < 2 ^ 64) :
    u32Val (addBitSizeU32 [b0, b1, b2, b3] count) = (u32Val [b0, b1, b2, b3] + 8 * count) % 2 ^ 128 := by
  rw [addBitSizeU32_eq]
  simp only [u32Val]
  have h0 := addc32_spec b0 (UInt32.ofNat count <<< 3)
  have h1 := stepc_spec b1 (addc32 b0 (UInt32.ofNat count <<< 3)).2 (UInt32.ofNat ((count % 2 ^ 64) >>> 29)) h0.2
  have h2 := stepc_spec b2 (stepc b1 (addc32 b0 (UInt32.ofNat count <<< 3)).2 (UInt32.ofNat ((count % 2 ^ 64) >>> 29))).2
    (UInt32.ofNat ((count % 2 ^ 64) >>> 29 >>> 32)) h1.2
  generalize addc32 b0 (UInt32.ofNat count <<< 3) = r0 at *
  generalize stepc b1 r0.2 (UInt32.ofNat ((count % 2 ^ 64) >>> 29)) = r1 at *
  generalize stepc b2 r1.2 (UInt32.ofNat ((count % 2 ^ 64) >>> 29 >>> 32)) = r2 at *
  rw [u32_ofNat_shl3] at h0
  simp only [UInt32.toNat_add, UInt32.toNat_ofNat', Nat.shiftRight_eq_div_pow] at *
  have := r0.1.toNat_lt; have := r1.1.toNat_lt; have := r2.1.toNat_lt
  have := b0.toNat_lt; have := b1.toNat_lt; have := b2.toNat_lt; have := b3.toNat_lt
  omega

theorem addBitSizeU32_small_eq (b0 b1 b2 b3 : UInt32) (count : Nat) :
    addBitSizeU32_small [b0, b1, b2, b3] count =
      let r0 := addc32 b0 (UInt32.ofNat (count % 2 ^ 16) <<< 3)
      let r1 := addc32 b1 r0.2
      let r2 := addc32 b2 r1.2
      [r0.1, r1.1, r2.1, b3 + r2.2] := by
  rfl

theorem addBitSizeU32_small_val (b0 b1 b2 b3 : UInt32) (count : Nat) (hc : count < 2 ^ 16) :
    u32Val (addBitSizeU32_small [b0, b1, b2, b3] count) = (u32Val [b0, b1, b2, b3] + 8 * count) % 2 ^ 128 := by
  rw [addBitSizeU32_small_eq]
  simp only [u32Val]
  have h0 := addc32_spec b0 (UInt32.ofNat (count % 2 ^ 16) <<< 3)
  have h1 := addc32_spec b1 (addc32 b0 (UInt32.ofNat (count % 2 ^ 16) <<< 3)).2
  have h2 := addc32_spec b2 (addc32 b1 (addc32 b0 (UInt32.ofNat (count % 2 ^ 16) <<< 3)).2).2
  generalize addc32 b0 (UInt32.ofNat (count % 2 ^ 16) <<< 3) = r0 at *
  generalize addc32 b1 r0.2 = r1 at *
  generalize addc32 b2 r1.2 = r2 at *
  rw [u32_ofNat_shl3] at h0
  simp only [UInt32.toNat_add] at *
  have := r0.1.toNat_lt; have := r1.1.toNat_lt; have := r2.1.toNat_lt
  have := b0.toNat_lt; have := b1.toNat_lt; have := b2.toNat_lt; have := b3.toNat_lt
  omega

theorem u32Val4_inj (a0 a1 a2 a3 c0 c1 c2 c3 : UInt32) (h : u32Val [a0, a1, a2, a3] = u32Val [c0, c1, c2, c3]) :
    [a0, a1, a2, a3] = [c0, c1, c2, c3] := by
  have := a0.toNat_lt; have := a1.toNat_lt; have := a2.toNat_lt; have := a3.toNat_lt
  have := c0.toNat_lt; have := c1.toNat_lt; have := c2.toNat_lt; have := c3.toNat_lt
  simp only [u32Val] at h
  have e0 : a0 = c0 := UInt32.toNat_inj.mp (by omega)
  have e1 : a1 = c1 := UInt32.toNat_inj.mp (by omega)
  have e2 : a2 = c2 := UInt32.toNat_inj.mp (by omega)
  have e3 : a3 = c3 := UInt32.toNat_inj.mp (by omega)
  rw [e0, e1, e2, e3]

/-! ### little-endian octet strings -/

theorem length_natLE (n v : Nat) : (natLE n v).length = n := by
  induction n generalizing v with
  | zero => rfl
  | succ n ih => simp only [natLE, List.length_cons, ih]

theorem leNat_natLE (n v : Nat) : leNat (natLE n v) = v % 256 ^ n := by
  induction n generalizing v with
  | zero => simp only [natLE, leNat, Nat.pow_zero, Nat.mod_one]
  | succ n ih =>
    simp only [natLE, leNat, ih]
    have hp : 256 ^ (n + 1) = 256 * 256 ^ n := by rw [Nat.pow_succ, Nat.mul_comm]
    rw [UInt8.toNat_ofNat', hp, Nat.mod_mul]
    omega

theorem leNat_append (a b : Bytes) : leNat (a ++ b) = leNat a + 256 ^ a.length * leNat b := by
  induction a with
  | nil => simp only [List.nil_append, leNat, List.length_nil, Nat.pow_zero, Nat.one_mul, Nat.zero_add]
  | cons x a ih =>
    simp only [List.cons_append, leNat, ih, List.length_cons, Nat.pow_succ]
    rw [Nat.mul_add, Nat.add_assoc, Nat.mul_comm (256 ^ a.length) 256, Nat.mul_assoc]

theorem leNat_lt (b : Bytes) : leNat b < 256 ^ b.length := by
  induction b with
  | nil => simp only [leNat, List.length_nil, Nat.pow_zero]; omega
  | cons x b ih =>
    have := x.toNat_lt
    simp only [leNat, List.length_cons, Nat.pow_succ]
    omega

theorem natLE_leNat (b : Bytes) : natLE b.length (leNat b) = b := by
  induction b with
  | nil => rfl
  | cons x b ih =>
    have hx := x.toNat_lt
    simp only [List.length_cons, natLE, leNat]
    have h1 : (x.toNat + 256 * leNat b) / 256 = leNat b := by omega
    rw [h1, ih, u8_ofNat_eq _ x (by omega)]

/-- two octet strings of the same length with the same little-endian value are equal -/
theorem eq_of_leNat_eq (a b : Bytes) (hl : a.length = b.length) (hv : leNat a = leNat b) : a = b := by
  rw [← natLE_leNat a, ← natLE_leNat b, hl, hv]

theorem natLE_mod (n v : Nat) : natLE n (v % 256 ^ n) = natLE n v := by
  apply eq_of_leNat_eq
  · simp only [length_natLE]
  · simp only [leNat_natLE, Nat.mod_mod]

/-! ### beltHalfBlockAddBitSizeW -/

theorem addBitSizeW64_val (half : Bytes) (count : Nat) :
    leNat (addBitSizeW64 half count) = (leNat half + 8 * count) % 2 ^ 64 := by
  simp only [addBitSizeW64, leNat_natLE]
  omega

theorem leNat_split (b : Bytes) (k : Nat) : leNat b = leNat (b.take k) + 256 ^ (b.take k).length * leNat (b.drop k) := by
  rw [← leNat_append, List.take_append_drop]

theorem addBitSizeW32_val (half : Bytes) (count : Nat) (hl : half.length = 8) (hc : count < 2 ^ 64) :
    leNat (addBitSizeW32 half count) = (leNat half + 8 * count) % 2 ^ 64 := by
  have h0 := leNat_lt (half.take 4)
  have h1 := leNat_lt (half.drop 4)
  have hs := leNat_split half 4
  have e4 : min 4 8 = 4 := by decide
  simp only [List.length_take, List.length_drop, hl, e4, Nat.reduceSub, Nat.reducePow] at h0 h1 hs
  simp only [addBitSizeW32, leNat_append, leNat_natLE, length_natLE, Nat.shiftRight_eq_div_pow]
  generalize leNat (half.take 4) = x0 at *
  generalize leNat (half.drop 4) = x1 at *
  rw [hs]
  split <;> omega

/-- Nat image of `if ((b += carry) < carry) b = tw; else carry = (b += tw) < tw;` on 16-bit words -/
def stepc16 (b carry tw : Nat) : Nat × Nat :=
  if (b + carry) % 2 ^ 16 < carry then (tw, carry)
  else ((((b + carry) % 2 ^ 16 + tw) % 2 ^ 16), if ((b + carry) % 2 ^ 16 + tw) % 2 ^ 16 < tw then 1 else 0)

theorem stepc16_spec (b carry tw : Nat) (hb : b < 2 ^ 16) (ht : tw < 2 ^ 16) (hc : carry ≤ 1) :
    (stepc16 b carry tw).1 + 2 ^ 16 * (stepc16 b carry tw).2 = b + carry + tw ∧ (stepc16 b carry tw).2 ≤ 1
      ∧ (stepc16 b carry tw).1 < 2 ^ 16 := by
  simp only [stepc16]
  split
  · simp only []; omega
  · simp only []
    split <;> omega

theorem addBitSizeW16_eq (half : Bytes) (count : Nat) :
    addBitSizeW16 half count =
      let w (i : Nat) := leNat ((half.drop (2 * i)).take 2)
      let carry := (count * 8) % 2 ^ 16
      let t := (count % 2 ^ 64) >>> 13
      let s0 := (w 0 + carry) % 2 ^ 16
      let c0 := if s0 < carry then 1 else 0
      let r1 := stepc16 (w 1) c0 (t % 2 ^ 16)
      let r2 := stepc16 (w 2) r1.2 (t >>> 16 % 2 ^ 16)
      natLE 2 s0 ++ natLE 2 r1.1 ++ natLE 2 r2.1 ++
        natLE 2 (((w 3 + r2.2) % 2 ^ 16 + t >>> 16 >>> 16 % 2 ^ 16) % 2 ^ 16) := by
  simp only [addBitSizeW16, stepc16]

theorem leNat_two (b : Bytes) (h : b.length = 2) : leNat b < 2 ^ 16 := by
  have := leNat_lt b
  rw [h] at this
  exact this

theorem w16_arith (x0 x1 x2 x3 c8 T t0 t1 t2 t3 s0 c0 a1 b1 a2 b2 s3 q : Nat)
    (hs0 : s0 + 65536 * c0 = x0 + c8) (hT : T = t0 + 65536 * t1 + 4294967296 * t2 + 281474976710656 * t3)
    (h1 : a1 + 65536 * b1 = x1 + c0 + t0) (h2 : a2 + 65536 * b2 = x2 + b1 + t1)
    (h3 : s3 + 65536 * q = x3 + b2 + t2)
    (l0 : s0 < 65536) (l1 : a1 < 65536) (l2 : a2 < 65536) (l3 : s3 < 65536) :
    s0 + 65536 * a1 + 4294967296 * a2 + 281474976710656 * s3 =
      (x0 + 65536 * x1 + 4294967296 * x2 + 281474976710656 * x3 + (c8 + 65536 * T)) % 18446744073709551616 := by
  have e : x0 + 65536 * x1 + 4294967296 * x2 + 281474976710656 * x3 + (c8 + 65536 * T)
      = (s0 + 65536 * a1 + 4294967296 * a2 + 281474976710656 * s3) + 18446744073709551616 * (q + t3) := by omega
  rw [e, Nat.add_mul_mod_self_left]
  omega

theorem addBitSizeW16_val (half : Bytes) (count : Nat) (hl : half.length = 8) (hc : count < 2 ^ 64) :
    leNat (addBitSizeW16 half count) = (leNat half + 8 * count) % 2 ^ 64 := by
  match half, hl with
  | [a0, a1, a2, a3, a4, a5, a6, a7], _ =>
    rw [addBitSizeW16_eq]
    simp only [Nat.mul_zero, Nat.mul_one, Nat.reduceMul, List.drop_zero, List.drop_succ_cons, List.take_succ_cons,
      List.take_zero, List.take_nil]
    have w0 := leNat_two [a0, a1] rfl
    have w1 := leNat_two [a2, a3] rfl
    have w2 := leNat_two [a4, a5] rfl
    have w3 := leNat_two [a6, a7] rfl
    have hv : leNat [a0, a1, a2, a3, a4, a5, a6, a7]
        = leNat [a0, a1] + 2 ^ 16 * leNat [a2, a3] + 2 ^ 32 * leNat [a4, a5] + 2 ^ 48 * leNat [a6, a7] := by
      simp only [leNat]; omega
    rw [hv]
    generalize leNat [a0, a1] = x0 at *
    generalize leNat [a2, a3] = x1 at *
    generalize leNat [a4, a5] = x2 at *
    generalize leNat [a6, a7] = x3 at *
    simp only [leNat_append, leNat_natLE, length_natLE, List.length_append, Nat.shiftRight_eq_div_pow, Nat.reducePow,
      Nat.reduceAdd]
    have hc0 : (if (x0 + count * 8 % 65536) % 65536 < count * 8 % 65536 then 1 else 0) ≤ 1 := by split <;> omega
    have hs0 : (x0 + count * 8 % 65536) % 65536
        + 65536 * (if (x0 + count * 8 % 65536) % 65536 < count * 8 % 65536 then 1 else 0) = x0 + count * 8 % 65536 := by
      split <;> omega
    generalize (if (x0 + count * 8 % 65536) % 65536 < count * 8 % 65536 then 1 else 0) = c0 at *
    have h1 := stepc16_spec x1 c0 (count % 18446744073709551616 / 8192 % 65536) w1 (by omega) hc0
    generalize stepc16 x1 c0 (count % 18446744073709551616 / 8192 % 65536) = r1 at *
    have h2 := stepc16_spec x2 r1.2 (count % 18446744073709551616 / 8192 / 65536 % 65536) w2 (by omega) h1.2.1
    generalize stepc16 x2 r1.2 (count % 18446744073709551616 / 8192 / 65536 % 65536) = r2 at *
    clear hv
    have hm : ∀ z, z % 65536 % 65536 = z % 65536 := fun z => Nat.mod_mod _ _
    rw [hm, hm, Nat.mod_eq_of_lt (show r1.1 < 65536 from h1.2.2), Nat.mod_eq_of_lt (show r2.1 < 65536 from h2.2.2)]
    have e8 : 8 * count = count * 8 % 65536 + 65536 * (count / 8192) := by omega
    rw [e8]
    have hcm : count % 18446744073709551616 = count := Nat.mod_eq_of_lt hc
    rw [hcm] at h1 h2 ⊢
    exact w16_arith x0 x1 x2 x3 (count * 8 % 65536) (count / 8192) (count / 8192 % 65536)
      (count / 8192 / 65536 % 65536) (count / 8192 / 65536 / 65536 % 65536) (count / 8192 / 65536 / 65536 / 65536)
      _ c0 r1.1 r1.2 r2.1 r2.2 _ (((x3 + r2.2) % 65536 + count / 8192 / 65536 / 65536 % 65536) / 65536
        + (x3 + r2.2) / 65536)
      hs0 (by omega) h1.1 h2.1 (by omega) (by omega) h1.2.2 h2.2.2 (by omega)

theorem length_addBitSizeW64 (half : Bytes) (count : Nat) : (addBitSizeW64 half count).length = 8 := by
  simp only [addBitSizeW64, length_natLE]
theorem length_addBitSizeW32 (half : Bytes) (count : Nat) : (addBitSizeW32 half count).length = 8 := by
  simp only [addBitSizeW32, length_natLE, List.length_append]
theorem length_addBitSizeW16 (half : Bytes) (count : Nat) : (addBitSizeW16 half count).length = 8 := by
  rw [addBitSizeW16_eq]
  simp only [length_natLE, List.length_append]

theorem addBitSizeW32_eq_W64 (half : Bytes) (count : Nat) (hl : half.length = 8) (hc : count < 2 ^ 64) :
    addBitSizeW32 half count = addBitSizeW64 half count :=
  eq_of_leNat_eq _ _ (by rw [length_addBitSizeW32, length_addBitSizeW64])
    (by rw [addBitSizeW32_val half count hl hc, addBitSizeW64_val])

theorem addBitSizeW16_eq_W64 (half : Bytes) (count : Nat) (hl : half.length = 8) (hc : count < 2 ^ 64) :
    addBitSizeW16 half count = addBitSizeW64 half count :=
  eq_of_leNat_eq _ _ (by rw [length_addBitSizeW16, length_addBitSizeW64])
    (by rw [addBitSizeW16_val half count hl hc, addBitSizeW64_val])

theorem addBitSizeW_eq_W64 (w : Nat) (half : Bytes) (count : Nat) (hl : half.length = 8) (hc : count < 2 ^ 64) :
    addBitSizeW w half count = addBitSizeW64 half count := by
  simp only [addBitSizeW]
  split
  · rfl
  · split
    · exact addBitSizeW32_eq_W64 half count hl hc
    · exact addBitSizeW16_eq_W64 half count hl hc

theorem length_addBitSizeW (w : Nat) (half : Bytes) (count : Nat) : (addBitSizeW w half count).length = 8 := by
  simp only [addBitSizeW]
  split
  · exact length_addBitSizeW64 _ _
  · split
    · exact length_addBitSizeW32 _ _
    · exact length_addBitSizeW16 _ _

/-! ### octet image of the u32 block -/

theorem leNat_st32 (w : UInt32) : leNat (st32 w) = w.toNat := by
  have := w.toNat_lt
  simp only [st32, leNat]
  rw [UInt8.toNat_ofNat', UInt8.toNat_ofNat', UInt8.toNat_ofNat', UInt8.toNat_ofNat']
  omega

theorem leNat_u32To (ws : List UInt32) : leNat (u32To ws) = u32Val ws := by
  induction ws with
  | nil => rfl
  | cons w ws ih =>
    have h4 : (st32 w).length = 4 := rfl
    simp only [u32To, leNat_append, leNat_st32, ih, u32Val, h4, Nat.reducePow]

theorem u32Val_u32From (b : Bytes) (h : b.length = 16) : u32Val (u32From b) = leNat b := by
  rw [← leNat_u32To, u32To_u32From_16 b h]

theorem addBitSizeBlock_val (b : Bytes) (count : Nat) (hl : b.length = 16) (hc : count < 2 ^ 64) :
    leNat (addBitSizeBlock b count) = (leNat b + 8 * count) % 2 ^ 128 := by
  rcases u32From_16 b hl with ⟨w0, w1, w2, w3, hw⟩
  rw [addBitSizeBlock, leNat_u32To, hw, addBitSizeU32_val _ _ _ _ _ hc, ← hw, u32Val_u32From b hl]

theorem length_addBitSizeBlock (b : Bytes) (count : Nat) (hl : b.length = 16) :
    (addBitSizeBlock b count).length = 16 := by
  rcases u32From_16 b hl with ⟨w0, w1, w2, w3, hw⟩
  rw [addBitSizeBlock, hw, addBitSizeU32_eq, length_u32To]
  rfl

/-! ### xor of buffers -/

theorem length_xorb (a b : Bytes) : (xorb a b).length = min a.length b.length := by
  simp only [xorb, List.length_zipWith]

theorem u8_xor_cancel (x y : UInt8) : x ^^^ y ^^^ y = x := by
  rw [UInt8.xor_assoc, UInt8.xor_self, UInt8.xor_zero]

theorem xorb_nil_left (b : Bytes) : xorb [] b = [] := by simp only [xorb, List.zipWith_nil_left]

theorem xorb_xorb_cancel (a b : Bytes) (h : a.length ≤ b.length) : xorb (xorb a b) b = a := by
  induction a generalizing b with
  | nil => simp only [xorb, List.zipWith_nil_left]
  | cons x a ih =>
    cases b with
    | nil => simp only [List.length_cons, List.length_nil] at h; omega
    | cons y b =>
      simp only [List.length_cons] at h
      have := ih b (by omega)
      simp only [xorb, List.zipWith_cons_cons, u8_xor_cancel] at this ⊢
      rw [this]

theorem xorb_append (a1 a2 b1 b2 : Bytes) (h : a1.length = b1.length) :
    xorb (a1 ++ a2) (b1 ++ b2) = xorb a1 b1 ++ xorb a2 b2 := by
  simp only [xorb]
  exact List.zipWith_append h

/-! ### the block loop -/

theorem blockLoop_fuel {σ : Type} (body : σ → Bytes → σ × Bytes) :
    ∀ (fuel fuel' : Nat) (s : σ) (rest : Bytes), rest.length ≤ fuel → rest.length ≤ fuel' →
      blockLoop 16 (fun n => decide (16 ≤ n)) body fuel s rest
        = blockLoop 16 (fun n => decide (16 ≤ n)) body fuel' s rest := by
  intro fuel
  induction fuel with
  | zero =>
    intro fuel' s rest h h'
    have : rest.length = 0 := by omega
    cases fuel' with
    | zero => rfl
    | succ m => simp only [blockLoop, this]; rfl
  | succ n ih =>
    intro fuel' s rest h h'
    cases fuel' with
    | zero =>
      have : rest.length = 0 := by omega
      simp only [blockLoop, this]; rfl
    | succ m =>
      simp only [blockLoop]
      by_cases hc : 16 ≤ rest.length
      · simp only [hc, decide_true, if_true]
        have hd : (rest.drop 16).length ≤ n := by simp only [List.length_drop]; omega
        have hd' : (rest.drop 16).length ≤ m := by simp only [List.length_drop]; omega
        rw [ih m _ _ hd hd']
      · simp only [hc, decide_false]; rfl

theorem fullBlocks_short {σ : Type} (body : σ → Bytes → σ × Bytes) (s : σ) (buf : Bytes) (h : buf.length < 16) :
    fullBlocks 16 body s buf = (s, [], buf) := by
  unfold fullBlocks
  cases buf.length with
  | zero => rfl
  | succ n =>
    have hc : ¬ 16 ≤ buf.length := by omega
    simp only [blockLoop, hc, decide_false]; rfl

theorem blockLoop_step {σ : Type} (body : σ → Bytes → σ × Bytes) (fuel : Nat) (s : σ) (rest : Bytes)
    (h : 16 ≤ rest.length) :
    blockLoop 16 (fun n => decide (16 ≤ n)) body (fuel + 1) s rest =
      ((blockLoop 16 (fun n => decide (16 ≤ n)) body fuel (body s (rest.take 16)).1 (rest.drop 16)).1,
       (body s (rest.take 16)).2 ++
        (blockLoop 16 (fun n => decide (16 ≤ n)) body fuel (body s (rest.take 16)).1 (rest.drop 16)).2.1,
       (blockLoop 16 (fun n => decide (16 ≤ n)) body fuel (body s (rest.take 16)).1 (rest.drop 16)).2.2) := by
  simp only [blockLoop, h, decide_true, if_true]

theorem fullBlocks_cons {σ : Type} (body : σ → Bytes → σ × Bytes) (s : σ) (b rest : Bytes) (hb : b.length = 16) :
    fullBlocks 16 body s (b ++ rest) =
      ((fullBlocks 16 body (body s b).1 rest).1, (body s b).2 ++ (fullBlocks 16 body (body s b).1 rest).2.1,
        (fullBlocks 16 body (body s b).1 rest).2.2) := by
  have hl : (b ++ rest).length = rest.length + 16 := by simp only [List.length_append, hb]; omega
  have ht : (b ++ rest).take 16 = b := List.take_left' hb
  have hd : (b ++ rest).drop 16 = rest := List.drop_left' hb
  show blockLoop 16 _ body (b ++ rest).length s (b ++ rest) = _
  rw [blockLoop_fuel body (b ++ rest).length (rest.length + 15 + 1) s (b ++ rest) (Nat.le_refl _) (by omega)]
  rw [blockLoop_step body _ s _ (by omega), ht, hd]
  rw [blockLoop_fuel body (rest.length + 15) rest.length _ rest (by omega) (Nat.le_refl _)]
  rfl


/-! ### keystream steps (CTR / CHE) -/

/-- body of the full-block loop of a keystream mode: state `(x, gamma)`, `x <- f x; gamma <- e x; b ^= gamma` -/
def ksBody (f e : Bytes → Bytes) : Bytes × Bytes → Bytes → (Bytes × Bytes) × Bytes :=
  fun sb b => ((f sb.1, e (f sb.1)), xorb b (e (f sb.1)))

/-- the shape shared by `beltCTRStepE` and `beltCHEStepE` -/
def ksStep (f e : Bytes → Bytes) (x blk : Bytes) (res : Nat) (buf : Bytes) : (Bytes × Bytes × Nat) × Bytes :=
  if res ≠ 0 ∧ res ≥ buf.length then
    ((x, blk, res - buf.length), xorb buf ((blk.drop (16 - res)).take buf.length))
  else
    let head := if res ≠ 0 then xorb (buf.take res) (blk.drop (16 - res)) else []
    let buf := if res ≠ 0 then buf.drop res else buf
    let l := fullBlocks 16 (ksBody f e) (x, blk) buf
    let r := l.2.2
    if r.length ≠ 0 then
      let s := f l.1.1
      let g := e s
      ((s, g, 16 - r.length), head ++ l.2.1 ++ xorb r (g.take r.length))
    else ((l.1.1, l.1.2, 0), head ++ l.2.1)

theorem ctrStepE_eq (C : Cipher) (st : CtrSt) (buf : Bytes) :
    ctrStepE C st buf =
      ({ st with ctr := (ksStep incBlock (C.enc st.key) st.ctr st.block st.reserved buf).1.1,
                 block := (ksStep incBlock (C.enc st.key) st.ctr st.block st.reserved buf).1.2.1,
                 reserved := (ksStep incBlock (C.enc st.key) st.ctr st.block st.reserved buf).1.2.2 },
       (ksStep incBlock (C.enc st.key) st.ctr st.block st.reserved buf).2) := by
  by_cases h1 : st.reserved ≠ 0 ∧ st.reserved ≥ buf.length
  · simp only [ctrStepE, ksStep, if_pos h1]
  · simp only [ctrStepE, ksStep, if_neg h1]
    unfold ksBody
    generalize fullBlocks 16 _ _ _ = l
    by_cases h2 : l.2.2.length ≠ 0
    · simp only [if_pos h2]
    · simp only [if_neg h2]

theorem cheStepE_eq (C : Cipher) (st : CheSt) (buf : Bytes) :
    cheStepE C st buf =
      ({ st with s := (ksStep cheNextS (C.enc st.key) st.s st.block1 st.reserved buf).1.1,
                 block1 := (ksStep cheNextS (C.enc st.key) st.s st.block1 st.reserved buf).1.2.1,
                 reserved := (ksStep cheNextS (C.enc st.key) st.s st.block1 st.reserved buf).1.2.2 },
       (ksStep cheNextS (C.enc st.key) st.s st.block1 st.reserved buf).2) := by
  by_cases h1 : st.reserved ≠ 0 ∧ st.reserved ≥ buf.length
  · simp only [cheStepE, ksStep, if_pos h1]
  · simp only [cheStepE, ksStep, if_neg h1]
    unfold ksBody
    generalize fullBlocks 16 _ _ _ = l
    by_cases h2 : l.2.2.length ≠ 0
    · simp only [if_pos h2]
    · simp only [if_neg h2]

/-- what a second pass over the output of the full-block loop does -/
theorem fullBlocks_ks (f e : Bytes → Bytes) (hf : ∀ x, x.length = 16 → (f x).length = 16)
    (he : ∀ x, x.length = 16 → (e x).length = 16) :
    ∀ (n : Nat) (s : Bytes × Bytes) (buf : Bytes), buf.length ≤ n → s.1.length = 16 →
      (fullBlocks 16 (ksBody f e) s buf).1.1.length = 16 ∧
      (fullBlocks 16 (ksBody f e) s buf).2.2.length < 16 ∧
      (fullBlocks 16 (ksBody f e) s buf).2.1.length + (fullBlocks 16 (ksBody f e) s buf).2.2.length = buf.length ∧
      ∀ t : Bytes, t.length = (fullBlocks 16 (ksBody f e) s buf).2.2.length →
        ∃ X, fullBlocks 16 (ksBody f e) s ((fullBlocks 16 (ksBody f e) s buf).2.1 ++ t)
              = ((fullBlocks 16 (ksBody f e) s buf).1, X, t)
          ∧ X ++ (fullBlocks 16 (ksBody f e) s buf).2.2 = buf := by
  intro n
  induction n with
  | zero =>
    intro s buf hn hs
    have hb : buf.length < 16 := by omega
    rw [fullBlocks_short _ _ _ hb]
    dsimp only
    refine ⟨hs, hb, by simp only [List.length_nil, Nat.zero_add], ?_⟩
    intro t ht
    refine ⟨[], ?_, rfl⟩
    simp only [List.nil_append]
    exact fullBlocks_short _ _ _ (by omega)
  | succ n ih =>
    intro s buf hn hs
    by_cases hb : buf.length < 16
    · rw [fullBlocks_short _ _ _ hb]
      dsimp only
      refine ⟨hs, hb, by simp only [List.length_nil, Nat.zero_add], ?_⟩
      intro t ht
      refine ⟨[], ?_, rfl⟩
      simp only [List.nil_append]
      exact fullBlocks_short _ _ _ (by omega)
    · have hsplit : buf = buf.take 16 ++ buf.drop 16 := (List.take_append_drop 16 buf).symm
      have h16 : (buf.take 16).length = 16 := by simp only [List.length_take]; omega
      have hdl : (buf.drop 16).length ≤ n := by simp only [List.length_drop]; omega
      have hfs : (f s.1).length = 16 := hf _ hs
      have hg : (e (f s.1)).length = 16 := he _ hfs
      have hbody1 : (ksBody f e s (buf.take 16)).1 = (f s.1, e (f s.1)) := rfl
      have hbody2 : (ksBody f e s (buf.take 16)).2 = xorb (buf.take 16) (e (f s.1)) := rfl
      have hrec := ih (f s.1, e (f s.1)) (buf.drop 16) hdl hfs
      have hfb : fullBlocks 16 (ksBody f e) s buf =
          ((fullBlocks 16 (ksBody f e) (f s.1, e (f s.1)) (buf.drop 16)).1,
           xorb (buf.take 16) (e (f s.1)) ++ (fullBlocks 16 (ksBody f e) (f s.1, e (f s.1)) (buf.drop 16)).2.1,
           (fullBlocks 16 (ksBody f e) (f s.1, e (f s.1)) (buf.drop 16)).2.2) := by
        have := fullBlocks_cons (ksBody f e) s (buf.take 16) (buf.drop 16) h16
        rw [List.take_append_drop] at this
        exact this
      rw [hfb]
      dsimp only
      generalize fullBlocks 16 (ksBody f e) (f s.1, e (f s.1)) (buf.drop 16) = l at hrec
      rcases hrec with ⟨r1, r2, r3, r4⟩
      have hx : (xorb (buf.take 16) (e (f s.1))).length = 16 := by rw [length_xorb, h16, hg]; rfl
      refine ⟨r1, r2, ?_, ?_⟩
      · simp only [List.length_append, hx]
        have : buf.length = 16 + (buf.drop 16).length := by simp only [List.length_drop]; omega
        omega
      · intro t ht
        rcases r4 t ht with ⟨X, hX1, hX2⟩
        refine ⟨buf.take 16 ++ X, ?_, ?_⟩
        · simp only [List.append_assoc]
          rw [fullBlocks_cons (ksBody f e) s _ _ hx]
          have hb1 : (ksBody f e s (xorb (buf.take 16) (e (f s.1)))).1 = (f s.1, e (f s.1)) := rfl
          have hb2 : (ksBody f e s (xorb (buf.take 16) (e (f s.1)))).2
              = xorb (xorb (buf.take 16) (e (f s.1))) (e (f s.1)) := rfl
          rw [hb1, hb2, hX1, xorb_xorb_cancel _ _ (by omega)]
        · rw [List.append_assoc, hX2, List.take_append_drop]

/-- output of `ksStep` when the reserve of gamma does not cover the buffer -/
def ksOut (f e : Bytes → Bytes) (x blk : Bytes) (res : Nat) (buf : Bytes) : Bytes :=
  xorb (buf.take res) (blk.drop (16 - res)) ++
    ((fullBlocks 16 (ksBody f e) (x, blk) (buf.drop res)).2.1 ++
      xorb (fullBlocks 16 (ksBody f e) (x, blk) (buf.drop res)).2.2
        ((e (f (fullBlocks 16 (ksBody f e) (x, blk) (buf.drop res)).1.1)).take
          (fullBlocks 16 (ksBody f e) (x, blk) (buf.drop res)).2.2.length))

theorem ksStep_out (f e : Bytes → Bytes) (x blk : Bytes) (res : Nat) (buf : Bytes)
    (h : ¬(res ≠ 0 ∧ res ≥ buf.length)) : (ksStep f e x blk res buf).2 = ksOut f e x blk res buf := by
  simp only [ksStep, if_neg h, ksOut]
  by_cases h0 : res ≠ 0
  · simp only [if_pos h0]
    generalize fullBlocks 16 _ _ _ = l
    by_cases h2 : l.2.2.length ≠ 0
    · simp only [if_pos h2, List.append_assoc]
    · simp only [if_neg h2]
      have : l.2.2 = [] := List.eq_nil_of_length_eq_zero (by omega)
      simp only [this, xorb_nil_left, List.append_nil]
  · simp only [if_neg h0]
    have h0' : res = 0 := by omega
    subst h0'
    simp only [List.take_zero, List.drop_zero, xorb_nil_left, List.nil_append]
    generalize fullBlocks 16 _ _ _ = l
    by_cases h2 : l.2.2.length ≠ 0
    · simp only [if_pos h2]
    · simp only [if_neg h2]
      have : l.2.2 = [] := List.eq_nil_of_length_eq_zero (by omega)
      simp only [this, xorb_nil_left, List.append_nil]

theorem ksStep_invol (f e : Bytes → Bytes) (hf : ∀ x, x.length = 16 → (f x).length = 16)
    (he : ∀ x, x.length = 16 → (e x).length = 16) (x blk : Bytes) (res : Nat) (buf : Bytes)
    (hx : x.length = 16) (hblk : blk.length = 16) (hres : res ≤ 16) :
    (ksStep f e x blk res (ksStep f e x blk res buf).2).2 = buf := by
  by_cases h : res ≠ 0 ∧ res ≥ buf.length
  · have hout : (ksStep f e x blk res buf).2 = xorb buf ((blk.drop (16 - res)).take buf.length) := by
      simp only [ksStep, if_pos h]
    have hgl : ((blk.drop (16 - res)).take buf.length).length = buf.length := by
      simp only [List.length_take, List.length_drop, hblk]; omega
    have hol : (xorb buf ((blk.drop (16 - res)).take buf.length)).length = buf.length := by
      rw [length_xorb, hgl]; omega
    rw [hout]
    simp only [ksStep, hol, if_pos h]
    exact xorb_xorb_cancel _ _ (by rw [hgl]; omega)
  · have hrl : res ≤ buf.length := by
      by_cases h0 : res = 0
      · omega
      · have : ¬ res ≥ buf.length := fun hge => h ⟨h0, hge⟩
        omega
    rw [ksStep_out f e x blk res buf h]
    have hk := fullBlocks_ks f e hf he (buf.drop res).length (x, blk) (buf.drop res) (Nat.le_refl _) hx
    have hhead : (xorb (buf.take res) (blk.drop (16 - res))).length = res := by
      simp only [length_xorb, List.length_take, List.length_drop, hblk]; omega
    -- name the pieces
    have hout : ksOut f e x blk res buf = xorb (buf.take res) (blk.drop (16 - res)) ++
        ((fullBlocks 16 (ksBody f e) (x, blk) (buf.drop res)).2.1 ++
          xorb (fullBlocks 16 (ksBody f e) (x, blk) (buf.drop res)).2.2
            ((e (f (fullBlocks 16 (ksBody f e) (x, blk) (buf.drop res)).1.1)).take
              (fullBlocks 16 (ksBody f e) (x, blk) (buf.drop res)).2.2.length)) := rfl
    generalize fullBlocks 16 (ksBody f e) (x, blk) (buf.drop res) = l at hk hout
    rcases hk with ⟨k1, k2, k3, k4⟩
    have hgl : ((e (f l.1.1)).take l.2.2.length).length = l.2.2.length := by
      simp only [List.length_take, he _ (hf _ k1)]; omega
    have htl : (xorb l.2.2 ((e (f l.1.1)).take l.2.2.length)).length = l.2.2.length := by
      rw [length_xorb, hgl]; omega
    rcases k4 _ htl with ⟨X, hX1, hX2⟩
    have holen : (ksOut f e x blk res buf).length = buf.length := by
      rw [hout]
      simp only [List.length_append, hhead, htl, k3, List.length_drop]
      omega
    have h' : ¬(res ≠ 0 ∧ res ≥ (ksOut f e x blk res buf).length) := by rw [holen]; exact h
    rw [ksStep_out f e x blk res _ h']
    have htake : (ksOut f e x blk res buf).take res = xorb (buf.take res) (blk.drop (16 - res)) := by
      rw [hout]; exact List.take_left' hhead
    have hdrop : (ksOut f e x blk res buf).drop res =
        l.2.1 ++ xorb l.2.2 ((e (f l.1.1)).take l.2.2.length) := by
      rw [hout]; exact List.drop_left' hhead
    have hbl : (buf.take res).length ≤ (blk.drop (16 - res)).length := by
      simp only [List.length_take, List.length_drop, hblk]; omega
    show xorb ((ksOut f e x blk res buf).take res) (blk.drop (16 - res)) ++
      ((fullBlocks 16 (ksBody f e) (x, blk) ((ksOut f e x blk res buf).drop res)).2.1 ++
        xorb (fullBlocks 16 (ksBody f e) (x, blk) ((ksOut f e x blk res buf).drop res)).2.2
          ((e (f (fullBlocks 16 (ksBody f e) (x, blk) ((ksOut f e x blk res buf).drop res)).1.1)).take
            (fullBlocks 16 (ksBody f e) (x, blk) ((ksOut f e x blk res buf).drop res)).2.2.length)) = buf
    rw [htake, hdrop, hX1]
    dsimp only
    rw [htl, xorb_xorb_cancel _ _ hbl, xorb_xorb_cancel _ _ (by omega), hX2, List.take_append_drop]

theorem length_incU32 (w0 w1 w2 w3 : UInt32) : (incU32 [w0, w1, w2, w3]).length = 4 := by
  simp only [incU32]
  split
  · split
    · split <;> rfl
    · rfl
  · rfl

theorem length_incBlock (b : Bytes) (h : b.length = 16) : (incBlock b).length = 16 := by
  rcases u32From_16 b h with ⟨w0, w1, w2, w3, hw⟩
  rw [incBlock, hw, length_u32To, length_incU32]

theorem length_mulC (b : Bytes) (h : b.length = 16) : (mulC b).length = 16 := by
  rcases u32From_16 b h with ⟨w0, w1, w2, w3, hw⟩
  rw [mulC, hw, length_u32To]
  rfl

theorem length_cheNextS (b : Bytes) (h : b.length = 16) : (cheNextS b).length = 16 := by
  have hm := length_mulC b h
  unfold cheNextS
  cases hc : mulC b with
  | nil => rw [hc] at hm; simp only [List.length_nil] at hm; omega
  | cons b0 rest => rw [hc] at hm; simpa only [List.length_cons] using hm

theorem ctrStepE_invol' (C : Cipher) (hlen : ∀ k x, x.length = 16 → (C.enc k x).length = 16) (st : CtrSt)
    (buf : Bytes) (hr : st.reserved ≤ 16) (hb : st.block.length = 16) (hc : st.ctr.length = 16) :
    (ctrStepE C st (ctrStepE C st buf).2).2 = buf := by
  rw [ctrStepE_eq C st buf]
  dsimp only
  rw [ctrStepE_eq C st _]
  exact ksStep_invol incBlock (C.enc st.key) length_incBlock (hlen st.key) st.ctr st.block st.reserved buf hc hb hr

theorem cheStepE_invol' (C : Cipher) (hlen : ∀ k x, x.length = 16 → (C.enc k x).length = 16) (st : CheSt)
    (buf : Bytes) (hr : st.reserved ≤ 16) (hb : st.block1.length = 16) (hc : st.s.length = 16) :
    (cheStepE C st (cheStepE C st buf).2).2 = buf := by
  rw [cheStepE_eq C st buf]
  dsimp only
  rw [cheStepE_eq C st _]
  exact ksStep_invol cheNextS (C.enc st.key) length_cheNextS (hlen st.key) st.s st.block1 st.reserved buf hc hb hr

theorem ctrStepE_key (C : Cipher) (st : CtrSt) (buf : Bytes) : (ctrStepE C st buf).1.key = st.key := by
  rw [ctrStepE_eq]
theorem cheStepE_key (C : Cipher) (st : CheSt) (buf : Bytes) : (cheStepE C st buf).1.key = st.key := by
  rw [cheStepE_eq]
theorem cheStepE_p (C : Cipher) (st : CheSt) (buf : Bytes) : (cheStepE C st buf).1.p = st.p := by
  rw [cheStepE_eq]

/-! ### DWP / CHE -/

/-- the tag `beltDWPWrap` outputs for ciphertext `ct` and open data `ad` (restated as `dwpTag` in PropsAead) -/
def dwpTag' (C : Cipher) (w : Nat) (ct ad key iv : Bytes) : Bytes :=
  (dwpStepG C (dwpStepA w (dwpStepI w (dwpStart C key iv) ad) ct)).2

/-- the tag `beltCHEWrap` outputs for ciphertext `ct` and open data `ad` -/
def cheTag' (C : Cipher) (w : Nat) (ct ad key iv : Bytes) : Bytes :=
  (cheStepG C (cheStepA w (cheStepI w (cheStart C key iv) ad) ct)).2

theorem dwpStepG_tag (C : Cipher) (st : DwpSt) :
    (dwpStepG C st).2 = (C.enc st.ctr.key (polyFinish st.p).2).take 8 := rfl
theorem cheStepG_tag (C : Cipher) (st : CheSt) :
    (cheStepG C st).2 = (C.enc st.key (polyFinish st.p).2).take 8 := rfl

theorem dwpWrap_eq (C : Cipher) (w : Nat) (src1 src2 key iv : Bytes) :
    dwpWrap C w src1 src2 key iv =
      if !validKeyLen key.length then (.badInput, none)
      else (.ok, some ((ctrStepE C (ctrStart C key iv) src1).2,
        dwpTag' C w (ctrStepE C (ctrStart C key iv) src1).2 src2 key iv)) := by
  unfold dwpWrap
  split
  · rfl
  · simp only [dwpTag', dwpStepG_tag, dwpStepA, dwpStepE, dwpStepI, dwpStart, ctrStepE_key]

theorem dwpUnwrap_eq (C : Cipher) (w : Nat) (ct ad mac key iv : Bytes) :
    dwpUnwrap C w ct ad mac key iv =
      if !validKeyLen key.length then (.badInput, none)
      else if mac = dwpTag' C w ct ad key iv then (.ok, some (ctrStepE C (ctrStart C key iv) ct).2)
      else (.badMac, none) := by
  unfold dwpUnwrap
  split
  · rfl
  · by_cases hm : mac = dwpTag' C w ct ad key iv
    · rw [if_pos hm]
      have : (dwpStepV C (dwpStepA w (dwpStepI w (dwpStart C key iv) ad) ct) mac).2 = true := by
        simp only [dwpStepV, decide_eq_true_eq]; exact hm
      simp only [this]
      rfl
    · rw [if_neg hm]
      have : (dwpStepV C (dwpStepA w (dwpStepI w (dwpStart C key iv) ad) ct) mac).2 = false := by
        simp only [dwpStepV, decide_eq_false_iff_not]; exact hm
      simp only [this]
      rfl

theorem cheWrap_eq (C : Cipher) (w : Nat) (src1 src2 key iv : Bytes) :
    cheWrap C w src1 src2 key iv =
      if !validKeyLen key.length then (.badInput, none)
      else (.ok, some ((cheStepE C (cheStart C key iv) src1).2,
        cheTag' C w (cheStepE C (cheStart C key iv) src1).2 src2 key iv)) := by
  unfold cheWrap
  split
  · rfl
  · have h1 : (cheStepE C (cheStepI w (cheStart C key iv) src2) src1).2 = (cheStepE C (cheStart C key iv) src1).2 := by
      rw [cheStepE_eq, cheStepE_eq]; rfl
    simp only [cheTag', cheStepG_tag, cheStepA, cheStepE_key, cheStepE_p, h1]

theorem cheUnwrap_eq (C : Cipher) (w : Nat) (ct ad mac key iv : Bytes) :
    cheUnwrap C w ct ad mac key iv =
      if !validKeyLen key.length then (.badInput, none)
      else if mac = cheTag' C w ct ad key iv then (.ok, some (cheStepE C (cheStart C key iv) ct).2)
      else (.badMac, none) := by
  unfold cheUnwrap
  split
  · rfl
  · by_cases hm : mac = cheTag' C w ct ad key iv
    · rw [if_pos hm]
      have : (cheStepV C (cheStepA w (cheStepI w (cheStart C key iv) ad) ct) mac).2 = true := by
        simp only [cheStepV, decide_eq_true_eq]; exact hm
      simp only [this]
      have h1 : (cheStepE C (cheStepV C (cheStepA w (cheStepI w (cheStart C key iv) ad) ct) mac).1 ct).2
          = (cheStepE C (cheStart C key iv) ct).2 := by
        rw [cheStepE_eq, cheStepE_eq]; rfl
      simp only [h1]
      rfl
    · rw [if_neg hm]
      have : (cheStepV C (cheStepA w (cheStepI w (cheStart C key iv) ad) ct) mac).2 = false := by
        simp only [cheStepV, decide_eq_false_iff_not]; exact hm
      simp only [this]
      rfl


/-! ### length block of the polynomial accumulator -/

theorem absorb16_len (st : PolySt) (buf : Bytes) : (absorb16 st buf).len = st.len := by
  unfold absorb16
  by_cases h1 : st.filled ≠ 0 ∧ buf.length < 16 - st.filled
  · rw [if_pos h1]
  · rw [if_neg h1]
    dsimp only
    generalize fullBlocks 16 _ _ _ = l
    by_cases h2 : l.2.2.length ≠ 0
    · rw [if_pos h2]
    · rw [if_neg h2]

theorem polyStepI_w (w : Nat) (st : PolySt) (buf : Bytes) (hl : st.len.length = 16) (hb : buf.length < 2 ^ 64) :
    polyStepI w st buf = polyStepI 64 st buf := by
  unfold polyStepI
  have h8 : (st.len.take 8).length = 8 := by simp only [List.length_take, hl]; rfl
  rw [addBitSizeW_eq_W64 w _ _ h8 hb]
  rfl

theorem polyStepI_len (w : Nat) (st : PolySt) (buf : Bytes) (hl : st.len.length = 16) :
    (polyStepI w st buf).len.length = 16 := by
  unfold polyStepI
  rw [absorb16_len]
  simp only [List.length_append, length_addBitSizeW, List.length_drop, hl]

theorem polyStepA_w (w : Nat) (st : PolySt) (buf : Bytes) (hl : st.len.length = 16) (hb : buf.length < 2 ^ 64) :
    polyStepA w st buf = polyStepA 64 st buf := by
  unfold polyStepA
  have h8 : (st.len.drop 8).length = 8 := by simp only [List.length_drop, hl]
  by_cases hc : buf.length ≠ 0 ∧ st.len.drop 8 = zeros 8 ∧ st.filled ≠ 0
  · simp only [if_pos hc]
    rw [addBitSizeW_eq_W64 w _ _ h8 hb]
    rfl
  · simp only [if_neg hc]
    rw [addBitSizeW_eq_W64 w _ _ h8 hb]
    rfl

theorem length_polyFinish (st : PolySt) : (polyFinish st).2.length = 16 := by
  unfold polyFinish
  split <;> simp only [polyStep, polyMul, length_natLE]

theorem ksStep_length (f e : Bytes → Bytes) (hf : ∀ x, x.length = 16 → (f x).length = 16)
    (he : ∀ x, x.length = 16 → (e x).length = 16) (x blk : Bytes) (res : Nat) (buf : Bytes)
    (hx : x.length = 16) (hblk : blk.length = 16) (hres : res ≤ 16) :
    (ksStep f e x blk res buf).2.length = buf.length := by
  by_cases h : res ≠ 0 ∧ res ≥ buf.length
  · simp only [ksStep, if_pos h, length_xorb, List.length_take, List.length_drop, hblk]; omega
  · have hrl : res ≤ buf.length := by
      by_cases h0 : res = 0
      · omega
      · have : ¬ res ≥ buf.length := fun hge => h ⟨h0, hge⟩
        omega
    rw [ksStep_out f e x blk res buf h]
    have hk := fullBlocks_ks f e hf he (buf.drop res).length (x, blk) (buf.drop res) (Nat.le_refl _) hx
    unfold ksOut
    generalize fullBlocks 16 (ksBody f e) (x, blk) (buf.drop res) = l at hk
    rcases hk with ⟨k1, k2, k3, _⟩
    simp only [List.length_append, length_xorb, List.length_take, List.length_drop, hblk, he _ (hf _ k1)] at k3 ⊢
    omega

theorem length_ctrStepE (C : Cipher) (hlen : ∀ k x, x.length = 16 → (C.enc k x).length = 16) (st : CtrSt)
    (buf : Bytes) (hr : st.reserved ≤ 16) (hb : st.block.length = 16) (hc : st.ctr.length = 16) :
    (ctrStepE C st buf).2.length = buf.length := by
  rw [ctrStepE_eq C st buf]
  exact ksStep_length incBlock (C.enc st.key) length_incBlock (hlen st.key) st.ctr st.block st.reserved buf hc hb hr

theorem length_cheStepE (C : Cipher) (hlen : ∀ k x, x.length = 16 → (C.enc k x).length = 16) (st : CheSt)
    (buf : Bytes) (hr : st.reserved ≤ 16) (hb : st.block1.length = 16) (hc : st.s.length = 16) :
    (cheStepE C st buf).2.length = buf.length := by
  rw [cheStepE_eq C st buf]
  exact ksStep_length cheNextS (C.enc st.key) length_cheNextS (hlen st.key) st.s st.block1 st.reserved buf hc hb hr

theorem dwpTag'_w (C : Cipher) (w : Nat) (ct ad key iv : Bytes) (hct : ct.length < 2 ^ 64) (had : ad.length < 2 ^ 64) :
    dwpTag' C w ct ad key iv = dwpTag' C 64 ct ad key iv := by
  have h0 : (dwpStart C key iv).p.len.length = 16 := rfl
  simp only [dwpTag', dwpStepG_tag, dwpStepA, dwpStepI]
  rw [polyStepI_w w _ ad h0 had, polyStepA_w w _ ct (polyStepI_len 64 _ ad h0) hct]

theorem cheTag'_w (C : Cipher) (w : Nat) (ct ad key iv : Bytes) (hct : ct.length < 2 ^ 64) (had : ad.length < 2 ^ 64) :
    cheTag' C w ct ad key iv = cheTag' C 64 ct ad key iv := by
  have h0 : (cheStart C key iv).p.len.length = 16 := rfl
  simp only [cheTag', cheStepG_tag, cheStepA, cheStepI]
  rw [polyStepI_w w _ ad h0 had, polyStepA_w w _ ct (polyStepI_len 64 _ ad h0) hct]

theorem length_dwpTag' (C : Cipher) (hlen : ∀ k x, x.length = 16 → (C.enc k x).length = 16) (w : Nat)
    (ct ad key iv : Bytes) : (dwpTag' C w ct ad key iv).length = 8 := by
  rw [dwpTag', dwpStepG_tag, List.length_take, hlen _ _ (length_polyFinish _)]; rfl

theorem length_cheTag' (C : Cipher) (hlen : ∀ k x, x.length = 16 → (C.enc k x).length = 16) (w : Nat)
    (ct ad key iv : Bytes) : (cheTag' C w ct ad key iv).length = 8 := by
  rw [cheTag', cheStepG_tag, List.length_take, hlen _ _ (length_polyFinish _)]; rfl

end Bee2V.C01.Aead

/-
C01 helper lemmas: the keyed half-round function of belt_fmt.c returns `8 (b + 1)` octets, hence at
least `count` u16 values, when the alphabet is 65536.  `FmtLenOk` of Lemmas/Fmt.lean quantifies over
ALL offsets into H / the IV image, where the two 4-octet tails may be short and the primitives are
outside their domain; the variant `FmtLenOk'` below restricts to the offsets the rounds really use
(`off ≤ 20`), and the round lemmas are re-proved for it.
-/
import Bee2V.C01.PropsFmt
import Bee2V.C01.PropsWbl
namespace Bee2V.C01.FmtLen
open Bee2V.Gen.C01

/-! ### lengths of the conversions -/

theorem length_u16To (s : List Nat) : (u16To s).length = 2 * s.length := by
  induction s with
  | nil => rfl
  | cons x xs ih => simp only [u16To, List.length_cons, ih]; omega

theorem length_u16From (b : Bytes) : (u16From b).length = b.length / 2 := by
  match b with
  | [] => rfl
  | [_] => simp [u16From]
  | b0 :: b1 :: rest =>
    simp only [u16From, List.length_cons, length_u16From rest]
    omega

theorem length_zeros' (n : Nat) : (zeros n).length = n := by simp [zeros]

theorem length_xorb' (a b : Bytes) : (xorb a b).length = min a.length b.length := by
  simp [xorb, List.length_zipWith]

theorem length_xorLow (b : Bytes) (c : UInt8) : (xorLow b c).length = b.length := by
  cases b <;> rfl

/-- `beltFMTCalcB(65536, n) = ceil(16 n / 64)`: no special case has the alphabet 65536 -/
theorem calcB_65536 (n : Nat) : calcB 65536 n = (16 * n + 63) / 64 := by
  simp [calcB, fmtSpecial, fmt65536]

theorem length_str2bin_65536 (b : Nat) (str : List Nat) (h : 2 * str.length ≤ 8 * b) :
    (str2bin b 65536 str).length = 8 * b := by
  simp only [str2bin, beq_self_eq_true, if_true, List.length_append, length_u16To, length_zeros']
  omega

theorem length_H : H.toList.length = 256 := by decide +kernel

theorem length_tailH (off : Nat) (h : off ≤ 20) : ((H.toList.drop off).take 4).length = 4 := by
  simp only [List.length_take, List.length_drop, length_H]; omega

theorem length_tailIv (iv24 : Bytes) (off : Nat) (hl : iv24.length = 24) (h : off ≤ 20) :
    ((iv24.drop off).take 4).length = 4 := by
  simp only [List.length_take, List.length_drop, hl]; omega

/-! ### belt-32block keeps 24 octets -/

theorem length_b32Encr (C : Cipher) (hlen : ∀ k x, x.length = 16 → (C.enc k x).length = 16)
    (key blk : Bytes) (h : blk.length = 24) : (b32Encr C key blk).length = 24 := by
  have h0 : (blk.take 8).length = 8 := by simp only [List.length_take]; omega
  have h1 : ((blk.drop 8).take 8).length = 8 := by simp only [List.length_take, List.length_drop]; omega
  have h2 : ((blk.drop 16).take 8).length = 8 := by simp only [List.length_take, List.length_drop]; omega
  simp only [b32Encr]
  generalize blk.take 8 = a0 at h0 ⊢
  generalize (blk.drop 8).take 8 = a1 at h1 ⊢
  generalize (blk.drop 16).take 8 = a2 at h2 ⊢
  have e1 : (C.enc key (a1 ++ a2)).length = 16 := hlen _ _ (by simp only [List.length_append]; omega)
  generalize C.enc key (a1 ++ a2) = E1 at e1 ⊢
  have e2 : (C.enc key (E1.drop 8 ++ xorb a0 (xorLow (E1.take 8) 1))).length = 16 :=
    hlen _ _ (by simp only [List.length_append, List.length_drop, length_xorb', length_xorLow, List.length_take]; omega)
  generalize C.enc key (E1.drop 8 ++ xorb a0 (xorLow (E1.take 8) 1)) = E2 at e2 ⊢
  have e3 : (C.enc key (E2.drop 8 ++ xorb (xorLow (E1.take 8) 1) (xorLow (E2.take 8) 2))).length = 16 :=
    hlen _ _ (by simp only [List.length_append, List.length_drop, length_xorb', length_xorLow, List.length_take]; omega)
  generalize C.enc key (E2.drop 8 ++ xorb (xorLow (E1.take 8) 1) (xorLow (E2.take 8) 2)) = E3 at e3 ⊢
  simp only [List.length_append, List.length_drop, length_xorb', length_xorLow, List.length_take]
  omega

/-! ### the keyed function -/

/-- the keyed function of a half-round keeps the `8 b + 8` octets of its buffer, whichever of the three
primitives (block, belt-32block, WBL) it selects; `mod = 65536`, offsets of the real rounds -/
theorem length_fmtF (C : Cipher) (hlen : ∀ k x, x.length = 16 → (C.enc k x).length = 16)
    (st : FmtSt) (hm : st.mod = 65536) (b : Nat) (str : List Nat) (off : Nat) (iv24 : Bytes)
    (hb1 : 1 ≤ b) (hs : 2 * str.length ≤ 8 * b) (hoff : off ≤ 20) (hiv : iv24.length = 24) :
    (fmtF C st b str off iv24).length = 8 * b + 8 := by
  have hbuf : (str2bin b st.mod str ++ (H.toList.drop off).take 4 ++ (iv24.drop off).take 4).length = 8 * b + 8 := by
    rw [List.length_append, List.length_append, hm, length_str2bin_65536 b str hs, length_tailH off hoff,
      length_tailIv iv24 off hiv hoff]
  simp only [fmtF]
  generalize str2bin b st.mod str ++ (H.toList.drop off).take 4 ++ (iv24.drop off).take 4 = buf at hbuf ⊢
  by_cases c1 : b = 1
  · subst c1
    simp only [beq_self_eq_true, if_true]
    exact hlen _ _ hbuf
  · have c1' : (b == 1) = false := by simpa using c1
    by_cases c2 : b = 2
    · subst c2
      simp only [c1', Bool.false_eq_true, if_false, beq_self_eq_true, if_true]
      exact length_b32Encr C hlen _ _ hbuf
    · have c2' : (b == 2) = false := by simpa using c2
      simp only [c1', c2', Bool.false_eq_true, if_false]
      rw [(wblStepD_wblStepE C hlen st.key buf (by omega)).2, hbuf]

/-! ### the Feistel rounds with the restricted length hypothesis -/

/-- `FmtLenOk` restricted to the offsets used by the three rounds (`8 i`, `8 i + 4`, `i ≤ 2`) -/
def FmtLenOk' (C : Cipher) (st : FmtSt) (iv24 : Bytes) : Prop :=
  st.mod = 65536 → ∀ (str : List Nat) (off : Nat), off ≤ 20 →
    (str.length = st.n2 → st.n1 ≤ (u16From (fmtF C st st.b2 str off iv24)).length) ∧
    (str.length = st.n1 → st.n2 ≤ (u16From (fmtF C st st.b1 str off iv24)).length)

theorem fmtLenOk'_of_fmtLenOk (C : Cipher) (st : FmtSt) (iv24 : Bytes) (h : FmtLenOk C st iv24) :
    FmtLenOk' C st iv24 := fun hm str off _ => h hm str off

theorem length_fmtIv (st : FmtSt) (iv : Option Bytes) (hf : st.fmt.length = 4)
    (hiv : ∀ v, iv = some v → v.length = 16) : (fmtIv st iv).length = 24 := by
  cases iv with
  | none => simp only [fmtIv, List.length_append, hf, length_zeros']
  | some v => simp only [fmtIv, List.length_append, hf, hiv v rfl]

/-- the state built by `beltFMTStart(65536, count)` satisfies the length condition, for every word
length `count ≥ 2`, every key, every IV (NULL or 16 octets) -/
theorem fmtLenOk'_start (C : Cipher) (hlen : ∀ k x, x.length = 16 → (C.enc k x).length = 16)
    (count : Nat) (hc : 2 ≤ count) (key : Bytes) (iv : Option Bytes) (hiv : ∀ v, iv = some v → v.length = 16) :
    FmtLenOk' C (fmtStart 65536 count key) (fmtIv (fmtStart 65536 count key) iv) := by
  intro _ str off hoff
  have hl24 : (fmtIv (fmtStart 65536 count key) iv).length = 24 := length_fmtIv _ iv rfl hiv
  generalize fmtIv (fmtStart 65536 count key) iv = iv24 at hl24 ⊢
  have hmod : (fmtStart 65536 count key).mod = 65536 := rfl
  have hn1 : (fmtStart 65536 count key).n1 = (count + 1) / 2 := rfl
  have hn2 : (fmtStart 65536 count key).n2 = count / 2 := rfl
  have hb1 : (fmtStart 65536 count key).b1 = (16 * ((count + 1) / 2) + 63) / 64 := calcB_65536 _
  have hb2 : (fmtStart 65536 count key).b2 = (16 * (count / 2) + 63) / 64 := calcB_65536 _
  generalize fmtStart 65536 count key = st at hmod hn1 hn2 hb1 hb2 ⊢
  constructor
  · intro hs
    rw [length_u16From, length_fmtF C hlen st hmod st.b2 str off iv24 (by omega) (by omega) hoff hl24]
    omega
  · intro hs
    rw [length_u16From, length_fmtF C hlen st hmod st.b1 str off iv24 (by omega) (by omega) hoff hl24]
    omega

theorem fmtRoundD_fmtRoundE (C : Cipher) (st : FmtSt) (iv24 : Bytes) (i : Nat) (hi : i ≤ 2) (buf : List Nat)
    (hm2 : 2 ≤ st.mod) (hm : st.mod ≤ 65536) (hlen : buf.length = st.n1 + st.n2) (hd : ∀ d ∈ buf, d < st.mod)
    (hF : FmtLenOk' C st iv24) :
    fmtRoundD C st iv24 i (fmtRoundE C st iv24 i buf) = buf := by
  have hl : (buf.take st.n1).length = st.n1 := by simp only [List.length_take]; omega
  have hr : (buf.drop st.n1).length = st.n2 := by simp only [List.length_drop]; omega
  have hdl : ∀ d ∈ buf.take st.n1, d < st.mod := fun d h => hd d (List.mem_of_mem_take h)
  have hdr : ∀ d ∈ buf.drop st.n1, d < st.mod := fun d h => hd d (List.mem_of_mem_drop h)
  simp only [fmtRoundE, fmtRoundD]
  generalize hb1 : fmtF C st st.b2 (List.drop st.n1 buf) (8 * i) iv24 = bin1
  have hlen1 : st.mod = 65536 → (buf.take st.n1).length ≤ (u16From bin1).length := by
    intro h; rw [hl, ← hb1]; exact (hF h _ _ (by omega)).1 hr
  have hl' : (bin2strAdd st.mod (List.take st.n1 buf) bin1).length = st.n1 := by
    rw [length_bin2strAdd _ _ _ hlen1, hl]
  generalize hb2 : fmtF C st st.b1 (bin2strAdd st.mod (List.take st.n1 buf) bin1) (8 * i + 4) iv24 = bin2
  have hlen2 : st.mod = 65536 → (buf.drop st.n1).length ≤ (u16From bin2).length := by
    intro h; rw [hr, ← hb2]; exact (hF h _ _ (by omega)).2 hl'
  rw [List.take_left' hl', List.drop_left' hl', hb2]
  rw [bin2strSub_bin2strAdd st.mod hm2 hm _ bin2 hdr hlen2, hb1]
  rw [bin2strSub_bin2strAdd st.mod hm2 hm _ bin1 hdl hlen1]
  exact List.take_append_drop _ _

theorem fmtRoundE_length (C : Cipher) (st : FmtSt) (iv24 : Bytes) (i : Nat) (hi : i ≤ 2) (buf : List Nat)
    (hlen : buf.length = st.n1 + st.n2) (hF : FmtLenOk' C st iv24) :
    (fmtRoundE C st iv24 i buf).length = st.n1 + st.n2 := by
  have hl : (buf.take st.n1).length = st.n1 := by simp only [List.length_take]; omega
  have hr : (buf.drop st.n1).length = st.n2 := by simp only [List.length_drop]; omega
  simp only [fmtRoundE, List.length_append]
  have h1 : (bin2strAdd st.mod (List.take st.n1 buf) (fmtF C st st.b2 (List.drop st.n1 buf) (8 * i) iv24)).length = st.n1 := by
    rw [length_bin2strAdd _ _ _ (fun h => by rw [hl]; exact (hF h _ _ (by omega)).1 hr), hl]
  rw [h1, length_bin2strAdd _ _ _ (fun h => by rw [hr]; exact (hF h _ _ (by omega)).2 h1), hr]

theorem length_fmtStepE (C : Cipher) (st : FmtSt) (iv : Option Bytes) (buf : List Nat)
    (hlen : buf.length = st.n1 + st.n2) (hF : FmtLenOk' C st (fmtIv st iv)) :
    (fmtStepE C st iv buf).length = buf.length := by
  simp only [fmtStepE]
  rw [fmtRoundE_length C st _ 2 (by omega) _ (fmtRoundE_length C st _ 1 (by omega) _
    (fmtRoundE_length C st _ 0 (by omega) _ hlen hF) hF) hF, hlen]

theorem fmtStepD_fmtStepE (C : Cipher) (st : FmtSt) (iv : Option Bytes) (buf : List Nat)
    (hm2 : 2 ≤ st.mod) (hm : st.mod ≤ 65536) (hlen : buf.length = st.n1 + st.n2) (hd : ∀ d ∈ buf, d < st.mod)
    (hF : FmtLenOk' C st (fmtIv st iv)) :
    fmtStepD C st iv (fmtStepE C st iv buf) = buf := by
  simp only [fmtStepE, fmtStepD]
  have l0 := fmtRoundE_length C st (fmtIv st iv) 0 (by omega) buf hlen hF
  have l1 := fmtRoundE_length C st (fmtIv st iv) 1 (by omega) _ l0 hF
  rw [fmtRoundD_fmtRoundE C st _ 2 (by omega) _ hm2 hm l1 (fmtRoundE_lt C st _ 1 _ hm2) hF]
  rw [fmtRoundD_fmtRoundE C st _ 1 (by omega) _ hm2 hm l0 (fmtRoundE_lt C st _ 0 _ hm2) hF]
  exact fmtRoundD_fmtRoundE C st _ 0 (by omega) _ hm2 hm hlen hd hF

end Bee2V.C01.FmtLen

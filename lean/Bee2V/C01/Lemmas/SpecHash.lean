/-
C01 helper lemmas: the models of belt_mac.c / belt_compr.c / belt_hash.c / belt_hmac.c / belt_krp.c /
belt_pbkdf.c against the standards-level definitions of SpecHash.lean.
-/
import Bee2V.C01.SpecHash
import Bee2V.C01.Lemmas.Chunk
import Bee2V.C01.Lemmas.Aead
import Bee2V.C01.Lemmas.SpecBlock
namespace Bee2V.C01.SpecHashL
open Bee2V.C01

/-! ### octet strings -/

theorem xorb_assoc (a b c : Bytes) : xorb (xorb a b) c = xorb a (xorb b c) := by
  unfold xorb
  induction a generalizing b c with
  | nil => simp
  | cons x xs ih =>
    cases b with
    | nil => simp
    | cons y ys =>
      cases c with
      | nil => simp
      | cons z zs => simp only [List.zipWith_cons_cons, ih, UInt8.xor_assoc]

theorem length_xorb (a b : Bytes) : (xorb a b).length = min a.length b.length := by
  simp only [xorb, List.length_zipWith]

theorem u8_not_eq_xor (x : UInt8) : ~~~x = x ^^^ 0xFF := by
  have h : ∀ n, n < 256 → ~~~(UInt8.ofNat n) = UInt8.ofNat n ^^^ 0xFF := by decide +kernel
  have := h x.toNat x.toNat_lt
  rwa [UInt8.ofNat_toNat] at this

theorem negb_eq_xor (a : Bytes) : ∀ n : Nat, a.length ≤ n → negb a = xorb a (List.replicate n 0xFF) := by
  induction a with
  | nil => intro n _; simp [negb, xorb]
  | cons x xs ih =>
    intro n h
    cases n with
    | zero => simp at h
    | succ n =>
      have := ih n (by simpa using h)
      simp only [negb, xorb, List.map_cons, List.replicate_succ, List.zipWith_cons_cons, u8_not_eq_xor] at this ⊢
      rw [this]

theorem length_zeros (n : Nat) : (zeros n).length = n := by simp only [zeros, List.length_replicate]

/-! ### the four 128-bit words of `X ‖ h` -/

theorem take32_append (X h : Bytes) (hX : X.length = 32) : (X ++ h).take 32 = X := List.take_left' hX

theorem blockAt_u1 (X h : Bytes) (hX : X.length = 32) : Spec.blockAt 16 (X ++ h) 0 = X.take 16 := by
  simp only [Spec.blockAt, Nat.mul_zero, List.drop_zero]
  exact List.take_append_of_le_length (by omega)

theorem blockAt_u2 (X h : Bytes) (hX : X.length = 32) : Spec.blockAt 16 (X ++ h) 1 = X.drop 16 := by
  simp only [Spec.blockAt, Nat.mul_one]
  rw [List.drop_append_of_le_length (by omega)]
  exact List.take_left' (by simp only [List.length_drop]; omega)

theorem blockAt_u3 (X h : Bytes) (hX : X.length = 32) : Spec.blockAt 16 (X ++ h) 2 = h.take 16 := by
  simp only [Spec.blockAt]
  rw [show 16 * 2 = 32 from rfl, List.drop_left' hX]

theorem blockAt_u4 (X h : Bytes) (hX : X.length = 32) (hh : h.length = 32) :
    Spec.blockAt 16 (X ++ h) 3 = h.drop 16 := by
  simp only [Spec.blockAt]
  have e : 16 * 3 = X.length + 16 := by omega
  rw [e, List.drop_append]
  rw [List.drop_of_length_le (by omega), List.nil_append, Nat.add_sub_cancel_left]
  exact List.take_of_length_le (by simp only [List.length_drop]; omega)

/-- the model of `beltCompr2` is `s ← s ⊕ sigma1(X ‖ h)`, `h ← sigma2(X ‖ h)` -/
theorem compr2_eq (C : Cipher) (s h X : Bytes) (hX : X.length = 32) (hh : h.length = 32) :
    compr2 C s h X = (xorb s (Spec.sigma1 C.enc (X ++ h)), Spec.sigma2 C.enc (X ++ h)) := by
  have e1 : Spec.sigma1 C.enc (X ++ h) =
      xorb (C.enc X (xorb (h.take 16) (h.drop 16))) (xorb (h.take 16) (h.drop 16)) := by
    simp only [Spec.sigma1, take32_append X h hX, blockAt_u3 X h hX, blockAt_u4 X h hX hh, xorb_assoc]
  have hl : (xorb (C.enc X (xorb (h.take 16) (h.drop 16))) (xorb (h.take 16) (h.drop 16))).length ≤ 16 := by
    simp only [length_xorb, List.length_take, List.length_drop]; omega
  simp only [Spec.sigma2, e1, blockAt_u1 X h hX, blockAt_u2 X h hX, blockAt_u3 X h hX,
    blockAt_u4 X h hX hh, compr2, Spec.ones128, negb_eq_xor _ 16 hl]

/-- `beltCompr` is `sigma2(X ‖ h)` -/
theorem compr_eq (C : Cipher) (h X : Bytes) (hX : X.length = 32) (hh : h.length = 32) :
    compr C h X = Spec.sigma2 C.enc (X ++ h) := by
  rw [compr, compr2_eq C _ h X hX hh]

/-! ### lengths, for a cipher that preserves the block length -/

section lengths
variable (C : Cipher) (hlen : ∀ k x : Bytes, x.length = 16 → (C.enc k x).length = 16)
include hlen

theorem length_sigma1 (u : Bytes) (hu : u.length = 64) : (Spec.sigma1 C.enc u).length = 16 := by
  have h3 : (Spec.blockAt 16 u 2).length = 16 := by
    simp only [Spec.blockAt, List.length_take, List.length_drop]; omega
  have h4 : (Spec.blockAt 16 u 3).length = 16 := by
    simp only [Spec.blockAt, List.length_take, List.length_drop]; omega
  simp only [Spec.sigma1, length_xorb, h3, h4, hlen _ _ (show (xorb (Spec.blockAt 16 u 2)
    (Spec.blockAt 16 u 3)).length = 16 by simp only [length_xorb, h3, h4, Nat.min_self]), Nat.min_self]

theorem length_sigma2 (u : Bytes) (hu : u.length = 64) : (Spec.sigma2 C.enc u).length = 32 := by
  have h1 : (Spec.blockAt 16 u 0).length = 16 := by
    simp only [Spec.blockAt, List.length_take, List.length_drop]; omega
  have h2 : (Spec.blockAt 16 u 1).length = 16 := by
    simp only [Spec.blockAt, List.length_take, List.length_drop]; omega
  simp only [Spec.sigma2, List.length_append, length_xorb, h1, h2, hlen _ _ h1, hlen _ _ h2, Nat.min_self]

end lengths

/-! ### belt-hash: the compression chain of the model is the chain of the standard -/

/-- the iteration of `Spec.hashChain`, any number of steps from any start -/
def specFold (E : Spec.BlockFn) (X : Bytes) (n : Nat) (sh : Bytes × Bytes) : Bytes × Bytes :=
  (List.range n).foldl
    (fun (sh : Bytes × Bytes) i =>
      (xorb sh.1 (Spec.sigma1 E (Spec.hashBlock X i ++ sh.2)), Spec.sigma2 E (Spec.hashBlock X i ++ sh.2))) sh

theorem specFold_succ (E : Spec.BlockFn) (X : Bytes) (n : Nat) (sh : Bytes × Bytes) :
    specFold E X (n + 1) sh =
      (xorb (specFold E X n sh).1 (Spec.sigma1 E (Spec.hashBlock X n ++ (specFold E X n sh).2)),
       Spec.sigma2 E (Spec.hashBlock X n ++ (specFold E X n sh).2)) := by
  simp only [specFold, List.range_succ, List.foldl_append, List.foldl_cons, List.foldl_nil]

theorem comprChain_succ_right (C : Cipher) (n : Nat) (sh : Bytes × Bytes) (X : Bytes) :
    comprChain C (n + 1) sh X =
      compr2 C (comprChain C n sh X).1 (comprChain C n sh X).2 (Spec.blockAt 32 X n) := by
  rw [comprChain_add]; rfl

theorem length_blockAt_full (X : Bytes) (n : Nat) (h : 32 * (n + 1) ≤ X.length) :
    (Spec.blockAt 32 X n).length = 32 := by
  simp only [Spec.blockAt, List.length_take, List.length_drop]; omega

theorem hashBlock_full (X : Bytes) (n : Nat) (h : 32 * (n + 1) ≤ X.length) :
    Spec.hashBlock X n = Spec.blockAt 32 X n := by
  simp only [Spec.hashBlock, length_blockAt_full X n h, Nat.sub_self, zeros, List.replicate_zero, List.append_nil]

theorem length_hashBlock (X : Bytes) (n : Nat) : (Spec.hashBlock X n).length = 32 := by
  simp only [Spec.hashBlock, List.length_append, length_zeros, Spec.blockAt, List.length_take, List.length_drop]
  omega

section chain
variable (C : Cipher) (hlen : ∀ k x : Bytes, x.length = 16 → (C.enc k x).length = 16)
include hlen

/-- one step keeps `|s| = 16`, `|h| = 32` -/
theorem length_step (s h B : Bytes) (hs : s.length = 16) (hh : h.length = 32) (hB : B.length = 32) :
    (xorb s (Spec.sigma1 C.enc (B ++ h))).length = 16 ∧ (Spec.sigma2 C.enc (B ++ h)).length = 32 := by
  have hu : (B ++ h).length = 64 := by simp only [List.length_append, hB, hh]
  exact ⟨by rw [length_xorb, length_sigma1 C hlen _ hu, hs, Nat.min_self], length_sigma2 C hlen _ hu⟩

theorem length_specFold (X : Bytes) (n : Nat) (sh : Bytes × Bytes) (hs : sh.1.length = 16)
    (hh : sh.2.length = 32) :
    (specFold C.enc X n sh).1.length = 16 ∧ (specFold C.enc X n sh).2.length = 32 := by
  induction n with
  | zero => exact ⟨hs, hh⟩
  | succ n ih =>
    rw [specFold_succ]
    exact length_step C hlen _ _ _ ih.1 ih.2 (length_hashBlock X n)

theorem comprChain_eq_specFold (X : Bytes) (sh : Bytes × Bytes) (hh : sh.2.length = 32) (hs : sh.1.length = 16) :
    ∀ n : Nat, 32 * n ≤ X.length → comprChain C n sh X = specFold C.enc X n sh := by
  intro n
  induction n with
  | zero => intro _; rfl
  | succ n ih =>
    intro hn
    have l := length_specFold C hlen X n sh hs hh
    rw [comprChain_succ_right, ih (by omega), specFold_succ,
      compr2_eq C _ _ _ (length_blockAt_full X n hn) l.2, hashBlock_full X n hn]

/-- the digest computed by the model from the compression chain, the pending octets and the length block `L`
is `sigma2(L ‖ s ‖ h)` over the chain of the standard -/
theorem spongeOut_eq (L X : Bytes) (hL : L.length = 16) :
    spongeOut C L (zeros 16) Spec.hashInit X =
      Spec.sigma2 C.enc (L ++ (Spec.hashChain C.enc X).1 ++ (Spec.hashChain C.enc X).2) := by
  have hi : Spec.hashInit.length = 32 := by decide +kernel
  have hc := comprChain_eq_specFold C hlen X (zeros 16, Spec.hashInit) hi (length_zeros 16) (X.length / 32)
    (by omega)
  have l := length_specFold C hlen X (X.length / 32) (zeros 16, Spec.hashInit) (length_zeros 16) hi
  unfold spongeOut
  by_cases hr : X.length % 32 ≠ 0
  · have hn : (X.length + 31) / 32 = X.length / 32 + 1 := by omega
    have hb : X.drop (32 * (X.length / 32)) ++ zeros (32 - X.length % 32) = Spec.hashBlock X (X.length / 32) := by
      have e : Spec.blockAt 32 X (X.length / 32) = X.drop (32 * (X.length / 32)) :=
        List.take_of_length_le (by simp only [List.length_drop]; omega)
      have el : (X.drop (32 * (X.length / 32))).length = X.length % 32 := by
        simp only [List.length_drop]; omega
      simp only [Spec.hashBlock, e, el]
    have l' := length_specFold C hlen X (X.length / 32 + 1) (zeros 16, Spec.hashInit) (length_zeros 16) hi
    simp only [hr, ne_eq, not_false_eq_true, if_true, hc, hb]
    rw [compr2_eq C _ _ _ (length_hashBlock X _) l.2]
    simp only [Spec.hashChain, hn]
    rw [← specFold, specFold_succ]
    rw [specFold_succ] at l'
    rw [compr_eq C _ _ (by simp only [List.length_append, hL, l'.1]) l'.2]
  · have hn : (X.length + 31) / 32 = X.length / 32 := by omega
    simp only [hr, if_false, hc, Spec.hashChain, hn]
    rw [← specFold, compr_eq C _ _ (by simp only [List.length_append, hL, l.1]) l.2]

end chain

/-- the table used by the model is the table of the standard -/
theorem hInit_eq : hInit = Spec.hashInit := by decide +kernel

/-- the length block of the model is `<|X|>_128` -/
theorem addBitSize_eq_bitLen (n : Nat) (hn : n < 2 ^ 64) : addBitSizeBlock (zeros 16) n = Spec.bitLen128 n := by
  apply Aead.eq_of_leNat_eq
  · rw [Aead.length_addBitSizeBlock _ _ rfl, Spec.bitLen128, Aead.length_natLE]
  · rw [Aead.addBitSizeBlock_val _ _ rfl hn, Spec.bitLen128, Aead.leNat_natLE]
    have h0 : leNat (zeros 16) = 0 := by decide
    have hp : (256 : Nat) ^ 16 = 2 ^ 128 := by decide
    rw [h0, hp, Nat.zero_add]

theorem length_bitLen128 (n : Nat) : (Spec.bitLen128 n).length = 16 := Aead.length_natLE _ _

/-- the digest held by the model after absorbing `X` from the initial state, `|X| < 2^64` octets -/
theorem hashOut_eq (C : Cipher) (hlen : ∀ k x : Bytes, x.length = 16 → (C.enc k x).length = 16) (X : Bytes)
    (hX : X.length < 2 ^ 64) :
    hashOutSpec C (addBitSizeBlock (zeros 16) X.length) X = Spec.hash C.enc X := by
  rw [hashOutSpec, hInit_eq, addBitSize_eq_bitLen _ hX, spongeOut_eq C hlen _ _ (length_bitLen128 _)]
  rfl

theorem length_hash (C : Cipher) (hlen : ∀ k x : Bytes, x.length = 16 → (C.enc k x).length = 16) (X : Bytes) :
    (Spec.hash C.enc X).length = 32 := by
  have l := length_specFold C hlen X ((X.length + 31) / 32) (zeros 16, Spec.hashInit) (length_zeros 16)
    (by decide +kernel)
  apply length_sigma2 C hlen
  simp only [List.length_append, length_bitLen128, Spec.hashChain]
  rw [← specFold, l.1, l.2]

/-! ### belt-mac -/

theorem macChain_eq_fold (C : Cipher) (k X : Bytes) (s : Bytes) (n : Nat) :
    macChain C k n s X = (List.range n).foldl (fun s i => C.enc k (xorb s (Spec.blockAt 16 X i))) s := by
  induction n with
  | zero => rfl
  | succ n ih =>
    rw [macChain_succ_right, ih, List.range_succ, List.foldl_append]
    rfl

theorem macBlockCount_pred (X : Bytes) : Spec.macBlockCount X - 1 = macNb X := by
  simp only [Spec.macBlockCount, macNb]; omega

theorem blockAt_last_mac (X : Bytes) : Spec.blockAt 16 X (macNb X) = macPend X := by
  simp only [Spec.blockAt, macPend]
  exact List.take_of_length_le (by simp only [List.length_drop, macNb]; omega)

/-- the closed form of the tag block read off the state machine is belt-mac of the standard -/
theorem macTagSpec_eq (C : Cipher) (k X : Bytes) :
    macTagSpec C k (C.enc k (zeros 16)) X = Spec.macFull C.enc k X := by
  have hz : 16 - (macPend X).length - 1 = 15 - (macPend X).length := by omega
  simp only [macTagSpec, Spec.macFull, macBlockCount_pred, blockAt_last_mac, macS, macChain_eq_fold,
    Spec.phi1, Spec.phi2, Spec.word32, Nat.mul_zero, Nat.mul_one, List.drop_zero, Nat.reduceMul, hz]
  split <;> rfl

/-! ### HMAC -/

theorem addBitSize_add (b : Bytes) (m n : Nat) (hl : b.length = 16) (hmn : m + n < 2 ^ 64) :
    addBitSizeBlock (addBitSizeBlock b m) n = addBitSizeBlock b (m + n) := by
  have l1 := Aead.length_addBitSizeBlock b m hl
  apply Aead.eq_of_leNat_eq
  · rw [Aead.length_addBitSizeBlock _ n l1, Aead.length_addBitSizeBlock b (m + n) hl]
  · rw [Aead.addBitSizeBlock_val _ n l1 (by omega), Aead.addBitSizeBlock_val b m hl (by omega),
      Aead.addBitSizeBlock_val b (m + n) hl hmn]
    omega

/-- a first full block may be compressed in advance -/
theorem spongeOut_prepend (C : Cipher) (L s0 h0 B X : Bytes) (hB : B.length = 32) :
    spongeOut C L (compr2 C s0 h0 B).1 (compr2 C s0 h0 B).2 X = spongeOut C L s0 h0 (B ++ X) := by
  have hl : (B ++ X).length = 32 + X.length := by simp only [List.length_append, hB]
  have hn : (32 + X.length) / 32 = X.length / 32 + 1 := by omega
  have hm : (32 + X.length) % 32 = X.length % 32 := by omega
  simp only [spongeOut, hl, hn, hm, comprChain, List.take_left' hB, List.drop_left' hB,
    chunk_drop_block32 B X _ hB]

theorem spongeOut_nil (C : Cipher) (L s h : Bytes) : spongeOut C L s h [] = compr C h (L ++ s) := by
  simp [spongeOut, comprChain]

/-- the loop over the full blocks of a long key in `beltHMACStart` -/
theorem hmacKey_loop (C : Cipher) :
    ∀ (m : Nat) (Y : Bytes) (sh : Bytes × Bytes), Y.length / 32 = m →
      fullBlocks 32 (fun (sh : Bytes × Bytes) b => (compr2 C sh.1 sh.2 b, ([] : Bytes))) sh Y =
        (comprChain C m sh Y, [], Y.drop (32 * m)) := by
  intro m
  induction m with
  | zero =>
    intro Y sh hm
    rw [gl_stop _ _ _ _ (by omega)]
    simp [comprChain]
  | succ m ih =>
    intro Y sh hm
    have hY : 32 ≤ Y.length := by omega
    rw [gl_step 32 (by omega) _ _ _ hY, ih _ _ (by simp only [List.length_drop]; omega)]
    simp only [List.nil_append, comprChain, List.drop_drop]
    have e2 : 32 + 32 * m = 32 * (m + 1) := by omega
    rw [e2]

/-- `K0` as computed by `beltHMACStart` -/
def modelK0 (C : Cipher) (key : Bytes) : Bytes :=
  if key.length ≤ 32 then key ++ zeros (32 - key.length)
  else spongeOut C (addBitSizeBlock (zeros 16) key.length) (zeros 16) hInit key

theorem hmacStart_eq (C : Cipher) (key : Bytes) :
    hmacStart C key =
      ⟨addBitSizeBlock (zeros 16) 32 ++ (compr2 C (zeros 16) hInit ((modelK0 C key).map (· ^^^ 0x36))).1,
       (compr2 C (zeros 16) hInit ((modelK0 C key).map (· ^^^ 0x36))).2, zeros 32,
       addBitSizeBlock (zeros 16) 64 ++
         (compr2 C (zeros 16) hInit (((modelK0 C key).map (· ^^^ 0x36)).map (· ^^^ 0x6A))).1,
       (compr2 C (zeros 16) hInit (((modelK0 C key).map (· ^^^ 0x36)).map (· ^^^ 0x6A))).2, zeros 32,
       zeros 16, ((modelK0 C key).map (· ^^^ 0x36)).map (· ^^^ 0x6A), 0⟩ := by
  have hk : (if key.length ≤ 32 then key ++ zeros (32 - key.length)
      else
        let len := addBitSizeBlock (zeros 16) key.length
        let l := fullBlocks 32 (fun (sh : Bytes × Bytes) b => (compr2 C sh.1 sh.2 b, [])) (zeros 16, hInit) key
        let r := l.2.2
        let sh := if r.length ≠ 0 then compr2 C l.1.1 l.1.2 (r ++ zeros (32 - r.length)) else l.1
        compr C sh.2 (len ++ sh.1)) = modelK0 C key := by
    unfold modelK0
    by_cases h : key.length ≤ 32
    · simp only [h, if_true]
    · simp only [h, if_false]
      rw [hmacKey_loop C _ key _ rfl]
      have hrl : (key.drop (32 * (key.length / 32))).length = key.length % 32 := by
        simp only [List.length_drop]; omega
      unfold spongeOut
      by_cases hr : key.length % 32 ≠ 0
      · simp only [hrl, hr, ne_eq, not_false_eq_true, if_true]
      · simp only [hrl, hr, if_false]
  unfold hmacStart
  simp only [hk]

theorem length_modelK0_short (C : Cipher) (key : Bytes) (hk : key.length ≤ 32) : (modelK0 C key).length = 32 := by
  simp only [modelK0, hk, if_true, List.length_append, length_zeros]; omega

theorem xor_pads (x : UInt8) : x ^^^ 0x36 ^^^ 0x6A = x ^^^ 0x5C := by
  rw [UInt8.xor_assoc]; rfl

section hmac
variable (C : Cipher) (hlen : ∀ k x : Bytes, x.length = 16 → (C.enc k x).length = 16)
include hlen

theorem spongeOut_eq_hash (X : Bytes) (hX : X.length < 2 ^ 64) :
    spongeOut C (addBitSizeBlock (zeros 16) X.length) (zeros 16) hInit X = Spec.hash C.enc X :=
  hashOut_eq C hlen X hX

theorem modelK0_eq (key : Bytes) (hk : key.length < 2 ^ 64) : modelK0 C key = Spec.hmacKey C.enc key := by
  unfold modelK0 Spec.hmacKey
  by_cases h : key.length ≤ 32
  · simp only [h, if_true]
  · simp only [h, if_false]
    exact spongeOut_eq_hash C hlen key hk

theorem length_hmacKey (key : Bytes) : (Spec.hmacKey C.enc key).length = 32 := by
  unfold Spec.hmacKey
  by_cases h : key.length ≤ 32
  · simp only [h, if_true, List.length_append, length_zeros]; omega
  · simp only [h, if_false]
    exact length_hash C hlen key

/-- the start state has a 32-octet buffer, for every key length -/
theorem length_hmacStart_block (key : Bytes) (hk : key.length < 2 ^ 64) : (hmacStart C key).block.length = 32 := by
  rw [hmacStart_eq]
  simp only [List.length_map, modelK0_eq C hlen key hk, length_hmacKey C hlen key]

/-- The outer digest read off an HMAC state that describes the data `X` is HMAC of the standard. -/
theorem hmacOut_eq (key X : Bytes) (hk : key.length < 2 ^ 64) (hX : 32 + X.length < 2 ^ 64) (st : HmacSt)
    (inv : HmacInv C (addBitSizeBlock (zeros 16) (32 + X.length)) ((hmacStart C key).ls_in.drop 16)
      (hmacStart C key).h_in (hmacStart C key).ls_out (hmacStart C key).h_out X st) :
    (hmacStepGInternal C st).h1_out = Spec.hmac C.enc key X := by
  have hK := modelK0_eq C hlen key hk
  have hKl := length_hmacKey C hlen key
  have l16 : ∀ n, (addBitSizeBlock (zeros 16) n).length = 16 := fun n => Aead.length_addBitSizeBlock _ _ rfl
  rw [hmacInv_out inv, hmacStart_eq, hmacOutSpec]
  simp only [List.drop_left' (l16 32), List.drop_left' (l16 64), List.take_left' (l16 64)]
  have hip : ((modelK0 C key).map (· ^^^ 0x36)).length = 32 := by rw [List.length_map, hK, hKl]
  have hop : (((modelK0 C key).map (· ^^^ 0x36)).map (· ^^^ 0x6A)).length = 32 := by
    rw [List.length_map, hip]
  rw [spongeOut_prepend C _ _ _ _ X hip]
  have e1 : spongeOut C (addBitSizeBlock (zeros 16) (32 + X.length)) (zeros 16) hInit
      ((modelK0 C key).map (· ^^^ 0x36) ++ X) = Spec.hash C.enc ((modelK0 C key).map (· ^^^ 0x36) ++ X) := by
    have := spongeOut_eq_hash C hlen ((modelK0 C key).map (· ^^^ 0x36) ++ X)
      (by simp only [List.length_append, hip]; exact hX)
    simpa only [List.length_append, hip] using this
  rw [e1]
  have hin : (Spec.hash C.enc ((modelK0 C key).map (· ^^^ 0x36) ++ X)).length = 32 := length_hash C hlen _
  have e2 := spongeOut_eq_hash C hlen
    (((modelK0 C key).map (· ^^^ 0x36)).map (· ^^^ 0x6A) ++ Spec.hash C.enc ((modelK0 C key).map (· ^^^ 0x36) ++ X))
    (by simp only [List.length_append, hop, hin]; omega)
  simp only [List.length_append, hop, hin] at e2
  rw [← spongeOut_prepend C _ _ _ _ _ hop] at e2
  have e3 := spongeOut_prepend C (addBitSizeBlock (zeros 16) 64)
    (compr2 C (zeros 16) hInit (((modelK0 C key).map (· ^^^ 0x36)).map (· ^^^ 0x6A))).1
    (compr2 C (zeros 16) hInit (((modelK0 C key).map (· ^^^ 0x36)).map (· ^^^ 0x6A))).2
    (Spec.hash C.enc ((modelK0 C key).map (· ^^^ 0x36) ++ X)) [] hin
  rw [List.append_nil, spongeOut_nil] at e3
  rw [e3, e2, Spec.hmac, hK]
  simp only [List.map_map, Function.comp_def, xor_pads]

end hmac

section hmac2
variable (C : Cipher) (hlen : ∀ k x : Bytes, x.length = 16 → (C.enc k x).length = 16)
include hlen

theorem hmacInv_start (key : Bytes) (hk : key.length < 2 ^ 64) :
    HmacInv C (addBitSizeBlock (zeros 16) 32) ((hmacStart C key).ls_in.drop 16)
      (hmacStart C key).h_in (hmacStart C key).ls_out (hmacStart C key).h_out [] (hmacStart C key) := by
  have l16 : (addBitSizeBlock (zeros 16) 32).length = 16 := Aead.length_addBitSizeBlock _ _ rfl
  have hl : 16 ≤ (hmacStart C key).ls_in.length := by
    show 16 ≤ (addBitSizeBlock (zeros 16) 32 ++ _).length
    rw [List.length_append, l16]; omega
  have ht : (hmacStart C key).ls_in.take 16 = addBitSizeBlock (zeros 16) 32 := by
    show (addBitSizeBlock (zeros 16) 32 ++ _).take 16 = _
    exact List.take_left' l16
  have := hmacInv_init C (hmacStart C key) hl (length_hmacStart_block C hlen key hk) rfl
  rwa [ht] at this

/-- `beltHMACStart; beltHMACStepA(X); beltHMACStepG` is HMAC of the standard -/
theorem hmac_oneshot (key X : Bytes) (hk : key.length < 2 ^ 64) (hX : 32 + X.length < 2 ^ 64) :
    (hmacStepGInternal C (hmacStepA C (hmacStart C key) X)).h1_out = Spec.hmac C.enc key X := by
  have inv := hmacInv_stepA (hmacInv_start C hlen key hk) X
  rw [addBitSize_add _ _ _ rfl hX, List.nil_append] at inv
  exact hmacOut_eq C hlen key X hk hX _ inv

/-- two fragments -/
theorem hmac_twoshot (key A B : Bytes) (hk : key.length < 2 ^ 64) (hX : 32 + (A.length + B.length) < 2 ^ 64) :
    (hmacStepGInternal C (hmacStepA C (hmacStepA C (hmacStart C key) A) B)).h1_out =
      Spec.hmac C.enc key (A ++ B) := by
  have inv := hmacInv_stepA (hmacInv_stepA (hmacInv_start C hlen key hk) A) B
  rw [addBitSize_add _ _ _ rfl (by omega), addBitSize_add _ _ _ rfl (by omega), List.nil_append] at inv
  exact hmacOut_eq C hlen key (A ++ B) hk (by simpa only [List.length_append] using hX) _
    (by simpa only [List.length_append] using inv)

theorem length_hmac (key X : Bytes) : (Spec.hmac C.enc key X).length = 32 := length_hash C hlen _

theorem length_pbkdfU (P S : Bytes) (i : Nat) : (Spec.pbkdfU C.enc P S i).length = 32 := by
  cases i <;> exact length_hmac C hlen _ _

/-- the iteration loop of `beltPBKDF2` -/
theorem pbkdfLoop_eq (pwd S : Bytes) (hk : pwd.length < 2 ^ 64) :
    ∀ (n j : Nat) (key : Bytes),
      pbkdfLoop C pwd n key (Spec.pbkdfU C.enc pwd S j) =
        (List.range n).foldl (fun acc i => xorb acc (Spec.pbkdfU C.enc pwd S (j + 1 + i))) key := by
  intro n
  induction n with
  | zero => intro j key; rfl
  | succ n ih =>
    intro j key
    have hU : (hmacStepG C (hmacStepA C (hmacStart C pwd) (Spec.pbkdfU C.enc pwd S j)) 32).2 =
        Spec.pbkdfU C.enc pwd S (j + 1) := by
      show (hmacStepGInternal C _).h1_out.take 32 = _
      rw [hmac_oneshot C hlen pwd _ hk (by rw [length_pbkdfU C hlen]; omega)]
      exact List.take_of_length_le (by rw [length_hmac C hlen]; omega)
    simp only [pbkdfLoop, hU]
    rw [ih (j + 1), List.range_succ_eq_map, List.foldl_cons, List.foldl_map]
    simp only [Nat.add_zero]
    congr 1
    funext acc i
    congr 2
    omega

end hmac2

/-! ### belt-keyrep -/

theorem H_eq : Bee2V.Gen.C01.H.toList = Spec.hBytes := by decide +kernel

theorem length_fmtKey (key : Bytes) (h : key.length = 16 ∨ key.length = 24 ∨ key.length = 32) :
    (fmtKey key).length = 32 := by
  rw [fmtKey, length_u32To]
  rcases h with h | h | h
  · rw [keyExpand2_16 key h, List.length_append, length_u32From, h]
  · obtain ⟨t1, t2, t3, t4, t5, t6, _, he⟩ := keyExpand2_24 key h
    rw [he]; rfl
  · rw [keyExpand2_32 key h, length_u32From, h]

theorem krpStepG_eq (C : Cipher) (src level header : Bytes) (m : Nat)
    (hn : src.length = 16 ∨ src.length = 24 ∨ src.length = 32) (hm : m ≤ 32)
    (hl : level.length = 12) (hh : header.length = 16) :
    krpStepG C (krpStart src level) m header = Spec.krp C.enc (fmtKey src) src.length m level header := by
  have hH : Spec.hBytes.length = 256 := by decide +kernel
  have hr : ((Spec.hBytes.drop (4 * (src.length - 16) + 2 * (m - 16))).take 4).length = 4 := by
    simp only [List.length_take, List.length_drop, hH]; omega
  simp only [krpStepG, krpStart, Spec.krp, H_eq]
  rw [compr_eq C _ _ (by simp only [List.length_append, hr, hl, hh]) (length_fmtKey src hn)]

end Bee2V.C01.SpecHashL

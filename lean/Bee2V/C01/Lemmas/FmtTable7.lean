/- kernel-checked rows of the beltFMTCalcB table: alphabet sizes 2050..3073, all counts 1..300 (static file; the
   constants come from the regenerated Bee2V.Gen.C01Tables through `calcB`) -/
import Bee2V.C01.Lemmas.FmtTable
set_option Elab.async false
namespace Bee2V.C01

set_option maxRecDepth 100000 in
theorem fmtRows_2050 : checkMods 64 2050 = true := by decide +kernel

set_option maxRecDepth 100000 in
theorem fmtRows_2114 : checkMods 64 2114 = true := by decide +kernel

set_option maxRecDepth 100000 in
theorem fmtRows_2178 : checkMods 64 2178 = true := by decide +kernel

set_option maxRecDepth 100000 in
theorem fmtRows_2242 : checkMods 64 2242 = true := by decide +kernel

set_option maxRecDepth 100000 in
theorem fmtRows_2306 : checkMods 64 2306 = true := by decide +kernel

set_option maxRecDepth 100000 in
theorem fmtRows_2370 : checkMods 64 2370 = true := by decide +kernel

set_option maxRecDepth 100000 in
theorem fmtRows_2434 : checkMods 64 2434 = true := by decide +kernel

set_option maxRecDepth 100000 in
theorem fmtRows_2498 : checkMods 64 2498 = true := by decide +kernel

set_option maxRecDepth 100000 in
theorem fmtRows_2562 : checkMods 64 2562 = true := by decide +kernel

set_option maxRecDepth 100000 in
theorem fmtRows_2626 : checkMods 64 2626 = true := by decide +kernel

set_option maxRecDepth 100000 in
theorem fmtRows_2690 : checkMods 64 2690 = true := by decide +kernel

set_option maxRecDepth 100000 in
theorem fmtRows_2754 : checkMods 64 2754 = true := by decide +kernel

set_option maxRecDepth 100000 in
theorem fmtRows_2818 : checkMods 64 2818 = true := by decide +kernel

set_option maxRecDepth 100000 in
theorem fmtRows_2882 : checkMods 64 2882 = true := by decide +kernel

set_option maxRecDepth 100000 in
theorem fmtRows_2946 : checkMods 64 2946 = true := by decide +kernel

set_option maxRecDepth 100000 in
theorem fmtRows_3010 : checkMods 64 3010 = true := by decide +kernel

theorem fmtFile_7 (mod count : Nat) (h1 : 2050 ≤ mod) (h2 : mod < 3074) (hc : 1 ≤ count) (hc' : count ≤ 300) :
    IsBlockCount mod count (calcB mod count) := by
  by_cases a0 : mod < 2114
  · exact checkMods_spec 64 2050 fmtRows_2050 mod count (by omega) (by omega) hc hc'
  by_cases a1 : mod < 2178
  · exact checkMods_spec 64 2114 fmtRows_2114 mod count (by omega) (by omega) hc hc'
  by_cases a2 : mod < 2242
  · exact checkMods_spec 64 2178 fmtRows_2178 mod count (by omega) (by omega) hc hc'
  by_cases a3 : mod < 2306
  · exact checkMods_spec 64 2242 fmtRows_2242 mod count (by omega) (by omega) hc hc'
  by_cases a4 : mod < 2370
  · exact checkMods_spec 64 2306 fmtRows_2306 mod count (by omega) (by omega) hc hc'
  by_cases a5 : mod < 2434
  · exact checkMods_spec 64 2370 fmtRows_2370 mod count (by omega) (by omega) hc hc'
  by_cases a6 : mod < 2498
  · exact checkMods_spec 64 2434 fmtRows_2434 mod count (by omega) (by omega) hc hc'
  by_cases a7 : mod < 2562
  · exact checkMods_spec 64 2498 fmtRows_2498 mod count (by omega) (by omega) hc hc'
  by_cases a8 : mod < 2626
  · exact checkMods_spec 64 2562 fmtRows_2562 mod count (by omega) (by omega) hc hc'
  by_cases a9 : mod < 2690
  · exact checkMods_spec 64 2626 fmtRows_2626 mod count (by omega) (by omega) hc hc'
  by_cases a10 : mod < 2754
  · exact checkMods_spec 64 2690 fmtRows_2690 mod count (by omega) (by omega) hc hc'
  by_cases a11 : mod < 2818
  · exact checkMods_spec 64 2754 fmtRows_2754 mod count (by omega) (by omega) hc hc'
  by_cases a12 : mod < 2882
  · exact checkMods_spec 64 2818 fmtRows_2818 mod count (by omega) (by omega) hc hc'
  by_cases a13 : mod < 2946
  · exact checkMods_spec 64 2882 fmtRows_2882 mod count (by omega) (by omega) hc hc'
  by_cases a14 : mod < 3010
  · exact checkMods_spec 64 2946 fmtRows_2946 mod count (by omega) (by omega) hc hc'
  exact checkMods_spec 64 3010 fmtRows_3010 mod count (by omega) (by omega) hc hc'

end Bee2V.C01

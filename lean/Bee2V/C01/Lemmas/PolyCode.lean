/-
C01: the C routine beltPolyMul = ppMul ; ppRedBelt ; wwCopy, composed from the C05 models of the
real pp routines (Karatsuba ppMul, word-level ppRedBelt), equals the model `polyMul` and the field
multiplication of GF(2^128) = GF(2)[x]/(x^128 + x^7 + x^2 + x + 1), for every word size.
-/
import Bee2V.C01.Lemmas.Poly
import Bee2V.C05.PropsPpMul
import Bee2V.C05.PropsPpRed
namespace Bee2V.C01.Poly
open Bee2V.C01 Bee2V.C05 Bee2V.C05.Spec Bee2V.C05.Pp

/-- multiplication in the field of the standard, on Nat-coded polynomials -/
def gfMul (a b : Nat) : Nat := pmod (Bee2V.C05.Spec.clmul a b) beltP

/-- `beltPolyMul(c, a, b, stack)` as the C composes it, on the word images (W_OF_B(128) words of `w` bits):
`ppMul(prod, a, n, b, n); ppRedBelt(prod); wwCopy(c, prod, n)` -/
def polyMulCode (w : Nat) (a b : Bytes) : Bytes :=
  let n := wOfB w 128
  natLE 16 (val w (ppRedBelt w (ppMul w (toWords w n (leNat a)) (toWords w n (leNat b)))))

theorem leNat_lt (b : Bytes) : leNat b < 2 ^ (8 * b.length) := by
  induction b with
  | nil => simp [leNat]
  | cons x xs ih =>
    simp only [leNat, List.length_cons]
    have hx := x.toNat_lt
    have : 2 ^ (8 * (xs.length + 1)) = 256 * 2 ^ (8 * xs.length) := by
      rw [show 8 * (xs.length + 1) = 8 * xs.length + 8 by omega, Nat.pow_add]; omega
    omega

theorem leNat_natLE (n v : Nat) : leNat (natLE n v) = v % 2 ^ (8 * n) := by
  induction n generalizing v with
  | zero => simp [natLE, leNat, Nat.mod_one]
  | succ n ih =>
    simp only [natLE, leNat, ih, UInt8.toNat_ofNat']
    have : 2 ^ (8 * (n + 1)) = 256 * 2 ^ (8 * n) := by
      rw [show 8 * (n + 1) = 8 * n + 8 by omega, Nat.pow_add]; omega
    rw [this, Nat.mod_mul]
    omega

theorem length_natLE (n v : Nat) : (natLE n v).length = n := by
  induction n generalizing v with
  | zero => rfl
  | succ n ih => simp [natLE, ih]

theorem wf_toWords (w n v : Nat) : Wf w (toWords w n v) := by
  induction n generalizing v with
  | zero => intro x hx; simp [toWords] at hx
  | succ n ih =>
    intro x hx
    simp only [toWords, List.mem_cons] at hx
    rcases hx with rfl | hx
    · exact Nat.mod_lt _ (Nat.two_pow_pos w)
    · exact ih _ x hx

theorem length_toWords (w n v : Nat) : (toWords w n v).length = n := by
  induction n generalizing v with
  | zero => rfl
  | succ n ih => simp [toWords, ih]

theorem val_toWords' (w n v : Nat) : val w (toWords w n v) = v % 2 ^ (w * n) := by
  induction n generalizing v with
  | zero => simp [toWords, val, Nat.mod_one]
  | succ n ih =>
    simp only [toWords, val, ih]
    rw [show w * (n + 1) = w + w * n by rw [Nat.mul_succ, Nat.add_comm], Nat.pow_add, Nat.mod_mul]

theorem gfMul_lt (a b : Nat) : gfMul a b < 2 ^ 128 := by
  have := (pdivmod_spec (Bee2V.C05.Spec.clmul a b) beltP beltP_ne).2
  rw [beltP_log2] at this
  exact this

/-- the executable model of beltPolyMul is the field multiplication -/
theorem polyMul_gf (a b : Bytes) (ha : a.length = 16) (hb : b.length = 16) :
    leNat (polyMul a b) = gfMul (leNat a) (leNat b) ∧ (polyMul a b).length = 16 := by
  have hA := leNat_lt a
  have hB := leNat_lt b
  rw [ha] at hA; rw [hb] at hB
  have hc : Bee2V.C05.Spec.clmul (leNat a) (leNat b) < 2 ^ (128 + 128) :=
    Bee2V.C05.PpMul.clmul_lt (by simpa using hA) (by simpa using hB)
  simp only [polyMul, leNat_natLE, length_natLE, and_true]
  rw [clmul_model _ 128 _ (by simpa using hB), redBelt_spec 128 _ hc]
  exact Nat.mod_eq_of_lt (gfMul_lt _ _)

theorem polyMul_eq (a b : Bytes) (ha : a.length = 16) (hb : b.length = 16) :
    polyMul a b = natLE 16 (gfMul (leNat a) (leNat b)) := by
  have hA := leNat_lt a
  have hB := leNat_lt b
  rw [ha] at hA; rw [hb] at hB
  have hc : Bee2V.C05.Spec.clmul (leNat a) (leNat b) < 2 ^ (128 + 128) :=
    Bee2V.C05.PpMul.clmul_lt (by simpa using hA) (by simpa using hB)
  simp only [polyMul]
  rw [clmul_model _ 128 _ (by simpa using hB), redBelt_spec 128 _ hc]
  rfl

/-- the composition of the real pp routines gives the same octets, for B_PER_W ∈ {16, 32, 64} -/
theorem polyMulCode_eq (w : Nat) (hw : w = 16 ∨ w = 32 ∨ w = 64) (a b : Bytes) (ha : a.length = 16) (hb : b.length = 16) :
    polyMulCode w a b = natLE 16 (gfMul (leNat a) (leNat b)) := by
  have hA := leNat_lt a
  have hB := leNat_lt b
  rw [ha] at hA; rw [hb] at hB
  have hn : w * wOfB w 128 = 128 := by rcases hw with h | h | h <;> subst h <;> decide
  have h7 : 7 < w := by omega
  have h2 : 2 ≤ wOfB w 128 := by rcases hw with h | h | h <;> subst h <;> decide
  simp only [polyMulCode]
  have hm := ppMul_spec w hw (toWords w (wOfB w 128) (leNat a)) (toWords w (wOfB w 128) (leNat b))
    (wf_toWords _ _ _) (wf_toWords _ _ _)
  have hr := ppRedBelt_spec w _ h7 h2 hn hm.2.1 (by rw [hm.2.2, length_toWords, length_toWords]; omega)
  rw [hr.1, hm.1, val_toWords', val_toWords', hn,
    Nat.mod_eq_of_lt (by simpa using hA), Nat.mod_eq_of_lt (by simpa using hB)]
  rfl


/-! ### field laws of `gfMul` (from the ring theory of `clmul` proved in C05) -/

theorem cong_pmod (x : Nat) : Cong beltP (pmod x beltP) x := by
  refine ⟨(pdivmod x beltP).1, ?_⟩
  rw [pmod_eq x beltP beltP_ne, Nat.xor_comm x, Nat.xor_assoc, Nat.xor_self, Nat.xor_zero]

theorem pmod_lt (x : Nat) : pmod x beltP < 2 ^ 128 := by
  have := (pdivmod_spec x beltP beltP_ne).2
  rw [beltP_log2] at this
  exact this

theorem pmod_xor (x y : Nat) : pmod (x ^^^ y) beltP = pmod x beltP ^^^ pmod y beltP := by
  have h := pmod_cong beltP_ne (cong_xor (cong_pmod x) (cong_pmod y))
  rw [← h]
  exact pmod_of_lt beltP_ne (by rw [beltP_log2]; exact Nat.xor_lt_two_pow (pmod_lt x) (pmod_lt y))

theorem cong_clmul_right {x y : Nat} (c : Nat) (h : Cong beltP x y) :
    Cong beltP (Bee2V.C05.Spec.clmul x c) (Bee2V.C05.Spec.clmul y c) := by
  obtain ⟨k, hk⟩ := h
  refine ⟨Bee2V.C05.Spec.clmul k c, ?_⟩
  rw [← xor_clmul, hk, clmul_assoc, clmul_comm beltP c, ← clmul_assoc]

theorem gfMul_comm (a b : Nat) : gfMul a b = gfMul b a := by
  simp only [gfMul, clmul_comm a b]

theorem gfMul_assoc (a b c : Nat) : gfMul (gfMul a b) c = gfMul a (gfMul b c) := by
  have h1 : gfMul (gfMul a b) c = pmod (Bee2V.C05.Spec.clmul (Bee2V.C05.Spec.clmul a b) c) beltP :=
    pmod_cong beltP_ne (cong_clmul_right c (cong_pmod _))
  have h2 : gfMul a (gfMul b c) = pmod (Bee2V.C05.Spec.clmul a (Bee2V.C05.Spec.clmul b c)) beltP := by
    simp only [gfMul]
    rw [clmul_comm a, clmul_comm a]
    exact pmod_cong beltP_ne (cong_clmul_right a (cong_pmod _))
  rw [h1, h2, clmul_assoc]

theorem gfMul_xor (a b c : Nat) : gfMul a (b ^^^ c) = gfMul a b ^^^ gfMul a c := by
  simp only [gfMul, clmul_xor, pmod_xor]

theorem gfMul_one (a : Nat) (ha : a < 2 ^ 128) : gfMul a 1 = a := by
  simp only [gfMul, clmul_one]
  exact pmod_of_lt beltP_ne (by rw [beltP_log2]; exact ha)

theorem gfMul_zero (a : Nat) : gfMul a 0 = 0 := by
  simp only [gfMul, clmul_zero]
  exact pmod_of_lt beltP_ne (Nat.two_pow_pos _)

end Bee2V.C01.Poly

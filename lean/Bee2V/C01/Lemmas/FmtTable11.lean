/- kernel-checked rows of the beltFMTCalcB table: alphabet sizes 6146..7169, all counts 1..300 (static file; the
   constants come from the regenerated Bee2V.Gen.C01Tables through `calcB`) -/
import Bee2V.C01.Lemmas.FmtTable
set_option Elab.async false
namespace Bee2V.C01

set_option maxRecDepth 100000 in
theorem fmtRows_6146 : checkMods 64 6146 = true := by decide +kernel

set_option maxRecDepth 100000 in
theorem fmtRows_6210 : checkMods 64 6210 = true := by decide +kernel

set_option maxRecDepth 100000 in
theorem fmtRows_6274 : checkMods 64 6274 = true := by decide +kernel

set_option maxRecDepth 100000 in
theorem fmtRows_6338 : checkMods 64 6338 = true := by decide +kernel

set_option maxRecDepth 100000 in
theorem fmtRows_6402 : checkMods 64 6402 = true := by decide +kernel

set_option maxRecDepth 100000 in
theorem fmtRows_6466 : checkMods 64 6466 = true := by decide +kernel

set_option maxRecDepth 100000 in
theorem fmtRows_6530 : checkMods 64 6530 = true := by decide +kernel

set_option maxRecDepth 100000 in
theorem fmtRows_6594 : checkMods 64 6594 = true := by decide +kernel

set_option maxRecDepth 100000 in
theorem fmtRows_6658 : checkMods 64 6658 = true := by decide +kernel

set_option maxRecDepth 100000 in
theorem fmtRows_6722 : checkMods 64 6722 = true := by decide +kernel

set_option maxRecDepth 100000 in
theorem fmtRows_6786 : checkMods 64 6786 = true := by decide +kernel

set_option maxRecDepth 100000 in
theorem fmtRows_6850 : checkMods 64 6850 = true := by decide +kernel

set_option maxRecDepth 100000 in
theorem fmtRows_6914 : checkMods 64 6914 = true := by decide +kernel

set_option maxRecDepth 100000 in
theorem fmtRows_6978 : checkMods 64 6978 = true := by decide +kernel

set_option maxRecDepth 100000 in
theorem fmtRows_7042 : checkMods 64 7042 = true := by decide +kernel

set_option maxRecDepth 100000 in
theorem fmtRows_7106 : checkMods 64 7106 = true := by decide +kernel

theorem fmtFile_11 (mod count : Nat) (h1 : 6146 ≤ mod) (h2 : mod < 7170) (hc : 1 ≤ count) (hc' : count ≤ 300) :
    IsBlockCount mod count (calcB mod count) := by
  by_cases a0 : mod < 6210
  · exact checkMods_spec 64 6146 fmtRows_6146 mod count (by omega) (by omega) hc hc'
  by_cases a1 : mod < 6274
  · exact checkMods_spec 64 6210 fmtRows_6210 mod count (by omega) (by omega) hc hc'
  by_cases a2 : mod < 6338
  · exact checkMods_spec 64 6274 fmtRows_6274 mod count (by omega) (by omega) hc hc'
  by_cases a3 : mod < 6402
  · exact checkMods_spec 64 6338 fmtRows_6338 mod count (by omega) (by omega) hc hc'
  by_cases a4 : mod < 6466
  · exact checkMods_spec 64 6402 fmtRows_6402 mod count (by omega) (by omega) hc hc'
  by_cases a5 : mod < 6530
  · exact checkMods_spec 64 6466 fmtRows_6466 mod count (by omega) (by omega) hc hc'
  by_cases a6 : mod < 6594
  · exact checkMods_spec 64 6530 fmtRows_6530 mod count (by omega) (by omega) hc hc'
  by_cases a7 : mod < 6658
  · exact checkMods_spec 64 6594 fmtRows_6594 mod count (by omega) (by omega) hc hc'
  by_cases a8 : mod < 6722
  · exact checkMods_spec 64 6658 fmtRows_6658 mod count (by omega) (by omega) hc hc'
  by_cases a9 : mod < 6786
  · exact checkMods_spec 64 6722 fmtRows_6722 mod count (by omega) (by omega) hc hc'
  by_cases a10 : mod < 6850
  · exact checkMods_spec 64 6786 fmtRows_6786 mod count (by omega) (by omega) hc hc'
  by_cases a11 : mod < 6914
  · exact checkMods_spec 64 6850 fmtRows_6850 mod count (by omega) (by omega) hc hc'
  by_cases a12 : mod < 6978
  · exact checkMods_spec 64 6914 fmtRows_6914 mod count (by omega) (by omega) hc hc'
  by_cases a13 : mod < 7042
  · exact checkMods_spec 64 6978 fmtRows_6978 mod count (by omega) (by omega) hc hc'
  by_cases a14 : mod < 7106
  · exact checkMods_spec 64 7042 fmtRows_7042 mod count (by omega) (by omega) hc hc'
  exact checkMods_spec 64 7106 fmtRows_7106 mod count (by omega) (by omega) hc hc'

end Bee2V.C01

/- kernel-checked rows of the beltFMTCalcB table: alphabet sizes 8194..9217, all counts 1..300 (static file; the
   constants come from the regenerated Bee2V.Gen.C01Tables through `calcB`) -/
import Bee2V.C01.Lemmas.FmtTable
set_option Elab.async false
namespace Bee2V.C01

set_option maxRecDepth 100000 in
theorem fmtRows_8194 : checkMods 64 8194 = true := by decide +kernel

set_option maxRecDepth 100000 in
theorem fmtRows_8258 : checkMods 64 8258 = true := by decide +kernel

set_option maxRecDepth 100000 in
theorem fmtRows_8322 : checkMods 64 8322 = true := by decide +kernel

set_option maxRecDepth 100000 in
theorem fmtRows_8386 : checkMods 64 8386 = true := by decide +kernel

set_option maxRecDepth 100000 in
theorem fmtRows_8450 : checkMods 64 8450 = true := by decide +kernel

set_option maxRecDepth 100000 in
theorem fmtRows_8514 : checkMods 64 8514 = true := by decide +kernel

set_option maxRecDepth 100000 in
theorem fmtRows_8578 : checkMods 64 8578 = true := by decide +kernel

set_option maxRecDepth 100000 in
theorem fmtRows_8642 : checkMods 64 8642 = true := by decide +kernel

set_option maxRecDepth 100000 in
theorem fmtRows_8706 : checkMods 64 8706 = true := by decide +kernel

set_option maxRecDepth 100000 in
theorem fmtRows_8770 : checkMods 64 8770 = true := by decide +kernel

set_option maxRecDepth 100000 in
theorem fmtRows_8834 : checkMods 64 8834 = true := by decide +kernel

set_option maxRecDepth 100000 in
theorem fmtRows_8898 : checkMods 64 8898 = true := by decide +kernel

set_option maxRecDepth 100000 in
theorem fmtRows_8962 : checkMods 64 8962 = true := by decide +kernel

set_option maxRecDepth 100000 in
theorem fmtRows_9026 : checkMods 64 9026 = true := by decide +kernel

set_option maxRecDepth 100000 in
theorem fmtRows_9090 : checkMods 64 9090 = true := by decide +kernel

set_option maxRecDepth 100000 in
theorem fmtRows_9154 : checkMods 64 9154 = true := by decide +kernel

theorem fmtFile_13 (mod count : Nat) (h1 : 8194 ≤ mod) (h2 : mod < 9218) (hc : 1 ≤ count) (hc' : count ≤ 300) :
    IsBlockCount mod count (calcB mod count) := by
  by_cases a0 : mod < 8258
  · exact checkMods_spec 64 8194 fmtRows_8194 mod count (by omega) (by omega) hc hc'
  by_cases a1 : mod < 8322
  · exact checkMods_spec 64 8258 fmtRows_8258 mod count (by omega) (by omega) hc hc'
  by_cases a2 : mod < 8386
  · exact checkMods_spec 64 8322 fmtRows_8322 mod count (by omega) (by omega) hc hc'
  by_cases a3 : mod < 8450
  · exact checkMods_spec 64 8386 fmtRows_8386 mod count (by omega) (by omega) hc hc'
  by_cases a4 : mod < 8514
  · exact checkMods_spec 64 8450 fmtRows_8450 mod count (by omega) (by omega) hc hc'
  by_cases a5 : mod < 8578
  · exact checkMods_spec 64 8514 fmtRows_8514 mod count (by omega) (by omega) hc hc'
  by_cases a6 : mod < 8642
  · exact checkMods_spec 64 8578 fmtRows_8578 mod count (by omega) (by omega) hc hc'
  by_cases a7 : mod < 8706
  · exact checkMods_spec 64 8642 fmtRows_8642 mod count (by omega) (by omega) hc hc'
  by_cases a8 : mod < 8770
  · exact checkMods_spec 64 8706 fmtRows_8706 mod count (by omega) (by omega) hc hc'
  by_cases a9 : mod < 8834
  · exact checkMods_spec 64 8770 fmtRows_8770 mod count (by omega) (by omega) hc hc'
  by_cases a10 : mod < 8898
  · exact checkMods_spec 64 8834 fmtRows_8834 mod count (by omega) (by omega) hc hc'
  by_cases a11 : mod < 8962
  · exact checkMods_spec 64 8898 fmtRows_8898 mod count (by omega) (by omega) hc hc'
  by_cases a12 : mod < 9026
  · exact checkMods_spec 64 8962 fmtRows_8962 mod count (by omega) (by omega) hc hc'
  by_cases a13 : mod < 9090
  · exact checkMods_spec 64 9026 fmtRows_9026 mod count (by omega) (by omega) hc hc'
  by_cases a14 : mod < 9154
  · exact checkMods_spec 64 9090 fmtRows_9090 mod count (by omega) (by omega) hc hc'
  exact checkMods_spec 64 9154 fmtRows_9154 mod count (by omega) (by omega) hc hc'

end Bee2V.C01

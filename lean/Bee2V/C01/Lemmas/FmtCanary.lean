/-
A few rows of the beltFMTCalcB table, kernel-checked in seconds.  props/C01.py builds this module first: if the
constants regenerated from belt_fmt.c no longer give the exact block count on these rows, the check reports the
proofs as broken without first spending an hour of CPU on the 21 FmtTable files.
-/
import Bee2V.C01.Lemmas.FmtTable
namespace Bee2V.C01

def fmtCanaryRows : List Nat :=
  [2, 3, 7, 10, 58, 255, 256, 257, 1000, 4093, 10007, 16385, 30011, 39264, 49667, 65521, 65535, 65536]

set_option maxRecDepth 100000 in
theorem fmtCanary : (fmtCanaryRows.all fun m => checkMods 1 m) = true := by decide +kernel

end Bee2V.C01

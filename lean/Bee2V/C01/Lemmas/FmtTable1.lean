/- kernel-checked rows of the beltFMTCalcB table: alphabet sizes 2..257, all counts 1..300 -/
import Bee2V.C01.Lemmas.FmtTable
namespace Bee2V.C01

set_option maxRecDepth 100000 in
theorem fmtRows_2 : checkMods 64 2 = true := by decide +kernel

set_option maxRecDepth 100000 in
theorem fmtRows_66 : checkMods 64 66 = true := by decide +kernel

set_option maxRecDepth 100000 in
theorem fmtRows_130 : checkMods 64 130 = true := by decide +kernel

set_option maxRecDepth 100000 in
theorem fmtRows_194 : checkMods 64 194 = true := by decide +kernel

end Bee2V.C01

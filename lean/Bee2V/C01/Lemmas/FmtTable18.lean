/- kernel-checked rows of the beltFMTCalcB table: alphabet sizes 13314..14337, all counts 1..300 (static file; the
   constants come from the regenerated Bee2V.Gen.C01Tables through `calcB`) -/
import Bee2V.C01.Lemmas.FmtTable
set_option Elab.async false
namespace Bee2V.C01

set_option maxRecDepth 100000 in
theorem fmtRows_13314 : checkMods 64 13314 = true := by decide +kernel

set_option maxRecDepth 100000 in
theorem fmtRows_13378 : checkMods 64 13378 = true := by decide +kernel

set_option maxRecDepth 100000 in
theorem fmtRows_13442 : checkMods 64 13442 = true := by decide +kernel

set_option maxRecDepth 100000 in
theorem fmtRows_13506 : checkMods 64 13506 = true := by decide +kernel

set_option maxRecDepth 100000 in
theorem fmtRows_13570 : checkMods 64 13570 = true := by decide +kernel

set_option maxRecDepth 100000 in
theorem fmtRows_13634 : checkMods 64 13634 = true := by decide +kernel

set_option maxRecDepth 100000 in
theorem fmtRows_13698 : checkMods 64 13698 = true := by decide +kernel

set_option maxRecDepth 100000 in
theorem fmtRows_13762 : checkMods 64 13762 = true := by decide +kernel

set_option maxRecDepth 100000 in
theorem fmtRows_13826 : checkMods 64 13826 = true := by decide +kernel

set_option maxRecDepth 100000 in
theorem fmtRows_13890 : checkMods 64 13890 = true := by decide +kernel

set_option maxRecDepth 100000 in
theorem fmtRows_13954 : checkMods 64 13954 = true := by decide +kernel

set_option maxRecDepth 100000 in
theorem fmtRows_14018 : checkMods 64 14018 = true := by decide +kernel

set_option maxRecDepth 100000 in
theorem fmtRows_14082 : checkMods 64 14082 = true := by decide +kernel

set_option maxRecDepth 100000 in
theorem fmtRows_14146 : checkMods 64 14146 = true := by decide +kernel

set_option maxRecDepth 100000 in
theorem fmtRows_14210 : checkMods 64 14210 = true := by decide +kernel

set_option maxRecDepth 100000 in
theorem fmtRows_14274 : checkMods 64 14274 = true := by decide +kernel

theorem fmtFile_18 (mod count : Nat) (h1 : 13314 ≤ mod) (h2 : mod < 14338) (hc : 1 ≤ count) (hc' : count ≤ 300) :
    IsBlockCount mod count (calcB mod count) := by
  by_cases a0 : mod < 13378
  · exact checkMods_spec 64 13314 fmtRows_13314 mod count (by omega) (by omega) hc hc'
  by_cases a1 : mod < 13442
  · exact checkMods_spec 64 13378 fmtRows_13378 mod count (by omega) (by omega) hc hc'
  by_cases a2 : mod < 13506
  · exact checkMods_spec 64 13442 fmtRows_13442 mod count (by omega) (by omega) hc hc'
  by_cases a3 : mod < 13570
  · exact checkMods_spec 64 13506 fmtRows_13506 mod count (by omega) (by omega) hc hc'
  by_cases a4 : mod < 13634
  · exact checkMods_spec 64 13570 fmtRows_13570 mod count (by omega) (by omega) hc hc'
  by_cases a5 : mod < 13698
  · exact checkMods_spec 64 13634 fmtRows_13634 mod count (by omega) (by omega) hc hc'
  by_cases a6 : mod < 13762
  · exact checkMods_spec 64 13698 fmtRows_13698 mod count (by omega) (by omega) hc hc'
  by_cases a7 : mod < 13826
  · exact checkMods_spec 64 13762 fmtRows_13762 mod count (by omega) (by omega) hc hc'
  by_cases a8 : mod < 13890
  · exact checkMods_spec 64 13826 fmtRows_13826 mod count (by omega) (by omega) hc hc'
  by_cases a9 : mod < 13954
  · exact checkMods_spec 64 13890 fmtRows_13890 mod count (by omega) (by omega) hc hc'
  by_cases a10 : mod < 14018
  · exact checkMods_spec 64 13954 fmtRows_13954 mod count (by omega) (by omega) hc hc'
  by_cases a11 : mod < 14082
  · exact checkMods_spec 64 14018 fmtRows_14018 mod count (by omega) (by omega) hc hc'
  by_cases a12 : mod < 14146
  · exact checkMods_spec 64 14082 fmtRows_14082 mod count (by omega) (by omega) hc hc'
  by_cases a13 : mod < 14210
  · exact checkMods_spec 64 14146 fmtRows_14146 mod count (by omega) (by omega) hc hc'
  by_cases a14 : mod < 14274
  · exact checkMods_spec 64 14210 fmtRows_14210 mod count (by omega) (by omega) hc hc'
  exact checkMods_spec 64 14274 fmtRows_14274 mod count (by omega) (by omega) hc hc'

end Bee2V.C01
